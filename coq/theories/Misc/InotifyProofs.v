(* InotifyProofs.v -- proofs of the C20 theorems about the iv_inotify model. *)
From Coq Require Import List ZArith Bool Lia Sorted.
From Ivv Require Import Misc.InotifyModel Misc.InotifyMonitor Misc.InotifySpec Misc.InotifyCodec Misc.InotifyInv.
Import ListNotations.
Local Open Scope Z_scope.

(* ---------- reflexivity of the monitor's comparisons ---------- *)
Lemma zlist_eqb_refl : forall l, zlist_eqb l l = true.
Proof. induction l as [|x l IH]; cbn [zlist_eqb]; [reflexivity|]. rewrite Z.eqb_refl. exact IH. Qed.

Lemma zlist_eqb_eq : forall a b, zlist_eqb a b = true -> a = b.
Proof.
  induction a as [|x a IH]; intros [|y b] H; cbn [zlist_eqb] in H; try discriminate; [reflexivity|].
  apply andb_prop in H. destruct H as [H1 H2]. apply Z.eqb_eq in H1. subst. f_equal. auto.
Qed.

Lemma view_eqb_refl : forall l, view_eqb l l = true.
Proof.
  induction l as [|[k x] l IH]; cbn [view_eqb]; [reflexivity|].
  rewrite Z.eqb_refl, Pos.eqb_refl. exact IH.
Qed.

Lemma act_eqb_refl : forall a, act_eqb a a = true.
Proof.
  destruct a; cbn [act_eqb]; rewrite ?Pos.eqb_refl, ?Z.eqb_refl, ?Bool.eqb_reflx; reflexivity.
Qed.

Lemma acts_eqb_refl : forall l, acts_eqb l l = true.
Proof. induction l as [|a l IH]; cbn [acts_eqb]; [reflexivity|]. rewrite act_eqb_refl. exact IH. Qed.

Lemma mem_id_false : forall w l, ~ In w l -> mem_id w l = false.
Proof.
  intros w l H. unfold mem_id. destruct (existsb (Pos.eqb w) l) eqn:E; [|reflexivity].
  apply existsb_exists in E. destruct E as [x [Hin Hx]]. apply Pos.eqb_eq in Hx. subst. contradiction.
Qed.

Lemma mem_id_true : forall w l, mem_id w l = true -> In w l.
Proof.
  intros w l E. unfold mem_id in E. apply existsb_exists in E. destruct E as [x [Hin Hx]].
  apply Pos.eqb_eq in Hx. subst. assumption.
Qed.

(* ---------- entering and leaving the frame ---------- *)
Lemma Inv_same_sets : forall s s', Inv s ->
  (forall w, wtab s' w = wtab s w) ->
  (forall j, option_map i_watches (itab s' j) = option_map i_watches (itab s j)) ->
  (forall j jr, itab s' j = Some jr -> i_term jr = term_of_frame (frame s') j) ->
  (forall j, frame s' = Some (Some j) -> itab s' j <> None) ->
  Inv s'.
Proof.
  intros s s' H Hw Hi Ht Hf.
  assert (Hget : forall j jr', itab s' j = Some jr' -> exists jr, itab s j = Some jr /\ i_watches jr = i_watches jr').
  { intros j jr' E. specialize (Hi j). rewrite E in Hi. destruct (itab s j) as [jr|]; [|discriminate].
    cbn in Hi. inversion Hi. eauto. }
  constructor.
  - intros j jr' E. destruct (Hget j jr' E) as [jr [E0 Ew]]. rewrite <- Ew. eapply inv_sorted; eauto.
  - intros j jr' E. destruct (Hget j jr' E) as [jr [E0 Ew]]. rewrite <- Ew. eapply inv_nodup; eauto.
  - intros j jr' wd w E Hin. destruct (Hget j jr' E) as [jr [E0 Ew]]. rewrite <- Ew in Hin. rewrite Hw.
    eapply inv_tree_w; eauto.
  - intros w wr E. rewrite Hw in E. destruct (inv_w_tree s H w wr E) as [jr [Ej Hin]].
    specialize (Hi (w_inst wr)). rewrite Ej in Hi. destruct (itab s' (w_inst wr)) as [jr'|]; [|discriminate].
    cbn in Hi. inversion Hi. exists jr'. split; [reflexivity|]. congruence.
  - exact Ht.
  - exact Hf.
  - intros j jr' w E. destruct (Hget j jr' E) as [jr [E0 Ew]]. rewrite <- Ew. eapply inv_wd; eauto.
Qed.

Lemma Inv_enter : forall s i ir, Inv s -> frame s = None -> itab s i = Some ir -> Inv (enter s i ir).
Proof.
  intros s i ir H F Ei. apply (Inv_same_sets s); [assumption| | | |]; unfold enter;
    cbn [set_frame set_inst set_itab itab wtab frame].
  - reflexivity.
  - intros j. destruct (Pos.eq_dec j i) as [->|n]; [rewrite upd_same, Ei; reflexivity|rewrite upd_other by assumption; reflexivity].
  - intros j jr E. destruct (Pos.eq_dec j i) as [->|n].
    + rewrite upd_same in E. inversion E; subst. cbn [i_term term_of_frame]. rewrite Pos.eqb_refl. reflexivity.
    + rewrite upd_other in E by assumption. rewrite (inv_term s H j jr E), F. cbn [term_of_frame].
      destruct (Pos.eqb_spec i j); [congruence|reflexivity].
  - intros j E. inversion E; subst. rewrite upd_same. discriminate.
Qed.

Lemma Inv_leave : forall s i, Inv s -> (frame s = Some (Some i) \/ frame s = Some None) ->
  Inv (leave s) /\ frame (leave s) = None.
Proof.
  intros s i H [F|F]; unfold leave; rewrite F.
  - destruct (itab s i) as [ir|] eqn:Ei; [|exfalso; eapply inv_frame; eauto].
    split; [|reflexivity].
    apply (Inv_same_sets s); [assumption| | | |]; cbn [set_frame set_inst set_itab itab wtab frame].
    + reflexivity.
    + intros j. destruct (Pos.eq_dec j i) as [->|n]; [rewrite upd_same, Ei; reflexivity|rewrite upd_other by assumption; reflexivity].
    + intros j jr E. cbn [term_of_frame]. destruct (Pos.eq_dec j i) as [->|n].
      * rewrite upd_same in E. inversion E; subst. reflexivity.
      * rewrite upd_other in E by assumption. rewrite (inv_term s H j jr E), F. cbn [term_of_frame].
        destruct (Pos.eqb_spec i j); [congruence|reflexivity].
    + intros j E. discriminate.
  - split; [|reflexivity].
    apply (Inv_same_sets s); [assumption| | | |]; cbn [set_frame itab wtab frame]; try reflexivity.
    + intros j jr E. rewrite (inv_term s H j jr E), F. reflexivity.
    + intros j E. discriminate.
Qed.

(* ---------- one record ---------- *)
Definition mk_delivery (i w : id) (wr : watch) (e : event) (s1 s2 : state) (lg : list (act * Z)) : delivery :=
  {| d_w := w; d_wd := e_wd e; d_mask := e_mask e; d_cookie := e_cookie e; d_name := e_name e;
     d_wmask := w_mask wr;
     d_entry := match watches_of s1 i with Some l => l | None => [] end;
     d_acts := lg;
     d_exit := if unreg_inst i lg then None else watches_of s2 i |}.

Lemma deliver_one_ok : forall sc s i ir e, Inv s -> frame s = Some (Some i) -> itab s i = Some ir ->
  (reg_of s i (e_wd e) = None /\
   deliver_one sc s i ir (e_wd e) (e_mask e) (e_cookie e) (e_name e) = (Ok s, []))
  \/
  (exists w wr s1 s2 lg,
     reg_of s i (e_wd e) = Some w /\ wtab s w = Some wr /\ w_inst wr = i /\ w_wd wr = e_wd e /\
     s1 = (if is_dropped (e_mask e) (w_mask wr) then drop_watch s i w else s) /\
     Inv s1 /\ frame s1 = Some (Some i) /\
     (is_dropped (e_mask e) (w_mask wr) = true -> wtab s1 w = None) /\
     (forall x, wtab s x = None -> wtab s1 x = None) /\
     do_acts s1 (sc w (e_cookie e)) = (Ok s2, lg) /\ Inv s2 /\ map fst lg = sc w (e_cookie e) /\
     frame s2 = (if unreg_inst i lg then Some None else Some (Some i)) /\
     (forall dead, (forall x, In x dead -> wtab s1 x = None) ->
                   forall x, In x (dead_after lg dead) -> wtab s2 x = None) /\
     deliver_one sc s i ir (e_wd e) (e_mask e) (e_cookie e) (e_name e) = (Ok s2, [mk_delivery i w wr e s1 s2 lg])).
Proof.
  intros sc s i ir e H F Ei.
  unfold deliver_one, reg_of, watches_of. rewrite Ei.
  rewrite (find_watch_lookup _ _ (inv_sorted s H i ir Ei)).
  destruct (lookup (i_watches ir) (e_wd e)) as [w|] eqn:El; [right|left; split; reflexivity].
  pose proof (lookup_in _ _ _ El) as Hin.
  destruct (inv_tree_w s H i ir _ _ Ei Hin) as [m Hw].
  rewrite Hw. cbn [w_mask].
  set (wr := {| w_inst := i; w_wd := e_wd e; w_mask := m |}) in *.
  fold (is_dropped (e_mask e) m).
  destruct (inv_watch_lookup s w wr H Hw) as [ir' [Ei' [Hids Hdel]]]. cbn [wr w_inst] in Ei'.
  rewrite Ei in Ei'. inversion Ei'; subst ir'. clear Ei'.
  remember (if is_dropped (e_mask e) m then drop_watch s i w else s) as s1 eqn:Es1.
  assert (Hs1 : Inv s1 /\ frame s1 = Some (Some i) /\
                (is_dropped (e_mask e) m = true -> wtab s1 w = None) /\
                (forall x, wtab s x = None -> wtab s1 x = None)).
  { subst s1. destruct (is_dropped (e_mask e) m).
    - unfold drop_watch. rewrite Ei. split; [|split; [|split]].
      + apply (Inv_remove_watch s w wr ir H Hw Ei).
      + exact F.
      + intros _. cbn [free_watch set_wtab wtab]. apply upd_same.
      + intros x Hx. cbn [free_watch set_inst set_itab set_wtab wtab].
        destruct (Pos.eq_dec x w) as [->|n]; [apply upd_same|rewrite upd_other by assumption; assumption].
    - split; [assumption|]. split; [assumption|]. split; [discriminate|auto]. }
  destruct Hs1 as [H1 [F1 [Hd1 Ha1]]].
  destruct (do_acts_ok (sc w (e_cookie e)) s1 H1) as [s2 [lg [E2 [H2 [M2 [F2 D2]]]]]].
  rewrite F1, frames_after_this in F2.
  exists w, wr, s1, s2, lg.
  split; [reflexivity|]. split; [assumption|]. split; [reflexivity|]. split; [reflexivity|].
  split; [assumption|]. split; [assumption|]. split; [assumption|]. split; [assumption|].
  split; [assumption|]. split; [assumption|]. split; [assumption|]. split; [assumption|].
  split; [assumption|]. split; [assumption|].
  unfold mk_delivery. cbn [w_mask wr].
  (* the model's intermediate states are s1 *)
  assert (Ex : exit_view s2 = if unreg_inst i lg then None else watches_of s2 i).
  { unfold exit_view. rewrite F2. destruct (unreg_inst i lg); reflexivity. }
  clear Hd1. destruct (is_dropped (e_mask e) m).
  - rewrite Hdel. subst s1. unfold drop_watch in *. rewrite Ei in *.
    unfold without in *. rewrite E2, Ex. reflexivity.
  - subst s1. rewrite E2, Ex. reflexivity.
Qed.

Lemma handled_of : forall sc s i e w wr s1 s2 lg,
  reg_of s i (e_wd e) = Some w -> wtab s w = Some wr ->
  s1 = (if is_dropped (e_mask e) (w_mask wr) then drop_watch s i w else s) ->
  do_acts s1 (sc w (e_cookie e)) = (Ok s2, lg) ->
  handled sc i s e (mk_delivery i w wr e s1 s2 lg) s2.
Proof.
  intros. exists w, wr, s1. unfold mk_delivery. cbn. repeat split; auto.
Qed.


(* ---------- the loop on events ---------- *)
Lemma loop_ev_ok : forall sc i evs s, Inv s -> frame s = Some (Some i) ->
  exists s' tr, loop_ev sc s evs = (Ok s', tr) /\ Inv s' /\
    (frame s' = Some (Some i) \/ frame s' = Some None) /\
    routed sc i s evs tr s' /\ Forall drop_ok tr.
Proof.
  induction evs as [|e evs IH]; intros s H F.
  - exists s, []. cbn [loop_ev]. split; [reflexivity|]. split; [assumption|]. split; [left; assumption|].
    split; constructor.
  - destruct (itab s i) as [ir|] eqn:Ei; [|exfalso; eapply inv_frame; eauto].
    cbn [loop_ev]. rewrite F, Ei.
    destruct (deliver_one_ok sc s i ir e H F Ei) as
      [[Hr Ed]|(w & wr & s1 & s2 & lg & Hr & Hw & Hwi & Hwd & Es1 & H1 & F1 & Hd1 & Ha1 & E2 & H2 & M2 & F2 & D2 & Ed)].
    + rewrite Ed, F. destruct (IH s H F) as [s' [tr [El [H' [F' [R' D']]]]]].
      rewrite El. exists s', tr. cbn [app]. split; [reflexivity|]. split; [assumption|]. split; [assumption|].
      split; [apply R_skip; assumption|assumption].
    + rewrite Ed.
      assert (Hh : handled sc i s e (mk_delivery i w wr e s1 s2 lg) s2) by (eapply handled_of; eauto).
      assert (Hdrop : drop_ok (mk_delivery i w wr e s1 s2 lg)).
      { unfold drop_ok, mk_delivery. cbn [d_mask d_wmask d_w d_wd d_entry].
        unfold reg_of, watches_of in Hr. rewrite Ei in Hr. rewrite Es1.
        destruct (is_dropped (e_mask e) (w_mask wr)).
        - unfold drop_watch, watches_of. rewrite Ei. cbn [free_watch set_inst set_itab set_wtab itab].
          rewrite upd_same. cbn [i_watches]. intros Hin. apply ids_in in Hin. destruct Hin as [k Hk].
          apply (without_in w (i_watches ir) k w) in Hk. destruct Hk as [_ Hk]. congruence.
        - unfold watches_of. rewrite Ei. apply lookup_in. assumption. }
      destruct (unreg_inst i lg) eqn:Eu.
      * rewrite F2. exists s2, [mk_delivery i w wr e s1 s2 lg].
        split; [reflexivity|]. split; [assumption|]. split; [right; assumption|].
        split; [|constructor; [assumption|constructor]].
        apply R_stop; assumption.
      * rewrite F2. destruct (IH s2 H2 F2) as [s' [tr [El [H' [F' [R' D']]]]]].
        rewrite El. exists s', (mk_delivery i w wr e s1 s2 lg :: tr). cbn [app].
        split; [reflexivity|]. split; [assumption|]. split; [assumption|].
        split; [|constructor; assumption].
        eapply R_deliver; eauto.
Qed.

(* ---------- the monitor accepts the model's reads ---------- *)
Lemma loop_ev_mon : forall sc i evs s dead cur s' tr, Inv s -> frame s = Some (Some i) ->
  watches_of s i = Some cur -> (forall x, In x dead -> wtab s x = None) ->
  loop_ev sc s evs = (Ok s', tr) ->
  mon_walk sc i cur dead evs tr = true.
Proof.
  induction evs as [|e evs IH]; intros s dead cur s' tr H F Hc Hdead El.
  - cbn [loop_ev] in El. inversion El; subst. reflexivity.
  - destruct (itab s i) as [ir|] eqn:Ei; [|exfalso; eapply inv_frame; eauto].
    assert (cur = i_watches ir) by (unfold watches_of in Hc; rewrite Ei in Hc; congruence). subst cur.
    cbn [loop_ev] in El. rewrite F, Ei in El.
    destruct (deliver_one_ok sc s i ir e H F Ei) as
      [[Hr Ed]|(w & wr & s1 & s2 & lg & Hr & Hw & Hwi & Hwd & Es1 & H1 & F1 & Hd1 & Ha1 & E2 & H2 & M2 & F2 & D2 & Ed)].
    + rewrite Ed, F in El. unfold reg_of in Hr. rewrite Hc in Hr. cbn [mon_walk].
      rewrite (route_lookup _ _ (inv_view_ok s i ir H Ei)), Hr.
      destruct (loop_ev sc s evs) as [o tr2] eqn:E'. injection El as Eo Etr. subst o tr. cbn [app].
      apply (IH s dead (i_watches ir) s' tr2); assumption.
    + rewrite Ed in El. unfold reg_of in Hr. rewrite Hc in Hr.
      assert (Hnd : NoDup (map snd (i_watches ir))) by exact (inv_nodup s H i ir Ei).
      (* the head delivery *)
      assert (Hhead : forall tr',
        (match d_exit (mk_delivery i w wr e s1 s2 lg) with
         | None => unreg_inst i lg && match tr' with [] => true | _ :: _ => false end
         | Some x => negb (unreg_inst i lg) && view_ok x &&
                     forallb (fun w' => negb (mem_id w' (map snd x)))
                             (dead_after lg (if is_dropped (e_mask e) (w_mask wr) then w :: dead else dead)) &&
                     mon_walk sc i x (dead_after lg (if is_dropped (e_mask e) (w_mask wr) then w :: dead else dead)) evs tr'
         end) = true ->
        mon_walk sc i (i_watches ir) dead (e :: evs) (mk_delivery i w wr e s1 s2 lg :: tr') = true).
      { intros tr' Hrest. cbn [mon_walk]. rewrite (route_lookup _ _ (inv_view_ok s i ir H Ei)), Hr.
        cbn [mk_delivery d_w d_wd d_mask d_cookie d_name d_wmask d_entry d_acts].
        rewrite Pos.eqb_refl, !Z.eqb_refl, zlist_eqb_refl. cbn [andb].
        rewrite mem_id_false by (intros Hin; apply Hdead in Hin; congruence). cbn [negb andb].
        replace (view_eqb _ _) with true.
        2:{ symmetry. rewrite Es1. destruct (is_dropped (e_mask e) (w_mask wr)).
            - unfold drop_watch, watches_of. rewrite Ei. cbn [free_watch set_inst set_itab set_wtab itab].
              rewrite upd_same. cbn [i_watches]. rewrite (remove_key_without _ _ w Hnd Hr). apply view_eqb_refl.
            - rewrite Hc. apply view_eqb_refl. }
        rewrite M2, acts_eqb_refl. cbn [andb]. rewrite (do_acts_reg_ok _ _ _ _ E2). cbn [andb]. exact Hrest. }
      assert (Hdead1 : forall x, In x (dead_after lg (if is_dropped (e_mask e) (w_mask wr) then w :: dead else dead)) -> wtab s2 x = None).
      { apply D2. intros x Hx. destruct (is_dropped (e_mask e) (w_mask wr)) eqn:Edr.
        - destruct Hx as [<-|Hx]; [apply Hd1; reflexivity|apply Ha1; auto].
        - apply Ha1; auto. }
      destruct (unreg_inst i lg) eqn:Eu.
      * rewrite F2 in El. injection El as Es' Etr. subst s' tr. apply Hhead.
        cbn [mk_delivery d_exit]. rewrite Eu. reflexivity.
      * rewrite F2 in El. destruct (loop_ev sc s2 evs) as [o tr2] eqn:E'. injection El as Eo Etr. subst o tr. cbn [app].
        apply Hhead. cbn [mk_delivery d_exit]. rewrite Eu.
        destruct (itab s2 i) as [ir2|] eqn:Ei2; [|exfalso; eapply inv_frame; eauto].
        unfold watches_of. rewrite Ei2. cbn [negb andb]. rewrite (inv_view_ok s2 i ir2 H2 Ei2). cbn [andb].
        replace (forallb _ _) with true.
        2:{ symmetry. apply forallb_forall. intros x Hx. apply Hdead1 in Hx.
            rewrite mem_id_false; [reflexivity|]. eapply inv_absent_not_in; eauto. }
        cbn [andb]. eapply IH; eauto. unfold watches_of. rewrite Ei2. reflexivity.
Qed.

(* ---------- what an accepted trace satisfies (any trace: model or implementation) ---------- *)
Lemma mem_id_in : forall w l, In w l -> mem_id w l = true.
Proof.
  intros w l H. unfold mem_id. apply existsb_exists. exists w. split; [assumption|apply Pos.eqb_refl].
Qed.

Lemma mon_walk_cons : forall sc i cur dead e evs tr, mon_walk sc i cur dead (e :: evs) tr = true ->
  (route cur (e_wd e) = None /\ mon_walk sc i cur dead evs tr = true) \/
  (exists w d tr', route cur (e_wd e) = Some w /\ tr = d :: tr' /\
     d_w d = w /\ d_wd d = e_wd e /\ d_mask d = e_mask e /\ d_cookie d = e_cookie e /\ d_name d = e_name e /\
     ~ In w dead /\
     match d_exit d with
     | None => unreg_inst i (d_acts d) = true /\ tr' = []
     | Some x =>
         unreg_inst i (d_acts d) = false /\
         (forall w', In w' (dead_after (d_acts d) (if is_dropped (e_mask e) (d_wmask d) then w :: dead else dead)) ->
                     ~ In w' (map snd x)) /\
         mon_walk sc i x (dead_after (d_acts d) (if is_dropped (e_mask e) (d_wmask d) then w :: dead else dead)) evs tr' = true
     end).
Proof.
  intros sc i cur dead e evs tr Hm. cbn [mon_walk] in Hm.
  destruct (route cur (e_wd e)) as [w|]; [right|left; auto].
  destruct tr as [|d tr']; [discriminate|].
  rewrite !andb_true_iff in Hm.
  destruct Hm as [[[[[[[[[M1 M2] M3] M4] M5] M6] M7] M8] Mr] M9].
  exists w, d, tr'. split; [reflexivity|]. split; [reflexivity|].
  apply Pos.eqb_eq in M1. apply Z.eqb_eq in M2, M3, M4. apply zlist_eqb_eq in M5.
  split; [assumption|]. split; [assumption|]. split; [assumption|]. split; [assumption|]. split; [assumption|].
  split.
  { intros Hin. apply mem_id_in in Hin. rewrite Hin in M6. discriminate. }
  destruct (d_exit d) as [x|].
  - rewrite !andb_true_iff in M9. destruct M9 as [[[N1 Nv] N2] N3].
    apply negb_true_iff in N1. split; [assumption|]. split; [|assumption].
    intros w' Hw' Hin. rewrite forallb_forall in N2. specialize (N2 w' Hw').
    apply mem_id_in in Hin. rewrite Hin in N2. discriminate.
  - rewrite andb_true_iff in M9. destruct M9 as [N1 N2]. split; [assumption|].
    destruct tr'; [reflexivity|discriminate].
Qed.


Lemma mon_walk_dead : forall sc i evs cur dead tr, mon_walk sc i cur dead evs tr = true ->
  forall w, In w dead -> forall t1 d' t2, tr = t1 ++ d' :: t2 -> no_reg w t1 -> d_w d' <> w.
Proof.
  induction evs as [|e evs IH]; intros cur dead tr Hm w Hw t1 d' t2 Et Hn.
  - cbn [mon_walk] in Hm. destruct tr; [destruct t1; discriminate|discriminate].
  - apply mon_walk_cons in Hm.
    destruct Hm as [[_ Hm]|(w0 & d & tr' & _ & E & M1 & _ & _ & _ & _ & Mdead & Mx)]; [eapply IH; eauto|].
    subst tr. destruct t1 as [|d0 t1'].
    + cbn [app] in Et. inversion Et; subst d' t2. rewrite M1. intros E0. rewrite E0 in Mdead. contradiction.
    + cbn [app] in Et. inversion Et; subst d0 tr'.
      destruct (d_exit d) as [x|].
      * destruct Mx as (_ & _ & Mx). eapply (IH _ _ _ Mx w); [|reflexivity|].
        -- apply dead_after_keep.
           ++ destruct (is_dropped (e_mask e) (d_wmask d)); [right|]; assumption.
           ++ apply (Hn d). left. reflexivity.
        -- intros d'' Hd''. apply Hn. right. assumption.
      * destruct Mx as (_ & Mx). destruct t1'; discriminate.
Qed.


Lemma kills_dead : forall d w dead,
  kills d w -> In w (dead_after (d_acts d) (if is_dropped (d_mask d) (d_wmask d) then d_w d :: dead else dead)).
Proof.
  intros d w dead [[Hd [Hw Hn]]|(a1 & a2 & Ea & Hn)].
  - rewrite Hd. apply dead_after_keep; [left; assumption|assumption].
  - rewrite Ea, dead_after_app. unfold dead_after at 1. cbn [fold_left dead_step].
    change (0 =? 0) with true. cbv iota.
    apply (dead_after_keep a2 w); [left; reflexivity|assumption].
Qed.

Lemma mon_walk_suppress : forall sc i evs cur dead tr, mon_walk sc i cur dead evs tr = true ->
  forall tr1 d tr2, tr = tr1 ++ d :: tr2 ->
  (unreg_inst i (d_acts d) = true -> tr2 = []) /\
  (forall w, kills d w -> forall t1 d' t2, tr2 = t1 ++ d' :: t2 -> no_reg w t1 -> d_w d' <> w).
Proof.
  induction evs as [|e evs IH]; intros cur dead tr Hm tr1 d tr2 Et.
  - cbn [mon_walk] in Hm. destruct tr; [destruct tr1; discriminate|discriminate].
  - apply mon_walk_cons in Hm.
    destruct Hm as [[_ Hm]|(w0 & d0 & tr' & _ & E & M1 & _ & M3 & _ & _ & Mdead & Mx)]; [eapply IH; eauto|].
    subst tr. destruct tr1 as [|d1 tr1'].
    + cbn [app] in Et. inversion Et; subst d0 tr'.
      destruct (d_exit d) as [x|].
      * destruct Mx as (Mu & _ & Mx). split; [congruence|].
        intros w Hk t1 d' t2 E2 Hn. eapply (mon_walk_dead _ _ _ _ _ _ Mx w); eauto.
        rewrite <- M3, <- M1. apply kills_dead. assumption.
      * destruct Mx as (_ & Mx). subst tr2. split; [reflexivity|].
        intros w _ t1 d' t2 E2. destruct t1; discriminate.
    + cbn [app] in Et. inversion Et; subst d1 tr'.
      destruct (d_exit d0) as [x|].
      * destruct Mx as (_ & _ & Mx). eapply IH; eauto.
      * destruct Mx as (_ & Mx). destruct tr1'; discriminate.
Qed.

Lemma mon_walk_sublist : forall sc i evs cur dead tr, mon_walk sc i cur dead evs tr = true ->
  sublist (map ev_of tr) evs.
Proof.
  induction evs as [|e evs IH]; intros cur dead tr Hm.
  - cbn [mon_walk] in Hm. destruct tr; [constructor|discriminate].
  - apply mon_walk_cons in Hm.
    destruct Hm as [[_ Hm]|(w0 & d & tr' & _ & E & _ & M2 & M3 & M4 & M5 & _ & Mx)].
    + apply sub_drop. eapply IH; eauto.
    + subst tr. cbn [map].
      assert (Ee : ev_of d = e) by (unfold ev_of; rewrite M2, M3, M4, M5; destruct e; reflexivity).
      rewrite Ee. apply sub_keep.
      destruct (d_exit d) as [x|].
      * destruct Mx as (_ & _ & Mx). eapply IH; eauto.
      * destruct Mx as (_ & Mx). subst tr'. constructor.
Qed.

(* the wd -1 clauses on an accepted trace *)
Lemma reg_rc_ok_spec : forall lg, forallb reg_rc_ok lg = true ->
  forall w i m rc, In (ARegW w i (-1) m, rc) lg -> rc = -1 \/ rc = 1.
Proof.
  intros lg H w i m rc Hin. rewrite forallb_forall in H. specialize (H _ Hin). cbn in H.
  apply orb_prop in H. destruct H as [H|H]; apply Z.eqb_eq in H; auto.
Qed.

Lemma mon_walk_nowd : forall sc i evs cur dead tr, mon_walk sc i cur dead evs tr = true -> Forall nowd_ok tr.
Proof.
  induction evs as [|e evs IH]; intros cur dead tr Hm.
  - cbn [mon_walk] in Hm. destruct tr; [constructor|discriminate].
  - cbn [mon_walk] in Hm. destruct (route cur (e_wd e)) as [w|] eqn:Er; [|eapply IH; eauto].
    destruct tr as [|d tr']; [discriminate|].
    rewrite !andb_true_iff in Hm.
    destruct Hm as [[[[[[[[[M1 M2] M3] M4] M5] M6] M7] M8] Mr] M9].
    apply route_some in Er. destruct Er as [Hwd _]. apply Z.eqb_eq in M2.
    assert (Hd : d_wd d <> -1 /\ (forall w0 i0 m rc, In (ARegW w0 i0 (-1) m, rc) (d_acts d) -> rc = -1 \/ rc = 1)).
    { split; [congruence|]. apply reg_rc_ok_spec. assumption. }
    destruct Hd as [Hd1 Hd2].
    destruct (d_exit d) as [x|] eqn:Ex.
    + rewrite !andb_true_iff in M9. destruct M9 as [[[N1 Nv] N2] N3].
      constructor; [|eapply IH; eauto].
      split; [assumption|]. split; [assumption|].
      intros x0 w0 E0. rewrite Ex in E0. inversion E0; subst x0. exact (proj1 (view_ok_spec _) Nv w0).
    + rewrite andb_true_iff in M9. destruct M9 as [N1 N2]. destruct tr'; [|discriminate].
      constructor; [|constructor]. split; [assumption|]. split; [assumption|]. intros x0 w0 E0. rewrite Ex in E0. discriminate.
Qed.

(* ---------- one call of the fd handler ---------- *)

Lemma do_read_eintrs : forall pre r, eintrs pre -> r <> REintr -> do_read (pre ++ [r]) = r.
Proof.
  induction pre as [|x pre IH]; intros r Hp Hr.
  - cbn. destruct r; congruence.
  - rewrite (Hp x) by (left; reflexivity). cbn [app do_read]. apply IH; [|assumption].
    intros y Hy. apply Hp. right. assumption.
Qed.

Lemma ztake_all : forall l n, zlength l <= n -> ztake n l = l.
Proof.
  induction l as [|x l IH]; intros n Hn; [reflexivity|].
  rewrite zlength_cons in Hn. pose proof (zlength_nonneg l).
  cbn [ztake]. destruct (Z.leb_spec n 0); [lia|]. rewrite IH by lia. reflexivity.
Qed.

Lemma encode_nonnil : forall evs, evs <> [] -> encode evs <> [].
Proof. intros [|e evs] H; [congruence|]. rewrite encode_cons. apply encode_ev_nonnil. Qed.

Lemma got_event_data : forall sc s i ir evs rs, Inv s -> frame s = None -> itab s i = Some ir ->
  Forall wf_event evs -> evs <> [] -> enc_len evs <= 65536 -> do_read rs = RData (encode evs) ->
  exists s2 tr,
    loop_ev sc (enter s i ir) evs = (Ok s2, tr) /\
    got_event sc s i rs = (Ok (leave s2), tr) /\
    Inv s2 /\ (frame s2 = Some (Some i) \/ frame s2 = Some None) /\
    routed sc i (enter s i ir) evs tr s2 /\ Forall drop_ok tr.
Proof.
  intros sc s i ir evs rs H F Ei Hwf Hne Hlen Hrd.
  pose proof (Inv_enter s i ir H F Ei) as He.
  assert (Fe : frame (enter s i ir) = Some (Some i)) by reflexivity.
  destruct (loop_ev_ok sc i evs (enter s i ir) He Fe) as (s2 & tr & El & H2 & F2 & R & D).
  exists s2, tr. split; [assumption|]. split; [|auto].
  unfold got_event. rewrite Ei, Hrd. unfold QUEUE_SIZE.
  rewrite ztake_all by exact Hlen.
  pose proof (encode_nonnil evs Hne) as Hnn.
  destruct (encode evs) as [|b q] eqn:Eenc; [congruence|]. rewrite <- Eenc.
  unfold set_term at 1. rewrite Ei.
  change (set_frame (set_inst s i {| i_watches := i_watches ir; i_term := TLocal |}) (Some (Some i)))
    with (enter s i ir).
  rewrite loop_encode by (assumption || lia). rewrite El.
  destruct F2 as [F2|F2]; rewrite F2.
  - destruct (itab s2 i) as [jr|] eqn:E2i; [|exfalso; eapply inv_frame; eauto].
    unfold set_term, leave. rewrite F2, E2i. reflexivity.
  - unfold leave. rewrite F2. reflexivity.
Qed.

Lemma got_event_again : forall sc s i ir rs, itab s i = Some ir -> do_read rs = RAgain ->
  got_event sc s i rs = (Ok s, []).
Proof. intros sc s i ir rs Ei Hrd. unfold got_event. rewrite Ei, Hrd. reflexivity. Qed.

Lemma c20_routing : forall sc s i ir evs pre,
  Inv s -> frame s = None -> itab s i = Some ir ->
  Forall wf_event evs -> evs <> [] -> enc_len evs <= 65536 -> eintrs pre ->
  exists s2 tr,
    got_event sc s i (pre ++ [RData (encode evs)]) = (Ok (leave s2), tr) /\
    routed sc i (enter s i ir) evs tr s2 /\
    sublist (map ev_of tr) evs /\
    Inv (leave s2) /\ frame (leave s2) = None.
Proof.
  intros sc s i ir evs pre H F Ei Hwf Hne Hlen Hpre.
  destruct (got_event_data sc s i ir evs (pre ++ [RData (encode evs)]) H F Ei Hwf Hne Hlen)
    as (s2 & tr & El & Eg & H2 & F2 & R & D).
  { apply do_read_eintrs; [assumption|discriminate]. }
  exists s2, tr. split; [assumption|]. split; [assumption|].
  split.
  - apply (mon_walk_sublist sc i evs (i_watches ir) [] tr).
    apply (loop_ev_mon sc i evs (enter s i ir) [] (i_watches ir) s2 tr); auto.
    + apply Inv_enter; assumption.
    + unfold watches_of, enter. cbn [set_frame set_inst set_itab itab]. rewrite upd_same. reflexivity.
    + intros x [].
  - apply (Inv_leave s2 i); assumption.
Qed.

Lemma c20_eagain : forall sc s i ir pre, itab s i = Some ir -> eintrs pre ->
  got_event sc s i (pre ++ [RAgain]) = (Ok s, []).
Proof.
  intros. eapply got_event_again; eauto. apply do_read_eintrs; [assumption|discriminate].
Qed.

Lemma c20_dropped : forall sc s i ir evs pre,
  Inv s -> frame s = None -> itab s i = Some ir ->
  Forall wf_event evs -> evs <> [] -> enc_len evs <= 65536 -> eintrs pre ->
  exists s' tr, got_event sc s i (pre ++ [RData (encode evs)]) = (Ok s', tr) /\ Forall drop_ok tr.
Proof.
  intros sc s i ir evs pre H F Ei Hwf Hne Hlen Hpre.
  destruct (got_event_data sc s i ir evs (pre ++ [RData (encode evs)]) H F Ei Hwf Hne Hlen)
    as (s2 & tr & El & Eg & H2 & F2 & R & D).
  { apply do_read_eintrs; [assumption|discriminate]. }
  eauto.
Qed.

Lemma c20_monitor_accepts : forall sc s i ir evs pre,
  Inv s -> frame s = None -> itab s i = Some ir ->
  Forall wf_event evs -> evs <> [] -> enc_len evs <= 65536 -> eintrs pre ->
  exists s' tr, got_event sc s i (pre ++ [RData (encode evs)]) = (Ok s', tr) /\
                mon_feed sc i (i_watches ir) evs tr = true.
Proof.
  intros sc s i ir evs pre H F Ei Hwf Hne Hlen Hpre.
  destruct (got_event_data sc s i ir evs (pre ++ [RData (encode evs)]) H F Ei Hwf Hne Hlen)
    as (s2 & tr & El & Eg & H2 & F2 & R & D).
  { apply do_read_eintrs; [assumption|discriminate]. }
  exists (leave s2), tr. split; [assumption|]. unfold mon_feed.
  rewrite (inv_view_ok s i ir H Ei). cbn [andb].
  apply (loop_ev_mon sc i evs (enter s i ir) [] (i_watches ir) s2 tr); auto.
  - apply Inv_enter; assumption.
  - unfold watches_of, enter. cbn [set_frame set_inst set_itab itab]. rewrite upd_same. reflexivity.
  - intros x [].
Qed.

Lemma c20_monitor_accepts_eagain : forall sc s i ir, Inv s -> itab s i = Some ir -> mon_feed sc i (i_watches ir) [] [] = true.
Proof. intros sc s i ir H Ei. unfold mon_feed. rewrite (inv_view_ok s i ir H Ei). reflexivity. Qed.

(* what acceptance by the monitor means, for any observed trace *)
Lemma c20_monitor_sound : forall sc i c0 evs tr, mon_feed sc i c0 evs tr = true ->
  sublist (map ev_of tr) evs /\
  forall tr1 d tr2, tr = tr1 ++ d :: tr2 ->
    (unreg_inst i (d_acts d) = true -> tr2 = []) /\
    (forall w, kills d w -> forall t1 d' t2, tr2 = t1 ++ d' :: t2 -> no_reg w t1 -> d_w d' <> w).
Proof.
  intros sc i c0 evs tr Hm. unfold mon_feed in Hm. apply andb_prop in Hm. destruct Hm as [_ Hm]. split.
  - eapply mon_walk_sublist; eauto.
  - intros. eapply mon_walk_suppress; eauto.
Qed.

(* ... and the wd -1 clauses: no watch set the monitor saw has an entry under -1, no delivered event has
   wd -1, no registration answered -1 by inotify_add_watch succeeded in a handler *)
Lemma c20_monitor_sound_nowd : forall sc i c0 evs tr, mon_feed sc i c0 evs tr = true ->
  (forall w, ~ In (-1, w) c0) /\ Forall nowd_ok tr.
Proof.
  intros sc i c0 evs tr Hm. unfold mon_feed in Hm. apply andb_prop in Hm. destruct Hm as [Hv Hm]. split.
  - apply view_ok_spec. assumption.
  - eapply mon_walk_nowd; eauto.
Qed.

(* ---------- top-level action records ---------- *)
Lemma dumps_eqb_refl : forall d, dumps_eqb d d = true.
Proof.
  induction d as [|[i x] d IH]; cbn [dumps_eqb]; [reflexivity|].
  rewrite Pos.eqb_refl, view_eqb_refl. exact IH.
Qed.

Lemma view_eqb_eq : forall a b, view_eqb a b = true -> a = b.
Proof.
  induction a as [|[k x] a IH]; intros [|[k' y] b] H; cbn [view_eqb] in H; try discriminate; [reflexivity|].
  rewrite !andb_true_iff in H. destruct H as [[H1 H2] H3].
  apply Z.eqb_eq in H1. apply Pos.eqb_eq in H2. subst. f_equal. auto.
Qed.

Lemma dumps_eqb_eq : forall a b, dumps_eqb a b = true -> a = b.
Proof.
  induction a as [|[i x] a IH]; intros [|[j y] b] H; cbn [dumps_eqb] in H; try discriminate; [reflexivity|].
  rewrite !andb_true_iff in H. destruct H as [[H1 H2] H3].
  apply Pos.eqb_eq in H1. apply view_eqb_eq in H2. subst. f_equal. auto.
Qed.

Lemma dumps_of_ok : forall s ids, Inv s -> dumps_ok (dumps_of s ids) = true.
Proof.
  intros s ids H. unfold dumps_ok, dumps_of. apply forallb_forall. intros [i l] Hin.
  apply in_flat_map in Hin. destruct Hin as [j [_ Hj]]. unfold dump, watches_of in Hj.
  destruct (itab s j) as [jr|] eqn:Ej; [|destruct Hj].
  destruct Hj as [E|[]]. inversion E; subst. cbn [snd]. eapply inv_view_ok; eauto.
Qed.

Lemma dumps_of_ext : forall s s' ids, (forall j, watches_of s' j = watches_of s j) -> dumps_of s' ids = dumps_of s ids.
Proof.
  intros s s' ids Hw. unfold dumps_of, dump. induction ids as [|i ids IH]; [reflexivity|].
  cbn [flat_map]. rewrite Hw, IH. reflexivity.
Qed.

(* a registration for which inotify_add_watch answers -1: rc -1 (or skipped, rc 1), every watch set unchanged *)
Lemma c20_failed_registration : forall s w i m, Inv s ->
  exists s' rc, do_act s (ARegW w i (-1) m) = (Ok s', rc) /\ (rc = -1 \/ rc = 1) /\ Inv s' /\
    (forall j, watches_of s' j = watches_of s j) /\ (forall x, wtab s' x = wtab s x) /\ frame s' = frame s.
Proof.
  intros s w i m H. cbn [do_act]. unfold allocated, live.
  destruct (wtab s w) as [wr0|] eqn:Ew; cbn [orb].
  { exists s, 1. split; [reflexivity|]. split; [auto|]. split; [assumption|]. auto. }
  destruct (itab s i) as [ir|] eqn:Ei; cbn [negb].
  2:{ exists s, 1. split; [reflexivity|]. split; [auto|]. split; [assumption|]. auto. }
  unfold watch_register. cbn [set_watch set_wtab wtab itab]. rewrite upd_same. cbn [w_inst w_mask]. rewrite Ei.
  change (-1 =? -1) with true. cbv iota. change (-1 =? 0) with false. cbv iota.
  eexists _, (-1). split; [reflexivity|]. split; [auto|].
  assert (Hx : forall x, upd (upd (upd (wtab s) w (Some {| w_inst := i; w_wd := poison32; w_mask := m |})) w
                              (Some {| w_inst := i; w_wd := -1; w_mask := m |})) w None x = wtab s x).
  { intros x. destruct (Pos.eq_dec x w) as [->|n]; [rewrite upd_same; auto|rewrite !upd_other by assumption; reflexivity]. }
  split; [|split; [|split]]; cbn [free_watch set_watch set_wtab itab wtab frame watches_of]; auto.
  eapply Inv_ext; [| | |exact H]; cbn [free_watch set_watch set_wtab itab wtab frame]; auto.
Qed.

(* the monitor accepts every top-level action of the model *)
Lemma c20_monitor_act_accepts : forall s a ids, Inv s ->
  exists s' rc, do_act s a = (Ok s', rc) /\ Inv s' /\
                mon_act (dumps_of s ids) (dumps_of s' ids) a rc = true.
Proof.
  intros s a ids H. destruct (do_act_ok s a H) as (s' & rc & E & H' & _).
  exists s', rc. split; [assumption|]. split; [assumption|].
  unfold mon_act. rewrite (dumps_of_ok s' ids H'), (do_act_reg_ok s a _ rc E). cbn [andb].
  destruct a as [i ok|i|w i wd m|w]; try reflexivity.
  unfold no_wd. destruct (Z.eqb_spec wd (-1)) as [->|]; [|reflexivity].
  destruct (c20_failed_registration s w i m H) as (s1 & rc1 & E1 & _ & _ & Hw & _).
  rewrite E in E1. inversion E1; subst s1 rc1.
  rewrite (dumps_of_ext s s' ids Hw). apply dumps_eqb_refl.
Qed.

(* what acceptance of an action record means, for any observed record *)
Lemma c20_monitor_act_sound : forall before after a rc, mon_act before after a rc = true ->
  (forall i l w, In (i, l) after -> ~ In (-1, w) l) /\
  (forall w i m, a = ARegW w i (-1) m -> (rc = -1 \/ rc = 1) /\ after = before).
Proof.
  intros before after a rc Hm. unfold mon_act in Hm. rewrite !andb_true_iff in Hm. destruct Hm as [[Hd Hr] Hu]. split.
  - intros i l w Hin. unfold dumps_ok in Hd. rewrite forallb_forall in Hd. specialize (Hd _ Hin). cbn [snd] in Hd.
    apply view_ok_spec. assumption.
  - intros w i m ->. cbn in Hr, Hu. split.
    + apply orb_prop in Hr. destruct Hr as [Hr|Hr]; apply Z.eqb_eq in Hr; auto.
    + symmetry. apply dumps_eqb_eq. assumption.
Qed.

(* an event with wd -1 (queue overflow) is for no watch of any instance *)
Lemma c20_overflow_unrouted : forall s i, Inv s -> reg_of s i (-1) = None.
Proof.
  intros s i H. unfold reg_of, watches_of. destruct (itab s i) as [ir|] eqn:Ei; [|reflexivity].
  apply lookup_none. intros w. eapply inv_wd; eauto.
Qed.

(* ---------- whole scenarios ---------- *)

Lemma do_read_cases : forall rs, Forall wf_readres rs ->
  do_read rs = RAgain \/ do_read rs = RErr \/
  exists evs, do_read rs = RData (encode evs) /\ Forall wf_event evs /\ enc_len evs <= 65536.
Proof.
  induction rs as [|r rs IH]; intros Hwf; [left; reflexivity|].
  inversion Hwf as [|? ? Hr Hrest]; subst. destruct r as [| | |buf]; cbn [do_read].
  - auto.
  - left. reflexivity.
  - right. left. reflexivity.
  - right. right. destruct Hr as (evs & -> & Hw & Hl). eauto.
Qed.

Definition good (o : outcome) : Prop :=
  o = Fatal \/ exists s, o = Ok s /\ Inv s /\ frame s = None.

Lemma got_event_safe : forall sc s i ir rs, Inv s -> frame s = None -> itab s i = Some ir ->
  Forall wf_readres rs -> good (fst (got_event sc s i rs)).
Proof.
  intros sc s i ir rs H F Ei Hwf.
  destruct (do_read_cases rs Hwf) as [Hr|[Hr|(evs & Hr & Hw & Hl)]].
  - rewrite (got_event_again sc s i ir rs Ei Hr). right. exists s. cbn [fst]. auto.
  - unfold got_event. rewrite Ei, Hr. left. reflexivity.
  - destruct evs as [|e evs].
    + unfold got_event. rewrite Ei, Hr. left. reflexivity.
    + destruct (got_event_data sc s i ir (e :: evs) rs H F Ei Hw) as (s2 & tr & El & Eg & H2 & F2 & R & D);
        [discriminate|assumption|assumption|].
      rewrite Eg. cbn [fst]. right. exists (leave s2). split; [reflexivity|].
      apply (Inv_leave s2 i); assumption.
Qed.

Lemma frame_after_none : forall x, frame_after None x = None.
Proof. intros [[i ok|i|w i wd m|w] rc]; cbn [frame_after]; try reflexivity. destruct (rc =? 0); reflexivity. Qed.

Lemma step_safe : forall sc s o, Inv s -> frame s = None -> wf_op o ->
  good (fst (fst (step sc s o))).
Proof.
  intros sc s o H F Hwf. destruct o as [a|i rs]; cbn [step].
  - destruct (do_act_ok s a H) as (s' & rc & E & H' & F' & _). rewrite E. cbn [fst].
    right. exists s'. split; [reflexivity|]. split; [assumption|]. rewrite F', F. apply frame_after_none.
  - unfold live. destruct (itab s i) as [ir|] eqn:Ei; cbn [negb].
    + pose proof (got_event_safe sc s i ir rs H F Ei Hwf) as G.
      destruct (got_event sc s i rs) as [r tr]. exact G.
    + cbn [fst]. right. exists s. auto.
Qed.

Lemma run_ops_safe : forall sc ops s, Inv s -> frame s = None -> Forall wf_op ops ->
  good (fst (run_ops sc s ops)).
Proof.
  induction ops as [|o ops IH]; intros s H F Hwf.
  - cbn. right. exists s. auto.
  - inversion Hwf as [|? ? Ho Hrest]; subst. cbn [run_ops].
    pose proof (step_safe sc s o H F Ho) as G.
    destruct (step sc s o) as [[r rc] tr]. cbn [fst] in G.
    destruct G as [->|(s' & -> & H' & F')].
    + left. reflexivity.
    + specialize (IH s' H' F' Hrest). destruct (run_ops sc s' ops) as [r' lg]. exact IH.
Qed.

Lemma c20_history_safe : forall sc ops, Forall wf_op ops ->
  memory_safe (fst (run_ops sc init ops)) /\
  forall s, fst (run_ops sc init ops) = Ok s -> Inv s /\ frame s = None.
Proof.
  intros sc ops Hwf. pose proof (run_ops_safe sc ops init Inv_init eq_refl Hwf) as G.
  destruct G as [E|(s & E & H & F)]; rewrite E; split; cbn; auto; try discriminate.
  intros s0 E0. inversion E0; subst. auto.
Qed.

(* one read: safe, and the suppression clauses hold on its trace *)
Lemma c20_unregister_safe : forall sc s i ir evs pre,
  Inv s -> frame s = None -> itab s i = Some ir ->
  Forall wf_event evs -> evs <> [] -> enc_len evs <= 65536 -> eintrs pre ->
  exists s' tr, got_event sc s i (pre ++ [RData (encode evs)]) = (Ok s', tr) /\ Inv s' /\ frame s' = None /\
    forall tr1 d tr2, tr = tr1 ++ d :: tr2 ->
      (unreg_inst i (d_acts d) = true -> tr2 = []) /\
      (forall w, kills d w -> forall t1 d' t2, tr2 = t1 ++ d' :: t2 -> no_reg w t1 -> d_w d' <> w).
Proof.
  intros sc s i ir evs pre H F Ei Hwf Hne Hlen Hpre.
  destruct (c20_routing sc s i ir evs pre H F Ei Hwf Hne Hlen Hpre) as (s2 & tr & Eg & _ & _ & Hi & Hf).
  destruct (c20_monitor_accepts sc s i ir evs pre H F Ei Hwf Hne Hlen Hpre) as (s' & tr' & Eg' & Hm).
  rewrite Eg in Eg'. inversion Eg'; subst s' tr'.
  exists (leave s2), tr. split; [assumption|]. split; [assumption|]. split; [assumption|].
  apply (c20_monitor_sound sc i (i_watches ir) evs tr Hm).
Qed.

(* ---------- unregistering an instance that has handled nothing ---------- *)
Lemma c20_fresh : forall s i, Inv s -> itab s i = None ->
  exists s1 s2,
    do_act s (ARegI i true) = (Ok s1, 0) /\
    instance_unregister s1 i = Ok s1 /\
    do_act s1 (AUnregI i) = (Ok s2, 0) /\
    (forall j, itab s2 j = itab s j) /\ (forall w, wtab s2 w = wtab s w) /\ frame s2 = frame s.
Proof.
  intros s i H Ei.
  set (s1 := set_inst s i {| i_watches := []; i_term := TNull |}).
  assert (E1 : do_act s (ARegI i true) = (Ok s1, 0)).
  { cbn [do_act]. unfold live. rewrite Ei. reflexivity. }
  assert (Eu : instance_unregister s1 i = Ok s1).
  { unfold instance_unregister, s1. cbn [set_inst set_itab itab]. rewrite upd_same. reflexivity. }
  exists s1, (free_instance s1 i). split; [assumption|]. split; [assumption|].
  split.
  { cbn [do_act]. unfold live. unfold s1 at 1. cbn [set_inst set_itab itab]. rewrite upd_same. cbn [negb].
    rewrite Eu. reflexivity. }
  unfold s1. cbn [free_instance set_inst set_itab itab wtab frame].
  split; [|split; [|reflexivity]].
  - intros j. destruct (Pos.eq_dec j i) as [->|n]; [rewrite upd_same; auto|rewrite !upd_other by assumption; reflexivity].
  - intros w. destruct (wtab s w) as [wr|] eqn:Ew; [|reflexivity].
    destruct (Pos.eqb_spec (w_inst wr) i); [|reflexivity].
    exfalso. destruct (inv_w_tree s H w wr Ew) as (ir & Eir & _). congruence.
Qed.

(* any live instance of a quiescent state can be unregistered *)
Lemma c20_unregister_quiescent : forall s i ir, Inv s -> frame s = None -> itab s i = Some ir ->
  instance_unregister s i = Ok s.
Proof.
  intros s i ir H F Ei. rewrite (instance_unregister_ok s i ir H Ei). unfold unreg_frame. rewrite F. reflexivity.
Qed.
