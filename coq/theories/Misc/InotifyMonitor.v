(* InotifyMonitor.v -- boolean monitor of property C20 on ONE observed read
   (one call of the instance's fd handler), using only what the harness prints:
   the watch set of the instance before the read (its dump after the previous
   operation), the events the scenario put into the read, and per handler call
   the delivery record (watch, event fields, w->mask, the instance's real tree
   at handler entry and exit, the script actions with their rc).

   It decides, on the observed trace:
     routing      every event whose wd is in the current watch set is delivered,
                  in buffer order, to exactly the watch registered under that wd,
                  with the event's own fields; events with other wds are not
                  delivered to anyone;
     dropped      at handler entry the set is the current set minus the watch
                  when the event carries IN_IGNORED or the watch is one-shot,
                  and the unchanged current set otherwise;
     suppression  no delivery to a watch that was dropped or unregistered
                  (rc 0) earlier in this read and not registered again since;
                  such a watch is not in the tree at handler exit either; once
                  a handler unregistered the instance nothing more is delivered;
     scripts      the handler ran exactly the scripted actions.
   Proved to accept every read of the model (Props/Properties_C20.v). *)
From Coq Require Import List ZArith Bool.
From Ivv Require Import Misc.InotifyModel.
Import ListNotations.
Local Open Scope Z_scope.

(* association-list lookup: no use of the order *)
Fixpoint lookup (l : list (Z * id)) (wd : Z) : option id :=
  match l with
  | [] => None
  | (k, w) :: l' => if wd =? k then Some w else lookup l' wd
  end.

Fixpoint remove_key (l : list (Z * id)) (wd : Z) : list (Z * id) :=
  match l with
  | [] => []
  | (k, w) :: l' => if wd =? k then l' else (k, w) :: remove_key l' wd
  end.

Definition mem_id (w : id) (l : list id) : bool := existsb (Pos.eqb w) l.

Fixpoint remove_id (w : id) (l : list id) : list id :=
  match l with
  | [] => []
  | x :: l' => if Pos.eqb w x then remove_id w l' else x :: remove_id w l'
  end.

Fixpoint zlist_eqb (a b : list Z) : bool :=
  match a, b with
  | [], [] => true
  | x :: a', y :: b' => (x =? y) && zlist_eqb a' b'
  | _, _ => false
  end.

Fixpoint view_eqb (a b : list (Z * id)) : bool :=
  match a, b with
  | [], [] => true
  | (k, x) :: a', (k', y) :: b' => (k =? k') && Pos.eqb x y && view_eqb a' b'
  | _, _ => false
  end.

Definition act_eqb (a b : act) : bool :=
  match a, b with
  | ARegI i ok, ARegI j ok' => Pos.eqb i j && Bool.eqb ok ok'
  | AUnregI i, AUnregI j => Pos.eqb i j
  | ARegW w i wd m, ARegW w' i' wd' m' => Pos.eqb w w' && Pos.eqb i i' && (wd =? wd') && (m =? m')
  | AUnregW w, AUnregW w' => Pos.eqb w w'
  | _, _ => false
  end.

Fixpoint acts_eqb (a b : list act) : bool :=
  match a, b with
  | [], [] => true
  | x :: a', y :: b' => act_eqb x y && acts_eqb a' b'
  | _, _ => false
  end.

(* watches known to have no registration: unregistered with rc 0 and not registered with rc 0 since *)
Definition dead_step (dead : list id) (x : act * Z) : list id :=
  match x with
  | (AUnregW w, rc) => if rc =? 0 then w :: dead else dead
  | (ARegW w _ _ _, rc) => if rc =? 0 then remove_id w dead else dead
  | _ => dead
  end.

Definition dead_after (lg : list (act * Z)) (dead : list id) : list id := fold_left dead_step lg dead.

(* the handler unregistered instance i *)
Definition unreg_inst (i : id) (lg : list (act * Z)) : bool :=
  existsb (fun x => match x with
                    | (AUnregI j, rc) => Pos.eqb j i && (rc =? 0)
                    | _ => false
                    end) lg.

Definition is_dropped (emask wmask : Z) : bool :=
  Z.testbit emask IN_IGNORED_BIT || Z.testbit wmask IN_ONESHOT_BIT.

Fixpoint mon_walk (sc : scripts) (i : id) (cur : list (Z * id)) (dead : list id)
         (evs : list event) (tr : list delivery) : bool :=
  match evs with
  | [] => match tr with [] => true | _ :: _ => false end
  | e :: evs' =>
      match lookup cur (e_wd e) with
      | None => mon_walk sc i cur dead evs' tr
      | Some w =>
          match tr with
          | [] => false
          | d :: tr' =>
              let dropped := is_dropped (e_mask e) (d_wmask d) in
              let dead0 := if dropped then w :: dead else dead in
              let dead1 := dead_after (d_acts d) dead0 in
              Pos.eqb (d_w d) w && (d_wd d =? e_wd e) && (d_mask d =? e_mask e) &&
              (d_cookie d =? e_cookie e) && zlist_eqb (d_name d) (e_name e) &&
              negb (mem_id w dead) &&
              view_eqb (d_entry d) (if dropped then remove_key cur (e_wd e) else cur) &&
              acts_eqb (map fst (d_acts d)) (sc w (e_cookie e)) &&
              match d_exit d with
              | None => unreg_inst i (d_acts d) && match tr' with [] => true | _ :: _ => false end
              | Some x =>
                  negb (unreg_inst i (d_acts d)) &&
                  forallb (fun w' => negb (mem_id w' (map snd x))) dead1 &&
                  mon_walk sc i x dead1 evs' tr'
              end
          end
      end
  end.

(* c0: the watch set of instance i before the read; evs: the events in the read
   ([] when read returned EAGAIN) *)
Definition mon_feed (sc : scripts) (i : id) (c0 : list (Z * id)) (evs : list event) (tr : list delivery) : bool :=
  mon_walk sc i c0 [] evs tr.
