(* InotifyMonitor.v -- boolean monitor of property C20 on ONE observed read
   (one call of the instance's fd handler), using only what the harness prints:
   the watch set of the instance before the read (its dump after the previous
   operation), the events the scenario put into the read, and per handler call
   the delivery record (watch, event fields, w->mask, the instance's real tree
   at handler entry and exit, the script actions with their rc).

   It decides, on the observed trace:
     routing      every event whose wd is in the current watch set is delivered,
                  in buffer order, to exactly the watch registered under that wd,
                  with the event's own fields; events with other wds are not
                  delivered to anyone;
     dropped      at handler entry the set is the current set minus the watch
                  when the event carries IN_IGNORED or the watch is one-shot,
                  and the unchanged current set otherwise;
     suppression  no delivery to a watch that was dropped or unregistered
                  (rc 0) earlier in this read and not registered again since;
                  such a watch is not in the tree at handler exit either; once
                  a handler unregistered the instance nothing more is delivered;
     scripts      the handler ran exactly the scripted actions;
     no watch     -1 is what inotify_add_watch answers when it fails and the wd
                  the kernel puts into queue-overflow events (IN_Q_OVERFLOW): it
                  is the descriptor of no watch.  An event with wd -1 is
                  delivered to nobody whatever the implementation's tree says;
                  no observed watch set (before the read, at any handler exit,
                  in any dump) has an entry under -1; a registration for which
                  the scenario's inotify_add_watch answered -1 returned -1 (or
                  was skipped by a harness guard, rc 1), never 0.
   mon_act decides the same on ONE top-level action record (dumps of all
   instances before and after, the action with the oracle's wd, its rc): a
   registration whose oracle is -1 returns -1 / is skipped and leaves every
   watch set unchanged; no dump has an entry under -1.
   Proved to accept every read / action of the model (Props/Properties_C20.v). *)
From Coq Require Import List ZArith Bool.
From Ivv Require Import Misc.InotifyModel.
Import ListNotations.
Local Open Scope Z_scope.

(* association-list lookup: no use of the order *)
Fixpoint lookup (l : list (Z * id)) (wd : Z) : option id :=
  match l with
  | [] => None
  | (k, w) :: l' => if wd =? k then Some w else lookup l' wd
  end.

Fixpoint remove_key (l : list (Z * id)) (wd : Z) : list (Z * id) :=
  match l with
  | [] => []
  | (k, w) :: l' => if wd =? k then l' else (k, w) :: remove_key l' wd
  end.

Definition mem_id (w : id) (l : list id) : bool := existsb (Pos.eqb w) l.

Fixpoint remove_id (w : id) (l : list id) : list id :=
  match l with
  | [] => []
  | x :: l' => if Pos.eqb w x then remove_id w l' else x :: remove_id w l'
  end.

Fixpoint zlist_eqb (a b : list Z) : bool :=
  match a, b with
  | [], [] => true
  | x :: a', y :: b' => (x =? y) && zlist_eqb a' b'
  | _, _ => false
  end.

Fixpoint view_eqb (a b : list (Z * id)) : bool :=
  match a, b with
  | [], [] => true
  | (k, x) :: a', (k', y) :: b' => (k =? k') && Pos.eqb x y && view_eqb a' b'
  | _, _ => false
  end.

Definition act_eqb (a b : act) : bool :=
  match a, b with
  | ARegI i ok, ARegI j ok' => Pos.eqb i j && Bool.eqb ok ok'
  | AUnregI i, AUnregI j => Pos.eqb i j
  | ARegW w i wd m, ARegW w' i' wd' m' => Pos.eqb w w' && Pos.eqb i i' && (wd =? wd') && (m =? m')
  | AUnregW w, AUnregW w' => Pos.eqb w w'
  | _, _ => false
  end.

Fixpoint acts_eqb (a b : list act) : bool :=
  match a, b with
  | [], [] => true
  | x :: a', y :: b' => act_eqb x y && acts_eqb a' b'
  | _, _ => false
  end.

(* watches known to have no registration: unregistered with rc 0 and not registered with rc 0 since *)
Definition dead_step (dead : list id) (x : act * Z) : list id :=
  match x with
  | (AUnregW w, rc) => if rc =? 0 then w :: dead else dead
  | (ARegW w _ _ _, rc) => if rc =? 0 then remove_id w dead else dead
  | _ => dead
  end.

Definition dead_after (lg : list (act * Z)) (dead : list id) : list id := fold_left dead_step lg dead.

(* the handler unregistered instance i *)
Definition unreg_inst (i : id) (lg : list (act * Z)) : bool :=
  existsb (fun x => match x with
                    | (AUnregI j, rc) => Pos.eqb j i && (rc =? 0)
                    | _ => false
                    end) lg.

Definition is_dropped (emask wmask : Z) : bool :=
  Z.testbit emask IN_IGNORED_BIT || Z.testbit wmask IN_ONESHOT_BIT.

(* ---------- wd -1: the descriptor of no watch ---------- *)
Definition no_wd (wd : Z) : bool := wd =? -1.

(* a watch set without an entry under -1 *)
Definition view_ok (l : list (Z * id)) : bool := forallb (fun p => negb (no_wd (fst p))) l.

(* the watch an event with this wd is for: none for -1, whatever the observed set contains *)
Definition route (cur : list (Z * id)) (wd : Z) : option id :=
  if no_wd wd then None else lookup cur wd.

(* one action record (top level or script) against the scenario's oracle: the wd in ARegW is what
   inotify_add_watch returns in this call; when it is -1 iv_inotify_watch_register returns -1
   (rc 1 = the harness guard skipped the call) *)
Definition reg_rc_ok (x : act * Z) : bool :=
  match x with
  | (ARegW _ _ wd _, rc) => if no_wd wd then (rc =? -1) || (rc =? 1) else true
  | _ => true
  end.

Fixpoint mon_walk (sc : scripts) (i : id) (cur : list (Z * id)) (dead : list id)
         (evs : list event) (tr : list delivery) : bool :=
  match evs with
  | [] => match tr with [] => true | _ :: _ => false end
  | e :: evs' =>
      match route cur (e_wd e) with
      | None => mon_walk sc i cur dead evs' tr
      | Some w =>
          match tr with
          | [] => false
          | d :: tr' =>
              let dropped := is_dropped (e_mask e) (d_wmask d) in
              let dead0 := if dropped then w :: dead else dead in
              let dead1 := dead_after (d_acts d) dead0 in
              Pos.eqb (d_w d) w && (d_wd d =? e_wd e) && (d_mask d =? e_mask e) &&
              (d_cookie d =? e_cookie e) && zlist_eqb (d_name d) (e_name e) &&
              negb (mem_id w dead) &&
              view_eqb (d_entry d) (if dropped then remove_key cur (e_wd e) else cur) &&
              acts_eqb (map fst (d_acts d)) (sc w (e_cookie e)) &&
              forallb reg_rc_ok (d_acts d) &&
              match d_exit d with
              | None => unreg_inst i (d_acts d) && match tr' with [] => true | _ :: _ => false end
              | Some x =>
                  negb (unreg_inst i (d_acts d)) &&
                  view_ok x &&
                  forallb (fun w' => negb (mem_id w' (map snd x))) dead1 &&
                  mon_walk sc i x dead1 evs' tr'
              end
          end
      end
  end.

(* c0: the watch set of instance i before the read; evs: the events in the read
   ([] when read returned EAGAIN) *)
Definition mon_feed (sc : scripts) (i : id) (c0 : list (Z * id)) (evs : list event) (tr : list delivery) : bool :=
  view_ok c0 && mon_walk sc i c0 [] evs tr.

(* ---------- one top-level action record ---------- *)
(* the dumps a segment of the harness output carries: instance id -> its watch set, in the order printed *)
Definition dumps := list (id * list (Z * id)).

Fixpoint dumps_eqb (a b : dumps) : bool :=
  match a, b with
  | [], [] => true
  | (i, x) :: a', (j, y) :: b' => Pos.eqb i j && view_eqb x y && dumps_eqb a' b'
  | _, _ => false
  end.

Definition dumps_ok (d : dumps) : bool := forallb (fun p => view_ok (snd p)) d.

Definition mon_act (before after : dumps) (a : act) (rc : Z) : bool :=
  dumps_ok after && reg_rc_ok (a, rc) &&
  match a with
  | ARegW _ _ wd _ => if no_wd wd then dumps_eqb before after else true
  | _ => true
  end.
