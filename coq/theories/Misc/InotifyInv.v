(* InotifyInv.v -- the state invariant of the iv_inotify model is kept by every
   guarded action; facts about single actions and action lists used by the
   C20 theorems. *)
From Coq Require Import List ZArith Bool Lia Sorted.
From Ivv Require Import Misc.InotifyModel Misc.InotifyMonitor Misc.InotifySpec.
Import ListNotations.
Local Open Scope Z_scope.

(* ---------- finite maps as functions ---------- *)
Lemma upd_same : forall (A : Type) (m : id -> option A) k v, upd m k v k = v.
Proof. intros. unfold upd. rewrite Pos.eqb_refl. reflexivity. Qed.

Lemma upd_other : forall (A : Type) (m : id -> option A) k v k', k' <> k -> upd m k v k' = m k'.
Proof. intros. unfold upd. destruct (Pos.eqb_spec k' k); congruence. Qed.

(* ---------- lists of (wd, watch) ---------- *)
Lemma in_keys : forall (l : list (Z * id)) k x, In (k, x) l -> In k (map fst l).
Proof. intros l k x H. change k with (fst (k, x)). apply in_map. exact H. Qed.

Lemma in_ids : forall (l : list (Z * id)) k x, In (k, x) l -> In x (map snd l).
Proof. intros l k x H. change x with (snd (k, x)). apply in_map. exact H. Qed.

Lemma ids_in : forall (l : list (Z * id)) x, In x (map snd l) -> exists k, In (k, x) l.
Proof.
  intros l x H. apply in_map_iff in H. destruct H as [[k y] [E H]]. cbn in E. subst. eauto.
Qed.

Lemma keys_in : forall (l : list (Z * id)) k, In k (map fst l) -> exists x, In (k, x) l.
Proof.
  intros l k H. apply in_map_iff in H. destruct H as [[k' y] [E H]]. cbn in E. subst. eauto.
Qed.

Lemma sorted_cons_inv : forall k (l : list Z), StronglySorted Z.lt (k :: l) ->
  StronglySorted Z.lt l /\ forall k', In k' l -> k < k'.
Proof.
  intros k l H. inversion H; subst. split; [assumption|].
  intros k' Hin. rewrite Forall_forall in H3. auto.
Qed.

Lemma sorted_cons : forall k (l : list Z), StronglySorted Z.lt l -> (forall k', In k' l -> k < k') ->
  StronglySorted Z.lt (k :: l).
Proof. intros. constructor; [assumption|]. apply Forall_forall. assumption. Qed.

Lemma lookup_in : forall l wd w, lookup l wd = Some w -> In (wd, w) l.
Proof.
  induction l as [|[k x] l IH]; intros wd w H; cbn [lookup] in H; [discriminate|].
  destruct (Z.eqb_spec wd k).
  - inversion H; subst. left. reflexivity.
  - right. auto.
Qed.

Lemma lookup_none : forall l wd, (forall x, ~ In (wd, x) l) -> lookup l wd = None.
Proof.
  induction l as [|[k x] l IH]; intros wd H; cbn [lookup]; [reflexivity|].
  destruct (Z.eqb_spec wd k).
  - subst. exfalso. apply (H x). left. reflexivity.
  - apply IH. intros y Hy. apply (H y). right. exact Hy.
Qed.

Lemma lookup_none_in : forall l wd x, lookup l wd = None -> ~ In (wd, x) l.
Proof.
  induction l as [|[k y] l IH]; intros wd x H Hin; cbn [lookup] in H; [destruct Hin|].
  destruct (Z.eqb_spec wd k); [discriminate|].
  destruct Hin as [E|Hin]; [inversion E; congruence|]. eapply IH; eauto.
Qed.

Lemma lookup_of_in : forall l wd w, StronglySorted Z.lt (map fst l) -> In (wd, w) l -> lookup l wd = Some w.
Proof.
  induction l as [|[k x] l IH]; intros wd w Hs Hin; [destruct Hin|].
  cbn [map fst] in Hs. apply sorted_cons_inv in Hs. destruct Hs as [Hs Hlt].
  cbn [lookup]. destruct Hin as [E|Hin].
  - inversion E; subst. rewrite Z.eqb_refl. reflexivity.
  - destruct (Z.eqb_spec wd k).
    + subst. apply in_keys in Hin. apply Hlt in Hin. lia.
    + auto.
Qed.

Lemma find_watch_lookup : forall l wd, StronglySorted Z.lt (map fst l) -> find_watch l wd = lookup l wd.
Proof.
  induction l as [|[k x] l IH]; intros wd Hs; [reflexivity|].
  cbn [map fst] in Hs. apply sorted_cons_inv in Hs. destruct Hs as [Hs Hlt].
  cbn [find_watch lookup]. destruct (Z.eqb_spec wd k); [reflexivity|].
  destruct (Z.ltb_spec wd k).
  - symmetry. apply lookup_none. intros y Hy. apply in_keys in Hy. apply Hlt in Hy. lia.
  - auto.
Qed.

(* tree_insert *)
Lemma tree_insert_in : forall l wd w l', tree_insert l wd w = Some l' ->
  forall k x, In (k, x) l' <-> ((k, x) = (wd, w) \/ In (k, x) l).
Proof.
  induction l as [|[k0 x0] l IH]; intros wd w l' H k x; cbn [tree_insert] in H.
  - inversion H; subst. cbn [In]. intuition congruence.
  - destruct (Z.eqb_spec wd k0); [discriminate|].
    destruct (Z.ltb_spec wd k0).
    + inversion H; subst. cbn [In]. intuition congruence.
    + destruct (tree_insert l wd w) as [r|] eqn:E; [|discriminate].
      inversion H; subst. cbn [In]. rewrite (IH wd w r E k x). intuition congruence.
Qed.

Lemma tree_insert_sorted : forall l wd w l', StronglySorted Z.lt (map fst l) ->
  tree_insert l wd w = Some l' -> StronglySorted Z.lt (map fst l').
Proof.
  induction l as [|[k0 x0] l IH]; intros wd w l' Hs H; cbn [tree_insert] in H.
  - inversion H; subst. cbn. constructor; constructor.
  - cbn [map fst] in Hs. pose proof Hs as Hs0. apply sorted_cons_inv in Hs. destruct Hs as [Hs Hlt].
    destruct (Z.eqb_spec wd k0); [discriminate|].
    destruct (Z.ltb_spec wd k0).
    + inversion H; subst. cbn [map fst]. apply sorted_cons; [exact Hs0|].
      intros k' [E|Hin]; [lia|]. apply Hlt in Hin. lia.
    + destruct (tree_insert l wd w) as [r|] eqn:E; [|discriminate].
      inversion H; subst. cbn [map fst]. apply sorted_cons.
      * eapply IH; eauto.
      * intros k' Hin. apply keys_in in Hin. destruct Hin as [y Hy].
        apply (tree_insert_in _ _ _ _ E) in Hy. destruct Hy as [Ey|Hy].
        -- inversion Ey; subst. lia.
        -- apply Hlt. eapply in_keys; eauto.
Qed.

Lemma tree_insert_nodup : forall l wd w l', NoDup (map snd l) -> ~ In w (map snd l) ->
  tree_insert l wd w = Some l' -> NoDup (map snd l').
Proof.
  induction l as [|[k0 x0] l IH]; intros wd w l' Hn Hw H; cbn [tree_insert] in H.
  - inversion H; subst. cbn [map snd]. constructor; [cbn; tauto|constructor].
  - destruct (Z.eqb_spec wd k0); [discriminate|].
    destruct (Z.ltb_spec wd k0).
    + inversion H; subst. cbn [map snd]. constructor; assumption.
    + destruct (tree_insert l wd w) as [r|] eqn:E; [|discriminate].
      inversion H; subst. cbn [map snd] in *. inversion Hn; subst.
      constructor.
      * intros Hin. apply ids_in in Hin. destruct Hin as [k Hk].
        apply (tree_insert_in _ _ _ _ E) in Hk. destruct Hk as [Ek|Hk].
        -- inversion Ek; subst. apply Hw. left. reflexivity.
        -- apply H3. eapply in_ids; eauto.
      * apply (IH wd w r); [assumption| |assumption]. intros Hin. apply Hw. right. exact Hin.
Qed.

(* deletion by watch id = filter *)
Definition without (w : id) (l : list (Z * id)) : list (Z * id) :=
  filter (fun p => negb (Pos.eqb (snd p) w)) l.

Lemma without_in : forall w l k x, In (k, x) (without w l) <-> In (k, x) l /\ x <> w.
Proof.
  intros. unfold without. rewrite filter_In. cbn [snd].
  destruct (Pos.eqb_spec x w); cbn [negb]; intuition congruence.
Qed.

Lemma without_absent : forall w l, ~ In w (map snd l) -> without w l = l.
Proof.
  induction l as [|[k x] l IH]; intros H; [reflexivity|].
  cbn [map snd] in H. unfold without in *. cbn [filter snd].
  destruct (Pos.eqb_spec x w).
  - subst. exfalso. apply H. left. reflexivity.
  - cbn [negb]. rewrite IH; [reflexivity|]. intros Hin. apply H. right. exact Hin.
Qed.

Lemma tree_delete_without : forall l w, NoDup (map snd l) -> In w (map snd l) ->
  tree_delete l w = Some (without w l).
Proof.
  induction l as [|[k x] l IH]; intros w Hn Hin; [destruct Hin|].
  cbn [map snd] in *. inversion Hn; subst.
  cbn [tree_delete]. unfold without. cbn [filter snd]. fold (without w l).
  destruct (Pos.eqb_spec x w).
  - subst. cbn [negb]. rewrite without_absent by assumption. reflexivity.
  - cbn [negb]. destruct Hin as [E|Hin]; [congruence|].
    rewrite IH by assumption. reflexivity.
Qed.

Lemma without_sorted : forall w l, StronglySorted Z.lt (map fst l) -> StronglySorted Z.lt (map fst (without w l)).
Proof.
  induction l as [|[k x] l IH]; intros Hs; [constructor|].
  cbn [map fst] in Hs. apply sorted_cons_inv in Hs. destruct Hs as [Hs Hlt].
  unfold without. cbn [filter snd]. fold (without w l).
  destruct (negb (Pos.eqb x w)).
  - cbn [map fst]. apply sorted_cons; [auto|].
    intros k' Hin. apply keys_in in Hin. destruct Hin as [y Hy].
    apply without_in in Hy. destruct Hy as [Hy _]. apply Hlt. eapply in_keys; eauto.
  - auto.
Qed.

Lemma without_nodup : forall w l, NoDup (map snd l) -> NoDup (map snd (without w l)).
Proof.
  induction l as [|[k x] l IH]; intros Hn; [constructor|].
  cbn [map snd] in Hn. inversion Hn; subst.
  unfold without. cbn [filter snd]. fold (without w l).
  destruct (negb (Pos.eqb x w)).
  - cbn [map snd]. constructor; [|auto].
    intros Hin. apply ids_in in Hin. destruct Hin as [k' Hk]. apply without_in in Hk.
    destruct Hk as [Hk _]. apply H1. eapply in_ids; eauto.
  - auto.
Qed.

Lemma remove_key_without : forall l wd w, NoDup (map snd l) -> lookup l wd = Some w ->
  remove_key l wd = without w l.
Proof.
  induction l as [|[k x] l IH]; intros wd w Hn Hl; [discriminate|].
  cbn [map snd] in Hn. inversion Hn; subst.
  cbn [lookup] in Hl. cbn [remove_key]. unfold without. cbn [filter snd]. fold (without w l).
  destruct (Z.eqb_spec wd k).
  - inversion Hl; subst. rewrite Pos.eqb_refl. cbn [negb]. rewrite without_absent by assumption. reflexivity.
  - assert (x <> w).
    { intros E. subst. apply lookup_in in Hl. apply in_ids in Hl. contradiction. }
    destruct (Pos.eqb_spec x w); [contradiction|]. cbn [negb].
    rewrite (IH wd w) by assumption. reflexivity.
Qed.

(* ---------- the invariant ---------- *)
Lemma Inv_ext : forall s s',
  (forall i, itab s' i = itab s i) -> (forall w, wtab s' w = wtab s w) -> frame s' = frame s ->
  Inv s -> Inv s'.
Proof.
  intros s s' Hi Hw Hf [H1 H2 H3 H4 H5 H6 H7]. constructor.
  - intros i ir E. rewrite Hi in E. eauto.
  - intros i ir E. rewrite Hi in E. eauto.
  - intros i ir wd w E Hin. rewrite Hi in E. rewrite Hw. eauto.
  - intros w wr E. rewrite Hw in E. destruct (H4 w wr E) as [ir [Ei Hin]].
    exists ir. rewrite Hi. auto.
  - intros i ir E. rewrite Hi in E. rewrite Hf. eauto.
  - intros i E. rewrite Hf in E. rewrite Hi. eauto.
  - intros i ir w E. rewrite Hi in E. eauto.
Qed.

Lemma Inv_init : Inv init.
Proof. constructor; cbn; intros; try discriminate. Qed.

Lemma inv_term_not_uninit : forall s i ir, Inv s -> itab s i = Some ir -> i_term ir <> TUninit.
Proof.
  intros s i ir H E. rewrite (inv_term s H i ir E). unfold term_of_frame.
  destruct (frame s) as [[j|]|]; try discriminate. destruct (Pos.eqb j i); discriminate.
Qed.

(* the entries of a set are allocated watches *)
Lemma inv_entry_alloc : forall s i ir wd w, Inv s -> itab s i = Some ir -> In (wd, w) (i_watches ir) -> wtab s w <> None.
Proof.
  intros s i ir wd w H E Hin. destruct (inv_tree_w s H i ir wd w E Hin) as [m Hm]. congruence.
Qed.

Lemma inv_absent_not_in : forall s i ir w, Inv s -> itab s i = Some ir -> wtab s w = None -> ~ In w (map snd (i_watches ir)).
Proof.
  intros s i ir w H E Hw Hin. apply ids_in in Hin. destruct Hin as [k Hk].
  eapply inv_entry_alloc; eauto.
Qed.

(* register instance *)
Lemma Inv_reg_inst : forall s i, Inv s -> itab s i = None ->
  Inv (set_inst s i {| i_watches := []; i_term := TNull |}).
Proof.
  intros s i H Hi. constructor; cbn [set_inst set_itab itab wtab frame].
  - intros j jr E. destruct (Pos.eq_dec j i) as [->|n].
    + rewrite upd_same in E. inversion E; subst. constructor.
    + rewrite upd_other in E by assumption. eapply inv_sorted; eauto.
  - intros j jr E. destruct (Pos.eq_dec j i) as [->|n].
    + rewrite upd_same in E. inversion E; subst. constructor.
    + rewrite upd_other in E by assumption. eapply inv_nodup; eauto.
  - intros j jr wd w E Hin. destruct (Pos.eq_dec j i) as [->|n].
    + rewrite upd_same in E. inversion E; subst. destruct Hin.
    + rewrite upd_other in E by assumption. eapply inv_tree_w; eauto.
  - intros w wr E. destruct (inv_w_tree s H w wr E) as [ir [Ei Hin]].
    exists ir. rewrite upd_other; [auto|]. intros e. rewrite e in Ei. congruence.
  - intros j jr E. destruct (Pos.eq_dec j i) as [->|n].
    + rewrite upd_same in E. inversion E; subst. cbn [i_term]. unfold term_of_frame.
      destruct (frame s) as [[k|]|] eqn:F; try reflexivity.
      destruct (Pos.eqb_spec k i); [|reflexivity]. subst.
      exfalso. eapply inv_frame; eauto.
    + rewrite upd_other in E by assumption. eapply inv_term; eauto.
  - intros j F. destruct (Pos.eq_dec j i) as [->|n].
    + rewrite upd_same. discriminate.
    + rewrite upd_other by assumption. eapply inv_frame; eauto.
  - intros j jr w E. destruct (Pos.eq_dec j i) as [->|n].
    + rewrite upd_same in E. inversion E; subst. intros [].
    + rewrite upd_other in E by assumption. eapply inv_wd; eauto.
Qed.

(* unregister instance: the frame's `this` is nulled when it is this instance *)
Definition unreg_frame (s : state) (i : id) : state :=
  match frame s with
  | Some (Some j) => if Pos.eqb j i then set_frame s (Some None) else s
  | _ => s
  end.

Lemma instance_unregister_ok : forall s i ir, Inv s -> itab s i = Some ir ->
  instance_unregister s i = Ok (unreg_frame s i).
Proof.
  intros s i ir H E. unfold instance_unregister, unreg_frame. rewrite E.
  rewrite (inv_term s H i ir E). unfold term_of_frame.
  destruct (frame s) as [[j|]|]; try reflexivity.
  destruct (Pos.eqb j i); reflexivity.
Qed.

Lemma unreg_frame_tabs : forall s i, itab (unreg_frame s i) = itab s /\ wtab (unreg_frame s i) = wtab s.
Proof.
  intros. unfold unreg_frame. destruct (frame s) as [[j|]|]; auto. destruct (Pos.eqb j i); auto.
Qed.

Lemma unreg_frame_frame : forall s i,
  frame (unreg_frame s i) = match frame s with
                            | Some (Some j) => if Pos.eqb j i then Some None else frame s
                            | _ => frame s
                            end.
Proof.
  intros. unfold unreg_frame. destruct (frame s) as [[j|]|] eqn:F; auto.
  destruct (Pos.eqb j i); auto.
Qed.

Lemma Inv_unreg_inst : forall s i ir, Inv s -> itab s i = Some ir ->
  Inv (free_instance (unreg_frame s i) i).
Proof.
  intros s i ir H Ei.
  destruct (unreg_frame_tabs s i) as [Ti Tw].
  pose proof (unreg_frame_frame s i) as Tf.
  constructor; cbn [free_instance itab wtab frame]; rewrite ?Ti, ?Tw.
  - intros j jr E. destruct (Pos.eq_dec j i) as [->|n].
    + rewrite upd_same in E. discriminate.
    + rewrite upd_other in E by assumption. eapply inv_sorted; eauto.
  - intros j jr E. destruct (Pos.eq_dec j i) as [->|n].
    + rewrite upd_same in E. discriminate.
    + rewrite upd_other in E by assumption. eapply inv_nodup; eauto.
  - intros j jr wd w E Hin. destruct (Pos.eq_dec j i) as [->|n].
    + rewrite upd_same in E. discriminate.
    + rewrite upd_other in E by assumption.
      destruct (inv_tree_w s H j jr wd w E Hin) as [m Hm]. exists m. rewrite Hm. cbn [w_inst].
      destruct (Pos.eqb_spec j i); [contradiction|reflexivity].
  - intros w wr E. destruct (wtab s w) as [wr0|] eqn:Ew; [|discriminate].
    destruct (Pos.eqb_spec (w_inst wr0) i); [discriminate|]. inversion E; subst.
    destruct (inv_w_tree s H w wr Ew) as [jr [Ej Hin]]. exists jr.
    rewrite upd_other by assumption. auto.
  - intros j jr E. destruct (Pos.eq_dec j i) as [->|n].
    + rewrite upd_same in E. discriminate.
    + rewrite upd_other in E by assumption. rewrite (inv_term s H j jr E). rewrite Tf.
      unfold term_of_frame. destruct (frame s) as [[k|]|]; try reflexivity.
      destruct (Pos.eqb_spec k i); [|reflexivity]. subst.
      destruct (Pos.eqb_spec i j); [congruence|reflexivity].
  - intros j F. rewrite Tf in F. destruct (frame s) as [[k|]|] eqn:Fs; try discriminate.
    destruct (Pos.eqb_spec k i); [discriminate|]. inversion F; subst.
    rewrite upd_other by assumption. eapply inv_frame; eauto.
  - intros j jr w E. destruct (Pos.eq_dec j i) as [->|n].
    + rewrite upd_same in E. discriminate.
    + rewrite upd_other in E by assumption. eapply inv_wd; eauto.
Qed.

(* register watch: the successful case (inotify_add_watch did not return -1) *)
Lemma Inv_reg_watch : forall s w i ir wd m l, Inv s -> wtab s w = None -> itab s i = Some ir ->
  tree_insert (i_watches ir) wd w = Some l -> wd <> -1 ->
  Inv (set_inst (set_watch s w {| w_inst := i; w_wd := wd; w_mask := m |}) i
                {| i_watches := l; i_term := i_term ir |}).
Proof.
  intros s w i ir wd m l H Hw Ei Hl Hwd.
  assert (Hnotin : ~ In w (map snd (i_watches ir))) by (eapply inv_absent_not_in; eauto).
  constructor; cbn [set_inst set_watch set_itab set_wtab itab wtab frame].
  - intros j jr E. destruct (Pos.eq_dec j i) as [->|n].
    + rewrite upd_same in E. inversion E; subst. cbn [i_watches].
      eapply tree_insert_sorted; eauto. eapply inv_sorted; eauto.
    + rewrite upd_other in E by assumption. eapply inv_sorted; eauto.
  - intros j jr E. destruct (Pos.eq_dec j i) as [->|n].
    + rewrite upd_same in E. inversion E; subst. cbn [i_watches].
      eapply tree_insert_nodup; eauto. eapply inv_nodup; eauto.
    + rewrite upd_other in E by assumption. eapply inv_nodup; eauto.
  - intros j jr k x E Hin. destruct (Pos.eq_dec j i) as [->|n].
    + rewrite upd_same in E. inversion E; subst. cbn [i_watches] in Hin.
      apply (tree_insert_in _ _ _ _ Hl) in Hin. destruct Hin as [Ex|Hin].
      * inversion Ex; subst. exists m. rewrite upd_same. reflexivity.
      * destruct (inv_tree_w s H i ir k x Ei Hin) as [m' Hm']. exists m'.
        rewrite upd_other; [assumption|]. intros ->. congruence.
    + rewrite upd_other in E by assumption.
      destruct (inv_tree_w s H j jr k x E Hin) as [m' Hm']. exists m'.
      rewrite upd_other; [assumption|]. intros ->. congruence.
  - intros x xr E. destruct (Pos.eq_dec x w) as [->|n].
    + rewrite upd_same in E. inversion E; subst. cbn [w_inst w_wd].
      rewrite upd_same. eexists. split; [reflexivity|]. cbn [i_watches].
      apply (tree_insert_in _ _ _ _ Hl). left. reflexivity.
    + rewrite upd_other in E by assumption.
      destruct (inv_w_tree s H x xr E) as [jr [Ej Hin]].
      destruct (Pos.eq_dec (w_inst xr) i) as [e|n'].
      * rewrite e in *. rewrite upd_same. eexists. split; [reflexivity|]. cbn [i_watches].
        apply (tree_insert_in _ _ _ _ Hl). right. congruence.
      * rewrite upd_other by assumption. eauto.
  - intros j jr E. destruct (Pos.eq_dec j i) as [->|n].
    + rewrite upd_same in E. inversion E; subst. cbn [i_term]. eapply inv_term; eauto.
    + rewrite upd_other in E by assumption. eapply inv_term; eauto.
  - intros j F. destruct (Pos.eq_dec j i) as [->|n].
    + rewrite upd_same. discriminate.
    + rewrite upd_other by assumption. eapply inv_frame; eauto.
  - intros j jr x E Hin. destruct (Pos.eq_dec j i) as [->|n].
    + rewrite upd_same in E. inversion E; subst. cbn [i_watches] in Hin.
      apply (tree_insert_in _ _ _ _ Hl) in Hin. destruct Hin as [Ex|Hin].
      * inversion Ex. congruence.
      * eapply inv_wd; eauto.
    + rewrite upd_other in E by assumption. eapply inv_wd; eauto.
Qed.

(* a watch leaves the set of its instance and is freed: watch unregister, and the drop
   of a one-shot / IN_IGNORED watch followed by the free at handler entry *)
Lemma Inv_remove_watch : forall s w wr ir, Inv s -> wtab s w = Some wr -> itab s (w_inst wr) = Some ir ->
  Inv (free_watch (set_inst s (w_inst wr) {| i_watches := without w (i_watches ir); i_term := i_term ir |}) w).
Proof.
  intros s w wr ir H Hw Ei. set (i := w_inst wr) in *.
  constructor; cbn [free_watch set_inst set_itab set_wtab itab wtab frame].
  - intros j jr E. destruct (Pos.eq_dec j i) as [->|n].
    + rewrite upd_same in E. inversion E; subst. cbn [i_watches].
      apply without_sorted. eapply inv_sorted; eauto.
    + rewrite upd_other in E by assumption. eapply inv_sorted; eauto.
  - intros j jr E. destruct (Pos.eq_dec j i) as [->|n].
    + rewrite upd_same in E. inversion E; subst. cbn [i_watches].
      apply without_nodup. eapply inv_nodup; eauto.
    + rewrite upd_other in E by assumption. eapply inv_nodup; eauto.
  - intros j jr k x E Hin. destruct (Pos.eq_dec j i) as [->|n].
    + rewrite upd_same in E. inversion E; subst. cbn [i_watches] in Hin.
      apply without_in in Hin. destruct Hin as [Hin Hx].
      destruct (inv_tree_w s H i ir k x Ei Hin) as [m' Hm']. exists m'.
      rewrite upd_other; assumption.
    + rewrite upd_other in E by assumption.
      destruct (inv_tree_w s H j jr k x E Hin) as [m' Hm']. exists m'.
      rewrite upd_other; [assumption|]. intros ->. rewrite Hw in Hm'. inversion Hm'; subst.
      apply n. reflexivity.
  - intros x xr E. destruct (Pos.eq_dec x w) as [->|n].
    + rewrite upd_same in E. discriminate.
    + rewrite upd_other in E by assumption.
      destruct (inv_w_tree s H x xr E) as [jr [Ej Hin]].
      destruct (Pos.eq_dec (w_inst xr) i) as [e|n'].
      * rewrite e in *. rewrite upd_same. eexists. split; [reflexivity|]. cbn [i_watches].
        apply without_in. split; [congruence|assumption].
      * rewrite upd_other by assumption. eauto.
  - intros j jr E. destruct (Pos.eq_dec j i) as [->|n].
    + rewrite upd_same in E. inversion E; subst. cbn [i_term]. eapply inv_term; eauto.
    + rewrite upd_other in E by assumption. eapply inv_term; eauto.
  - intros j F. destruct (Pos.eq_dec j i) as [->|n].
    + rewrite upd_same. discriminate.
    + rewrite upd_other by assumption. eapply inv_frame; eauto.
  - intros j jr x E Hin. destruct (Pos.eq_dec j i) as [->|n].
    + rewrite upd_same in E. inversion E; subst. cbn [i_watches] in Hin.
      apply without_in in Hin. destruct Hin as [Hin _]. eapply inv_wd; eauto.
    + rewrite upd_other in E by assumption. eapply inv_wd; eauto.
Qed.

(* ---------- wd -1 is the key of no watch ---------- *)
Lemma view_ok_spec : forall l, view_ok l = true <-> (forall w, ~ In (-1, w) l).
Proof.
  intros l. unfold view_ok. rewrite forallb_forall. split.
  - intros H w Hin. specialize (H _ Hin). cbn in H. discriminate.
  - intros H [k x] Hin. cbn [fst]. unfold no_wd. destruct (Z.eqb_spec k (-1)); [|reflexivity].
    subst. exfalso. eapply H; eauto.
Qed.

Lemma inv_view_ok : forall s i ir, Inv s -> itab s i = Some ir -> view_ok (i_watches ir) = true.
Proof. intros s i ir H E. apply view_ok_spec. intros w. eapply inv_wd; eauto. Qed.

Lemma route_lookup : forall l wd, view_ok l = true -> route l wd = lookup l wd.
Proof.
  intros l wd H. unfold route, no_wd. destruct (Z.eqb_spec wd (-1)); [|reflexivity].
  subst. symmetry. apply lookup_none. apply view_ok_spec. assumption.
Qed.

Lemma route_some : forall l wd w, route l wd = Some w -> wd <> -1 /\ lookup l wd = Some w.
Proof.
  intros l wd w H. unfold route, no_wd in H. destruct (Z.eqb_spec wd (-1)); [discriminate|]. auto.
Qed.

Lemma inv_watch_lookup : forall s w wr, Inv s -> wtab s w = Some wr ->
  exists ir, itab s (w_inst wr) = Some ir /\ In w (map snd (i_watches ir)) /\
             tree_delete (i_watches ir) w = Some (without w (i_watches ir)).
Proof.
  intros s w wr H Hw. destruct (inv_w_tree s H w wr Hw) as [ir [Ei Hin]].
  exists ir. split; [assumption|]. assert (In w (map snd (i_watches ir))) by (eapply in_ids; eauto).
  split; [assumption|]. apply tree_delete_without; [eapply inv_nodup; eauto|assumption].
Qed.

(* ---------- single actions ---------- *)

(* the effect of an action with its rc on the frame's `this` *)
Definition frame_after (f : option (option id)) (x : act * Z) : option (option id) :=
  match x with
  | (AUnregI i, rc) =>
      if rc =? 0 then
        match f with
        | Some (Some j) => if Pos.eqb j i then Some None else f
        | _ => f
        end
      else f
  | _ => f
  end.

Ltac skip_case H :=
  split; [reflexivity|]; split; [exact H|]; split; [reflexivity|]; split; [auto|]; intros; congruence.

Lemma do_act_ok : forall s a, Inv s ->
  exists s' rc, do_act s a = (Ok s', rc) /\ Inv s' /\
    frame s' = frame_after (frame s) (a, rc) /\
    (forall x, wtab s x = None -> ~ regs_watch x (a, rc) -> wtab s' x = None) /\
    (forall w, a = AUnregW w -> rc = 0 -> wtab s' w = None).
Proof.
  intros s a H. destruct a as [i ok|i|w i wd m|w]; cbn [do_act].
  - (* ARegI *)
    unfold live. destruct (itab s i) as [ir|] eqn:Ei.
    + exists s, 1. skip_case H.
    + unfold instance_register. destruct ok; cbn [negb].
      * eexists _, 0. split; [reflexivity|]. split; [apply Inv_reg_inst; assumption|].
        cbn [frame_after set_inst set_itab wtab frame]. split; [reflexivity|]. split; [auto|]. intros; congruence.
      * exists s, (-1). skip_case H.
  - (* AUnregI *)
    unfold live. destruct (itab s i) as [ir|] eqn:Ei; cbn [negb].
    + rewrite (instance_unregister_ok s i ir H Ei).
      eexists _, 0. split; [reflexivity|]. split; [eapply Inv_unreg_inst; eauto|].
      destruct (unreg_frame_tabs s i) as [Ti Tw].
      cbn [free_instance frame wtab frame_after]. rewrite Tw.
      split; [|split].
      * rewrite unreg_frame_frame. change (0 =? 0) with true. cbv iota.
        destruct (frame s) as [[j|]|]; reflexivity.
      * intros x Hx _. rewrite Hx. reflexivity.
      * intros; congruence.
    + exists s, 1. skip_case H.
  - (* ARegW *)
    unfold allocated, live. destruct (wtab s w) as [wr0|] eqn:Ew; cbn [orb].
    { exists s, 1. skip_case H. }
    destruct (itab s i) as [ir|] eqn:Ei; cbn [negb].
    2:{ exists s, 1. skip_case H. }
    unfold watch_register. cbn [set_watch set_wtab wtab itab]. rewrite upd_same. cbn [w_inst w_mask]. rewrite Ei.
    assert (Hback : forall s1 rc, rc <> 0 ->
              (forall j, itab s1 j = itab s j) -> (forall x, wtab s1 x = wtab s x) -> frame s1 = frame s ->
              Inv s1 /\ frame s1 = frame_after (frame s) (ARegW w i wd m, rc) /\
              (forall x, wtab s x = None -> ~ regs_watch x (ARegW w i wd m, rc) -> wtab s1 x = None) /\
              (forall w0, ARegW w i wd m = AUnregW w0 -> rc = 0 -> wtab s1 w0 = None)).
    { intros s1 rc Hrc Hi Hx Hf. split; [eapply Inv_ext; eauto|]. cbn [frame_after].
      split; [assumption|]. split; [|intros; congruence]. intros x E _. rewrite Hx. assumption. }
    assert (Hfree : forall x, upd (upd (upd (wtab s) w (Some {| w_inst := i; w_wd := poison32; w_mask := m |})) w
                              (Some {| w_inst := i; w_wd := wd; w_mask := m |})) w None x = wtab s x).
    { intros x. destruct (Pos.eq_dec x w) as [->|n]; [rewrite upd_same; auto|rewrite !upd_other by assumption; reflexivity]. }
    destruct (Z.eqb_spec wd (-1)).
    + change (-1 =? 0) with false. cbv iota.
      eexists _, (-1). split; [reflexivity|]. apply Hback; [lia| | |]; cbn [free_watch set_watch set_wtab itab wtab frame]; auto.
    + destruct (tree_insert (i_watches ir) wd w) as [l|] eqn:El.
      * change (0 =? 0) with true. cbv iota.
        eexists _, 0. split; [reflexivity|].
        split.
        { eapply Inv_ext; [| | |eapply (Inv_reg_watch s w i ir wd m l); eauto];
            cbn [set_inst set_watch set_itab set_wtab itab wtab frame]; auto.
          intros x. destruct (Pos.eq_dec x w) as [->|n']; [rewrite !upd_same; reflexivity|rewrite !upd_other by assumption; reflexivity]. }
        cbn [set_inst set_watch set_itab set_wtab itab wtab frame frame_after].
        split; [reflexivity|]. split; [|intros; congruence].
        intros x Hx Hn. destruct (Pos.eq_dec x w) as [->|n'].
        -- exfalso. apply Hn. cbn. auto.
        -- rewrite !upd_other by assumption. assumption.
      * change (-1 =? 0) with false. cbv iota.
        eexists _, (-1). split; [reflexivity|]. apply Hback; [lia| | |]; cbn [free_watch set_watch set_wtab itab wtab frame]; auto.
  - (* AUnregW *)
    unfold allocated. destruct (wtab s w) as [wr|] eqn:Ew; cbn [negb].
    2:{ exists s, 1. skip_case H. }
    unfold watch_unregister. rewrite Ew.
    destruct (inv_watch_lookup s w wr H Ew) as [ir [Ei [Hin Hdel]]].
    rewrite Ei, Hdel.
    eexists _, 0. split; [reflexivity|]. split; [eapply Inv_remove_watch; eauto|].
    cbn [free_watch set_inst set_itab set_wtab itab wtab frame frame_after].
    split; [reflexivity|]. split.
    + intros x Hx _. destruct (Pos.eq_dec x w) as [->|n]; [apply upd_same|rewrite upd_other by assumption; assumption].
    + intros w0 E _. inversion E; subst. apply upd_same.
Qed.

(* a registration for which inotify_add_watch returns -1 returns -1 (or is skipped by the guard):
   whatever the state *)
Lemma do_act_reg_ok : forall s a o rc, do_act s a = (o, rc) -> reg_rc_ok (a, rc) = true.
Proof.
  intros s a o rc E. destruct a as [i ok|i|w i wd m|w]; try reflexivity.
  cbn [reg_rc_ok]. unfold no_wd. destruct (Z.eqb_spec wd (-1)) as [->|]; [|reflexivity].
  cbn [do_act] in E. destruct (allocated s w || negb (live s i)) eqn:G.
  - inversion E; subst. reflexivity.
  - apply orb_false_elim in G. destruct G as [_ G]. apply negb_false_iff in G.
    unfold live in G. destruct (itab s i) as [ir|] eqn:Ei; [|discriminate].
    unfold watch_register in E. cbn [set_watch set_wtab wtab itab] in E. rewrite upd_same in E.
    cbn [w_inst] in E. rewrite Ei in E. change (-1 =? -1) with true in E. cbv iota in E.
    change (-1 =? 0) with false in E. cbv iota in E. inversion E; subst. reflexivity.
Qed.

Lemma do_acts_reg_ok : forall l s o lg, do_acts s l = (o, lg) -> forallb reg_rc_ok lg = true.
Proof.
  induction l as [|a l IH]; intros s o lg E; cbn [do_acts] in E.
  - inversion E; subst. reflexivity.
  - destruct (do_act s a) as [o1 rc] eqn:Ea. pose proof (do_act_reg_ok s a o1 rc Ea) as Hr.
    destruct o1 as [s1| | | | | | |]; try (inversion E; subst; cbn [forallb]; rewrite Hr; reflexivity).
    destruct (do_acts s1 l) as [o' lg'] eqn:El. inversion E; subst.
    cbn [forallb]. rewrite Hr. cbn [andb]. eapply IH; eauto.
Qed.

(* ---------- action lists ---------- *)
Lemma frame_after_null : forall x, frame_after (Some None) x = Some None.
Proof. intros [[i ok|i|w i wd m|w] rc]; cbn [frame_after]; try reflexivity. destruct (rc =? 0); reflexivity. Qed.

Lemma frames_after_null : forall lg, fold_left frame_after lg (Some None) = Some None.
Proof. induction lg as [|x lg IH]; cbn [fold_left]; [reflexivity|]. rewrite frame_after_null. exact IH. Qed.

Lemma frames_after_this : forall lg i,
  fold_left frame_after lg (Some (Some i)) = if unreg_inst i lg then Some None else Some (Some i).
Proof.
  induction lg as [|[a rc] lg IH]; intros i; cbn [fold_left unreg_inst existsb]; [reflexivity|].
  destruct a as [j ok|j|w j wd m|w]; cbn [frame_after orb]; try apply IH.
  rewrite (Pos.eqb_sym i j).
  destruct (rc =? 0); destruct (Pos.eqb j i); cbn [andb orb]; try apply IH.
  apply frames_after_null.
Qed.

Lemma in_remove_id : forall w x l, In x l -> x <> w -> In x (remove_id w l).
Proof.
  induction l as [|y l IH]; intros Hin Hne; [destruct Hin|].
  cbn [remove_id]. destruct (Pos.eqb_spec w y).
  - subst. destruct Hin as [E|Hin]; [congruence|auto].
  - destruct Hin as [E|Hin]; [left; assumption|right; auto].
Qed.

Lemma remove_id_in : forall w x l, In x (remove_id w l) -> In x l /\ x <> w.
Proof.
  induction l as [|y l IH]; intros Hin; [destruct Hin|].
  cbn [remove_id] in Hin. destruct (Pos.eqb_spec w y).
  - subst. destruct (IH Hin). split; [right|]; assumption.
  - destruct Hin as [E|Hin].
    + subst. split; [left; reflexivity|congruence].
    + destruct (IH Hin). split; [right|]; assumption.
Qed.

Lemma dead_step_keep : forall w d x, In w d -> ~ regs_watch w x -> In w (dead_step d x).
Proof.
  intros w d [[j ok|j|w' j wd m|w'] rc] Hin Hn; cbn [dead_step]; try assumption.
  - destruct (Z.eqb_spec rc 0); [|assumption]. apply in_remove_id; [assumption|].
    intros E. apply Hn. cbn. auto.
  - destruct (rc =? 0); [right|]; assumption.
Qed.

Lemma dead_after_keep : forall lg w d, In w d -> (forall x, In x lg -> ~ regs_watch w x) -> In w (dead_after lg d).
Proof.
  unfold dead_after. induction lg as [|x lg IH]; intros w d Hin Hn; cbn [fold_left]; [assumption|].
  apply IH.
  - apply dead_step_keep; [assumption|]. apply Hn. left. reflexivity.
  - intros y Hy. apply Hn. right. assumption.
Qed.

Lemma dead_after_app : forall l1 l2 d, dead_after (l1 ++ l2) d = dead_after l2 (dead_after l1 d).
Proof. intros. unfold dead_after. apply fold_left_app. Qed.

Lemma do_acts_ok : forall l s, Inv s ->
  exists s' lg, do_acts s l = (Ok s', lg) /\ Inv s' /\ map fst lg = l /\
    frame s' = fold_left frame_after lg (frame s) /\
    (forall dead, (forall x, In x dead -> wtab s x = None) ->
                  forall x, In x (dead_after lg dead) -> wtab s' x = None).
Proof.
  induction l as [|a l IH]; intros s H.
  - exists s, []. cbn. auto.
  - destruct (do_act_ok s a H) as [s1 [rc [E [H1 [F [C D]]]]]].
    destruct (IH s1 H1) as [s2 [lg [E2 [H2 [M [F2 Dd]]]]]].
    exists s2, ((a, rc) :: lg). cbn [do_acts]. rewrite E, E2.
    split; [reflexivity|]. split; [assumption|]. split; [cbn; congruence|].
    split; [cbn [fold_left]; rewrite <- F; assumption|].
    intros dead Hdead x Hx. unfold dead_after in Hx. cbn [fold_left] in Hx.
    apply (Dd (dead_step dead (a, rc))); [|exact Hx].
    intros y Hy. destruct a as [j ok|j|w j wd m|w]; cbn [dead_step] in Hy.
    + apply C; [auto|]. cbn. tauto.
    + apply C; [auto|]. cbn. tauto.
    + destruct (Z.eqb_spec rc 0).
      * apply remove_id_in in Hy. destruct Hy as [Hy Hne]. apply C; [auto|]. cbn. intros [E' _]. congruence.
      * apply C; [auto|]. cbn. intros [_ E']. contradiction.
    + destruct (Z.eqb_spec rc 0).
      * destruct Hy as [E'|Hy]; [subst; apply (D y); auto|]. apply C; [auto|]. cbn. tauto.
      * apply C; [auto|]. cbn. tauto.
Qed.
