(* InotifyCodec.v -- the byte-level record codec: header fields and names
   survive encode / parse, the parse loop of iv_inotify_got_event on an encoded
   buffer is the event-level dispatch loop `loop_ev`. *)
From Coq Require Import List ZArith Bool Lia.
From Ivv Require Import Misc.InotifyModel Misc.InotifyMonitor Misc.InotifySpec.
Import ListNotations.
Local Open Scope Z_scope.
Ltac Zify.zify_post_hook ::= Z.div_mod_to_equations.

Lemma le32_sum : forall v,
  v mod 256 + 256 * ((v / 256) mod 256) + 65536 * ((v / 65536) mod 256) + 16777216 * ((v / 16777216) mod 256)
  = v mod 4294967296.
Proof. intros. lia. Qed.

Lemma get32_le32 : forall v r, get32 (le32 v ++ r) = Some (v mod 4294967296, r).
Proof.
  intros. unfold le32, get32. cbn [app]. rewrite le32_sum. reflexivity.
Qed.

Lemma sgn32_mod : forall v, -2147483648 <= v < 2147483648 -> sgn32 (v mod 4294967296) = v.
Proof.
  intros v H. unfold sgn32. destruct (Z.leb_spec 2147483648 (v mod 4294967296)); lia.
Qed.

Lemma zlength_cons : forall x l, zlength (x :: l) = zlength l + 1.
Proof. intros. unfold zlength. cbn [length]. lia. Qed.

Lemma zlength_nonneg : forall l, 0 <= zlength l.
Proof. intros. unfold zlength. lia. Qed.

Lemma zlength_app : forall a b, zlength (a ++ b) = zlength a + zlength b.
Proof. intros. unfold zlength. rewrite app_length. lia. Qed.

Lemma zskip_app : forall a r, zskip (zlength a) (a ++ r) = r.
Proof.
  induction a as [|x a IH]; intros r.
  - cbn [app]. destruct r; reflexivity.
  - cbn [app zskip]. rewrite zlength_cons.
    pose proof (zlength_nonneg a).
    destruct (Z.leb_spec (zlength a + 1) 0); [lia|].
    replace (zlength a + 1 - 1) with (zlength a) by lia. apply IH.
Qed.

Lemma ztake_app : forall a r, ztake (zlength a) (a ++ r) = a.
Proof.
  induction a as [|x a IH]; intros r.
  - cbn [app]. destruct r; reflexivity.
  - cbn [app ztake]. rewrite zlength_cons.
    pose proof (zlength_nonneg a).
    destruct (Z.leb_spec (zlength a + 1) 0); [lia|].
    replace (zlength a + 1 - 1) with (zlength a) by lia. rewrite IH. reflexivity.
Qed.

Lemma has_bytes_app : forall a r, has_bytes (zlength a) (a ++ r) = true.
Proof.
  induction a as [|x a IH]; intros r.
  - cbn [app]. destruct r; reflexivity.
  - cbn [app has_bytes]. rewrite zlength_cons.
    pose proof (zlength_nonneg a).
    destruct (Z.leb_spec (zlength a + 1) 0); [lia|].
    replace (zlength a + 1 - 1) with (zlength a) by lia. apply IH.
Qed.

Lemma zlength_le32 : forall v, zlength (le32 v) = 4.
Proof. reflexivity. Qed.

Lemma zlength_encode_ev : forall e, zlength (encode_ev e) = zlength (e_name e) + 16.
Proof.
  intros. unfold encode_ev. rewrite !zlength_app, !zlength_le32. lia.
Qed.

Lemma encode_ev_nonnil : forall e r, encode_ev e ++ r <> [].
Proof. intros e r. unfold encode_ev, le32. cbn [app]. discriminate. Qed.

Lemma parse_header_encode : forall e r, wf_event e ->
  parse_header (encode_ev e ++ r) =
  Some (e_wd e, e_mask e, e_cookie e, zlength (e_name e), e_name e ++ r).
Proof.
  intros e r [Hwd Hm Hc Hl Ha].
  unfold parse_header, encode_ev. rewrite <- !app_assoc.
  rewrite get32_le32, get32_le32, get32_le32, get32_le32.
  rewrite sgn32_mod by assumption.
  pose proof (zlength_nonneg (e_name e)).
  rewrite (Z.mod_small (e_mask e)) by lia.
  rewrite (Z.mod_small (e_cookie e)) by lia.
  rewrite (Z.mod_small (zlength (e_name e))) by lia.
  reflexivity.
Qed.

Lemma zskip_encode : forall e r, zskip (zlength (e_name e) + 16) (encode_ev e ++ r) = r.
Proof. intros. rewrite <- zlength_encode_ev. apply zskip_app. Qed.

Lemma encode_cons : forall e evs, encode (e :: evs) = encode_ev e ++ encode evs.
Proof. reflexivity. Qed.

Lemma length_encode_cons : forall e evs, (length (encode (e :: evs)) = 16 + length (e_name e) + length (encode evs))%nat.
Proof.
  intros. rewrite encode_cons, app_length. unfold encode_ev, le32. rewrite !app_length. cbn [length]. lia.
Qed.

(* ---------- decode (encode evs) = evs ---------- *)
Lemma decode_unfold : forall f l, l <> [] ->
  decode (S f) l =
  match parse_header l with
  | None => None
  | Some (wd, mask, cookie, len, after) =>
      if negb (has_bytes len after) then None else
      match decode f (zskip (len + 16) l) with
      | Some evs => Some ({| e_wd := wd; e_mask := mask; e_cookie := cookie; e_name := ztake len after |} :: evs)
      | None => None
      end
  end.
Proof. intros f l H. destruct l; [congruence | reflexivity]. Qed.

Lemma decode_encode : forall evs fuel,
  Forall wf_event evs -> (length (encode evs) <= fuel)%nat -> decode fuel (encode evs) = Some evs.
Proof.
  induction evs as [|e evs IH]; intros fuel Hwf Hf.
  - destruct fuel; reflexivity.
  - inversion Hwf as [|? ? He Hrest]; subst.
    rewrite length_encode_cons in Hf.
    destruct fuel as [|f]; [lia|].
    rewrite encode_cons.
    rewrite decode_unfold by apply encode_ev_nonnil.
    rewrite parse_header_encode by assumption.
    rewrite has_bytes_app. cbn [negb].
    rewrite zskip_encode, ztake_app.
    rewrite IH by (assumption || lia).
    destruct e; reflexivity.
Qed.

(* ---------- the dispatch loop on events ---------- *)
Fixpoint loop_ev (sc : scripts) (s : state) (evs : list event) : outcome * list delivery :=
  match evs with
  | [] => (Ok s, [])
  | e :: evs' =>
      match frame s with
      | Some (Some i) =>
          match itab s i with
          | None => (UseAfterFree, [])
          | Some ir =>
              match deliver_one sc s i ir (e_wd e) (e_mask e) (e_cookie e) (e_name e) with
              | (Ok s3, tr1) =>
                  match frame s3 with
                  | Some None => (Ok s3, tr1)
                  | _ => let '(o, tr2) := loop_ev sc s3 evs' in (o, tr1 ++ tr2)
                  end
              | bad => bad
              end
          end
      | _ => (Crash, [])
      end
  end.

Lemma loop_unfold : forall f sc s al rest, rest <> [] ->
  loop (S f) sc s al rest =
  if negb al then (Misaligned, []) else
  match frame s with
  | Some (Some i) =>
      match itab s i with
      | None => (UseAfterFree, [])
      | Some ir =>
          match parse_header rest with
          | None => (Truncated, [])
          | Some (wd, mask, cookie, len, after) =>
              if negb (has_bytes len after) then (Truncated, []) else
              match deliver_one sc s i ir wd mask cookie (ztake len after) with
              | (Ok s3, tr1) =>
                  let rest' := zskip (len + 16) rest in
                  match frame s3 with
                  | Some None => (Ok s3, tr1)
                  | _ => let '(o, tr2) := loop f sc s3 (len mod 4 =? 0) rest' in (o, tr1 ++ tr2)
                  end
              | bad => bad
              end
          end
      end
  | _ => (Crash, [])
  end.
Proof. intros f sc s al rest H. destruct rest; [congruence | reflexivity]. Qed.

Lemma loop_encode : forall sc evs fuel s,
  Forall wf_event evs -> (length (encode evs) <= fuel)%nat ->
  loop fuel sc s true (encode evs) = loop_ev sc s evs.
Proof.
  induction evs as [|e evs IH]; intros fuel s Hwf Hf.
  - destruct fuel; reflexivity.
  - inversion Hwf as [|? ? He Hrest]; subst.
    rewrite length_encode_cons in Hf.
    destruct fuel as [|f]; [lia|].
    rewrite encode_cons.
    rewrite loop_unfold by apply encode_ev_nonnil.
    cbn [negb loop_ev].
    destruct (frame s) as [[i|]|]; try reflexivity.
    destruct (itab s i) as [ir|]; try reflexivity.
    rewrite parse_header_encode by assumption.
    rewrite has_bytes_app. cbn [negb].
    rewrite ztake_app.
    destruct (deliver_one sc s i ir (e_wd e) (e_mask e) (e_cookie e) (e_name e)) as [o tr1].
    destruct o; try reflexivity.
    cbv zeta. rewrite zskip_encode.
    rewrite (wf_align e He). change (0 =? 0) with true.
    rewrite IH by (assumption || lia).
    reflexivity.
Qed.
