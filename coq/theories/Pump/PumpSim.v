(* PumpSim.v -- one iv_fd_pump_pump call of the model, followed effect by effect
   by the monitor: the specification state (queue of pending bytes, EOF seen,
   shutdown count, "full") stays related to the model's pump state, and every
   effect is allowed.  Helper file of PumpProofs.v. *)

From Coq Require Import List ZArith Bool Lia.
From Ivv Require Import Pump.PumpModel Pump.PumpMonitor Pump.PumpBasics.
Import ListNotations.
Local Open Scope Z_scope.

(* relation between the pump state in the middle of a call and the specification state *)
Record Mid (m : mode) (relay : bool) (p : pump) (a : mst) : Prop := {
  md_relay : a_relay a = relay;
  md_bytes : bytes p = zlen (a_pending a);
  md_buf : buf p = a_pending a;
  md_cap : zlen (a_pending a) <= cap m;
  md_stream : a_written a ++ a_pending a = a_consumed a;
  md_fin : (saw_fin p = 0 /\ a_eof a = false) \/
           (saw_fin p = 1 /\ a_eof a = true /\ a_pending a <> []) \/
           (saw_fin p = 2 /\ a_eof a = true /\ a_pending a = []);
  md_shut : a_shut a = if relay && (saw_fin p =? 2) then 1 else 0;
  md_full : full p = mfull m a;
  md_spfull : m = SP -> full p = true -> a_pending a <> [];
  md_have : bytes p <> 0 -> have_buf p = true;
}.

Definition heldb (p : pump) : Z := if have_buf p then 1 else 0.

Ltac pcbn := cbn [set_buf set_full set_fin set_have drop_buf buf bytes full saw_fin have_buf
                  r_oc r_cache r_p r_ret r_eff mkres c_a c_ok c_err c_bands
                  a_relay a_dead a_pending a_consumed a_written a_eof a_shut a_full
                  with_a with_err acc0 fst snd] in *.

Ltac rcbn := cbn [r_oc r_cache r_p r_ret r_eff mkres fst snd] in *.

Lemma Mid_set_have m relay p a : Mid m relay p a -> Mid m relay (set_have p true) a.
Proof. intros []. constructor; pcbn; auto. Qed.

Lemma set_have_same p : have_buf p = true -> set_have p true = p.
Proof. destruct p. pcbn. intros ->. reflexivity. Qed.

Lemma buf_get_spec cache alloc_ok :
  0 <= cache <= MAX_CACHED_BUFS ->
  match buf_get cache alloc_ok with
  | Some (c, es) => mem_only es /\ c + 1 = cache + n_alloc es /\ n_free es = 0 /\ 0 <= c <= MAX_CACHED_BUFS
  | None => True
  end.
Proof.
  unfold buf_get, MAX_CACHED_BUFS, mem_only. intros H.
  destruct (0 <? cache) eqn:E.
  - apply Z.ltb_lt in E. cbn. repeat split; try lia. constructor.
  - apply Z.ltb_ge in E. destruct alloc_ok; [|exact I]. cbn. repeat split; try lia.
    constructor; [left; reflexivity|constructor].
Qed.

Lemma buf_put_spec m cache n :
  0 <= cache <= MAX_CACHED_BUFS ->
  let '(c, es) := buf_put m cache n in
  mem_only es /\ c = cache + 1 - n_free es /\ n_alloc es = 0 /\ 0 <= c <= MAX_CACHED_BUFS.
Proof.
  unfold buf_put, MAX_CACHED_BUFS, mem_only. intros H.
  destruct (is_sp m && negb (n =? 0)).
  - cbn. repeat split; try lia. constructor; [right; reflexivity|constructor].
  - destruct (cache <? 20) eqn:E.
    + apply Z.ltb_lt in E. cbn. repeat split; try lia. constructor.
    + apply Z.ltb_ge in E. cbn. repeat split; try lia. constructor; [right; reflexivity|constructor].
Qed.

Lemma mem_only_counts_fold m es c : mem_only es -> fold_left (mon_eff m) es c = c.
Proof. apply fold_mem_only. Qed.

(* ---- iv_fd_pump_try_input ---- *)

Lemma min_req_in_req m relay p a : Mid m relay p a -> in_req m p = min_req m a.
Proof. intros []. unfold in_req, min_req. destruct m; [rewrite md_bytes0|]; reflexivity. Qed.

Lemma try_input_sim m relay cache p o c :
  Mid m relay p (c_a c) -> c_ok c = true -> c_err c = false ->
  full p = false -> saw_fin p = 0 -> 0 <= cache <= MAX_CACHED_BUFS ->
  (have_buf p = false -> bytes p = 0) ->
  let r := try_input m relay cache p o in
  let c' := fold_left (mon_eff m) (r_eff r) c in
  r_oc r = Ok /\ c_ok c' = true /\ Mid m relay (r_p r) (c_a c') /\
  ((r_ret r = 0 /\ c_err c' = false) \/ (r_ret r = -1 /\ c_err c' = true)) /\
  r_cache r + heldb (r_p r) = cache + heldb p + n_alloc (r_eff r) - n_free (r_eff r) /\
  0 <= r_cache r <= MAX_CACHED_BUFS.
Proof.
  intros HM Hok Herr Hfull Hfin Hcache Hnobuf.
  unfold try_input.
  (* acquisition of the buffer *)
  assert (ACQ :
    match (if have_buf p then Some (cache, p, [])
           else match buf_get cache (o_alloc o) with
                | None => None
                | Some (c0, es) => Some (c0, set_have p true, es)
                end) with
    | None => have_buf p = false
    | Some (c0, p0, es0) =>
        mem_only es0 /\ p0 = set_have p true /\
        c0 + 1 = cache + heldb p + n_alloc es0 /\ n_free es0 = 0 /\ 0 <= c0 <= MAX_CACHED_BUFS
    end).
  { unfold heldb. destruct (have_buf p) eqn:Hb.
    - split; [constructor|]. split; [symmetry; apply set_have_same, Hb|]. cbn [n_alloc n_free]. lia.
    - pose proof (buf_get_spec cache (o_alloc o) Hcache) as G.
      destruct (buf_get cache (o_alloc o)) as [[c0 es]|]; [|reflexivity].
      destruct G as (G1 & G2 & G3 & G4). repeat split; try assumption; lia. }
  destruct (if have_buf p then Some (cache, p, [])
            else match buf_get cache (o_alloc o) with
                 | None => None
                 | Some (c0, es) => Some (c0, set_have p true, es)
                 end) as [[[c0 p0] es0]|].
  2:{ (* malloc failed *)
    pcbn. cbn [fold_left mon_eff]. rewrite Herr. pcbn. cbn [negb]. rewrite Hok.
    cbn [n_alloc n_free].
    split; [reflexivity|]. split; [reflexivity|]. split; [exact HM|].
    split; [right; split; reflexivity|]. split; [lia|exact Hcache]. }
  destruct ACQ as (Hmem & Hp0 & Hc0 & Hfree0 & Hc0r).
  assert (HM0 : Mid m relay p0 (c_a c)) by (subst p0; apply Mid_set_have, HM).
  assert (Hhave0 : have_buf p0 = true) by (subst p0; reflexivity).
  assert (Hb0 : bytes p0 = bytes p) by (subst p0; reflexivity).
  assert (Hfull0 : full p0 = false) by (subst p0; exact Hfull).
  assert (Hfin0 : saw_fin p0 = 0) by (subst p0; exact Hfin).
  assert (Hheld0 : heldb p0 = 1) by (unfold heldb; rewrite Hhave0; reflexivity).
  (* no garbage *)
  assert (Hg : negb (have_buf p) && negb (bytes p =? 0) = false).
  { destruct (have_buf p) eqn:Hb; [reflexivity|]. rewrite (Hnobuf eq_refl). reflexivity. }
  rewrite Hg.
  (* no overflow *)
  assert (Ho : match m with RW => BUF_SIZE - bytes p0 <? 0 | SP => false end = false).
  { destruct m; [|reflexivity]. destruct HM0. unfold cap in *. apply Z.ltb_ge. lia. }
  rewrite Ho.
  pose proof (fold_in_loop m c (in_req m p0) (in_space m p0) (o_rd o)) as FL.
  pose proof (in_loop_mem m (in_req m p0) (in_space m p0) (o_rd o)) as [LA LF].
  pose proof (in_loop_got m (in_req m p0) (in_space m p0) (o_rd o)) as LG.
  pose proof (in_loop_not_intr m (in_req m p0) (in_space m p0) (o_rd o)) as LI.
  destruct (in_loop m (in_req m p0) (in_space m p0) (o_rd o)) as [r es1]. cbn [fst snd] in *.
  assert (Heof : a_eof (c_a c) = false).
  { destruct HM0. destruct md_fin0 as [[_ E]|[[E _]|[E _]]]; [exact E|lia|lia]. }
  assert (Hmf : mfull m (c_a c) = false) by (destruct HM0; congruence).
  assert (Hreq : in_req m p0 = min_req m (c_a c)) by (eapply min_req_in_req; exact HM0).
  specialize (FL Hok Herr Heof Hmf Hreq).
  assert (Hshut0 : a_shut (c_a c) = 0).
  { destruct HM0. rewrite md_shut0, Hfin0. cbn. rewrite andb_false_r. reflexivity. }
  assert (PRE : negb (c_err c) && negb (a_eof (c_a c)) && negb (mfull m (c_a c)) &&
                (in_req m p0 =? min_req m (c_a c)) = true).
  { rewrite Herr, Heof, Hmf, Hreq, Z.eqb_refl. reflexivity. }
  destruct r as [bs| | | |].
  - (* data *)
    destruct (LG bs eq_refl) as [Hne Hle].
    set (p1 := set_buf p0 (buf p0 ++ bs) (bytes p0 + zlen bs)).
    assert (Hsel : (if negb (is_sp m) && (bytes p1 =? BUF_SIZE) then set_full p1 true else p1) =
                   set_full p1 (negb (is_sp m) && (bytes p1 =? BUF_SIZE))).
    { destruct (negb (is_sp m) && (bytes p1 =? BUF_SIZE)); [reflexivity|].
      subst p1. destruct p0. pcbn. subst. reflexivity. }
    rewrite Hsel. subst p1.
    rcbn. rewrite fold_app, (fold_mem_only m es0) by exact Hmem. rewrite FL.
    cbn [mon_eff]. rewrite PRE. pcbn.
    assert (Hcapok : zlen (a_pending (c_a c)) + zlen bs <= cap m).
    { destruct HM0. destruct m; unfold in_space, cap, BUF_SIZE, PIPE_CAP, SPLICE_REQ in *.
      - rewrite md_bytes0 in Hle. lia.
      - rewrite md_buf0 in Hle. lia. }
    apply isnil_false in Hne. rewrite Hne. apply Z.leb_le in Hcapok. rewrite Hcapok. cbn [negb andb].
    rewrite Hok. apply Z.leb_le in Hcapok.
    rewrite n_alloc_app, n_free_app, LA, LF.
    split; [reflexivity|]. split; [reflexivity|]. split.
    + destruct HM0. constructor; pcbn.
      * assumption.
      * rewrite zlen_app. lia.
      * congruence.
      * rewrite zlen_app. lia.
      * rewrite <- md_stream0. rewrite app_assoc. reflexivity.
      * left. split; [exact Hfin0|exact Heof].
      * exact md_shut0.
      * unfold mfull in *. pcbn. destruct m; cbn [is_sp negb andb].
        -- rewrite zlen_app, md_bytes0. reflexivity.
        -- rewrite <- md_full0. exact Hfull0.
      * intros -> Hf. cbn in Hf. congruence.
      * intros _. exact Hhave0.
    + split; [left; split; reflexivity|]. unfold heldb in *. pcbn. rewrite Hhave0 in *. lia.
  - (* end of file *)
    pcbn. destruct (bytes p0 =? 0) eqn:Hz.
    + apply Z.eqb_eq in Hz.
      assert (Hnil : a_pending (c_a c) = []) by (destruct HM0; apply zlen_zero_nil; lia).
      pcbn. rewrite fold_app, (fold_mem_only m es0) by exact Hmem. rewrite fold_app, FL.
      cbn [mon_eff]. rewrite PRE. pcbn.
      assert (Hrel : a_relay (c_a c) = relay) by (destruct HM0; assumption).
      rewrite !n_alloc_app, !n_free_app, LA, LF.
      destruct relay; cbn [fold_left mon_eff]; pcbn.
      * rewrite Herr, Hrel, Hnil, Hshut0. cbn [negb andb isnil Z.eqb]. rewrite Hok. cbn [n_alloc n_free].
        split; [reflexivity|]. split; [reflexivity|]. split.
        -- destruct HM0. constructor; pcbn; try assumption.
           ++ right. right. repeat split; auto.
           ++ cbn. lia.
           ++ rewrite md_full0. unfold mfull. pcbn. reflexivity.
        -- split; [left; split; reflexivity|]. unfold heldb in *. pcbn. rewrite Hhave0 in *. lia.
      * rewrite Hok. cbn [n_alloc n_free].
        split; [reflexivity|]. split; [reflexivity|]. split.
        -- destruct HM0. constructor; pcbn; try assumption.
           ++ right. right. repeat split; auto.
           ++ rewrite md_full0. unfold mfull. pcbn. reflexivity.
        -- split; [left; split; reflexivity|]. unfold heldb in *. pcbn. rewrite Hhave0 in *. lia.
    + apply Z.eqb_neq in Hz.
      assert (Hnn : a_pending (c_a c) <> []).
      { destruct HM0. intros E. rewrite E in md_bytes0. cbn in md_bytes0. lia. }
      pcbn. rewrite fold_app, (fold_mem_only m es0) by exact Hmem. rewrite FL.
      cbn [mon_eff]. rewrite PRE. pcbn. rewrite Hok.
      rewrite n_alloc_app, n_free_app, LA, LF.
      split; [reflexivity|]. split; [reflexivity|]. split.
      * destruct HM0. constructor; pcbn; try assumption.
        -- right. left. repeat split; auto.
        -- rewrite md_shut0, Hfin0. cbn. rewrite !andb_false_r. reflexivity.
        -- rewrite md_full0. unfold mfull. pcbn. reflexivity.
      * split; [left; split; reflexivity|]. unfold heldb in *. pcbn. rewrite Hhave0 in *. lia.
  - (* would block *)
    destruct (is_sp m && negb (bytes p0 =? 0)) eqn:Hsp.
    + apply andb_true_iff in Hsp. destruct Hsp as [Hsp Hz]. apply negb_true_iff, Z.eqb_neq in Hz.
      assert (Hnn : a_pending (c_a c) <> []).
      { destruct HM0. intros E. rewrite E in md_bytes0. cbn in md_bytes0. lia. }
      set (v := match o_fion o with Some v => v | None => 1 end).
      pcbn. rewrite fold_app, (fold_mem_only m es0) by exact Hmem. rewrite fold_app, FL.
      cbn [fold_left mon_eff]. rewrite PRE. pcbn. rewrite with_a_id by (rewrite andb_true_r; exact Hok).
      cbn [mon_eff]. pcbn. rewrite Herr, Hsp, Heof. apply isnil_false in Hnn. rewrite Hnn. cbn [negb andb].
      rewrite Hok. apply isnil_false in Hnn.
      rewrite !n_alloc_app, !n_free_app, LA, LF. cbn [n_alloc n_free].
      assert (Hsel : (if 0 <? v then set_full p0 true else p0) = set_full p0 (0 <? v)).
      { destruct (0 <? v); [reflexivity|]. destruct p0. pcbn. subst. reflexivity. }
      rewrite Hsel.
      split; [reflexivity|]. split; [reflexivity|]. split.
      * destruct m; [discriminate|]. destruct HM0. constructor; pcbn; try assumption.
        -- unfold mfull in *. pcbn. rewrite <- md_full0, Hfull0. reflexivity.
        -- intros _ _. exact Hnn.
      * split; [left; split; reflexivity|]. unfold heldb in *. pcbn. rewrite Hhave0 in *. lia.
    + pcbn. rewrite fold_app, (fold_mem_only m es0) by exact Hmem. rewrite FL.
      cbn [mon_eff]. rewrite PRE. pcbn. rewrite with_a_id by (rewrite andb_true_r; exact Hok).
      rewrite n_alloc_app, n_free_app, LA, LF.
      split; [reflexivity|]. split; [exact Hok|]. split; [exact HM0|].
      split; [left; split; [reflexivity|exact Herr]|]. unfold heldb in *. rewrite Hhave0 in *. lia.
  - congruence.
  - (* I/O error *)
    pcbn. rewrite fold_app, (fold_mem_only m es0) by exact Hmem. rewrite FL.
    cbn [mon_eff]. rewrite PRE. pcbn. rewrite Hok.
    rewrite n_alloc_app, n_free_app, LA, LF.
    split; [reflexivity|]. split; [reflexivity|]. split; [exact HM0|].
    split; [right; split; reflexivity|]. unfold heldb in *. rewrite Hhave0 in *. lia.
Qed.
