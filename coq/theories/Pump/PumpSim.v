(* PumpSim.v -- one iv_fd_pump_pump call of the model, followed effect by effect
   by the monitor: the specification state (queue of pending bytes, EOF seen,
   shutdown count, "full") stays related to the model's pump state, and every
   effect is allowed.  Helper file of PumpProofs.v. *)

From Coq Require Import List ZArith Bool Lia.
From Ivv Require Import Pump.PumpModel Pump.PumpMonitor Pump.PumpBasics.
Import ListNotations.
Local Open Scope Z_scope.

(* relation between the pump state in the middle of a call and the specification state *)
Record Mid (m : mode) (relay : bool) (p : pump) (a : mst) : Prop := {
  md_relay : a_relay a = relay;
  md_bytes : bytes p = zlen (a_pending a);
  md_buf : buf p = a_pending a;
  md_cap : zlen (a_pending a) <= cap m;
  md_stream : a_written a ++ a_pending a = a_consumed a;
  md_fin : (saw_fin p = 0 /\ a_eof a = false) \/
           (saw_fin p = 1 /\ a_eof a = true /\ a_pending a <> []) \/
           (saw_fin p = 2 /\ a_eof a = true /\ a_pending a = []);
  md_shut : a_shut a = if relay && (saw_fin p =? 2) then 1 else 0;
  md_full : full p = mfull m a;
  md_spfull : m = SP -> full p = true -> a_pending a <> [];
  md_have : bytes p <> 0 -> have_buf p = true;
}.

Definition heldb (p : pump) : Z := if have_buf p then 1 else 0.

Ltac pcbn := cbn [set_buf set_full set_fin set_have drop_buf buf bytes full saw_fin have_buf
                  r_oc r_cache r_p r_ret r_eff mkres c_a c_ok c_err c_bands
                  a_relay a_dead a_pending a_consumed a_written a_eof a_shut a_full
                  with_a with_err acc0 fst snd] in *.

Ltac csplit := repeat match goal with |- _ /\ _ => split end.
Ltac rcbn := cbn [r_oc r_cache r_p r_ret r_eff mkres fst snd] in *.

Lemma Mid_set_have m relay p a : Mid m relay p a -> Mid m relay (set_have p true) a.
Proof. intros []. constructor; pcbn; auto. Qed.

Lemma set_have_same p : have_buf p = true -> set_have p true = p.
Proof. destruct p. pcbn. intros ->. reflexivity. Qed.

Lemma buf_get_spec cache alloc_ok :
  0 <= cache <= MAX_CACHED_BUFS ->
  match buf_get cache alloc_ok with
  | Some (c, es) => mem_only es /\ c + 1 = cache + n_alloc es /\ n_free es = 0 /\ 0 <= c <= MAX_CACHED_BUFS
  | None => True
  end.
Proof.
  unfold buf_get, MAX_CACHED_BUFS, mem_only. intros H.
  destruct (0 <? cache) eqn:E.
  - apply Z.ltb_lt in E. cbn. repeat split; try lia. constructor.
  - apply Z.ltb_ge in E. destruct alloc_ok; [|exact I]. cbn. repeat split; try lia.
    constructor; [left; reflexivity|constructor].
Qed.

Lemma buf_put_spec m cache n :
  0 <= cache <= MAX_CACHED_BUFS ->
  let '(c, es) := buf_put m cache n in
  mem_only es /\ c = cache + 1 - n_free es /\ n_alloc es = 0 /\ 0 <= c <= MAX_CACHED_BUFS.
Proof.
  unfold buf_put, MAX_CACHED_BUFS, mem_only. intros H.
  destruct (is_sp m && negb (n =? 0)).
  - cbn. repeat split; try lia. constructor; [right; reflexivity|constructor].
  - destruct (cache <? 20) eqn:E.
    + apply Z.ltb_lt in E. cbn. repeat split; try lia. constructor.
    + apply Z.ltb_ge in E. cbn. repeat split; try lia. constructor; [right; reflexivity|constructor].
Qed.

Lemma mem_only_counts_fold m es c : mem_only es -> fold_left (mon_eff m) es c = c.
Proof. apply fold_mem_only. Qed.

(* ---- iv_fd_pump_try_input ---- *)

Lemma mon_in_again m c req :
  c_ok c = true -> c_err c = false -> a_eof (c_a c) = false -> mfull m (c_a c) = false ->
  req = min_req m (c_a c) -> mon_eff m c (EIn req IAgain) = c.
Proof.
  intros Hok Herr Heof Hf Hr. cbn [mon_eff]. rewrite Herr, Heof, Hf, Hr, Z.eqb_refl. cbn [negb andb].
  apply with_a_id, Hok.
Qed.

Lemma min_req_in_req m relay p a : Mid m relay p a -> in_req m p = min_req m a.
Proof. intros []. unfold in_req, min_req. destruct m; [rewrite md_bytes0|]; reflexivity. Qed.

Lemma try_input_sim m relay cache p o c :
  Mid m relay p (c_a c) -> c_ok c = true -> c_err c = false ->
  full p = false -> saw_fin p = 0 -> 0 <= cache <= MAX_CACHED_BUFS ->
  (have_buf p = false -> bytes p = 0) ->
  let r := try_input m relay cache p o in
  let c' := fold_left (mon_eff m) (r_eff r) c in
  r_oc r = Ok /\ c_ok c' = true /\ Mid m relay (r_p r) (c_a c') /\
  ((r_ret r = 0 /\ c_err c' = false) \/ (r_ret r = -1 /\ c_err c' = true)) /\
  r_cache r + heldb (r_p r) = cache + heldb p + n_alloc (r_eff r) - n_free (r_eff r) /\
  0 <= r_cache r <= MAX_CACHED_BUFS.
Proof.
  intros HM Hok Herr Hfull Hfin Hcache Hnobuf.
  unfold try_input.
  (* acquisition of the buffer *)
  assert (ACQ :
    match (if have_buf p then Some (cache, p, [])
           else match buf_get cache (o_alloc o) with
                | None => None
                | Some (c0, es) => Some (c0, set_have p true, es)
                end) with
    | None => have_buf p = false
    | Some (c0, p0, es0) =>
        mem_only es0 /\ p0 = set_have p true /\
        c0 + 1 = cache + heldb p + n_alloc es0 /\ n_free es0 = 0 /\ 0 <= c0 <= MAX_CACHED_BUFS
    end).
  { unfold heldb. destruct (have_buf p) eqn:Hb.
    - split; [constructor|]. split; [symmetry; apply set_have_same, Hb|]. cbn [n_alloc n_free]. lia.
    - pose proof (buf_get_spec cache (o_alloc o) Hcache) as G.
      destruct (buf_get cache (o_alloc o)) as [[c0 es]|]; [|reflexivity].
      destruct G as (G1 & G2 & G3 & G4). repeat split; try assumption; lia. }
  destruct (if have_buf p then Some (cache, p, [])
            else match buf_get cache (o_alloc o) with
                 | None => None
                 | Some (c0, es) => Some (c0, set_have p true, es)
                 end) as [[[c0 p0] es0]|].
  2:{ (* malloc failed *)
    pcbn. cbn [fold_left mon_eff]. rewrite Herr. pcbn. cbn [negb]. rewrite Hok.
    cbn [n_alloc n_free].
    split; [reflexivity|]. split; [reflexivity|]. split; [exact HM|].
    split; [right; split; reflexivity|]. split; [lia|exact Hcache]. }
  destruct ACQ as (Hmem & Hp0 & Hc0 & Hfree0 & Hc0r).
  assert (HM0 : Mid m relay p0 (c_a c)) by (subst p0; apply Mid_set_have, HM).
  assert (Hhave0 : have_buf p0 = true) by (subst p0; reflexivity).
  assert (Hb0 : bytes p0 = bytes p) by (subst p0; reflexivity).
  assert (Hfull0 : full p0 = false) by (subst p0; exact Hfull).
  assert (Hfin0 : saw_fin p0 = 0) by (subst p0; exact Hfin).
  assert (Hheld0 : heldb p0 = 1) by (unfold heldb; rewrite Hhave0; reflexivity).
  (* no garbage *)
  assert (Hg : negb (have_buf p) && negb (bytes p =? 0) = false).
  { destruct (have_buf p) eqn:Hb; [reflexivity|]. rewrite (Hnobuf eq_refl). reflexivity. }
  rewrite Hg.
  (* no overflow *)
  assert (Ho : match m with RW => BUF_SIZE - bytes p0 <? 0 | SP => false end = false).
  { destruct m; [|reflexivity]. destruct HM0. unfold cap in *. apply Z.ltb_ge. lia. }
  rewrite Ho.
  pose proof (fold_in_loop m c (in_req m p0) (in_space m p0) (o_rd o)) as FL.
  pose proof (in_loop_mem m (in_req m p0) (in_space m p0) (o_rd o)) as [LA LF].
  pose proof (in_loop_got m (in_req m p0) (in_space m p0) (o_rd o)) as LG.
  pose proof (in_loop_not_intr m (in_req m p0) (in_space m p0) (o_rd o)) as LI.
  destruct (in_loop m (in_req m p0) (in_space m p0) (o_rd o)) as [r es1]. cbn [fst snd] in *.
  assert (Heof : a_eof (c_a c) = false).
  { destruct HM0. destruct md_fin0 as [[_ E]|[[E _]|[E _]]]; [exact E|lia|lia]. }
  assert (Hmf : mfull m (c_a c) = false) by (destruct HM0; congruence).
  assert (Hreq : in_req m p0 = min_req m (c_a c)) by (eapply min_req_in_req; exact HM0).
  specialize (FL Hok Herr Heof Hmf Hreq).
  assert (Hshut0 : a_shut (c_a c) = 0).
  { destruct HM0. rewrite md_shut0, Hfin0. cbn. rewrite andb_false_r. reflexivity. }
  assert (PRE : negb (c_err c) && negb (a_eof (c_a c)) && negb (mfull m (c_a c)) &&
                (in_req m p0 =? min_req m (c_a c)) = true).
  { rewrite Herr, Heof, Hmf, Hreq, Z.eqb_refl. reflexivity. }
  destruct r as [bs| | | |].
  - (* data *)
    destruct (LG bs eq_refl) as [Hne Hle].
    set (p1 := set_buf p0 (buf p0 ++ bs) (bytes p0 + zlen bs)).
    assert (Hsel : (if negb (is_sp m) && (bytes p1 =? BUF_SIZE) then set_full p1 true else p1) =
                   set_full p1 (negb (is_sp m) && (bytes p1 =? BUF_SIZE))).
    { destruct (negb (is_sp m) && (bytes p1 =? BUF_SIZE)); [reflexivity|].
      subst p1. destruct p0. pcbn. subst. reflexivity. }
    rewrite Hsel. subst p1.
    rcbn. rewrite fold_app, (fold_mem_only m es0) by exact Hmem. rewrite FL.
    cbn [mon_eff]. rewrite PRE. pcbn.
    assert (Hcapok : zlen (a_pending (c_a c)) + zlen bs <= cap m).
    { destruct HM0. destruct m; unfold in_space, cap, BUF_SIZE, PIPE_CAP, SPLICE_REQ in *.
      - rewrite md_bytes0 in Hle. lia.
      - rewrite md_buf0 in Hle. lia. }
    apply isnil_false in Hne. rewrite Hne. apply Z.leb_le in Hcapok. rewrite Hcapok. cbn [negb andb].
    rewrite Hok. apply Z.leb_le in Hcapok.
    rewrite n_alloc_app, n_free_app, LA, LF.
    split; [reflexivity|]. split; [reflexivity|]. split.
    + destruct HM0. constructor; pcbn.
      * assumption.
      * rewrite zlen_app. lia.
      * congruence.
      * rewrite zlen_app. lia.
      * rewrite <- md_stream0. rewrite app_assoc. reflexivity.
      * left. split; [exact Hfin0|exact Heof].
      * exact md_shut0.
      * unfold mfull in *. pcbn. destruct m; cbn [is_sp negb andb].
        -- rewrite zlen_app, md_bytes0. reflexivity.
        -- rewrite <- md_full0. symmetry. exact Hfull0.
      * intros -> Hf. cbn in Hf. congruence.
      * intros _. exact Hhave0.
    + split; [left; split; [reflexivity|first [exact Herr|reflexivity]]|]. unfold heldb in *. pcbn. rewrite Hhave0 in *. lia.
  - (* end of file *)
    pcbn. destruct (bytes p0 =? 0) eqn:Hz.
    + apply Z.eqb_eq in Hz.
      assert (Hnil : a_pending (c_a c) = []) by (destruct HM0; apply zlen_zero_nil; lia).
      pcbn. rewrite fold_app, (fold_mem_only m es0) by exact Hmem. rewrite fold_app, FL.
      cbn [mon_eff]. rewrite PRE. pcbn.
      assert (Hrel : a_relay (c_a c) = relay) by (destruct HM0; assumption).
      rewrite !n_alloc_app, !n_free_app, LA, LF.
      destruct relay; cbn [fold_left mon_eff]; pcbn.
      * rewrite Herr, Hrel, Hnil, Hshut0. cbn [negb andb isnil Z.eqb]. rewrite Hok. cbn [n_alloc n_free].
        split; [reflexivity|]. split; [reflexivity|]. split.
        -- destruct HM0. rewrite ?Hnil in *. constructor; pcbn; try assumption; try reflexivity.
           ++ right. right. repeat split; auto.
           ++ rewrite md_full0. unfold mfull. pcbn. rewrite ?Hnil. reflexivity.
        -- split; [left; split; [reflexivity|first [exact Herr|reflexivity]]|]. unfold heldb in *. pcbn. rewrite Hhave0 in *. lia.
      * rewrite Hok. cbn [n_alloc n_free].
        split; [reflexivity|]. split; [reflexivity|]. split.
        -- destruct HM0. rewrite ?Hnil in *. constructor; pcbn; try assumption; try reflexivity.
           ++ right. right. repeat split; auto.
           ++ rewrite md_full0. unfold mfull. pcbn. rewrite ?Hnil. reflexivity.
        -- split; [left; split; [reflexivity|first [exact Herr|reflexivity]]|]. unfold heldb in *. pcbn. rewrite Hhave0 in *. lia.
    + apply Z.eqb_neq in Hz.
      assert (Hnn : a_pending (c_a c) <> []).
      { destruct HM0. intros E. rewrite E in md_bytes0. cbn in md_bytes0. lia. }
      pcbn. rewrite fold_app, (fold_mem_only m es0) by exact Hmem. rewrite FL.
      cbn [mon_eff]. rewrite PRE. pcbn. rewrite Hok.
      rewrite n_alloc_app, n_free_app, LA, LF.
      split; [reflexivity|]. split; [reflexivity|]. split.
      * destruct HM0. constructor; pcbn; try assumption.
        -- right. left. repeat split; auto.
        -- rewrite md_shut0, Hfin0. cbn. rewrite !andb_false_r. reflexivity.
      * split; [left; split; [reflexivity|first [exact Herr|reflexivity]]|]. unfold heldb in *. pcbn. rewrite Hhave0 in *. lia.
  - (* would block *)
    destruct (is_sp m && negb (bytes p0 =? 0)) eqn:Hsp.
    + apply andb_true_iff in Hsp. destruct Hsp as [Hsp Hz]. apply negb_true_iff, Z.eqb_neq in Hz.
      assert (Hnn : a_pending (c_a c) <> []).
      { destruct HM0. intros E. rewrite E in md_bytes0. cbn in md_bytes0. lia. }
      set (v := match o_fion o with Some v => v | None => 1 end).
      pcbn. rewrite fold_app, (fold_mem_only m es0) by exact Hmem. rewrite fold_app, FL.
      rewrite (mon_in_again m c _ Hok Herr Heof Hmf Hreq).
      cbn [fold_left mon_eff]. pcbn. rewrite Herr, Hsp, Heof. apply isnil_false in Hnn. rewrite Hnn. cbn [negb andb].
      rewrite Hok. apply isnil_false in Hnn.
      rewrite !n_alloc_app, !n_free_app, LA, LF. cbn [n_alloc n_free].
      assert (Hsel : (if 0 <? v then set_full p0 true else p0) = set_full p0 (0 <? v)).
      { destruct (0 <? v); [reflexivity|]. destruct p0. pcbn. subst. reflexivity. }
      rewrite Hsel.
      split; [reflexivity|]. split; [reflexivity|]. split.
      * destruct m; [discriminate|]. destruct HM0. constructor; pcbn; try assumption.
        -- left. split; [exact Hfin0|reflexivity].
        -- unfold mfull in *. pcbn. rewrite <- md_full0, Hfull0. reflexivity.
        -- intros _ _. exact Hnn.
      * split; [left; split; [reflexivity|first [exact Herr|reflexivity]]|]. unfold heldb in *. pcbn. rewrite Hhave0 in *. lia.
    + pcbn. rewrite fold_app, (fold_mem_only m es0) by exact Hmem. rewrite FL.
      rewrite (mon_in_again m c _ Hok Herr Heof Hmf Hreq).
      rewrite n_alloc_app, n_free_app, LA, LF.
      split; [reflexivity|]. split; [exact Hok|]. split; [exact HM0|].
      split; [left; split; [reflexivity|first [exact Herr|reflexivity]]|]. unfold heldb in *. rewrite Hhave0 in *. lia.
  - congruence.
  - (* I/O error *)
    pcbn. rewrite fold_app, (fold_mem_only m es0) by exact Hmem. rewrite FL.
    cbn [mon_eff]. rewrite PRE. pcbn. rewrite Hok.
    rewrite n_alloc_app, n_free_app, LA, LF.
    split; [reflexivity|]. split; [reflexivity|]. split; [exact HM0|].
    split; [right; split; reflexivity|]. unfold heldb in *. rewrite Hhave0 in *. lia.
Qed.

(* ---- iv_fd_pump_try_output ---- *)

Lemma mon_out_again m c req :
  c_ok c = true -> c_err c = false -> a_pending (c_a c) <> [] -> req = zlen (a_pending (c_a c)) ->
  mon_eff m c (EOut req OAgain) = c.
Proof.
  intros Hok Herr Hnn Hr. cbn [mon_eff]. apply isnil_false in Hnn. rewrite Herr, Hnn, Hr, Z.eqb_refl.
  cbn [negb andb]. apply with_a_id, Hok.
Qed.

Lemma try_output_sim m relay cache p o c :
  Mid m relay p (c_a c) -> c_ok c = true -> c_err c = false -> bytes p <> 0 ->
  let r := try_output m relay cache p o in
  let c' := fold_left (mon_eff m) (r_eff r) c in
  r_oc r = Ok /\ c_ok c' = true /\ Mid m relay (r_p r) (c_a c') /\
  ((r_ret r = 0 /\ c_err c' = false) \/ (r_ret r = -1 /\ c_err c' = true)) /\
  r_cache r = cache /\ have_buf (r_p r) = have_buf p /\
  n_alloc (r_eff r) = 0 /\ n_free (r_eff r) = 0.
Proof.
  intros HM Hok Herr Hnz.
  assert (Hhave : have_buf p = true) by (destruct HM; auto).
  assert (Hbytes : bytes p = zlen (a_pending (c_a c))) by (destruct HM; auto).
  assert (Hbuf : buf p = a_pending (c_a c)) by (destruct HM; auto).
  assert (Hnn : a_pending (c_a c) <> []).
  { intros E. rewrite E in Hbytes. cbn in Hbytes. lia. }
  assert (Hpos : 0 < bytes p) by (rewrite Hbytes; apply zlen_pos_cons, Hnn).
  unfold try_output. rewrite Hhave. cbn [negb].
  assert (Hh : is_sp m && (zlen (buf p) =? 0) = false).
  { rewrite Hbuf, <- Hbytes. apply andb_false_iff. right. apply Z.eqb_neq, Hnz. }
  rewrite Hh.
  pose proof (fold_out_loop m c p (o_wr o) Hok Herr Hnn Hbytes) as FL.
  pose proof (out_loop_mem m p (o_wr o)) as [LA LF].
  pose proof (out_loop_got m p (o_wr o)) as LG.
  pose proof (out_loop_not_intr m p (o_wr o)) as LI.
  destruct (out_loop m p (o_wr o)) as [r es]. cbn [fst snd] in *.
  assert (PRE : negb (c_err c) && negb (isnil (a_pending (c_a c))) &&
                (bytes p =? zlen (a_pending (c_a c))) = true).
  { apply isnil_false in Hnn. rewrite Herr, Hnn, Hbytes, Z.eqb_refl. reflexivity. }
  destruct r as [bs| | | |].
  - (* some bytes accepted *)
    assert (Hb2 : bytes p = zlen (buf p)) by congruence.
    destruct (LG bs Hb2 Hpos eq_refl) as (k & Hk & Hbs).
    assert (Hlen : length bs = k) by (subst bs; rewrite firstn_length; lia).
    assert (Hbne : bs <> []) by (subst bs; apply firstn_nonnil; [lia|congruence]).
    assert (Hstrip : strip bs (a_pending (c_a c)) = Some (skipn k (a_pending (c_a c)))).
    { subst bs. rewrite Hbuf. apply strip_firstn. }
    assert (Hzbs : zlen bs = Z.of_nat k) by (unfold zlen; rewrite Hlen; reflexivity).
    assert (Hrest : zlen (skipn k (a_pending (c_a c))) = bytes p - zlen bs).
    { rewrite skipn_zlen, Hzbs, Hbytes. rewrite Hbuf in Hk. unfold zlen. lia. }
    assert (Hsplit : bs ++ skipn k (a_pending (c_a c)) = a_pending (c_a c)).
    { subst bs. rewrite Hbuf. apply firstn_skipn. }
    set (p1 := set_buf (set_full p false) (skipn (length bs) (buf p)) (bytes p - zlen bs)).
    assert (Hsf1 : saw_fin p1 = saw_fin p) by reflexivity.
    assert (Hb1 : bytes p1 = bytes p - zlen bs) by reflexivity.
    assert (STEP : mon_eff m c (EOut (bytes p) (OGot bs)) =
                   {| c_a := {| a_relay := a_relay (c_a c); a_dead := a_dead (c_a c);
                                a_pending := skipn k (a_pending (c_a c));
                                a_consumed := a_consumed (c_a c); a_written := a_written (c_a c) ++ bs;
                                a_eof := a_eof (c_a c); a_shut := a_shut (c_a c); a_full := false |};
                      c_ok := true; c_err := false; c_bands := c_bands c |}).
    { cbn [mon_eff]. rewrite Hstrip, PRE. apply isnil_false in Hbne. rewrite Hbne. unfold with_a.
      rewrite Hok, Herr. reflexivity. }
    assert (Hmfull1 : forall a', a_pending a' = skipn k (a_pending (c_a c)) -> a_full a' = false ->
                                 mfull m a' = false).
    { intros a' E1 E2. unfold mfull. rewrite E1, E2. destruct m; [|reflexivity].
      apply Z.eqb_neq. rewrite Hrest. destruct HM. unfold cap, BUF_SIZE in *.
      pose proof (zlen_pos_cons _ Hbne). lia. }
    assert (Hstream1 : (a_written (c_a c) ++ bs) ++ skipn k (a_pending (c_a c)) = a_consumed (c_a c)).
    { rewrite <- app_assoc, Hsplit. destruct HM; assumption. }
    assert (Hcap1 : zlen (skipn k (a_pending (c_a c))) <= cap m).
    { rewrite Hrest. destruct HM. pose proof (zlen_nonneg bs). lia. }
    assert (Hbuf1 : buf p1 = skipn k (a_pending (c_a c))).
    { subst p1. pcbn. rewrite Hlen, Hbuf. reflexivity. }
    assert (Hrel : a_relay (c_a c) = relay) by (destruct HM; assumption).
    assert (Hfull1 : full p1 = false) by reflexivity.
    assert (Hhave1 : have_buf p1 = true) by exact Hhave.
    destruct ((bytes p1 =? 0) && (saw_fin p1 =? 1)) eqn:Hdr.
    + (* drained after EOF: relay it *)
      apply andb_true_iff in Hdr. destruct Hdr as [Hz Hs1]. apply Z.eqb_eq in Hz, Hs1.
      assert (Hnil : skipn k (a_pending (c_a c)) = []) by (apply zlen_zero_nil; lia).
      assert (Heof : a_eof (c_a c) = true).
      { destruct HM. destruct md_fin0 as [[F _]|[(F1 & F2 & F3)|(F1 & F2 & F3)]]; [lia|exact F2|lia]. }
      assert (Hshut0 : a_shut (c_a c) = 0).
      { destruct HM. rewrite md_shut0. rewrite <- Hsf1, Hs1. cbn. rewrite andb_false_r. reflexivity. }
      rcbn. rewrite fold_app, FL, STEP, n_alloc_app, n_free_app, LA, LF.
      rewrite Hnil in *.
      destruct relay; cbn [fold_left mon_eff]; pcbn.
      * rewrite Hrel, Heof, Hshut0. cbn [negb andb isnil Z.eqb n_alloc n_free].
        split; [reflexivity|]. split; [reflexivity|]. split.
        -- constructor; pcbn;
             first [reflexivity | assumption | (right; right; repeat split; auto; fail)
                   | (rewrite Hmfull1 by reflexivity; reflexivity) | (intros _ Hf; discriminate)
                   | (intros _; exact Hhave) | (cbn; lia) | idtac].
        -- split; [left; split; reflexivity|]. repeat split; first [reflexivity|exact Hhave1].
      * cbn [n_alloc n_free].
        split; [reflexivity|]. split; [reflexivity|]. split.
        -- constructor; pcbn;
             first [reflexivity | assumption | (right; right; repeat split; auto; fail)
                   | (rewrite Hmfull1 by reflexivity; reflexivity) | (intros _ Hf; discriminate)
                   | (intros _; exact Hhave) | (cbn; lia) | idtac].
        -- split; [left; split; reflexivity|]. repeat split; first [reflexivity|exact Hhave1].
    + (* more to write, or no EOF yet *)
      rcbn. rewrite FL, STEP. pcbn.
      split; [reflexivity|]. split; [reflexivity|]. split.
      * constructor; pcbn; try assumption.
        -- lia.
        -- destruct HM. destruct md_fin0 as [F|[(F1 & F2 & F3)|(F1 & F2 & F3)]].
           ++ left. exact F.
           ++ right. left. repeat split; auto. intros E.
              rewrite E in Hrest. cbn in Hrest. rewrite Hsf1, F1 in Hdr.
              assert (bytes p1 =? 0 = true) by (apply Z.eqb_eq; lia).
              rewrite H in Hdr. discriminate.
           ++ congruence.
        -- destruct HM. exact md_shut0.
        -- rewrite Hmfull1 by reflexivity. reflexivity.
        -- intros _ Hf. discriminate.
        -- intros _. exact Hhave1.
      * split; [left; split; reflexivity|]. repeat split; auto.
  - (* would block *)
    rcbn. rewrite FL, (mon_out_again m c _ Hok Herr Hnn Hbytes).
    split; [reflexivity|]. split; [exact Hok|]. split; [exact HM|].
    split; [left; split; [reflexivity|exact Herr]|]. repeat split; auto.
  - congruence.
  - (* error *)
    rcbn. rewrite FL. cbn [mon_eff]. rewrite PRE. pcbn. rewrite Hok.
    split; [reflexivity|]. split; [reflexivity|]. split; [exact HM|].
    split; [right; split; reflexivity|]. repeat split; auto.
  - (* write returned 0 *)
    rcbn. rewrite FL. cbn [mon_eff]. rewrite PRE. pcbn. rewrite Hok.
    split; [reflexivity|]. split; [reflexivity|]. split; [exact HM|].
    split; [right; split; reflexivity|]. repeat split; auto.
Qed.

(* ---- __iv_fd_pump_pump ---- *)

Definition call_ok (m : mode) (c : acc) (rc : Z) : Prop :=
  (rc = -1 /\ c_err c = true) \/
  (c_err c = false /\ rc = (if mfin (c_a c) then 0 else 1) /\
   bands_eqb (c_bands c) (want_bands m (c_a c)) = true /\
   (a_eof (c_a c) || fst (want_bands m (c_a c)) || snd (want_bands m (c_a c))) = true /\
   implb (a_relay (c_a c) && mfin (c_a c)) (a_shut (c_a c) =? 1) = true).

Lemma full_pending_nonnil m relay p a : Mid m relay p a -> mfull m a = true -> a_pending a <> [].
Proof.
  intros [] Hf. destruct m.
  - unfold mfull, BUF_SIZE in Hf. apply Z.eqb_eq in Hf. intros E. rewrite E in Hf. cbn in Hf. lia.
  - apply md_spfull0; [reflexivity|]. rewrite md_full0. exact Hf.
Qed.

Lemma final_bands m relay p a c :
  Mid m relay p a -> c_a c = a -> c_ok c = true -> c_err c = false ->
  let bands := if saw_fin p =? 0 then EBands (negb (full p)) (negb (bytes p =? 0))
               else if saw_fin p =? 1 then EBands false true else EBands false false in
  let rc := if saw_fin p =? 0 then 1 else if saw_fin p =? 1 then 1 else 0 in
  let c' := mon_eff m c bands in
  c_ok c' = true /\ c_a c' = a /\ call_ok m c' rc.
Proof.
  intros HM Ha Hok Herr bands rc c'.
  assert (E : c' = {| c_a := a; c_ok := true; c_err := false;
                      c_bands := match bands with EBands x y => Some (x, y) | _ => None end |}).
  { subst c' bands. destruct (saw_fin p =? 0); [|destruct (saw_fin p =? 1)];
      cbn [mon_eff]; rewrite Hok, Herr, Ha; reflexivity. }
  rewrite E. pcbn. split; [reflexivity|]. split; [reflexivity|].
  right. pcbn. split; [reflexivity|].
  pose proof (full_pending_nonnil m relay p a HM) as FP.
  destruct HM. unfold mfin, want_bands. subst bands rc.
  destruct md_fin0 as [(F1 & F2)|[(F1 & F2 & F3)|(F1 & F2 & F3)]]; rewrite F1, F2; cbn [Z.eqb negb andb].
  - split; [reflexivity|]. cbn [orb fst snd bands_eqb].
    rewrite md_full0, md_bytes0, <- isnil_zlen, !eqb_reflx. split; [reflexivity|].
    split.
    + destruct (mfull m a) eqn:Hf; [|reflexivity]. cbn [negb orb].
      apply isnil_false in FP; [|reflexivity]. rewrite FP. reflexivity.
    + rewrite andb_false_r. reflexivity.
  - apply isnil_false in F3. rewrite F3. cbn. rewrite andb_false_r. repeat split; reflexivity.
  - rewrite F3. cbn [isnil]. cbn [bands_eqb fst snd eqb andb orb].
    repeat split; try reflexivity.
    rewrite md_shut0, md_relay0, F1. cbn. destruct relay; reflexivity.
Qed.

Lemma pump_inner_sim m relay cache p o a :
  Mid m relay p a -> have_buf p = negb (isnil (a_pending a)) -> 0 <= cache <= MAX_CACHED_BUFS ->
  let r := pump_inner m relay cache p o in
  let c' := fold_left (mon_eff m) (r_eff r) (acc0 a) in
  r_oc r = Ok /\ c_ok c' = true /\ Mid m relay (r_p r) (c_a c') /\ call_ok m c' (r_ret r) /\
  r_cache r + heldb (r_p r) = cache + heldb p + n_alloc (r_eff r) - n_free (r_eff r) /\
  0 <= r_cache r <= MAX_CACHED_BUFS.
Proof.
  intros HM Hhave Hcache. unfold pump_inner.
  (* stage 1: input *)
  set (r1 := if negb (full p) && (saw_fin p =? 0) then try_input m relay cache p o
             else mkres Ok cache p 0 []).
  assert (S1 : let c1 := fold_left (mon_eff m) (r_eff r1) (acc0 a) in
               r_oc r1 = Ok /\ c_ok c1 = true /\ Mid m relay (r_p r1) (c_a c1) /\
               ((r_ret r1 = 0 /\ c_err c1 = false) \/ (r_ret r1 = -1 /\ c_err c1 = true)) /\
               r_cache r1 + heldb (r_p r1) = cache + heldb p + n_alloc (r_eff r1) - n_free (r_eff r1) /\
               0 <= r_cache r1 <= MAX_CACHED_BUFS /\
               (bytes (r_p r1) <> 0 -> have_buf (r_p r1) = true)).
  { subst r1. destruct (negb (full p) && (saw_fin p =? 0)) eqn:E.
    - apply andb_true_iff in E. destruct E as [E1 E2]. apply negb_true_iff in E1. apply Z.eqb_eq in E2.
      assert (Hnb : have_buf p = false -> bytes p = 0).
      { intros Hb. rewrite Hb in Hhave. destruct HM. rewrite md_bytes0.
        destruct (a_pending a); [reflexivity|discriminate]. }
      pose proof (try_input_sim m relay cache p o (acc0 a) HM eq_refl eq_refl E1 E2 Hcache Hnb) as T.
      cbv zeta in T. destruct T as (T1 & T2 & T3 & T4 & T5 & T6).
      cbv zeta. csplit; try assumption; try lia. destruct T3; assumption.
    - cbv zeta. rcbn. cbn [fold_left n_alloc n_free]. pcbn. csplit; auto; try lia. destruct HM; assumption. }
  clearbody r1. cbv zeta in S1. destruct S1 as (A1 & A2 & A3 & A4 & A5 & A6 & A7).
  rewrite A1.
  destruct A4 as [[R1 E1]|[R1 E1]].
  2:{ (* input failed *)
    rewrite R1. cbn [Z.eqb negb]. rcbn.
    csplit; try assumption; try lia; try reflexivity. left. split; [reflexivity|exact E1]. }
  rewrite R1. cbn [Z.eqb negb].
  (* stage 2: output *)
  set (c1 := fold_left (mon_eff m) (r_eff r1) (acc0 a)) in *.
  set (r2 := if negb (bytes (r_p r1) =? 0) then try_output m relay (r_cache r1) (r_p r1) o
             else mkres Ok (r_cache r1) (r_p r1) 0 []).
  assert (S2 : let c2 := fold_left (mon_eff m) (r_eff r2) c1 in
               r_oc r2 = Ok /\ c_ok c2 = true /\ Mid m relay (r_p r2) (c_a c2) /\
               ((r_ret r2 = 0 /\ c_err c2 = false) \/ (r_ret r2 = -1 /\ c_err c2 = true)) /\
               r_cache r2 = r_cache r1 /\ have_buf (r_p r2) = have_buf (r_p r1) /\
               n_alloc (r_eff r2) = 0 /\ n_free (r_eff r2) = 0).
  { subst r2. destruct (negb (bytes (r_p r1) =? 0)) eqn:E.
    - apply negb_true_iff, Z.eqb_neq in E.
      exact (try_output_sim m relay (r_cache r1) (r_p r1) o c1 A3 A2 E1 E).
    - cbv zeta. rcbn. cbn [fold_left n_alloc n_free]. csplit; auto. }
  clearbody r2. cbv zeta in S2. destruct S2 as (B1 & B2 & B3 & B4 & B5 & B6 & B7 & B8).
  rewrite B1.
  assert (FA : fold_left (mon_eff m) (r_eff r1 ++ r_eff r2) (acc0 a) = fold_left (mon_eff m) (r_eff r2) c1).
  { rewrite fold_app. reflexivity. }
  assert (ACC : r_cache r2 + heldb (r_p r2) =
                cache + heldb p + n_alloc (r_eff r1 ++ r_eff r2) - n_free (r_eff r1 ++ r_eff r2)).
  { rewrite n_alloc_app, n_free_app, B7, B8, B5. unfold heldb in *. rewrite B6. lia. }
  destruct B4 as [[R2 E2]|[R2 E2]].
  2:{ (* output failed *)
    rewrite R2. cbn [Z.eqb negb]. rcbn. rewrite FA.
    csplit; try assumption; try lia; try reflexivity. left. split; [reflexivity|exact E2]. }
  rewrite R2. cbn [Z.eqb negb].
  set (c2 := fold_left (mon_eff m) (r_eff r2) c1) in *.
  pose proof (final_bands m relay (r_p r2) (c_a c2) c2 B3 eq_refl B2 E2) as FB.
  cbv zeta in FB.
  assert (F012 : saw_fin (r_p r2) = 0 \/ saw_fin (r_p r2) = 1 \/ saw_fin (r_p r2) = 2).
  { destruct B3. destruct md_fin0 as [[F _]|[[F _]|[F _]]]; auto. }
  destruct F012 as [F|[F|F]]; rewrite F in *; cbn [Z.eqb Pos.eqb] in *; rcbn;
    rewrite fold_app, FA; cbn [fold_left];
    destruct FB as (G1 & G2 & G3); rewrite G2;
    rewrite !n_alloc_app, !n_free_app in *; cbn [n_alloc n_free];
    csplit; try assumption; try lia; try reflexivity.
Qed.
