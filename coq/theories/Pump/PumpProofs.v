(* PumpProofs.v -- proofs of property C17 about Pump/PumpModel.v.
   The model is related, call by call and effect by effect, to the byte-relay
   specification kept by the monitor (PumpMonitor.v): PumpSim.v does one
   pump call; this file adds the call boundary (buffer release), init /
   destroy, the world with several pumps sharing the buffer cache, whole
   histories, and derives the property theorems. *)

From Coq Require Import List ZArith Bool Lia.
From Ivv Require Import Pump.PumpModel Pump.PumpMonitor Pump.PumpBasics Pump.PumpSim.
Import ListNotations.
Local Open Scope Z_scope.

Ltac dmid H :=
  destruct H as [md_relay0 md_bytes0 md_buf0 md_cap0 md_stream0 md_fin0 md_shut0 md_full0 md_spfull0 md_have0].

(* ---- relation at call boundaries ---- *)

(* the pump state with the buffer content the specification expects (the real
   content is gone once a call has failed and the buffer was released) *)
Definition restore (p : pump) (a : mst) : pump :=
  {| buf := a_pending a; bytes := bytes p; full := full p; saw_fin := saw_fin p;
     have_buf := negb (isnil (a_pending a)) |}.

Record Rel (m : mode) (s : slot) (a : mst) : Prop := {
  rl_dead : a_dead a = s_dead s;
  rl_core : Mid m (s_relay s) (restore (s_p s) a) a;
  rl_buf : buf (s_p s) = if s_dead s then [] else a_pending a;
  rl_have : have_buf (s_p s) = negb (s_dead s) && negb (isnil (a_pending a));
}.

Lemma restore_live m s a : Rel m s a -> s_dead s = false -> restore (s_p s) a = s_p s.
Proof.
  intros [] Hl. rewrite Hl in *. cbn [negb andb] in *. unfold restore.
  destruct (s_p s). cbn in *. subst. reflexivity.
Qed.

Lemma Mid_restore m relay p a : Mid m relay p a -> Mid m relay (restore p a) a.
Proof.
  intros HM. dmid HM. constructor; cbn [restore buf bytes full saw_fin have_buf]; auto.
  intros Hb. apply negb_true_iff, isnil_false. intros E. rewrite E in md_bytes0. cbn in md_bytes0. lia.
Qed.

Lemma Mid_set_dead m relay p a d : Mid m relay p a -> Mid m relay p (set_dead a d).
Proof. intros HM. dmid HM. constructor; cbn [set_dead a_relay a_pending a_consumed a_written a_eof a_shut a_full]; auto. Qed.

Lemma restore_set_dead p a d : restore p (set_dead a d) = restore p a.
Proof. reflexivity. Qed.

Lemma heldb_01 p : heldb p = 0 \/ heldb p = 1.
Proof. unfold heldb. destruct (have_buf p); auto. Qed.

(* ---- iv_fd_pump_pump ---- *)

Lemma call_ok_mon m c rc :
  c_ok c = true -> call_ok m c rc ->
  c_ok c &&
  (if c_err c then rc =? -1
   else (rc =? (if mfin (c_a c) then 0 else 1))
        && bands_eqb (c_bands c) (want_bands m (c_a c))
        && (a_eof (c_a c) || fst (want_bands m (c_a c)) || snd (want_bands m (c_a c)))
        && implb (a_relay (c_a c) && mfin (c_a c)) (a_shut (c_a c) =? 1)) = true
  /\ c_err c = (rc <? 0).
Proof.
  intros Hok [[H1 H2]|(H1 & H2 & H3 & H4 & H5)].
  - rewrite Hok, H2, H1. split; reflexivity.
  - rewrite Hok, H1, H2, H3, H4, H5, Z.eqb_refl. split; [reflexivity|].
    destruct (mfin (c_a c)); reflexivity.
Qed.

Lemma pump_call_sim m s a cache o :
  Rel m s a -> s_dead s = false -> 0 <= cache <= MAX_CACHED_BUFS ->
  let r := pump_call m (s_relay s) cache (s_p s) o in
  r_oc r = Ok /\
  exists a', mon_pump m a (r_ret r) (r_eff r) = (a', true) /\
    Rel m {| s_p := r_p r; s_relay := s_relay s; s_dead := r_ret r <? 0 |} a' /\
    r_cache r + heldb (r_p r) = cache + heldb (s_p s) + n_alloc (r_eff r) - n_free (r_eff r) /\
    0 <= r_cache r <= MAX_CACHED_BUFS.
Proof.
  intros R Hlive Hcache.
  assert (HM : Mid m (s_relay s) (s_p s) a).
  { pose proof (rl_core _ _ _ R) as C. rewrite (restore_live m s a R Hlive) in C. exact C. }
  assert (Hhave : have_buf (s_p s) = negb (isnil (a_pending a))).
  { rewrite (rl_have _ _ _ R), Hlive. reflexivity. }
  pose proof (pump_inner_sim m (s_relay s) cache (s_p s) o a HM Hhave Hcache) as I.
  cbv zeta in I. unfold pump_call.
  set (r := pump_inner m (s_relay s) cache (s_p s) o) in *. clearbody r.
  destruct I as (I1 & I2 & I3 & I4 & I5 & I6).
  rewrite I1. cbv zeta.
  set (c := fold_left (mon_eff m) (r_eff r) (acc0 a)) in *.
  destruct (call_ok_mon m c (r_ret r) I2 I4) as [MON DEAD].
  assert (Hbz : bytes (r_p r) = zlen (a_pending (c_a c))) by (destruct I3; assumption).
  assert (Hbf : buf (r_p r) = a_pending (c_a c)) by (destruct I3; assumption).
  assert (Hhv : bytes (r_p r) <> 0 -> have_buf (r_p r) = true) by (destruct I3; assumption).
  assert (CORE : forall p', bytes p' = bytes (r_p r) -> full p' = full (r_p r) -> saw_fin p' = saw_fin (r_p r) ->
                            Mid m (s_relay s) (restore p' (set_dead (c_a c) (c_err c))) (set_dead (c_a c) (c_err c))).
  { intros p' E1 E2 E3. rewrite restore_set_dead. apply Mid_set_dead.
    assert (E : restore p' (c_a c) = restore (r_p r) (c_a c)) by (unfold restore; congruence).
    rewrite E. apply Mid_restore, I3. }
  destruct (((r_ret r <? 0) || (bytes (r_p r) =? 0)) && have_buf (r_p r)) eqn:Hput.
  - (* the buffer is released *)
    apply andb_true_iff in Hput. destruct Hput as [Hcond Hb].
    pose proof (buf_put_spec m (r_cache r) (bytes (r_p r)) I6) as P.
    destruct (buf_put m (r_cache r) (bytes (r_p r))) as [c1 es1].
    destruct P as (P1 & P2 & P3 & P4).
    rcbn. split; [reflexivity|].
    exists (set_dead (c_a c) (c_err c)). split; [|split; [|split]].
    + unfold mon_pump. rewrite fold_app, (fold_mem_only m es1) by exact P1. fold c. rewrite MON. reflexivity.
    + constructor; cbn [s_p s_relay s_dead set_dead a_dead a_pending drop_buf buf have_buf].
      * exact DEAD.
      * apply CORE; reflexivity.
      * destruct (r_ret r <? 0); [reflexivity|]. cbn [orb] in Hcond. apply Z.eqb_eq in Hcond.
        symmetry. apply zlen_zero_nil. lia.
      * destruct (r_ret r <? 0); [reflexivity|]. cbn [orb negb andb] in *. apply Z.eqb_eq in Hcond.
        assert (E : a_pending (c_a c) = []) by (apply zlen_zero_nil; lia). rewrite E. reflexivity.
    + rewrite n_alloc_app, n_free_app, P3. unfold heldb in *. cbn [drop_buf have_buf]. rewrite Hb in I5. lia.
    + exact P4.
  - (* the buffer is kept, or there was none *)
    split; [exact I1|].
    exists (set_dead (c_a c) (c_err c)). split; [|split; [|split]].
    + unfold mon_pump. fold c. rewrite MON. reflexivity.
    + constructor; cbn [s_p s_relay s_dead set_dead a_dead a_pending].
      * exact DEAD.
      * apply CORE; reflexivity.
      * rewrite Hbf. destruct (r_ret r <? 0) eqn:Hneg; [|reflexivity].
        cbn [orb andb] in Hput.
        destruct (Z.eq_dec (bytes (r_p r)) 0) as [Z0|NZ].
        -- apply zlen_zero_nil. lia.
        -- rewrite (Hhv NZ) in Hput. discriminate.
      * destruct (r_ret r <? 0) eqn:Hneg; cbn [orb andb negb] in *.
        -- exact Hput.
        -- destruct (Z.eq_dec (bytes (r_p r)) 0) as [Z0|NZ].
           ++ assert (E : a_pending (c_a c) = []) by (apply zlen_zero_nil; lia). rewrite E. cbn [isnil negb].
              apply Z.eqb_eq in Z0. rewrite Z0 in Hput. exact Hput.
           ++ rewrite (Hhv NZ). symmetry. apply negb_true_iff, isnil_false. intros E.
              rewrite E in Hbz. cbn in Hbz. lia.
    + exact I5.
    + exact I6.
Qed.

(* ---- iv_fd_pump_init / iv_fd_pump_destroy / iv_fd_pump_is_done ---- *)

Lemma Rel_init m relay :
  Rel m {| s_p := pump_init; s_relay := relay; s_dead := false |} (mst0 relay).
Proof.
  constructor; cbn; try reflexivity.
  constructor; cbn; try reflexivity; try congruence.
  - destruct m; unfold cap, BUF_SIZE, PIPE_CAP; lia.
  - left. split; reflexivity.
  - rewrite andb_false_r. reflexivity.
  - destruct m; reflexivity.
Qed.

Lemma mfin_saw_fin m s a : Rel m s a -> mfin a = (saw_fin (s_p s) =? 2).
Proof.
  intros R. pose proof (rl_core _ _ _ R) as C. dmid C. cbn [restore saw_fin] in *. unfold mfin.
  destruct md_fin0 as [(F1 & F2)|[(F1 & F2 & F3)|(F1 & F2 & F3)]]; rewrite F1, F2.
  - reflexivity.
  - apply isnil_false in F3. rewrite F3. reflexivity.
  - rewrite F3. reflexivity.
Qed.

Lemma probe_spec m cache :
  0 <= cache <= MAX_CACHED_BUFS ->
  let '(c, es) := probe m cache in
  forallb mem_or_bands es = true /\ c = cache + n_alloc es - n_free es /\ 0 <= c <= MAX_CACHED_BUFS.
Proof.
  intros H. unfold probe. destruct m.
  - cbn. split; [reflexivity|lia].
  - pose proof (buf_put_spec SP cache 0 H) as P1.
    destruct (buf_put SP cache 0) as [c1 e1]. destruct P1 as (A1 & A2 & A3 & A4).
    pose proof (buf_put_spec SP c1 0 A4) as P2.
    destruct (buf_put SP c1 0) as [c2 e2]. destruct P2 as (B1 & B2 & B3 & B4).
    assert (MB : forall es, mem_only es -> forallb mem_or_bands es = true).
    { induction 1 as [|e es [He|He] _ IH]; [reflexivity| |]; subst; cbn; exact IH. }
    split; [|split; [|exact B4]].
    + cbn [app forallb mem_or_bands andb]. rewrite forallb_app, (MB _ A1), (MB _ B1). reflexivity.
    + rewrite !n_alloc_app, !n_free_app, A3, B3. cbn [n_alloc n_free]. lia.
Qed.

Lemma destroy_spec m s a cache :
  Rel m s a -> 0 <= cache <= MAX_CACHED_BUFS ->
  let '(c, _, es) := pump_destroy m cache (s_p s) in
  forallb mem_or_bands es = true /\
  (if mfin a then isnil (filter (fun e => match e with EBands _ _ => true | _ => false end) es)
   else bands_eqb (last_bands es None) (false, false)) = true /\
  c = cache + heldb (s_p s) + n_alloc es - n_free es /\ 0 <= c <= MAX_CACHED_BUFS.
Proof.
  intros R H. unfold pump_destroy. rewrite (mfin_saw_fin m s a R).
  assert (MB : forall es, mem_only es -> forallb mem_or_bands es = true /\
                 filter (fun e => match e with EBands _ _ => true | _ => false end) es = [] /\
                 forall d, last_bands es d = d).
  { induction 1 as [|e es [He|He] _ (IH1 & IH2 & IH3)]; [repeat split| |]; subst; cbn; repeat split; auto. }
  unfold heldb. destruct (have_buf (s_p s)).
  - pose proof (buf_put_spec m cache (bytes (s_p s)) H) as P.
    destruct (buf_put m cache (bytes (s_p s))) as [c1 es1]. destruct P as (P1 & P2 & P3 & P4).
    destruct (MB _ P1) as (M1 & M2 & M3).
    destruct (saw_fin (s_p s) =? 2); cbn [negb app].
    + rewrite M1, M2. cbn. repeat split; try lia.
    + cbn [forallb mem_or_bands andb last_bands n_alloc n_free]. rewrite M1, M3. cbn. repeat split; try lia.
  - destruct (saw_fin (s_p s) =? 2); cbn; repeat split; try lia.
Qed.

(* ---- several pumps and the cache ---- *)

Definition orel (m : mode) (x : option slot) (y : option mst) : Prop :=
  match x, y with
  | None, None => True
  | Some s, Some a => Rel m s a
  | _, _ => False
  end.

Definition fw (x : option slot) : Z := match x with Some s => heldb (s_p s) | None => 0 end.
Fixpoint held_w (l : list (option slot)) : Z :=
  match l with [] => 0 | x :: r => fw x + held_w r end.

Record WRel (w : world) (g : mons) : Prop := {
  wr_slots : Forall2 (orel (w_mode w)) (w_slots w) (g_pumps g);
  wr_cache : w_cache w = g_allocs g - g_frees g - held_w (w_slots w);
  wr_range : 0 <= w_cache w <= MAX_CACHED_BUFS;
}.

Lemma held_same m l1 l2 : Forall2 (orel m) l1 l2 -> held_m l2 = held_w l1.
Proof.
  induction 1 as [|x y l1 l2 Hxy _ IH]; [reflexivity|].
  cbn [held_m held_w]. destruct x as [s|], y as [a|]; cbn [orel fw] in *; try contradiction.
  - rewrite IH. unfold heldb. rewrite (rl_have _ _ _ Hxy), (rl_dead _ _ _ Hxy). reflexivity.
  - rewrite IH. lia.
Qed.

Lemma F2_nth {A B} (R : A -> B -> Prop) l1 l2 k x :
  Forall2 R l1 l2 -> nth_error l1 k = Some x -> exists y, nth_error l2 k = Some y /\ R x y.
Proof.
  intros H. revert k. induction H as [|a b l1 l2 Hab _ IH]; intros k E.
  - destruct k; discriminate.
  - destruct k; cbn in *.
    + injection E as <-. eauto.
    + apply IH, E.
Qed.

Lemma F2_nth_none {A B} (R : A -> B -> Prop) l1 l2 k :
  Forall2 R l1 l2 -> nth_error l1 k = None -> nth_error l2 k = None.
Proof.
  intros H. revert k. induction H as [|a b l1 l2 Hab _ IH]; intros k E.
  - destruct k; reflexivity.
  - destruct k; cbn in *; [discriminate|]. apply IH, E.
Qed.

Lemma F2_upd {A B} (R : A -> B -> Prop) l1 l2 k x y :
  Forall2 R l1 l2 -> R x y -> Forall2 R (upd k x l1) (upd k y l2).
Proof.
  intros H Hxy. revert k. induction H as [|a b l1 l2 Hab Hl IH]; intros k.
  - destruct k; constructor.
  - destruct k; cbn [upd].
    + constructor; assumption.
    + constructor; [assumption|apply IH].
Qed.

Lemma held_w_upd l k x y : nth_error l k = Some x -> held_w (upd k y l) = held_w l - fw x + fw y.
Proof.
  revert k. induction l as [|z l IH]; intros k E.
  - destruct k; discriminate.
  - destruct k; cbn in *.
    + injection E as <-. lia.
    + rewrite (IH _ E). lia.
Qed.

Lemma nth_upd_same {A} (l : list A) k x y : nth_error l k = Some x -> nth_error (upd k y l) k = Some y.
Proof.
  revert k. induction l as [|z l IH]; intros k E.
  - destruct k; discriminate.
  - destruct k; cbn in *; [reflexivity|]. apply IH, E.
Qed.

Lemma F2_repeat {A B} (R : A -> B -> Prop) x y n : R x y -> Forall2 R (repeat x n) (repeat y n).
Proof. intros H. induction n; cbn; constructor; auto. Qed.

Lemma held_w_repeat n : held_w (repeat None n) = 0.
Proof. induction n; cbn; lia. Qed.

Lemma WRel_init m n : WRel (world0 m n) (mons0 n).
Proof.
  constructor; cbn.
  - apply F2_repeat. exact I.
  - rewrite held_w_repeat. reflexivity.
  - unfold MAX_CACHED_BUFS. lia.
Qed.

Definition not_bad (ob : obs) : Prop := match ob with Bad _ => False | _ => True end.

Lemma balance m pumps slots c al fr :
  Forall2 (orel m) slots pumps -> c = al - fr - held_w slots -> 0 <= c <= MAX_CACHED_BUFS ->
  balance_ok {| g_allocs := al; g_frees := fr; g_pumps := pumps |} = true.
Proof.
  intros F E R. unfold balance_ok. cbn [g_allocs g_frees g_pumps]. rewrite (held_same m _ _ F).
  apply andb_true_iff. split; [apply Z.leb_le|apply Z.leb_le]; lia.
Qed.

Lemma wstep_sim w g o :
  WRel w g ->
  let '(w', ob) := wstep w o in
  exists g', mon_step (w_mode w) g o ob = (g', true) /\ WRel w' g' /\ w_mode w' = w_mode w /\ not_bad ob.
Proof.
  intros W. pose proof W as [WS WC WR].
  assert (SK : forall ob, not_bad ob ->
    exists g', (g, true) = (g', true) /\ WRel w g' /\ w_mode w = w_mode w /\ not_bad ob).
  { intros ob NB. exists g. split; [reflexivity|]. split; [exact W|]. split; [reflexivity|exact NB]. }
  destruct o as [k relay|k|k orc|k]; cbn [wstep mon_step].
  - (* init *)
    destruct (nth_error (w_slots w) k) as [[s|]|] eqn:E.
    + destruct (F2_nth _ _ _ _ _ WS E) as (y & Ey & Rxy). destruct y as [a|]; [|contradiction].
      rewrite Ey. apply SK; exact I.
    + destruct (F2_nth _ _ _ _ _ WS E) as (y & Ey & Rxy). destruct y as [a|]; [contradiction|].
      rewrite Ey.
      assert (P : let '(c, es) := (if w_probed w then (w_cache w, []) else probe (w_mode w) (w_cache w)) in
                  forallb mem_or_bands es = true /\ c = w_cache w + n_alloc es - n_free es /\
                  0 <= c <= MAX_CACHED_BUFS).
      { destruct (w_probed w); [cbn; repeat split; lia|]. apply probe_spec, WR. }
      destruct (if w_probed w then (w_cache w, []) else probe (w_mode w) (w_cache w)) as [c es].
      destruct P as (P1 & P2 & P3).
      assert (F' : Forall2 (orel (w_mode w))
                     (upd k (Some {| s_p := pump_init; s_relay := relay; s_dead := false |}) (w_slots w))
                     (upd k (Some (mst0 relay)) (g_pumps g))).
      { apply F2_upd; [exact WS|]. apply Rel_init. }
      assert (HW : held_w (upd k (Some {| s_p := pump_init; s_relay := relay; s_dead := false |}) (w_slots w))
                   = held_w (w_slots w)).
      { rewrite (held_w_upd _ _ _ _ E). cbn. lia. }
      eexists. split; [|split; [|split; [reflexivity|exact I]]].
      * rewrite Z.eqb_refl, forallb_app, P1, last_bands_app. cbn [forallb mem_or_bands andb last_bands bands_eqb fst snd eqb].
        rewrite (balance (w_mode w) _ _ c _ _ F'); [reflexivity| |exact P3].
        rewrite HW, n_alloc_app, n_free_app. cbn [n_alloc n_free]. lia.
      * constructor; cbn [set_world w_mode w_slots w_cache g_allocs g_frees g_pumps].
        -- exact F'.
        -- rewrite HW, n_alloc_app, n_free_app. cbn [n_alloc n_free]. lia.
        -- exact P3.
    + rewrite (F2_nth_none _ _ _ _ WS E). apply SK; exact I.
  - (* destroy *)
    destruct (nth_error (w_slots w) k) as [[s|]|] eqn:E.
    + destruct (F2_nth _ _ _ _ _ WS E) as (y & Ey & Rxy). destruct y as [a|]; [|contradiction].
      rewrite Ey. cbn [orel] in Rxy.
      pose proof (destroy_spec (w_mode w) s a (w_cache w) Rxy WR) as D.
      destruct (pump_destroy (w_mode w) (w_cache w) (s_p s)) as [[c p'] es].
      destruct D as (D1 & D2 & D3 & D4).
      assert (F' : Forall2 (orel (w_mode w)) (upd k None (w_slots w)) (upd k None (g_pumps g))).
      { apply F2_upd; [exact WS|exact I]. }
      assert (HW : held_w (upd k None (w_slots w)) = held_w (w_slots w) - heldb (s_p s)).
      { rewrite (held_w_upd _ _ _ _ E). cbn. lia. }
      eexists. split; [|split; [|split; [reflexivity|exact I]]].
      * rewrite Z.eqb_refl, D1, D2. cbn [andb].
        rewrite (balance (w_mode w) _ _ c _ _ F'); [reflexivity| |exact D4].
        rewrite HW. lia.
      * constructor; cbn [set_world w_mode w_slots w_cache g_allocs g_frees g_pumps].
        -- exact F'.
        -- rewrite HW. lia.
        -- exact D4.
    + destruct (F2_nth _ _ _ _ _ WS E) as (y & Ey & Rxy). destruct y as [a|]; [contradiction|].
      rewrite Ey. apply SK; exact I.
    + rewrite (F2_nth_none _ _ _ _ WS E). apply SK; exact I.
  - (* pump *)
    destruct (nth_error (w_slots w) k) as [[s|]|] eqn:E.
    + destruct (F2_nth _ _ _ _ _ WS E) as (y & Ey & Rxy). destruct y as [a|]; [|contradiction].
      rewrite Ey. cbn [orel] in Rxy.
      destruct (s_dead s) eqn:Hd.
      * rewrite (rl_dead _ _ _ Rxy), Hd. apply SK; exact I.
      * pose proof (pump_call_sim (w_mode w) s a (w_cache w) orc Rxy Hd WR) as S.
        cbv zeta in S. destruct S as (S1 & a' & S2 & S3 & S4 & S5).
        rewrite S1. rewrite (rl_dead _ _ _ Rxy), Hd, S2.
        set (r := pump_call (w_mode w) (s_relay s) (w_cache w) (s_p s) orc) in *.
        assert (F' : Forall2 (orel (w_mode w))
                       (upd k (Some {| s_p := r_p r; s_relay := s_relay s; s_dead := r_ret r <? 0 |}) (w_slots w))
                       (upd k (Some a') (g_pumps g))).
        { apply F2_upd; [exact WS|exact S3]. }
        assert (HW : held_w (upd k (Some {| s_p := r_p r; s_relay := s_relay s; s_dead := r_ret r <? 0 |}) (w_slots w))
                     = held_w (w_slots w) - heldb (s_p s) + heldb (r_p r)).
        { rewrite (held_w_upd _ _ _ _ E). cbn. lia. }
        eexists. split; [|split; [|split; [reflexivity|exact I]]].
        -- rewrite (balance (w_mode w) _ _ (r_cache r) _ _ F'); [reflexivity| |exact S5].
           rewrite HW. lia.
        -- constructor; cbn [set_world w_mode w_slots w_cache g_allocs g_frees g_pumps].
           ++ exact F'.
           ++ rewrite HW. lia.
           ++ exact S5.
    + destruct (F2_nth _ _ _ _ _ WS E) as (y & Ey & Rxy). destruct y as [a|]; [contradiction|].
      rewrite Ey. apply SK; exact I.
    + rewrite (F2_nth_none _ _ _ _ WS E). apply SK; exact I.
  - (* is_done *)
    destruct (nth_error (w_slots w) k) as [[s|]|] eqn:E.
    + destruct (F2_nth _ _ _ _ _ WS E) as (y & Ey & Rxy). destruct y as [a|]; [|contradiction].
      rewrite Ey. cbn [orel] in Rxy. unfold pump_is_done.
      rewrite (mfin_saw_fin _ _ _ Rxy). cbn [isnil andb].
      destruct (saw_fin (s_p s) =? 2); cbn [Z.eqb Pos.eqb]; apply SK; exact I.
    + destruct (F2_nth _ _ _ _ _ WS E) as (y & Ey & Rxy). destruct y as [a|]; [contradiction|].
      rewrite Ey. apply SK; exact I.
    + rewrite (F2_nth_none _ _ _ _ WS E). apply SK; exact I.
Qed.

(* ---- whole histories ---- *)

Lemma run_sim ops : forall w g,
  WRel w g ->
  let '(w', tr) := run w ops in
  exists g', mon_run (w_mode w) g tr = (g', true) /\ WRel w' g' /\ w_mode w' = w_mode w /\
             Forall (fun x => not_bad (snd x)) tr.
Proof.
  induction ops as [|o ops IH]; intros w g W; cbn [run].
  - exists g. split; [reflexivity|]. split; [exact W|]. split; [reflexivity|constructor].
  - pose proof (wstep_sim w g o W) as S. destruct (wstep w o) as [w1 ob].
    destruct S as (g1 & S1 & S2 & S3 & S4).
    pose proof (IH w1 g1 S2) as R. destruct (run w1 ops) as [w2 tr].
    destruct R as (g2 & R1 & R2 & R3 & R4).
    exists g2. cbn [mon_run]. rewrite S1. rewrite S3 in R1. rewrite R1.
    split; [reflexivity|]. split; [exact R2|]. split; [congruence|].
    constructor; [exact S4|exact R4].
Qed.

Lemma world0_mode m n : w_mode (world0 m n) = m.
Proof. reflexivity. Qed.

Theorem pump_history m n ops :
  let '(w, tr) := run (world0 m n) ops in
  exists g, mon_run m (mons0 n) tr = (g, true) /\ WRel w g /\ w_mode w = m /\
            Forall (fun x => not_bad (snd x)) tr.
Proof.
  pose proof (run_sim ops (world0 m n) (mons0 n) (WRel_init m n)) as R.
  rewrite world0_mode in R. exact R.
Qed.

Theorem pump_monitor_accepts m n ops :
  snd (mon_run m (mons0 n) (snd (run (world0 m n) ops))) = true.
Proof.
  pose proof (pump_history m n ops) as H. destruct (run (world0 m n) ops) as [w tr].
  destruct H as (g & H1 & _). cbn [snd]. rewrite H1. reflexivity.
Qed.

Theorem pump_no_bad_outcome m n ops :
  forall o oc, ~ In (o, Bad oc) (snd (run (world0 m n) ops)).
Proof.
  pose proof (pump_history m n ops) as H. destruct (run (world0 m n) ops) as [w tr].
  destruct H as (g & _ & _ & _ & H4). cbn [snd]. intros o oc Hin.
  rewrite Forall_forall in H4. apply (H4 _ Hin).
Qed.

(* ---- meaning of the specification state: it is a function of the trace ---- *)

Definition in_bytes (e : eff) : list Z := match e with EIn _ (IGot bs) => bs | _ => [] end.
Definition out_bytes (e : eff) : list Z := match e with EOut _ (OGot bs) => bs | _ => [] end.
Definition is_eof (e : eff) : bool := match e with EIn _ IEof => true | _ => false end.

(* what pump k did since its last init: bytes consumed, bytes written, shutdown calls, EOF seen *)
Record hist := { h_consumed : list Z; h_written : list Z; h_shut : Z; h_eof : bool }.
Definition hist0 : hist := {| h_consumed := []; h_written := []; h_shut := 0; h_eof := false |}.
Definition hist_add (h : hist) (es : list eff) : hist :=
  {| h_consumed := h_consumed h ++ flat_map in_bytes es;
     h_written := h_written h ++ flat_map out_bytes es;
     h_shut := h_shut h + n_shut es;
     h_eof := h_eof h || existsb is_eof es |}.

Fixpoint hist_of (k : nat) (tr : list (op * obs)) (h : hist) : hist :=
  match tr with
  | [] => h
  | (Init k' _, Done _ _) :: r => hist_of k r (if Nat.eqb k k' then hist0 else h)
  | (Pump k' _, Done _ es) :: r => hist_of k r (if Nat.eqb k k' then hist_add h es else h)
  | _ :: r => hist_of k r h
  end.

Definition hist_is (h : hist) (a : mst) : Prop :=
  a_consumed a = h_consumed h /\ a_written a = h_written h /\ a_shut a = h_shut h /\ a_eof a = h_eof h.

Lemma ok_mono m es : forall c, c_ok (fold_left (mon_eff m) es c) = true -> c_ok c = true.
Proof.
  induction es as [|e es IH]; intros c H; [exact H|].
  cbn [fold_left] in H. apply IH in H.
  destruct e as [ | | |req r|v|req r| |p q]; cbn [mon_eff] in H; try exact H;
    try (unfold with_a, with_err in H; cbn in H; apply andb_true_iff in H; destruct H as [H _]; exact H).
  - destruct r; unfold with_a, with_err in H; cbn in H; apply andb_true_iff in H; destruct H as [H _]; exact H.
  - destruct r; try (unfold with_a, with_err in H; cbn in H; apply andb_true_iff in H; destruct H as [H _]; exact H).
    destruct (strip bs (a_pending (c_a c))); unfold with_a in H; cbn in H;
      apply andb_true_iff in H; destruct H as [H _]; exact H.
Qed.

Lemma fold_hist m es : forall c h,
  c_ok (fold_left (mon_eff m) es c) = true -> hist_is h (c_a c) ->
  hist_is (hist_add h es) (c_a (fold_left (mon_eff m) es c)).
Proof.
  induction es as [|e es IH]; intros c h Hok Hh.
  - destruct Hh as (H1 & H2 & H3 & H4). unfold hist_is, hist_add. cbn.
    rewrite !app_nil_r, Z.add_0_r, orb_false_r. auto.
  - cbn [fold_left] in *.
    assert (Hok1 : c_ok (mon_eff m c e) = true) by (eapply ok_mono; exact Hok).
    assert (STEP : hist_is (hist_add h [e]) (c_a (mon_eff m c e))).
    { destruct Hh as (H1 & H2 & H3 & H4). unfold hist_is, hist_add. cbn [flat_map n_shut existsb h_consumed h_written h_shut h_eof].
      rewrite !app_nil_r, orb_false_r.
      destruct e as [ | | |req r|v|req r| |p q]; cbn [mon_eff in_bytes out_bytes is_eof c_a with_a with_err];
        rewrite ?app_nil_r, ?Z.add_0_r, ?orb_false_r; auto.
      - destruct r; cbn [c_a with_a with_err a_consumed a_written a_shut a_eof];
          rewrite ?app_nil_r, ?Z.add_0_r, ?orb_false_r, ?orb_true_r; repeat split; try congruence; lia.
      - destruct r; cbn [c_a with_a with_err a_consumed a_written a_shut a_eof];
          rewrite ?app_nil_r, ?Z.add_0_r, ?orb_false_r; try (repeat split; try congruence; lia).
        cbn [mon_eff] in Hok1.
        destruct (strip bs (a_pending (c_a c))).
        + cbn [c_a with_a a_consumed a_written a_shut a_eof]. repeat split; try congruence; lia.
        + unfold with_a in Hok1. cbn in Hok1. rewrite andb_false_r in Hok1. discriminate.
      - cbn [c_a with_a a_consumed a_written a_shut a_eof]. repeat split; try congruence; lia. }
    pose proof (IH (mon_eff m c e) (hist_add h [e]) Hok STEP) as R.
    assert (E : hist_add (hist_add h [e]) es = hist_add h (e :: es)).
    { unfold hist_add. cbn [h_consumed h_written h_shut h_eof flat_map n_shut existsb].
      rewrite !app_nil_r, <- !app_assoc, orb_false_r, <- orb_assoc.
      f_equal. destruct e; cbn [n_shut]; lia. }
    rewrite E in R. exact R.
Qed.

Lemma nth_upd_other {A} (l : list A) k k' x : k <> k' -> nth_error (upd k' x l) k = nth_error l k.
Proof.
  revert k k'. induction l as [|z l IH]; intros k k' N.
  - destruct k'; reflexivity.
  - destruct k', k; cbn; try reflexivity; try congruence. apply IH. congruence.
Qed.

Lemma hist_is_set_dead h a d : hist_is h a -> hist_is h (set_dead a d).
Proof. intros H. exact H. Qed.

Lemma mon_run_hist m k tr : forall g h g',
  (forall a, nth_error (g_pumps g) k = Some (Some a) -> hist_is h a) ->
  mon_run m g tr = (g', true) ->
  forall a, nth_error (g_pumps g') k = Some (Some a) -> hist_is (hist_of k tr h) a.
Proof.
  induction tr as [|[o ob] tr IH]; intros g h g' Hg Hrun a Ha.
  - cbn in Hrun. injection Hrun as <-. cbn. apply Hg, Ha.
  - cbn [mon_run] in Hrun.
    destruct (mon_step m g o ob) as [g1 ok1] eqn:S.
    destruct (mon_run m g1 tr) as [g2 ok2] eqn:R.
    injection Hrun as <- Hok. apply andb_true_iff in Hok. destruct Hok as [-> ->].
    (* unchanged slot k: same hist *)
    assert (KEEP : (forall a0, nth_error (g_pumps g1) k = Some (Some a0) -> hist_is h a0) ->
                   hist_is (hist_of k tr h) a).
    { intros K. eapply IH; [exact K|exact R|exact Ha]. }
    destruct o as [k' relay|k'|k' orc|k']; cbn [mon_step] in S.
    + (* init *)
      destruct (nth_error (g_pumps g) k') as [[a0|]|] eqn:E; destruct ob as [|rc es|oc];
        try (inversion S; subst; cbn [hist_of]; apply KEEP, Hg; fail).
      injection S as <- _. cbn [hist_of].
      destruct (Nat.eqb k k') eqn:Ek.
      * apply Nat.eqb_eq in Ek. subst k'.
        eapply IH; [|exact R|exact Ha]. cbn [g_pumps]. intros a1 H1.
        rewrite (nth_upd_same _ _ _ _ E) in H1. injection H1 as <-. repeat split.
      * apply Nat.eqb_neq in Ek. eapply IH; [|exact R|exact Ha]. cbn [g_pumps]. intros a1 H1.
        rewrite (nth_upd_other _ _ _ _ Ek) in H1. apply Hg, H1.
    + (* destroy *)
      destruct (nth_error (g_pumps g) k') as [[a0|]|] eqn:E; destruct ob as [|rc es|oc];
        try (inversion S; subst; cbn [hist_of]; apply KEEP, Hg; fail).
      injection S as <- _. cbn [hist_of].
      eapply IH; [|exact R|exact Ha]. cbn [g_pumps]. intros a1 H1.
      destruct (Nat.eq_dec k k') as [->|N].
      * rewrite (nth_upd_same _ _ _ _ E) in H1. discriminate.
      * rewrite (nth_upd_other _ _ _ _ N) in H1. apply Hg, H1.
    + (* pump *)
      destruct (nth_error (g_pumps g) k') as [[a0|]|] eqn:E; destruct ob as [|rc es|oc];
        try (inversion S; subst; cbn [hist_of]; apply KEEP, Hg; fail).
      destruct (a_dead a0); [inversion S|].
      destruct (mon_pump m a0 rc es) as [a' okp] eqn:MP.
      injection S as <- Hok. apply andb_true_iff in Hok. destruct Hok as [-> _].
      cbn [hist_of].
      unfold mon_pump in MP. injection MP as <- MPok. apply andb_true_iff in MPok. destruct MPok as [MPok _].
      destruct (Nat.eqb k k') eqn:Ek.
      * apply Nat.eqb_eq in Ek. subst k'.
        eapply IH; [|exact R|exact Ha]. cbn [g_pumps]. intros a1 H1.
        rewrite (nth_upd_same _ _ _ _ E) in H1. injection H1 as <-.
        apply hist_is_set_dead. apply fold_hist; [exact MPok|]. cbn [acc0 c_a]. apply Hg, E.
      * apply Nat.eqb_neq in Ek. eapply IH; [|exact R|exact Ha]. cbn [g_pumps]. intros a1 H1.
        rewrite (nth_upd_other _ _ _ _ Ek) in H1. apply Hg, H1.
    + (* is_done *)
      destruct (nth_error (g_pumps g) k') as [[a0|]|] eqn:E; destruct ob as [|rc es|oc];
        try (inversion S; subst; cbn [hist_of]; apply KEEP, Hg; fail).
Qed.

(* ---- the property clauses ---- *)

Lemma nth_repeat_none {A} (x : A) n k y : nth_error (repeat x n) k = Some y -> y = x.
Proof.
  revert k. induction n as [|n IH]; intros k H.
  - destruct k; discriminate.
  - destruct k; cbn in H; [congruence|]. apply (IH _ H).
Qed.

(* every pump of a reachable world is related to the specification state computed from the trace *)
Lemma reach_slot m n ops k s :
  nth_error (w_slots (fst (run (world0 m n) ops))) k = Some (Some s) ->
  exists a, Rel m s a /\ hist_is (hist_of k (snd (run (world0 m n) ops)) hist0) a /\
            0 <= w_cache (fst (run (world0 m n) ops)) <= MAX_CACHED_BUFS.
Proof.
  pose proof (pump_history m n ops) as H. destruct (run (world0 m n) ops) as [w tr].
  destruct H as (g & H1 & H2 & H3 & _). cbn [fst snd]. intros E.
  destruct H2 as [WS WC WR]. rewrite H3 in WS.
  destruct (F2_nth _ _ _ _ _ WS E) as (y & Ey & Rxy). destruct y as [a|]; [|contradiction].
  exists a. split; [exact Rxy|]. split; [|exact WR].
  eapply mon_run_hist; [|exact H1|exact Ey].
  intros a0 H0. cbn in H0. apply nth_repeat_none in H0. discriminate.
Qed.

Theorem stream_intact m n ops k s :
  nth_error (w_slots (fst (run (world0 m n) ops))) k = Some (Some s) ->
  let h := hist_of k (snd (run (world0 m n) ops)) hist0 in
  exists rest, h_written h ++ rest = h_consumed h /\
               (s_dead s = false -> buf (s_p s) = rest) /\
               bytes (s_p s) = zlen rest /\ zlen rest <= cap m.
Proof.
  intros E. destruct (reach_slot m n ops k s E) as (a & R & (H1 & H2 & H3 & H4) & _).
  cbv zeta. exists (a_pending a). pose proof (rl_core _ _ _ R) as C. dmid C.
  cbn [restore bytes] in *. rewrite <- H1, <- H2.
  split; [exact md_stream0|]. split; [|split; [exact md_bytes0|exact md_cap0]].
  intros Hl. rewrite (rl_buf _ _ _ R), Hl. reflexivity.
Qed.

Theorem eof_after_drain m n ops k s :
  nth_error (w_slots (fst (run (world0 m n) ops))) k = Some (Some s) ->
  let h := hist_of k (snd (run (world0 m n) ops)) hist0 in
  let p := s_p s in
  (saw_fin p = 0 \/ saw_fin p = 1 \/ saw_fin p = 2) /\
  h_shut h = (if s_relay s && (saw_fin p =? 2) then 1 else 0) /\
  (saw_fin p = 0 <-> h_eof h = false) /\
  (saw_fin p = 2 <-> h_eof h = true /\ h_written h = h_consumed h) /\
  (saw_fin p = 1 -> bytes p <> 0) /\ (saw_fin p = 2 -> bytes p = 0).
Proof.
  intros E. destruct (reach_slot m n ops k s E) as (a & R & (H1 & H2 & H3 & H4) & _).
  cbv zeta. pose proof (rl_core _ _ _ R) as C. dmid C.
  cbn [restore bytes saw_fin] in *. rewrite <- H1, <- H2, <- H3, <- H4.
  assert (WC : a_written a = a_consumed a <-> a_pending a = []).
  { split; intros Q.
    - rewrite <- md_stream0 in Q. rewrite <- (app_nil_r (a_written a)) in Q at 1.
      apply app_inv_head in Q. congruence.
    - rewrite <- md_stream0, Q, app_nil_r. reflexivity. }
  split; [|split; [exact md_shut0|]].
  - destruct md_fin0 as [[F _]|[[F _]|[F _]]]; auto.
  - destruct md_fin0 as [(F1 & F2)|[(F1 & F2 & F3)|(F1 & F2 & F3)]]; rewrite F1, F2, md_bytes0.
    + repeat split; try congruence; try lia; try (intros [? _]; discriminate); intros; discriminate.
    + repeat split; try congruence; try lia; try discriminate.
      * intros [_ Q]. apply WC in Q. contradiction.
      * intros _ Q. apply zlen_zero_nil in Q. contradiction.
    + repeat split; try congruence; try lia; try discriminate.
      * apply WC, F3.
      * intros _. rewrite F3. reflexivity.
Qed.

Definition reachable (m : mode) (s : slot) (cache : Z) : Prop :=
  exists n ops k, nth_error (w_slots (fst (run (world0 m n) ops))) k = Some (Some s) /\
                  w_cache (fst (run (world0 m n) ops)) = cache.

Lemma reachable_rel m s cache :
  reachable m s cache -> (exists a, Rel m s a) /\ 0 <= cache <= MAX_CACHED_BUFS.
Proof.
  intros (n & ops & k & E & Ec). destruct (reach_slot m n ops k s E) as (a & R & _ & Hc).
  rewrite Ec in Hc. split; [exists a; exact R|exact Hc].
Qed.

Definition expected_bands (p : pump) : bool * bool :=
  if saw_fin p =? 0 then (negb (full p), negb (bytes p =? 0))
  else if saw_fin p =? 1 then (false, true) else (false, false).

Lemma want_expected m relay p a : Mid m relay p a -> want_bands m a = expected_bands p.
Proof.
  intros HM. dmid HM. unfold want_bands, expected_bands.
  destruct md_fin0 as [(F1 & F2)|[(F1 & F2 & F3)|(F1 & F2 & F3)]]; rewrite F1, F2; cbn [Z.eqb Pos.eqb negb].
  - rewrite md_full0, md_bytes0, isnil_zlen. reflexivity.
  - apply isnil_false in F3. rewrite F3. reflexivity.
  - rewrite F3. reflexivity.
Qed.

(* everything one pump call on a reachable, not failed pump does *)
Lemma pump_call_facts m s cache o :
  reachable m s cache -> s_dead s = false ->
  let r := pump_call m (s_relay s) cache (s_p s) o in
  let p' := r_p r in
  r_oc r = Ok /\
  (r_ret r = -1 /\ has_error (r_eff r) = true \/
   has_error (r_eff r) = false /\ r_ret r = (if saw_fin p' =? 2 then 0 else 1) /\
   last_bands (r_eff r) None = Some (expected_bands p') /\
   bytes p' = zlen (buf p') /\ bytes p' <= cap m /\
   (m = RW -> full p' = (bytes p' =? BUF_SIZE)) /\
   (saw_fin p' = 0 -> full p' = true -> bytes p' <> 0) /\
   have_buf p' = negb (bytes p' =? 0)).
Proof.
  intros RE Hl. destruct (reachable_rel m s cache RE) as [[a R] Hc].
  pose proof (pump_call_sim m s a cache o R Hl Hc) as S. cbv zeta in *.
  set (r := pump_call m (s_relay s) cache (s_p s) o) in *. clearbody r.
  destruct S as (S1 & a' & S2 & S3 & _). split; [exact S1|].
  unfold mon_pump in S2. set (c := fold_left (mon_eff m) (r_eff r) (acc0 a)) in *.
  injection S2 as Ea Eok. apply andb_true_iff in Eok. destruct Eok as [_ Eok].
  assert (Eerr : c_err c = has_error (r_eff r)) by (subst c; rewrite fold_err; reflexivity).
  assert (Ebands : c_bands c = last_bands (r_eff r) None) by (subst c; rewrite fold_bands; reflexivity).
  rewrite Eerr in *. destruct (has_error (r_eff r)).
  - left. apply Z.eqb_eq in Eok. split; [exact Eok|reflexivity].
  - right. split; [reflexivity|].
    apply andb_true_iff in Eok. destruct Eok as [Eok _].
    apply andb_true_iff in Eok. destruct Eok as [Eok _].
    apply andb_true_iff in Eok. destruct Eok as [Erc Eb]. apply Z.eqb_eq in Erc.
    pose proof (rl_core _ _ _ S3) as C. cbn [s_p s_relay] in C.
    pose proof (mfin_saw_fin _ _ _ S3) as MF. cbn [s_p] in MF.
    pose proof (want_expected _ _ _ _ C) as WE.
    pose proof (full_pending_nonnil _ _ _ _ C) as FP.
    assert (Hlive : (r_ret r <? 0) = false).
    { apply Z.ltb_ge. rewrite Erc. destruct (mfin (c_a c)); lia. }
    pose proof (rl_buf _ _ _ S3) as RB. pose proof (rl_have _ _ _ S3) as RH.
    cbn [s_p s_dead] in RB, RH. rewrite Hlive in RB, RH. cbn [negb andb] in RH.
    subst a'. cbn [set_dead a_pending] in *.
    assert (MF2 : mfin (c_a c) = (saw_fin (r_p r) =? 2)) by exact MF.
    assert (WE2 : want_bands m (c_a c) = expected_bands (r_p r)) by exact WE.
    dmid C. cbn [restore bytes full saw_fin buf set_dead a_pending] in *.
    rewrite MF2 in Erc. split; [exact Erc|].
    split.
    + rewrite WE2, Ebands in Eb. unfold bands_eqb in Eb.
      destruct (last_bands (r_eff r) None) as [[x y]|]; [|discriminate].
      apply andb_true_iff in Eb. destruct Eb as [E1 E2]. apply eqb_prop in E1, E2.
      destruct (expected_bands (r_p r)) as [x' y']. cbn in E1, E2. subst. reflexivity.
    + rewrite RB. split; [exact md_bytes0|]. split; [rewrite md_bytes0; exact md_cap0|].
      split; [|split].
      * intros ->. rewrite md_full0, md_bytes0. reflexivity.
      * intros F0 Ft. rewrite md_bytes0. intros Z0. apply zlen_zero_nil in Z0.
        apply FP; [|exact Z0]. unfold mfull in *. cbn [set_dead a_pending a_full] in *.
        rewrite <- md_full0. exact Ft.
      * rewrite RH, md_bytes0, isnil_zlen. reflexivity.
Qed.

Theorem return_code m s cache o :
  reachable m s cache -> s_dead s = false ->
  let r := pump_call m (s_relay s) cache (s_p s) o in
  r_oc r = Ok /\
  (r_ret r = -1 <-> has_error (r_eff r) = true) /\
  (r_ret r = 0 <-> has_error (r_eff r) = false /\ saw_fin (r_p r) = 2) /\
  (r_ret r = 1 <-> has_error (r_eff r) = false /\ saw_fin (r_p r) <> 2).
Proof.
  intros RE Hl. pose proof (pump_call_facts m s cache o RE Hl) as F. cbv zeta in *.
  destruct F as (F1 & [[F2 F3]|(F2 & F3 & _)]); (split; [exact F1|]); rewrite ?F2, ?F3.
  - repeat split; try congruence; try lia; try discriminate; try (intros [? _]; discriminate).
  - destruct (saw_fin (r_p (pump_call m (s_relay s) cache (s_p s) o)) =? 2) eqn:E.
    + apply Z.eqb_eq in E. repeat split; try congruence; try lia; try discriminate;
        try (intros [_ Q]; contradiction); try (intros [? _]; discriminate).
    + apply Z.eqb_neq in E. repeat split; try congruence; try lia; try discriminate;
        try (intros [_ Q]; contradiction); try (intros [? _]; discriminate).
Qed.

(* once done, always done: further calls return 0, change nothing, request no band *)
Theorem done_stays_done m s cache o :
  reachable m s cache -> s_dead s = false -> saw_fin (s_p s) = 2 ->
  let r := pump_call m (s_relay s) cache (s_p s) o in
  r_oc r = Ok /\ r_ret r = 0 /\ r_p r = s_p s /\ r_cache r = cache /\ r_eff r = [EBands false false].
Proof.
  intros RE Hl F2. destruct (reachable_rel m s cache RE) as [[a R] Hc].
  pose proof (rl_core _ _ _ R) as C. dmid C. cbn [restore bytes saw_fin] in *.
  assert (Hnil : a_pending a = []).
  { destruct md_fin0 as [[F _]|[[F _]|(_ & _ & F)]]; [lia|lia|exact F]. }
  assert (Hb : bytes (s_p s) = 0) by (rewrite md_bytes0, Hnil; reflexivity).
  assert (Hh : have_buf (s_p s) = false) by (rewrite (rl_have _ _ _ R), Hnil, Hl; reflexivity).
  cbv zeta. unfold pump_call, pump_inner. rewrite F2. cbn [Z.eqb andb]. rewrite andb_false_r.
  cbn [r_oc r_ret r_p r_cache r_eff mkres Z.eqb negb]. rewrite Hb. cbn [Z.eqb negb].
  cbn [r_oc r_ret r_p r_cache r_eff mkres Z.eqb negb]. rewrite F2. cbn [Z.eqb Pos.eqb].
  cbn [r_oc r_ret r_p r_cache r_eff mkres Z.eqb negb Z.ltb Z.compare orb app]. rewrite Hb, Hh. cbn [Z.eqb andb].
  repeat split; reflexivity.
Qed.

Theorem bands_truthful m s cache o :
  reachable m s cache -> s_dead s = false ->
  let r := pump_call m (s_relay s) cache (s_p s) o in
  let p' := r_p r in
  r_ret r <> -1 ->
  last_bands (r_eff r) None = Some (expected_bands p') /\
  bytes p' = zlen (buf p') /\ bytes p' <= cap m /\
  (m = RW -> full p' = (bytes p' =? BUF_SIZE)) /\
  (saw_fin p' = 0 -> fst (expected_bands p') = true \/ snd (expected_bands p') = true).
Proof.
  intros RE Hl. pose proof (pump_call_facts m s cache o RE Hl) as F. cbv zeta in *.
  destruct F as (F1 & [[F2 F3]|(F2 & F3 & F4 & F5 & F6 & F7 & F8 & F9)]); intros NE; [contradiction|].
  split; [exact F4|]. split; [exact F5|]. split; [exact F6|]. split; [exact F7|].
  intros S0. unfold expected_bands. rewrite S0. cbn [Z.eqb fst snd].
  destruct (full (r_p (pump_call m (s_relay s) cache (s_p s) o))) eqn:Ef; [|left; reflexivity].
  right. apply negb_true_iff, Z.eqb_neq. apply F8; [exact S0|reflexivity].
Qed.

(* buffer accounting over the whole trace *)
Fixpoint allocs_of (tr : list (op * obs)) : Z :=
  match tr with [] => 0 | (_, Done _ es) :: r => n_alloc es + allocs_of r | _ :: r => allocs_of r end.
Fixpoint frees_of (tr : list (op * obs)) : Z :=
  match tr with [] => 0 | (_, Done _ es) :: r => n_free es + frees_of r | _ :: r => frees_of r end.

Lemma mon_run_counts m tr : forall g g',
  mon_run m g tr = (g', true) ->
  g_allocs g' = g_allocs g + allocs_of tr /\ g_frees g' = g_frees g + frees_of tr.
Proof.
  induction tr as [|[o ob] tr IH]; intros g g' Hrun.
  - cbn in Hrun. injection Hrun as <-. cbn. lia.
  - cbn [mon_run] in Hrun.
    destruct (mon_step m g o ob) as [g1 ok1] eqn:S.
    destruct (mon_run m g1 tr) as [g2 ok2] eqn:R.
    injection Hrun as <- Hok. apply andb_true_iff in Hok. destruct Hok as [-> ->].
    destruct (IH _ _ R) as [I1 I2].
    assert (STEP : g_allocs g1 = g_allocs g + match ob with Done _ es => n_alloc es | _ => 0 end /\
                   g_frees g1 = g_frees g + match ob with Done _ es => n_free es | _ => 0 end).
    { destruct o as [k' relay|k'|k' orc|k']; cbn [mon_step] in S;
        destruct (nth_error (g_pumps g) k') as [[a0|]|]; destruct ob as [|rc es|oc];
        try (inversion S; subst; cbn; lia).
      - destruct (a_dead a0); [inversion S|]. destruct (mon_pump m a0 rc es) as [a' okp].
        inversion S; subst; cbn; lia.
      - injection S as <- Q. apply andb_true_iff in Q. destruct Q as [Q _].
        destruct es; [cbn; lia|discriminate]. }
    destruct STEP as [T1 T2]. cbn [allocs_of frees_of]. destruct ob; lia.
Qed.

Theorem buffer_cache m n ops :
  let w := fst (run (world0 m n) ops) in
  let tr := snd (run (world0 m n) ops) in
  0 <= w_cache w <= MAX_CACHED_BUFS /\
  w_cache w = allocs_of tr - frees_of tr - held_w (w_slots w) /\
  forall k s, nth_error (w_slots w) k = Some (Some s) ->
              have_buf (s_p s) = negb (s_dead s) && negb (bytes (s_p s) =? 0).
Proof.
  pose proof (pump_history m n ops) as H. cbv zeta.
  pose proof (reach_slot m n ops) as RS.
  destruct (run (world0 m n) ops) as [w tr]. cbn [fst snd] in *.
  destruct H as (g & H1 & H2 & H3 & _). destruct H2 as [WS WC WR].
  destruct (mon_run_counts m tr _ _ H1) as [C1 C2]. cbn in C1, C2.
  split; [exact WR|]. split; [lia|].
  intros k s E. destruct (RS k s E) as (a & R & _ & _).
  rewrite (rl_have _ _ _ R). pose proof (rl_core _ _ _ R) as C. dmid C. cbn [restore bytes] in *.
  rewrite md_bytes0, isnil_zlen. reflexivity.
Qed.
