(* PumpMonitor.v -- boolean monitor of property C17 on an observed trace.

   The monitor sees only what the implementation harness prints: the sequence
   of API calls (init / destroy / pump / is_done on pump k) with, per call,
   the return code and the ordered list of effects (system calls issued on
   the pump's descriptors with their sizes and results, set_bands callbacks,
   shutdown calls, buffer mallocs and frees).  It keeps, per pump, the
   *specification* state of a byte relay: the queue of bytes consumed from the
   input and not yet written (a_pending), everything consumed (a_consumed),
   everything written (a_written), whether end-of-file was seen, whether the
   output was shut down; and globally the number of buffer allocations and
   frees.  It never looks at the model.  Definitions only; the theorem that
   every model trace is accepted is in PumpProofs.v. *)

From Coq Require Import List ZArith Bool.
From Ivv Require Import Pump.PumpModel.
Import ListNotations.
Local Open Scope Z_scope.

Record mst := {
  a_relay : bool;            (* IV_FD_PUMP_FLAG_RELAY_EOF given at init *)
  a_dead : bool;             (* a pump call returned -1 *)
  a_pending : list Z;        (* consumed, not yet written *)
  a_consumed : list Z;       (* all bytes obtained from the input, in order *)
  a_written : list Z;        (* all bytes handed to the output, in order *)
  a_eof : bool;              (* an input attempt returned 0 *)
  a_shut : Z;                (* number of shutdown(to_fd, SHUT_WR) calls *)
  a_full : bool;             (* splice mode only: "pipe full" as told by EAGAIN + FIONREAD > 0 *)
}.

Definition mst0 (relay : bool) : mst :=
  {| a_relay := relay; a_dead := false; a_pending := []; a_consumed := []; a_written := [];
     a_eof := false; a_shut := 0; a_full := false |}.

Definition isnil {A} (l : list A) : bool := match l with [] => true | _ => false end.

(* bs is a prefix of l: return the rest *)
Fixpoint strip (bs l : list Z) : option (list Z) :=
  match bs, l with
  | [], _ => Some l
  | b :: bs', x :: l' => if b =? x then strip bs' l' else None
  | _ :: _, [] => None
  end.

(* "the buffer is full" as far as an observer can tell *)
Definition mfull (m : mode) (a : mst) : bool :=
  match m with RW => zlen (a_pending a) =? BUF_SIZE | SP => a_full a end.

(* the size the pump must ask for on input *)
Definition min_req (m : mode) (a : mst) : Z :=
  match m with RW => BUF_SIZE - zlen (a_pending a) | SP => SPLICE_REQ end.

(* a pump call finished everything: EOF seen and nothing pending *)
Definition mfin (a : mst) : bool := a_eof a && isnil (a_pending a).

Record acc := { c_a : mst; c_ok : bool; c_err : bool; c_bands : option (bool * bool) }.
Definition acc0 (a : mst) : acc := {| c_a := a; c_ok := true; c_err := false; c_bands := None |}.

Definition with_a (c : acc) (a : mst) (ok : bool) : acc :=
  {| c_a := a; c_ok := c_ok c && ok; c_err := c_err c; c_bands := c_bands c |}.
Definition with_err (c : acc) (ok : bool) : acc :=
  {| c_a := c_a c; c_ok := c_ok c && ok; c_err := true; c_bands := c_bands c |}.

Definition mon_eff (m : mode) (c : acc) (e : eff) : acc :=
  let a := c_a c in
  match e with
  | EAlloc | EFree => c
  | EAllocFail => with_err c (negb (c_err c))
  | EIn req r =>
      (* input is attempted only before EOF, while space remains, asking for exactly the space left;
         nothing happens after an error *)
      let pre := negb (c_err c) && negb (a_eof a) && negb (mfull m a) && (req =? min_req m a) in
      match r with
      | IGot bs =>
          with_a c {| a_relay := a_relay a; a_dead := a_dead a; a_pending := a_pending a ++ bs;
                      a_consumed := a_consumed a ++ bs; a_written := a_written a; a_eof := a_eof a;
                      a_shut := a_shut a; a_full := a_full a |}
                 (pre && negb (isnil bs) && (zlen (a_pending a) + zlen bs <=? cap m))
      | IEof =>
          with_a c {| a_relay := a_relay a; a_dead := a_dead a; a_pending := a_pending a;
                      a_consumed := a_consumed a; a_written := a_written a; a_eof := true;
                      a_shut := a_shut a; a_full := a_full a |} pre
      | IAgain | IIntr => with_a c a pre
      | IErr => with_err c pre
      end
  | EFion v =>
      with_a c {| a_relay := a_relay a; a_dead := a_dead a; a_pending := a_pending a;
                  a_consumed := a_consumed a; a_written := a_written a; a_eof := a_eof a;
                  a_shut := a_shut a; a_full := a_full a || (0 <? v) |}
             (negb (c_err c) && is_sp m && negb (isnil (a_pending a)) && negb (a_eof a))
  | EOut req r =>
      (* output is attempted only with data pending, offering all of it *)
      let pre := negb (c_err c) && negb (isnil (a_pending a)) && (req =? zlen (a_pending a)) in
      match r with
      | OGot bs =>
          match strip bs (a_pending a) with
          | Some rest =>
              with_a c {| a_relay := a_relay a; a_dead := a_dead a; a_pending := rest;
                          a_consumed := a_consumed a; a_written := a_written a ++ bs; a_eof := a_eof a;
                          a_shut := a_shut a; a_full := false |}
                     (pre && negb (isnil bs))
          | None => with_a c a false       (* bytes written that are not the next pending bytes *)
          end
      | OAgain | OIntr => with_a c a pre
      | OErr | OZero => with_err c pre
      end
  | EShutdown =>
      with_a c {| a_relay := a_relay a; a_dead := a_dead a; a_pending := a_pending a;
                  a_consumed := a_consumed a; a_written := a_written a; a_eof := a_eof a;
                  a_shut := a_shut a + 1; a_full := a_full a |}
             (negb (c_err c) && a_relay a && a_eof a && isnil (a_pending a) && (a_shut a =? 0))
  | EBands pin pout =>
      {| c_a := a; c_ok := c_ok c && negb (c_err c); c_err := c_err c; c_bands := Some (pin, pout) |}
  end.

(* the bands a truthful pump requests in state a *)
Definition want_bands (m : mode) (a : mst) : bool * bool :=
  if negb (a_eof a) then (negb (mfull m a), negb (isnil (a_pending a)))
  else if isnil (a_pending a) then (false, false)
  else (false, true).

Definition bands_eqb (x : option (bool * bool)) (y : bool * bool) : bool :=
  match x with
  | Some (p, q) => Bool.eqb p (fst y) && Bool.eqb q (snd y)
  | None => false
  end.

Definition set_dead (a : mst) (d : bool) : mst :=
  {| a_relay := a_relay a; a_dead := d; a_pending := a_pending a; a_consumed := a_consumed a;
     a_written := a_written a; a_eof := a_eof a; a_shut := a_shut a; a_full := a_full a |}.

(* one iv_fd_pump_pump call *)
Definition mon_pump (m : mode) (a : mst) (rc : Z) (es : list eff) : mst * bool :=
  let c := fold_left (mon_eff m) es (acc0 a) in
  let a' := c_a c in
  let ok :=
    c_ok c &&
    (if c_err c then rc =? -1
     else (rc =? (if mfin a' then 0 else 1))
          && bands_eqb (c_bands c) (want_bands m a')
          && (a_eof a' || fst (want_bands m a') || snd (want_bands m a'))      (* never idle before EOF *)
          && implb (a_relay a' && mfin a') (a_shut a' =? 1)) in
  (set_dead a' (c_err c), ok).

Fixpoint n_alloc (es : list eff) : Z :=
  match es with [] => 0 | EAlloc :: r => 1 + n_alloc r | _ :: r => n_alloc r end.
Fixpoint n_free (es : list eff) : Z :=
  match es with [] => 0 | EFree :: r => 1 + n_free r | _ :: r => n_free r end.
Fixpoint last_bands (es : list eff) (d : option (bool * bool)) : option (bool * bool) :=
  match es with [] => d | EBands p q :: r => last_bands r (Some (p, q)) | _ :: r => last_bands r d end.
Definition mem_or_bands (e : eff) : bool :=
  match e with EAlloc | EFree | EBands _ _ => true | _ => false end.

Record mons := { g_allocs : Z; g_frees : Z; g_pumps : list (option mst) }.
Definition mons0 (n : nat) : mons := {| g_allocs := 0; g_frees := 0; g_pumps := repeat None n |}.

(* number of pumps that must be holding a buffer: data pending and no error yet *)
Fixpoint held_m (l : list (option mst)) : Z :=
  match l with
  | [] => 0
  | Some a :: r => (if negb (a_dead a) && negb (isnil (a_pending a)) then 1 else 0) + held_m r
  | None :: r => held_m r
  end.

Definition balance_ok (g : mons) : bool :=
  let d := g_allocs g - g_frees g - held_m (g_pumps g) in
  (0 <=? d) && (d <=? MAX_CACHED_BUFS).

Definition mon_step (m : mode) (g : mons) (o : op) (ob : obs) : mons * bool :=
  let count es pumps :=
    {| g_allocs := g_allocs g + n_alloc es; g_frees := g_frees g + n_free es; g_pumps := pumps |} in
  match o with
  | Init k relay =>
      match nth_error (g_pumps g) k, ob with
      | Some None, Done rc es =>
          let g' := count es (upd k (Some (mst0 relay)) (g_pumps g)) in
          (g', (rc =? 0) && forallb mem_or_bands es && bands_eqb (last_bands es None) (true, false)
               && balance_ok g')
      | Some None, _ => (g, false)
      | _, Skip => (g, true)
      | _, _ => (g, false)
      end
  | Destroy k =>
      match nth_error (g_pumps g) k, ob with
      | Some (Some a), Done rc es =>
          let g' := count es (upd k None (g_pumps g)) in
          (g', (rc =? 0) && forallb mem_or_bands es
               && (if mfin a then isnil (filter (fun e => match e with EBands _ _ => true | _ => false end) es)
                   else bands_eqb (last_bands es None) (false, false))
               && balance_ok g')
      | Some (Some _), _ => (g, false)
      | _, Skip => (g, true)
      | _, _ => (g, false)
      end
  | Pump k _ =>
      match nth_error (g_pumps g) k, ob with
      | Some (Some a), Done rc es =>
          if a_dead a then (g, false)
          else
            let '(a', ok) := mon_pump m a rc es in
            let g' := count es (upd k (Some a') (g_pumps g)) in
            (g', ok && balance_ok g')
      | Some (Some a), Skip => (g, a_dead a)
      | Some (Some _), Bad _ => (g, false)
      | _, Skip => (g, true)
      | _, _ => (g, false)
      end
  | IsDone k =>
      match nth_error (g_pumps g) k, ob with
      | Some (Some a), Done rc es => (g, isnil es && (rc =? (if mfin a then 1 else 0)))
      | Some (Some _), _ => (g, false)
      | _, Skip => (g, true)
      | _, _ => (g, false)
      end
  end.

Fixpoint mon_run (m : mode) (g : mons) (tr : list (op * obs)) : mons * bool :=
  match tr with
  | [] => (g, true)
  | (o, ob) :: rest =>
      let '(g1, ok1) := mon_step m g o ob in
      let '(g2, ok2) := mon_run m g1 rest in
      (g2, ok1 && ok2)
  end.
