(* PumpModel.v -- executable model of /repo/src/iv_fd_pump.c (iv_fd_pump_init,
   iv_fd_pump_destroy, iv_fd_pump_pump, iv_fd_pump_is_done, buf_get / buf_put /
   the per-thread buffer cache, check_splice_available).  No proofs in this file.

   Environment.  Every system call the pump makes on its two descriptors is
   answered by an explicit oracle value that is an input of the call:
     - o_rd   : answers to the successive read(2) / splice-in attempts
                (the EINTR loop of iv_fd_pump_try_input consumes REintr
                answers; a script that runs out means "would block");
     - o_fion : what ioctl(FIONREAD) stores (None: the ioctl fails, so the
                C variable keeps its initial value 1);
     - o_wr   : answers to the successive write(2) / splice-out attempts;
     - o_alloc: whether malloc (buf_alloc) succeeds if it is needed.
   `RData bs` is what the source has to offer; the kernel clips it to the
   space offered (BUF_SIZE - bytes for read; min(1 MiB, free pipe space) for
   splice).  `WAccept n` is how much the sink takes: ret = min(max(n,1), bytes).

   Two modes (the process-global `splice_available`, decided by the probe in
   check_splice_available on the first iv_fd_pump_init):
     RW : read/write through a BUF_SIZE = 4096 byte malloc'ed buffer;
     SP : splice through a kernel pipe, modelled by its content (the list
          `buf`), capacity PIPE_CAP = 65536 bytes, request size 1 MiB.

   Every place where the C code would touch memory it does not own, read
   uninitialised buffer contents, block forever or abort is an explicit
   outcome (NullBuf, Garbage, Overflow, Hang, Fatal). *)

From Coq Require Import List ZArith Bool.
Import ListNotations.
Local Open Scope Z_scope.

Inductive mode := RW | SP.
Definition is_sp (m : mode) : bool := match m with SP => true | RW => false end.

Definition BUF_SIZE : Z := 4096.
Definition PIPE_CAP : Z := 65536.
Definition SPLICE_REQ : Z := 1048576.
Definition MAX_CACHED_BUFS : Z := 20.

Definition cap (m : mode) : Z := match m with RW => BUF_SIZE | SP => PIPE_CAP end.

Definition zlen {A} (l : list A) : Z := Z.of_nat (length l).

(* ---- oracle ---- *)
Inductive rd := RData (bs : list Z) | RWould | REof | RErr | REintr.
Inductive wr := WAccept (n : Z) | WWould | WErr | WEintr | WZero.
Record oracle := { o_alloc : bool; o_rd : list rd; o_fion : option Z; o_wr : list wr }.

(* ---- observable effects, in the order in which they happen ---- *)
Inductive inres := IGot (bs : list Z) | IEof | IAgain | IIntr | IErr.
Inductive outres := OGot (bs : list Z) | OAgain | OIntr | OErr | OZero.
Inductive eff :=
| EAlloc                          (* malloc of a buffer succeeded (buf_alloc) *)
| EAllocFail                      (* malloc returned NULL *)
| EFree                           (* __buf_free *)
| EIn (req : Z) (r : inres)       (* read / splice-in asked for req bytes *)
| EFion (v : Z)                   (* ioctl(FIONREAD); v = value of `bytes` afterwards *)
| EOut (req : Z) (r : outres)     (* write / splice-out asked for req bytes *)
| EShutdown                       (* shutdown(to_fd, SHUT_WR) *)
| EBands (pin pout : bool).       (* ip->set_bands(cookie, pin, pout) *)

Inductive outcome :=
| Ok
| NullBuf      (* iv_fd_pump_try_output with ip->buf == NULL *)
| Garbage      (* fresh buffer / pipe while ip->bytes != 0: stale count, uninitialised data *)
| Overflow     (* read with a negative count: BUF_SIZE - bytes < 0 *)
| Hang         (* blocking splice out of an empty pipe *)
| Fatal.       (* iv_fatal("iv_fd_pump_pump: saw_fin == %d") *)

(* ---- struct iv_fd_pump (library-owned fields) ---- *)
Record pump := {
  buf : list Z;        (* valid content of the buffer / content of the pipe *)
  bytes : Z;           (* ip->bytes *)
  full : bool;         (* ip->full *)
  saw_fin : Z;         (* ip->saw_fin *)
  have_buf : bool;     (* ip->buf != NULL *)
}.

Definition set_buf (p : pump) (b : list Z) (n : Z) : pump :=
  {| buf := b; bytes := n; full := full p; saw_fin := saw_fin p; have_buf := have_buf p |}.
Definition set_full (p : pump) (f : bool) : pump :=
  {| buf := buf p; bytes := bytes p; full := f; saw_fin := saw_fin p; have_buf := have_buf p |}.
Definition set_fin (p : pump) (s : Z) : pump :=
  {| buf := buf p; bytes := bytes p; full := full p; saw_fin := s; have_buf := have_buf p |}.
Definition set_have (p : pump) (h : bool) : pump :=
  {| buf := buf p; bytes := bytes p; full := full p; saw_fin := saw_fin p; have_buf := h |}.
(* ip->buf = NULL after buf_put: the data that was in the buffer / pipe is gone *)
Definition drop_buf (p : pump) : pump :=
  {| buf := []; bytes := bytes p; full := full p; saw_fin := saw_fin p; have_buf := false |}.

Record res := { r_oc : outcome; r_cache : Z; r_p : pump; r_ret : Z; r_eff : list eff }.
Definition mkres oc c p ret es := {| r_oc := oc; r_cache := c; r_p := p; r_ret := ret; r_eff := es |}.

(* ---- buffer cache (tinfo->num_bufs; the list is represented by its length) ---- *)

(* buf_put(buf, bytes) *)
Definition buf_put (m : mode) (cache : Z) (nbytes : Z) : Z * list eff :=
  if is_sp m && negb (nbytes =? 0) then (cache, [EFree])
  else if cache <? MAX_CACHED_BUFS then (cache + 1, [])
  else (cache, [EFree]).

(* buf_get(): __buf_dequeue, else buf_alloc *)
Definition buf_get (cache : Z) (alloc_ok : bool) : option (Z * list eff) :=
  if 0 <? cache then Some (cache - 1, [])
  else if alloc_ok then Some (cache, [EAlloc])
  else None.

(* ---- the input side ---- *)

(* what the C code asks for *)
Definition in_req (m : mode) (p : pump) : Z :=
  match m with RW => BUF_SIZE - bytes p | SP => SPLICE_REQ end.

(* what the kernel can deliver at most *)
Definition in_space (m : mode) (p : pump) : Z :=
  match m with RW => BUF_SIZE - bytes p | SP => Z.min SPLICE_REQ (PIPE_CAP - zlen (buf p)) end.

Definition resolve_in (m : mode) (space : Z) (a : rd) : inres :=
  match a with
  | RData bs =>
      match m with
      | SP => if space <=? 0 then IAgain                     (* pipe full: EAGAIN *)
              else match firstn (Z.to_nat space) bs with [] => IEof | got => IGot got end
      | RW => match firstn (Z.to_nat space) bs with [] => IEof (* read returned 0 *) | got => IGot got end
      end
  | RWould => IAgain
  | REof => IEof
  | RErr => IErr
  | REintr => IIntr
  end.

(* do { ret = read/splice } while (ret < 0 && errno == EINTR); *)
Fixpoint in_loop (m : mode) (req space : Z) (ans : list rd) : inres * list eff :=
  match ans with
  | [] => (IAgain, [EIn req IAgain])
  | REintr :: rest => let '(r, es) := in_loop m req space rest in (r, EIn req IIntr :: es)
  | a :: _ => let r := resolve_in m space a in (r, [EIn req r])
  end.

(* iv_fd_pump_try_input *)
Definition try_input (m : mode) (relay : bool) (cache : Z) (p : pump) (o : oracle) : res :=
  (* if (buf == NULL) { buf = buf_get(); if (buf == NULL) return -1; ip->buf = buf; } *)
  let got :=
    if have_buf p then Some (cache, p, [])
    else match buf_get cache (o_alloc o) with
         | None => None
         | Some (c, es) => Some (c, set_have p true, es)
         end in
  match got with
  | None => mkres Ok cache p (-1) [EAllocFail]
  | Some (c, p0, es0) =>
    if negb (have_buf p) && negb (bytes p =? 0) then mkres Garbage c p0 0 es0
    else if (match m with RW => BUF_SIZE - bytes p0 <? 0 | SP => false end) then mkres Overflow c p0 0 es0
    else
    let '(r, es1) := in_loop m (in_req m p0) (in_space m p0) (o_rd o) in
    match r with
    | IErr => mkres Ok c p0 (-1) (es0 ++ es1)
    | IAgain | IIntr =>
        (* if (splice_available && ip->bytes) { int bytes = 1; ioctl(FIONREAD, &bytes); if (bytes > 0) ip->full = 1; } *)
        if is_sp m && negb (bytes p0 =? 0) then
          let v := match o_fion o with Some v => v | None => 1 end in
          mkres Ok c (if 0 <? v then set_full p0 true else p0) 0 (es0 ++ es1 ++ [EFion v])
        else mkres Ok c p0 0 (es0 ++ es1)
    | IEof =>
        (* ip->saw_fin = 1; if (!ip->bytes) { if (RELAY_EOF) shutdown(); ip->saw_fin = 2; } *)
        if bytes p0 =? 0 then
          mkres Ok c (set_fin p0 2) 0 (es0 ++ es1 ++ (if relay then [EShutdown] else []))
        else mkres Ok c (set_fin p0 1) 0 (es0 ++ es1)
    | IGot bs =>
        (* ip->bytes += ret; if (!splice_available && ip->bytes == BUF_SIZE) ip->full = 1; *)
        let p1 := set_buf p0 (buf p0 ++ bs) (bytes p0 + zlen bs) in
        let p2 := if negb (is_sp m) && (bytes p1 =? BUF_SIZE) then set_full p1 true else p1 in
        mkres Ok c p2 0 (es0 ++ es1)
    end
  end.

(* ---- the output side ---- *)

Definition resolve_out (m : mode) (p : pump) (a : wr) : outres :=
  match a with
  | WAccept n =>
      let ret := Z.min (Z.max n 1) (bytes p) in
      let ret := match m with RW => ret | SP => Z.min ret (zlen (buf p)) end in
      OGot (firstn (Z.to_nat ret) (buf p))
  | WWould => OAgain
  | WErr => OErr
  | WEintr => OIntr
  | WZero => OZero
  end.

Fixpoint out_loop (m : mode) (p : pump) (ans : list wr) : outres * list eff :=
  match ans with
  | [] => (OAgain, [EOut (bytes p) OAgain])
  | WEintr :: rest => let '(r, es) := out_loop m p rest in (r, EOut (bytes p) OIntr :: es)
  | a :: _ => let r := resolve_out m p a in (r, [EOut (bytes p) r])
  end.

(* iv_fd_pump_try_output *)
Definition try_output (m : mode) (relay : bool) (cache : Z) (p : pump) (o : oracle) : res :=
  if negb (have_buf p) then mkres NullBuf cache p 0 []
  else if is_sp m && (zlen (buf p) =? 0) then mkres Hang cache p 0 []
  else
  let '(r, es) := out_loop m p (o_wr o) in
  match r with
  | OAgain | OIntr => mkres Ok cache p 0 es
  | OErr | OZero => mkres Ok cache p (-1) es
  | OGot bs =>
      (* ip->full = 0; ip->bytes -= ret; memmove(buf, buf + ret, ip->bytes); *)
      let ret := zlen bs in
      let p1 := set_buf (set_full p false) (skipn (length bs) (buf p)) (bytes p - ret) in
      (* if (!ip->bytes && ip->saw_fin == 1) { if (RELAY_EOF) shutdown(); ip->saw_fin = 2; } *)
      if (bytes p1 =? 0) && (saw_fin p1 =? 1) then
        mkres Ok cache (set_fin p1 2) 0 (es ++ (if relay then [EShutdown] else []))
      else mkres Ok cache p1 0 es
  end.

(* __iv_fd_pump_pump *)
Definition pump_inner (m : mode) (relay : bool) (cache : Z) (p : pump) (o : oracle) : res :=
  let r1 := if negb (full p) && (saw_fin p =? 0) then try_input m relay cache p o
            else mkres Ok cache p 0 [] in
  match r_oc r1 with
  | Ok =>
    if negb (r_ret r1 =? 0) then mkres Ok (r_cache r1) (r_p r1) (-1) (r_eff r1)
    else
    let p1 := r_p r1 in
    let r2 := if negb (bytes p1 =? 0) then try_output m relay (r_cache r1) p1 o
              else mkres Ok (r_cache r1) p1 0 [] in
    match r_oc r2 with
    | Ok =>
      if negb (r_ret r2 =? 0) then mkres Ok (r_cache r2) (r_p r2) (-1) (r_eff r1 ++ r_eff r2)
      else
      let p2 := r_p r2 in
      let es := r_eff r1 ++ r_eff r2 in
      if saw_fin p2 =? 0 then
        mkres Ok (r_cache r2) p2 1 (es ++ [EBands (negb (full p2)) (negb (bytes p2 =? 0))])
      else if saw_fin p2 =? 1 then
        mkres Ok (r_cache r2) p2 1 (es ++ [EBands false true])
      else if saw_fin p2 =? 2 then
        mkres Ok (r_cache r2) p2 0 (es ++ [EBands false false])
      else mkres Fatal (r_cache r2) p2 0 es
    | oc => mkres oc (r_cache r2) (r_p r2) 0 (r_eff r1 ++ r_eff r2)
    end
  | _ => r1
  end.

(* iv_fd_pump_pump *)
Definition pump_call (m : mode) (relay : bool) (cache : Z) (p : pump) (o : oracle) : res :=
  let r := pump_inner m relay cache p o in
  match r_oc r with
  | Ok =>
    let p1 := r_p r in
    if ((r_ret r <? 0) || (bytes p1 =? 0)) && have_buf p1 then
      let '(c, es) := buf_put m (r_cache r) (bytes p1) in
      mkres Ok c (drop_buf p1) (r_ret r) (r_eff r ++ es)
    else r
  | _ => r
  end.

(* iv_fd_pump_init (without the probe) *)
Definition pump_init : pump :=
  {| buf := []; bytes := 0; full := false; saw_fin := 0; have_buf := false |}.

(* iv_fd_pump_destroy *)
Definition pump_destroy (m : mode) (cache : Z) (p : pump) : Z * pump * list eff :=
  let es0 := if negb (saw_fin p =? 2) then [EBands false false] else [] in
  if have_buf p then
    let '(c, es) := buf_put m cache (bytes p) in (c, drop_buf p, es0 ++ es)
  else (cache, p, es0).

(* iv_fd_pump_is_done *)
Definition pump_is_done (p : pump) : Z := if saw_fin p =? 2 then 1 else 0.

(* check_splice_available: two buffers (each with a pipe) are allocated with
   splice_available = 1; when the probe splice fails with EAGAIN they are put
   into the cache (buf_put(b1, 0); buf_put(b0, 0)), otherwise freed.  The
   answer of the probe IS the mode. *)
Definition probe (m : mode) (cache : Z) : Z * list eff :=
  match m with
  | SP => let '(c1, e1) := buf_put SP cache 0 in
          let '(c2, e2) := buf_put SP c1 0 in
          (c2, [EAlloc; EAlloc] ++ e1 ++ e2)
  | RW => (cache, [EAlloc; EAlloc; EFree; EFree])
  end.

(* ---- a thread with several pumps sharing the buffer cache ---- *)

Record slot := { s_p : pump; s_relay : bool; s_dead : bool }.
(* s_dead: a pump call on this object returned -1; the only thing a caller may
   still do with it is destroy it (a further pump call is API misuse that the
   drivers skip; what the code would do is shown by pump_call on that state). *)

Record world := { w_mode : mode; w_probed : bool; w_cache : Z; w_slots : list (option slot) }.

Definition world0 (m : mode) (n : nat) : world :=
  {| w_mode := m; w_probed := false; w_cache := 0; w_slots := repeat None n |}.

Inductive op :=
| Init (k : nat) (relay : bool)
| Destroy (k : nat)
| Pump (k : nat) (o : oracle)
| IsDone (k : nat).

Inductive obs := Skip | Done (rc : Z) (es : list eff) | Bad (oc : outcome).

Fixpoint upd {A} (k : nat) (x : A) (l : list A) : list A :=
  match l, k with
  | [], _ => []
  | _ :: l', O => x :: l'
  | y :: l', S k' => y :: upd k' x l'
  end.

Definition set_world (w : world) (pr : bool) (c : Z) (sl : list (option slot)) : world :=
  {| w_mode := w_mode w; w_probed := pr; w_cache := c; w_slots := sl |}.

Definition wstep (w : world) (o : op) : world * obs :=
  let m := w_mode w in
  match o with
  | Init k relay =>
      match nth_error (w_slots w) k with
      | Some None =>
          let '(c, es) := if w_probed w then (w_cache w, []) else probe m (w_cache w) in
          (set_world w true c (upd k (Some {| s_p := pump_init; s_relay := relay; s_dead := false |}) (w_slots w)),
           Done 0 (es ++ [EBands true false]))
      | _ => (w, Skip)
      end
  | Destroy k =>
      match nth_error (w_slots w) k with
      | Some (Some s) =>
          let '(c, _, es) := pump_destroy m (w_cache w) (s_p s) in
          (set_world w (w_probed w) c (upd k None (w_slots w)), Done 0 es)
      | _ => (w, Skip)
      end
  | Pump k orc =>
      match nth_error (w_slots w) k with
      | Some (Some s) =>
          if s_dead s then (w, Skip)
          else
            let r := pump_call m (s_relay s) (w_cache w) (s_p s) orc in
            match r_oc r with
            | Ok =>
              (set_world w (w_probed w) (r_cache r)
                 (upd k (Some {| s_p := r_p r; s_relay := s_relay s; s_dead := r_ret r <? 0 |}) (w_slots w)),
               Done (r_ret r) (r_eff r))
            | oc => (w, Bad oc)
            end
      | _ => (w, Skip)
      end
  | IsDone k =>
      match nth_error (w_slots w) k with
      | Some (Some s) => (w, Done (pump_is_done (s_p s)) [])
      | _ => (w, Skip)
      end
  end.

Fixpoint run (w : world) (ops : list op) : world * list (op * obs) :=
  match ops with
  | [] => (w, [])
  | o :: rest =>
      let '(w1, ob) := wstep w o in
      let '(w2, tr) := run w1 rest in
      (w2, (o, ob) :: tr)
  end.
