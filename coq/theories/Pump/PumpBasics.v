(* PumpBasics.v -- list / arithmetic facts and the behaviour of the monitor's
   effect fold on the effect lists the model produces (retry loops, memory
   effects).  Helper file of PumpProofs.v. *)

From Coq Require Import List ZArith Bool Lia.
From Ivv Require Import Pump.PumpModel Pump.PumpMonitor.
Import ListNotations.
Local Open Scope Z_scope.

(* ---- zlen, firstn, skipn, strip ---- *)

Lemma zlen_nil {A} : zlen (@nil A) = 0.
Proof. reflexivity. Qed.

Lemma zlen_nonneg {A} (l : list A) : 0 <= zlen l.
Proof. unfold zlen. lia. Qed.

Lemma zlen_app {A} (l1 l2 : list A) : zlen (l1 ++ l2) = zlen l1 + zlen l2.
Proof. unfold zlen. rewrite app_length. lia. Qed.

Lemma zlen_zero_nil {A} (l : list A) : zlen l = 0 -> l = [].
Proof. destruct l; [reflexivity|]. unfold zlen. cbn [length]. lia. Qed.

Lemma zlen_pos_cons {A} (l : list A) : l <> [] -> 0 < zlen l.
Proof. destruct l; [congruence|]. unfold zlen. cbn [length]. lia. Qed.

Lemma isnil_zlen {A} (l : list A) : isnil l = (zlen l =? 0).
Proof. destruct l; [reflexivity|]. unfold zlen. cbn [length isnil]. symmetry. apply Z.eqb_neq. lia. Qed.

Lemma isnil_true {A} (l : list A) : isnil l = true <-> l = [].
Proof. destruct l; cbn; split; congruence. Qed.

Lemma isnil_false {A} (l : list A) : isnil l = false <-> l <> [].
Proof. destruct l; cbn; split; congruence. Qed.

Lemma firstn_zlen_le {A} (z : Z) (l : list A) : zlen (firstn (Z.to_nat z) l) <= Z.max 0 z.
Proof. unfold zlen. pose proof (firstn_le_length (Z.to_nat z) l). lia. Qed.

Lemma firstn_zlen {A} (z : Z) (l : list A) : 0 <= z <= zlen l -> zlen (firstn (Z.to_nat z) l) = z.
Proof. unfold zlen. intros H. rewrite firstn_length. lia. Qed.

Lemma skipn_zlen {A} (k : nat) (l : list A) : zlen (skipn k l) = zlen l - Z.min (Z.of_nat k) (zlen l).
Proof. unfold zlen. rewrite skipn_length. lia. Qed.

Lemma strip_firstn (k : nat) (l : list Z) : strip (firstn k l) l = Some (skipn k l).
Proof.
  revert l. induction k as [|k IH]; intros l.
  - destruct l; reflexivity.
  - destruct l as [|x l]; [reflexivity|].
    cbn [firstn skipn strip]. rewrite Z.eqb_refl. apply IH.
Qed.

Lemma firstn_nonnil {A} (k : nat) (l : list A) : (0 < k)%nat -> l <> [] -> firstn k l <> [].
Proof. destruct k; [lia|]. destruct l; [congruence|]. cbn. congruence. Qed.

(* ---- the monitor's fold ---- *)

Lemma fold_app (m : mode) (es1 es2 : list eff) (c : acc) :
  fold_left (mon_eff m) (es1 ++ es2) c = fold_left (mon_eff m) es2 (fold_left (mon_eff m) es1 c).
Proof. apply fold_left_app. Qed.

Lemma with_a_id (c : acc) : c_ok c = true -> with_a c (c_a c) true = c.
Proof. intros H. destruct c. unfold with_a. cbn in *. subst. reflexivity. Qed.

(* buffer management effects do not touch the specification state *)
Definition mem_only (es : list eff) : Prop := Forall (fun e => e = EAlloc \/ e = EFree) es.

Lemma fold_mem_only (m : mode) (es : list eff) (c : acc) : mem_only es -> fold_left (mon_eff m) es c = c.
Proof.
  induction 1 as [|e es [He|He] _ IH]; [reflexivity| |]; subst; cbn [fold_left mon_eff]; exact IH.
Qed.

(* error flag, last bands, shutdown count as functions of the effect list *)
Definition is_err (e : eff) : bool :=
  match e with EAllocFail | EIn _ IErr | EOut _ OErr | EOut _ OZero => true | _ => false end.
Definition has_error (es : list eff) : bool := existsb is_err es.

Fixpoint n_shut (es : list eff) : Z :=
  match es with [] => 0 | EShutdown :: r => 1 + n_shut r | _ :: r => n_shut r end.

Lemma mon_eff_err (m : mode) (c : acc) (e : eff) : c_err (mon_eff m c e) = c_err c || is_err e.
Proof.
  destruct e as [ | | |req r|v|req r| |p q]; cbn [mon_eff is_err]; try (rewrite orb_false_r; reflexivity);
    try (cbn; rewrite orb_true_r; reflexivity).
  - destruct r; cbn; rewrite ?orb_false_r, ?orb_true_r; reflexivity.
  - destruct r; cbn; rewrite ?orb_false_r, ?orb_true_r; try reflexivity.
    destruct (strip bs (a_pending (c_a c))); cbn; rewrite ?orb_false_r; reflexivity.
Qed.

Lemma fold_err (m : mode) (es : list eff) (c : acc) :
  c_err (fold_left (mon_eff m) es c) = c_err c || has_error es.
Proof.
  revert c. induction es as [|e es IH]; intros c; cbn [fold_left has_error existsb].
  - rewrite orb_false_r. reflexivity.
  - rewrite IH, mon_eff_err. unfold has_error. rewrite orb_assoc. reflexivity.
Qed.

Lemma mon_eff_bands (m : mode) (c : acc) (e : eff) :
  c_bands (mon_eff m c e) = match e with EBands p q => Some (p, q) | _ => c_bands c end.
Proof.
  destruct e as [ | | |req r|v|req r| |p q]; cbn [mon_eff]; try reflexivity.
  - destruct r; reflexivity.
  - destruct r; try reflexivity. destruct (strip bs (a_pending (c_a c))); reflexivity.
Qed.

Lemma fold_bands (m : mode) (es : list eff) (c : acc) :
  c_bands (fold_left (mon_eff m) es c) = last_bands es (c_bands c).
Proof.
  revert c. induction es as [|e es IH]; intros c; cbn [fold_left last_bands]; [reflexivity|].
  rewrite IH, mon_eff_bands. destruct e; reflexivity.
Qed.

Lemma mon_eff_shut (m : mode) (c : acc) (e : eff) :
  a_shut (c_a (mon_eff m c e)) = a_shut (c_a c) + match e with EShutdown => 1 | _ => 0 end.
Proof.
  destruct e as [ | | |req r|v|req r| |p q]; cbn [mon_eff]; try (cbn; lia).
  - destruct r; cbn; lia.
  - destruct r; cbn; try lia. destruct (strip bs (a_pending (c_a c))); cbn; lia.
Qed.

Lemma fold_shut (m : mode) (es : list eff) (c : acc) :
  a_shut (c_a (fold_left (mon_eff m) es c)) = a_shut (c_a c) + n_shut es.
Proof.
  revert c. induction es as [|e es IH]; intros c; cbn [fold_left n_shut]; [lia|].
  rewrite IH, mon_eff_shut. destruct e; lia.
Qed.

Lemma last_bands_app (es1 es2 : list eff) (d : option (bool * bool)) :
  last_bands (es1 ++ es2) d = last_bands es2 (last_bands es1 d).
Proof.
  revert d. induction es1 as [|e es1 IH]; intros d; [reflexivity|].
  destruct e; cbn [app last_bands]; apply IH.
Qed.

Lemma n_alloc_app (es1 es2 : list eff) : n_alloc (es1 ++ es2) = n_alloc es1 + n_alloc es2.
Proof. induction es1 as [|e es1 IH]; [reflexivity|]. destruct e; cbn [app n_alloc]; lia. Qed.

Lemma n_free_app (es1 es2 : list eff) : n_free (es1 ++ es2) = n_free es1 + n_free es2.
Proof. induction es1 as [|e es1 IH]; [reflexivity|]. destruct e; cbn [app n_free]; lia. Qed.

Lemma n_shut_app (es1 es2 : list eff) : n_shut (es1 ++ es2) = n_shut es1 + n_shut es2.
Proof. induction es1 as [|e es1 IH]; [reflexivity|]. destruct e; cbn [app n_shut]; lia. Qed.

Lemma has_error_app (es1 es2 : list eff) : has_error (es1 ++ es2) = has_error es1 || has_error es2.
Proof. apply existsb_app. Qed.

(* ---- retry loops ---- *)

(* the effects of the input loop: EINTR attempts, then the final one *)
Lemma in_loop_shape (m : mode) (req space : Z) (ans : list rd) :
  exists j, snd (in_loop m req space ans) =
            repeat (EIn req IIntr) j ++ [EIn req (fst (in_loop m req space ans))].
Proof.
  induction ans as [|a ans [j IH]].
  - exists O. reflexivity.
  - destruct a; try (exists O; reflexivity).
    exists (S j). cbn [in_loop]. destruct (in_loop m req space ans) as [r es]. cbn [fst snd] in *.
    rewrite IH. reflexivity.
Qed.

Lemma in_loop_final (m : mode) (req space : Z) (ans : list rd) :
  fst (in_loop m req space ans) = IAgain \/
  exists a, a <> REintr /\ fst (in_loop m req space ans) = resolve_in m space a.
Proof.
  induction ans as [|a ans IH].
  - left. reflexivity.
  - destruct a; try (right; eexists; split; [|reflexivity]; congruence).
    cbn [in_loop]. destruct (in_loop m req space ans) as [r es]. exact IH.
Qed.

Lemma resolve_in_got (m : mode) (space : Z) (a : rd) (bs : list Z) :
  resolve_in m space a = IGot bs -> bs <> [] /\ zlen bs <= space.
Proof.
  destruct a as [l| | | |]; cbn [resolve_in]; try discriminate.
  pose proof (firstn_zlen_le space l) as Hle.
  destruct m.
  - destruct (firstn (Z.to_nat space) l) as [|x got]; [discriminate|].
    intros H. injection H as H. subst bs.
    assert (Hn : x :: got <> []) by congruence. split; [exact Hn|].
    pose proof (zlen_pos_cons _ Hn). lia.
  - destruct (space <=? 0); [discriminate|].
    destruct (firstn (Z.to_nat space) l) as [|x got]; [discriminate|].
    intros H. injection H as H. subst bs.
    assert (Hn : x :: got <> []) by congruence. split; [exact Hn|].
    pose proof (zlen_pos_cons _ Hn). lia.
Qed.

Lemma resolve_in_not_intr (m : mode) (space : Z) (a : rd) : a <> REintr -> resolve_in m space a <> IIntr.
Proof.
  destruct a as [l| | | |]; cbn [resolve_in]; try congruence.
  intros _. destruct m; [|destruct (space <=? 0); [congruence|]];
    destruct (firstn (Z.to_nat space) l); congruence.
Qed.

Lemma in_loop_got (m : mode) (req space : Z) (ans : list rd) (bs : list Z) :
  fst (in_loop m req space ans) = IGot bs -> bs <> [] /\ zlen bs <= space.
Proof.
  destruct (in_loop_final m req space ans) as [H|[a [_ H]]]; rewrite H; [discriminate|].
  apply resolve_in_got.
Qed.

Lemma in_loop_not_intr (m : mode) (req space : Z) (ans : list rd) :
  fst (in_loop m req space ans) <> IIntr.
Proof.
  destruct (in_loop_final m req space ans) as [H|[a [Ha H]]]; rewrite H; [discriminate|].
  apply resolve_in_not_intr, Ha.
Qed.

Lemma out_loop_shape (m : mode) (p : pump) (ans : list wr) :
  exists j, snd (out_loop m p ans) =
            repeat (EOut (bytes p) OIntr) j ++ [EOut (bytes p) (fst (out_loop m p ans))].
Proof.
  induction ans as [|a ans [j IH]].
  - exists O. reflexivity.
  - destruct a; try (exists O; reflexivity).
    exists (S j). cbn [out_loop]. destruct (out_loop m p ans) as [r es]. cbn [fst snd] in *.
    rewrite IH. reflexivity.
Qed.

Lemma out_loop_final (m : mode) (p : pump) (ans : list wr) :
  fst (out_loop m p ans) = OAgain \/
  exists a, a <> WEintr /\ fst (out_loop m p ans) = resolve_out m p a.
Proof.
  induction ans as [|a ans IH].
  - left. reflexivity.
  - destruct a; try (right; eexists; split; [|reflexivity]; congruence).
    cbn [out_loop]. destruct (out_loop m p ans) as [r es]. exact IH.
Qed.

Lemma out_loop_not_intr (m : mode) (p : pump) (ans : list wr) : fst (out_loop m p ans) <> OIntr.
Proof.
  destruct (out_loop_final m p ans) as [H|[a [Ha H]]]; rewrite H; [discriminate|].
  destruct a; cbn; congruence.
Qed.

(* what the sink took: a non-empty prefix of the buffer *)
Lemma out_loop_got (m : mode) (p : pump) (ans : list wr) (bs : list Z) :
  bytes p = zlen (buf p) -> 0 < bytes p ->
  fst (out_loop m p ans) = OGot bs ->
  exists k, (0 < k <= length (buf p))%nat /\ bs = firstn k (buf p).
Proof.
  intros Hb Hpos.
  destruct (out_loop_final m p ans) as [H|[a [_ H]]]; rewrite H; [discriminate|].
  destruct a; cbn [resolve_out]; try discriminate.
  intros E. injection E as E.
  set (ret := match m with RW => Z.min (Z.max n 1) (bytes p)
                         | SP => Z.min (Z.min (Z.max n 1) (bytes p)) (zlen (buf p)) end) in *.
  assert (1 <= ret <= zlen (buf p)) by (subst ret; destruct m; lia).
  exists (Z.to_nat ret). split; [unfold zlen in *; lia|]. symmetry. exact E.
Qed.

(* EINTR attempts are invisible to the specification state *)
Lemma fold_in_intrs (m : mode) (c : acc) (req : Z) (j : nat) :
  c_ok c = true -> c_err c = false -> a_eof (c_a c) = false -> mfull m (c_a c) = false ->
  req = min_req m (c_a c) ->
  fold_left (mon_eff m) (repeat (EIn req IIntr) j) c = c.
Proof.
  intros Hok Herr Heof Hfull Hreq. induction j as [|j IH]; [reflexivity|].
  cbn [repeat fold_left mon_eff]. rewrite Herr, Heof, Hfull, Hreq, Z.eqb_refl. cbn [negb andb].
  rewrite with_a_id by exact Hok. rewrite <- Hreq. exact IH.
Qed.

Lemma fold_in_loop (m : mode) (c : acc) (req space : Z) (ans : list rd) :
  c_ok c = true -> c_err c = false -> a_eof (c_a c) = false -> mfull m (c_a c) = false ->
  req = min_req m (c_a c) ->
  fold_left (mon_eff m) (snd (in_loop m req space ans)) c =
  mon_eff m c (EIn req (fst (in_loop m req space ans))).
Proof.
  intros. destruct (in_loop_shape m req space ans) as [j E]. rewrite E, fold_app.
  rewrite fold_in_intrs by assumption. reflexivity.
Qed.

Lemma fold_out_intrs (m : mode) (c : acc) (req : Z) (j : nat) :
  c_ok c = true -> c_err c = false -> a_pending (c_a c) <> [] -> req = zlen (a_pending (c_a c)) ->
  fold_left (mon_eff m) (repeat (EOut req OIntr) j) c = c.
Proof.
  intros Hok Herr Hne Hreq. induction j as [|j IH]; [reflexivity|].
  cbn [repeat fold_left mon_eff]. apply isnil_false in Hne. rewrite Herr, Hne, Hreq, Z.eqb_refl. cbn [negb andb].
  rewrite with_a_id by exact Hok. rewrite <- Hreq. exact IH.
Qed.

Lemma fold_out_loop (m : mode) (c : acc) (p : pump) (ans : list wr) :
  c_ok c = true -> c_err c = false -> a_pending (c_a c) <> [] -> bytes p = zlen (a_pending (c_a c)) ->
  fold_left (mon_eff m) (snd (out_loop m p ans)) c =
  mon_eff m c (EOut (bytes p) (fst (out_loop m p ans))).
Proof.
  intros. destruct (out_loop_shape m p ans) as [j E]. rewrite E, fold_app.
  rewrite fold_out_intrs by assumption. reflexivity.
Qed.

(* memory effects of the loops *)
Lemma n_alloc_repeat_in req r j : n_alloc (repeat (EIn req r) j) = 0.
Proof. induction j; cbn; auto. Qed.
Lemma n_free_repeat_in req r j : n_free (repeat (EIn req r) j) = 0.
Proof. induction j; cbn; auto. Qed.
Lemma n_alloc_repeat_out req r j : n_alloc (repeat (EOut req r) j) = 0.
Proof. induction j; cbn; auto. Qed.
Lemma n_free_repeat_out req r j : n_free (repeat (EOut req r) j) = 0.
Proof. induction j; cbn; auto. Qed.

Lemma in_loop_mem (m : mode) (req space : Z) (ans : list rd) :
  n_alloc (snd (in_loop m req space ans)) = 0 /\ n_free (snd (in_loop m req space ans)) = 0.
Proof.
  destruct (in_loop_shape m req space ans) as [j E]. rewrite E, n_alloc_app, n_free_app.
  rewrite n_alloc_repeat_in, n_free_repeat_in. split; reflexivity.
Qed.

Lemma out_loop_mem (m : mode) (p : pump) (ans : list wr) :
  n_alloc (snd (out_loop m p ans)) = 0 /\ n_free (snd (out_loop m p ans)) = 0.
Proof.
  destruct (out_loop_shape m p ans) as [j E]. rewrite E, n_alloc_app, n_free_app.
  rewrite n_alloc_repeat_out, n_free_repeat_out. split; reflexivity.
Qed.
