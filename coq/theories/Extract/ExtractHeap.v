(* Extraction of the timer-heap model for the C05 correspondence check. *)
From Coq Require Import ExtrOcamlBasic.
From Ivv Require Import Timer.HeapModel.
Extraction "heap_model.ml" HeapModel.init HeapModel.step HeapModel.dump_slots HeapModel.dump_indices
  HeapModel.heap_ok HeapModel.tidx HeapModel.texp HeapModel.sget.
