(* Extraction of the AVL model for the C16 correspondence check.
   ExtrOcamlBasic only: bool/option/list/prod/unit/sumbool map to OCaml's;
   Z, positive, nat stay the extracted inductives. *)
From Coq Require Import ExtrOcamlBasic.
From Ivv Require Import Avl.AvlModel Avl.AvlMonitor.
Extraction "avl_model.ml" AvlModel.step AvlModel.forward AvlModel.backward
  AvlModel.mk AvlModel.inv_b AvlModel.inorder AvlMonitor.dumpn AvlMonitor.mon_step.
