(* Extraction of the iv_event cross-thread acceptor model and monitor (C08).
   Z.of_nat is extracted only because ocaml/zutil.ml.in (prepended to every driver) refers to the
   types positive and z. *)
From Coq Require Import ExtrOcamlBasic ZArith.
From Ivv Require Import MT.EventMT.
Extraction "eventmt_model.ml" EventMT.init EventMT.step EventMT.exec EventMT.accepts
  EventMT.mon_init EventMT.mon_step EventMT.monitor EventMT.get BinInt.Z.of_nat.
