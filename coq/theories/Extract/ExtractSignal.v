(* Extraction of the iv_signal transition system and monitor for the C10 check. *)
From Coq Require Import ExtrOcamlBasic.
From Ivv Require Import MT.SignalModel.
Extraction "signal_model.ml" SignalModel.init SignalModel.step_gen SignalModel.reject_pos SignalModel.accepts
  SignalModel.monitor SignalModel.mon_pos SignalModel.minit.
