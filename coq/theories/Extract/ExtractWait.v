(* Extraction of the iv_wait transition system and monitor for the C11 check. *)
From Coq Require Import ExtrOcamlBasic.
From Ivv Require Import MT.WaitModel.
Extraction "wait_model.ml" WaitModel.init WaitModel.step WaitModel.reject_pos WaitModel.accepts
  WaitModel.monitor WaitModel.mon_pos WaitModel.minit WaitModel.reap_one.
