(* Extraction of the pointer-level AVL model (Avl/AvlPtrModel.v) for the pointer-level stage of the C16
   correspondence check.  ExtrOcamlBasic only: bool/option/list/prod/unit/sumbool map to OCaml's;
   Z, positive, nat stay the extracted inductives; the store is the extracted FMapPositive trie. *)
From Coq Require Import ExtrOcamlBasic.
From Ivv Require Import Avl.AvlPtrModel.
Extraction "avl_ptr_model.ml" AvlPtrModel.pstep AvlPtrModel.forward_ptr AvlPtrModel.backward_ptr
  AvlPtrModel.empty_machine
  Coq.FSets.FMapPositive.PositiveMap.find Coq.FSets.FMapPositive.PositiveMap.add
  Coq.FSets.FMapPositive.PositiveMap.empty.
