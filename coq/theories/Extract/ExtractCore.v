(* Extraction of the core-loop model (and its monitors) for the correspondence checks. *)
From Coq Require Import ExtrOcamlBasic.
From Ivv Require Import Core.Kernel Core.CoreTypes Core.CoreModel Core.Monitors Core.GuardMon Core.FairMon.
Extraction "core_model.ml" CoreModel.run_scenario Kernel.no_faults Monitors.mon_fails GuardMon.gmon_fails FairMon.fair_fails.
