(* Extraction of the iv_work / iv_thread transition system and its monitors (C12, C13). *)
From Coq Require Import ExtrOcamlBasic.
From Ivv Require Import MT.WorkMT MT.WorkMTMon.
Extraction "workmt_model.ml" WorkMT.init WorkMT.step WorkMTMon.mon12 WorkMTMon.mon13.
