(* Extraction of the iv_tls.c and iv_list.h models for the TLS / LIST correspondence stages of C18. *)
From Coq Require Import ExtrOcamlBasic.
From Ivv Require Import Small.TlsModel Small.ListPtrModel.
Extraction "small_model.ml" TlsModel.tls_run_all TlsModel.tls_user_ptr TlsModel.tls_start TlsModel.tls_register_all
  ListPtrModel.step ListPtrModel.pool_start ListPtrModel.field.
