(* Extraction of the iv_inotify model and monitor for the C20 correspondence check. *)
From Coq Require Import ExtrOcamlBasic.
From Ivv Require Import Misc.InotifyModel Misc.InotifyMonitor.
Extraction "inotify_model.ml" InotifyModel.init InotifyModel.step InotifyModel.encode InotifyModel.dump
  InotifyModel.live InotifyMonitor.mon_feed InotifyMonitor.mon_act InotifyMonitor.dumps_ok.
