(* Extraction of the fd-pump model and monitor for the C17 correspondence check.
   ExtrOcamlBasic only. *)
From Coq Require Import ExtrOcamlBasic.
From Ivv Require Import Pump.PumpModel Pump.PumpMonitor.
Extraction "pump_model.ml" PumpModel.world0 PumpModel.wstep PumpModel.run
  PumpMonitor.mons0 PumpMonitor.mon_step PumpMonitor.mon_run PumpMonitor.mon_eff PumpMonitor.acc0
  PumpMonitor.mon_pump PumpMonitor.balance_ok.
