(* Extraction of the radix-tree timer store model for the second C05 correspondence stage. *)
From Coq Require Import ExtrOcamlBasic.
From Ivv Require Import Timer.HeapModel Timer.RadixModel.
Extraction "radix_model.ml" RadixModel.rinit RadixModel.rstep RadixModel.rdeinit RadixModel.rdump_slots
  RadixModel.rslot RadixModel.count_nodes RadixModel.live_count RadixModel.radix_mon RadixModel.radix_mon_deinit
  HeapModel.tidx HeapModel.texp.
