(* Extraction of the iv_popen acceptor/monitor and sequential model for the C19 check. *)
From Coq Require Import ExtrOcamlBasic.
From Ivv Require Import Misc.PopenModel.
Extraction "popen_model.ml" PopenModel.pcheck PopenModel.pcheck_pos PopenModel.pfinal PopenModel.prun
  PopenModel.submitted PopenModel.erun PopenModel.parent_script PopenModel.child_script.
