(* ConflictWork.v -- C14 for the iv_work model MT/WorkMT.v (one pool, owner thread `own`).

   Shared variables and their classes (iv_work.c):

     VPool      struct work_pool_priv: started_threads, idle_threads (and thr->list of the threads
                on it), seq_head, seq_tail, work_items, work_done (and work->list of the items on
                them).  ByLock (pool->lock).  Before iv_work_pool_create has returned the pool is
                reachable for its creator only: ByThread owner while the pool does not exist.
     VShut      pool->shutting_down.  Written only by the owner (iv_work_pool_put, inside the lock);
                read by the workers inside the lock -- and by the owner WITHOUT the lock at the end
                of iv_work_event (`if (pool->shutting_down)`, the model's otopb/HCompl test).  An
                unlocked read by the only writer conflicts with nothing: OwnerLock (pool->lock, owner).
     VKicked w  thr->kicked of pool thread w.  ByLock (pool->lock).  (C initialises it in the new
                thread before the thread has put itself on idle_threads, i.e. before anybody else
                can reach the struct; the model initialises it at LTCreate, lock held.)
     VOEv       the event list of the owner's loop (pool->ev, pool->thread_needed, the `dead` events
                of iv_thread): iv_event, under that loop's event_list_mutex -- proved for the
                iv_event model (ConflictEvent.v); here every LEvO label is one whole critical
                section of that mutex.  Extern.
     VWEv w     the same for worker w's loop (thr->kick).  Extern.
     VKickFd    the wake-up descriptors (kernel).  Extern.
     VLocalQ    tinfo->work_items and the batch of iv_work_handle_local (TLS of the owner).
                ByThread owner.

   Footprints (code between the label's log point and the next one of the thread).  The pool
   fields change only in LLock steps: the model computes the whole critical section there.

     LCreate t mx     malloc + initialisation of the pool                 -> write VPool, VShut
     LLock t          the critical section that follows the lock call: iv_work_submit_pool
                      (seq_tail++, list add, idle_threads.next->kicked = 1, started_threads++),
                      iv_work_pool_put (shutting_down = 1, walk of idle_threads),
                      iv_work_event (steal work_done; the started_threads / work_done test),
                      iv_work_thread_needed, iv_work_thread_got_event (thr->kicked = 0, idle list,
                      seq_head++, item lists, shutting_down test, __iv_work_thread_die),
                      iv_work_thread_idle_timeout (thr->kicked test)
                         -> write VPool, VKicked t, VKicked (first idle thread); VShut: write
                            by the owner, read by the others
     LUnlock t        the unlock call; when the owner found the shut-down pool empty:
                      ___mutex_destroy, free(pool)                  -> write VPool, owner: VShut
     LEvO t / LEvW t w  iv_event_post / iv_event_unregister / the pop by the loop's own thread
                         -> write VOEv resp. VWEv w, VKickFd; the owner's return to its loop top
                            re-reads shutting_down                             -> owner: read VShut
     LKickO / LKickW  epoll_ctl MOD on the kick descriptor                     -> write VKickFd
     LTCreate t n     iv_thread_create; for a pool thread (lock held) the new struct
                      work_pool_thread                              -> write VKicked n, VWEv n
     LLocal, LWork (owner), LCompl   iv_work_submit_local / iv_work_handle_local  -> write VLocalQ
     LCallback, LBlock, LWork, LMainEnd by the owner: the loop-top test        -> read VShut
     everything else  no shared variable (work functions, hooks, thread exit / join are
                      ordered by create / join edges and the `dead` event)

   With respect to pool->lock LLock is the acquisition, LUnlock the release, the rest Plain. *)
From Coq Require Import List ZArith Bool Arith Lia.
From Ivv Require Import MT.Conflict MT.WorkMT MT.WorkMTBase MT.WorkMTCs MT.WorkMTInvA.
Import ListNotations.

Inductive var := VPool | VShut | VKicked (w : nat) | VOEv | VWEv (w : nat) | VKickFd | VLocalQ.

Definition var_eqb (a b : var) : bool :=
  match a, b with
  | VPool, VPool | VShut, VShut | VOEv, VOEv | VKickFd, VKickFd | VLocalQ, VLocalQ => true
  | VKicked i, VKicked j | VWEv i, VWEv j => Nat.eqb i j
  | _, _ => false
  end.

Lemma var_eqb_spec : forall a b, var_eqb a b = true <-> a = b.
Proof.
  intros a b. destruct a, b; simpl; split; intro H; try reflexivity; try discriminate;
    try (apply Nat.eqb_eq in H; subst; reflexivity); inversion H; apply Nat.eqb_refl.
Qed.

Definition cls (s : state) (v : var) : class nat unit :=
  match v with
  | VPool => match pl s with PNone => ByThread (own s) | _ => ByLock tt end
  | VShut => match pl s with PNone => ByThread (own s) | _ => OwnerLock tt (own s) end
  | VKicked _ => ByLock tt
  | VOEv | VWEv _ | VKickFd => Extern
  | VLocalQ => ByThread (own s)
  end.

Definition holder (s : state) (_ : unit) : option nat := lock s.

Definition mode (l : label) (_ : unit) : lmode :=
  match l with LLock _ => Acq | LUnlock _ => Rel | _ => Plain end.

Definition actor (_ : state) (l : label) : option nat := lthr l.

Definition idle_head (s : state) : list (var * bool) :=
  match pl s with
  | PLive p => match pidle p with w :: _ => [(VKicked w, true)] | [] => [] end
  | _ => []
  end.

Definition fp (s : state) (l : label) : footprint var :=
  let o := own s in
  let rd_shut (t : nat) := if Nat.eqb t o then [(VShut, false)] else [] in
  match l with
  | LCreate _ _ => [(VPool, true); (VShut, true)]
  | LLock t => [(VPool, true); (VKicked t, true); (VShut, Nat.eqb t o)] ++ idle_head s
  | LUnlock t => (VPool, true) :: (if Nat.eqb t o then [(VShut, true)] else [])
  | LEvO t => [(VOEv, true); (VKickFd, true)] ++ rd_shut t
  | LEvW _ w => [(VWEv w, true); (VKickFd, true)]
  | LKickO _ | LKickW _ _ => [(VKickFd, true)]
  | LTCreate t n => if holds s t then [(VKicked n, true); (VWEv n, true)] else []
  | LLocal _ _ | LCompl _ _ => [(VLocalQ, true)]
  | LWork t _ => if Nat.eqb t o then [(VLocalQ, true); (VShut, false)] else []
  | LCallback t | LBlock t => rd_shut t
  | LMainEnd _ => [(VShut, false); (VLocalQ, false)]
  | _ => []
  end.

Definition pool_rest (x : pstate) : pstate :=
  match x with PLive p => PLive (p_set_shut false p) | _ => x end.
Definition shut_of (x : pstate) : option bool :=
  match x with PLive p => Some (pshut p) | _ => None end.

Definition unchanged (v : var) (s s' : state) : Prop :=
  match v with
  | VPool => pool_rest (pl s') = pool_rest (pl s)
  | VShut => shut_of (pl s') = shut_of (pl s)
  | VKicked w => wkicked (wk s' w) = wkicked (wk s w)
  | VOEv => opend s' = opend s /\ obatch s' = obatch s
  | VWEv w => wkpend (wk s' w) = wkpend (wk s w)
  | VKickFd => forall t, kdue s' t = kdue s t
  | VLocalQ => lq s' = lq s /\ lbatch s' = lbatch s
  end.

(* ---- invariants used: a held lock means the pool is live; only the owner frees the pool ---- *)
Definition FF (s : state) : Prop := In FFree (todo s) -> lock s = Some (own s).

Lemma die_effs_nofree : forall p w wr, ~ In FFree (die_effs p w wr).
Proof. intros p w wr. unfold die_effs. destruct (pshut p && (pstarted p - 1 =? 0)%Z); simpl; intuition discriminate. Qed.

Lemma loop_out_nofree : forall p w wr last p' pc e, loop_out p w wr last p' pc e -> ~ In FFree e.
Proof. intros. destruct H; try (simpl; intuition discriminate). apply die_effs_nofree. Qed.

Lemma idle_out_nofree : forall p w wr p' pc e, idle_out p w wr p' pc e -> ~ In FFree e.
Proof. intros. destruct H; try (simpl; intuition discriminate). apply die_effs_nofree. Qed.

Lemma submit_out_nofree : forall p b i p' kw e, submit_out p b i p' kw e -> ~ In FFree e.
Proof. intros. destruct H; simpl; intuition discriminate. Qed.

Lemma map_postw_nofree : forall l, ~ In FFree (map FPostW l).
Proof. intros l H. apply in_map_iff in H. destruct H as [x [E _]]. discriminate. Qed.

Lemma FF_step : forall s l s', FF s -> step s l = Some s' -> FF s'.
Proof.
  intros s l s' I H. pose proof (own_step _ _ _ H) as HO.
  step_inv H; hold_facts; cs_facts; unfold FF in *; rewrite ?HO; ssimp; ifs; ssimp; bools; subst; try assumption.
  all: try (intros X; destruct X; fail).
  all: try (intros X; reflexivity).
  all: try (intros X; apply I; simpl; tauto).
  all: try (intros X; apply I; match goal with E : todo _ = _ |- _ => rewrite E end; simpl; tauto).
  all: try (intros X; exfalso; eapply loop_out_nofree; eauto; fail).
  all: try (intros X; exfalso; eapply idle_out_nofree; eauto; fail).
  all: try (intros X; exfalso; eapply submit_out_nofree; eauto; fail).
  all: try (intros X; exfalso; eapply map_postw_nofree; eauto; fail).
  - intros X. rewrite E5 in X. destruct X.
  - intros X. exfalso. apply in_app_or in X. destruct X as [X|X].
    + destruct (nilb (pdone p)); simpl in X; intuition discriminate.
    + eapply loop_out_nofree; eauto.
Qed.

Lemma reach_inv : forall o tr s, run (init o) tr = Some s -> ALock s /\ FF s /\ own s = o.
Proof.
  intros o. apply (run_ind_inv (fun s => ALock s /\ FF s /\ own s = o)).
  - repeat split; [intros t X; discriminate X|intros X; destruct X].
  - intros s l s' (A & B & C) H. repeat split; [eapply ALock_step; eauto|eapply FF_step; eauto|].
    rewrite (own_step _ _ _ H). exact C.
Qed.

Ltac thr_eq :=
  repeat match goal with
  | E : lthr _ = Some _ |- _ => simpl in E; inversion E; clear E; subst
  | E : lthr _ = None |- _ => simpl in E; try discriminate E
  end.

(* the lock changes in the lock calls only; the lock call needs a live pool and the free lock *)
Lemma lock_step : forall s l s', step s l = Some s' ->
  match l with
  | LLock t => lock s = None /\ lock s' = Some t /\ (exists p, pl s = PLive p)
  | LUnlock t => lock s = Some t
  | _ => lock s' = lock s
  end.
Proof.
  intros s l s' H.
  step_inv H; hold_facts; thr_eq; ssimp; ifs; ssimp; try reflexivity; try assumption; eauto.
Qed.

(* application-level labels of the owner *)
Lemma owner_step : forall s l s', step s l = Some s' ->
  match l with
  | LCreate t _ => t = own s /\ pl s = PNone
  | LLocal t _ | LCallback t | LCompl t _ | LMainEnd t => t = own s
  | _ => True
  end.
Proof.
  intros s l s' H. destruct l; try exact I;
    step_inv H; hold_facts; thr_eq; unfold own_may_act, own_idle_ctx in *; bools; subst; auto.
Qed.

Ltac insplit Hin :=
  simpl in Hin;
  repeat match goal with H : _ \/ _ |- _ => destruct H | H : False |- _ => destruct H
                    | H : (_, _) = (_, _) |- _ => inversion H; clear H; subst end.

(* an unlocked read of shutting_down by the owner *)
Lemma shut_read : forall s l s', lthr l = Some (own s) ->
  match cls s VShut with
  | ByLock k => exists t, actor s l = Some t /\ held holder mode k t s l s'
  | ByThread t => actor s l = Some t
  | OwnerLock k o =>
      (exists t, actor s l = Some t /\ held holder mode k t s l s' /\ (false = true -> t = o)) \/
      (false = false /\ actor s l = Some o)
  | _ => True
  end.
Proof. intros s l s' A. cbn [cls]. destruct (pl s); [exact A|right; split; [reflexivity|exact A]..]. Qed.

Lemma step_disciplined : forall s l s', ALock s -> step s l = Some s' -> disciplined actor holder mode cls fp s l s'.
Proof.
  intros s l s' IA H v w Hin. pose proof (lock_step _ _ _ H) as L. pose proof (owner_step _ _ _ H) as O.
  destruct l; cbn [fp] in Hin;
    try match type of Hin with context [Nat.eqb ?a ?b] => destruct (Nat.eqb a b) eqn:Eo end;
    try match type of Hin with context [holds ?a ?b] => destruct (holds a b) eqn:Eh end;
    bools; hold_facts; try (insplit Hin; fail).
  - (* LCreate *)
    destruct O as [O1 O2]. insplit Hin; cbn [cls]; rewrite O2; unfold actor; simpl; congruence.
  - (* LLocal *) insplit Hin. cbn [cls]. unfold actor. simpl. congruence.
  - (* LCallback *) insplit Hin. apply shut_read. simpl. congruence.
  - (* LLock, owner *)
    destruct L as (L1 & L2 & p & L3). unfold idle_head in Hin. rewrite L3 in Hin.
    assert (HL : held holder mode tt t s (LLock t) s') by (unfold held, holder; simpl; auto).
    destruct (pidle p); insplit Hin; cbn [cls]; rewrite ?L3; try (eexists; (split; [reflexivity|exact HL]); fail);
      (left; eexists; split; [reflexivity|split; [exact HL|intros _; reflexivity]]).
  - (* LLock, other *)
    destruct L as (L1 & L2 & p & L3). unfold idle_head in Hin. rewrite L3 in Hin.
    assert (HL : held holder mode tt t s (LLock t) s') by (unfold held, holder; simpl; auto).
    destruct (pidle p); insplit Hin; cbn [cls]; rewrite ?L3; try (eexists; (split; [reflexivity|exact HL]); fail);
      (left; eexists; split; [reflexivity|split; [exact HL|intros X; discriminate X]]).
  - (* LUnlock, owner *)
    destruct (IA _ L) as [p L3].
    assert (HL : held holder mode tt t s (LUnlock t) s') by (unfold held, holder; simpl; auto).
    insplit Hin; cbn [cls]; rewrite ?L3; [eexists; split; [reflexivity|exact HL]|].
    left. eexists. split; [reflexivity|]. split; [exact HL|]. intros _. reflexivity.
  - (* LUnlock, other *)
    destruct (IA _ L) as [p L3].
    assert (HL : held holder mode tt t s (LUnlock t) s') by (unfold held, holder; simpl; auto).
    insplit Hin; cbn [cls]; rewrite ?L3. eexists; split; [reflexivity|exact HL].
  - (* LEvO, owner *) insplit Hin; try exact I. apply shut_read. simpl. congruence.
  - (* LEvO, other *) insplit Hin; exact I.
  - (* LEvW *) insplit Hin; exact I.
  - (* LKickO *) insplit Hin; exact I.
  - (* LKickW *) insplit Hin; exact I.
  - (* LWork, owner *) insplit Hin; [cbn [cls]; unfold actor; simpl; congruence|apply shut_read; simpl; congruence].
  - (* LCompl *) insplit Hin. cbn [cls]. unfold actor. simpl. congruence.
  - (* LTCreate, lock held *)
    insplit Hin; cbn [cls]; try exact I. eexists. split; [reflexivity|]. unfold held, holder. simpl. split; congruence.
  - (* LBlock, owner *) insplit Hin. apply shut_read. simpl. congruence.
  - (* LMainEnd *) insplit Hin; [apply shut_read; simpl; congruence|cbn [cls]; unfold actor; simpl; congruence].
Qed.

Lemma acq_free : forall s l s' k, step s l = Some s' -> mode l k = Acq -> holder s k = None.
Proof.
  intros s l s' k H M. destruct l; try discriminate M. unfold holder. apply (lock_step _ _ _ H).
Qed.

(* ---- the footprints list every variable a step changes ---- *)
Lemma pl_step : forall s l s', step s l = Some s' ->
  match l with LCreate _ _ | LLock _ | LUnlock _ => True | _ => pl s' = pl s end.
Proof.
  intros s l s' H. destruct l; try exact I; step_inv H; ssimp; ifs; ssimp; congruence.
Qed.

Lemma loop_out_shut : forall p w wr last p' pc e, loop_out p w wr last p' pc e -> pshut p' = pshut p.
Proof. intros. destruct H; reflexivity. Qed.
Lemma idle_out_shut : forall p w wr p' pc e, idle_out p w wr p' pc e -> pshut p' = pshut p.
Proof. intros. destruct H; reflexivity. Qed.
Lemma submit_out_shut : forall p b i p' kw e, submit_out p b i p' kw e -> pshut p' = pshut p.
Proof. intros. destruct H; reflexivity. Qed.

Lemma shut_step : forall s l s', FF s -> step s l = Some s' ->
  match l with
  | LCreate _ _ => True
  | LLock t | LUnlock t => t <> own s -> shut_of (pl s') = shut_of (pl s)
  | _ => shut_of (pl s') = shut_of (pl s)
  end.
Proof.
  intros s l s' IF H. pose proof (pl_step _ _ _ H) as P.
  destruct l; try exact I; try (rewrite P; reflexivity); intro Hne.
  - step_inv H; hold_facts; thr_eq; cs_facts; ssimp; ifs; ssimp; bools; subst; try contradiction; try reflexivity;
      cbn [shut_of]; f_equal.
    all: try (erewrite loop_out_shut by eauto; reflexivity).
    all: try (erewrite idle_out_shut by eauto; reflexivity).
    all: try (erewrite submit_out_shut by eauto; reflexivity).
  - step_inv H; hold_facts; thr_eq; ssimp; ifs; ssimp; try reflexivity; try congruence.
    exfalso. apply Hne. assert (X : lock s = Some (own s)) by (apply IF; rewrite E4; left; reflexivity). congruence.
Qed.

Ltac upd_cases :=
  repeat match goal with
  | |- context [upd _ ?k _ ?x] => unfold upd at 1; let E := fresh "Eu" in destruct (Nat.eqb x k) eqn:E
  end; bools; subst; cbn [wkicked wkpend wpcf].

Lemma kicked_step : forall s l s' w, step s l = Some s' -> ~ In (VKicked w, true) (fp s l) ->
  wkicked (wk s' w) = wkicked (wk s w).
Proof.
  intros s l s' w H Hn.
  step_inv H; hold_facts; thr_eq; ssimp; ifs; ssimp; upd_cases; try reflexivity.
  - exfalso. apply Hn. cbn [fp]. apply holds_true in E3. rewrite E3. simpl. tauto.
  - exfalso. apply Hn. simpl. tauto.
  - exfalso. apply Hn. cbn [fp]. unfold idle_head. rewrite E5.
    apply cs_submit_g_spec in E9. destruct E9 as [_ E9]. apply cs_submit_spec in E9. destruct E9 as [_ E9]. inversion E9; subst.
    match goal with X : pidle p = _ |- _ => rewrite X end. simpl. tauto.
Qed.

Lemma kpend_step : forall s l s' w, step s l = Some s' -> ~ In (VWEv w, true) (fp s l) ->
  wkpend (wk s' w) = wkpend (wk s w).
Proof.
  intros s l s' w H Hn.
  step_inv H; hold_facts; thr_eq; ssimp; ifs; ssimp; upd_cases; try reflexivity.
  all: try (exfalso; apply Hn; simpl; tauto).
  exfalso. apply Hn. cbn [fp]. match goal with X : lock s = Some _ |- _ => apply holds_true in X; rewrite X end. simpl. tauto.
Qed.

Lemma oev_step : forall s l s', step s l = Some s' -> ~ In (VOEv, true) (fp s l) ->
  opend s' = opend s /\ obatch s' = obatch s.
Proof.
  intros s l s' H Hn.
  step_inv H; hold_facts; thr_eq; ssimp; ifs; ssimp; try (split; reflexivity).
  all: try (exfalso; apply Hn; simpl; tauto).
Qed.

Lemma kdue_step : forall s l s', step s l = Some s' -> ~ In (VKickFd, true) (fp s l) ->
  forall t, kdue s' t = kdue s t.
Proof.
  intros s l s' H Hn.
  step_inv H; hold_facts; thr_eq; ssimp; ifs; ssimp; try (intro; reflexivity).
  all: try (exfalso; apply Hn; simpl; tauto).
Qed.

Lemma lq_step : forall s l s', step s l = Some s' -> ~ In (VLocalQ, true) (fp s l) ->
  lq s' = lq s /\ lbatch s' = lbatch s.
Proof.
  intros s l s' H Hn.
  step_inv H; hold_facts; thr_eq; ssimp; ifs; ssimp; try (split; reflexivity).
  all: try (exfalso; apply Hn; simpl; tauto).
  all: try (split; congruence).
  all: unfold own_idle_ctx in *; bools; subst; exfalso; apply Hn; cbn [fp]; rewrite Nat.eqb_refl; simpl; tauto.
Qed.


Lemma step_writes_sound : forall s l s' v, FF s -> step s l = Some s' -> ~ writes (fp s l) v -> unchanged v s s'.
Proof.
  intros s l s' v IF H Hn. unfold writes in Hn. destruct v; cbn [unchanged].
  - pose proof (pl_step _ _ _ H) as P.
    destruct l; try (rewrite P; reflexivity); exfalso; apply Hn; simpl; tauto.
  - pose proof (shut_step _ _ _ IF H) as P. destruct l; try exact P.
    + exfalso. apply Hn. simpl. tauto.
    + apply P. intro X. apply Hn. cbn [fp]. rewrite X, Nat.eqb_refl. simpl. tauto.
    + apply P. intro X. apply Hn. cbn [fp]. rewrite X, Nat.eqb_refl. simpl. tauto.
  - apply kicked_step with l; assumption.
  - apply oev_step with l; assumption.
  - apply kpend_step with l; assumption.
  - apply kdue_step with l; assumption.
  - apply lq_step with l; assumption.
Qed.

(* ---- the C14 statements for iv_work ---- *)
Lemma lrun_run : forall ls s, lrun step s ls = run s ls.
Proof. induction ls as [|l r IH]; intro s; simpl; [reflexivity|]. destruct (step s l); [apply IH|reflexivity]. Qed.

Section Reach.
Variable o : nat.

Lemma lreach_inv : forall s, lreachable step (init o) s -> ALock s /\ FF s /\ own s = o.
Proof. intros s [tr H]. rewrite lrun_run in H. eapply reach_inv; eauto. Qed.

Lemma disc_r : forall s l s', lreachable step (init o) s -> step s l = Some s' -> disciplined actor holder mode cls fp s l s'.
Proof. intros s l s' Hr. apply step_disciplined. apply (lreach_inv s Hr). Qed.

Lemma acqf_r : forall s l s' k, lreachable step (init o) s -> step s l = Some s' -> mode l k = Acq -> holder s k = None.
Proof. intros s l s' k _. apply acq_free. Qed.

Lemma work_lock_discipline : forall pre l post send,
  run (init o) (pre ++ l :: post) = Some send ->
  exists s s', run (init o) pre = Some s /\ step s l = Some s' /\ disciplined actor holder mode cls fp s l s'.
Proof.
  intros pre l post send H. rewrite <- lrun_run in H.
  destruct (trace_discipline disc_r _ _ _ H) as [s [s' [A [B C]]]].
  exists s, s'. rewrite <- lrun_run. auto.
Qed.

(* both are lock calls on the free pool lock, and whichever is performed first disables the other *)
Definition lock_race (s : state) (l1 l2 : label) (t1 t2 : nat) (s1 s2 : state) : Prop :=
  l1 = LLock t1 /\ l2 = LLock t2 /\ lock s = None /\ lock s1 = Some t1 /\ lock s2 = Some t2 /\
  step s1 l2 = None /\ step s2 l1 = None.

Lemma work_no_concurrent_conflict : forall tr s l1 l2 t1 t2 s1 s2 v w1 w2,
  run (init o) tr = Some s ->
  lthr l1 = Some t1 -> lthr l2 = Some t2 -> t1 <> t2 ->
  step s l1 = Some s1 -> step s l2 = Some s2 ->
  In (v, w1) (fp s l1) -> In (v, w2) (fp s l2) ->
  match cls s v with
  | ByLock _ => lock_race s l1 l2 t1 t2 s1 s2
  | ByThread _ => False
  | OwnerLock _ _ => w1 = true \/ w2 = true -> lock_race s l1 l2 t1 t2 s1 s2
  | _ => True
  end.
Proof.
  intros tr s l1 l2 t1 t2 s1 s2 v w1 w2 H A1 A2 Hne S1 S2 I1 I2.
  assert (Hr : lreachable step (init o) s) by (exists tr; rewrite lrun_run; exact H).
  pose proof (no_concurrent_conflict disc_r acqf_r l1 l2 v w1 w2 Hr A1 A2 Hne S1 S2 I1 I2) as N.
  assert (G : forall k, arbitrated step holder mode k s l1 l2 t1 t2 s1 s2 -> lock_race s l1 l2 t1 t2 s1 s2).
  { intros k (M1 & M2 & R). destruct l1; try discriminate M1. destruct l2; try discriminate M2.
    simpl in A1, A2. inversion A1; inversion A2; subst. split; [reflexivity|]. split; [reflexivity|]. exact R. }
  destruct (cls s v) as [k|t|k t| |]; try exact I; try exact N.
  - apply (G k N).
  - intro W. apply (G k (N W)).
Qed.

Lemma work_cs_stable : forall tr s l s' v, run (init o) tr = Some s -> step s l = Some s' ->
  match cls s v with
  | ByLock _ => forall t, lock s = Some t -> lthr l <> Some t -> unchanged v s s'
  | ByThread t => lthr l <> Some t -> unchanged v s s'
  | OwnerLock _ ow => (forall t, lock s = Some t -> lthr l <> Some t -> unchanged v s s') /\
                      (lthr l <> Some ow -> unchanged v s s')
  | _ => True
  end.
Proof.
  intros tr s l s' v H S.
  assert (Hr : lreachable step (init o) s) by (exists tr; rewrite lrun_run; exact H).
  assert (WS : writes_sound step (init o) fp unchanged).
  { intros s0 l0 s0' v0 R0 S0. apply step_writes_sound; [apply (lreach_inv s0 R0)|exact S0]. }
  pose proof (cs_stable disc_r WS l v Hr S) as N.
  destruct (cls s v) as [k|t|k t| |]; try exact I; exact N.
Qed.
End Reach.

(* non-vacuity: the owner 0 creates a pool, submits item 5 (which starts pool thread 1) and calls
   submit for item 6 while thread 1 has popped its kick: both are about to take the pool lock, both
   lock calls are enabled, their critical sections conflict on the pool; after thread 1's lock call
   (which takes item 5) the owner's is refused until the unlock *)
Definition ex_prefix : list label :=
  [LCreate 0 2; LSubmit 0 5; LLock 0; LTCreate 0 1; LUnlock 0; LEnd 0;
   LHookStart 1; LEvW 1 1; LEvW 1 1; LSubmit 0 6].
Definition ex_trace : list label :=
  ex_prefix ++ [LLock 1; LUnlock 1; LWork 1 5; LLock 0; LTCreate 0 2; LUnlock 0; LEnd 0].

Definition st_of (tr : list label) : state := match run (init 0) tr with Some s => s | None => init 0 end.

Lemma work_nonvacuous :
  accepts 0 ex_trace = true /\
  (exists s s1 s0, run (init 0) ex_prefix = Some s /\
     step s (LLock 1) = Some s1 /\ step s (LLock 0) = Some s0 /\
     conflict var_eqb (fp s (LLock 1)) (fp s (LLock 0)) = true /\
     step s1 (LLock 0) = None /\ step s0 (LLock 1) = None /\ lock s1 = Some 1 /\ wpc_of s1 1 = WTake 5 1%Z).
Proof.
  split; [vm_compute; reflexivity|].
  exists (st_of ex_prefix), (st_of (ex_prefix ++ [LLock 1])), (st_of (ex_prefix ++ [LLock 0])).
  repeat match goal with |- _ /\ _ => split end; vm_compute; reflexivity.
Qed.
