(* ConflictSignal.v -- C14 for the iv_signal model MT/SignalModel.v (signal delivery, iv_signal.c).

   Shared variables and their classes:

     VProcTree    the tree process_sigs and the avl linkage / key fields of the process-wide
                  interests in it.  ByLock (sig_lock).
     VThrTree t   thr_sigs of thread t (TLS) and the linkage of t's THIS_THREAD interests.
                  Modified only by t (register / unregister of its own interests, inside sig_lock
                  with all signals blocked) and walked only by iv_signal_handler running IN thread t
                  (without the lock): ByThread t.  Handler versus register/unregister of the same
                  thread are kept apart by the signal mask, which the model expresses as the guard
                  "no delivery to a thread that holds sig_lock".
     VTotal       total_num_interests[].  ByLock (sig_lock).
     VOwnerPid    sig_owner_pid: written 0 -> getpid() by the first iv_signal_register of the
                  process (inside sig_lock, before the first sigaction installs the handler), read
                  by iv_signal_handler without the lock.  OneWay; `owner_one_way` below proves that
                  it never goes back and that whenever a handler can run it is already set, so the
                  assignment in later registrations stores the value that is there.
     VDisp        the kernel's signal dispositions (sigaction).  Extern.
     VActive id   ->active of interest id.  For a process-wide interest ByLock (sig_lock): set by
                  __iv_signal_do_wake on the process tree (handler or hand-off, lock held), cleared
                  by iv_signal_event inside spin_lock(&sig_lock), read by iv_signal_unregister inside
                  the lock.  For a THIS_THREAD interest ByThread (its thread): set by the handler
                  running in that thread, cleared by iv_signal_event of that thread without the lock.
                  An interest that is being created is written by its creator only, lock held.
     VCnt id      the counter of the interest's raw event descriptor (write(2) in
                  iv_event_raw_post, read(2) in iv_event_raw_got_event).  Extern.

   Footprints (code between the label's log point and the next one of the thread):

     LLock t      spin_lock; for a handler whose thread tree woke nobody the walk of process_sigs
                  that selects the interests to wake starts here              -> read VProcTree
     LUnlock t    spin_unlock                                                           -> none
     LReg ..      sig_owner_pid test/assignment, this->active = 0, total_num_interests[sig]++,
                  sigaction on 0 -> 1, iv_avl_tree_insert into the tree chosen by THIS_THREAD,
                  iv_event_raw_register (new descriptor)
                      -> write VOwnerPid, VTotal, VDisp, VActive id, VCnt id, the tree
     LUnreg ..    iv_avl_tree_delete from its tree, --total_num_interests[sig], sigaction on
                  1 -> 0, else the this->active test that decides the hand-off; the object leaves
                  (iv_event_raw_unregister after the unlock closes the descriptor)
                      -> write the tree, VTotal, VDisp, VActive id, VCnt id
     LSigEnter .. delivery by the kernel, sig_owner_pid test, in the parent the walk of the
                  thread's own tree; a forked child (child = true) has its own address space and
                  returns at the pid test      -> read VDisp, VOwnerPid, (parent) VThrTree t
     LSigDfl      delivery with the default disposition                          -> read VDisp
     LPost t id   is->active = 1; iv_event_raw_post(&is->ev); iv_avl_tree_next on the tree being
                  walked (the thread's own, process_sigs, or for a hand-off either)
                      -> write VActive id, VCnt id; read the walked tree(s)
     LSigExit t   return from the handler                                               -> none
     LRead t id   read(2) of the descriptor                                     -> write VCnt id
     LClear t id  this->active = 0                                            -> write VActive id
     LHandler, LBlock                                                                   -> none

   With respect to sig_lock LLock is the acquisition, LUnlock the release, the rest Plain. *)
From Coq Require Import List ZArith Bool Lia.
From Ivv Require Import MT.Conflict MT.SignalModel MT.SignalProofs MT.SignalFacts.
Import ListNotations.
Local Open Scope Z_scope.

Inductive var := VProcTree | VThrTree (t : Z) | VTotal | VOwnerPid | VDisp | VActive (id : Z) | VCnt (id : Z).

Definition var_eqb (a b : var) : bool :=
  match a, b with
  | VProcTree, VProcTree | VTotal, VTotal | VOwnerPid, VOwnerPid | VDisp, VDisp => true
  | VThrTree i, VThrTree j | VActive i, VActive j | VCnt i, VCnt j => i =? j
  | _, _ => false
  end.

Lemma var_eqb_spec : forall a b, var_eqb a b = true <-> a = b.
Proof.
  intros a b. destruct a, b; simpl; split; intro H; try reflexivity; try discriminate;
    try (apply Z.eqb_eq in H; subst; reflexivity); inversion H; apply Z.eqb_refl.
Qed.

Definition cls (s : state) (v : var) : class Z unit :=
  match v with
  | VProcTree | VTotal => ByLock tt
  | VThrTree t => ByThread t
  | VOwnerPid => OneWay
  | VDisp | VCnt _ => Extern
  | VActive id =>
      match find id (regs s) with
      | Some r => if i_tt r then ByThread (i_thr r) else ByLock tt
      | None => ByLock tt
      end
  end.

Definition holder (s : state) (_ : unit) : option Z := lock s.

Definition mode (l : label) (_ : unit) : lmode :=
  match l with LLock _ => Acq | LUnlock _ => Rel | _ => Plain end.

Definition lthr (l : label) : Z :=
  match l with
  | LLock t | LUnlock t | LReg t _ _ _ _ _ _ | LUnreg t _ _ | LSigEnter t _ _ | LSigDfl t _ | LPost t _
  | LSigExit t | LRead t _ | LClear t _ | LHandler t _ | LBlock t | LMask t _ | LSaMask t _ _ => t
  end.

Definition actor (_ : state) (l : label) : option Z := Some (lthr l).

Definition tree_var (r : irec) : var := if i_tt r then VThrTree (i_thr r) else VProcTree.

Definition fp (s : state) (l : label) : footprint var :=
  match l with
  | LLock _ => [(VProcTree, false)]
  | LUnlock _ | LSigExit _ | LHandler _ _ | LBlock _ => []
  | LMask _ _ => []                        (* the signal mask is private to the thread *)
  | LSaMask _ _ _ => [(VDisp, true)]       (* the sigaction call inside iv_signal_register *)
  | LReg t id _ _ thisthr _ _ =>
      [(VOwnerPid, true); (VTotal, true); (VDisp, true); (VActive id, true); (VCnt id, true);
       (if thisthr then VThrTree t else VProcTree, true)]
  | LUnreg _ id _ =>
      match find id (regs s) with
      | Some r => [(tree_var r, true); (VTotal, true); (VDisp, true); (VActive id, true); (VCnt id, true)]
      | None => []
      end
  | LSigEnter t _ child =>
      [(VDisp, false); (VOwnerPid, false)] ++ (if child then [] else [(VThrTree t, false)])
  | LSigDfl _ _ => [(VDisp, false)]
  | LPost t id =>
      [(VActive id, true); (VCnt id, true)] ++
      match stg s t with
      | SThr _ => [(VThrTree t, false)]
      | SProc _ => [(VProcTree, false)]
      | SUnreg _ => [(VThrTree t, false); (VProcTree, false)]
      | _ => []
      end
  | LRead _ id => [(VCnt id, true)]
  | LClear _ id => [(VActive id, true)]
  end.

(* ---- an invariant about the wake plans: whom a thread in the middle of a walk will post to ---- *)
Definition pok (x : stage) (t : Z) (l : list irec) : Prop :=
  match x with
  | SThr p => forall id, In id p -> exists r, find id l = Some r /\ i_tt r = true /\ i_thr r = t
  | SProc p | SUnreg p => forall id r, In id p -> find id l = Some r -> i_tt r = false \/ i_thr r = t
  | _ => True
  end.

Definition J (s : state) : Prop := forall t, pok (stg s t) t (regs s).

Lemma walk_in : forall l id, In id (walk l) -> exists r, In r l /\ i_id r = id.
Proof.
  induction l as [|x t IH]; simpl; intros id H; [contradiction|]. destruct (i_excl x).
  - destruct H as [H|[]]. exists x. auto.
  - destruct H as [H|H]; [exists x; auto|]. destruct (IH _ H) as [r [A B]]. exists r. auto.
Qed.

Lemma plan_in : forall sc sig l id, In id (wake_plan sc sig l) ->
  exists r, In r l /\ i_id r = id /\ in_scope sc r = true.
Proof.
  unfold wake_plan, cands. intros sc sig l id H. apply walk_in in H. destruct H as [r [A B]].
  apply filter_In in A. destruct A as [A C]. apply andb_true_iff in C. exists r. tauto.
Qed.

(* l' has the same interests as l with the same static fields *)
Definition ss (l l' : list irec) : Prop :=
  forall id, match find id l' with
             | Some b => exists a, find id l = Some a /\ static_eq b a
             | None => find id l = None
             end.

Lemma ss_upd_rec : forall f id l, keeps f -> ss l (upd_rec id f l).
Proof.
  intros f id l Hk id'. rewrite find_upd_rec by exact Hk. destruct (id' =? id).
  - destruct (find id' l) as [a|]; simpl; [|reflexivity]. exists a. split; [reflexivity|apply Hk].
  - destruct (find id' l) as [a|]; [|reflexivity]. exists a. split; [reflexivity|repeat split].
Qed.

Lemma pok_ss : forall x t l l', ss l l' -> pok x t l -> pok x t l'.
Proof.
  intros x t l l' H P. destruct x; simpl in *; try exact I.
  - intros id Hin. destruct (P id Hin) as [r [A [B C]]]. specialize (H id).
    destruct (find id l') as [b|]; [|congruence]. destruct H as [a [A' S]]. rewrite A in A'. inversion A'; subst a.
    exists b. destruct S as (_ & S2 & _ & _ & S5 & _). split; [reflexivity|]. split; congruence.
  - intros id r Hin F. specialize (H id). rewrite F in H. destruct H as [a [A S]].
    destruct (P id a Hin A) as [Q|Q]; destruct S as (_ & S2 & _ & _ & S5 & _); [left|right]; congruence.
  - intros id r Hin F. specialize (H id). rewrite F in H. destruct H as [a [A S]].
    destruct (P id a Hin A) as [Q|Q]; destruct S as (_ & S2 & _ & _ & S5 & _); [left|right]; congruence.
Qed.

Lemma pok_tail : forall t l i p,
  (pok (SThr (i :: p)) t l -> pok (SThr p) t l) /\
  (pok (SProc (i :: p)) t l -> pok (SProc p) t l) /\
  (pok (SUnreg (i :: p)) t l -> pok (SUnreg p) t l).
Proof. intros; repeat split; simpl; intros H id; intros; eapply H; eauto; right; assumption. Qed.

(* a plan computed on l selects interests of the scope it was computed for *)
Lemma pok_plan_thr : forall t sig l, NoDup (map i_id l) -> pok (SThr (wake_plan (Some t) sig l)) t l.
Proof.
  intros t sig l Hnd id Hin. apply plan_in in Hin. destruct Hin as [r [A [B C]]].
  exists r. split; [apply find_unique; assumption|]. simpl in C. apply andb_true_iff in C. destruct C as [C1 C2].
  zb. auto.
Qed.

Lemma plan_proc : forall sig l id r, NoDup (map i_id l) -> In id (wake_plan None sig l) -> find id l = Some r -> i_tt r = false.
Proof.
  intros sig l id r Hnd Hin F. apply plan_in in Hin. destruct Hin as [r' [A [B C]]].
  rewrite (find_unique id l r' Hnd A B) in F. inversion F; subst. simpl in C. apply negb_true_iff in C. exact C.
Qed.

Lemma J_with_stg : forall s t x, J s -> pok x t (regs s) -> J (with_stg s t x).
Proof.
  intros s t x HJ P u. simpl. unfold upd. destruct (u =? t) eqn:E; [zb; subst; exact P|apply HJ].
Qed.

Lemma J_regs : forall s l', J s -> ss (regs s) l' -> J (with_regs s l').
Proof. intros s l' HJ H u. simpl. eapply pok_ss; [exact H|apply HJ]. Qed.

Lemma pok_handoff : forall r rest t, NoDup (map i_id rest) -> i_thr r = t ->
  pok (SUnreg (handoff_wake true r rest)) t rest.
Proof.
  intros r rest t Hnd Ht id x Hin F. unfold handoff_wake in Hin.
  destruct (wake_plan (scope_of r) (i_sig r) rest) as [|a p] eqn:E.
  - destruct (true && i_tt r); [left; eapply plan_proc; eauto|contradiction].
  - rewrite <- E in Hin. apply plan_in in Hin. destruct Hin as [r' [A [B C]]].
    rewrite (find_unique id rest r' Hnd A B) in F. inversion F; subst x. unfold scope_of in C.
    destruct (i_tt r); simpl in C.
    + apply andb_true_iff in C. destruct C as [_ C]. zb. right. congruence.
    + apply negb_true_iff in C. left. exact C.
Qed.

Lemma J_reg : forall s t nr tot dsp, Inv s -> J s -> holds s t = true -> is_idle (stg s t) = true ->
  find (i_id nr) (regs s) = None ->
  J {| regs := insert nr (regs s); total := tot; disp := dsp; owner := true; lock := lock s; stg := stg s; masked := masked s |}.
Proof.
  intros s t nr tot dsp [HR HL] HJ Hh Hi Hf u. simpl. specialize (HJ u). specialize (HL u).
  assert (FI : forall id', find id' (insert nr (regs s)) = if i_id nr =? id' then Some nr else find id' (regs s))
    by (intro; apply find_insert; assumption).
  assert (NL : match stg s u with SProc _ | SUnreg _ => False | _ => True end).
  { destruct (stg s u) eqn:Eu; try exact I; apply holds_lock in Hh; rewrite Hh in HL; inversion HL; subst u;
      rewrite Eu in *; discriminate. }
  destruct (stg s u); simpl in *; try exact I; try contradiction.
  intros id' Hin. destruct (HJ id' Hin) as [r0 [A B]]. exists r0. split; [|exact B].
  rewrite FI. destruct (i_id nr =? id') eqn:E9; [|exact A]. zb. subst id'. congruence.
Qed.

Lemma J_unreg : forall s t id r tot dsp own (c : bool), Inv s -> J s -> is_idle (stg s t) = true ->
  find id (regs s) = Some r -> i_thr r = t ->
  J {| regs := remove id (regs s); total := tot; disp := dsp; owner := own; lock := lock s;
       stg := if c then upd (stg s) t (SUnreg (handoff_wake true r (remove id (regs s)))) else stg s;
       masked := masked s |}.
Proof.
  intros s t id r tot dsp own c [HR HL] HJ Hi Hf Ht. pose proof (inv_nodup s HR) as Hnd.
  assert (B0 : forall u, pok (stg s u) u (remove id (regs s))).
  { intro u. specialize (HJ u). destruct (stg s u) eqn:Eu; simpl in *; try exact I.
    - intros id' Hin. destruct (HJ id' Hin) as [r0 [A [B C]]]. exists r0. split; [|auto].
      rewrite find_remove. destruct (id' =? id) eqn:E9; [|exact A]. zb. subst id'.
      rewrite A in Hf. inversion Hf; subst r0. rewrite Ht in C. subst u. rewrite Eu in Hi. discriminate.
    - intros id' r0 Hin F. rewrite find_remove in F. destruct (id' =? id); [discriminate|]. eauto.
    - intros id' r0 Hin F. rewrite find_remove in F. destruct (id' =? id); [discriminate|]. eauto. }
  intro u. simpl. destruct c; [|apply B0].
  unfold upd. destruct (u =? t) eqn:E9; [|apply B0]. zb. subst u.
  apply pok_handoff; [apply nodup_remove; exact Hnd|assumption].
Qed.

Lemma J_step : forall s l s', Inv s -> J s -> step s l = Some s' -> J s'.
Proof.
  intros s l s' [HR HL] HJ H. pose proof (inv_nodup s HR) as Hnd. destruct l; simpl in H.
  - (* LLock *)
    dmatch H; inversion H; subst; clear H.
    + exact HJ.
    + apply (J_with_stg (with_lock s (Some t))); [exact HJ|].
      intros id r Hin F. left. eapply plan_proc; eauto.
  - (* LUnlock *)
    dmatch H; inversion H; subst; clear H.
    + exact HJ.
    + apply (J_with_stg (with_lock s None)); [exact HJ|exact I].
    + apply (J_with_stg (with_lock s None)); [exact HJ|exact I].
  - (* LReg *)
    dmatch H; inversion H; subst; clear H; bsplit; apply J_reg with t; auto; split; assumption.
  - (* LUnreg *)
    dmatch H; inversion H; subst; clear H; bsplit; zb;
      (first [eapply J_unreg with (c := true) | eapply J_unreg with (c := false)]); eauto; split; assumption.
  - (* LSigEnter *)
    dmatch H; inversion H; subst; clear H; apply J_with_stg; try exact HJ; try exact I.
    match goal with E : wake_plan _ _ _ = _ |- _ => rewrite <- E end. apply pok_plan_thr. exact Hnd.
  - (* LSigDfl *)
    dmatch H; inversion H; subst; exact HJ.
  - (* LPost *)
    pose proof (HJ t) as Pt.
    dmatch H; inversion H; subst; clear H; unfold do_post;
      (apply J_with_stg; [apply J_regs; [exact HJ|apply ss_upd_rec; apply keeps_post]|]);
      (eapply pok_ss; [apply ss_upd_rec; apply keeps_post|]);
      match type of Pt with
      | pok (SThr (?i :: ?p)) _ _ => destruct (pok_tail t (regs s) i p) as (T1 & T2 & T3)
      | pok (SProc (?i :: ?p)) _ _ => destruct (pok_tail t (regs s) i p) as (T1 & T2 & T3)
      | pok (SUnreg (?i :: ?p)) _ _ => destruct (pok_tail t (regs s) i p) as (T1 & T2 & T3)
      end; auto.
  - (* LSigExit *)
    dmatch H; inversion H; subst; clear H; apply J_with_stg; try exact HJ; exact I.
  - (* LRead *)
    dmatch H; inversion H; subst; clear H; [apply J_regs; [exact HJ|apply ss_upd_rec; apply keeps_read]|exact HJ].
  - (* LClear *)
    dmatch H; inversion H; subst; clear H. apply J_regs; [exact HJ|apply ss_upd_rec; apply keeps_clear].
  - (* LHandler *)
    dmatch H; inversion H; subst; clear H. apply J_regs; [exact HJ|apply ss_upd_rec; apply keeps_idle].
  - (* LBlock *)
    dmatch H; inversion H; subst; exact HJ.
  - (* LMask: regs and stages untouched *)
    dmatch H; inversion H; subst; exact HJ.
  - (* LSaMask *)
    dmatch H; inversion H; subst; exact HJ.
Qed.

Lemma reachable_J : forall s, reachable s -> J s.
Proof.
  apply reachable_ind_inv.
  - intro t. exact I.
  - intros s l s' Hr HJ H. eapply J_step; eauto. apply reachable_inv. exact Hr.
Qed.

(* ---- the discipline ---- *)
Lemma lrun_run : forall ls s, lrun (step_gen true) s ls = run s ls.
Proof. induction ls as [|l r IH]; intro s; simpl; [reflexivity|]. destruct (step s l); [apply IH|reflexivity]. Qed.

Lemma lreachable_iff : forall s, lreachable (step_gen true) init s <-> reachable s.
Proof. intro s; unfold lreachable, reachable; split; intros [ls H]; exists ls; [rewrite <- lrun_run|rewrite lrun_run]; exact H. Qed.

Lemma lock_acquires : forall s t s', step s (LLock t) = Some s' -> lock s = None /\ lock s' = Some t.
Proof. intros s t s' H. simpl in H. dmatch H; inversion H; subst; simpl; auto. Qed.

(* only the lock calls change the lock *)
Lemma plain_lock : forall s l s', step s l = Some s' -> mode l tt = Plain -> lock s' = lock s.
Proof.
  intros s l s' H M. destruct l; try discriminate M; simpl in H; dmatch H; inversion H; subst; reflexivity.
Qed.

Lemma heldP : forall s l s' t, step s l = Some s' -> lthr l = t -> mode l tt = Plain -> lock s = Some t ->
  exists u, actor s l = Some u /\ held holder mode tt u s l s'.
Proof.
  intros s l s' t H E M L. exists t. split; [unfold actor; rewrite E; reflexivity|].
  unfold held, holder. rewrite M. rewrite (plain_lock _ _ _ H M). auto.
Qed.

Ltac insplit Hin :=
  simpl in Hin;
  repeat match goal with H : _ \/ _ |- _ => destruct H | H : False |- _ => destruct H
                    | H : (_, _) = (_, _) |- _ => inversion H; clear H; subst end.

Lemma step_disciplined : forall s l s', reachable s -> step s l = Some s' ->
  disciplined actor holder mode cls fp s l s'.
Proof.
  intros s l s' Hr H v w Hin. pose proof (reachable_inv s Hr) as [HR HL]. pose proof (reachable_J s Hr) as HJ.
  pose proof H as H0. destruct l; cbn [fp] in Hin.
  - (* LLock *)
    insplit Hin. cbn [cls]. exists t. split; [reflexivity|]. unfold held, holder. cbn [mode]. apply lock_acquires. exact H.
  - insplit Hin.
  - (* LReg *)
    simpl in H. dmatch H; bsplit;
      match goal with Hh : holds s t = true |- _ => apply holds_lock in Hh end;
      insplit Hin; cbn [cls]; try exact I; try (eapply heldP; eauto; reflexivity);
      try (match goal with E : find id (regs s) = None |- _ => rewrite E end; eapply heldP; eauto; reflexivity);
      destruct thisthr; cbn [cls]; try reflexivity; eapply heldP; eauto; reflexivity.
  - (* LUnreg *)
    simpl in H. destruct (holds s t && is_idle (stg s t)) eqn:E; [|discriminate]. bsplit.
    destruct (find id (regs s)) as [r|] eqn:F; [|discriminate]. destruct (i_thr r =? t) eqn:E2; [|discriminate]. zb.
    match goal with Hh : holds s t = true |- _ => apply holds_lock in Hh end.
    insplit Hin; cbn [cls]; try exact I; try (eapply heldP; eauto; reflexivity).
    + unfold tree_var. destruct (i_tt r); cbn [cls]; [unfold actor; simpl; congruence|eapply heldP; eauto; reflexivity].
    + rewrite F. destruct (i_tt r); [unfold actor; simpl; congruence|eapply heldP; eauto; reflexivity].
  - (* LSigEnter *)
    destruct child; insplit Hin; cbn [cls]; try exact I; reflexivity.
  - insplit Hin. exact I.
  - (* LPost *)
    specialize (HJ t). specialize (HL t). simpl in H.
    destruct (stg s t) as [|p|sg|p| |p] eqn:Es; try discriminate;
      destruct p as [|i p]; try discriminate; destruct (i =? id) eqn:Ei; try discriminate; zb; subst i;
      insplit Hin; cbn [cls]; try exact I; try reflexivity; try (eapply heldP; eauto; reflexivity).
    + destruct (HJ id (or_introl eq_refl)) as [r [A [B C]]]. rewrite A, B. unfold actor. simpl. congruence.
    + destruct (find id (regs s)) as [r|] eqn:F; [|eapply heldP; eauto; reflexivity].
      destruct (i_tt r) eqn:T; [|eapply heldP; eauto; reflexivity].
      destruct (HJ id r (or_introl eq_refl) F) as [Q|Q]; [congruence|unfold actor; simpl; congruence].
    + destruct (find id (regs s)) as [r|] eqn:F; [|eapply heldP; eauto; reflexivity].
      destruct (i_tt r) eqn:T; [|eapply heldP; eauto; reflexivity].
      destruct (HJ id r (or_introl eq_refl) F) as [Q|Q]; [congruence|unfold actor; simpl; congruence].
  - insplit Hin.
  - insplit Hin. exact I.
  - (* LClear *)
    simpl in H. destruct (find id (regs s)) as [r|] eqn:F; [|discriminate].
    destruct ((i_thr r =? t) && phase_eqb (i_phase r) POwed && (i_tt r || holds s t)) eqn:E; [|discriminate].
    bsplit. zb. insplit Hin. cbn [cls]. rewrite F. destruct (i_tt r); [unfold actor; simpl; congruence|].
    match goal with Hh : false || holds s _ = true |- _ => simpl in Hh; apply holds_lock in Hh end.
    eapply heldP; eauto; reflexivity.
  - insplit Hin.
  - insplit Hin.
  - (* LMask *) insplit Hin.
  - (* LSaMask: VDisp is Extern *) insplit Hin. exact I.
Qed.

Lemma acq_free : forall s l s' k, step s l = Some s' -> mode l k = Acq -> holder s k = None.
Proof.
  intros s l s' k H M. destruct l; try discriminate M. unfold holder. apply (lock_acquires _ _ _ H).
Qed.

(* ---- sig_owner_pid is one-way, and is set before any handler can read it ---- *)
Lemma owner_monotone : forall s l s', step s l = Some s' -> owner s = true -> owner s' = true.
Proof.
  intros s l s' H O. destruct l; simpl in H; dmatch H; inversion H; subst; simpl; try assumption; reflexivity.
Qed.

Lemma owner_set_when_installed : forall s sig, reachable s -> disp s sig = true -> owner s = true.
Proof.
  intros s sig Hr D. apply owner_when_registered; [exact Hr|]. destruct (reachable_inv s Hr) as [HR _].
  rewrite (inv_disp s HR) in D. intro E. rewrite E in D. discriminate.
Qed.

(* in a state in which iv_signal_handler can be entered (and read sig_owner_pid), no step of any
   thread changes it: the store in a concurrent iv_signal_register stores the value already there *)
Lemma owner_one_way : forall s t sig child s1 l s2, reachable s ->
  step s (LSigEnter t sig child) = Some s1 -> step s l = Some s2 -> owner s = true /\ owner s2 = owner s.
Proof.
  intros s t sig child s1 l s2 Hr H1 H2. assert (O : owner s = true).
  { simpl in H1. destruct (is_idle (stg s t) && disp s sig && (child || negb (holds s t))) eqn:E; [|discriminate].
    bsplit. eapply owner_set_when_installed; eauto. }
  split; [exact O|]. rewrite O. eapply owner_monotone; eauto.
Qed.

(* ---- the footprints list every variable a step changes ---- *)
Definition static (r : irec) : Z * Z * Z * bool * bool * Z := (i_id r, i_thr r, i_sig r, i_excl r, i_tt r, i_addr r).

Definition unchanged (v : var) (s s' : state) : Prop :=
  match v with
  | VProcTree => map static (filter (in_scope None) (regs s')) = map static (filter (in_scope None) (regs s))
  | VThrTree t => map static (filter (in_scope (Some t)) (regs s')) = map static (filter (in_scope (Some t)) (regs s))
  | VTotal => forall sg, total s' sg = total s sg
  | VOwnerPid => owner s' = owner s
  | VDisp => forall sg, disp s' sg = disp s sg
  | VActive id => option_map i_active (find id (regs s')) = option_map i_active (find id (regs s))
  | VCnt id => option_map i_cnt (find id (regs s')) = option_map i_cnt (find id (regs s))
  end.

Lemma scope_upd_rec : forall sc f id l, keeps f ->
  map static (filter (in_scope sc) (upd_rec id f l)) = map static (filter (in_scope sc) l).
Proof.
  intros sc f id l Hk. unfold upd_rec. induction l as [|x t IH]; [reflexivity|]. cbn [map filter].
  assert (S : static (if i_id x =? id then f x else x) = static x).
  { destruct (i_id x =? id); [|reflexivity]. destruct (Hk x) as (A & B & C & D & E & F). unfold static. congruence. }
  assert (P : in_scope sc (if i_id x =? id then f x else x) = in_scope sc x).
  { unfold static in S. inversion S. unfold in_scope. destruct sc; congruence. }
  rewrite P. destruct (in_scope sc x); [cbn [map]; rewrite S, IH; reflexivity|exact IH].
Qed.

Lemma scope_insert : forall sc r l, in_scope sc r = false ->
  filter (in_scope sc) (insert r l) = filter (in_scope sc) l.
Proof.
  intros sc r l H. induction l as [|x t IH]; cbn [insert filter]; [rewrite H; reflexivity|].
  destruct (lt_rec r x); cbn [filter]; [rewrite H; reflexivity|]. rewrite IH. reflexivity.
Qed.

Lemma scope_remove : forall sc id l, (forall x, In x l -> i_id x = id -> in_scope sc x = false) ->
  filter (in_scope sc) (remove id l) = filter (in_scope sc) l.
Proof.
  intros sc id l. unfold remove. induction l as [|x t IH]; intro H; [reflexivity|]. cbn [filter].
  destruct (i_id x =? id) eqn:E; cbn [negb filter].
  - zb. rewrite (H x (or_introl eq_refl) E). apply IH. intros y Hy. apply H. right. exact Hy.
  - rewrite IH; [reflexivity|]. intros y Hy. apply H. right. exact Hy.
Qed.

Lemma opt_upd_rec : forall (A : Type) (g : irec -> A) f id id' l, keeps f ->
  (id' <> id \/ forall r, g (f r) = g r) ->
  option_map g (find id' (upd_rec id f l)) = option_map g (find id' l).
Proof.
  intros A g f id id' l Hk H. rewrite find_upd_rec by exact Hk. destruct (id' =? id) eqn:E; [|reflexivity].
  destruct H as [H|H]; [zb; contradiction|]. destruct (find id' l); simpl; [rewrite H|]; reflexivity.
Qed.

Ltac same_state v := destruct v; simpl; try reflexivity; intro; reflexivity.
Ltac written Hn := exfalso; apply Hn; simpl; tauto.

Lemma writes_sound_reg : forall s t id sig excl thisthr addr sa s' v, reachable s ->
  step s (LReg t id sig excl thisthr addr sa) = Some s' ->
  ~ In (v, true) (fp s (LReg t id sig excl thisthr addr sa)) -> unchanged v s s'.
Proof.
  intros s t id sig excl thisthr addr sa s' v Hr H Hn. simpl in H.
  dmatch H; inversion H; subst; clear H; destruct v as [|u| | | |id'|id']; cbn [unchanged regs total disp owner];
    try (written Hn).
  all: try (destruct thisthr; [rewrite scope_insert by reflexivity; reflexivity|written Hn]).
  all: try (destruct thisthr;
            [destruct (t =? u) eqn:E9; [zb; subst; written Hn|rewrite scope_insert by (simpl; rewrite E9; reflexivity); reflexivity]
            |rewrite scope_insert by reflexivity; reflexivity]).
  all: rewrite find_insert by assumption; cbn [i_id]; destruct (id =? id') eqn:E9; [zb; subst; written Hn|reflexivity].
Qed.

Lemma writes_sound_unreg : forall s t id sa s' v, reachable s ->
  step s (LUnreg t id sa) = Some s' -> ~ In (v, true) (fp s (LUnreg t id sa)) -> unchanged v s s'.
Proof.
  intros s t id sa s' v Hr H Hn. destruct (reachable_inv s Hr) as [HR _]. pose proof (inv_nodup s HR) as Hnd.
  simpl in H. cbn [fp] in Hn. destruct (holds s t && is_idle (stg s t)); [|discriminate].
  destruct (find id (regs s)) as [r|] eqn:F; [|discriminate].
  assert (U : forall x, In x (regs s) -> i_id x = id -> x = r).
  { intros x Hx Ex. rewrite (find_unique id (regs s) x Hnd Hx Ex) in F. inversion F. reflexivity. }
  dmatch H; inversion H; subst; clear H; destruct v as [|u| | | |id'|id']; cbn [unchanged regs total disp owner];
    try (written Hn); try reflexivity.
  all: try (rewrite find_remove; destruct (id' =? i_id r) eqn:E9; [zb; subst; written Hn|reflexivity]).
  all: try (rewrite find_remove; destruct (id' =? id) eqn:E9; [zb; subst; written Hn|reflexivity]).
  all: rewrite scope_remove; [reflexivity|]; intros x Hx Ex; rewrite (U x Hx Ex); unfold tree_var in Hn;
       destruct (i_tt r) eqn:T; simpl; rewrite ?T; try reflexivity; try (written Hn).
  all: destruct (i_thr r =? u) eqn:E9; [zb; subst; written Hn|reflexivity].
Qed.

Lemma writes_sound_upd : forall s f id v, keeps f ->
  (forall r, i_active (f r) = i_active r) \/ v <> VActive id ->
  (forall r, i_cnt (f r) = i_cnt r) \/ v <> VCnt id ->
  unchanged v s (with_regs s (upd_rec id f (regs s))).
Proof.
  intros s f id v Hk HA HC. destruct v as [|u| | | |id'|id']; cbn [unchanged regs total disp owner with_regs];
    try reflexivity; try (apply scope_upd_rec; exact Hk).
  - apply opt_upd_rec; [exact Hk|]. destruct HA as [HA|HA]; [right; exact HA|left; congruence].
  - apply opt_upd_rec; [exact Hk|]. destruct HC as [HC|HC]; [right; exact HC|left; congruence].
Qed.

Lemma unchanged_stg : forall v s t x, unchanged v s (with_stg s t x).
Proof. intros v s t x. same_state v. Qed.

Lemma unchanged_trans : forall v a b c, unchanged v a b -> unchanged v b c -> unchanged v a c.
Proof.
  intros v a b c H1 H2. destruct v; cbn [unchanged] in *; try congruence; intro sg; rewrite H2; apply H1.
Qed.

Lemma step_writes_sound : forall s l s' v, reachable s -> step s l = Some s' -> ~ writes (fp s l) v -> unchanged v s s'.
Proof.
  intros s l s' v Hr H Hn. unfold writes in Hn. destruct l.
  - simpl in H. dmatch H; inversion H; subst; same_state v.
  - simpl in H. dmatch H; inversion H; subst; same_state v.
  - eapply writes_sound_reg; eauto.
  - eapply writes_sound_unreg; eauto.
  - simpl in H. dmatch H; inversion H; subst; same_state v.
  - simpl in H. dmatch H; inversion H; subst; same_state v.
  - (* LPost *)
    simpl in H. cbn [fp] in Hn.
    dmatch H; inversion H; subst; clear H; unfold do_post;
      (eapply unchanged_trans; [|apply unchanged_stg]);
      (apply writes_sound_upd; [apply keeps_post| |]); right; intro; subst v; apply Hn; zb; subst; simpl; tauto.
  - simpl in H. dmatch H; inversion H; subst; same_state v.
  - (* LRead *)
    simpl in H. cbn [fp] in Hn. dmatch H; inversion H; subst; clear H; [|same_state v].
    apply writes_sound_upd; [apply keeps_read|left; intro; reflexivity|right; intro; subst v; apply Hn; simpl; tauto].
  - (* LClear *)
    simpl in H. cbn [fp] in Hn. dmatch H; inversion H; subst; clear H.
    apply writes_sound_upd; [apply keeps_clear|right; intro; subst v; apply Hn; simpl; tauto|left; intro; reflexivity].
  - (* LHandler *)
    simpl in H. dmatch H; inversion H; subst; clear H.
    apply writes_sound_upd; [apply keeps_idle|left; intro; reflexivity|left; intro; reflexivity].
  - simpl in H. dmatch H; inversion H; subst; same_state v.
  - (* LMask *) simpl in H. dmatch H; inversion H; subst; same_state v.
  - (* LSaMask *) simpl in H. dmatch H; inversion H; subst; same_state v.
Qed.

(* ---- the C14 statements for iv_signal ---- *)
Lemma disc_r : forall s l s', lreachable (step_gen true) init s -> step s l = Some s' ->
  disciplined actor holder mode cls fp s l s'.
Proof. intros s l s' Hr. apply step_disciplined. apply lreachable_iff. exact Hr. Qed.

Lemma acqf_r : forall s l s' k, lreachable (step_gen true) init s -> step s l = Some s' -> mode l k = Acq -> holder s k = None.
Proof. intros s l s' k _. apply acq_free. Qed.

Lemma signal_lock_discipline : forall pre l post send,
  run init (pre ++ l :: post) = Some send ->
  exists s s', run init pre = Some s /\ step s l = Some s' /\ disciplined actor holder mode cls fp s l s'.
Proof.
  intros pre l post send H. rewrite <- lrun_run in H.
  destruct (trace_discipline disc_r _ _ _ H) as [s [s' [A [B C]]]].
  exists s, s'. rewrite <- lrun_run. auto.
Qed.

Lemma signal_no_concurrent_conflict : forall s l1 l2 s1 s2 v w1 w2,
  reachable s -> lthr l1 <> lthr l2 ->
  step s l1 = Some s1 -> step s l2 = Some s2 ->
  In (v, w1) (fp s l1) -> In (v, w2) (fp s l2) ->
  match cls s v with
  | ByLock _ => l1 = LLock (lthr l1) /\ l2 = LLock (lthr l2) /\ lock s = None /\
                lock s1 = Some (lthr l1) /\ lock s2 = Some (lthr l2) /\ step s1 l2 = None /\ step s2 l1 = None
  | ByThread _ => False
  | _ => True
  end.
Proof.
  intros s l1 l2 s1 s2 v w1 w2 Hr Hne S1 S2 I1 I2. apply lreachable_iff in Hr.
  pose proof (no_concurrent_conflict disc_r acqf_r l1 l2 v w1 w2 Hr eq_refl eq_refl Hne S1 S2 I1 I2) as N.
  destruct (cls s v) as [k|t|k t| |]; try exact I; try exact N.
  destruct N as (M1 & M2 & N). destruct l1; try discriminate M1. destruct l2; try discriminate M2.
  split; [reflexivity|]. split; [reflexivity|]. exact N.
Qed.

Lemma signal_cs_stable : forall s l s' v, reachable s -> step s l = Some s' ->
  match cls s v with
  | ByLock _ => forall t, lock s = Some t -> lthr l <> t -> unchanged v s s'
  | ByThread t => lthr l <> t -> unchanged v s s'
  | _ => True
  end.
Proof.
  intros s l s' v Hr S. pose proof Hr as Hr0. apply lreachable_iff in Hr.
  assert (WS : writes_sound (step_gen true) init fp unchanged).
  { intros s0 l0 s0' v0 R0 S0. apply step_writes_sound; [apply lreachable_iff; exact R0|exact S0]. }
  pose proof (cs_stable disc_r WS l v Hr S) as N.
  destruct (cls s v) as [k|t|k t| |]; try exact I.
  - intros t Hh Ha. apply (N t Hh). unfold actor. congruence.
  - intros Ha. apply N. unfold actor. congruence.
Qed.

(* non-vacuity: thread 0 owns the process-wide interest 1 for signal 10.  A first delivery in
   thread 1 marks it (under sig_lock); thread 0 reads the event.  At state s a second delivery has
   entered the handler in thread 1 while thread 0 is about to clear ->active: both want sig_lock,
   both lock calls are enabled; once thread 1 has it, its write of ->active is enabled and thread
   0's conflicting clear and lock call are refused *)
Definition ex_prefix : list label :=
  [LMask 0 true; LLock 0; LSaMask 0 10 true; LReg 0 1 10 false false 1000 (Some true); LUnlock 0; LMask 0 false;
   LSigEnter 1 10 false; LLock 1; LPost 1 1; LUnlock 1; LSigExit 1; LRead 0 1; LMask 0 true; LSigEnter 1 10 false].
Definition ex_trace : list label :=
  ex_prefix ++ [LLock 1; LPost 1 1; LUnlock 1; LSigExit 1; LLock 0; LClear 0 1; LUnlock 0; LMask 0 false; LHandler 0 1;
                LRead 0 1; LMask 0 true; LLock 0; LClear 0 1; LUnlock 0; LMask 0 false; LHandler 0 1; LBlock 0].

Lemma signal_nonvacuous :
  accepts ex_trace = true /\
  (exists s s1, run init ex_prefix = Some s /\
     step s (LLock 0) <> None /\ step s (LLock 1) = Some s1 /\
     conflict var_eqb (fp s1 (LPost 1 1)) (fp s1 (LClear 0 1)) = true /\
     cls s1 (VActive 1) = ByLock tt /\
     step s1 (LPost 1 1) <> None /\ step s1 (LClear 0 1) = None /\ step s1 (LLock 0) = None).
Proof.
  split; [vm_compute; reflexivity|].
  eexists; eexists. repeat split; try (vm_compute; reflexivity); vm_compute; discriminate.
Qed.
