(* WorkMTSim.v -- every label sequence accepted by MT/WorkMT.v passes the monitors of MT/WorkMTMon.v:
   the monitor states are abstractions of the model state (simulation) *)
From Coq Require Import List ZArith Bool Arith Lia.
From Ivv Require Import MT.WorkMT MT.WorkMTBase MT.WorkMTSpec MT.WorkMTCs MT.WorkMTInvA MT.WorkMTInvW MT.WorkMTInvW4
  MT.WorkMTInvW5 MT.WorkMTProofs MT.WorkMTInvI MT.WorkMTInvT MT.WorkMTMon.
Import ListNotations.
Local Open Scope Z_scope.

(* ---------- pool threads inside a work function ---------- *)
Lemma work_upd_same : forall (f : nat -> wrec) k r l, is_work (wpcf r) = is_work (wpcf (f k)) ->
  length (filter (fun w => is_work (wpcf (upd f k r w))) l) = length (filter (fun w => is_work (wpcf (f w))) l).
Proof.
  intros. apply (cnt_ext (fun w => is_work (wpcf (upd f k r w))) (fun w => is_work (wpcf (f w)))).
  intros. destruct (upd_cases _ f k r x) as [(-> & ->) | (_ & ->)]; auto.
Qed.

Lemma work_upd_notin : forall (f : nat -> wrec) k r l, ~ In k l ->
  length (filter (fun w => is_work (wpcf (upd f k r w))) l) = length (filter (fun w => is_work (wpcf (f w))) l).
Proof. intros. apply (cnt_upd_notin wrec (fun r => is_work (wpcf r)) f k r l H). Qed.

Lemma work_upd_in : forall (f : nat -> wrec) k r l, NoDup l -> In k l ->
  (length (filter (fun w => is_work (wpcf (upd f k r w))) l) + (if is_work (wpcf (f k)) then 1 else 0) =
   length (filter (fun w => is_work (wpcf (f w))) l) + (if is_work (wpcf r) then 1 else 0))%nat.
Proof. intros. apply (cnt_upd_in wrec (fun r => is_work (wpcf r)) f k r l H H0). Qed.

Definition dwork (o : nat) (l : label) : Z :=
  match l with
  | LWork t _ => if Nat.eqb t o then 0 else 1
  | LRet t _ => if Nat.eqb t o then 0 else -1
  | _ => 0
  end.

Lemma nwork_step : forall s l s', TB s -> step s l = Some s' ->
  Z.of_nat (nwork s') = Z.of_nat (nwork s) + dwork (own s) l.
Proof.
  intros s l s' (_ & TO & _ & T4 & T5 & ND) H.
  step_inv H.
  all: repeat match goal with E : lthr _ = Some _ |- _ => simpl in E; inversion E; subst; clear E end.
  all: hold_facts; cs_facts; unfold nwork, wpc_of, dwork in *; ssimp; ifs; ssimp; try lia.
  all: outs; subst.
  all: rewrite ?work_upd_same by (cbn [wpcf]; repeat match goal with E : wpcf _ = _ |- _ => rewrite E end; reflexivity).
  all: try lia.
  all: unfold own_idle_ctx in *; bools; subst; try congruence.
  all: try match goal with M : memb ?n0 (tids ?s0) = false |- _ =>
         apply memb_false in M; assert (NW : ~ In n0 (wids s0)) by (intros Q; apply T4 in Q; tauto);
         cbn [filter]; rewrite upd_same; cbn [wpcf is_work]; rewrite (work_upd_notin (wk s0) n0 _ (wids s0) NW); lia end.
  all: try match goal with E : wpcf (wk ?s0 ?n) = _ |- context [upd (wk ?s0) ?n ?r] =>
         assert (INW : In n (wids s0)) by (apply T5; unfold wpc_of; rewrite E; discriminate);
         pose proof (work_upd_in (wk s0) n r (wids s0) ND INW) as X; rewrite E in X; cbn [wpcf is_work] in X;
         try lia;
         exfalso; apply TO; apply T4 in INW; tauto end.
Qed.

(* ---------- hooks ---------- *)
Definition is_stop (e : eff) : bool := match e with FStop => true | _ => false end.

(* at most one stop hook is owed *)
Definition NS (s : state) : Prop := (length (filter is_stop (todo s)) <= 1)%nat.

Lemma stop_postw : forall l, filter is_stop (map FPostW l) = [].
Proof. induction l; simpl; auto. Qed.

Lemma NS_step : forall s l s', (lock s = None -> todo s = []) -> NS s -> step s l = Some s' -> NS s'.
Proof.
  intros s l s' AT I H.
  step_inv H.
  all: hold_facts; cs_facts; unfold NS in *; ssimp; ifs; ssimp; try assumption.
  all: try match goal with E : todo _ = _ |- _ => rewrite E in I; cbn [filter is_stop length] in I end.
  all: outs; subst; unfold die_effs; rewrite ?filter_app, ?app_length, ?stop_postw; cbn [filter is_stop length app].
  all: ifs; cbn [filter is_stop length app]; try lia.
Qed.

Definition abs_hook (s : state) (t : nat) : mhook :=
  match wpc_of s t with
  | WNone | WStart0 => HkNone
  | WDead => if holds s t && existsb is_stop (todo s) then HkStarted else HkStopped
  | _ => HkStarted
  end.

(* a pool thread whose iv_thread record has left TRun is dead and outside the pool lock *)
Definition WP (s : state) : Prop := forall n, tk (th s n) = KWorker ->
  tp (th s n) = TRun \/ (wpc_of s n = WDead /\ lock s <> Some n).

Lemma WP_step : forall s l s', TB s -> AAct s -> WP s -> step s l = Some s' -> WP s'.
Proof.
  intros s l s' (_ & TO & T3 & T4 & T5 & _) AA I H.
  step_inv H.
  all: repeat match goal with E : lthr _ = Some _ |- _ => simpl in E; inversion E; subst; clear E end.
  all: hold_facts; cs_facts; unfold WP, wpc_of in *; ssimp; ifs; ssimp; try assumption.
  all: intros xx X; unfold upd in *.
  all: repeat match goal with
       | |- context [Nat.eqb ?a ?b] => destruct (Nat.eqb a b) eqn:?; bools; subst
       | H : context [Nat.eqb ?a ?b] |- _ => destruct (Nat.eqb a b) eqn:?; bools; subst
       end; cbn [tp tk wpcf] in *; try discriminate.
  all: try (left; reflexivity).
  all: try (destruct (I _ X) as [A | (A & B)]; [left; assumption | right; split; [assumption | congruence]]; fail).
  all: try (destruct (I _ X) as [A | (A & B)]; [left; assumption | congruence]; fail).
  all: try (right; split; [assumption | congruence]; fail).
  all: try (destruct (I _ X) as [A | (A & B)]; [left; assumption |];
            right; split; [assumption |]; intros Q; inversion Q; subst; try congruence;
            apply TO; apply T3; rewrite X; discriminate).
  all: try congruence.
  all: try (destruct (I _ X) as [A | (A & B)]; [congruence | right; split; assumption]).
  all: destruct (I _ X) as [A | (A & B)]; [left; assumption | right; split; [assumption |]].
  all: intros Q; inversion Q; subst.
  all: match goal with E : act _ ?n = ASubmit _ _ |- _ => destruct (AA n) as [Y | [(i1 & l1 & Y) | (Y & _)]]; [rewrite E; discriminate | congruence | unfold wpc_of in Y; congruence | congruence] end.
Qed.

Definition hook_after (s : state) (l : label) (t0 : nat) : mhook :=
  match l with
  | LHookStart t => if Nat.eqb t0 t then HkStarted else abs_hook s t0
  | LHookStop t => if Nat.eqb t0 t then HkStopped else abs_hook s t0
  | _ => abs_hook s t0
  end.

Lemma stop_false : forall l, (length (filter is_stop l) <= 0)%nat -> existsb is_stop l = false.
Proof. induction l; simpl; auto. destruct (is_stop a); simpl; intros; [lia | auto]. Qed.

Lemma hook_step : forall s l s', TB s -> (lock s = None -> todo s = []) -> WU s -> NS s -> step s l = Some s' ->
  forall t0, abs_hook s' t0 = hook_after s l t0.
Proof.
  intros s l s' (_ & TO & T3 & T4 & T5 & _) AT U N H.
  step_inv H.
  all: repeat match goal with E : lthr _ = Some _ |- _ => simpl in E; inversion E; subst; clear E end.
  all: hold_facts; cs_facts; unfold hook_after, abs_hook, holds, wpc_of, NS in *; ssimp; ifs; ssimp; try reflexivity.
  all: intros t0.
  all: try match goal with E : lock _ = None |- _ => pose proof (AT E) as TD end.
  all: repeat match goal with E : lock _ = _ |- _ => rewrite E in * | E : todo _ = _ |- _ => rewrite E in * end.
  all: outs; subst; unfold die_effs.
  all: unfold upd; repeat match goal with |- context [Nat.eqb ?a ?b] => destruct (Nat.eqb a b) eqn:?; bools; subst end; cbn [wpcf].
  all: repeat match goal with E : wpcf _ = _ |- _ => rewrite E end.
  all: cbn [existsb is_stop orb andb app]; rewrite ?existsb_app; cbn [existsb is_stop orb andb].
  all: try reflexivity.
  all: try (destruct (wpcf (wk s t0)) eqn:PT; reflexivity).
  all: try congruence.
  all: try discriminate.
  all: try (cbn [filter is_stop length] in N; rewrite (stop_false l0) by lia).
  all: try match goal with E3 : lock ?s0 = Some ?t, E5 : todo ?s0 = FStop :: _ |- _ =>
         assert (WD : wpc_of s0 t = WDead) by (apply U; right; split; [rewrite E5; now left | assumption]);
         unfold wpc_of in WD; rewrite WD end.
  all: try reflexivity.
  all: try (destruct (wpcf (wk s t0)) eqn:PT; reflexivity).
  - (* a new pool thread: its id was not a worker before *)
    apply memb_false in H0. destruct (wpcf (wk s n0)) eqn:PT; auto; exfalso; apply H0;
      assert (IN : In n0 (wids s)) by (apply T5; unfold wpc_of; rewrite PT; discriminate); apply T4 in IN; tauto.
  - rewrite orb_true_r. reflexivity.
  - assert (X : existsb is_stop (map FPostW (pidle p)) = false) by (induction (pidle p); simpl; auto).
    rewrite X. reflexivity.
Qed.

(* ---------- what the guards of step say about the acting thread ---------- *)
Definition facts (s : state) (l : label) : Prop :=
  match l with
  | LLocal t _ | LCompl t _ | LCreate t _ | LPut t | LMainEnd t | LTJoin t _ | LTCreate t _ | LMain t | LCallback t => t = own s
  | LWork t i => (items s i = IQ -> exists last, wpc_of s t = WTake i last) /\ (items s i = ILQ -> t = own s)
  | LRet t i => (items s i = IW -> exists last, wpc_of s t = WWork i last) /\ (items s i = ILW -> t = own s)
  | LHookStart t => wpc_of s t = WStart0
  | LHookStop t => lock s = Some t /\ exists r, todo s = FStop :: r
  | LTFin t => tp (th s t) = TPosted /\ lock s <> Some t
  | _ => True
  end.

Lemma step_facts : forall s l s', step s l = Some s' -> facts s l.
Proof.
  intros s l s' H.
  step_inv H.
  all: repeat match goal with E : lthr _ = Some _ |- _ => simpl in E; inversion E; subst; clear E end.
  all: hold_facts; unfold facts, own_may_act, own_idle_ctx, wpc_of in *; bools; subst; auto.
  all: try (split; intros Q; try congruence; eauto; fail).
  all: try (split; eauto; fail).
Qed.

(* max_threads never changes *)
Definition pm_rel (s s' : state) (l : label) : Prop :=
  match pl s, pl s' with
  | PNone, PNone => True
  | PNone, PLive p' => exists t, l = LCreate t (pmax p')
  | PLive p, PLive p' => pmax p' = pmax p
  | PLive _, PFreed => True
  | PFreed, PFreed => True
  | _, _ => False
  end.

Lemma pm_step : forall s l s', ALock s -> step s l = Some s' -> pm_rel s s' l.
Proof.
  intros s l s' AL H.
  step_inv H.
  all: hold_facts; cs_facts; unfold pm_rel; ssimp; ifs; ssimp.
  all: repeat match goal with E : pl _ = _ |- _ => rewrite E end.
  all: outs; subst; cbn [pmax p_set_items p_set_head p_set_tail p_set_idle p_set_done p_set_started p_set_shut]; auto.
  all: try (destruct (pl s) eqn:P; auto; fail).
  all: eauto.
  destruct (AL _ E3) as (p & P). now rewrite P.
Qed.

(* ---------- states in which no item can be in flight ---------- *)
Lemma all_idle : forall s, AAct s -> SI s ->
  (forall w, wpc_of s w = WNone \/ wpc_of s w = WDead) ->
  (forall t, tk (th s t) = KHelper -> tp (th s t) = TFin \/ tp (th s t) = TJoined) ->
  act s (own s) = ANone -> otopb s = true ->
  lq s = [] -> lbatch s = [] -> pitems_of s = [] -> pdone_of s = [] ->
  forall i, items s i = IIdle.
Proof.
  intros s AA I DW HD AO OT LQ LB PI PD i. specialize (I i). destruct (items s i) eqn:IT; auto; exfalso.
  - destruct I as [X | [(t & X) | (w & l & X)]].
    + rewrite PI in X. destruct X.
    + destruct (AA t) as [Y | [(i1 & l1 & Y) | (Y & Z)]]; [rewrite X; discriminate | subst; congruence | |].
      * destruct (DW t); congruence.
      * destruct (HD t Y) as [Q | Q]; rewrite Q in Z; destruct Z; discriminate.
    + destruct (DW w); congruence.
  - destruct I as (w & l & X). destruct (DW w); congruence.
  - destruct I as [(w & l & X) | [X | (l & X & Y)]].
    + destruct (DW w); congruence.
    + rewrite PD in X. destruct X.
    + unfold otopb in OT. rewrite X in OT. destruct l; [destruct Y | discriminate].
  - rewrite LQ, LB in I. destruct I.
  - rewrite LB in I. destruct I.
  - rewrite LB in I. destruct I.
Qed.

Lemma quiescent_idle : forall s, Inv s -> SI s -> quiescent s = true ->
  (forall i, items s i = IIdle) /\ pitems_of s = [] /\ pdone_of s = [].
Proof.
  intros s IV I Q. pose proof (quiescent_workers_dead s IV Q) as DW.
  destruct IV as [i_tb0 i_todo0 i_act0 i_lock0 i_pn0 i_wf0 i_wu0 i_w10 i_w1b0 i_idle0 i_w20 i_w40 i_hfx0 i_w50].
  unfold quiescent in Q. bools.
  assert (LN : lock s = None) by (destruct (lock s); auto; discriminate).
  assert (TD : todo s = []) by auto.
  assert (AO : act s (own s) = ANone) by (destruct (act s (own s)); auto; discriminate).
  assert (PI : pitems_of s = []).
  { unfold pitems_of. destruct (pl s) as [|p|] eqn:P; auto. destruct (pitems p) eqn:IT; auto. exfalso.
    destruct (i_w40 p P) as [X | [(w & _ & [X | (X & _)]) | ([X | [X | X]] & _)]]; [rewrite IT; discriminate | rewrite TD in X; destruct X | | | | |].
    - destruct (DW w) as [Y | Y]; rewrite Y in X; discriminate.
    - destruct (DW w); congruence.
    - match goal with A : opend s = [], B : obatch s = [] |- _ => rewrite A, B in X end. destruct X.
    - match goal with T : otopb s = true |- _ => unfold otopb in T; rewrite X in T; discriminate end.
    - rewrite TD in X. destruct X. }
  assert (PD : pdone_of s = []).
  { unfold pdone_of. destruct (pl s) as [|p|] eqn:P; auto. destruct (pdone p) eqn:DN; auto. exfalso.
    destruct (i_w50 p P) as (W & _). destruct W as [X | [X | X]]; [rewrite DN; discriminate | | |].
    - match goal with A : opend s = [], B : obatch s = [] |- _ => rewrite A, B in X end. destruct X.
    - match goal with T : otopb s = true |- _ => unfold otopb in T; rewrite X in T; discriminate end.
    - rewrite TD in X. destruct X. }
  split; [| split; auto]. eapply all_idle; eauto.
  intros t KH. destruct i_tb0 as (_ & _ & T3 & _).
  assert (IN : In t (tids s)) by (apply T3; rewrite KH; discriminate).
  match goal with F : forallb _ _ = true |- _ => rewrite forallb_forall in F; specialize (F t IN) end.
  unfold quiet_thread in *. rewrite KH in *. destruct (tp (th s t)); try discriminate; auto.
Qed.

Lemma no_pool_workers : forall s, Inv s -> (forall p, pl s <> PLive p) ->
  forall w, wpc_of s w = WNone \/ wpc_of s w = WDead.
Proof.
  intros s IV NP w. destruct IV as [(_ & _ & _ & T4 & T5 & _) _ _ _ _ _ _ _ (_ & B) _ _ _ _ _].
  specialize (B NP). destruct (wpc_of s w) eqn:PC; auto; exfalso.
  all: assert (INW : In w (wids s)) by (apply T5; rewrite PC; discriminate).
  all: unfold nlive in B; assert (X : In w (filter (fun w => is_live (wpc_of s w)) (wids s))) by
         (apply filter_In; split; auto; rewrite PC; reflexivity).
  all: destruct (filter (fun w => is_live (wpc_of s w)) (wids s)); [destruct X | discriminate B].
Qed.

Lemma cntU_zero : forall s n, cntU s = 0%nat -> In n (tids s) -> tp (th s n) = TJoined.
Proof.
  unfold cntU. intros s n Z IN.
  destruct (tp (th s n)) eqn:TP; auto; exfalso.
  all: assert (X : In n (filter (fun n => unjoined (th s n)) (tids s))) by (apply filter_In; split; auto; unfold unjoined; rewrite TP; reflexivity).
  all: destruct (filter (fun n => unjoined (th s n)) (tids s)); [destruct X | discriminate Z].
Qed.

Lemma mainend_state : forall s t s', Inv s -> SI s -> ON s -> step s (LMainEnd t) = Some s' ->
  (forall i, items s i = IIdle) /\ cntU s = 0%nat /\ (forall p, pl s <> PLive p).
Proof.
  intros s t s' IV I O H.
  step_inv H. bools. unfold own_idle_ctx in *. bools. subst.
  unfold ON in O.
  match goal with ZQ : (onum _ =? 0) = true |- _ => apply Z.eqb_eq in ZQ; rewrite ZQ in O end.
  assert (NP : forall p, pl s <> PLive p).
  { intros p P. rewrite P in O. lia. }
  assert (CU : cntU s = 0%nat) by (destruct (pl s); lia).
  split; [| split; auto].
  eapply all_idle; eauto.
  - exact (i_act s IV).
  - now apply no_pool_workers.
  - intros t0 KH. right. apply cntU_zero; auto. destruct (i_tb s IV) as (_ & _ & T3 & _). apply T3. rewrite KH. discriminate.
  - destruct (act s (own s)); auto; discriminate.
  - unfold pitems_of. destruct (pl s) eqn:P; auto. elim (NP p); auto.
  - unfold pdone_of. destruct (pl s) eqn:P; auto. elim (NP p); auto.
Qed.

(* once iv_main of the owner has returned nothing is in flight and every created thread has been joined *)
Definition MA (s : state) : Prop := omain s = MAfter -> (forall i, items s i = IIdle) /\ cntU s = 0%nat.

Lemma MA_step : forall s l s', Inv s -> SI s -> ON s -> MA s -> step s l = Some s' -> MA s'.
Proof.
  intros s l s' IV I O M H.
  destruct l; try (step_inv H; unfold MA, cntU in *; ssimp; ifs; ssimp; bools;
                   try (intros X; discriminate X);
                   try (intros X; exfalso; apply orb_false_iff in E; destruct E as (_ & E); rewrite X in E; discriminate E); fail).
  - (* LMainEnd *)
    destruct (mainend_state _ _ _ IV I O H) as (A & B & _).
    step_inv H. unfold MA, cntU in *. ssimp. intros _. auto.
  - (* LDone *)
    step_inv H; unfold MA, cntU in *; ssimp; auto.
Qed.

(* ---------- all invariants together ---------- *)
Record Inv2 (s : state) : Prop := mkInv2 {
  j_inv : Inv s; j_si : SI s; j_tkr : TKR s; j_hfj : HFJ s; j_jj : JJ s; j_on : ON s; j_ns : NS s; j_wp : WP s; j_ma : MA s }.

Lemma Inv2_init : forall o, Inv2 (init o).
Proof.
  intros o. constructor.
  - apply Inv_init.
  - intros i. cbn. exact Logic.I.
  - intros n _. reflexivity.
  - intros l m X. discriminate X.
  - intros n X. discriminate X.
  - unfold ON, cntU. cbn. reflexivity.
  - unfold NS. cbn. lia.
  - intros n X. discriminate X.
  - intros X. discriminate X.
Qed.

Lemma Inv2_step : forall s l s', Inv2 s -> step s l = Some s' -> Inv2 s'.
Proof.
  intros s l s' [IV SI0 TK HJ JJ0 ON0 NS0 WP0 MA0] H. pose proof IV as IV'. destruct IV'. constructor.
  - eapply Inv_step; eauto.
  - eapply SI_step; eauto.
  - eapply TKR_step; eauto.
  - eapply HFJ_step; eauto.
  - eapply JJ_step; eauto.
  - eapply ON_step; eauto.
  - eapply NS_step; eauto.
  - eapply WP_step; eauto.
  - eapply MA_step; eauto.
Qed.

Lemma Inv2_run : forall o tr s, run (init o) tr = Some s -> Inv2 s.
Proof. intros o. apply run_ind_inv. - apply Inv2_init. - apply Inv2_step. Qed.

(* ---------- simulation of the C12 monitor ---------- *)
Definition abs_it (o : nat) (x : ist) : mist :=
  match x with
  | IIdle => MIdle
  | IQ => MQ MPool | IW => MW MPool | IR => MR MPool
  | ILQ => MQ (MLocal o) | ILW => MW (MLocal o) | ILR => MR (MLocal o)
  end.

Definition R12 (s : state) (m : m12) : Prop :=
  m_own m = own s /\
  (forall i, m_it m i = abs_it (own s) (items s i)) /\
  (forall i, In i (m_inflight m) -> items s i <> IIdle) /\
  m_run m = Z.of_nat (nwork s) /\
  (forall t, m_hook m t = abs_hook s t) /\
  match pl s with
  | PNone => m_max m = None
  | PLive p => m_max m = Some (pmax p)
  | PFreed => m_max m <> None
  end.

Lemma R12_init : forall o, R12 (init o) (m12_init o).
Proof. intros o. unfold R12. cbn. repeat split; auto. Qed.

Definition max_ok (s : state) (mx : option Z) : Prop :=
  match pl s with
  | PNone => mx = None
  | PLive p => mx = Some (pmax p)
  | PFreed => mx <> None
  end.

Lemma max_keep : forall s s' l mx, pm_rel s s' l -> (forall t z, l <> LCreate t z) -> max_ok s mx -> max_ok s' mx.
Proof.
  unfold pm_rel, max_ok. intros s s' l mx P NL M.
  destruct (pl s) as [|p|], (pl s') as [|p'|]; auto; try contradiction.
  - destruct P as (t & ->). elim (NL t (pmax p')). reflexivity.
  - rewrite P. auto.
  - rewrite M. discriminate.
Qed.

Lemma R12_frame : forall s s' m l, R12 s m -> own s' = own s -> items s' = items s ->
  Z.of_nat (nwork s') = Z.of_nat (nwork s) -> (forall t, abs_hook s' t = abs_hook s t) ->
  pm_rel s s' l -> (forall t z, l <> LCreate t z) -> R12 s' m.
Proof.
  unfold R12. intros s s' m l (R1 & R2 & R3 & R4 & R5 & R6) O I N HK P NL.
  rewrite O, I, N. repeat split; auto.
  - intros t. rewrite HK. auto.
  - eapply max_keep; eauto.
Qed.

Lemma R12_item : forall s s' m l i x fl r, R12 s m -> own s' = own s -> items s' = upd (items s) i x ->
  (forall j, In j fl -> upd (items s) i x j <> IIdle) -> r = Z.of_nat (nwork s') ->
  (forall t, abs_hook s' t = abs_hook s t) -> pm_rel s s' l -> (forall t z, l <> LCreate t z) ->
  R12 s' (set_it m i (abs_it (own s) x) fl r).
Proof.
  unfold R12, set_it. intros s s' m l i x fl r (R1 & R2 & R3 & R4 & R5 & R6) O I F N HK P NL. cbn.
  rewrite O, I. repeat split; auto.
  - intros j. unfold upd. destruct (Nat.eqb j i); auto.
  - intros t. rewrite HK. auto.
  - eapply max_keep; eauto.
Qed.

Lemma inflight_cons : forall (it : nat -> ist) fl i x, (forall j, In j fl -> it j <> IIdle) -> x <> IIdle ->
  forall j, In j (i :: fl) -> upd it i x j <> IIdle.
Proof.
  intros. unfold upd. destruct (Nat.eqb j i) eqn:Q; auto. apply Nat.eqb_neq in Q. destruct H1; [congruence | auto].
Qed.

Lemma inflight_keep : forall (it : nat -> ist) fl i x, (forall j, In j fl -> it j <> IIdle) -> x <> IIdle ->
  forall j, In j fl -> upd it i x j <> IIdle.
Proof. intros. unfold upd. destruct (Nat.eqb j i); auto. Qed.

Lemma inflight_drop : forall (it : nat -> ist) fl i, (forall j, In j fl -> it j <> IIdle) ->
  forall j, In j (filter (fun j => negb (Nat.eqb j i)) fl) -> upd it i IIdle j <> IIdle.
Proof.
  intros. apply filter_In in H0. destruct H0 as (A & B). apply negb_true_iff in B. unfold upd. rewrite B. auto.
Qed.

Lemma run_bound : forall s, Inv s -> 1 <= Z.of_nat (nwork s) ->
  exists p, pl s = PLive p /\ Z.of_nat (nwork s) <= pmax p.
Proof.
  intros s IV N. pose proof (nwork_le_nlive s) as LE. destruct IV. destruct i_w1b as (B1 & B2).
  destruct (pl s) as [|p|] eqn:P.
  - assert (nlive s = 0%nat) by (apply B2; intros q; discriminate). lia.
  - exists p. split; auto. destruct (B1 p eq_refl) as (C1 & C2 & C3). lia.
  - assert (nlive s = 0%nat) by (apply B2; intros q; discriminate). lia.
Qed.

Lemma worker_not_owner : forall s t, TB s -> wpc_of s t <> WNone -> t <> own s.
Proof.
  intros s t (_ & TO & _ & T4 & T5 & _) W ->. apply TO. apply T5 in W. apply T4 in W. tauto.
Qed.

Lemma sim12 : forall s l s' m, Inv2 s -> R12 s m -> step s l = Some s' ->
  exists m', mstep12 m l = Some m' /\ R12 s' m'.
Proof.
  intros s l s' m J R H.
  pose proof (Inv2_step _ _ _ J H) as J'.
  destruct J as [IV SI0 TK HJ JJ0 ON0 NS0 WP0 MA0]. pose proof IV as IV0. destruct IV0.
  pose proof (items_step _ _ _ H) as IS.
  pose proof (nwork_step _ _ _ i_tb H) as NW.
  pose proof (hook_step _ _ _ i_tb i_todo i_wu NS0 H) as HK.
  pose proof (own_step _ _ _ H) as OW.
  pose proof (pm_step _ _ _ i_lock H) as PM.
  pose proof (step_facts _ _ _ H) as FA.
  destruct l; cbn [mstep12 istep dwork hook_after facts] in *.
  all: try (eexists; split; [reflexivity |]; inversion IS; eapply R12_frame; eauto; try lia; intros; discriminate).
  all: pose proof R as RR; destruct R as (R1 & R2 & R3 & R4 & R5 & R6).
  - (* LCreate *)
    clear IS NW HK PM. step_inv H. try match goal with E : pl _ = PNone |- _ => rewrite E in R6 end. rewrite R6.
    eexists. split; [reflexivity |]. unfold R12, nwork, abs_hook, wpc_of, holds in *. cbn. repeat split; auto.
  - (* LSubmit *)
    destruct (items s i) eqn:IT; try discriminate. inversion IS as [IQ']. rewrite (R2 i), IT. cbn [abs_it].
    eexists. split; [reflexivity |]. change (MQ MPool) with (abs_it (own s) IQ).
    eapply (R12_item s s' m (LSubmit t i)); eauto; try lia; try (intros; discriminate).
    apply inflight_cons; auto. discriminate.
  - (* LLocal *)
    subst t. destruct (items s i) eqn:IT; try discriminate. inversion IS as [IQ']. rewrite (R2 i), IT. cbn [abs_it].
    eexists. split; [reflexivity |]. change (MQ (MLocal (own s))) with (abs_it (own s) ILQ).
    eapply (R12_item s s' m (LLocal (own s) i)); eauto; try lia; try (intros; discriminate).
    apply inflight_cons; auto. discriminate.
  - (* LWork *)
    destruct FA as (FA1 & FA2).
    destruct (items s i) eqn:IT; try discriminate; inversion IS as [IQ']; rewrite (R2 i), IT; cbn [abs_it].
    + destruct (FA1 eq_refl) as (last & WT).
      assert (NO : t <> own s) by (apply worker_not_owner; auto; rewrite WT; discriminate).
      assert (NB : Nat.eqb t (own s) = false) by (now apply Nat.eqb_neq).
      rewrite NB in NW.
      destruct (run_bound s' (j_inv s' J')) as (p' & P' & BD); [lia |].
      assert (MX : m_max m = Some (pmax p')).
      { unfold pm_rel in PM. rewrite P' in PM. destruct (pl s) as [|p|]; try contradiction.
        - destruct PM as (t1 & X). discriminate X.
        - rewrite R6, PM. reflexivity. }
      rewrite R1, NB, (R5 t), MX. unfold abs_hook. rewrite WT. cbn [negb andb].
      assert (LE : (m_run m + 1 <=? pmax p') = true) by (apply Z.leb_le; lia). rewrite LE.
      eexists. split; [reflexivity |]. change (MW MPool) with (abs_it (own s) IW).
      eapply (R12_item s s' m (LWork t i)); eauto; try lia; try (intros; discriminate).
      apply inflight_keep; auto. discriminate.
    + rewrite (FA2 eq_refl) in *. rewrite Nat.eqb_refl in *.
      eexists. split; [reflexivity |]. change (MW (MLocal (own s))) with (abs_it (own s) ILW).
      eapply (R12_item s s' m (LWork (own s) i)); eauto; try lia; try (intros; discriminate).
      apply inflight_keep; auto. discriminate.
  - (* LRet *)
    destruct FA as (FA1 & FA2).
    destruct (items s i) eqn:IT; try discriminate; inversion IS as [IQ']; rewrite (R2 i), IT; cbn [abs_it].
    + destruct (FA1 eq_refl) as (last & WT).
      assert (NO : t <> own s) by (apply worker_not_owner; auto; rewrite WT; discriminate).
      assert (NB : Nat.eqb t (own s) = false) by (now apply Nat.eqb_neq).
      rewrite NB in NW. rewrite R1, NB. cbn [negb].
      eexists. split; [reflexivity |]. change (MR MPool) with (abs_it (own s) IR).
      eapply (R12_item s s' m (LRet t i)); eauto; try lia; try (intros; discriminate).
      apply inflight_keep; auto. discriminate.
    + rewrite (FA2 eq_refl) in *. rewrite Nat.eqb_refl in *.
      eexists. split; [reflexivity |]. change (MR (MLocal (own s))) with (abs_it (own s) ILR).
      eapply (R12_item s s' m (LRet (own s) i)); eauto; try lia; try (intros; discriminate).
      apply inflight_keep; auto. discriminate.
  - (* LCompl *)
    subst t.
    destruct (items s i) eqn:IT; try discriminate; inversion IS as [IQ']; rewrite (R2 i), IT; cbn [abs_it kind_thread_ok];
      rewrite ?R1, Nat.eqb_refl; eexists; (split; [reflexivity |]); change MIdle with (abs_it (own s) IIdle);
      eapply (R12_item s s' m (LCompl (own s) i)); eauto; try lia; try (intros; discriminate); apply inflight_drop; auto.
  - (* LHookStart *)
    rewrite (R5 t). unfold abs_hook at 1. rewrite FA. eexists. split; [reflexivity |].
    inversion IS as [IQ']. unfold R12. cbn. rewrite OW, <- IQ'. repeat split; auto; try lia.
    + intros t0. rewrite HK. unfold upd. destruct (Nat.eqb t0 t); auto.
    + eapply max_keep; eauto. intros; discriminate.
  - (* LHookStop *)
    destruct FA as (LK & r & TD).
    assert (WD : wpc_of s t = WDead) by (apply i_wu; right; split; [rewrite TD; now left | assumption]).
    rewrite (R5 t). unfold abs_hook at 1. rewrite WD. unfold holds. rewrite LK, Nat.eqb_refl, TD. cbn [existsb is_stop orb andb].
    eexists. split; [reflexivity |].
    inversion IS as [IQ']. unfold R12. cbn. rewrite OW, <- IQ'. repeat split; auto; try lia.
    + intros t0. rewrite HK. unfold upd. destruct (Nat.eqb t0 t); auto.
    + eapply max_keep; eauto. intros; discriminate.
  - (* LQuiescent *)
    clear NW HK PM. step_inv H. destruct (quiescent_idle s IV SI0) as (ID & _); auto.
    destruct (m_inflight m) as [|j fl] eqn:FL.
    + eexists. split; [reflexivity |]. unfold R12, nwork, abs_hook, wpc_of, holds in *. cbn. repeat split; auto. rewrite FL. intros ? [].
    + exfalso. apply (R3 j); [now left | apply ID].
  - (* LDone *)
    clear NW HK PM. step_inv H.
    + (* after MainEnd *)
      apply orb_true_iff in E. destruct E as [E | E]; [rewrite E in *; discriminate |]. apply mph_eqb_eq in E.
      destruct (MA0 E) as (ID & _).
      destruct (m_inflight m) as [|j fl] eqn:FL.
      * eexists. split; [reflexivity |]. unfold R12, nwork, abs_hook, wpc_of, holds in *. cbn. repeat split; auto. rewrite FL. intros ? [].
      * exfalso. apply (R3 j); [now left | apply ID].
    + apply orb_false_iff in E. destruct E as (_ & E). congruence.
Qed.

Lemma mon_sim : forall (M : Type) (st : M -> label -> option M) (R : state -> M -> Prop),
  (forall s l s' m, Inv2 s -> R s m -> step s l = Some s' -> exists m', st m l = Some m' /\ R s' m') ->
  forall tr s m k s', Inv2 s -> R s m -> run s tr = Some s' -> mon_pos st m tr k = None.
Proof.
  intros M st R SIM. induction tr; intros s m k s' J RR H; simpl; auto.
  simpl in H. destruct (step s a) as [s1|] eqn:ST; try discriminate.
  destruct (SIM _ _ _ _ J RR ST) as (m' & -> & R').
  apply (IHtr s1 m' (S k) s'); auto. eapply Inv2_step; eauto.
Qed.

Theorem accepts_mon12 : forall o tr, accepts o tr = true -> mon12_ok o tr = true.
Proof.
  unfold accepts, mon12_ok, mon12. intros o tr H. destruct (run (init o) tr) as [s'|] eqn:R; try discriminate.
  rewrite (mon_sim m12 mstep12 R12 sim12 tr (init o) (m12_init o) O s'); auto.
  - apply Inv2_init.
  - apply R12_init.
Qed.

(* ---------- simulation of the C13 monitor ---------- *)
Definition abs_thr (r : trec) : mthr :=
  match tk r with
  | KNone => ThNone
  | _ => match tp r with TFin => ThFinished | TJoined => ThJoined | _ => ThCreated end
  end.

Definition thr_after (s : state) (l : label) (n : nat) : mthr :=
  match l with
  | LTCreate _ k => if Nat.eqb n k then ThCreated else abs_thr (th s n)
  | LTFin t => if Nat.eqb n t then ThFinished else abs_thr (th s n)
  | LTJoin _ k => if Nat.eqb n k then ThJoined else abs_thr (th s n)
  | _ => abs_thr (th s n)
  end.

Lemma thr_step : forall s l s', TKR s -> step s l = Some s' -> forall n, abs_thr (th s' n) = thr_after s l n.
Proof.
  intros s l s' TK H.
  step_inv H.
  all: repeat match goal with E : lthr _ = Some _ |- _ => simpl in E; inversion E; subst; clear E end.
  all: hold_facts; unfold thr_after, abs_thr in *; ssimp; ifs; ssimp; try reflexivity.
  all: intros x; unfold upd; repeat match goal with |- context [Nat.eqb ?a ?b] => destruct (Nat.eqb a b) eqn:?; bools; subst end; cbn [tk tp].
  all: repeat match goal with E : tk _ = _ |- _ => rewrite E | E : tp _ = _ |- _ => rewrite E end.
  all: try reflexivity.
  all: try congruence.
  all: match goal with |- context [tk (th ?s0 ?x)] => destruct (tk (th s0 x)) eqn:K; auto; specialize (TK _ K); congruence end.
Qed.

Definition put_state (s : state) : Prop :=
  pl s = PFreed \/ exists p, pl s = PLive p /\ (pshut p = true \/ act s (own s) = APut SBefore).

Lemma put_keep : forall s l s', ALock s -> put_state s -> step s l = Some s' -> put_state s'.
Proof.
  intros s l s' AL P H.
  assert (O : own s' = own s) by (eapply own_step; eauto).
  step_inv H.
  all: repeat match goal with E : lthr _ = Some _ |- _ => simpl in E; inversion E; subst; clear E end.
  all: hold_facts; cs_facts; unfold put_state in *; rewrite ?O; ssimp; ifs; ssimp; try assumption.
  all: try (left; reflexivity).
  all: repeat match goal with E : pl _ = _ |- _ => rewrite E in * end.
  all: destruct P as [P | (q & P & Q)]; try discriminate; try (inversion P; subst q).
  all: outs; subst; cbn [pshut p_set_items p_set_head p_set_tail p_set_idle p_set_done p_set_started p_set_shut] in *.
  all: try (right; eexists; split; [reflexivity |]; cbn [pshut p_set_items p_set_head p_set_tail p_set_idle p_set_done p_set_started p_set_shut]; tauto).
  all: try (right; eexists; split; [eassumption |]; unfold upd; ifs; bools; subst; tauto).
  all: try (left; assumption).
  all: right; eexists; (split; [first [reflexivity | eassumption] |]);
       cbn [pshut p_set_items p_set_head p_set_tail p_set_idle p_set_done p_set_started p_set_shut]; try tauto.
  all: unfold upd; match goal with |- context [Nat.eqb ?a ?b] => destruct (Nat.eqb a b) eqn:QQ end; bools; subst; try tauto.
  all: match goal with A : act _ (own _) = APut SBefore |- _ => rewrite A in *; try discriminate; cbn [unlock_act]; tauto end.
Qed.

Lemma tids_step : forall s l s', step s l = Some s' ->
  tids s' = tids s \/ exists t n, l = LTCreate t n /\ tids s' = n :: tids s.
Proof.
  intros s l s' H. step_inv H; ssimp; ifs; ssimp; auto; right; eauto.
Qed.

Lemma omain_step : forall s l s', step s l = Some s' ->
  mph_eqb (omain s') MAfter = match l with LMainEnd _ => true | _ => mph_eqb (omain s) MAfter end.
Proof.
  intros s l s' H. step_inv H; ssimp; ifs; ssimp; auto.
  all: try (apply orb_false_iff in E; destruct E as (_ & E); rewrite ?E; auto; fail).
  all: try (bools; match goal with X : omain _ = _ |- _ => rewrite X; reflexivity end).
Qed.

Lemma quiescent_joined : forall s, Inv s -> JJ s -> quiescent s = true -> forall n, In n (tids s) -> tp (th s n) = TJoined.
Proof.
  intros s IV J Q n IN. pose proof (quiescent_workers_dead s IV Q n) as DW. unfold quiescent in Q. bools.
  match goal with F : forallb _ _ = true |- _ => rewrite forallb_forall in F; specialize (F n IN) end.
  assert (FJ : tp (th s n) = TFin \/ tp (th s n) = TJoined).
  { unfold quiet_thread in *. destruct (tk (th s n)); try discriminate.
    - destruct DW as [DW | DW]; rewrite DW in *; try discriminate. destruct (tp (th s n)); try discriminate; auto.
    - destruct (tp (th s n)); try discriminate; auto. }
  destruct FJ as [FJ | FJ]; auto. exfalso.
  destruct (J n) as [X | X]; [rewrite FJ; reflexivity | |].
  - match goal with A : opend s = [], B : obatch s = [] |- _ => rewrite A, B in X end. destruct X.
  - match goal with T : otopb s = true |- _ => unfold otopb in T; rewrite X in T; discriminate end.
Qed.

Lemma filter_none : forall (f : nat -> bool) l, (forall x, In x l -> f x = false) -> filter f l = [].
Proof. induction l; simpl; intros; auto. rewrite (H a) by now left. apply IHl. intros. apply H. now right. Qed.

Lemma quiescent_noput : forall s, Inv2 s -> put_state s -> quiescent s = true -> False.
Proof.
  intros s [IV SI0 TK HJ JJ0 ON0 NS0 WP0 MA0] P Q.
  pose proof (quiescent_workers_dead s IV Q) as DW.
  pose proof (quiescent_joined s IV JJ0 Q) as AJ.
  pose proof IV as IV0. destruct IV0.
  unfold quiescent in Q. bools.
  assert (CU : cntU s = 0%nat).
  { unfold cntU. rewrite filter_none; auto. intros x IN. unfold unjoined. rewrite (AJ x IN). reflexivity. }
  assert (NL : nlive s = 0%nat).
  { unfold nlive. rewrite filter_none; auto. intros x _. destruct (DW x) as [X | X]; rewrite X; reflexivity. }
  assert (LN : lock s = None) by (destruct (lock s); auto; discriminate).
  assert (TD : todo s = []) by auto.
  assert (AO : act s (own s) = ANone) by (destruct (act s (own s)); auto; discriminate).
  unfold ON in ON0. rewrite CU in ON0.
  match goal with Z1 : (0 <? onum s) = true |- _ => apply Z.ltb_lt in Z1 end.
  destruct P as [P | (p & P & [SH | AP])]; [rewrite P in ON0; lia | | congruence].
  destruct i_w1b as (B1 & _). destruct (B1 p P) as (ST & _). rewrite NL, TD in ST. cbn in ST.
  destruct (i_w5 p P) as (_ & W). destruct (W SH ST) as [[X | [X | X]] | [(l & X) | [X | X]]].
  - match goal with A : opend s = [], B : obatch s = [] |- _ => rewrite A, B in X end. destruct X.
  - match goal with T : otopb s = true |- _ => unfold otopb in T; rewrite X in T; discriminate end.
  - rewrite TD in X. destruct X.
  - match goal with T : otopb s = true |- _ => unfold otopb in T; rewrite X in T; destruct l; try discriminate end.
    rewrite (shutb_live s p P), SH in *. discriminate.
  - rewrite TD in X. destruct X.
  - congruence.
Qed.

Definition R13 (s : state) (m : m13) : Prop :=
  n_own m = own s /\
  (forall n, n_thr m n = abs_thr (th s n)) /\
  (forall n, In n (n_created m) -> In n (tids s)) /\
  (forall t, n_hook m t = abs_hook s t) /\
  (n_put m = true -> put_state s) /\
  (forall i, In i (n_inflight m) -> items s i <> IIdle) /\
  n_mainend m = mph_eqb (omain s) MAfter.

Lemma R13_init : forall o, R13 (init o) (m13_init o).
Proof. intros o. unfold R13. cbn. repeat split; auto. intros X. discriminate X. Qed.

Lemma all_joined_ok : forall s m, R13 s m -> (forall n, In n (tids s) -> tp (th s n) = TJoined) ->
  TB s -> all_joined m = true.
Proof.
  unfold all_joined. intros s m (_ & R2 & R3 & _) AJ (_ & _ & T3 & _). apply forallb_forall. intros n IN.
  rewrite R2. unfold abs_thr. specialize (R3 n IN). rewrite (AJ n R3).
  destruct (tk (th s n)) eqn:K; auto. exfalso. apply T3 in R3. contradiction.
Qed.

Lemma R13_frame : forall s s' m l, R13 s m -> ALock s -> own s' = own s -> step s l = Some s' ->
  (forall n, abs_thr (th s' n) = abs_thr (th s n)) -> tids s' = tids s ->
  (forall t, abs_hook s' t = abs_hook s t) -> items s' = items s ->
  mph_eqb (omain s') MAfter = mph_eqb (omain s) MAfter -> R13 s' m.
Proof.
  unfold R13. intros s s' m l (R1 & R2 & R3 & R4 & R5 & R6 & R7) AL O ST TH TI HK IT OM.
  rewrite O, TI, IT, OM. repeat split; auto.
  - intros n. rewrite TH. auto.
  - intros t. rewrite HK. auto.
  - intros X. eapply put_keep; eauto.
Qed.

Lemma R13_gen : forall s s' l thr cr hk pt fl me, ALock s -> own s' = own s -> step s l = Some s' ->
  (forall n, thr n = abs_thr (th s' n)) -> (forall n, In n cr -> In n (tids s')) ->
  (forall t, hk t = abs_hook s' t) -> (pt = true -> put_state s') ->
  (forall i, In i fl -> items s' i <> IIdle) -> me = mph_eqb (omain s') MAfter ->
  R13 s' (mkM13 (own s) thr cr hk pt fl me).
Proof. unfold R13. intros. cbn. rewrite H0. repeat split; auto. Qed.

Lemma worker_kind : forall s t, TB s -> wpc_of s t <> WNone -> tk (th s t) = KWorker.
Proof. intros s t (_ & _ & _ & T4 & T5 & _) W. apply T5 in W. apply T4 in W. tauto. Qed.

Lemma join_fin : forall s t n s', step s (LTJoin t n) = Some s' -> tp (th s n) = TFin.
Proof.
  intros s t n s' H. unfold step in H. simpl in H.
  destruct (fin s || mph_eqb (omain s) MAfter); try discriminate. destruct (blocked s t); try discriminate.
  destruct (kdue s t); try discriminate. destruct (holds s t); simpl in H; try discriminate.
  destruct (ohst s); try discriminate. destruct e; try discriminate.
  destruct (own_idle_ctx s t && Nat.eqb n n0 && match tp (th s n) with TFin => true | _ => false end) eqn:G; try discriminate.
  bools. destruct (tp (th s n)); try discriminate; auto.
Qed.

Lemma sim13 : forall s l s' m, Inv2 s -> R13 s m -> step s l = Some s' ->
  exists m', mstep13 m l = Some m' /\ R13 s' m'.
Proof.
  intros s l s' m J R H.
  pose proof (Inv2_step _ _ _ J H) as J'.
  pose proof J as J0. destruct J0 as [IV SI0 TK HJ JJ0 ON0 NS0 WP0 MA0]. pose proof IV as IV0. destruct IV0.
  pose proof (items_step _ _ _ H) as IS.
  pose proof (thr_step _ _ _ TK H) as TS.
  pose proof (tids_step _ _ _ H) as TI.
  pose proof (hook_step _ _ _ i_tb i_todo i_wu NS0 H) as HK.
  pose proof (own_step _ _ _ H) as OW.
  pose proof (omain_step _ _ _ H) as OM.
  pose proof (step_facts _ _ _ H) as FA.
  destruct l; cbn [mstep13 istep hook_after thr_after facts] in *.
  all: try (eexists; split; [reflexivity |]; inversion IS; eapply R13_frame; eauto;
            destruct TI as [TI | (t1 & n1 & X & _)]; [assumption | discriminate X]).
  all: destruct m as [mo mt mc mh mp mf me]; unfold R13 in R; cbn [n_own n_thr n_created n_hook n_put n_inflight n_mainend] in *.
  all: destruct R as (R1 & R2 & R3 & R4 & R5 & R6 & R7); subst mo.
  all: assert (TI' : forall n, In n (tids s) -> In n (tids s')) by
         (intros n0 IN0; destruct TI as [TI | (t1 & n1 & _ & TI)]; rewrite TI; auto; now right).
  all: assert (PK : mp = true -> put_state s') by (intros X; eapply put_keep; eauto).
  all: assert (IK : forall it', (forall j, items s j <> IIdle -> it' j <> IIdle) -> forall j, In j mf -> it' j <> IIdle) by auto.
  - (* LSubmit *)
    destruct (items s i) eqn:IT; try discriminate. inversion IS as [IQ'].
    eexists. split; [reflexivity |]. apply (R13_gen s s' (LSubmit t i)); auto.
    + intros n. rewrite TS. auto.
    + intros t0. rewrite HK. auto.
    + rewrite <- IQ'. apply inflight_cons; auto. discriminate.
    + rewrite OM. auto.
  - (* LLocal *)
    destruct (items s i) eqn:IT; try discriminate. inversion IS as [IQ'].
    eexists. split; [reflexivity |]. apply (R13_gen s s' (LLocal t i)); auto.
    + intros n. rewrite TS. auto.
    + intros t0. rewrite HK. auto.
    + rewrite <- IQ'. apply inflight_cons; auto. discriminate.
    + rewrite OM. auto.
  - (* LPut *)
    eexists. split; [reflexivity |]. inversion IS as [IQ']. apply (R13_gen s s' (LPut t)); auto.
    + intros n. rewrite TS. auto.
    + intros t0. rewrite HK. auto.
    + intros _. clear TS TI HK OM IS TI' PK. step_inv H. unfold put_state. ssimp. right. eexists. split; [eassumption |].
      right. unfold own_may_act in *. bools. subst. apply upd_same.
    + rewrite <- IQ'. auto.
    + rewrite OM. auto.
  - (* LWork *)
    eexists. split; [reflexivity |]. apply (R13_gen s s' (LWork t i)); auto.
    + intros n. rewrite TS. auto.
    + intros t0. rewrite HK. auto.
    + apply IK. intros j NI. destruct (items s i) eqn:IT; try discriminate; inversion IS as [IQ']; unfold upd;
        destruct (Nat.eqb j i); auto; discriminate.
    + rewrite OM. auto.
  - (* LRet *)
    eexists. split; [reflexivity |]. apply (R13_gen s s' (LRet t i)); auto.
    + intros n. rewrite TS. auto.
    + intros t0. rewrite HK. auto.
    + apply IK. intros j NI. destruct (items s i) eqn:IT; try discriminate; inversion IS as [IQ']; unfold upd;
        destruct (Nat.eqb j i); auto; discriminate.
    + rewrite OM. auto.
  - (* LCompl *)
    eexists. split; [reflexivity |]. apply (R13_gen s s' (LCompl t i)); auto.
    + intros n. rewrite TS. auto.
    + intros t0. rewrite HK. auto.
    + destruct (items s i) eqn:IT; try discriminate; inversion IS as [IQ']; apply inflight_drop; auto.
    + rewrite OM. auto.
  - (* LHookStart *)
    assert (KW : tk (th s t) = KWorker) by (apply worker_kind; auto; rewrite FA; discriminate).
    assert (TR : tp (th s t) = TRun).
    { destruct (WP0 t KW) as [X | (X & _)]; auto. congruence. }
    rewrite (R2 t), (R4 t). unfold abs_thr, abs_hook. rewrite KW, TR, FA.
    eexists. split; [reflexivity |]. inversion IS as [IQ']. apply (R13_gen s s' (LHookStart t)); auto.
    + intros n. rewrite TS. auto.
    + intros t0. rewrite HK. unfold upd. destruct (Nat.eqb t0 t); auto.
    + rewrite <- IQ'. auto.
    + rewrite OM. auto.
  - (* LHookStop *)
    destruct FA as (LK & r & TD).
    assert (WD : wpc_of s t = WDead) by (apply i_wu; right; split; [rewrite TD; now left | assumption]).
    assert (KW : tk (th s t) = KWorker) by (apply worker_kind; auto; rewrite WD; discriminate).
    assert (TR : tp (th s t) = TRun).
    { destruct (WP0 t KW) as [X | (_ & X)]; auto. congruence. }
    rewrite (R2 t), (R4 t). unfold abs_thr, abs_hook, holds. rewrite KW, TR, WD, LK, Nat.eqb_refl, TD. cbn [existsb is_stop orb andb].
    eexists. split; [reflexivity |]. inversion IS as [IQ']. apply (R13_gen s s' (LHookStop t)); auto.
    + intros n. rewrite TS. auto.
    + intros t0. rewrite HK. unfold upd. destruct (Nat.eqb t0 t); auto.
    + rewrite <- IQ'. auto.
    + rewrite OM. auto.
  - (* LTCreate *)
    subst t.
    assert (G : n <> own s /\ ~ In n (tids s)).
    { clear TS TI HK OM IS TI' PK. step_inv H; bools; unfold own_may_act in *; bools;
        repeat match goal with M : memb _ _ = false |- _ => apply memb_false in M end; auto. }
    destruct G as (G1 & G2).
    assert (KN : tk (th s n) = KNone).
    { destruct i_tb as (_ & _ & T3 & _). destruct (tk (th s n)) eqn:K; auto; exfalso; apply G2; apply T3; rewrite K; discriminate. }
    rewrite (R2 n). unfold abs_thr at 1. rewrite KN. apply Nat.eqb_neq in G1. rewrite G1.
    eexists. split; [reflexivity |]. inversion IS as [IQ']. apply (R13_gen s s' (LTCreate (own s) n)); auto.
    + intros n0. rewrite TS. unfold upd. destruct (Nat.eqb n0 n); auto.
    + intros n0 [<- | IN0]; auto. destruct TI as [TI | (t1 & n1 & X & TI)]; [| inversion X; subst; rewrite TI; now left].
      exfalso. clear TS HK OM IS TI' PK. step_inv H; ssimp; try congruence;
        match goal with X : _ :: tids _ = tids _ |- _ => apply (f_equal (@length nat)) in X; simpl in X; lia end.
    + intros t0. rewrite HK. auto.
    + rewrite <- IQ'. auto.
    + rewrite OM. auto.
  - (* LTFin *)
    destruct FA as (TP & NL).
    assert (KK : tk (th s t) <> KNone) by (intros K; rewrite (TK _ K) in TP; discriminate).
    assert (HS : abs_hook s t <> HkStarted).
    { unfold abs_hook. destruct (tk (th s t)) eqn:K; try contradiction.
      - destruct (WP0 t K) as [X | (X & _)]; [congruence |]. rewrite X. unfold holds.
        destruct (lock s) eqn:L; [| discriminate]. destruct (Nat.eqb n t) eqn:Q; [| discriminate].
        apply Nat.eqb_eq in Q. subst. contradiction.
      - destruct (wpc_of s t) eqn:W; try discriminate.
        all: exfalso; assert (X : tk (th s t) = KWorker) by (apply worker_kind; auto; rewrite W; discriminate); congruence. }
    rewrite (R2 t), (R4 t). unfold abs_thr at 1. rewrite TP. destruct (tk (th s t)) eqn:K; try contradiction.
    all: destruct (abs_hook s t) eqn:AH; try contradiction.
    all: eexists; (split; [reflexivity |]); inversion IS as [IQ']; apply (R13_gen s s' (LTFin t)); auto;
         [ intros n0; rewrite TS; unfold upd; destruct (Nat.eqb n0 t); auto
         | intros t0; rewrite HK; auto
         | rewrite <- IQ'; auto
         | rewrite OM; auto ].
  - (* LTJoin *)
    subst t.
    assert (G : tp (th s n) = TFin) by (eapply join_fin; eauto).
    assert (KK : tk (th s n) <> KNone) by (intros K; rewrite (TK _ K) in G; discriminate).
    rewrite (R2 n). unfold abs_thr at 1. rewrite G. destruct (tk (th s n)) eqn:K; try contradiction.
    all: rewrite Nat.eqb_refl; eexists; (split; [reflexivity |]); inversion IS as [IQ']; apply (R13_gen s s' (LTJoin (own s) n)); auto;
         [ intros n0; rewrite TS; unfold upd; destruct (Nat.eqb n0 n); auto
         | intros t0; rewrite HK; auto
         | rewrite <- IQ'; auto
         | rewrite OM; auto ].
  - (* LMainEnd *)
    subst t. rewrite Nat.eqb_refl.
    destruct (mainend_state _ _ _ IV SI0 ON0 H) as (ID & CU & _).
    assert (AJ : all_joined (mkM13 (own s) mt mc mh mp mf me) = true).
    { apply (all_joined_ok s); auto. - unfold R13; cbn; repeat split; auto. - intros n IN. now apply cntU_zero. }
    rewrite AJ. destruct mf as [|j fl]; [| exfalso; apply (R6 j); [now left | apply ID]]. cbn [andb].
    eexists. split; [reflexivity |]. inversion IS as [IQ']. apply (R13_gen s s' (LMainEnd (own s))); auto;
      try (intros n0; rewrite TS; auto; fail); try (intros t0; rewrite HK; auto; fail); try (intros ? []; fail); try (rewrite OM; auto; fail).
  - (* LQuiescent *)
    assert (Q : quiescent s = true).
    { clear TS TI HK OM IS TI' PK. step_inv H; auto. }
    destruct (quiescent_idle s IV SI0 Q) as (ID & _).
    assert (AJ : all_joined (mkM13 (own s) mt mc mh mp mf me) = true).
    { apply (all_joined_ok s); auto. - unfold R13; cbn; repeat split; auto. - apply quiescent_joined; auto. }
    rewrite AJ. destruct mf as [|j fl]; [| exfalso; apply (R6 j); [now left | apply ID]]. cbn [andb].
    destruct mp; [exfalso; exact (quiescent_noput s J (R5 eq_refl) Q) |]. cbn [negb].
    eexists. split; [reflexivity |]. inversion IS as [IQ']. apply (R13_gen s s' LQuiescent); auto;
      try (intros n0; rewrite TS; auto; fail); try (intros t0; rewrite HK; auto; fail); try (intros X; discriminate X);
      try (intros ? []; fail); try (rewrite OM; auto; fail).
  - (* LDone *)
    assert (MAF : omain s = MAfter).
    { clear TS TI HK OM IS TI' PK. step_inv H.
      - apply orb_true_iff in E. destruct E as [E | E]; [rewrite E in *; discriminate | now apply mph_eqb_eq in E].
      - apply mph_eqb_eq. assumption. }
    destruct (MA0 MAF) as (ID & CU).
    assert (AJ : all_joined (mkM13 (own s) mt mc mh mp mf me) = true).
    { apply (all_joined_ok s); auto. - unfold R13; cbn; repeat split; auto. - intros n IN. now apply cntU_zero. }
    rewrite AJ. destruct mf as [|j fl]; [| exfalso; apply (R6 j); [now left | apply ID]]. cbn [andb].
    rewrite R7, MAF. cbn [mph_eqb].
    eexists. split; [reflexivity |]. inversion IS as [IQ']. apply (R13_gen s s' LDone); auto;
      try (intros n0; rewrite TS; auto; fail); try (intros t0; rewrite HK; auto; fail); try (intros ? []; fail);
      try (rewrite OM, MAF; reflexivity).
Qed.

Theorem accepts_mon13 : forall o tr, accepts o tr = true -> mon13_ok o tr = true.
Proof.
  unfold accepts, mon13_ok, mon13. intros o tr H. destruct (run (init o) tr) as [s'|] eqn:R; try discriminate.
  rewrite (mon_sim m13 mstep13 R13 sim13 tr (init o) (m13_init o) O s'); auto.
  - apply Inv2_init.
  - apply R13_init.
Qed.
