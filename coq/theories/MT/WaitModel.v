(* WaitModel.v -- labelled transition system of iv_wait.c (property C11).
   Written after the C text: the global pid-ordered tree iv_wait_interests under iv_wait_lock,
   iv_wait_got_sigchld (drain loop of wait4(-1, WNOHANG|WUNTRACED|WCONTINUED) under the lock: queue the
   status to the interest found for the pid and post its event; a terminating status removes the
   interest from the tree and sets IV_WAIT_STATUS_DEAD), iv_wait_completion (steal the queue under the
   lock, then call the handler for each event while handled_wait_interest is still set),
   iv_wait_interest_register / register_spawn (fork and insert under ONE critical section) / unregister
   (tree delete unless DEAD, then purge) / kill (kill() unless DEAD, under the lock).
   The tree is the list of registered interests that are not DEAD (C16 for iv_avl.c; the API contract
   X1 -- one interest per pid -- is a guard).  The order in which wait4 returns status changes is an
   oracle: it is whatever the WReap labels say.  w_hist / w_deliv are ghost histories used only by the
   theorems.  The pre-fix code of iv_wait_got_sigchld (D1: `p` dereferenced without a NULL check when a
   child without interest terminates) is the outcome Crash of reap_one false.  No proofs in this file. *)
From Coq Require Import List ZArith Bool.
Import ListNotations.
Local Open Scope Z_scope.

Record wrec := {
  w_id : Z;                    (* interest (harness numbering 100 * thread + j) *)
  w_thr : Z;                   (* registering thread *)
  w_pid : Z;
  w_dead : bool;               (* IV_WAIT_STATUS_DEAD: out of the tree *)
  w_queue : list Z;            (* events_pending (status words, oldest first) *)
  w_frame : option (list Z);   (* iv_wait_completion running for this interest: stolen events still to deliver *)
  w_hist : list Z;             (* ghost: statuses reaped for this interest, in reap order *)
  w_deliv : list Z             (* ghost: statuses handed to the handler, in order *)
}.

Record state := {
  ints : list wrec;                    (* registered interests *)
  wlock : option Z;                    (* holder of iv_wait_lock *)
  reaped : list Z;                     (* pids whose termination wait4 has returned (gone) *)
  spawning : option (Z * Z * Z);       (* register_spawn between fork and insert: (thread, interest, pid) *)
  kpend : list (Z * Z);                (* ground truth: status changes (pid, status) the children went through and that
                                          wait4 has not reported yet, oldest first *)
  draining : bool                      (* iv_wait_got_sigchld has reaped something and not yet seen wait4 return 0 / ECHILD *)
}.

Definition init : state := {| ints := []; wlock := None; reaped := []; spawning := None; kpend := []; draining := false |}.

(* iv_wait_status_dead: exited or killed (not stopped 0x..7f, not continued 0xffff) *)
Definition is_dead (st : Z) : bool := negb (st mod 128 =? 127).

Inductive label :=
| WLock (t : Z)
| WUnlock (t : Z)
| WReg (t id pid : Z)            (* iv_wait_interest_register: insert under the lock *)
| WFork (t id pid : Z)           (* register_spawn: fork() returned pid in the parent (lock held) *)
| WInsert (t id : Z)             (* register_spawn: this->pid = pid; insert (same critical section) *)
| WReap (t pid st : Z)           (* wait4 returned (pid, st) in iv_wait_got_sigchld of thread t *)
| WSteal (t id : Z)              (* iv_wait_completion: steal events_pending under the lock *)
| WDeliver (t id st : Z)         (* handler(cookie, st, ..) *)
| WUnreg (t id : Z)              (* iv_wait_interest_unregister *)
| WKill (t id sig : Z) (performed : bool)   (* iv_wait_interest_kill: performed = kill() was called *)
| WBlock (t : Z)                 (* thread t blocks in its kernel wait *)
| WNone (t : Z)                  (* wait4 returned 0 / ECHILD in iv_wait_got_sigchld of thread t: the drain is complete *)
| WChange (t pid st : Z)         (* ground truth (logged by thread t): the child changed state (the scenario scripted it; SIGCHLD was raised) *)
| WIdle (t : Z).                 (* (logged by thread t) every thread is blocked and nothing is pending: the whole process is at rest *)

Definition find (id : Z) (l : list wrec) : option wrec := List.find (fun w => w_id w =? id) l.
Definition find_pid (pid : Z) (l : list wrec) : option wrec :=
  List.find (fun w => (w_pid w =? pid) && negb (w_dead w)) l.          (* __iv_wait_interest_find on the tree *)
Definition remove (id : Z) (l : list wrec) : list wrec := filter (fun w => negb (w_id w =? id)) l.
Definition upd_rec (id : Z) (f : wrec -> wrec) (l : list wrec) : list wrec :=
  map (fun w => if w_id w =? id then f w else w) l.
Definition mem (x : Z) (l : list Z) : bool := existsb (Z.eqb x) l.

Definition holds (s : state) (t : Z) : bool := match wlock s with Some u => u =? t | None => false end.

Definition set_reap (st : Z) (w : wrec) : wrec :=
  {| w_id := w_id w; w_thr := w_thr w; w_pid := w_pid w; w_dead := w_dead w || is_dead st;
     w_queue := w_queue w ++ [st]; w_frame := w_frame w; w_hist := w_hist w ++ [st]; w_deliv := w_deliv w |}.
Definition set_steal (w : wrec) : wrec :=
  {| w_id := w_id w; w_thr := w_thr w; w_pid := w_pid w; w_dead := w_dead w;
     w_queue := []; w_frame := Some (w_queue w); w_hist := w_hist w; w_deliv := w_deliv w |}.
Definition set_deliver (st : Z) (rest : list Z) (w : wrec) : wrec :=
  {| w_id := w_id w; w_thr := w_thr w; w_pid := w_pid w; w_dead := w_dead w;
     w_queue := w_queue w; w_frame := Some rest; w_hist := w_hist w; w_deliv := w_deliv w ++ [st] |}.

Definition frame_done (w : wrec) : bool := match w_frame w with None | Some [] => true | _ => false end.

(* no completion of thread t is in the middle of its events *)
Definition thread_frames_done (t : Z) (l : list wrec) : bool :=
  forallb (fun w => negb (w_thr w =? t) || frame_done w) l.
Definition quiet_thread (t : Z) (l : list wrec) : bool :=
  forallb (fun w => negb (w_thr w =? t) || (frame_done w && match w_queue w with [] => true | _ => false end)) l.
Definition new_rec (t id pid : Z) : wrec :=
  {| w_id := id; w_thr := t; w_pid := pid; w_dead := false; w_queue := []; w_frame := None; w_hist := []; w_deliv := [] |}.

Definition with_ints (s : state) (l : list wrec) : state :=
  {| ints := l; wlock := wlock s; reaped := reaped s; spawning := spawning s; kpend := kpend s; draining := draining s |}.

Fixpoint remove_first (pid st : Z) (l : list (Z * Z)) : list (Z * Z) :=
  match l with
  | [] => []
  | (p, x) :: r => if (p =? pid) && (x =? st) then r else (p, x) :: remove_first pid st r
  end.
Definition mem_pair (pid st : Z) (l : list (Z * Z)) : bool := existsb (fun e => (fst e =? pid) && (snd e =? st)) l.
Definition owes (pid : Z) (l : list (Z * Z)) : bool := existsb (fun e => fst e =? pid) l.
(* at rest no live interest's child has an unreported status change *)
Definition idle_ok (l : list wrec) (k : list (Z * Z)) : bool := forallb (fun w => w_dead w || negb (owes (w_pid w) k)) l.

Definition with_k (s : state) (k : list (Z * Z)) (d : bool) : state :=
  {| ints := ints s; wlock := wlock s; reaped := reaped s; spawning := spawning s; kpend := k; draining := d |}.

Inductive outcome := Ok (s : state) | Crash.

(* one round of the drain loop after wait4 returned (pid, st); fixed = the `p != NULL &&` guard of the dead branch *)
Definition reap_one (fixed : bool) (s : state) (pid st : Z) : outcome :=
  let gone := if is_dead st then pid :: reaped s else reaped s in
  match find_pid pid (ints s) with
  | Some p =>
      Ok {| ints := upd_rec (w_id p) (set_reap st) (ints s); wlock := wlock s; reaped := gone; spawning := spawning s; kpend := kpend s; draining := draining s |}
  | None =>
      if is_dead st then
        (if fixed then Ok {| ints := ints s; wlock := wlock s; reaped := gone; spawning := spawning s; kpend := kpend s; draining := draining s |}
         else Crash)                      (* iv_avl_tree_delete(&.., &p->avl_node) with p == NULL *)
      else Ok s
  end.

Definition step_gen (fixed : bool) (s : state) (l : label) : option state :=
  match l with
  | WLock t =>
      match wlock s with
      | Some _ => None
      | None => Some {| ints := ints s; wlock := Some t; reaped := reaped s; spawning := spawning s; kpend := kpend s; draining := draining s |}
      end
  | WUnlock t =>
      if holds s t && negb (draining s) then     (* the reaper leaves only after wait4 had nothing more to report *)
        match spawning s with
        | Some _ => None               (* the insertion belongs to the same critical section as the fork *)
        | None => Some {| ints := ints s; wlock := None; reaped := reaped s; spawning := None; kpend := kpend s; draining := draining s |}
        end
      else None
  | WReg t id pid =>
      if holds s t then
        match find id (ints s), find_pid pid (ints s), spawning s with
        | None, None, None =>
            if mem pid (reaped s) then None        (* API contract: the pid is an unreaped child *)
            else Some (with_ints s (new_rec t id pid :: ints s))
        | _, _, _ => None
        end
      else None
  | WFork t id pid =>
      if holds s t then
        match find id (ints s), find_pid pid (ints s), spawning s with
        | None, None, None =>
            if mem pid (reaped s) then None
            else Some {| ints := ints s; wlock := wlock s; reaped := reaped s; spawning := Some (t, id, pid); kpend := kpend s; draining := draining s |}
        | _, _, _ => None
        end
      else None
  | WInsert t id =>
      if holds s t then
        match spawning s with
        | Some (t', id', pid) =>
            if (t' =? t) && (id' =? id) then
              Some {| ints := new_rec t id pid :: ints s; wlock := wlock s; reaped := reaped s; spawning := None; kpend := kpend s; draining := draining s |}
            else None
        | None => None
        end
      else None
  | WReap t pid st =>
      if holds s t then
        match spawning s with
        | Some _ => None
        | None =>
            if mem pid (reaped s) || negb (mem_pair pid st (kpend s)) then None
              (* kernel: a reaped pid does not report again; only changes that happened are reported *)
            else match reap_one fixed s pid st with
                 | Ok s' => Some (with_k s' (remove_first pid st (kpend s)) true)
                 | Crash => None
                 end
        end
      else None
  | WSteal t id =>
      if holds s t then
        match find id (ints s) with
        | Some w =>
            if (w_thr w =? t) && thread_frames_done t (ints s)
            then Some (with_ints s (upd_rec id set_steal (ints s))) else None
        | None => None
        end
      else None
  | WDeliver t id st =>
      match find id (ints s) with
      | Some w =>
          match w_frame w with
          | Some (x :: rest) =>
              if (w_thr w =? t) && (x =? st) then Some (with_ints s (upd_rec id (set_deliver st rest) (ints s))) else None
          | _ => None
          end
      | None => None
      end
  | WUnreg t id =>
      if holds s t then
        match find id (ints s) with
        | Some w => if w_thr w =? t then Some (with_ints s (remove id (ints s))) else None
        | None => None
        end
      else None
  | WKill t id sig performed =>
      if holds s t then
        match find id (ints s) with
        | Some w => if Bool.eqb performed (negb (w_dead w)) then Some s else None
        | None => None
        end
      else None
  | WBlock t => if quiet_thread t (ints s) then Some s else None
  | WNone t => if holds s t then Some (with_k s (kpend s) false) else None
  | WChange _ pid st => Some (with_k s (kpend s ++ [(pid, st)]) (draining s))
  | WIdle _ => if idle_ok (ints s) (kpend s) then Some s else None
  end.

Definition step : state -> label -> option state := step_gen true.

Fixpoint run (s : state) (ls : list label) : option state :=
  match ls with
  | [] => Some s
  | l :: r => match step s l with Some s' => run s' r | None => None end
  end.

Definition accepts (ls : list label) : bool := match run init ls with Some _ => true | None => false end.

Fixpoint reject_pos (s : state) (ls : list label) (k : nat) : option nat :=
  match ls with
  | [] => None
  | l :: r => match step s l with Some s' => reject_pos s' r (S k) | None => Some k end
  end.

(* ------------------------------------------------------------------------------------------------
   Monitor: the property on the observed labels alone -- no lock, only "is a spawn in its fork..insert
   window".  Routing (status to the live interest of the pid, in reap order, to its registering thread,
   nothing after the terminating status), strangers change nothing, kill only before the reaped
   termination, no reap inside a spawn window, nothing undelivered when the thread blocks. *)
Record mstate := { m_ints : list wrec; m_reaped : list Z; m_fork : option (Z * Z * Z); m_kpend : list (Z * Z) }.

Definition got_termination (t : Z) (reaped : list Z) (l : list wrec) : bool :=
  forallb (fun w => negb (w_thr w =? t) || Bool.eqb (w_dead w) (mem (w_pid w) reaped)) l.
Definition minit : mstate := {| m_ints := []; m_reaped := []; m_fork := None; m_kpend := [] |}.

Definition mstep (m : mstate) (l : label) : option mstate :=
  match l with
  | WLock _ => Some m
  | WUnlock _ => match m_fork m with Some _ => None | None => Some m end
  | WReg t id pid =>
      match find id (m_ints m), find_pid pid (m_ints m), m_fork m with
      | None, None, None =>
          if mem pid (m_reaped m) then None
          else Some {| m_ints := new_rec t id pid :: m_ints m; m_reaped := m_reaped m; m_fork := None; m_kpend := m_kpend m |}
      | _, _, _ => None
      end
  | WFork t id pid =>
      match find id (m_ints m), find_pid pid (m_ints m), m_fork m with
      | None, None, None =>
          if mem pid (m_reaped m) then None
          else Some {| m_ints := m_ints m; m_reaped := m_reaped m; m_fork := Some (t, id, pid); m_kpend := m_kpend m |}
      | _, _, _ => None
      end
  | WInsert t id =>
      match m_fork m with
      | Some (t', id', pid) =>
          if (t' =? t) && (id' =? id)
          then Some {| m_ints := new_rec t id pid :: m_ints m; m_reaped := m_reaped m; m_fork := None; m_kpend := m_kpend m |} else None
      | None => None
      end
  | WReap t pid st =>
      let window := match m_fork m with Some (_, _, p) => p =? pid | None => false end in
      if window then None           (* a status of the child being spawned is reaped before its interest is inserted: missed *)
      else if mem pid (m_reaped m) || negb (mem_pair pid st (m_kpend m)) then None
      else
        let gone := if is_dead st then pid :: m_reaped m else m_reaped m in
        let k := remove_first pid st (m_kpend m) in
        match find_pid pid (m_ints m) with
        | Some p => Some {| m_ints := upd_rec (w_id p) (set_reap st) (m_ints m); m_reaped := gone; m_fork := m_fork m; m_kpend := k |}
        | None => Some {| m_ints := m_ints m; m_reaped := gone; m_fork := m_fork m; m_kpend := k |}       (* stranger: nothing changes *)
        end
  | WSteal t id =>
      match find id (m_ints m) with
      | Some w =>
          if (w_thr w =? t) && thread_frames_done t (m_ints m)
          then Some {| m_ints := upd_rec id set_steal (m_ints m); m_reaped := m_reaped m; m_fork := m_fork m; m_kpend := m_kpend m |} else None
      | None => None
      end
  | WDeliver t id st =>
      match find id (m_ints m) with
      | Some w =>
          match w_frame w with
          | Some (x :: rest) =>
              if (w_thr w =? t) && (x =? st)
              then Some {| m_ints := upd_rec id (set_deliver st rest) (m_ints m); m_reaped := m_reaped m; m_fork := m_fork m; m_kpend := m_kpend m |}
              else None
          | _ => None
          end
      | None => None
      end
  | WUnreg t id =>
      match find id (m_ints m) with
      | Some w => if w_thr w =? t then Some {| m_ints := remove id (m_ints m); m_reaped := m_reaped m; m_fork := m_fork m; m_kpend := m_kpend m |} else None
      | None => None
      end
  | WKill t id sig performed =>
      match find id (m_ints m) with
      | Some w =>
          (* performed: the termination of the pid has not been reaped; refused: it has *)
          if Bool.eqb performed (negb (mem (w_pid w) (m_reaped m))) && Bool.eqb performed (negb (w_dead w)) then Some m else None
      | None => None
      end
  | WBlock t =>
      (* at rest: everything reaped for t's interests is delivered, and an interest whose pid's termination has been
         reaped has received that status (in particular a spawned child's, however quickly it exited) *)
      if quiet_thread t (m_ints m) && got_termination t (m_reaped m) (m_ints m) then Some m else None
  | WNone _ => Some m
  | WChange _ pid st => Some {| m_ints := m_ints m; m_reaped := m_reaped m; m_fork := m_fork m; m_kpend := m_kpend m ++ [(pid, st)] |}
  | WIdle _ =>
      (* ground truth: at rest every status change of a child with a live interest has been reaped (and, with the
         WBlock clauses, delivered); in particular no such child is left a zombie *)
      if idle_ok (m_ints m) (m_kpend m) then Some m else None
  end.

Fixpoint mrun (m : mstate) (ls : list label) : option mstate :=
  match ls with
  | [] => Some m
  | l :: r => match mstep m l with Some m' => mrun m' r | None => None end
  end.

Definition monitor (ls : list label) : bool := match mrun minit ls with Some _ => true | None => false end.

Fixpoint mon_pos (m : mstate) (ls : list label) (k : nat) : option nat :=
  match ls with
  | [] => None
  | l :: r => match mstep m l with Some m' => mon_pos m' r (S k) | None => Some k end
  end.
