(* SignalLink.v -- the order of the interest sets of MT/SignalModel.v (lt_rec, used by insert) IS iv_signal_compare of
   src/iv_signal.c.  gen/c2gallina.py (TYPED, class CTr) re-translates the whole function on every run from the clang AST
   of the current source into Gen/LeafSignal.v:
     signal_compare a_addr a_signum b_addr b_signum a_flags b_flags : option Z     (-1 / 1 / 0; None = null dereference)
   `a` and `b` are the two struct iv_signal objects (the iv_container_of initialisers of the locals are not translated:
   the objects are whatever they denote); their addresses are the last key (`a < b`, `a > b`: comparison of addresses, flat
   address space).  IV_SIGNAL_FLAG_EXCLUSIVE is bit 0 of ->flags (the constant 1 of the current header, macro-expanded).
   Proved here, for all records with non-null addresses and all flag words whose bit 0 is i_excl: the result is -1 exactly
   when lt_rec a b, 1 exactly when lt_rec b a, 0 otherwise -- and 0 only for equal (signum, exclusive, address). *)
From Coq Require Import List ZArith Bool Lia.
From Ivv Require Import Base.CSem Base.CSemFacts Gen.LeafSignal MT.SignalModel.
Local Open Scope Z_scope.

Lemma leaf_signal_compare : forall a b fa fb,
  i_addr a <> 0 -> i_addr b <> 0 -> Z.odd fa = i_excl a -> Z.odd fb = i_excl b ->
  signal_compare (i_addr a) (i_sig a) (i_addr b) (i_sig b) fa fb =
  Some (if lt_rec a b then -1 else if lt_rec b a then 1 else 0).
Proof.
  intros a b fa fb Ha Hb Fa Fb. unfold signal_compare.
  rewrite (c_deref_nonnull _ Ha), (c_deref_nonnull _ Hb). cbn [ub_bind].
  rewrite !land_1_odd, Fa, Fb, !Z.gtb_ltb. unfold lt_rec.
  destruct (Z.ltb_spec (i_sig a) (i_sig b)) as [L1|L1].
  - reflexivity.
  - destruct (Z.ltb_spec (i_sig b) (i_sig a)) as [L2|L2]; [reflexivity|].
    destruct (i_excl a), (i_excl b); cbn [andb negb]; try reflexivity.
    all: destruct (Z.ltb_spec (i_addr a) (i_addr b)) as [L3|L3]; [reflexivity|];
      destruct (Z.ltb_spec (i_addr b) (i_addr a)); reflexivity.
Qed.

(* the comparator result as the model's strict order *)
Lemma leaf_signal_lt : forall a b fa fb,
  i_addr a <> 0 -> i_addr b <> 0 -> Z.odd fa = i_excl a -> Z.odd fb = i_excl b ->
  (signal_compare (i_addr a) (i_sig a) (i_addr b) (i_sig b) fa fb = Some (-1) <-> lt_rec a b = true).
Proof.
  intros a b fa fb Ha Hb Fa Fb. rewrite (leaf_signal_compare a b fa fb Ha Hb Fa Fb).
  destruct (lt_rec a b); [split; reflexivity|]. destruct (lt_rec b a); split; discriminate.
Qed.

(* equal keys only: 0 is returned only for the same (signum, exclusive flag, address) *)
Lemma leaf_signal_eq : forall a b fa fb,
  i_addr a <> 0 -> i_addr b <> 0 -> Z.odd fa = i_excl a -> Z.odd fb = i_excl b ->
  signal_compare (i_addr a) (i_sig a) (i_addr b) (i_sig b) fa fb = Some 0 ->
  i_sig a = i_sig b /\ i_excl a = i_excl b /\ i_addr a = i_addr b.
Proof.
  intros a b fa fb Ha Hb Fa Fb. rewrite (leaf_signal_compare a b fa fb Ha Hb Fa Fb). unfold lt_rec.
  destruct (Z.ltb_spec (i_sig a) (i_sig b)); [discriminate|].
  destruct (Z.ltb_spec (i_sig b) (i_sig a)); [discriminate|].
  destruct (i_excl a), (i_excl b); cbn [andb negb]; try discriminate.
  all: destruct (Z.ltb_spec (i_addr a) (i_addr b)); [discriminate|];
    destruct (Z.ltb_spec (i_addr b) (i_addr a)); [discriminate|]; intros _; repeat split; lia.
Qed.

Lemma signal_link_all :
  (forall a b fa fb, i_addr a <> 0 -> i_addr b <> 0 -> Z.odd fa = i_excl a -> Z.odd fb = i_excl b ->
     signal_compare (i_addr a) (i_sig a) (i_addr b) (i_sig b) fa fb =
     Some (if lt_rec a b then -1 else if lt_rec b a then 1 else 0)) /\
  (forall a b fa fb, i_addr a <> 0 -> i_addr b <> 0 -> Z.odd fa = i_excl a -> Z.odd fb = i_excl b ->
     (signal_compare (i_addr a) (i_sig a) (i_addr b) (i_sig b) fa fb = Some (-1) <-> lt_rec a b = true)) /\
  (forall a b fa fb, i_addr a <> 0 -> i_addr b <> 0 -> Z.odd fa = i_excl a -> Z.odd fb = i_excl b ->
     signal_compare (i_addr a) (i_sig a) (i_addr b) (i_sig b) fa fb = Some 0 ->
     i_sig a = i_sig b /\ i_excl a = i_excl b /\ i_addr a = i_addr b).
Proof. exact (conj leaf_signal_compare (conj leaf_signal_lt leaf_signal_eq)). Qed.

(* ---- round 9: the fan-out walk of __iv_signal_do_wake ----
   gen/c2gallina.py also translates `while (an != NULL)`, `if (is->signum != signum) break;`, `is->active = 1;`,
   `woken++;` and `if (is->flags & IV_SIGNAL_FLAG_EXCLUSIVE) break;`.  The walk written with these tests over the
   records of one tree in tree order, starting at the first record of the signal, selects exactly `walk` of the model
   (every interest of the signal up to and including the first exclusive one) and counts them. *)
Import ListNotations.

Definition flags_of (r : irec) : Z := (if i_excl r then 1 else 0) + (if i_tt r then 2 else 0).

Fixpoint do_wake_code (signum : Z) (l : list irec) (woken : Z) : option (list Z * Z) :=
  match l with
  | [] => match signal_wake_more 0 with Some false => Some ([], woken) | _ => None end
  | r :: t =>
      match signal_wake_more (i_addr r), signal_wake_other (i_sig r) signum with
      | Some more, Some other =>
          if negb more then Some ([], woken) else
          if other then Some ([], woken) else
          match signal_wake_active tt, signal_wake_count woken, signal_wake_excl (flags_of r) with
          | Some one, Some woken', Some excl =>
              if negb (one =? 1) then None else
              if excl then Some ([i_id r], woken')
              else match do_wake_code signum t woken' with
                   | Some (ids, w) => Some (i_id r :: ids, w)
                   | None => None
                   end
          | _, _, _ => None
          end
      | _, _ => None
      end
  end.

Lemma leaf_wake_excl : forall r, signal_wake_excl (flags_of r) = Some (i_excl r).
Proof. intros r. unfold signal_wake_excl, flags_of. destruct (i_excl r), (i_tt r); reflexivity. Qed.

(* records of the signal first (as __iv_signal_find_first positions the walk), then records of other signals *)
Theorem do_wake_is_the_code : forall sig same rest woken,
  (forall r, In r same -> i_sig r = sig /\ i_addr r <> 0) ->
  (match rest with [] => True | r :: _ => i_sig r <> sig /\ i_addr r <> 0 end) ->
  0 <= woken -> woken + Z.of_nat (length same) < 2147483648 ->
  do_wake_code sig (same ++ rest) woken = Some (walk same, woken + Z.of_nat (length (walk same))).
Proof.
  intros sig same. induction same as [|r t IH]; intros rest woken Hs Hr H0 Hb.
  - cbn [app walk length Z.of_nat]. rewrite Z.add_0_r. destruct rest as [|x rest']; cbn [do_wake_code].
    + reflexivity.
    + destruct Hr as [Hx Ha]. unfold signal_wake_more, signal_wake_other.
      destruct (Z.eqb_spec (i_addr x) 0); [contradiction|]. cbn [negb].
      destruct (Z.eqb_spec (i_sig x) sig); [contradiction|]. reflexivity.
  - cbn [app do_wake_code]. destruct (Hs r (or_introl eq_refl)) as [Hsig Haddr].
    unfold signal_wake_more, signal_wake_other, signal_wake_active, signal_wake_count. rewrite leaf_wake_excl.
    assert (Ec : c_chk_s 32 (woken + 1) = Some (woken + 1)).
    { unfold c_chk_s, c_in_s.
      cbn [length] in Hb. rewrite Nat2Z.inj_succ in Hb.
      assert (H1 : (- 2 ^ (32 - 1) <=? woken + 1) = true) by (apply Z.leb_le; change (2 ^ (32 - 1)) with 2147483648; lia).
      assert (H2 : (woken + 1 <? 2 ^ (32 - 1)) = true) by (apply Z.ltb_lt; change (2 ^ (32 - 1)) with 2147483648; lia).
      rewrite H1, H2. reflexivity. }
    rewrite Ec.
    destruct (Z.eqb_spec (i_addr r) 0); [contradiction|]. cbn [negb].
    rewrite Hsig, Z.eqb_refl. cbn [negb Z.eqb].
    cbn [walk]. destruct (i_excl r).
    + cbn [length Z.of_nat Pos.of_succ_nat]. reflexivity.
    + rewrite IH.
      * cbn [length Pos.eqb negb]. rewrite Nat2Z.inj_succ. f_equal. f_equal. lia.
      * intros x Hx. apply Hs. right. exact Hx.
      * exact Hr.
      * lia.
      * cbn [length] in Hb. rewrite Nat2Z.inj_succ in Hb. lia.
Qed.
