(* SignalLink.v -- the order of the interest sets of MT/SignalModel.v (lt_rec, used by insert) IS iv_signal_compare of
   src/iv_signal.c.  gen/c2gallina.py (TYPED, class CTr) re-translates the whole function on every run from the clang AST
   of the current source into Gen/LeafSignal.v:
     signal_compare a_addr a_signum b_addr b_signum a_flags b_flags : option Z     (-1 / 1 / 0; None = null dereference)
   `a` and `b` are the two struct iv_signal objects (the iv_container_of initialisers of the locals are not translated:
   the objects are whatever they denote); their addresses are the last key (`a < b`, `a > b`: comparison of addresses, flat
   address space).  IV_SIGNAL_FLAG_EXCLUSIVE is bit 0 of ->flags (the constant 1 of the current header, macro-expanded).
   Proved here, for all records with non-null addresses and all flag words whose bit 0 is i_excl: the result is -1 exactly
   when lt_rec a b, 1 exactly when lt_rec b a, 0 otherwise -- and 0 only for equal (signum, exclusive, address). *)
From Coq Require Import List ZArith Bool Lia.
From Ivv Require Import Base.CSem Base.CSemFacts Gen.LeafSignal MT.SignalModel.
Local Open Scope Z_scope.

Lemma leaf_signal_compare : forall a b fa fb,
  i_addr a <> 0 -> i_addr b <> 0 -> Z.odd fa = i_excl a -> Z.odd fb = i_excl b ->
  signal_compare (i_addr a) (i_sig a) (i_addr b) (i_sig b) fa fb =
  Some (if lt_rec a b then -1 else if lt_rec b a then 1 else 0).
Proof.
  intros a b fa fb Ha Hb Fa Fb. unfold signal_compare.
  rewrite (c_deref_nonnull _ Ha), (c_deref_nonnull _ Hb). cbn [ub_bind].
  rewrite !land_1_odd, Fa, Fb, !Z.gtb_ltb. unfold lt_rec.
  destruct (Z.ltb_spec (i_sig a) (i_sig b)) as [L1|L1].
  - reflexivity.
  - destruct (Z.ltb_spec (i_sig b) (i_sig a)) as [L2|L2]; [reflexivity|].
    destruct (i_excl a), (i_excl b); cbn [andb negb]; try reflexivity.
    all: destruct (Z.ltb_spec (i_addr a) (i_addr b)) as [L3|L3]; [reflexivity|];
      destruct (Z.ltb_spec (i_addr b) (i_addr a)); reflexivity.
Qed.

(* the comparator result as the model's strict order *)
Lemma leaf_signal_lt : forall a b fa fb,
  i_addr a <> 0 -> i_addr b <> 0 -> Z.odd fa = i_excl a -> Z.odd fb = i_excl b ->
  (signal_compare (i_addr a) (i_sig a) (i_addr b) (i_sig b) fa fb = Some (-1) <-> lt_rec a b = true).
Proof.
  intros a b fa fb Ha Hb Fa Fb. rewrite (leaf_signal_compare a b fa fb Ha Hb Fa Fb).
  destruct (lt_rec a b); [split; reflexivity|]. destruct (lt_rec b a); split; discriminate.
Qed.

(* equal keys only: 0 is returned only for the same (signum, exclusive flag, address) *)
Lemma leaf_signal_eq : forall a b fa fb,
  i_addr a <> 0 -> i_addr b <> 0 -> Z.odd fa = i_excl a -> Z.odd fb = i_excl b ->
  signal_compare (i_addr a) (i_sig a) (i_addr b) (i_sig b) fa fb = Some 0 ->
  i_sig a = i_sig b /\ i_excl a = i_excl b /\ i_addr a = i_addr b.
Proof.
  intros a b fa fb Ha Hb Fa Fb. rewrite (leaf_signal_compare a b fa fb Ha Hb Fa Fb). unfold lt_rec.
  destruct (Z.ltb_spec (i_sig a) (i_sig b)); [discriminate|].
  destruct (Z.ltb_spec (i_sig b) (i_sig a)); [discriminate|].
  destruct (i_excl a), (i_excl b); cbn [andb negb]; try discriminate.
  all: destruct (Z.ltb_spec (i_addr a) (i_addr b)); [discriminate|];
    destruct (Z.ltb_spec (i_addr b) (i_addr a)); [discriminate|]; intros _; repeat split; lia.
Qed.

Lemma signal_link_all :
  (forall a b fa fb, i_addr a <> 0 -> i_addr b <> 0 -> Z.odd fa = i_excl a -> Z.odd fb = i_excl b ->
     signal_compare (i_addr a) (i_sig a) (i_addr b) (i_sig b) fa fb =
     Some (if lt_rec a b then -1 else if lt_rec b a then 1 else 0)) /\
  (forall a b fa fb, i_addr a <> 0 -> i_addr b <> 0 -> Z.odd fa = i_excl a -> Z.odd fb = i_excl b ->
     (signal_compare (i_addr a) (i_sig a) (i_addr b) (i_sig b) fa fb = Some (-1) <-> lt_rec a b = true)) /\
  (forall a b fa fb, i_addr a <> 0 -> i_addr b <> 0 -> Z.odd fa = i_excl a -> Z.odd fb = i_excl b ->
     signal_compare (i_addr a) (i_sig a) (i_addr b) (i_sig b) fa fb = Some 0 ->
     i_sig a = i_sig b /\ i_excl a = i_excl b /\ i_addr a = i_addr b).
Proof. exact (conj leaf_signal_compare (conj leaf_signal_lt leaf_signal_eq)). Qed.
