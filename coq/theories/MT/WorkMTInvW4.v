(* WorkMTInvW4.v -- the wake-up invariants W4 (queued work) and W5 (finished work, shutdown) of Appendix A.7 *)
From Coq Require Import List ZArith Bool Arith Lia.
From Ivv Require Import MT.WorkMT MT.WorkMTBase MT.WorkMTSpec MT.WorkMTCs MT.WorkMTInvA MT.WorkMTInvW.
Import ListNotations.
Local Open Scope Z_scope.

Lemma step_lock_inv : forall s t s', step s (LLock t) = Some s' -> st_lock s t = Some s'.
Proof.
  unfold step. intros. simpl in H. destruct (fin s || mph_eqb (omain s) MAfter); try discriminate. destruct (blocked s t); try discriminate.
  destruct (kdue s t); try discriminate. destruct (holds s t); simpl in H; try discriminate. exact H.
Qed.

Lemma W4_nolock : forall s l s', (forall t, l <> LLock t) ->
  TB s -> (lock s = None -> todo s = []) -> APN s -> WU s -> W1 s -> W1b s -> Widle s -> W2 s -> W4 s ->
  step s l = Some s' -> W4 s'.
Proof.
  intros s l s' NL T AT PN U A1 A1b WI A2 I H.
  step_inv H; try (exfalso; eapply NL; reflexivity); hold_facts; destruct T as (_ & _ & _ & T4 & T5 & ND);
    unfold W4, wit4, kick_due in *; ssimp; ifs; ssimp; try assumption.
  all: try pool_inv.
  all: try (intros q Q NE; pose proof (I q Q NE) as IQ).
  all: try (intros NE).
  all: try match goal with E : todo _ = _ |- _ => rewrite E in * end.
  all: try (destruct IQ as [FC | (ww & INW & [AC | (PL & [KP | PT] & IK)])];
            [ try (simpl in FC; destruct FC as [FC | FC]; try discriminate FC); try (left; assumption)
            | right; exists ww; split; [ try assumption; try (now right) | ] ..]).
  all: try (left; exact AC).
  all: unfold upd; repeat match goal with |- context [Nat.eqb ?a ?b] => destruct (Nat.eqb a b) eqn:?; bools; subst end;
       cbn [wpcf wkicked wkpend active_pc].
  all: try (left; reflexivity).
  all: try (left; exact AC).
  all: cbn [In app] in *.
  all: try tauto.
  all: try (intuition (try discriminate; try congruence); fail).
  - bools. subst. destruct PT as [PT | PT].
    + inversion PT; subst. right. repeat split; auto.
    + right. repeat split; auto.
  - exfalso. assert (X : wpc_of s w0 = WDead) by (apply U; left; rewrite E5; now left). unfold wpc_of in X. congruence.
  - right. exists n0. split; [now left |]. rewrite Nat.eqb_refl. left. reflexivity.
  - right. split; auto. split; auto. left. intros X. destruct (WI q Q w X) as (_ & [Y | Y]); unfold wpc_of in Y; congruence.
Qed.

Lemma filter_witness : forall (f : nat -> bool) l, (0 < length (filter f l))%nat -> exists x, In x l /\ f x = true.
Proof.
  induction l; simpl; intros; [lia |]. destruct (f a) eqn:F.
  - exists a. auto.
  - destruct (IHl H) as (x & A & B). exists x. auto.
Qed.

(* critical sections that leave the queue, the idle list and the workers alone *)
Lemma W4_frame : forall s s' p p', pl s = PLive p -> pl s' = PLive p' -> todo s = [] ->
  (forall w, wk s' w = wk s w) -> wids s' = wids s -> pitems p' = pitems p -> pidle p' = pidle p -> W4 s -> W4 s'.
Proof.
  unfold W4, wit4, kick_due, wpc_of. intros s s' p p' P P' TD WK WI IT ID I q Q NE.
  rewrite P' in Q. inversion Q; subst q. rewrite IT in NE. destruct (I p P NE) as [FC | (w & INW & W)].
  - rewrite TD in FC. destruct FC.
  - right. exists w. rewrite WK, WI, ID. split; auto. destruct W as [AC | (PL & [KP | PT] & IK)]; auto.
    rewrite TD in PT. destruct PT.
Qed.

Lemma W4_keep_other : forall s s' p p' t, pl s = PLive p -> pl s' = PLive p' -> todo s = [] ->
  wids s' = wids s -> (forall w, w <> t -> wk s' w = wk s w) -> pitems p' = pitems p ->
  (forall w, w <> t -> In w (pidle p') -> In w (pidle p)) -> ~ wit4 s p t -> W4 s -> W4 s'.
Proof.
  unfold W4. intros s s' p p' t P P' TD WI WK IT ID NW I q Q NE.
  rewrite P' in Q. inversion Q; subst q. rewrite IT in NE. destruct (I p P NE) as [FC | (w & INW & W)].
  - rewrite TD in FC. destruct FC.
  - right. exists w. rewrite WI. split; auto.
    assert (w <> t) by (intros ->; contradiction).
    unfold wit4, kick_due, wpc_of in *. rewrite (WK w H).
    destruct W as [AC | (PL & [KP | PT] & IK)]; auto.
    + right. repeat split; auto. destruct IK as [IK | IK]; auto.
    + rewrite TD in PT. destruct PT.
Qed.

Lemma W4_witness : forall s' p' w, pl s' = PLive p' -> In w (wids s') -> wit4 s' p' w -> W4 s'.
Proof.
  unfold W4. intros. rewrite H in H2. inversion H2; subst. right. eauto.
Qed.

Lemma W4_noitems : forall s' p', pl s' = PLive p' -> pitems p' = [] -> W4 s'.
Proof. unfold W4. intros. rewrite H in H1. inversion H1; subst. contradiction. Qed.

Lemma items_empty : forall s p, W1 s -> pl s = PLive p -> phead p = ptail p -> pitems p = [].
Proof.
  intros s p A P HT. destruct (A p P) as (H1 & H2 & H3 & H4).
  assert (Z.of_nat (length (pitems p)) = 0) by (apply (head_tail_items (phead p) (ptail p)); auto).
  destruct (pitems p); auto. simpl in H. lia.
Qed.

Lemma W4_lock : forall s t s', TB s -> (lock s = None -> todo s = []) -> AAct s -> W1 s -> W1b s -> Widle s -> W2 s -> W4 s ->
  st_lock s t = Some s' -> W4 s'.
Proof.
  intros s t s' (_ & _ & _ & T4 & T5 & ND) AT AA A1 A1b WI A2 I H.
  unfold st_lock in H. destruct (pl s) as [|p|] eqn:P; try discriminate. destruct (lock s) eqn:L; try discriminate.
  pose proof (AT eq_refl) as TD.
  assert (FR : forall s1 p1, pl s1 = PLive p1 -> (forall w, wk s1 w = wk s w) -> wids s1 = wids s ->
                pitems p1 = pitems p -> pidle p1 = pidle p -> W4 s1).
  { intros. eapply (W4_frame s s1 p p1); eauto. }
  destruct (act s t) as [|i g|g] eqn:A.
  - destruct (Nat.eqb t (own s)) eqn:O.
    + (* handlers of the owner *)
      destruct (ohst s) as [|e|l|l|] eqn:HS; try discriminate.
      * destruct e; try discriminate.
        -- inversion H; subst. eapply FR; reflexivity.
        -- destruct (cs_needed p) as (p' & e) eqn:C. inversion H; subst.
           apply cs_needed_spec in C. destruct C as [(C1 & C2 & -> & ->) | (_ & -> & ->)]; eapply FR; reflexivity.
      * destruct l; try discriminate. destruct (pshut p); try discriminate.
        destruct (cs_free_test p); inversion H; subst; eapply FR; reflexivity.
    + (* a worker *)
      assert (INT : wpcf (wk s t) <> WNone -> In t (wids s)) by (intros NN; now apply T5).
      destruct (wpcf (wk s t)) as [| | | | |i last|i last|i last|] eqn:PC; try discriminate.
      * (* idle timeout *)
        destruct (cs_idle p t (wk s t)) as [[[p' pc] e]|] eqn:C; try discriminate. inversion H; subst. clear H.
        apply cs_idle_spec in C. inversion C; subst.
        -- eapply FR; try reflexivity. intros w. unfold enter; ssimp.
           destruct (upd_cases _ (wk s) t {| wpcf := WLoop; wkicked := wkicked (wk s t); wkpend := wkpend (wk s t) |} w) as [(-> & ->) | (_ & ->)]; auto.
           rewrite <- PC. now destruct (wk s t).
        -- eapply (W4_keep_other s _ p _ t P); [reflexivity | exact TD | reflexivity | | reflexivity | | | exact I].
           ++ intros w NE. unfold enter; ssimp. now apply upd_other.
           ++ cbn. intros w NE X. apply rem_In in X. tauto.
           ++ unfold wit4, wpc_of. rewrite PC. cbn. intros [X | (_ & _ & [X | X])]; try discriminate; try contradiction; congruence.
      * (* got_event *)
        destruct (cs_got p t (wk s t)) as [[[p' pc] e]|] eqn:C; try discriminate. inversion H; subst. clear H.
        apply cs_got_spec in C. inversion C; subst.
        -- eapply (W4_witness _ _ t); try reflexivity; auto. { apply INT. discriminate. }
           left. unfold enter, wpc_of; ssimp. now rewrite upd_same.
        -- eapply W4_noitems; try reflexivity. cbn. eapply items_empty; eauto.
        -- eapply W4_noitems; try reflexivity. cbn. eapply items_empty; eauto.
        -- eapply (W4_witness _ _ t); try reflexivity; auto. { apply INT. discriminate. }
           right. unfold enter, kick_due, wpc_of; ssimp. rewrite upd_same. cbn. repeat split; auto.
           left. rewrite rem_In. tauto.
      * (* after the work function *)
        destruct (cs_after p t (wk s t) i last) as [[[p' pc] e]|] eqn:C; try discriminate. inversion H; subst. clear H.
        apply cs_after_spec in C. destruct C as (e1 & C & ->). inversion C; subst.
        -- eapply (W4_witness _ _ t); try reflexivity; auto. { apply INT. discriminate. }
           left. unfold enter, wpc_of; ssimp. now rewrite upd_same.
        -- eapply W4_noitems; try reflexivity. cbn. eapply items_empty; eauto.
        -- eapply W4_noitems; try reflexivity. cbn. eapply items_empty; eauto.
        -- eapply (W4_witness _ _ t); try reflexivity; auto. { apply INT. discriminate. }
           right. unfold enter, kick_due, wpc_of; ssimp. rewrite upd_same. cbn. repeat split; auto.
           ++ right. apply in_or_app. right. now left.
           ++ left. intros X. destruct (WI p P t X) as (_ & [Y | Y]); unfold wpc_of in Y; congruence.
  - (* iv_work_submit_pool *)
    destruct g; try discriminate.
    destruct (cs_submit p (Nat.eqb t (own s)) i) as [[[p' kw] e]|] eqn:C; try discriminate. inversion H; subst; clear H.
    apply cs_submit_spec in C. destruct C as (B & C). inversion C; subst.
    + destruct (WI p P w) as (INW & PCW). { rewrite H. now left. }
      eapply (W4_witness _ _ w); try reflexivity; auto.
      unfold wit4, kick_due, wpc_of, enter in *; ssimp. rewrite upd_same. cbn.
      destruct PCW as [PCW | PCW]; rewrite PCW; cbn; auto.
      right. repeat split; auto.
    + unfold W4, enter; ssimp. intros q Q _. left. now left.
    + apply Nat.eqb_neq in H1. destruct (AA t) as [X | (i1 & l1 & X)]; [rewrite A; discriminate | contradiction |].
      eapply (W4_witness _ _ t); try reflexivity; auto. { apply T5. rewrite X. discriminate. }
      left. unfold enter, wpc_of in *; ssimp. now rewrite X.
    + destruct A1b as (B1 & _). destruct (B1 p P) as (S1 & S2 & S3). rewrite TD in S1. cbn in S1.
      destruct (filter_witness (fun w => is_live (wpc_of s w)) (wids s)) as (w & INW & LW). { unfold nlive in S1. lia. }
      destruct (A2 p P w INW LW) as [X | X]. { rewrite H in X. destruct X. }
      eapply (W4_witness _ _ w); try reflexivity; auto.
      unfold wit, wit4, kick_due, wpc_of, enter in *; ssimp. cbn [pidle p_set_items p_set_tail]. rewrite H.
      destruct X as [X | (X1 & [X2 | X2])]; auto.
      * right. repeat split; auto.
      * rewrite TD in X2. destruct X2.
  - (* iv_work_pool_put *)
    destruct g; try discriminate. destruct (Nat.eqb t (own s)); try discriminate.
    destruct (pstarted p =? 0); inversion H; subst; eapply FR; reflexivity.
Qed.

Lemma W4_step : forall s l s', TB s -> (lock s = None -> todo s = []) -> AAct s -> APN s -> WU s -> W1 s -> W1b s -> Widle s ->
  W2 s -> W4 s -> step s l = Some s' -> W4 s'.
Proof.
  intros. destruct l; try (eapply W4_nolock; eauto; intros; discriminate).
  apply step_lock_inv in H9. eapply W4_lock; eauto.
Qed.

(* the unregister calls owed by the owner concern a joined thread, unless the pool is being freed *)
Definition HFX (s : state) : Prop := forall l, ohst s = HFree l ->
  (forall e, In e l -> exists n, e = EvDead n) \/ (In FFree (todo s) /\ lock s = Some (own s)) \/ pl s = PFreed.

Lemma HFX_step : forall s l s', HFX s -> step s l = Some s' -> HFX s'.
Proof.
  intros s l s' I H.
  assert (O : own s' = own s) by (eapply own_step; eauto).
  step_inv H; hold_facts; unfold HFX in *; rewrite ?O; ssimp; ifs; ssimp; try assumption.
  all: try (intros ? X; discriminate X).
  all: intros ll X; try (inversion X; subst; clear X).
  all: try (left; intros e [<- | []]; eauto; fail).
  all: try (right; right; reflexivity).
  all: try (right; left; split; [now left | congruence]).
  all: try match goal with X : ohst _ = HFree _ |- _ => pose proof (I _ X) as [IH | [(IH1 & IH2) | IH]] end.
  all: try (left; assumption).
  all: try (right; right; assumption).
  all: try congruence.
  all: try match goal with E : todo _ = _ |- _ => rewrite E in * end.
  all: try (simpl in IH1; destruct IH1 as [IH1 | IH1]; try discriminate IH1; right; left; split; auto; fail).
  all: try (destruct IH1; fail).
  - exfalso. unfold own_may_act in E7. bools. subst. congruence.
  - right. left. split; [now left |]. bools. now subst.
  - left. intros e X. apply IH. now right.
  - right. left. split; auto.
Qed.

Lemma shutb_live : forall s p, pl s = PLive p -> shutb s = pshut p.
Proof. unfold shutb. intros. now rewrite H. Qed.

