(* WorkMTInvW4.v -- the wake-up invariants W4 (queued work) and W5 (finished work, shutdown) of Appendix A.7 *)
From Coq Require Import List ZArith Bool Arith Lia.
From Ivv Require Import MT.WorkMT MT.WorkMTBase MT.WorkMTSpec MT.WorkMTCs MT.WorkMTInvA MT.WorkMTInvW.
Import ListNotations.
Local Open Scope Z_scope.

Lemma step_lock_inv : forall s t s', step s (LLock t) = Some s' -> st_lock s t = Some s'.
Proof.
  unfold step. intros. simpl in H. destruct (fin s || mph_eqb (omain s) MAfter); try discriminate. destruct (blocked s t); try discriminate.
  destruct (kdue s t); try discriminate. destruct (holds s t); simpl in H; try discriminate. exact H.
Qed.

(* the wake-up invariant without the thread_needed witness (what holds while no foreign submission is being served) *)
Definition W4o (s : state) : Prop := forall p, pl s = PLive p -> pitems p <> [] ->
  In FCreate (todo s) \/ exists w, In w (wids s) /\ wit4 s p w.

Lemma W4o_W4 : forall s, W4o s -> W4 s.
Proof. unfold W4o, W4. intros s H p P NE. destruct (H p P NE) as [X | X]; auto. Qed.

Lemma W4_split : forall s, W4 s -> W4o s \/ exists p, pl s = PLive p /\ pitems p <> [] /\ needed_wit s p.
Proof.
  unfold W4, W4o. intros s H. destruct (pl s) as [|p|] eqn:P; try (left; intros q Q; discriminate Q).
  destruct (pitems p) as [|a r] eqn:IT.
  - left. intros q Q NE. inversion Q; subst q. congruence.
  - assert (NE : pitems p <> []) by (rewrite IT; discriminate).
    destruct (H p eq_refl NE) as [X | [X | X]].
    + left. intros q Q _. inversion Q; subst q. auto.
    + left. intros q Q _. inversion Q; subst q. auto.
    + right. exists p. auto.
Qed.

Lemma W4_nolock : forall s l s', (forall t, l <> LLock t) ->
  TB s -> (lock s = None -> todo s = []) -> APN s -> WU s -> W1 s -> W1b s -> Widle s -> W2 s -> W4o s ->
  step s l = Some s' -> W4o s'.
Proof.
  intros s l s' NL T AT PN U A1 A1b WI A2 I H.
  step_inv H; try (exfalso; eapply NL; reflexivity); hold_facts; destruct T as (_ & _ & _ & T4 & T5 & ND);
    unfold W4o, wit4, kick_due in *; ssimp; ifs; ssimp; try assumption.
  all: try pool_inv.
  all: try (intros q Q NE; pose proof (I q Q NE) as IQ).
  all: try (intros NE).
  all: try match goal with E : todo _ = _ |- _ => rewrite E in * end.
  all: try (destruct IQ as [FC | (ww & INW & [AC | (PL & [KP | PT] & IK)])];
            [ try (simpl in FC; destruct FC as [FC | FC]; try discriminate FC); try (left; assumption)
            | right; exists ww; split; [ try assumption; try (now right) | ] ..]).
  all: try (left; exact AC).
  all: unfold upd; repeat match goal with |- context [Nat.eqb ?a ?b] => destruct (Nat.eqb a b) eqn:?; bools; subst end;
       cbn [wpcf wkicked wkpend active_pc].
  all: try (left; reflexivity).
  all: try (left; exact AC).
  all: cbn [In app] in *.
  all: try tauto.
  all: try (intuition (try discriminate; try congruence); fail).
  - bools. subst. destruct PT as [PT | PT].
    + inversion PT; subst. right. repeat split; auto.
    + right. repeat split; auto.
  - exfalso. assert (X : wpc_of s w0 = WDead) by (apply U; left; rewrite E5; now left). unfold wpc_of in X. congruence.
  - right. exists n0. split; [now left |]. rewrite Nat.eqb_refl. left. reflexivity.
  - right. split; auto. split; auto. left. intros X. destruct (WI q Q w X) as (_ & [Y | Y]); unfold wpc_of in Y; congruence.
Qed.

Lemma filter_witness : forall (f : nat -> bool) l, (0 < length (filter f l))%nat -> exists x, In x l /\ f x = true.
Proof.
  induction l; simpl; intros; [lia |]. destruct (f a) eqn:F.
  - exists a. auto.
  - destruct (IHl H) as (x & A & B). exists x. auto.
Qed.

(* critical sections that leave the queue, the idle list and the workers alone *)
Lemma W4_frame : forall s s' p p', pl s = PLive p -> pl s' = PLive p' -> todo s = [] ->
  (forall w, wk s' w = wk s w) -> wids s' = wids s -> pitems p' = pitems p -> pidle p' = pidle p -> W4o s -> W4o s'.
Proof.
  unfold W4o, wit4, kick_due, wpc_of. intros s s' p p' P P' TD WK WI IT ID I q Q NE.
  rewrite P' in Q. inversion Q; subst q. rewrite IT in NE. destruct (I p P NE) as [FC | (w & INW & W)].
  - rewrite TD in FC. destruct FC.
  - right. exists w. rewrite WK, WI, ID. split; auto. destruct W as [AC | (PL & [KP | PT] & IK)]; auto.
    rewrite TD in PT. destruct PT.
Qed.

Lemma W4_keep_other : forall s s' p p' t, pl s = PLive p -> pl s' = PLive p' -> todo s = [] ->
  wids s' = wids s -> (forall w, w <> t -> wk s' w = wk s w) -> pitems p' = pitems p ->
  (forall w, w <> t -> In w (pidle p') -> In w (pidle p)) -> ~ wit4 s p t -> W4o s -> W4o s'.
Proof.
  unfold W4o. intros s s' p p' t P P' TD WI WK IT ID NW I q Q NE.
  rewrite P' in Q. inversion Q; subst q. rewrite IT in NE. destruct (I p P NE) as [FC | (w & INW & W)].
  - rewrite TD in FC. destruct FC.
  - right. exists w. rewrite WI. split; auto.
    assert (w <> t) by (intros ->; contradiction).
    unfold wit4, kick_due, wpc_of in *. rewrite (WK w H).
    destruct W as [AC | (PL & [KP | PT] & IK)]; auto.
    + right. repeat split; auto. destruct IK as [IK | IK]; auto.
    + rewrite TD in PT. destruct PT.
Qed.

Lemma W4_witness : forall s' p' w, pl s' = PLive p' -> In w (wids s') -> wit4 s' p' w -> W4o s'.
Proof.
  unfold W4o. intros. rewrite H in H2. inversion H2; subst. right. eauto.
Qed.

Lemma W4_noitems : forall s' p', pl s' = PLive p' -> pitems p' = [] -> W4o s'.
Proof. unfold W4o. intros. rewrite H in H1. inversion H1; subst. contradiction. Qed.

Lemma items_empty : forall s p, W1 s -> pl s = PLive p -> phead p = ptail p -> pitems p = [].
Proof.
  intros s p A P HT. destruct (A p P) as (H1 & H2 & H3 & H4).
  assert (Z.of_nat (length (pitems p)) = 0) by (apply (head_tail_items (phead p) (ptail p)); auto).
  destruct (pitems p); auto. simpl in H. lia.
Qed.

Lemma W4_lock : forall s t s', TB s -> (lock s = None -> todo s = []) -> AAct s -> W1 s -> W1b s -> Widle s -> W2 s -> W4o s ->
  st_lock s t = Some s' -> W4 s'.
Proof.
  intros s t s' (_ & _ & _ & T4 & T5 & ND) AT AA A1 A1b WI A2 I H.
  unfold st_lock in H. destruct (pl s) as [|p|] eqn:P; try discriminate. destruct (lock s) eqn:L; try discriminate.
  pose proof (AT eq_refl) as TD.
  assert (FR : forall s1 p1, pl s1 = PLive p1 -> (forall w, wk s1 w = wk s w) -> wids s1 = wids s ->
                pitems p1 = pitems p -> pidle p1 = pidle p -> W4o s1).
  { intros. eapply (W4_frame s s1 p p1); eauto. }
  destruct (act s t) as [|i g|g] eqn:A.
  - destruct (Nat.eqb t (own s)) eqn:O.
    + (* handlers of the owner *)
      destruct (ohst s) as [|e|l|l|] eqn:HS; try discriminate.
      * destruct e; try discriminate.
        -- inversion H; subst. apply W4o_W4; eapply FR; reflexivity.
        -- destruct (cs_needed p) as (p' & e) eqn:C. inversion H; subst.
           apply cs_needed_spec in C. destruct C as [(C1 & C2 & -> & ->) | (_ & -> & ->)]; apply W4o_W4; eapply FR; reflexivity.
      * destruct l; try discriminate. destruct (pshut p); try discriminate.
        destruct (cs_free_test p); inversion H; subst; apply W4o_W4; eapply FR; reflexivity.
    + (* a worker *)
      assert (INT : wpcf (wk s t) <> WNone -> In t (wids s)) by (intros NN; now apply T5).
      destruct (wpcf (wk s t)) as [| | | | |i last|i last|i last|] eqn:PC; try discriminate.
      * (* idle timeout *)
        destruct (cs_idle p t (wk s t)) as [[[p' pc] e]|] eqn:C; try discriminate. inversion H; subst. clear H.
        apply cs_idle_spec in C. inversion C; subst.
        -- apply W4o_W4; eapply FR; try reflexivity. intros w. unfold enter; ssimp.
           destruct (upd_cases _ (wk s) t {| wpcf := WLoop; wkicked := wkicked (wk s t); wkpend := wkpend (wk s t) |} w) as [(-> & ->) | (_ & ->)]; auto.
           rewrite <- PC. now destruct (wk s t).
        -- apply W4o_W4; eapply (W4_keep_other s _ p _ t P); [reflexivity | exact TD | reflexivity | | reflexivity | | | exact I].
           ++ intros w NE. unfold enter; ssimp. now apply upd_other.
           ++ cbn. intros w NE X. apply rem_In in X. tauto.
           ++ unfold wit4, wpc_of. rewrite PC. cbn. intros [X | (_ & _ & [X | X])]; try discriminate; try contradiction; congruence.
      * (* got_event *)
        destruct (cs_got p t (wk s t)) as [[[p' pc] e]|] eqn:C; try discriminate. inversion H; subst. clear H.
        apply cs_got_spec in C. inversion C; subst.
        -- apply W4o_W4; eapply (W4_witness _ _ t); try reflexivity; auto. { apply INT. discriminate. }
           left. unfold enter, wpc_of; ssimp. now rewrite upd_same.
        -- apply W4o_W4; eapply W4_noitems; try reflexivity. cbn. eapply items_empty; eauto.
        -- apply W4o_W4; eapply W4_noitems; try reflexivity. cbn. eapply items_empty; eauto.
        -- apply W4o_W4; eapply (W4_witness _ _ t); try reflexivity; auto. { apply INT. discriminate. }
           right. unfold enter, kick_due, wpc_of; ssimp. rewrite upd_same. cbn. repeat split; auto.
           left. rewrite rem_In. tauto.
      * (* after the work function *)
        destruct (cs_after p t (wk s t) i last) as [[[p' pc] e]|] eqn:C; try discriminate. inversion H; subst. clear H.
        apply cs_after_spec in C. destruct C as (e1 & C & ->). inversion C; subst.
        -- apply W4o_W4; eapply (W4_witness _ _ t); try reflexivity; auto. { apply INT. discriminate. }
           left. unfold enter, wpc_of; ssimp. now rewrite upd_same.
        -- apply W4o_W4; eapply W4_noitems; try reflexivity. cbn. eapply items_empty; eauto.
        -- apply W4o_W4; eapply W4_noitems; try reflexivity. cbn. eapply items_empty; eauto.
        -- apply W4o_W4; eapply (W4_witness _ _ t); try reflexivity; auto. { apply INT. discriminate. }
           right. unfold enter, kick_due, wpc_of; ssimp. rewrite upd_same. cbn. repeat split; auto.
           ++ right. apply in_or_app. right. now left.
           ++ left. intros X. destruct (WI p P t X) as (_ & [Y | Y]); unfold wpc_of in Y; congruence.
  - (* iv_work_submit_pool *)
    destruct g; try discriminate.
    destruct (cs_submit_g s p t i) as [[[p' kw] e]|] eqn:C; try discriminate. inversion H; subst; clear H.
    apply cs_submit_g_spec in C. destruct C as (FG & C).
    apply cs_submit_spec in C. destruct C as (B & C). inversion C; subst.
    + destruct (WI p P w) as (INW & PCW). { rewrite H. now left. }
      apply W4o_W4; eapply (W4_witness _ _ w); try reflexivity; auto.
      unfold wit4, kick_due, wpc_of, enter in *; ssimp. rewrite upd_same. cbn.
      destruct PCW as [PCW | PCW]; rewrite PCW; cbn; auto.
      right. repeat split; auto.
    + unfold W4, enter; ssimp. intros q Q _. left. now left.
    + apply Nat.eqb_neq in H1. destruct (AA t) as [X | [(i1 & l1 & X) | (X & Y)]]; [rewrite A; discriminate | contradiction | |].
      * apply W4o_W4; eapply (W4_witness _ _ t); try reflexivity; auto. { apply T5. rewrite X. discriminate. }
        left. unfold enter, wpc_of in *; ssimp. now rewrite X.
      * (* a foreign submitter and no thread to kick: the thread_needed event is the witness *)
        assert (WN : wpc_of s t = WNone).
        { destruct (wpc_of s t) eqn:PC; auto; exfalso;
            assert (INW : In t (wids s)) by (apply T5; rewrite PC; discriminate); apply T4 in INW; destruct INW as (_ & KW); congruence. }
        assert (SH : pshut p = false).
        { apply FG. unfold foreign. rewrite WN. apply Nat.eqb_neq in H1. rewrite H1. reflexivity. }
        unfold W4, needed_wit, evneeded_due, enter; ssimp. intros q Q _. inversion Q; subst q.
        cbn [pidle pstarted pmax pshut p_set_items p_set_tail]. right. right. repeat split; auto. right. right. now left.
    + destruct A1b as (B1 & _). destruct (B1 p P) as (S1 & S2 & S3). rewrite TD in S1. cbn in S1.
      destruct (filter_witness (fun w => is_live (wpc_of s w)) (wids s)) as (w & INW & LW). { unfold nlive in S1. lia. }
      destruct (A2 p P w INW LW) as [X | X]. { rewrite H in X. destruct X. }
      apply W4o_W4; eapply (W4_witness _ _ w); try reflexivity; auto.
      unfold wit, wit4, kick_due, wpc_of, enter in *; ssimp. cbn [pidle p_set_items p_set_tail]. rewrite H.
      destruct X as [X | (X1 & [X2 | X2])]; auto.
      * right. repeat split; auto.
      * rewrite TD in X2. destruct X2.
  - (* iv_work_pool_put *)
    destruct g; try discriminate. destruct (Nat.eqb t (own s)); try discriminate.
    destruct (pstarted p =? 0).
    + destruct (nilb (pitems p)); inversion H; subst.
      * apply W4o_W4; eapply FR; reflexivity.
      * (* work queued and no thread: the put starts one *)
        unfold W4, enter; ssimp. intros q Q _. left. now left.
    + inversion H; subst; apply W4o_W4; eapply FR; reflexivity.
Qed.

(* the unregister calls owed by the owner concern a joined thread, unless the pool is being freed *)
Definition HFX (s : state) : Prop := forall l, ohst s = HFree l ->
  (forall e, In e l -> exists n, e = EvDead n) \/ (In FFree (todo s) /\ lock s = Some (own s)) \/ pl s = PFreed.

Lemma HFX_step : forall s l s', HFX s -> step s l = Some s' -> HFX s'.
Proof.
  intros s l s' I H.
  assert (O : own s' = own s) by (eapply own_step; eauto).
  step_inv H; hold_facts; unfold HFX in *; rewrite ?O; ssimp; ifs; ssimp; try assumption.
  all: try (intros ? X; discriminate X).
  all: intros ll X; try (inversion X; subst; clear X).
  all: try (left; intros e [<- | []]; eauto; fail).
  all: try (right; right; reflexivity).
  all: try (right; left; split; [now left | congruence]).
  all: try match goal with X : ohst _ = HFree _ |- _ => pose proof (I _ X) as [IH | [(IH1 & IH2) | IH]] end.
  all: try (left; assumption).
  all: try (right; right; assumption).
  all: try congruence.
  all: try match goal with E : todo _ = _ |- _ => rewrite E in * end.
  all: try (simpl in IH1; destruct IH1 as [IH1 | IH1]; try discriminate IH1; right; left; split; auto; fail).
  all: try (destruct IH1; fail).
  - exfalso. unfold own_may_act in E7. bools. subst. congruence.
  - right. left. split; [now left |]. bools. now subst.
  - left. intros e X. apply IH. now right.
  - right. left. split; auto.
Qed.

Lemma shutb_live : forall s p, pl s = PLive p -> shutb s = pshut p.
Proof. unfold shutb. intros. now rewrite H. Qed.


(* ---------- queued work whose only witness is the owner's thread_needed event (foreign submitters) ---------- *)
Lemma dispatch_pl : forall s s', dispatch_o s = Some s' -> pl s' = pl s /\ todo s' = todo s.
Proof. unfold dispatch_o. intros s s' H. destruct (orelock s), (obatch s), (opend s); inversion H; subst; cbn; auto. Qed.

Lemma due_dispatch : forall s s', otopb s = true -> evneeded_due s -> dispatch_o s = Some s' -> evneeded_due s'.
Proof.
  unfold evneeded_due. intros s s' T D H.
  assert (NP : ohst s <> HPop EvNeeded) by (intros X; unfold otopb in T; rewrite X in T; discriminate).
  destruct (dispatch_pl _ _ H) as (_ & TD).
  rewrite TD. destruct D as [X | [X | X]]; auto; try contradiction.
  unfold dispatch_o in H. destruct (orelock s).
  - destruct (obatch s) as [|e r] eqn:OB; inversion H; subst; cbn.
    + left. now rewrite OB.
    + apply in_app_iff in X. destruct X as [X | [X | X]].
      * left. apply in_app_iff. now left.
      * subst. right. now left.
      * left. apply in_app_iff. now right.
  - destruct (obatch s) as [|e0 r0] eqn:OB; try discriminate.
    destruct (opend s) as [|e r] eqn:OP; inversion H; subst; cbn.
    + left. now rewrite OP, OB.
    + rewrite app_nil_r in X. destruct X as [X | X].
      * subst. right. now left.
      * now left.
Qed.

Lemma otopb_nopop0 : forall s e, otopb s = true -> ohst s <> HPop e.
Proof. unfold otopb. intros s e T X. rewrite X in T. discriminate. Qed.

Lemma ND_nolock : forall s l s' p p', (forall t, l <> LLock t) -> HFX s ->
  pl s = PLive p -> pl s' = PLive p' -> needed_wit s p -> step s l = Some s' -> needed_wit s' p'.
Proof.
  intros s l s' p p' NL HF P P' (D & N2 & N3 & N4) H.
  assert (PP : p' = p /\ evneeded_due s'); [| destruct PP as (-> & D'); unfold needed_wit; auto].
  step_inv0 H; try (exfalso; eapply NL; reflexivity); hold_facts.
  all: try match goal with HD : dispatch_o _ = Some _ |- _ =>
         bools; destruct (dispatch_pl _ _ HD) as (X1 & _); split; [congruence | eapply due_dispatch; eauto] end.
  all: unfold evneeded_due in *; ssimp; ifs; ssimp.
  all: try congruence.
  all: split; [congruence |].
  all: repeat match goal with
       | H : omemb _ _ = true |- _ => apply omemb_In in H
       | H : omemb _ _ = false |- _ => clear H
       end.
  all: bools.
  all: try match goal with T : otopb _ = true |- _ => pose proof (fun e => otopb_nopop0 _ e T) as NP end.
  all: repeat match goal with E : todo _ = _ |- _ => rewrite E in * | E : ohst _ = _ |- _ => rewrite E in * end.
  all: rewrite ?in_app_iff in *; cbn [In] in *.
  all: try tauto.
  all: try (intuition (try discriminate; try congruence); fail).
  destruct (HF _ E7) as [F | [(F1 & F2) | F]]; [| congruence | congruence].
  destruct (F o (or_introl eq_refl)) as (m & ->). rewrite !orem_In.
  destruct D as [[X | X] | [X | X]]; try discriminate; auto.
  - left. left. split; auto. discriminate.
  - left. right. split; auto. discriminate.
Qed.

Lemma W4_of_needed : forall s, (forall p, pl s = PLive p -> needed_wit s p) -> W4 s.
Proof. unfold W4. intros s H p P _. right. right. auto. Qed.

Lemma ND_lock : forall s t s' p, TB s -> (lock s = None -> todo s = []) -> W1 s -> W1b s -> Widle s -> W2 s ->
  pl s = PLive p -> pitems p <> [] -> needed_wit s p -> st_lock s t = Some s' -> W4 s'.
Proof.
  intros s t s' p (_ & _ & _ & T4 & T5 & ND) AT A1 A1b WI A2 P NE (D & N2 & N3 & N4) H.
  unfold st_lock in H. rewrite P in H. destruct (lock s) eqn:L; try discriminate.
  pose proof (AT eq_refl) as TD.
  assert (DUE : In EvNeeded (opend s ++ obatch s) \/ ohst s = HPop EvNeeded).
  { destruct D as [X | [X | X]]; auto. rewrite TD in X. destruct X. }
  destruct (act s t) as [|i g|g] eqn:A.
  - destruct (Nat.eqb t (own s)) eqn:O.
    + (* handlers of the owner *)
      destruct (ohst s) as [|e|l|l|] eqn:HS; try discriminate.
      * destruct e; try discriminate.
        -- (* iv_work_event steals work_done: thread_needed is still pending *)
           inversion H; subst. apply W4_of_needed. unfold needed_wit, evneeded_due, enter; ssimp. intros q Q. inversion Q; subst q.
           cbn [pidle pstarted pmax pshut p_set_done]. repeat split; auto. left. destruct DUE as [X | X]; [exact X | discriminate X].
        -- (* iv_work_thread_needed starts the thread *)
           destruct (cs_needed p) as (p' & e) eqn:C. inversion H; subst.
           apply cs_needed_spec in C. destruct C as [(C1 & C2 & -> & ->) | ([C1 | C1] & _ & _)]; [| contradiction | lia].
           unfold W4, enter; ssimp. intros q Q _. left. now left.
      * destruct l; try discriminate. rewrite N4 in H. discriminate.
    + (* a worker *)
      assert (INT : wpcf (wk s t) <> WNone -> In t (wids s)) by (intros NN; now apply T5).
      destruct (wpcf (wk s t)) as [| | | | |i last|i last|i last|] eqn:PC; try discriminate.
      * (* idle timeout: nobody is idle *)
        destruct (cs_idle p t (wk s t)) as [[[p' pc] e]|] eqn:C; try discriminate.
        apply cs_idle_spec in C. inversion C; subst; rewrite N2 in *; contradiction.
      * (* got_event *)
        destruct (cs_got p t (wk s t)) as [[[p' pc] e]|] eqn:C; try discriminate. inversion H; subst. clear H.
        apply cs_got_spec in C. inversion C; subst.
        -- apply W4o_W4; eapply (W4_witness _ _ t); try reflexivity; auto. { apply INT. discriminate. }
           left. unfold enter, wpc_of; ssimp. now rewrite upd_same.
        -- apply W4o_W4; eapply W4_noitems; try reflexivity. cbn. eapply items_empty; eauto.
        -- apply W4o_W4; eapply W4_noitems; try reflexivity. cbn. eapply items_empty; eauto.
        -- apply W4o_W4; eapply (W4_witness _ _ t); try reflexivity; auto. { apply INT. discriminate. }
           right. unfold enter, kick_due, wpc_of; ssimp. rewrite upd_same. cbn. repeat split; auto.
           left. rewrite rem_In. tauto.
      * (* after the work function *)
        destruct (cs_after p t (wk s t) i last) as [[[p' pc] e]|] eqn:C; try discriminate. inversion H; subst. clear H.
        apply cs_after_spec in C. destruct C as (e1 & C & ->). inversion C; subst.
        -- apply W4o_W4; eapply (W4_witness _ _ t); try reflexivity; auto. { apply INT. discriminate. }
           left. unfold enter, wpc_of; ssimp. now rewrite upd_same.
        -- apply W4o_W4; eapply W4_noitems; try reflexivity. cbn. eapply items_empty; eauto.
        -- apply W4o_W4; eapply W4_noitems; try reflexivity. cbn. eapply items_empty; eauto.
        -- apply W4o_W4; eapply (W4_witness _ _ t); try reflexivity; auto. { apply INT. discriminate. }
           right. unfold enter, kick_due, wpc_of; ssimp. rewrite upd_same. cbn. repeat split; auto.
           ++ right. apply in_or_app. right. now left.
           ++ left. intros X. destruct (WI p P t X) as (_ & [Y | Y]); unfold wpc_of in Y; congruence.
  - (* iv_work_submit_pool *)
    destruct g; try discriminate.
    destruct (cs_submit_g s p t i) as [[[p' kw] e]|] eqn:C; try discriminate. inversion H; subst; clear H.
    apply cs_submit_g_spec in C. destruct C as (FG & C).
    apply cs_submit_spec in C. destruct C as (B & C). inversion C; subst.
    + congruence.
    + unfold W4, enter; ssimp. intros q Q _. left. now left.
    + apply W4_of_needed. unfold needed_wit, evneeded_due, enter; ssimp. intros q Q. inversion Q; subst q.
      cbn [pidle pstarted pmax pshut p_set_items p_set_tail]. repeat split; auto. right. right. now left.
    + lia.
  - (* iv_work_pool_put: without a pool thread it starts one for the queued work *)
    destruct g; try discriminate.
    destruct (Nat.eqb t (own s)); try discriminate.
    destruct (pstarted p =? 0) eqn:Z0.
    { destruct (nilb (pitems p)) eqn:NI. { apply nilb_true in NI. contradiction. }
      inversion H; subst. unfold W4, enter; ssimp. intros q Q _. left. now left. }
    apply Z.eqb_neq in Z0. inversion H; subst; clear H.
    destruct A1b as (B1 & _). destruct (B1 p P) as (S1 & S2 & S3). rewrite TD in S1. cbn in S1.
    destruct (filter_witness (fun w => is_live (wpc_of s w)) (wids s)) as (w & INW & LW). { unfold nlive in S1. lia. }
    destruct (A2 p P w INW LW) as [X | X]. { rewrite N2 in X. destruct X. }
    apply W4o_W4; eapply (W4_witness _ _ w); try reflexivity; auto.
    unfold wit, wit4, kick_due, wpc_of, enter in *; ssimp. cbn [pidle p_set_shut]. rewrite N2.
    destruct X as [X | (X1 & [X2 | X2])]; auto.
    * right. repeat split; auto.
    * rewrite TD in X2. destruct X2.
Qed.

Lemma W4_step : forall s l s', TB s -> (lock s = None -> todo s = []) -> AAct s -> APN s -> WU s -> W1 s -> W1b s -> Widle s ->
  W2 s -> HFX s -> W4 s -> step s l = Some s' -> W4 s'.
Proof.
  intros s l s' T AT AA PN U A1 A1b WI A2 HF I H.
  destruct (W4_split s I) as [IO | (p & P & NE & NW)].
  - destruct l; try (apply W4o_W4; eapply W4_nolock; eauto; intros; discriminate).
    apply step_lock_inv in H. eapply W4_lock; eauto.
  - destruct l; try (apply W4_of_needed; intros p' P'; eapply (ND_nolock s _ s' p p'); eauto; intros; discriminate).
    apply step_lock_inv in H. eapply ND_lock; eauto.
Qed.
