(* EventMTLemmas.v -- list / thread-table lemmas for the iv_event transition system. *)
From Coq Require Import List Bool Arith Lia.
From Ivv Require Import MT.EventMT.
Import ListNotations.

(* ---- membership, removal ---- *)
Lemma mem_In : forall e l, mem e l = true <-> In e l.
Proof.
  intros e l. unfold mem. rewrite existsb_exists. split.
  - intros [x [Hx He]]. apply Nat.eqb_eq in He. subst. exact Hx.
  - intros H. exists e. split; [exact H | apply Nat.eqb_refl].
Qed.

Lemma mem_nIn : forall e l, mem e l = false <-> ~ In e l.
Proof.
  intros e l. rewrite <- mem_In. destruct (mem e l).
  - split; [discriminate | intros H; exfalso; apply H; reflexivity].
  - split; [intros _ H; discriminate | reflexivity].
Qed.

Lemma In_rem : forall x e l, In x (rem e l) <-> In x l /\ x <> e.
Proof.
  intros x e l. unfold rem. rewrite filter_In. rewrite negb_true_iff, Nat.eqb_neq. tauto.
Qed.

Lemma nIn_rem_self : forall e l, ~ In e (rem e l).
Proof. intros e l H. apply In_rem in H. destruct H as [_ H]. apply H. reflexivity. Qed.

Lemma is_nil_true : forall (A : Type) (l : list A), is_nil l = true -> l = [].
Proof. intros A [|x l]; simpl; intros; [reflexivity | discriminate]. Qed.

Lemma upd_same : forall (A : Type) (f : nat -> A) e v, upd f e v e = v.
Proof. intros. unfold upd. rewrite Nat.eqb_refl. reflexivity. Qed.

Lemma upd_other : forall (A : Type) (f : nat -> A) e v x, x <> e -> upd f e v x = f x.
Proof. intros. unfold upd. apply Nat.eqb_neq in H. rewrite H. reflexivity. Qed.

(* ---- occurrences ---- *)
Fixpoint occ (e : nat) (l : list nat) : nat :=
  match l with
  | [] => 0
  | x :: r => (if Nat.eqb x e then 1 else 0) + occ e r
  end.

Lemma occ_app : forall e l1 l2, occ e (l1 ++ l2) = occ e l1 + occ e l2.
Proof. intros e l1 l2. induction l1 as [|x r IH]; simpl; [reflexivity | rewrite IH; lia]. Qed.

Lemma occ_rem_le : forall x e l, occ x (rem e l) <= occ x l.
Proof.
  intros x e l. induction l as [|y r IH]; simpl; [lia|].
  destruct (negb (Nat.eqb y e)); simpl; lia.
Qed.

Lemma occ_nIn : forall e l, ~ In e l -> occ e l = 0.
Proof.
  intros e l. induction l as [|x r IH]; simpl; intros H; [reflexivity|].
  destruct (Nat.eqb x e) eqn:E.
  - apply Nat.eqb_eq in E. exfalso. apply H. left. exact E.
  - simpl. apply IH. intros Hr. apply H. right. exact Hr.
Qed.

(* ---- the thread table ---- *)
Lemma get_filter_neq : forall t u l, t <> u ->
  get t (filter (fun x => negb (Nat.eqb (fst x) u)) l) = get t l.
Proof.
  intros t u l Hn. induction l as [|[v p] r IH]; simpl; [reflexivity|].
  destruct (Nat.eqb v u) eqn:E; simpl.
  - apply Nat.eqb_eq in E. subst v. destruct (Nat.eqb u t) eqn:E2.
    + apply Nat.eqb_eq in E2. congruence.
    + exact IH.
  - rewrite IH. reflexivity.
Qed.

Lemma get_set : forall t u p l, get t (set u p l) = if Nat.eqb u t then p else get t l.
Proof.
  intros t u p l. unfold set. simpl. destruct (Nat.eqb u t) eqn:E; [reflexivity|].
  apply get_filter_neq. apply Nat.eqb_neq in E. congruence.
Qed.

Lemma get_set_same : forall t p l, get t (set t p l) = p.
Proof. intros. rewrite get_set, Nat.eqb_refl. reflexivity. Qed.

Lemma get_set_other : forall t u p l, u <> t -> get t (set u p l) = get t l.
Proof. intros. rewrite get_set. apply Nat.eqb_neq in H. rewrite H. reflexivity. Qed.

Lemma get_In_or_idle : forall t l, get t l = PIdle \/ In (t, get t l) l.
Proof.
  intros t l. induction l as [|[u p] r IH]; simpl; [left; reflexivity|].
  destruct (Nat.eqb u t) eqn:E.
  - apply Nat.eqb_eq in E. subst. right. left. reflexivity.
  - destruct IH as [IH|IH]; [left; exact IH | right; right; exact IH].
Qed.

Lemma none_on_get : forall e l t, none_on e l = true -> on_ev e (get t l) = false.
Proof.
  intros e l t H. destruct (get_In_or_idle t l) as [Hi|Hi].
  - rewrite Hi. reflexivity.
  - unfold none_on in H. rewrite forallb_forall in H. specialize (H _ Hi). simpl in H.
    apply negb_true_iff in H. exact H.
Qed.

Lemma all_idle_get : forall l t, all_idle l = true -> get t l = PIdle.
Proof.
  intros l t H. destruct (get_In_or_idle t l) as [Hi|Hi]; [exact Hi|].
  unfold all_idle in H. rewrite forallb_forall in H. specialize (H _ Hi). simpl in H.
  destruct (get t l); try discriminate. reflexivity.
Qed.

Lemma is_idle_true : forall p, is_idle p = true -> p = PIdle.
Proof. intros [] H; try discriminate; reflexivity. Qed.

(* ---- number of threads that began a post of e and have not yet been in the critical section ---- *)
Definition is_begun (e : nat) (p : ppc) : bool :=
  match p with PBegun x => Nat.eqb x e | _ => false end.

Fixpoint cnt (e : nat) (l : list (nat * ppc)) : nat :=
  match l with
  | [] => 0
  | x :: r => (if is_begun e (snd x) then 1 else 0) + cnt e r
  end.

Lemma cnt_filter_le : forall e f l, cnt e (filter f l) <= cnt e l.
Proof.
  intros e f l. induction l as [|x r IH]; simpl; [lia|].
  destruct (f x); simpl; lia.
Qed.

Lemma cnt_set_le : forall e t p l,
  cnt e (set t p l) <= cnt e l + (if is_begun e p then 1 else 0).
Proof.
  intros. unfold set. simpl.
  pose proof (cnt_filter_le e (fun x => negb (Nat.eqb (fst x) t)) l). lia.
Qed.

Lemma cnt_filter_dec : forall e t l, is_begun e (get t l) = true ->
  S (cnt e (filter (fun x => negb (Nat.eqb (fst x) t)) l)) <= cnt e l.
Proof.
  intros e t l. induction l as [|[u q] r IH]; simpl; intros H; [discriminate|].
  destruct (Nat.eqb u t) eqn:E; simpl.
  - rewrite H. pose proof (cnt_filter_le e (fun x => negb (Nat.eqb (fst x) t)) r). lia.
  - specialize (IH H). lia.
Qed.

Lemma cnt_set_dec : forall e t p l, is_begun e (get t l) = true -> is_begun e p = false ->
  S (cnt e (set t p l)) <= cnt e l.
Proof.
  intros e t p l H Hp. unfold set. simpl. rewrite Hp. simpl. apply cnt_filter_dec. exact H.
Qed.

Lemma cnt_set_nb : forall e t p l, is_begun e p = false -> cnt e (set t p l) <= cnt e l.
Proof. intros. pose proof (cnt_set_le e t p l). rewrite H in H0. lia. Qed.
