(* WaitProofs.v -- invariants of the iv_wait transition system over all accepted label sequences and the
   C11 property lemmas: routing, terminal status once, spawn window, strangers, kill safety, monitor. *)
From Coq Require Import List ZArith Bool Lia.
From Ivv Require Import MT.WaitModel.
Import ListNotations.
Local Open Scope Z_scope.

Ltac zb :=
  repeat match goal with
  | H : (_ <? _) = true |- _ => apply Z.ltb_lt in H
  | H : (_ <? _) = false |- _ => apply Z.ltb_ge in H
  | H : (_ =? _) = true |- _ => apply Z.eqb_eq in H
  | H : (_ =? _) = false |- _ => apply Z.eqb_neq in H
  end.

Ltac dmatch H :=
  repeat match type of H with
  | context [match ?x with _ => _ end] => let E := fresh "E" in destruct x eqn:E; try discriminate H
  | context [if ?x then _ else _] => let E := fresh "E" in destruct x eqn:E; try discriminate H
  end.

(* ---------- association-list facts ---------- *)
Definition keeps (f : wrec -> wrec) : Prop :=
  forall w, w_id (f w) = w_id w /\ w_thr (f w) = w_thr w /\ w_pid (f w) = w_pid w.

Lemma find_in : forall id l w, find id l = Some w -> In w l /\ w_id w = id.
Proof.
  unfold find. intros id l w H. apply find_some in H. destruct H as [H1 H2]. apply Z.eqb_eq in H2. split; assumption.
Qed.

Lemma find_none_in : forall id l w, find id l = None -> In w l -> w_id w <> id.
Proof.
  unfold find. intros id l w H Hin E. apply (find_none _ _ H) in Hin. rewrite E, Z.eqb_refl in Hin. discriminate.
Qed.

Lemma find_unique : forall id l w, NoDup (map w_id l) -> In w l -> w_id w = id -> find id l = Some w.
Proof.
  unfold find. induction l as [|x t IH]; simpl; intros w Hnd Hin E; [contradiction|].
  inversion Hnd; subst. destruct Hin as [->|Hin].
  - rewrite Z.eqb_refl. reflexivity.
  - destruct (w_id x =? w_id w) eqn:E2.
    + apply Z.eqb_eq in E2. exfalso. apply H1. rewrite E2. apply in_map. exact Hin.
    + apply IH; auto.
Qed.

Lemma find_upd_rec : forall f id id' l, keeps f ->
  find id (upd_rec id' f l) = if id =? id' then option_map f (find id l) else find id l.
Proof.
  unfold find, upd_rec. intros f id id' l Hk. induction l as [|x t IH]; simpl.
  - destruct (id =? id'); reflexivity.
  - destruct (w_id x =? id') eqn:E1.
    + destruct (Hk x) as [Hid _]. rewrite Hid. destruct (w_id x =? id) eqn:E2.
      * zb. subst. rewrite Z.eqb_refl. reflexivity.
      * rewrite IH. reflexivity.
    + destruct (w_id x =? id) eqn:E2.
      * zb. subst. destruct (w_id x =? id') eqn:E3; [zb; contradiction|reflexivity].
      * rewrite IH. reflexivity.
Qed.

Lemma find_remove : forall id id' l, find id (remove id' l) = if id =? id' then None else find id l.
Proof.
  unfold find, remove. intros id id' l. induction l as [|x t IH]; simpl.
  - destruct (id =? id'); reflexivity.
  - destruct (w_id x =? id') eqn:E1; simpl.
    + rewrite IH. destruct (id =? id') eqn:E2; [reflexivity|]. destruct (w_id x =? id) eqn:E3; [zb; lia|reflexivity].
    + destruct (w_id x =? id) eqn:E3.
      * destruct (id =? id') eqn:E2; [zb; lia|reflexivity].
      * exact IH.
Qed.

Lemma in_upd_rec : forall f id l x, In x (upd_rec id f l) ->
  exists w, In w l /\ ((w_id w = id /\ x = f w) \/ (w_id w <> id /\ x = w)).
Proof.
  unfold upd_rec. intros f id l x H. apply in_map_iff in H. destruct H as [w [E Hw]]. exists w. split; [exact Hw|].
  destruct (w_id w =? id) eqn:Ei; zb; [left|right]; split; auto.
Qed.

Lemma map_id_upd_rec : forall f id l, keeps f -> map w_id (upd_rec id f l) = map w_id l.
Proof.
  unfold upd_rec. intros f id l Hk. rewrite map_map. apply map_ext. intro w.
  destruct (w_id w =? id); [apply Hk|reflexivity].
Qed.

Lemma in_remove : forall id l x, In x (remove id l) -> In x l /\ w_id x <> id.
Proof.
  unfold remove. intros id l x H. apply filter_In in H. destruct H as [H1 H2]. split; [exact H1|].
  apply negb_true_iff in H2. zb. exact H2.
Qed.

Lemma nodup_remove : forall id l, NoDup (map w_id l) -> NoDup (map w_id (remove id l)).
Proof.
  unfold remove. induction l as [|x t IH]; simpl; intros Hnd; [constructor|]. inversion Hnd; subst.
  destruct (negb (w_id x =? id)); simpl; [|apply IH; assumption]. constructor; [|apply IH; assumption].
  intro Hin. apply H1. apply in_map_iff in Hin. destruct Hin as [y [E Hy]]. apply filter_In in Hy.
  rewrite <- E. apply in_map. apply Hy.
Qed.

Lemma mem_in : forall x l, mem x l = true <-> In x l.
Proof.
  unfold mem. intros x l. rewrite existsb_exists. split.
  - intros [y [H1 H2]]. zb. subst. exact H1.
  - intro H. exists x. split; [exact H|apply Z.eqb_refl].
Qed.

Lemma mem_cons : forall x y l, mem x (y :: l) = (x =? y) || mem x l.
Proof. reflexivity. Qed.

Lemma find_pid_some : forall pid l w, find_pid pid l = Some w -> In w l /\ w_pid w = pid /\ w_dead w = false.
Proof.
  unfold find_pid. intros pid l w H. apply find_some in H. destruct H as [H1 H2].
  apply andb_true_iff in H2. destruct H2 as [H2 H3]. zb. apply negb_true_iff in H3. auto.
Qed.

Lemma find_pid_none : forall pid l w, find_pid pid l = None -> In w l -> w_dead w = false -> w_pid w <> pid.
Proof.
  unfold find_pid. intros pid l w H Hin Hd E. apply (find_none _ _ H) in Hin. rewrite E, Z.eqb_refl, Hd in Hin. discriminate.
Qed.

Lemma keeps_reap : forall st, keeps (set_reap st). Proof. intros st w. repeat split. Qed.
Lemma keeps_steal : keeps set_steal. Proof. intro w. repeat split. Qed.
Lemma keeps_deliver : forall st r, keeps (set_deliver st r). Proof. intros st r w. repeat split. Qed.
#[local] Hint Resolve keeps_reap keeps_steal keeps_deliver : core.
