(* WaitProofs.v -- invariants of the iv_wait transition system over all accepted label sequences and the
   C11 property lemmas: routing, terminal status once, spawn window, strangers, kill safety, monitor. *)
From Coq Require Import List ZArith Bool Lia.
From Ivv Require Import MT.WaitModel.
Import ListNotations.
Local Open Scope Z_scope.

Ltac zb :=
  repeat match goal with
  | H : (_ <? _) = true |- _ => apply Z.ltb_lt in H
  | H : (_ <? _) = false |- _ => apply Z.ltb_ge in H
  | H : (_ =? _) = true |- _ => apply Z.eqb_eq in H
  | H : (_ =? _) = false |- _ => apply Z.eqb_neq in H
  end.

Ltac dmatch H :=
  repeat match type of H with
  | context [match ?x with _ => _ end] => let E := fresh "E" in destruct x eqn:E; try discriminate H
  | context [if ?x then _ else _] => let E := fresh "E" in destruct x eqn:E; try discriminate H
  end.

(* ---------- association-list facts ---------- *)
Definition keeps (f : wrec -> wrec) : Prop :=
  forall w, w_id (f w) = w_id w /\ w_thr (f w) = w_thr w /\ w_pid (f w) = w_pid w.

Lemma find_in : forall id l w, find id l = Some w -> In w l /\ w_id w = id.
Proof.
  unfold find. intros id l w H. apply find_some in H. destruct H as [H1 H2]. apply Z.eqb_eq in H2. split; assumption.
Qed.

Lemma find_none_in : forall id l w, find id l = None -> In w l -> w_id w <> id.
Proof.
  unfold find. intros id l w H Hin E. apply (find_none _ _ H) in Hin. rewrite E, Z.eqb_refl in Hin. discriminate.
Qed.

Lemma find_unique : forall id l w, NoDup (map w_id l) -> In w l -> w_id w = id -> find id l = Some w.
Proof.
  unfold find. induction l as [|x t IH]; simpl; intros w Hnd Hin E; [contradiction|].
  inversion Hnd; subst. destruct Hin as [->|Hin].
  - rewrite Z.eqb_refl. reflexivity.
  - destruct (w_id x =? w_id w) eqn:E2.
    + apply Z.eqb_eq in E2. exfalso. apply H1. rewrite E2. apply in_map. exact Hin.
    + apply IH; auto.
Qed.

Lemma find_upd_rec : forall f id id' l, keeps f ->
  find id (upd_rec id' f l) = if id =? id' then option_map f (find id l) else find id l.
Proof.
  unfold find, upd_rec. intros f id id' l Hk. induction l as [|x t IH]; simpl.
  - destruct (id =? id'); reflexivity.
  - destruct (w_id x =? id') eqn:E1.
    + destruct (Hk x) as [Hid _]. rewrite Hid. destruct (w_id x =? id) eqn:E2.
      * zb. subst. rewrite Z.eqb_refl. reflexivity.
      * rewrite IH. reflexivity.
    + destruct (w_id x =? id) eqn:E2.
      * zb. subst. destruct (w_id x =? id') eqn:E3; [zb; contradiction|reflexivity].
      * rewrite IH. reflexivity.
Qed.

Lemma find_remove : forall id id' l, find id (remove id' l) = if id =? id' then None else find id l.
Proof.
  unfold find, remove. intros id id' l. induction l as [|x t IH]; simpl.
  - destruct (id =? id'); reflexivity.
  - destruct (w_id x =? id') eqn:E1; simpl.
    + rewrite IH. destruct (id =? id') eqn:E2; [reflexivity|]. destruct (w_id x =? id) eqn:E3; [zb; lia|reflexivity].
    + destruct (w_id x =? id) eqn:E3.
      * destruct (id =? id') eqn:E2; [zb; lia|reflexivity].
      * exact IH.
Qed.

Lemma in_upd_rec : forall f id l x, In x (upd_rec id f l) ->
  exists w, In w l /\ ((w_id w = id /\ x = f w) \/ (w_id w <> id /\ x = w)).
Proof.
  unfold upd_rec. intros f id l x H. apply in_map_iff in H. destruct H as [w [E Hw]]. exists w. split; [exact Hw|].
  destruct (w_id w =? id) eqn:Ei; zb; [left|right]; split; auto.
Qed.

Lemma map_id_upd_rec : forall f id l, keeps f -> map w_id (upd_rec id f l) = map w_id l.
Proof.
  unfold upd_rec. intros f id l Hk. rewrite map_map. apply map_ext. intro w.
  destruct (w_id w =? id); [apply Hk|reflexivity].
Qed.

Lemma in_remove : forall id l x, In x (remove id l) -> In x l /\ w_id x <> id.
Proof.
  unfold remove. intros id l x H. apply filter_In in H. destruct H as [H1 H2]. split; [exact H1|].
  apply negb_true_iff in H2. zb. exact H2.
Qed.

Lemma nodup_remove : forall id l, NoDup (map w_id l) -> NoDup (map w_id (remove id l)).
Proof.
  unfold remove. induction l as [|x t IH]; simpl; intros Hnd; [constructor|]. inversion Hnd; subst.
  destruct (negb (w_id x =? id)); simpl; [|apply IH; assumption]. constructor; [|apply IH; assumption].
  intro Hin. apply H1. apply in_map_iff in Hin. destruct Hin as [y [E Hy]]. apply filter_In in Hy.
  rewrite <- E. apply in_map. apply Hy.
Qed.

Lemma mem_in : forall x l, mem x l = true <-> In x l.
Proof.
  unfold mem. intros x l. rewrite existsb_exists. split.
  - intros [y [H1 H2]]. zb. subst. exact H1.
  - intro H. exists x. split; [exact H|apply Z.eqb_refl].
Qed.

Lemma mem_cons : forall x y l, mem x (y :: l) = (x =? y) || mem x l.
Proof. reflexivity. Qed.

Lemma find_pid_some : forall pid l w, find_pid pid l = Some w -> In w l /\ w_pid w = pid /\ w_dead w = false.
Proof.
  unfold find_pid. intros pid l w H. apply find_some in H. destruct H as [H1 H2].
  apply andb_true_iff in H2. destruct H2 as [H2 H3]. zb. apply negb_true_iff in H3. auto.
Qed.

Lemma find_pid_none : forall pid l w, find_pid pid l = None -> In w l -> w_dead w = false -> w_pid w <> pid.
Proof.
  unfold find_pid. intros pid l w H Hin Hd E. apply (find_none _ _ H) in Hin. rewrite E, Z.eqb_refl, Hd in Hin. discriminate.
Qed.

Lemma keeps_reap : forall st, keeps (set_reap st). Proof. intros st w. repeat split. Qed.
Lemma keeps_steal : keeps set_steal. Proof. intro w. repeat split. Qed.
Lemma keeps_deliver : forall st r, keeps (set_deliver st r). Proof. intros st r w. repeat split. Qed.
#[local] Hint Resolve keeps_reap keeps_steal keeps_deliver : core.

(* ---------- the invariant ---------- *)
Definition frame_list (w : wrec) : list Z := match w_frame w with Some l => l | None => [] end.

Definition ok_hist (dead : bool) (h : list Z) : Prop :=
  if dead then exists h' st, h = h' ++ [st] /\ is_dead st = true /\ Forall (fun x => is_dead x = false) h'
  else Forall (fun x => is_dead x = false) h.

Record Inv (s : state) : Prop := {
  i_nodup : NoDup (map w_id (ints s));
  i_x1 : forall a b, In a (ints s) -> In b (ints s) -> w_dead a = false -> w_dead b = false ->
           w_pid a = w_pid b -> w_id a = w_id b;
  i_dead : forall w, In w (ints s) -> w_dead w = mem (w_pid w) (reaped s);
  i_route : forall w, In w (ints s) -> w_hist w = w_deliv w ++ frame_list w ++ w_queue w;
  i_hist : forall w, In w (ints s) -> ok_hist (w_dead w) (w_hist w);
  i_spawn : forall t id pid, spawning s = Some (t, id, pid) ->
     wlock s = Some t /\ find id (ints s) = None /\ find_pid pid (ints s) = None /\ mem pid (reaped s) = false
}.

Lemma init_inv : Inv init.
Proof. constructor; simpl; [constructor|intros; contradiction|intros; contradiction|intros; contradiction|intros; contradiction|intros; discriminate]. Qed.

Lemma holds_lock : forall s t, holds s t = true -> wlock s = Some t.
Proof. unfold holds. intros s t. destruct (wlock s); [|discriminate]. intro H. zb. subst. reflexivity. Qed.

Lemma find_pid_sub : forall pid (l l' : list wrec), (forall w, In w l' -> In w l) -> find_pid pid l = None -> find_pid pid l' = None.
Proof.
  unfold find_pid. intros pid l l' Hsub H. destruct (List.find _ l') as [w|] eqn:E; [|reflexivity].
  apply find_some in E. destruct E as [E1 E2]. pose proof (find_none _ _ H w (Hsub w E1)) as E3. simpl in E3.
  rewrite E3 in E2. discriminate.
Qed.

Lemma find_pid_upd_none : forall pid id f l, (forall w, w_pid (f w) = w_pid w /\ w_dead (f w) = w_dead w) ->
  find_pid pid l = None -> find_pid pid (upd_rec id f l) = None.
Proof.
  unfold find_pid, upd_rec. intros pid id f l Hf. induction l as [|x t IH]; simpl; intro H; [reflexivity|].
  destruct ((w_pid x =? pid) && negb (w_dead x)) eqn:E; [discriminate|].
  assert (E' : (w_pid (if w_id x =? id then f x else x) =? pid) && negb (w_dead (if w_id x =? id then f x else x)) = false).
  { destruct (w_id x =? id); [|exact E]. destruct (Hf x) as [-> ->]. exact E. }
  rewrite E'. apply IH. exact H.
Qed.

Lemma inv_add : forall s t id pid, Inv s -> find id (ints s) = None -> find_pid pid (ints s) = None ->
  mem pid (reaped s) = false -> forall lk sp, (forall a b c, sp = Some (a, b, c) -> False) ->
  Inv {| ints := new_rec t id pid :: ints s; wlock := lk; reaped := reaped s; spawning := sp; kpend := kpend s; draining := draining s |}.
Proof.
  intros s t id pid [H1 H2 H3 H4 H5 H6] Hf Hp Hm lk sp Hsp. constructor; simpl.
  - constructor; [|exact H1]. intro Hin. apply in_map_iff in Hin. destruct Hin as [w [E Hw]].
    apply (find_none_in _ _ _ Hf Hw). exact E.
  - intros a b [<-|Ha] [<-|Hb] Da Db E; simpl in *; auto.
    + exfalso. apply (find_pid_none _ _ _ Hp Hb Db). symmetry. exact E.
    + exfalso. apply (find_pid_none _ _ _ Hp Ha Da). exact E.
  - intros w [<-|Hw]; simpl; [symmetry; exact Hm|apply H3; exact Hw].
  - intros w [<-|Hw]; simpl; [reflexivity|apply H4; exact Hw].
  - intros w [<-|Hw]; simpl; [constructor|apply H5; exact Hw].
  - intros a b c E. exfalso. eapply Hsp. exact E.
Qed.

Lemma inv_upd : forall s f id, Inv s -> keeps f ->
  (forall w, w_dead (f w) = w_dead w /\ w_hist (f w) = w_hist w) ->
  (forall w, In w (ints s) -> w_id w = id -> w_hist w = w_deliv (f w) ++ frame_list (f w) ++ w_queue (f w)) ->
  Inv (with_ints s (upd_rec id f (ints s))).
Proof.
  intros s f id [H1 H2 H3 H4 H5 H6] Hk Hd Hr. constructor; simpl.
  - rewrite map_id_upd_rec; assumption.
  - intros a b Ha Hb Da Db E.
    destruct (in_upd_rec _ _ _ _ Ha) as [a0 [Ha0 Ca]]. destruct (in_upd_rec _ _ _ _ Hb) as [b0 [Hb0 Cb]].
    assert (Ea : w_id a = w_id a0 /\ w_pid a = w_pid a0 /\ w_dead a = w_dead a0).
    { destruct Ca as [[_ ->]|[_ ->]]; [|auto]. destruct (Hk a0) as [? [? ?]]. destruct (Hd a0). auto. }
    assert (Eb : w_id b = w_id b0 /\ w_pid b = w_pid b0 /\ w_dead b = w_dead b0).
    { destruct Cb as [[_ ->]|[_ ->]]; [|auto]. destruct (Hk b0) as [? [? ?]]. destruct (Hd b0). auto. }
    destruct Ea as [-> [Ea2 Ea3]]. destruct Eb as [-> [Eb2 Eb3]]. apply H2; auto; congruence.
  - intros w Hw. destruct (in_upd_rec _ _ _ _ Hw) as [w0 [Hw0 [[_ ->]|[_ ->]]]]; [|apply H3; exact Hw0].
    destruct (Hk w0) as [_ [_ ->]]. destruct (Hd w0) as [-> _]. apply H3; exact Hw0.
  - intros w Hw. destruct (in_upd_rec _ _ _ _ Hw) as [w0 [Hw0 [[Ei ->]|[_ ->]]]]; [|apply H4; exact Hw0].
    destruct (Hd w0) as [_ ->]. apply Hr; assumption.
  - intros w Hw. destruct (in_upd_rec _ _ _ _ Hw) as [w0 [Hw0 [[_ ->]|[_ ->]]]]; [|apply H5; exact Hw0].
    destruct (Hd w0) as [-> ->]. apply H5; exact Hw0.
  - intros t i p E. destruct (H6 t i p E) as [A [B [C D]]]. repeat split; auto.
    + rewrite find_upd_rec by assumption. rewrite B. destruct (i =? id); reflexivity.
    + apply find_pid_upd_none; [|exact C]. intro w. destruct (Hk w) as [_ [_ ->]]. destruct (Hd w) as [-> _]. split; reflexivity.
Qed.

Lemma forall_app1 : forall (P : Z -> Prop) l x, Forall P l -> P x -> Forall P (l ++ [x]).
Proof. intros. apply Forall_app. split; [assumption|constructor; [assumption|constructor]]. Qed.

Lemma inv_reap_found : forall s p pid st, Inv s -> spawning s = None -> find_pid pid (ints s) = Some p ->
  Inv {| ints := upd_rec (w_id p) (set_reap st) (ints s); wlock := wlock s;
         reaped := (if is_dead st then pid :: reaped s else reaped s); spawning := spawning s;
         kpend := kpend s; draining := draining s |}.
Proof.
  intros s p pid st [H1 H2 H3 H4 H5 H6] Hsp Hf. destruct (find_pid_some _ _ _ Hf) as [Hp [Hpid Hlive]].
  assert (Huniq : forall w, In w (ints s) -> w_id w = w_id p -> w = p).
  { intros w Hw E. pose proof (find_unique _ _ _ H1 Hw E) as F1. pose proof (find_unique _ _ _ H1 Hp eq_refl) as F2. congruence. }
  constructor; simpl.
  - rewrite map_id_upd_rec; auto.
  - intros a b Ha Hb Da Db E.
    destruct (in_upd_rec _ _ _ _ Ha) as [a0 [Ha0 Ca]]. destruct (in_upd_rec _ _ _ _ Hb) as [b0 [Hb0 Cb]].
    assert (Ea : w_id a = w_id a0 /\ w_pid a = w_pid a0 /\ w_dead a0 = false).
    { destruct Ca as [[_ ->]|[_ ->]]; simpl in *; [|auto]. apply orb_false_iff in Da. destruct Da. auto. }
    assert (Eb : w_id b = w_id b0 /\ w_pid b = w_pid b0 /\ w_dead b0 = false).
    { destruct Cb as [[_ ->]|[_ ->]]; simpl in *; [|auto]. apply orb_false_iff in Db. destruct Db. auto. }
    destruct Ea as [-> [Ea2 Ea3]]. destruct Eb as [-> [Eb2 Eb3]]. apply H2; auto; congruence.
  - intros w Hw. destruct (in_upd_rec _ _ _ _ Hw) as [w0 [Hw0 [[Ei ->]|[Ei ->]]]]; cbn [w_dead w_pid set_reap].
    + rewrite (Huniq w0 Hw0 Ei), Hlive, Hpid. cbn [orb]. destruct (is_dead st).
      * rewrite mem_cons, Z.eqb_refl. reflexivity.
      * rewrite <- Hpid, <- Hlive. apply H3. exact Hp.
    + rewrite (H3 w0 Hw0). destruct (is_dead st); [|reflexivity]. rewrite mem_cons.
      destruct (w_pid w0 =? pid) eqn:E; [|reflexivity]. cbn [orb]. zb.
      destruct (mem (w_pid w0) (reaped s)) eqn:Em; [reflexivity|]. exfalso. apply Ei. apply H2; auto.
      * rewrite (H3 w0 Hw0). exact Em.
      * congruence.
  - intros w Hw. destruct (in_upd_rec _ _ _ _ Hw) as [w0 [Hw0 [[Ei ->]|[Ei ->]]]]; [|apply H4; exact Hw0].
    simpl. rewrite (H4 w0 Hw0). unfold frame_list. simpl. rewrite !app_assoc. reflexivity.
  - intros w Hw. destruct (in_upd_rec _ _ _ _ Hw) as [w0 [Hw0 [[Ei ->]|[Ei ->]]]]; [|apply H5; exact Hw0].
    simpl. rewrite (Huniq w0 Hw0 Ei), Hlive. simpl. pose proof (H5 p Hp) as Hh. rewrite Hlive in Hh. simpl in Hh.
    unfold ok_hist. destruct (is_dead st) eqn:Ed.
    + exists (w_hist p), st. repeat split; auto.
    + apply forall_app1; assumption.
  - intros t i q E. rewrite Hsp in E. discriminate.
Qed.

Lemma inv_reap_stranger : forall s pid, Inv s -> spawning s = None -> find_pid pid (ints s) = None ->
  Inv {| ints := ints s; wlock := wlock s; reaped := pid :: reaped s; spawning := spawning s; kpend := kpend s; draining := draining s |}.
Proof.
  intros s pid [H1 H2 H3 H4 H5 H6] Hsp Hf. constructor; cbn [ints wlock reaped spawning]; auto.
  - intros w Hw. rewrite (H3 w Hw), mem_cons. destruct (w_pid w =? pid) eqn:E; [|reflexivity]. cbn [orb]. zb.
    destruct (mem (w_pid w) (reaped s)) eqn:Em; [reflexivity|]. exfalso.
    apply (find_pid_none _ _ _ Hf Hw); [rewrite (H3 w Hw); exact Em|exact E].
  - intros t i q E. rewrite Hsp in E. discriminate.
Qed.

Lemma inv_same_ints : forall s s', ints s' = ints s -> reaped s' = reaped s ->
  (forall t i p, spawning s' = Some (t, i, p) -> spawning s = Some (t, i, p) /\ wlock s' = wlock s) -> Inv s -> Inv s'.
Proof.
  intros s s' E1 E2 Hsp [H1 H2 H3 H4 H5 H6]. constructor; rewrite ?E1, ?E2; auto.
  intros t i p E. destruct (Hsp t i p E) as [E' El]. rewrite El. apply H6. exact E'.
Qed.

Lemma frame_done_list : forall w, frame_done w = true -> frame_list w = [].
Proof. unfold frame_done, frame_list. intro w. destruct (w_frame w) as [[|]|]; try discriminate; reflexivity. Qed.

Lemma frames_done_spec : forall t l w, thread_frames_done t l = true -> In w l -> w_thr w = t -> frame_done w = true.
Proof.
  unfold thread_frames_done. intros t l w H Hin Ht. rewrite forallb_forall in H. specialize (H w Hin).
  rewrite Ht, Z.eqb_refl in H. exact H.
Qed.

Theorem step_inv : forall s l s', Inv s -> step s l = Some s' -> Inv s'.
Proof.
  intros s l s' HI H. unfold step in H. destruct l; simpl in H.
  - (* WLock *)
    destruct (wlock s) eqn:El; [discriminate|]. inversion H; subst; clear H.
    apply (inv_same_ints s); auto. simpl. intros t0 i p E.
    destruct (i_spawn s HI t0 i p E) as [A _]. rewrite El in A. discriminate.
  - (* WUnlock *)
    destruct (holds s t && negb (draining s)); [|discriminate]. destruct (spawning s) eqn:Es; [discriminate|]. inversion H; subst; clear H.
    apply (inv_same_ints s); auto. simpl. intros; discriminate.
  - (* WReg *)
    destruct (holds s t); [|discriminate]. destruct (find id (ints s)) eqn:Ef; [discriminate|].
    destruct (find_pid pid (ints s)) eqn:Ep; [discriminate|]. destruct (spawning s) eqn:Es; [discriminate|].
    destruct (mem pid (reaped s)) eqn:Em; [discriminate|]. inversion H; subst; clear H.
    unfold with_ints. rewrite Es. apply inv_add; auto. intros; discriminate.
  - (* WFork *)
    destruct (holds s t) eqn:Eh; [|discriminate]. destruct (find id (ints s)) eqn:Ef; [discriminate|].
    destruct (find_pid pid (ints s)) eqn:Ep; [discriminate|]. destruct (spawning s) eqn:Es; [discriminate|].
    destruct (mem pid (reaped s)) eqn:Em; [discriminate|]. inversion H; subst; clear H.
    destruct HI as [H1 H2 H3 H4 H5 H6]. constructor; simpl; auto.
    intros t0 i p E. inversion E; subst. apply holds_lock in Eh. auto.
  - (* WInsert *)
    destruct (holds s t); [|discriminate]. destruct (spawning s) as [[[t' id'] pid]|] eqn:Es; [|discriminate].
    destruct ((t' =? t) && (id' =? id)) eqn:E; [|discriminate]. apply andb_true_iff in E. destruct E as [E1 E2]. zb. subst.
    inversion H; subst; clear H. destruct (i_spawn s HI _ _ _ Es) as [A [B [C D]]].
    apply inv_add; auto. intros; discriminate.
  - (* WReap *)
    destruct (holds s t); [|discriminate]. destruct (spawning s) eqn:Es; [discriminate|].
    destruct (mem pid (reaped s) || negb (mem_pair pid st (kpend s))); [discriminate|]. unfold reap_one in H.
    assert (Hk : forall s1 k d, Inv s1 -> Inv (with_k s1 k d)).
    { intros s1 k d H1. apply (inv_same_ints s1); auto. }
    destruct (find_pid pid (ints s)) as [p|] eqn:Ep.
    + inversion H; subst; clear H. apply Hk. apply inv_reap_found; auto.
    + destruct (is_dead st); inversion H; subst; clear H; apply Hk; [|exact HI]. apply inv_reap_stranger; auto.
  - (* WSteal *)
    destruct (holds s t); [|discriminate]. destruct (find id (ints s)) as [w|] eqn:Ef; [|discriminate].
    destruct ((w_thr w =? t) && thread_frames_done t (ints s)) eqn:E; [|discriminate].
    apply andb_true_iff in E. destruct E as [E1 E2]. zb. inversion H; subst; clear H.
    apply inv_upd; [exact HI|auto|intro x; split; reflexivity|].
    intros x Hx Hid. destruct (find_in _ _ _ Ef) as [Hw _].
      assert (x = w).
      { pose proof (find_unique _ _ _ (i_nodup s HI) Hx Hid) as F. rewrite Ef in F. inversion F. reflexivity. }
    subst x. rewrite (i_route s HI w Hw). rewrite (frame_done_list w (frames_done_spec _ _ _ E2 Hw eq_refl)).
    unfold frame_list. simpl. rewrite app_nil_r. reflexivity.
  - (* WDeliver *)
    destruct (find id (ints s)) as [w|] eqn:Ef; [|discriminate]. destruct (w_frame w) as [[|x rest]|] eqn:Efr; try discriminate.
    destruct ((w_thr w =? t) && (x =? st)) eqn:E; [|discriminate]. apply andb_true_iff in E. destruct E as [E1 E2]. zb. subst.
    inversion H; subst; clear H. apply inv_upd; [exact HI|auto|intro y; split; reflexivity|].
    intros y Hy Hid. destruct (find_in _ _ _ Ef) as [Hw _].
      assert (y = w).
      { pose proof (find_unique _ _ _ (i_nodup s HI) Hy Hid) as F. rewrite Ef in F. inversion F. reflexivity. }
    subst y. rewrite (i_route s HI w Hw). unfold frame_list. rewrite Efr. simpl. rewrite <- !app_assoc. reflexivity.
  - (* WUnreg *)
    destruct (holds s t); [|discriminate]. destruct (find id (ints s)) as [w|] eqn:Ef; [|discriminate].
    destruct (w_thr w =? t); [|discriminate]. inversion H; subst; clear H.
    destruct HI as [H1 H2 H3 H4 H5 H6]. constructor; simpl.
    + apply nodup_remove; exact H1.
    + intros a b Ha Hb. apply in_remove in Ha. apply in_remove in Hb. apply H2; [apply Ha|apply Hb].
    + intros x Hx. apply in_remove in Hx. apply H3, Hx.
    + intros x Hx. apply in_remove in Hx. apply H4, Hx.
    + intros x Hx. apply in_remove in Hx. apply H5, Hx.
    + intros t0 i p E. destruct (H6 t0 i p E) as [A [B [C D]]]. repeat split; auto.
      * rewrite find_remove. rewrite B. destruct (i =? id); reflexivity.
      * apply (find_pid_sub p (ints s)); [|exact C]. intros x Hx. apply in_remove in Hx. apply Hx.
  - (* WKill *)
    dmatch H. inversion H; subst. exact HI.
  - (* WBlock *)
    dmatch H. inversion H; subst. exact HI.
  - (* WNone *)
    destruct (holds s t); [|discriminate]. inversion H; subst. apply (inv_same_ints s); auto.
  - (* WChange *)
    inversion H; subst. apply (inv_same_ints s); auto.
  - (* WIdle *)
    dmatch H. inversion H; subst. exact HI.
Qed.

Theorem run_inv : forall ls s s', Inv s -> run s ls = Some s' -> Inv s'.
Proof.
  induction ls as [|l r IH]; simpl; intros s s' HI H.
  - inversion H; subst. exact HI.
  - destruct (step s l) eqn:E; [|discriminate]. eapply IH; [eapply step_inv; eauto|exact H].
Qed.

Definition reachable (s : state) : Prop := exists ls, run init ls = Some s.

Theorem reachable_inv : forall s, reachable s -> Inv s.
Proof. intros s [ls H]. eapply run_inv; [apply init_inv|exact H]. Qed.

(* ---------- C11_routing ---------- *)
Lemma routing_hist : forall s w, reachable s -> In w (ints s) ->
  w_hist w = w_deliv w ++ frame_list w ++ w_queue w.
Proof. intros s w R Hw. apply (i_route s (reachable_inv s R)). exact Hw. Qed.

(* a reaped status goes to the live interest registered for the pid -- appended to its queue and history -- and
   to nobody else; without such an interest nothing changes *)
Lemma routing_reap : forall s t pid st s', reachable s -> step s (WReap t pid st) = Some s' ->
  match find_pid pid (ints s) with
  | Some p => ints s' = upd_rec (w_id p) (set_reap st) (ints s) /\ w_pid p = pid /\ w_dead p = false
  | None => ints s' = ints s
  end.
Proof.
  intros s t pid st s' R H. unfold step in H. simpl in H. destruct (holds s t); [|discriminate].
  destruct (spawning s); [discriminate|]. destruct (mem pid (reaped s) || negb (mem_pair pid st (kpend s))); [discriminate|].
  unfold reap_one in H. destruct (find_pid pid (ints s)) as [p|] eqn:Ep.
  - inversion H; subst. simpl. destruct (find_pid_some _ _ _ Ep) as [_ [A B]]. auto.
  - destruct (is_dead st); inversion H; subst; reflexivity.
Qed.

(* the handler is called in the registering thread with the oldest undelivered stolen status *)
Lemma routing_deliver : forall s t id st s', step s (WDeliver t id st) = Some s' ->
  exists w rest, find id (ints s) = Some w /\ w_thr w = t /\ w_frame w = Some (st :: rest) /\
                 ints s' = upd_rec id (set_deliver st rest) (ints s).
Proof.
  intros s t id st s' H. unfold step in H. simpl in H.
  destruct (find id (ints s)) as [w|] eqn:Ef; [|discriminate]. destruct (w_frame w) as [[|x rest]|] eqn:Efr; try discriminate.
  destruct ((w_thr w =? t) && (x =? st)) eqn:E; [|discriminate]. apply andb_true_iff in E. destruct E as [E1 E2]. zb. subst.
  inversion H; subst. exists w, rest. repeat split; auto.
Qed.

(* when every thread has come to rest nothing reaped is undelivered *)
Lemma routing_complete : forall s t s' w, reachable s -> step s (WBlock t) = Some s' -> In w (ints s) -> w_thr w = t ->
  w_deliv w = w_hist w.
Proof.
  intros s t s' w R H Hw Ht. unfold step in H. simpl in H. destruct (quiet_thread t (ints s)) eqn:Eq; [|discriminate].
  unfold quiet_thread in Eq. rewrite forallb_forall in Eq. specialize (Eq w Hw). rewrite Ht, Z.eqb_refl in Eq. simpl in Eq.
  apply andb_true_iff in Eq. destruct Eq as [E1 E2]. rewrite (routing_hist s w R Hw), (frame_done_list w E1).
  destruct (w_queue w); [|discriminate]. rewrite !app_nil_r. reflexivity.
Qed.

(* ---------- C11_terminal_once ---------- *)
Lemma terminal_once : forall s w, reachable s -> In w (ints s) ->
  ok_hist (w_dead w) (w_hist w) /\ (w_dead w = true -> find_pid (w_pid w) (ints s) <> Some w) /\
  (w_dead w = true -> forall t st, step s (WReap t (w_pid w) st) = None).
Proof.
  intros s w R Hw. pose proof (reachable_inv s R) as HI. split; [apply (i_hist s HI); exact Hw|]. split.
  - intros Hd Hf. destruct (find_pid_some _ _ _ Hf) as [_ [_ C]]. congruence.
  - intros Hd t st. unfold step. simpl. destruct (holds s t); [|reflexivity]. destruct (spawning s); [reflexivity|].
    rewrite <- (i_dead s HI w Hw), Hd. reflexivity.
Qed.

(* ---------- C11_spawn_never_missed ---------- *)
Lemma spawn_window : forall s t id pid, reachable s -> spawning s = Some (t, id, pid) ->
  wlock s = Some t /\
  (forall u p st, step s (WReap u p st) = None) /\
  (forall l s', step s l = Some s' -> spawning s' = Some (t, id, pid) \/ (l = WInsert t id /\ find_pid pid (ints s') = Some (new_rec t id pid))).
Proof.
  intros s t id pid R Hs. pose proof (reachable_inv s R) as HI. destruct (i_spawn s HI _ _ _ Hs) as [A [B [C D]]].
  split; [exact A|]. split.
  - intros u p st. unfold step. simpl. destruct (holds s u); [|reflexivity]. rewrite Hs. reflexivity.
  - intros l s' H. unfold step in H. destruct l; simpl in H; rewrite ?Hs in H.
    + rewrite A in H. discriminate.
    + destruct (holds s t0 && negb (draining s)); discriminate.
    + dmatch H.
    + dmatch H.
    + destruct (holds s t0); [|discriminate]. destruct ((t =? t0) && (id =? id0)) eqn:E; [|discriminate].
      apply andb_true_iff in E. destruct E as [E1 E2]. zb. subst. inversion H; subst; clear H. right. split; [reflexivity|].
      simpl. unfold find_pid. simpl. rewrite Z.eqb_refl. reflexivity.
    + destruct (holds s t0); discriminate.
    + dmatch H; inversion H; subst; left; exact Hs.
    + dmatch H; inversion H; subst; left; exact Hs.
    + dmatch H; inversion H; subst; left; exact Hs.
    + dmatch H; inversion H; subst; left; exact Hs.
    + dmatch H; inversion H; subst; left; exact Hs.
    + dmatch H; inversion H; subst; left; exact Hs.
    + inversion H; subst; left; exact Hs.
    + dmatch H; inversion H; subst; left; exact Hs.
Qed.

(* ---------- C11_strangers_harmless ---------- *)
Lemma strangers_harmless : forall s pid st, find_pid pid (ints s) = None ->
  exists s', reap_one true s pid st = Ok s' /\ ints s' = ints s /\ wlock s' = wlock s /\ spawning s' = spawning s.
Proof.
  intros s pid st H. unfold reap_one. rewrite H. destruct (is_dead st); eexists; repeat split.
Qed.

Lemma fixed_never_crashes : forall s pid st, reap_one true s pid st <> Crash.
Proof. intros s pid st. unfold reap_one. destruct (find_pid pid (ints s)); [discriminate|]. destruct (is_dead st); discriminate. Qed.

(* ---------- C11_kill_safe ---------- *)
Lemma kill_safe : forall s t id sig performed s', reachable s -> step s (WKill t id sig performed) = Some s' ->
  exists w, find id (ints s) = Some w /\ wlock s = Some t /\
    (performed = true -> w_dead w = false /\ mem (w_pid w) (reaped s) = false) /\
    (performed = false -> w_dead w = true /\ mem (w_pid w) (reaped s) = true).
Proof.
  intros s t id sig performed s' R H. pose proof (reachable_inv s R) as HI. unfold step in H. simpl in H.
  destruct (holds s t) eqn:Eh; [|discriminate]. destruct (find id (ints s)) as [w|] eqn:Ef; [|discriminate].
  destruct (Bool.eqb performed (negb (w_dead w))) eqn:E; [|discriminate]. apply eqb_prop in E.
  destruct (find_in _ _ _ Ef) as [Hw _]. pose proof (i_dead s HI w Hw) as Hd.
  exists w. split; [reflexivity|]. split; [apply holds_lock; exact Eh|]. split; intro Hp; subst performed.
  - destruct (w_dead w); [discriminate|]. split; [reflexivity|]. symmetry. exact Hd.
  - destruct (w_dead w); [|discriminate]. split; [reflexivity|]. symmetry. exact Hd.
Qed.

(* ---------- the monitor accepts every accepted sequence ---------- *)
Definition proj (s : state) : mstate := {| m_ints := ints s; m_reaped := reaped s; m_fork := spawning s; m_kpend := kpend s |}.

Ltac pfin H := inversion H; subst; simpl; repeat match goal with E : spawning _ = _ |- _ => rewrite E end; reflexivity.

Lemma proj_step : forall s l s', Inv s -> step s l = Some s' -> mstep (proj s) l = Some (proj s').
Proof.
  intros s l s' HI H. unfold step in H. unfold proj. destruct l; simpl in H |- *.
  - dmatch H. pfin H.
  - dmatch H. pfin H.
  - dmatch H. pfin H.
  - dmatch H. pfin H.
  - destruct (holds s t); [|discriminate]. destruct (spawning s) as [[[a b] c]|] eqn:Esp; [|discriminate].
    destruct ((a =? t) && (b =? id)); [|discriminate]. pfin H.
  - destruct (holds s t); [|discriminate]. destruct (spawning s) eqn:Esp; [discriminate|].
    destruct (mem pid (reaped s)); [discriminate|]. simpl in H |- *.
    destruct (negb (mem_pair pid st (kpend s))); [discriminate|]. unfold reap_one in H.
    destruct (find_pid pid (ints s)); [pfin H|].
    destruct (is_dead st); pfin H.
  - destruct (holds s t); [|discriminate]. destruct (find id (ints s)) as [w|]; [|discriminate].
    destruct ((w_thr w =? t) && thread_frames_done t (ints s)); [|discriminate]. pfin H.
  - destruct (find id (ints s)) as [w|]; [|discriminate]. destruct (w_frame w) as [[|x rest]|]; try discriminate.
    destruct ((w_thr w =? t) && (x =? st)); [|discriminate]. pfin H.
  - destruct (holds s t); [|discriminate]. destruct (find id (ints s)) as [w|]; [|discriminate].
    destruct (w_thr w =? t); [|discriminate]. pfin H.
  - destruct (holds s t); [|discriminate]. destruct (find id (ints s)) as [w|] eqn:Ef; [|discriminate].
    destruct (Bool.eqb performed (negb (w_dead w))) eqn:E; [|discriminate]. inversion H; subst.
    destruct (find_in _ _ _ Ef) as [Hw _]. rewrite <- (i_dead s' HI w Hw), E. reflexivity.
  - destruct (quiet_thread t (ints s)); [|discriminate].
    assert (G : got_termination t (reaped s) (ints s) = true).
    { unfold got_termination. apply forallb_forall. intros w Hw. rewrite (i_dead s HI w Hw), eqb_reflx. apply orb_true_r. }
    rewrite G. pfin H.
  - destruct (holds s t); [|discriminate]. pfin H.
  - pfin H.
  - destruct (idle_ok (ints s) (kpend s)); [|discriminate]. pfin H.
Qed.

Theorem monitor_accepts : forall ls, accepts ls = true -> monitor ls = true.
Proof.
  intros ls H. unfold accepts in H. unfold monitor.
  assert (G : forall xs s s', Inv s -> run s xs = Some s' -> mrun (proj s) xs = Some (proj s')).
  { induction xs as [|x r IH]; simpl; intros s s' HI Hr.
    - inversion Hr; subst. reflexivity.
    - destruct (step s x) as [s1|] eqn:E; [|discriminate]. rewrite (proj_step s x s1 HI E).
      apply IH; [eapply step_inv; eauto|exact Hr]. }
  destruct (run init ls) as [s|] eqn:E; [|discriminate].
  change minit with (proj init). rewrite (G ls init s init_inv E). reflexivity.
Qed.

(* ---------- C11_drained: the reaper drains, and at rest nothing is owed to a live interest ---------- *)
Lemma drain_reap : forall s t pid st s', step s (WReap t pid st) = Some s' ->
  draining s' = true /\ mem_pair pid st (kpend s) = true /\ kpend s' = remove_first pid st (kpend s) /\ wlock s' = Some t.
Proof.
  intros s t pid st s' H. unfold step in H. simpl in H. destruct (holds s t) eqn:Eh; [|discriminate].
  destruct (spawning s); [discriminate|]. destruct (mem pid (reaped s)); [discriminate|]. simpl in H.
  destruct (mem_pair pid st (kpend s)) eqn:Em; [|discriminate]. simpl in H. apply holds_lock in Eh.
  unfold reap_one in H. destruct (find_pid pid (ints s)); [inversion H; subst; simpl; auto|].
  destruct (is_dead st); inversion H; subst; simpl; auto.
Qed.

Lemma drain_unlock : forall s t s', step s (WUnlock t) = Some s' -> draining s = false.
Proof.
  intros s t s' H. unfold step in H. simpl in H. destruct (holds s t); [|discriminate].
  destruct (draining s); [discriminate|reflexivity].
Qed.

Lemma drain_none : forall s t s', step s (WNone t) = Some s' -> wlock s = Some t /\ draining s' = false /\ ints s' = ints s.
Proof.
  intros s t s' H. unfold step in H. simpl in H. destruct (holds s t) eqn:Eh; [|discriminate]. inversion H; subst.
  apply holds_lock in Eh. auto.
Qed.

(* while the drain is open nobody but an end-of-drain (or another reap) gets the reaper out of its critical section *)
Lemma drain_persists : forall s l s', draining s = true -> step s l = Some s' ->
  draining s' = true \/ exists t, l = WNone t.
Proof.
  intros s l s' Hd H. unfold step in H. destruct l; simpl in H;
    try (left; dmatch H; inversion H; subst; simpl; assumption).
  - left. unfold reap_one in H. dmatch H; inversion H; subst; reflexivity.
  - right. exists t. reflexivity.
Qed.

Lemma idle_nothing_owed : forall s t s' w, step s (WIdle t) = Some s' -> In w (ints s) -> w_dead w = false ->
  owes (w_pid w) (kpend s) = false.
Proof.
  intros s t s' w H Hw Hd. unfold step in H. simpl in H. destruct (idle_ok (ints s) (kpend s)) eqn:E; [|discriminate].
  unfold idle_ok in E. rewrite forallb_forall in E. specialize (E w Hw). rewrite Hd in E. simpl in E.
  apply negb_true_iff in E. exact E.
Qed.
