(* ConflictWait.v -- C14 for the iv_wait model MT/WaitModel.v (child reaping, iv_wait.c).

   Shared variables and their classes:

     VTree      the global tree iv_wait_interests and, of every interest in it, avl_node, pid and
                flags (IV_WAIT_STATUS_DEAD).  ByLock (iv_wait_lock).
     VQueues    the events_pending list of every interest (struct wait_event nodes queued by
                whichever thread runs iv_wait_got_sigchld, stolen by the interest's own thread).
                ByLock (iv_wait_lock).
     VFrame id  what iv_wait_completion of interest id works on after the steal: its local list
                `events` and tinfo->handled_wait_interest.  Belongs to the registering thread:
                ByThread (w_thr); while the interest does not exist yet (being created) the only
                accesses are the creator's, made with the lock held (ByLock).
     VProc      the kernel's process table (fork, wait4, kill).  Extern.

   Footprints (code between the label's log point and the next one of the thread; the lock and
   unlock calls are labels of their own in this model, so they carry no accesses):

     WLock / WUnlock    the lock calls                                                   -> none
     WReg t id pid      iv_avl_tree_insert(&iv_wait_interests, &this->avl_node) of an interest
                        whose events_pending was initialised before the lock call (the object is
                        unreachable for other threads until this insert)
                                                    -> write VTree, VQueues, VFrame id
     WFork t id pid     fork()                                                      -> write VProc
     WInsert t id       this->pid = pid; iv_avl_tree_insert         -> write VTree, VQueues, VFrame id
     WReap t pid st     wait4(); __iv_wait_interest_find (tree walk); iv_list_add_tail to
                        p->events_pending; for a terminating status iv_avl_tree_delete and
                        p->flags = DEAD                          -> write VProc, VTree, VQueues
     WSteal t id        __iv_list_steal_elements(&this->events_pending, &events)
                                                                -> write VQueues, VFrame id
     WDeliver t id st   iv_list_del of the local list, handled_wait_interest test, handler
                        (lock not held)                                      -> write VFrame id
     WUnreg t id        flags test, iv_avl_tree_delete; the purge of events_pending and the clearing of
                        handled_wait_interest follow the unlock in C, on an interest that the
                        tree delete (or the reaper's delete when DEAD) has made unreachable for
                        every other thread; the model performs them in this step
                                                    -> write VTree, VQueues, VFrame id
     WKill t id sig     flags test, kill()                              -> read VTree, write VProc
     WBlock t           kernel wait                                                      -> none

   With respect to iv_wait_lock WLock is the acquisition, WUnlock the release, the rest Plain. *)
From Coq Require Import List ZArith Bool Lia.
From Ivv Require Import MT.Conflict MT.WaitModel MT.WaitProofs.
Import ListNotations.
Local Open Scope Z_scope.

Inductive var := VTree | VQueues | VFrame (id : Z) | VProc.

Definition var_eqb (a b : var) : bool :=
  match a, b with
  | VTree, VTree | VQueues, VQueues | VProc, VProc => true
  | VFrame i, VFrame j => i =? j
  | _, _ => false
  end.

Lemma var_eqb_spec : forall a b, var_eqb a b = true <-> a = b.
Proof.
  intros a b. destruct a, b; simpl; split; intro H; try reflexivity; try discriminate.
  - apply Z.eqb_eq in H. subst. reflexivity.
  - inversion H. apply Z.eqb_refl.
Qed.

Definition cls (s : state) (v : var) : class Z unit :=
  match v with
  | VTree | VQueues => ByLock tt
  | VFrame id => match find id (ints s) with Some w => ByThread (w_thr w) | None => ByLock tt end
  | VProc => Extern
  end.

Definition holder (s : state) (_ : unit) : option Z := wlock s.

Definition mode (l : label) (_ : unit) : lmode :=
  match l with WLock _ => Acq | WUnlock _ => Rel | _ => Plain end.

Definition lthr (l : label) : Z :=
  match l with
  | WLock t | WUnlock t | WReg t _ _ | WFork t _ _ | WInsert t _ | WReap t _ _ | WSteal t _
  | WDeliver t _ _ | WUnreg t _ | WKill t _ _ _ | WBlock t | WNone t | WChange t _ _ | WIdle t => t
  end.

Definition actor (_ : state) (l : label) : option Z := Some (lthr l).

Definition fp (_ : state) (l : label) : footprint var :=
  match l with
  | WLock _ | WUnlock _ | WBlock _ | WIdle _ => []
  | WNone _ => [(VProc, false)]            (* wait4 had nothing more to report (end of the drain, lock held) *)
  | WChange _ _ _ => [(VProc, true)]       (* ground truth: a child changed state (the kernel's process table) *)
  | WReg _ id _ | WInsert _ id | WUnreg _ id => [(VTree, true); (VQueues, true); (VFrame id, true)]
  | WFork _ _ _ => [(VProc, true)]
  | WReap _ _ _ => [(VProc, true); (VTree, true); (VQueues, true)]
  | WSteal _ id => [(VQueues, true); (VFrame id, true)]
  | WDeliver _ id _ => [(VFrame id, true)]
  | WKill _ _ _ _ => [(VTree, false); (VProc, true)]
  end.

Definition tree_part (w : wrec) : Z * Z * Z * bool := (w_id w, w_thr w, w_pid w, w_dead w).
Definition queue_part (w : wrec) : Z * list Z := (w_id w, w_queue w).

Definition unchanged (v : var) (s s' : state) : Prop :=
  match v with
  | VTree => map tree_part (ints s') = map tree_part (ints s)
  | VQueues => map queue_part (ints s') = map queue_part (ints s)
  | VFrame id => map w_frame (filter (fun w => w_id w =? id) (ints s')) =
                 map w_frame (filter (fun w => w_id w =? id) (ints s))
  | VProc => reaped s' = reaped s
  end.

(* ---- proofs ---- *)
Ltac bsplit :=
  repeat match goal with
  | H : _ && _ = true |- _ => apply andb_true_iff in H; destruct H
  end.
Lemma lrun_run : forall ls s, lrun step s ls = run s ls.
Proof. induction ls as [|l r IH]; intro s; simpl; [reflexivity|]. destruct (step s l); [apply IH|reflexivity]. Qed.

Lemma lreachable_iff : forall s, lreachable step init s <-> reachable s.
Proof. intro s; unfold lreachable, reachable; split; intros [ls H]; exists ls; [rewrite <- lrun_run|rewrite lrun_run]; exact H. Qed.

Lemma lock_acquires : forall s t s', step s (WLock t) = Some s' -> wlock s = None /\ wlock s' = Some t.
Proof. unfold step, step_gen. intros s t s' H. destruct (wlock s); [discriminate|]. inversion H. auto. Qed.

(* every label that touches the tree, a queue or the process table is performed with the lock held *)
Lemma plain_holds : forall s l s', step s l = Some s' ->
  match l with
  | WLock _ | WUnlock _ | WDeliver _ _ _ | WBlock _ | WChange _ _ _ | WIdle _ => True
  | _ => wlock s = Some (lthr l) /\ wlock s' = Some (lthr l)
  end.
Proof.
  unfold step, step_gen. intros s l s' H. destruct l; try exact I; dmatch H;
    inversion H; subst; simpl;
    match goal with E : holds _ _ = true |- _ => apply holds_lock in E; auto end.
  split; [assumption|]. unfold reap_one in *.
  match goal with E : _ = Ok _ |- _ => dmatch E; inversion E; subst; simpl; assumption end.
Qed.

Lemma step_disciplined : forall s l s', reachable s -> step s l = Some s' ->
  disciplined actor holder mode cls fp s l s'.
Proof.
  intros s l s' Hr H v w Hin. pose proof (plain_holds _ _ _ H) as P. pose proof (reachable_inv s Hr) as HI.
  assert (L : forall t, lthr l = t -> mode l tt = Plain -> wlock s = Some t /\ wlock s' = Some t ->
              exists u, actor s l = Some u /\ held holder mode tt u s l s').
  { intros t E M [A B]. exists t. split; [unfold actor; rewrite E; reflexivity|]. unfold held, holder. rewrite M. auto. }
  destruct l; cbn [fp] in Hin; simpl in Hin;
    repeat match goal with H : _ \/ _ |- _ => destruct H | H : False |- _ => destruct H
                      | H : (_, _) = (_, _) |- _ => inversion H; clear H; subst end;
    cbn [cls]; try exact I; try (apply (L _ eq_refl eq_refl P)).
  - (* WReg: the interest does not exist yet *)
    unfold step, step_gen in H. dmatch H. apply (L _ eq_refl eq_refl P).
  - (* WInsert *)
    unfold step, step_gen in H. dmatch H. bsplit. zb. subst.
    match goal with E : spawning s = Some _ |- _ => destruct (i_spawn s HI _ _ _ E) as [_ [F _]] end.
    rewrite F. apply (L _ eq_refl eq_refl P).
  - (* WSteal *)
    unfold step, step_gen in H. dmatch H. bsplit. zb. subst. reflexivity.
  - (* WDeliver *)
    unfold step, step_gen in H. dmatch H. bsplit. zb. subst. reflexivity.
  - (* WUnreg *)
    unfold step, step_gen in H. dmatch H. zb. subst. reflexivity.
Qed.

Lemma acq_free : forall s l s' k, step s l = Some s' -> mode l k = Acq -> holder s k = None.
Proof.
  intros s l s' k H M. destruct l; try discriminate M. unfold holder. apply (lock_acquires _ _ _ H).
Qed.

(* ---- the footprints list every variable a step changes ---- *)
Lemma map_upd_rec_inv : forall (A : Type) (g : wrec -> A) id f l,
  (forall w, g (f w) = g w) -> map g (upd_rec id f l) = map g l.
Proof.
  intros A g id f l Hg. unfold upd_rec. rewrite map_map. apply map_ext. intro w.
  destruct (w_id w =? id); [apply Hg|reflexivity].
Qed.

Lemma frame_upd_rec : forall id id' f l, (forall w, w_id (f w) = w_id w) ->
  (id' <> id \/ forall w, w_frame (f w) = w_frame w) ->
  map w_frame (filter (fun w => w_id w =? id) (upd_rec id' f l)) = map w_frame (filter (fun w => w_id w =? id) l).
Proof.
  intros id id' f l Hid Hf. unfold upd_rec. induction l as [|x t IH]; [reflexivity|]. cbn [map filter].
  destruct (w_id x =? id') eqn:E1.
  - rewrite Hid. destruct (w_id x =? id) eqn:E2; [|exact IH]. cbn [map]. rewrite IH. f_equal.
    destruct Hf as [Hf|Hf]; [zb; congruence|apply Hf].
  - destruct (w_id x =? id); [cbn [map]; rewrite IH; reflexivity|exact IH].
Qed.

Lemma frame_remove : forall id id' l, id' <> id ->
  filter (fun w => w_id w =? id) (remove id' l) = filter (fun w => w_id w =? id) l.
Proof.
  intros id id' l Hne. unfold remove. induction l as [|x t IH]; [reflexivity|]. cbn [filter].
  destruct (w_id x =? id') eqn:E1; cbn [negb filter].
  - destruct (w_id x =? id) eqn:E2; [zb; congruence|exact IH].
  - destruct (w_id x =? id); [rewrite IH; reflexivity|exact IH].
Qed.

Lemma step_writes_sound : forall s l s' v, step s l = Some s' -> ~ writes (fp s l) v -> unchanged v s s'.
Proof.
  intros s l s' v H Hn. unfold writes in Hn. unfold step, step_gen in H.
  destruct l; dmatch H; try (inversion H; subst; clear H);
    destruct v as [| |fid|]; cbn [unchanged ints reaped with_ints with_k]; try reflexivity;
    try (exfalso; apply Hn; simpl; tauto);
    try (assert (Hne : id <> fid) by (intro; subst; apply Hn; simpl; tauto)).
  all: try (cbn [filter new_rec w_id];
            match goal with |- context [if ?a =? ?b then _ else _] =>
              destruct (a =? b) eqn:E9; [zb; congruence|reflexivity] end).
  all: try (apply map_upd_rec_inv; intro; reflexivity).
  all: try (apply frame_upd_rec; [intro; reflexivity|auto; right; intro; reflexivity]).
  all: try (rewrite frame_remove by assumption; reflexivity).
  (* WReap: frames *)
  all: unfold reap_one in *; match goal with E : _ = Ok _ |- _ => dmatch E; inversion E; subst; clear E end;
       cbn [ints]; try reflexivity.
  all: apply frame_upd_rec; [intro; reflexivity|right; intro; reflexivity].
Qed.

(* ---- the C14 statements for iv_wait ---- *)
Lemma disc_r : forall s l s', lreachable step init s -> step s l = Some s' -> disciplined actor holder mode cls fp s l s'.
Proof. intros s l s' Hr. apply step_disciplined. apply lreachable_iff. exact Hr. Qed.

Lemma acqf_r : forall s l s' k, lreachable step init s -> step s l = Some s' -> mode l k = Acq -> holder s k = None.
Proof. intros s l s' k _. apply acq_free. Qed.

Lemma wait_lock_discipline : forall pre l post send,
  run init (pre ++ l :: post) = Some send ->
  exists s s', run init pre = Some s /\ step s l = Some s' /\ disciplined actor holder mode cls fp s l s'.
Proof.
  intros pre l post send H. rewrite <- lrun_run in H.
  destruct (trace_discipline disc_r _ _ _ H) as [s [s' [A [B C]]]].
  exists s, s'. rewrite <- lrun_run. auto.
Qed.

(* two simultaneously enabled steps of distinct threads have no variable in common except the
   kernel's process table: every step that touches the tree or a queue needs the lock held by its
   thread (the lock calls themselves touch nothing), a completion frame is touched by one thread *)
Lemma wait_no_concurrent_conflict : forall s l1 l2 s1 s2 v w1 w2,
  reachable s -> lthr l1 <> lthr l2 ->
  step s l1 = Some s1 -> step s l2 = Some s2 ->
  In (v, w1) (fp s l1) -> In (v, w2) (fp s l2) ->
  cls s v = Extern.
Proof.
  intros s l1 l2 s1 s2 v w1 w2 Hr Hne S1 S2 I1 I2. apply lreachable_iff in Hr.
  assert (Hne' : lthr l1 <> lthr l2) by exact Hne.
  pose proof (no_concurrent_conflict disc_r acqf_r l1 l2 v w1 w2 Hr eq_refl eq_refl Hne' S1 S2 I1 I2) as N.
  destruct (cls s v) as [k|t|k t| |] eqn:C; try reflexivity; try contradiction.
  - destruct N as [M1 _]. destruct l1; try discriminate M1. destruct I1.
  - destruct v; simpl in C; try discriminate. destruct (find id (ints s)); discriminate.
  - destruct v; simpl in C; try discriminate. destruct (find id (ints s)); discriminate.
Qed.

Lemma wait_cs_stable : forall s l s' v, reachable s -> step s l = Some s' ->
  match cls s v with
  | ByLock _ => forall t, wlock s = Some t -> lthr l <> t -> unchanged v s s'
  | ByThread t => lthr l <> t -> unchanged v s s'
  | _ => True
  end.
Proof.
  intros s l s' v Hr S. apply lreachable_iff in Hr.
  assert (WS : writes_sound step init fp unchanged).
  { intros s0 l0 s0' v0 _ S0. apply step_writes_sound. exact S0. }
  pose proof (cs_stable disc_r WS l v Hr S) as N.
  destruct (cls s v) as [k|t|k t| |]; try exact I.
  - intros t Hh Ha. apply (N t Hh). unfold actor. congruence.
  - intros Ha. apply N. unfold actor. congruence.
Qed.

(* non-vacuity: thread 0 registers interest 1 for pid 100; thread 1 runs the SIGCHLD drain and reaps
   it; thread 0 steals, delivers and unregisters.  While thread 1 is inside its critical section the
   conflicting unregistration by thread 0 is refused, and both lock calls were enabled before *)
Definition ex_prefix : list label := [WLock 0; WReg 0 1 100; WUnlock 0; WChange 0 100 0].
Definition ex_trace : list label :=
  ex_prefix ++ [WLock 1; WReap 1 100 0; WNone 1; WUnlock 1; WLock 0; WSteal 0 1; WUnlock 0; WDeliver 0 1 0;
                WLock 0; WUnreg 0 1; WUnlock 0; WBlock 0].

Lemma wait_nonvacuous :
  accepts ex_trace = true /\
  (exists s s1, run init ex_prefix = Some s /\
     step s (WLock 0) <> None /\ step s (WLock 1) = Some s1 /\
     conflict var_eqb (fp s1 (WReap 1 100 0)) (fp s1 (WUnreg 0 1)) = true /\
     step s1 (WReap 1 100 0) <> None /\ step s1 (WUnreg 0 1) = None /\ step s1 (WLock 0) = None).
Proof.
  split; [vm_compute; reflexivity|].
  eexists; eexists. repeat split; try (vm_compute; reflexivity); vm_compute; discriminate.
Qed.
