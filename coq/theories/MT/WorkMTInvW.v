(* WorkMTInvW.v -- invariants W1, W1b, Widle, W2 of Appendix A.7 for MT/WorkMT.v *)
From Coq Require Import List ZArith Bool Arith Lia.
From Ivv Require Import MT.WorkMT MT.WorkMTBase MT.WorkMTSpec MT.WorkMTCs MT.WorkMTInvA.
Import ListNotations.
Local Open Scope Z_scope.

(* ---------- counting workers ---------- *)
Definition cnt (g : nat -> bool) (l : list nat) : nat := length (filter g l).

Lemma cnt_ext : forall g h l, (forall x, In x l -> g x = h x) -> cnt g l = cnt h l.
Proof.
  unfold cnt. induction l; simpl; intros; auto.
  rewrite (H a) by now left. destruct (h a); simpl; rewrite IHl; auto.
Qed.

Lemma cnt_upd_notin : forall A (g : A -> bool) f k v l, ~ In k l ->
  cnt (fun x => g (upd f k v x)) l = cnt (fun x => g (f x)) l.
Proof.
  intros. apply cnt_ext. intros. rewrite upd_other; auto. intros ->. contradiction.
Qed.

Lemma cnt_cons : forall g a l, cnt g (a :: l) = ((if g a then 1 else 0) + cnt g l)%nat.
Proof. unfold cnt. intros. simpl. destruct (g a); auto. Qed.

Lemma cnt_upd_in : forall A (g : A -> bool) f k v l, NoDup l -> In k l ->
  (cnt (fun x => g (upd f k v x)) l + (if g (f k) then 1 else 0) =
   cnt (fun x => g (f x)) l + (if g v then 1 else 0))%nat.
Proof.
  induction l; intros ND IN; [contradiction |].
  inversion ND; subst. rewrite !cnt_cons. destruct IN as [-> | IN].
  - rewrite upd_same. rewrite (cnt_upd_notin _ g f k v l H1). lia.
  - specialize (IHl H2 IN).
    assert (a <> k) by (intros ->; contradiction). rewrite (upd_other _ f k v a H). lia.
Qed.

Lemma nlive_same : forall s s', wids s' = wids s ->
  (forall w, In w (wids s) -> is_live (wpc_of s' w) = is_live (wpc_of s w)) -> nlive s' = nlive s.
Proof. unfold nlive. intros. rewrite H. now apply (cnt_ext). Qed.

Lemma nlive_upd : forall s s' n r, wids s' = wids s -> wk s' = upd (wk s) n r -> NoDup (wids s) -> In n (wids s) ->
  (nlive s' + (if is_live (wpc_of s n) then 1 else 0) = nlive s + (if is_live (wpcf r) then 1 else 0))%nat.
Proof.
  unfold nlive, wpc_of. intros. rewrite H, H0.
  apply (cnt_upd_in wrec (fun r => is_live (wpcf r)) (wk s) n r (wids s)); auto.
Qed.

Lemma nlive_new : forall s s' n r, wids s' = n :: wids s -> wk s' = upd (wk s) n r -> ~ In n (wids s) ->
  is_live (wpcf r) = true -> nlive s' = S (nlive s).
Proof.
  unfold nlive, wpc_of. intros. rewrite H, H0. simpl. rewrite upd_same, H2. simpl. f_equal.
  apply (cnt_upd_notin wrec (fun r => is_live (wpcf r)) (wk s) n r (wids s)); auto.
Qed.

(* ---------- sequence numbers ---------- *)
Ltac Zify.zify_post_hook ::= Z.div_mod_to_equations.

Lemma seq_submit : forall h t n, 0 <= n -> n = (t - h) mod M32 -> n + 1 < 2147483648 ->
  n + 1 = ((t + 1) mod M32 - h) mod M32.
Proof. unfold M32. intros. lia. Qed.

Lemma seq_take : forall h t n, 1 <= n -> n = (t - h) mod M32 -> n - 1 = (t - (h + 1) mod M32) mod M32.
Proof. unfold M32. intros. lia. Qed.

Lemma mod_range : forall x, 0 <= x mod M32 < M32.
Proof. intros. apply Z.mod_pos_bound. reflexivity. Qed.

(* with W1, the loop test of got_event sees exactly whether work is queued *)
Lemma more_work_tail : forall h t n, 0 <= h < M32 -> 0 <= t < M32 -> n = (t - h) mod M32 -> n < 2147483648 ->
  more_work t h = (0 <? n).
Proof.
  unfold more_work, s32. intros. subst n.
  destruct ((t - h) mod M32 <? 2147483648) eqn:B; auto. apply Z.ltb_ge in B. lia.
Qed.

Lemma head_tail_items : forall h t n, 0 <= h < M32 -> 0 <= t < M32 -> n = (t - h) mod M32 -> (h = t <-> n = 0).
Proof. unfold M32. intros. lia. Qed.

Ltac pool_inv :=
  match goal with
  | |- forall p, PLive _ = PLive p -> _ => let q := fresh "q" in let X := fresh "X" in intros q X; inversion X; subst q; clear X
  | |- forall p, PFreed = PLive p -> _ => intros ? X; discriminate X
  | |- forall p, PNone = PLive p -> _ => intros ? X; discriminate X
  end.

Ltac outs :=
  repeat match goal with
  | H : loop_out _ _ _ _ _ _ _ |- _ => inversion H; subst; clear H
  | H : idle_out _ _ _ _ _ _ |- _ => inversion H; subst; clear H
  | H : submit_out _ _ _ _ _ _ |- _ => inversion H; subst; clear H
  | H : _ /\ _ |- _ => destruct H
  | H : _ \/ _ |- _ => destruct H
  end.

Lemma W1_step : forall s l s', W1 s -> step s l = Some s' -> W1 s'.
Proof.
  intros s l s' I H.
  step_inv H; hold_facts; cs_facts; unfold W1 in *; ssimp; ifs; ssimp; try assumption.
  all: try pool_inv.
  all: try (match goal with E : pl _ = PLive ?p |- _ => specialize (I p E) end).
  all: outs; subst; cbn [phead ptail pitems p_set_items p_set_head p_set_tail p_set_idle p_set_done p_set_started p_set_shut length] in *; auto.
  all: try match goal with H : pitems _ = _ :: _ |- _ => rewrite H in * end.
  all: rewrite ?app_length in *; cbn [length] in *.
  all: try (pose proof (mod_range (phead p + 1)); pose proof (mod_range (ptail p + 1))).
  all: unfold M32 in *; repeat split; try lia.
Qed.

(* while the pool is being freed (FFree owed) it has no threads and no finished work *)
Definition WF (s : state) : Prop :=
  In FFree (todo s) -> forall p, pl s = PLive p -> pstarted p = 0 /\ pdone p = [] /\ pshut p = true.

Lemma in_map_postw : forall e l, In e (map FPostW l) -> exists w, e = FPostW w.
Proof. intros. apply in_map_iff in H. destruct H as (w & <- & _). eauto. Qed.

Lemma WF_step : forall s l s', (lock s = None -> todo s = []) -> ALock s -> WF s -> step s l = Some s' -> WF s'.
Proof.
  intros s l s' AT AL I H.
  step_inv H; hold_facts; cs_facts; unfold WF, cs_free_test in *; ssimp; ifs; ssimp; try assumption.
  all: try (intros X; simpl in X; intuition (try discriminate); fail).
  all: try (intros X; pool_inv; bools; outs; subst; unfold die_effs in X; simpl in X; ifs; simpl in X; intuition (try discriminate); fail).
  all: try (intros X; apply I; simpl; rewrite E5; simpl; auto; fail).
  all: try (intros X; apply in_map_postw in X; destruct X; discriminate).
  all: try (intros X; pool_inv; bools; cbn; repeat split; auto; now apply Z.eqb_eq).
  all: try (intros X; exfalso; destruct (lock s) eqn:L; [destruct (AL _ L); congruence | rewrite AT in X; auto]; fail).
  all: intros X; exfalso; outs; subst; unfold die_effs in X; simpl in X;
       repeat match type of X with context [if ?b then _ else _] => destruct b end; simpl in X; intuition discriminate.
Qed.

Lemma live_upd_same : forall (f : nat -> wrec) k r l, is_live (wpcf r) = is_live (wpcf (f k)) ->
  length (filter (fun w => is_live (wpcf (upd f k r w))) l) = length (filter (fun w => is_live (wpcf (f w))) l).
Proof.
  intros. apply (cnt_ext (fun w => is_live (wpcf (upd f k r w))) (fun w => is_live (wpcf (f w)))).
  intros. destruct (upd_cases _ f k r x) as [(-> & ->) | (_ & ->)]; auto.
Qed.

Lemma live_upd_die : forall (f : nat -> wrec) k r l, NoDup l -> In k l ->
  is_live (wpcf (f k)) = true -> is_live (wpcf r) = false ->
  S (length (filter (fun w => is_live (wpcf (upd f k r w))) l)) = length (filter (fun w => is_live (wpcf (f w))) l).
Proof.
  intros. pose proof (cnt_upd_in wrec (fun r => is_live (wpcf r)) f k r l H H0) as X.
  unfold cnt in X. cbv beta in X. rewrite H1, H2 in X. lia.
Qed.

Lemma live_new : forall (f : nat -> wrec) k r l, ~ In k l -> is_live (wpcf r) = true ->
  length (filter (fun w => is_live (wpcf (upd f k r w))) (k :: l)) = S (length (filter (fun w => is_live (wpcf (f w))) l)).
Proof.
  intros. simpl. rewrite upd_same, H0. simpl. f_equal.
  apply (cnt_upd_notin wrec (fun r => is_live (wpcf r)) f k r l H).
Qed.

Lemma ncreate_postw : forall l, ncreate (map FPostW l) = 0%nat.
Proof. unfold ncreate. induction l; simpl; auto. Qed.

Lemma ncreate_app : forall a b, ncreate (a ++ b) = (ncreate a + ncreate b)%nat.
Proof. unfold ncreate. intros. now rewrite filter_app, app_length. Qed.

Lemma W1b_step : forall s l s', TB s -> (lock s = None -> todo s = []) -> ALock s -> WF s -> W1b s ->
  step s l = Some s' -> W1b s'.
Proof.
  intros s l s' (_ & _ & _ & T4 & T5 & ND) AT AL F (I1 & I2) H.
  step_inv H; hold_facts; cs_facts; unfold W1b, nlive, wpc_of in *; ssimp; ifs; ssimp;
    try (split; assumption).
  all: repeat match goal with E : todo ?s = _ |- context [todo ?s] => rewrite E end.
  all: rewrite ?live_upd_same by (cbn [wpcf]; repeat match goal with E : wpcf _ = _ |- _ => rewrite E end; reflexivity).
  all: try (split; assumption).
  all: split; [try pool_inv | try (intros NP; exfalso; eapply NP; eauto; fail)].
  all: try match goal with E : pl _ = PLive ?p |- _ => pose proof (I1 p E) as (J1 & J2 & J3) end.
  all: try match goal with E : lock _ = None |- _ => pose proof (AT E) as TD; rewrite TD in * end.
  all: outs; subst; cbn [pstarted pmax p_set_items p_set_head p_set_tail p_set_idle p_set_done p_set_started p_set_shut] in *.
  all: unfold die_effs; cbn [ncreate filter is_create length app] in *.
  all: try (rewrite ncreate_postw).
  all: try (repeat split; lia).
  all: show.
Admitted.
