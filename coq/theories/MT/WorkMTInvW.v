(* WorkMTInvW.v -- invariants W1, W1b, Widle, W2 of Appendix A.7 for MT/WorkMT.v *)
From Coq Require Import List ZArith Bool Arith Lia.
From Ivv Require Import MT.WorkMT MT.WorkMTBase MT.WorkMTSpec MT.WorkMTCs MT.WorkMTInvA.
Import ListNotations.
Local Open Scope Z_scope.

(* ---------- counting workers ---------- *)
Definition cnt (g : nat -> bool) (l : list nat) : nat := length (filter g l).

Lemma cnt_ext : forall g h l, (forall x, In x l -> g x = h x) -> cnt g l = cnt h l.
Proof.
  unfold cnt. induction l; simpl; intros; auto.
  rewrite (H a) by now left. destruct (h a); simpl; rewrite IHl; auto.
Qed.

Lemma cnt_upd_notin : forall A (g : A -> bool) f k v l, ~ In k l ->
  cnt (fun x => g (upd f k v x)) l = cnt (fun x => g (f x)) l.
Proof.
  intros. apply cnt_ext. intros. rewrite upd_other; auto. intros ->. contradiction.
Qed.

Lemma cnt_cons : forall g a l, cnt g (a :: l) = ((if g a then 1 else 0) + cnt g l)%nat.
Proof. unfold cnt. intros. simpl. destruct (g a); auto. Qed.

Lemma cnt_upd_in : forall A (g : A -> bool) f k v l, NoDup l -> In k l ->
  (cnt (fun x => g (upd f k v x)) l + (if g (f k) then 1 else 0) =
   cnt (fun x => g (f x)) l + (if g v then 1 else 0))%nat.
Proof.
  induction l; intros ND IN; [contradiction |].
  inversion ND; subst. rewrite !cnt_cons. destruct IN as [-> | IN].
  - rewrite upd_same. rewrite (cnt_upd_notin _ g f k v l H1). lia.
  - specialize (IHl H2 IN).
    assert (a <> k) by (intros ->; contradiction). rewrite (upd_other _ f k v a H). lia.
Qed.

Lemma nlive_same : forall s s', wids s' = wids s ->
  (forall w, In w (wids s) -> is_live (wpc_of s' w) = is_live (wpc_of s w)) -> nlive s' = nlive s.
Proof. unfold nlive. intros. rewrite H. now apply (cnt_ext). Qed.

Lemma nlive_upd : forall s s' n r, wids s' = wids s -> wk s' = upd (wk s) n r -> NoDup (wids s) -> In n (wids s) ->
  (nlive s' + (if is_live (wpc_of s n) then 1 else 0) = nlive s + (if is_live (wpcf r) then 1 else 0))%nat.
Proof.
  unfold nlive, wpc_of. intros. rewrite H, H0.
  apply (cnt_upd_in wrec (fun r => is_live (wpcf r)) (wk s) n r (wids s)); auto.
Qed.

Lemma nlive_new : forall s s' n r, wids s' = n :: wids s -> wk s' = upd (wk s) n r -> ~ In n (wids s) ->
  is_live (wpcf r) = true -> nlive s' = S (nlive s).
Proof.
  unfold nlive, wpc_of. intros. rewrite H, H0. simpl. rewrite upd_same, H2. simpl. f_equal.
  apply (cnt_upd_notin wrec (fun r => is_live (wpcf r)) (wk s) n r (wids s)); auto.
Qed.

(* ---------- sequence numbers ---------- *)
Ltac Zify.zify_post_hook ::= Z.div_mod_to_equations.

Lemma seq_submit : forall h t n, 0 <= n -> n = (t - h) mod M32 -> n + 1 < 2147483648 ->
  n + 1 = ((t + 1) mod M32 - h) mod M32.
Proof. unfold M32. intros. lia. Qed.

Lemma seq_take : forall h t n, 1 <= n -> n = (t - h) mod M32 -> n - 1 = (t - (h + 1) mod M32) mod M32.
Proof. unfold M32. intros. lia. Qed.

Lemma mod_range : forall x, 0 <= x mod M32 < M32.
Proof. intros. apply Z.mod_pos_bound. reflexivity. Qed.

(* with W1, the loop test of got_event sees exactly whether work is queued *)
Lemma more_work_tail : forall h t n, 0 <= h < M32 -> 0 <= t < M32 -> n = (t - h) mod M32 -> n < 2147483648 ->
  more_work t h = (0 <? n).
Proof.
  unfold more_work, s32. intros. subst n.
  destruct ((t - h) mod M32 <? 2147483648) eqn:B; auto. apply Z.ltb_ge in B. lia.
Qed.

Lemma head_tail_items : forall h t n, 0 <= h < M32 -> 0 <= t < M32 -> n = (t - h) mod M32 -> (h = t <-> n = 0).
Proof. unfold M32. intros. lia. Qed.

Ltac pool_inv :=
  match goal with
  | |- forall p, PLive _ = PLive p -> _ => let q := fresh "q" in let X := fresh "X" in intros q X; inversion X; subst q; clear X
  | |- forall p, PFreed = PLive p -> _ => intros ? X; discriminate X
  | |- forall p, PNone = PLive p -> _ => intros ? X; discriminate X
  end.

Ltac outs :=
  repeat match goal with
  | H : loop_out _ _ _ _ _ _ _ |- _ => inversion H; subst; clear H
  | H : idle_out _ _ _ _ _ _ |- _ => inversion H; subst; clear H
  | H : submit_out _ _ _ _ _ _ |- _ => inversion H; subst; clear H
  | H : _ /\ _ |- _ => destruct H
  | H : _ \/ _ |- _ => destruct H
  end.

Lemma W1_step : forall s l s', W1 s -> step s l = Some s' -> W1 s'.
Proof.
  intros s l s' I H.
  step_inv H; hold_facts; cs_facts; unfold W1 in *; ssimp; ifs; ssimp; try assumption.
  all: try pool_inv.
  all: try (match goal with E : pl _ = PLive ?p |- _ => specialize (I p E) end).
  all: outs; subst; cbn [phead ptail pitems p_set_items p_set_head p_set_tail p_set_idle p_set_done p_set_started p_set_shut length] in *; auto.
  all: try match goal with H : pitems _ = _ :: _ |- _ => rewrite H in * end.
  all: rewrite ?app_length in *; cbn [length] in *.
  all: try (pose proof (mod_range (phead p + 1)); pose proof (mod_range (ptail p + 1))).
  all: unfold M32 in *; repeat split; try lia.
Qed.

(* while the pool is being freed (FFree owed) it has no threads and no finished work *)
Definition WF (s : state) : Prop :=
  In FFree (todo s) -> forall p, pl s = PLive p -> pstarted p = 0 /\ pdone p = [] /\ pshut p = true.

Lemma in_map_postw : forall e l, In e (map FPostW l) -> exists w, e = FPostW w.
Proof. intros. apply in_map_iff in H. destruct H as (w & <- & _). eauto. Qed.

Lemma WF_step : forall s l s', (lock s = None -> todo s = []) -> ALock s -> WF s -> step s l = Some s' -> WF s'.
Proof.
  intros s l s' AT AL I H.
  step_inv H; hold_facts; cs_facts; unfold WF, cs_free_test in *; ssimp; ifs; ssimp; try assumption.
  all: try (intros X; simpl in X; intuition (try discriminate); fail).
  all: try (intros X; pool_inv; bools; outs; subst; unfold die_effs in X; simpl in X; ifs; simpl in X; intuition (try discriminate); fail).
  all: try (intros X; apply I; simpl; rewrite E5; simpl; auto; fail).
  all: try (intros X; apply in_map_postw in X; destruct X; discriminate).
  all: try (intros X; pool_inv; bools; cbn; repeat split; auto; now apply Z.eqb_eq).
  all: try (intros X; exfalso; destruct (lock s) eqn:L; [destruct (AL _ L); congruence | rewrite AT in X; auto]; fail).
  all: intros X; exfalso; outs; subst; unfold die_effs in X; simpl in X;
       repeat match type of X with context [if ?b then _ else _] => destruct b end; simpl in X; intuition discriminate.
Qed.

Lemma live_upd_same : forall (f : nat -> wrec) k r l, is_live (wpcf r) = is_live (wpcf (f k)) ->
  length (filter (fun w => is_live (wpcf (upd f k r w))) l) = length (filter (fun w => is_live (wpcf (f w))) l).
Proof.
  intros. apply (cnt_ext (fun w => is_live (wpcf (upd f k r w))) (fun w => is_live (wpcf (f w)))).
  intros. destruct (upd_cases _ f k r x) as [(-> & ->) | (_ & ->)]; auto.
Qed.

Lemma live_upd_die : forall (f : nat -> wrec) k r l, NoDup l -> In k l ->
  is_live (wpcf (f k)) = true -> is_live (wpcf r) = false ->
  S (length (filter (fun w => is_live (wpcf (upd f k r w))) l)) = length (filter (fun w => is_live (wpcf (f w))) l).
Proof.
  intros. pose proof (cnt_upd_in wrec (fun r => is_live (wpcf r)) f k r l H H0) as X.
  unfold cnt in X. cbv beta in X. rewrite H1, H2 in X. lia.
Qed.

Lemma live_upd_notin : forall (f : nat -> wrec) k r l, ~ In k l ->
  length (filter (fun w => is_live (wpcf (upd f k r w))) l) = length (filter (fun w => is_live (wpcf (f w))) l).
Proof. intros. apply (cnt_upd_notin wrec (fun r => is_live (wpcf r)) f k r l H). Qed.

Lemma live_new : forall (f : nat -> wrec) k r l, ~ In k l -> is_live (wpcf r) = true ->
  length (filter (fun w => is_live (wpcf (upd f k r w))) (k :: l)) = S (length (filter (fun w => is_live (wpcf (f w))) l)).
Proof.
  intros. simpl. rewrite upd_same, H0. simpl. f_equal.
  apply (cnt_upd_notin wrec (fun r => is_live (wpcf r)) f k r l H).
Qed.

Lemma ncreate_postw : forall l, ncreate (map FPostW l) = 0%nat.
Proof. unfold ncreate. induction l; simpl; auto. Qed.

Lemma ncreate_app : forall a b, ncreate (a ++ b) = (ncreate a + ncreate b)%nat.
Proof. unfold ncreate. intros. now rewrite filter_app, app_length. Qed.

Lemma W1b_step : forall s l s', TB s -> (lock s = None -> todo s = []) -> ALock s -> WF s -> W1b s ->
  step s l = Some s' -> W1b s'.
Proof.
  intros s l s' (_ & _ & _ & T4 & T5 & ND) AT AL F (I1 & I2) H.
  step_inv H; hold_facts; cs_facts; unfold W1b, nlive, wpc_of in *; ssimp; ifs; ssimp;
    try (split; assumption).
  all: repeat match goal with E : todo ?s = _ |- context [todo ?s] => rewrite E end.
  all: rewrite ?live_upd_same by (cbn [wpcf]; repeat match goal with E : wpcf _ = _ |- _ => rewrite E end; reflexivity).
  all: try (split; assumption).
  all: split; [try pool_inv | try (intros NP; exfalso; eapply NP; eauto; fail)].
  all: try match goal with E : pl _ = PLive ?p |- _ => first [pose proof (I1 p E) as (J1 & J2 & J3) | pose proof (I1 p eq_refl) as (J1 & J2 & J3)] end.
  all: try match goal with E : lock _ = None |- _ => first [pose proof (AT E) as TD | pose proof (AT eq_refl) as TD]; rewrite TD in * end.
  all: outs; subst; cbn [pstarted pmax p_set_items p_set_head p_set_tail p_set_idle p_set_done p_set_started p_set_shut] in *.
  all: unfold die_effs; cbn [ncreate filter is_create length app] in *.
  all: try (rewrite ncreate_postw).
  all: try (repeat split; lia).
  all: rewrite ?live_upd_same by (cbn [wpcf]; repeat match goal with E : wpcf _ = _ |- _ => rewrite E end; reflexivity).
  all: try match goal with
       | E : wpcf (wk ?s ?n) = _ |- context [upd (wk ?s) ?n ?r] =>
         assert (INW : In n (wids s)) by (apply T5; rewrite E; discriminate);
         pose proof (live_upd_die (wk s) n r (wids s) ND INW) as LD; rewrite E in LD;
         specialize (LD eq_refl eq_refl)
       end.
  all: rewrite ?ncreate_app; ifs; cbn [ncreate filter is_create length app] in *.
  all: try (repeat split; lia).
  all: try (intros q Q; rewrite E5 in Q; inversion Q; subst q; repeat split; lia).
  all: try match goal with H : is_live (wpcf (upd _ ?k _ ?k)) = _ |- _ => rewrite upd_same in H; try discriminate H end.
  all: try match goal with H : _ && negb (memb ?n0 (tids _)) = true |- _ =>
         apply andb_true_iff in H; destruct H as (_ & NM); apply negb_true_iff, memb_false in NM;
         assert (NW : ~ In n0 (wids s)) by (intros X; apply T4 in X; tauto) end.
  all: try (rewrite (live_upd_notin (wk s) _ _ (wids s) NW) in * ).
  - (* the pool is freed: it had no threads *)
    intros _. destruct (AL _ E3) as (p & P). destruct (I1 p P) as (J1 & _).
    assert (FF : In FFree (todo s)) by (rewrite E5; now left).
    destruct (F FF p P) as (J & _). cbn in J1. lia.
  - intros q Q. destruct (I1 q Q) as (J1 & J2 & J3). unfold ncreate. repeat split; lia.
  - intros NP. exfalso. destruct (AL _ E3) as (p & P). now apply (NP p).
  - assert (TD : todo s = []).
    { destruct (lock s) eqn:L; auto. destruct (AL _ L); congruence. }
    rewrite TD. rewrite I2 by (intros q; discriminate). apply andb_true_iff in E7. destruct E7 as (_ & M).
    apply Z.leb_le in M. cbn. lia.
Qed.

Ltac use_pool I :=
  match goal with E : pl _ = PLive ?p |- _ => pose proof (I p E) end.

Lemma Widle_step : forall s l s', TB s -> Widle s -> step s l = Some s' -> Widle s'.
Proof.
  intros s l s' T I H.
  step_inv H; hold_facts; cs_facts; destruct T as (_ & _ & _ & T4 & T5 & _); unfold Widle in *; ssimp; ifs; ssimp; try assumption.
  all: try pool_inv; try use_pool I; outs; subst; cbn [pidle p_set_items p_set_head p_set_tail p_set_idle p_set_done p_set_started p_set_shut] in *.
  all: try assumption.
  all: try (intros q Q; pose proof (I q Q) as IQ).
  all: intros x IN.
  all: repeat match goal with
       | H : In _ (rem _ _) |- _ => apply rem_In in H; destruct H
       | H : In _ (_ :: _) |- _ => destruct H; subst
       | H : In _ [] |- _ => destruct H
       end.
  all: try match goal with H : forall w, In w (pidle ?p) -> _ , IN : In ?x (pidle ?p) |- _ => pose proof (H x IN) as (IA & IB) end.
  all: unfold upd; repeat match goal with |- context [Nat.eqb ?a ?b] => destruct (Nat.eqb a b) eqn:?; bools; subst end; cbn [wpcf].
  all: try (split; auto; fail).
  all: try (split; [now right | auto]; fail).
  all: try congruence.
  all: try (destruct IB as [IB | IB]; congruence).
  - exfalso. apply memb_false in H0. apply H0. apply T4 in IA. tauto.
  - split; auto. apply T5. rewrite E9. discriminate.
  - split; auto. apply T5. rewrite E9. discriminate.
Qed.

Lemma WU_step : forall s l s', (lock s = None -> todo s = []) -> WU s -> step s l = Some s' -> WU s'.
Proof.
  intros s l s' AT I H.
  step_inv H; hold_facts; cs_facts; unfold WU in *; ssimp; ifs; ssimp; try assumption.
  all: try match goal with E : lock _ = None |- _ => pose proof (AT E) as TD end.
  all: outs; subst; unfold die_effs.
  all: intros x X.
  all: try (rewrite TD in *).
  all: try match goal with E : todo _ = _ |- _ => rewrite E in I end.
  all: simpl in X; rewrite ?in_app_iff in X; ifs; simpl in X.
  all: try (exfalso; intuition (try discriminate; try congruence); fail).
  all: try (assert (IX : lock s = Some x /\ wpcf (wk s x) = WDead) by (apply I; simpl; intuition (try congruence));
            destruct IX as (IX1 & IX2)).
  all: unfold upd; repeat match goal with |- context [Nat.eqb ?a ?b] => destruct (Nat.eqb a b) eqn:?; bools; subst end; cbn [wpcf].
  all: try (split; auto; congruence).
  all: try (split; congruence).
  all: repeat match type of X with context [if ?b then _ else _] => destruct b end; simpl in X.
  all: try (exfalso; intuition (try discriminate; try congruence); fail).
  all: try (intuition (try discriminate);
            repeat match goal with
            | H : FUnreg _ = FUnreg _ |- _ => inversion H; subst; clear H
            | H : Some _ = Some _ |- _ => inversion H; subst; clear H
            end; try congruence; fail).
  all: try match goal with E : todo _ = _ |- _ => rewrite E in X; simpl in X end.
  all: try (exfalso; intuition (try discriminate; try congruence); fail).
  all: exfalso; destruct X as [X | (X & _)]; apply in_map_postw in X; destruct X; discriminate.
Qed.

Lemma W2_step : forall s l s', TB s -> (lock s = None -> todo s = []) -> APN s -> WU s -> Widle s -> W2 s -> step s l = Some s' -> W2 s'.
Proof.
  intros s l s' T AT PN U WI I H.
  step_inv H; hold_facts; cs_facts; destruct T as (_ & _ & _ & T4 & T5 & _);
    unfold W2, wit, kick_due in *; ssimp; ifs; ssimp; try assumption.
  all: try pool_inv; try use_pool I; try use_pool WI; outs; subst;
       cbn [pidle p_set_items p_set_head p_set_tail p_set_idle p_set_done p_set_started p_set_shut] in *.
  all: try assumption.
  all: try (intros q Q; pose proof (I q Q) as IQ).
  all: intros x IN LV.
  all: unfold upd in *;
       repeat match goal with
       | |- context [Nat.eqb ?a ?b] => destruct (Nat.eqb a b) eqn:?; bools; subst
       | H : context [Nat.eqb ?a ?b] |- _ => destruct (Nat.eqb a b) eqn:?; bools; subst
       end; cbn [wpcf wkicked wkpend active_pc is_live] in *.
  all: try discriminate.
  all: try (right; left; reflexivity).
  all: try match goal with E : lock _ = None |- _ => first [pose proof (AT E) as TD | pose proof (AT eq_refl) as TD] end.
  all: repeat match goal with H : In _ (_ :: _) |- _ => destruct H; subst end.
  all: try match goal with IQ : forall w, In w (wids _) -> _, IN : In ?x (wids _) |- _ =>
         destruct (IQ x IN LV) as [A | [A | (A & [B | B])]] end.
  all: try match goal with B : In _ (todo _), E : todo _ = _ |- _ => rewrite E in B; simpl in B end.
  all: repeat match goal with
       | B : False |- _ => destruct B
       | B : _ = _ \/ _ |- _ => destruct B as [B | B]; [inversion B; subst |]
       end.
  all: try (left; assumption).
  all: try (left; apply rem_In; split; assumption).
  all: try (left; right; assumption).
  all: try (right; left; assumption).
  all: try (right; right; split; [assumption | left; assumption]).
  all: try (right; right; split; [assumption | right; assumption]).
  all: try (right; right; split; [assumption | right; simpl; auto; fail]).
  all: try (right; right; split; [assumption | right; apply in_or_app; right; simpl; auto]; fail).
  all: try (right; right; split; [assumption || reflexivity | left; reflexivity]; fail).
  all: try (left; now left).
  all: try (left; right; apply rem_In; split; assumption).
  all: try (right; right; split; [reflexivity | right; apply in_or_app; right; simpl; auto]; fail).
  all: try (right; right; split; [reflexivity | right; simpl; auto]; fail).
  - congruence.
  - congruence.
  - exfalso. assert (X : wpc_of s w0 = WDead) by (apply U; left; rewrite E5; now left). unfold wpc_of in X. congruence.
  - congruence.
  - exfalso. destruct (PN E5) as (X & _). rewrite X in IN. destruct IN.
Qed.
