(* WorkMTBase.v -- inversion of `step`, runs, small facts used by the invariant proofs of MT/WorkMT.v *)
From Coq Require Import List ZArith Bool Arith Lia.
From Ivv Require Import MT.WorkMT.
Import ListNotations.
Local Open Scope Z_scope.

Lemma upd_same : forall A (f : nat -> A) k v, upd f k v k = v.
Proof. intros. unfold upd. now rewrite Nat.eqb_refl. Qed.

Lemma upd_other : forall A (f : nat -> A) k v x, x <> k -> upd f k v x = f x.
Proof. intros. unfold upd. apply Nat.eqb_neq in H. now rewrite H. Qed.

Lemma upd_cases : forall A (f : nat -> A) k v x, (x = k /\ upd f k v x = v) \/ (x <> k /\ upd f k v x = f x).
Proof.
  intros. destruct (Nat.eq_dec x k); [left | right]; split; auto.
  - subst. apply upd_same.
  - now apply upd_other.
Qed.

(* ---------- runs ---------- *)
Lemma run_app : forall a b s, run s (a ++ b) = match run s a with Some s1 => run s1 b | None => None end.
Proof. induction a; simpl; intros; auto. destruct (step s a); auto. Qed.

Lemma run_snoc : forall tr l s s', run s (tr ++ [l]) = Some s' <-> exists s1, run s tr = Some s1 /\ step s1 l = Some s'.
Proof.
  intros. rewrite run_app. split.
  - destruct (run s tr); try discriminate. simpl. destruct (step s0 l) eqn:E; try discriminate.
    intros X; inversion X; subst. eauto.
  - intros (s1 & -> & H). simpl. now rewrite H.
Qed.

Lemma run_prefix : forall a b s s', run s (a ++ b) = Some s' -> exists s1, run s a = Some s1 /\ run s1 b = Some s'.
Proof. intros. rewrite run_app in H. destruct (run s a); try discriminate. eauto. Qed.

(* induction principle over accepted runs from the initial state *)
Lemma run_ind_inv : forall (P : state -> Prop) o,
  P (init o) -> (forall s l s', P s -> step s l = Some s' -> P s') ->
  forall tr s, run (init o) tr = Some s -> P s.
Proof.
  intros P o H0 HS tr. induction tr using rev_ind; intros s H.
  - simpl in H. inversion H; subst; auto.
  - apply run_snoc in H. destruct H as (s1 & H1 & H2). eauto.
Qed.

(* invariants that also mention the trace *)
Lemma run_ind_tr : forall (P : list label -> state -> Prop) o,
  P [] (init o) -> (forall tr s l s', run (init o) tr = Some s -> P tr s -> step s l = Some s' -> P (tr ++ [l]) s') ->
  forall tr s, run (init o) tr = Some s -> P tr s.
Proof.
  intros P o H0 HS tr. induction tr using rev_ind; intros s H.
  - simpl in H. inversion H; subst; auto.
  - apply run_snoc in H. destruct H as (s1 & H1 & H2). eauto.
Qed.

(* ---------- boolean reflection helpers ---------- *)
Lemma memb_In : forall w l, memb w l = true <-> In w l.
Proof.
  unfold memb. intros. rewrite existsb_exists. split.
  - intros (x & H & E). apply Nat.eqb_eq in E. now subst.
  - intros. exists w. split; auto. apply Nat.eqb_refl.
Qed.

Lemma memb_false : forall w l, memb w l = false <-> ~ In w l.
Proof. intros. rewrite <- memb_In. destruct (memb w l); split; intros; try discriminate; auto. now elim H. Qed.

Lemma rem_In : forall w x l, In x (rem w l) <-> In x l /\ x <> w.
Proof.
  unfold rem. intros. rewrite filter_In. rewrite negb_true_iff, Nat.eqb_neq. tauto.
Qed.

Lemma oev_eqb_eq : forall a b, oev_eqb a b = true <-> a = b.
Proof.
  destruct a, b; simpl; split; intros; try discriminate; auto.
  - apply Nat.eqb_eq in H. now subst.
  - inversion H. apply Nat.eqb_refl.
Qed.

Lemma omemb_In : forall e l, omemb e l = true <-> In e l.
Proof.
  unfold omemb. intros. rewrite existsb_exists. split.
  - intros (x & H & E). apply oev_eqb_eq in E. now subst.
  - intros. exists e. split; auto. now apply oev_eqb_eq.
Qed.

Lemma orem_In : forall e x l, In x (orem e l) <-> In x l /\ x <> e.
Proof.
  unfold orem. intros. rewrite filter_In, negb_true_iff. split; intros (A & B); split; auto.
  - intros ->. assert (oev_eqb e e = true) by now apply oev_eqb_eq. congruence.
  - destruct (oev_eqb x e) eqn:E; auto. apply oev_eqb_eq in E. contradiction.
Qed.

Lemma nilb_true : forall A (l : list A), nilb l = true <-> l = [].
Proof. destruct l; simpl; split; intros; auto; discriminate. Qed.

Lemma mph_eqb_eq : forall a b, mph_eqb a b = true <-> a = b.
Proof. destruct a, b; simpl; split; intros; auto; discriminate. Qed.

(* ---------- inversion of step ---------- *)
Ltac break_hyp H :=
  match type of H with
  | context [match ?x with _ => _ end] =>
    lazymatch x with
    | context [match _ with _ => _ end] => fail
    | _ => let E := fresh "E" in destruct x eqn:E
    end
  end.

Ltac unfold_step H :=
  unfold step in H;
  repeat (break_hyp H; try discriminate H);
  try (unfold step_in in H; repeat (break_hyp H; try discriminate H));
  try (unfold step_out, st_lock, st_submit, st_evo, st_evw, st_work, st_ret, st_compl in H;
       repeat (break_hyp H; try discriminate H));
  try (unfold dispatch_o in H; repeat (break_hyp H; try discriminate H)).

Ltac bools :=
  repeat match goal with
  | H : _ && _ = true |- _ => apply andb_true_iff in H; destruct H
  | H : negb _ = true |- _ => apply negb_true_iff in H
  | H : negb _ = false |- _ => apply negb_false_iff in H
  | H : Nat.eqb _ _ = true |- _ => apply Nat.eqb_eq in H
  | H : Nat.eqb _ _ = false |- _ => apply Nat.eqb_neq in H
  | H : mph_eqb _ _ = true |- _ => apply mph_eqb_eq in H
  | H : nilb _ = true |- _ => apply nilb_true in H
  end.

(* all the cases of a step, the new state substituted *)
Ltac step_inv H :=
  unfold_step H;
  match type of H with Some _ = Some _ => inversion H; clear H | _ => idtac end; subst.

Lemma holds_true : forall s t, holds s t = true <-> lock s = Some t.
Proof.
  unfold holds. intros. destruct (lock s); split; intros; try discriminate.
  - apply Nat.eqb_eq in H. now subst.
  - inversion H. apply Nat.eqb_refl.
Qed.

Lemma holds_false : forall s t, holds s t = false <-> lock s <> Some t.
Proof.
  intros. rewrite <- holds_true. destruct (holds s t); split; intros; try discriminate; auto. now elim H.
Qed.

(* unfold the composite setters and simplify projections of updated states *)
Ltac unf := unfold post_o, post_w, enter, set_kpend, set_wpc, set_tp, set_item, set_act1, set_kicked, set_pool, wpc_of in *.
Ltac ssimp := unf; cbn [own pl lock todo wk wids th tids act blocked kdue items omain ohst opend obatch orelock onum lq lbatch fin
  set_pl set_lock set_todo set_wk set_wids set_th set_tids set_act set_blocked set_kdue set_items set_omain set_ohst set_opend
  set_obatch set_orelock set_onum set_lq set_lbatch set_fin] in *.
Ltac ifs := repeat match goal with |- context [if ?b then _ else _] => destruct b eqn:? end.

(* debugging: print the current goal with its hypotheses *)
Ltac show := idtac "=========="; try match goal with H : ?T |- _ => idtac H ":" T; fail end;
  match goal with |- ?g => idtac "|-" g end.

(* as step_inv, but the owner's event dispatch (dispatch_o) is left folded *)
Ltac unfold_step0 H :=
  unfold step in H;
  repeat (break_hyp H; try discriminate H);
  try (unfold step_in in H; repeat (break_hyp H; try discriminate H));
  try (unfold step_out, st_lock, st_submit, st_evo, st_evw, st_work, st_ret, st_compl in H;
       repeat (break_hyp H; try discriminate H)).

Ltac step_inv0 H :=
  unfold_step0 H;
  match type of H with Some _ = Some _ => inversion H; clear H | _ => idtac end; subst.
