(* WorkMTInvT.v -- threads made by iv_thread_create: the `dead` event of a finished thread is pending until it
   is joined (J), the owner's registered-event count (ON), nothing is unregistered for an unjoined thread (HFJ) *)
From Coq Require Import List ZArith Bool Arith Lia.
From Ivv Require Import MT.WorkMT MT.WorkMTBase MT.WorkMTSpec MT.WorkMTCs MT.WorkMTInvA MT.WorkMTInvW MT.WorkMTInvW4
  MT.WorkMTInvW5 MT.WorkMTProofs.
Import ListNotations.
Local Open Scope Z_scope.

Definition posted (x : tph) : bool := match x with TPosted | TFin => true | _ => false end.
Definition unjoined (r : trec) : bool := match tp r with TJoined => false | _ => true end.

(* J: a thread that has posted its `dead` event and is not yet joined has the event pending or being handled *)
Definition JJ (s : state) : Prop := forall n, posted (tp (th s n)) = true ->
  In (EvDead n) (opend s ++ obatch s) \/ ohst s = HPop (EvDead n).

(* only the `dead` event of a joined thread is ever taken off the list by iv_event_unregister *)
Definition HFJ (s : state) : Prop := forall l m, ohst s = HFree l -> In (EvDead m) l -> tp (th s m) = TJoined.

(* a thread id that was never created has the default record *)
Definition TKR (s : state) : Prop := forall n, tk (th s n) = KNone -> tp (th s n) = TRun.

Lemma TKR_step : forall s l s', TKR s -> step s l = Some s' -> TKR s'.
Proof.
  intros s l s' I H.
  step_inv H.
  all: unfold TKR in *; ssimp; ifs; ssimp; try assumption.
  all: intros x X; unfold upd in *; repeat match goal with
       | |- context [Nat.eqb ?a ?b] => destruct (Nat.eqb a b) eqn:?; bools; subst
       | H : context [Nat.eqb ?a ?b] |- _ => destruct (Nat.eqb a b) eqn:?; bools; subst end; cbn [tp tk] in *; auto; try discriminate.
  all: try congruence.
  all: try (pose proof (I _ X); congruence).
Qed.

Lemma HFJ_step : forall s l s', TB s -> TKR s -> HFJ s -> step s l = Some s' -> HFJ s'.
Proof.
  intros s l s' (_ & _ & T3 & _) TK I H.
  step_inv H.
  all: hold_facts; unfold HFJ in *; ssimp; ifs; ssimp; try assumption.
  all: try (intros ? ? X; discriminate X).
  all: intros ll m X IN; try (inversion X; subst; clear X).
  all: unfold upd; repeat match goal with |- context [Nat.eqb ?a ?b] => destruct (Nat.eqb a b) eqn:?; bools; subst end; cbn [tp tk].
  all: try (eapply I; eauto; fail).
  all: try (cbn in IN; intuition (try discriminate; try congruence); fail).
  all: try (match goal with E : ohst _ = HFree ?l, IN : In (EvDead ?x) ?l |- _ => pose proof (I l x E IN); congruence end).
  all: try (match goal with E : ohst _ = HFree (?e :: ?l), IN : In (EvDead ?x) ?l |- _ => pose proof (I (e :: l) x E (or_intror IN)); congruence end).
  all: exfalso; apply memb_false in H1; apply H1; apply T3; intros Q; specialize (TK _ Q);
       match goal with E : ohst _ = HFree ?l, IN : In (EvDead ?x) ?l |- _ => pose proof (I l x E IN); congruence end.
Qed.

Lemma otopb_nopop : forall s e, otopb s = true -> ohst s <> HPop e.
Proof. unfold otopb. intros s e T X. rewrite X in T. discriminate. Qed.

Lemma JJ_step : forall s l s', HFJ s -> JJ s -> step s l = Some s' -> JJ s'.
Proof.
  intros s l s' HJ I H.
  step_inv H.
  all: hold_facts; unfold JJ in *; ssimp; ifs; ssimp; try assumption.
  all: intros x X; unfold upd in *.
  all: repeat match goal with
       | |- context [Nat.eqb ?a ?b] => destruct (Nat.eqb a b) eqn:?; bools; subst
       | H : context [Nat.eqb ?a ?b] |- _ => destruct (Nat.eqb a b) eqn:?; bools; subst
       end; cbn [tp tk posted] in *; try discriminate.
  all: repeat match goal with
       | H : omemb _ _ = true |- _ => apply omemb_In in H
       | H : omemb _ _ = false |- _ => clear H
       end.
  all: rewrite ?in_app_iff in *; cbn [In] in *.
  all: try (pose proof (I _ X) as IH; rewrite ?in_app_iff in IH).
  all: try tauto.
  all: repeat match goal with E : obatch _ = _ |- _ => rewrite E in * | E : opend _ = _ |- _ => rewrite E in * end; cbn [In app] in *.
  all: try (destruct IH as [[A | A] | A]; try congruence; try tauto;
            repeat match goal with H : _ \/ _ |- _ => destruct H; subst end; try tauto; auto 6; fail).
  all: bools.
  all: try match goal with T : otopb _ = true |- _ => pose proof (fun e => otopb_nopop _ e T) as NP end.
  all: try (destruct IH as [[A | A] | A]; try (exfalso; eapply NP; eauto; fail); try congruence;
            repeat match goal with H : _ \/ _ |- _ => destruct H; subst end; try tauto; auto 6; fail).
  - (* iv_event_unregister: the event taken off the list belongs to a joined thread *)
    rewrite !orem_In.
    assert (NE : EvDead x <> o).
    { intros <-. match goal with E : ohst _ = HFree _ |- _ => pose proof (HJ _ x E (or_introl eq_refl)) as Q end.
      rewrite Q in X. discriminate. }
    destruct IH as [[A | A] | A]; try congruence; auto.
  - assert (Q : posted (tp (th s n)) = true) by (rewrite E5; reflexivity).
    destruct (I n Q) as [A | A]; auto. apply in_app_iff in A. tauto.
Qed.

(* ---------- the owner's registered events ---------- *)
Definition cntU (s : state) : nat := length (filter (fun n => unjoined (th s n)) (tids s)).
Definition ON (s : state) : Prop :=
  onum s = (match pl s with PLive _ => 2 | _ => 0 end) + Z.of_nat (cntU s).

Lemma unj_upd_same : forall (f : nat -> trec) k r l, unjoined r = unjoined (f k) ->
  length (filter (fun n => unjoined (upd f k r n)) l) = length (filter (fun n => unjoined (f n)) l).
Proof.
  intros. apply (cnt_ext (fun n => unjoined (upd f k r n)) (fun n => unjoined (f n))).
  intros. destruct (upd_cases _ f k r x) as [(-> & ->) | (_ & ->)]; auto.
Qed.

Lemma unj_upd_join : forall (f : nat -> trec) k r l, NoDup l -> In k l -> unjoined (f k) = true -> unjoined r = false ->
  S (length (filter (fun n => unjoined (upd f k r n)) l)) = length (filter (fun n => unjoined (f n)) l).
Proof.
  intros. pose proof (cnt_upd_in trec unjoined f k r l H H0) as X.
  unfold cnt in X. rewrite H1, H2 in X. lia.
Qed.

Lemma unj_upd_notin : forall (f : nat -> trec) k r l, ~ In k l ->
  length (filter (fun n => unjoined (upd f k r n)) l) = length (filter (fun n => unjoined (f n)) l).
Proof. intros. apply (cnt_upd_notin trec unjoined f k r l H). Qed.

Lemma ON_step : forall s l s', TB s -> TKR s -> ALock s -> ON s -> step s l = Some s' -> ON s'.
Proof.
  intros s l s' (ND & _ & T3 & _) TK AL I H.
  step_inv H.
  all: hold_facts; unfold ON, cntU in *; ssimp; ifs; ssimp; try assumption.
  all: repeat match goal with E : pl _ = _ |- _ => rewrite E in * end.
  all: rewrite ?unj_upd_same by (unfold unjoined; cbn [tp]; repeat match goal with E : tp _ = _ |- _ => rewrite E end; reflexivity).
  all: try assumption.
  all: try lia.
  - destruct (AL _ E3) as (p & P). rewrite P in I. lia.
  - bools. match goal with M : memb n0 (tids s) = false |- _ => apply memb_false in M;
      cbn [filter]; rewrite upd_same; cbn [unjoined tp]; cbn [length]; rewrite (unj_upd_notin (th s) n0 _ (tids s) M) end. lia.
  - bools. match goal with M : memb n0 (tids s) = false |- _ => apply memb_false in M;
      cbn [filter]; rewrite upd_same; cbn [unjoined tp]; cbn [length]; rewrite (unj_upd_notin (th s) n0 _ (tids s) M) end. lia.
  - bools. subst.
    match goal with |- context [upd (th s) ?k ?r] =>
      destruct (tp (th s k)) eqn:TP; try discriminate;
      assert (IN : In k (tids s)) by (apply T3; intros Q; rewrite (TK _ Q) in TP; discriminate);
      pose proof (unj_upd_join (th s) k r (tids s) ND IN) as X;
      unfold unjoined at 1 2 in X; rewrite TP in X; cbn [tp] in X; specialize (X eq_refl eq_refl)
    end. lia.
Qed.
