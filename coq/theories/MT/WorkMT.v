(* WorkMT.v -- labelled transition system of iv_work.c + iv_thread_posix.c (C12/C13).

   Written after the critical sections of iv_work.c (DESIGN.md Appendix A.7).  One pool,
   its owner thread `own`, the pool threads and helper threads created through
   iv_thread_create by the owner.  A running helper thread may submit work to the pool as a FOREIGN
   submitter (iv_work_pool_submit_continuation by a thread that is neither the owner nor a thread of this
   pool, e.g. a worker of another pool of the same owner: called_from_owner_thread = 0, so an idle thread
   is kicked, else the owner's thread_needed event is posted).  Labels abstract the log of harness/ivmt.c:

     a wc<p>=<m>             LCreate t m        pe                     LEnd t
     a ws / a wS             LSubmit t i        a wl<i>                LLocal t i
     a wp<p>                 LPut t             Ct / Ck (owner)        LCallback t
     L <pool lock>           LLock t            U <pool lock>          LUnlock t
     L e<own> (any thread)   LEvO t             L <loop lock of w>     LEvW t w
     Kk <epfd of own>        LKickO t           Kk <epfd of w>         LKickW t w
     Cw / Xw / Cc            LWork / LRet / LCompl t i
     Cs / CS                 LHookStart / LHookStop t
     Tc n / Te / Tx / Tj n   LTCreate t n / LTExit t / LTFin t / LTJoin t n
     Wb / R after Wb         LBlock t / LWake t
     M / E q=0 n=0           LMain t / LMainEnd t
     QUIESCENT / D           LQuiescent / LDone

   iv_event is taken at its interface (proved by C08, assumed here): every loop has a
   FIFO list of posted events, a post of an event already on the list is a no-op, the
   poster kicks the loop iff it made the list non-empty from another thread, the owner
   pops events one by one (the pop happens under the loop's lock = the LEvO/LEvW label
   by the loop's own thread) and runs the handler after the pop; unregister takes the
   loop's lock and removes the event from the list if it is there.  The idle timer of a worker is armed exactly while the
   worker is on the idle list; it may fire at any time (virtual time is not modelled:
   every expiry time is covered).

   The pool fields change only in LLock steps (the whole critical section is computed
   there; the lock holder is then obliged to perform the visible effects `todo` of the
   section in order before it may unlock).  No proofs in this file. *)
From Coq Require Import List ZArith Bool Arith.
Import ListNotations.
Local Open Scope Z_scope.

(* ---------- labels ---------- *)
Inductive label :=
| LCreate (t : nat) (mx : Z)
| LSubmit (t i : nat)
| LLocal (t i : nat)
| LPut (t : nat)
| LEnd (t : nat)
| LCallback (t : nat)
| LLock (t : nat)
| LUnlock (t : nat)
| LEvO (t : nat)
| LEvW (t w : nat)
| LKickO (t : nat)
| LKickW (t w : nat)
| LWork (t i : nat)
| LRet (t i : nat)
| LCompl (t i : nat)
| LHookStart (t : nat)
| LHookStop (t : nat)
| LTCreate (t n : nat)
| LTExit (t : nat)
| LTFin (t : nat)
| LTJoin (t n : nat)
| LBlock (t : nat)
| LWake (t : nat)
| LMain (t : nat)
| LMainEnd (t : nat)
| LQuiescent
| LDone.

(* the acting thread (None for the two end markers) *)
Definition lthr (l : label) : option nat :=
  match l with
  | LCreate t _ | LSubmit t _ | LLocal t _ | LPut t | LEnd t | LCallback t | LLock t | LUnlock t
  | LEvO t | LEvW t _ | LKickO t | LKickW t _ | LWork t _ | LRet t _ | LCompl t _
  | LHookStart t | LHookStop t | LTCreate t _ | LTExit t | LTFin t | LTJoin t _
  | LBlock t | LWake t | LMain t | LMainEnd t => Some t
  | LQuiescent | LDone => None
  end.

(* ---------- state ---------- *)
(* events of the owner's loop *)
Inductive oev := EvWork | EvNeeded | EvDead (n : nat).

Definition oev_eqb (a b : oev) : bool :=
  match a, b with
  | EvWork, EvWork | EvNeeded, EvNeeded => true
  | EvDead n, EvDead m => Nat.eqb n m
  | _, _ => false
  end.

(* visible effects a critical section still owes *)
Inductive eff :=
| FPostO (e : oev)      (* iv_event_post to an event of the owner's loop *)
| FPostW (w : nat)      (* iv_event_post(&thr->kick) of worker w *)
| FUnreg (w : nat)      (* iv_event_unregister(&thr->kick): takes w's loop lock, unlinks the event if pending *)
| FCreate               (* iv_thread_create of a pool thread *)
| FStop                 (* pool->thread_stop *)
| FFree.                (* the unlock is followed by mutex_destroy / unregister / free(pool) *)

Record pool := mkPool {
  pmax : Z; pshut : bool; pstarted : Z; pidle : list nat;
  phead : Z; ptail : Z; pitems : list nat; pdone : list nat }.

Inductive pstate := PNone | PLive (p : pool) | PFreed.

Inductive wpc :=
| WNone                         (* not a pool thread *)
| WStart0                       (* created, thread_start not yet called *)
| WStart1                       (* thread_start called, kick not yet self-posted *)
| WLoop                         (* in iv_main, outside the handlers *)
| WGot                          (* kick popped: got_event entered, pool lock not yet taken *)
| WTake (i : nat) (last : Z)    (* item taken under the lock, work function not yet started *)
| WWork (i : nat) (last : Z)    (* inside the work function *)
| WRet (i : nat) (last : Z)     (* work function returned, lock not yet retaken *)
| WDead.                        (* __iv_work_thread_die ran (struct work_pool_thread freed) *)

Record wrec := mkW { wpcf : wpc; wkicked : bool; wkpend : bool }.

Inductive tkind := KNone | KWorker | KHelper.
Inductive tph := TRun | TExiting | TPosted | TFin | TJoined.
Record trec := mkT { tk : tkind; tp : tph }.

Inductive stage := SBefore | SIn | SPost | SAfter.
Inductive actx := ANone | ASubmit (i : nat) (g : stage) | APut (g : stage).

Inductive ist := IIdle | IQ | IW | IR | ILQ | ILW | ILR.

Inductive mph := MSetup | MIn | MAfter.

Inductive hst :=
| HTop
| HPop (e : oev)            (* event popped, its handler has not shown itself yet *)
| HCompl (l : list nat)     (* iv_work_event after the steal: completions still to run *)
| HFree (l : list oev)      (* iv_event_unregister calls still to come (pool being freed / thread joined) *)
| HLocal.                   (* iv_work_handle_local running its batch *)

Inductive ktarget := KO | KW (w : nat).

Record state := mkS {
  own : nat;
  pl : pstate;
  lock : option nat;
  todo : list eff;
  wk : nat -> wrec;
  wids : list nat;
  th : nat -> trec;
  tids : list nat;
  act : nat -> actx;
  blocked : nat -> bool;
  kdue : nat -> option ktarget;
  items : nat -> ist;
  omain : mph;
  ohst : hst;
  opend : list oev;
  obatch : list oev;
  orelock : bool;
  onum : Z;
  lq : list nat;
  lbatch : list nat;
  fin : bool }.

Definition w0 : wrec := mkW WNone false false.
Definition t0 : trec := mkT KNone TRun.

Definition init (o : nat) : state :=
  mkS o PNone None [] (fun _ => w0) [] (fun _ => t0) [] (fun _ => ANone) (fun _ => false)
      (fun _ => None) (fun _ => IIdle) MSetup HTop [] [] false 0 [] [] false.

Definition upd {A} (f : nat -> A) (k : nat) (v : A) : nat -> A :=
  fun x => if Nat.eqb x k then v else f x.

(* ---------- field setters ---------- *)
Definition set_pl v (s : state) : state := mkS (own s) v (lock s) (todo s) (wk s) (wids s) (th s) (tids s) (act s) (blocked s) (kdue s) (items s) (omain s) (ohst s) (opend s) (obatch s) (orelock s) (onum s) (lq s) (lbatch s) (fin s).
Definition set_lock v (s : state) : state := mkS (own s) (pl s) v (todo s) (wk s) (wids s) (th s) (tids s) (act s) (blocked s) (kdue s) (items s) (omain s) (ohst s) (opend s) (obatch s) (orelock s) (onum s) (lq s) (lbatch s) (fin s).
Definition set_todo v (s : state) : state := mkS (own s) (pl s) (lock s) v (wk s) (wids s) (th s) (tids s) (act s) (blocked s) (kdue s) (items s) (omain s) (ohst s) (opend s) (obatch s) (orelock s) (onum s) (lq s) (lbatch s) (fin s).
Definition set_wk v (s : state) : state := mkS (own s) (pl s) (lock s) (todo s) v (wids s) (th s) (tids s) (act s) (blocked s) (kdue s) (items s) (omain s) (ohst s) (opend s) (obatch s) (orelock s) (onum s) (lq s) (lbatch s) (fin s).
Definition set_wids v (s : state) : state := mkS (own s) (pl s) (lock s) (todo s) (wk s) v (th s) (tids s) (act s) (blocked s) (kdue s) (items s) (omain s) (ohst s) (opend s) (obatch s) (orelock s) (onum s) (lq s) (lbatch s) (fin s).
Definition set_th v (s : state) : state := mkS (own s) (pl s) (lock s) (todo s) (wk s) (wids s) v (tids s) (act s) (blocked s) (kdue s) (items s) (omain s) (ohst s) (opend s) (obatch s) (orelock s) (onum s) (lq s) (lbatch s) (fin s).
Definition set_tids v (s : state) : state := mkS (own s) (pl s) (lock s) (todo s) (wk s) (wids s) (th s) v (act s) (blocked s) (kdue s) (items s) (omain s) (ohst s) (opend s) (obatch s) (orelock s) (onum s) (lq s) (lbatch s) (fin s).
Definition set_act v (s : state) : state := mkS (own s) (pl s) (lock s) (todo s) (wk s) (wids s) (th s) (tids s) v (blocked s) (kdue s) (items s) (omain s) (ohst s) (opend s) (obatch s) (orelock s) (onum s) (lq s) (lbatch s) (fin s).
Definition set_blocked v (s : state) : state := mkS (own s) (pl s) (lock s) (todo s) (wk s) (wids s) (th s) (tids s) (act s) v (kdue s) (items s) (omain s) (ohst s) (opend s) (obatch s) (orelock s) (onum s) (lq s) (lbatch s) (fin s).
Definition set_kdue v (s : state) : state := mkS (own s) (pl s) (lock s) (todo s) (wk s) (wids s) (th s) (tids s) (act s) (blocked s) v (items s) (omain s) (ohst s) (opend s) (obatch s) (orelock s) (onum s) (lq s) (lbatch s) (fin s).
Definition set_items v (s : state) : state := mkS (own s) (pl s) (lock s) (todo s) (wk s) (wids s) (th s) (tids s) (act s) (blocked s) (kdue s) v (omain s) (ohst s) (opend s) (obatch s) (orelock s) (onum s) (lq s) (lbatch s) (fin s).
Definition set_omain v (s : state) : state := mkS (own s) (pl s) (lock s) (todo s) (wk s) (wids s) (th s) (tids s) (act s) (blocked s) (kdue s) (items s) v (ohst s) (opend s) (obatch s) (orelock s) (onum s) (lq s) (lbatch s) (fin s).
Definition set_ohst v (s : state) : state := mkS (own s) (pl s) (lock s) (todo s) (wk s) (wids s) (th s) (tids s) (act s) (blocked s) (kdue s) (items s) (omain s) v (opend s) (obatch s) (orelock s) (onum s) (lq s) (lbatch s) (fin s).
Definition set_opend v (s : state) : state := mkS (own s) (pl s) (lock s) (todo s) (wk s) (wids s) (th s) (tids s) (act s) (blocked s) (kdue s) (items s) (omain s) (ohst s) v (obatch s) (orelock s) (onum s) (lq s) (lbatch s) (fin s).
Definition set_obatch v (s : state) : state := mkS (own s) (pl s) (lock s) (todo s) (wk s) (wids s) (th s) (tids s) (act s) (blocked s) (kdue s) (items s) (omain s) (ohst s) (opend s) v (orelock s) (onum s) (lq s) (lbatch s) (fin s).
Definition set_orelock v (s : state) : state := mkS (own s) (pl s) (lock s) (todo s) (wk s) (wids s) (th s) (tids s) (act s) (blocked s) (kdue s) (items s) (omain s) (ohst s) (opend s) (obatch s) v (onum s) (lq s) (lbatch s) (fin s).
Definition set_onum v (s : state) : state := mkS (own s) (pl s) (lock s) (todo s) (wk s) (wids s) (th s) (tids s) (act s) (blocked s) (kdue s) (items s) (omain s) (ohst s) (opend s) (obatch s) (orelock s) v (lq s) (lbatch s) (fin s).
Definition set_lq v (s : state) : state := mkS (own s) (pl s) (lock s) (todo s) (wk s) (wids s) (th s) (tids s) (act s) (blocked s) (kdue s) (items s) (omain s) (ohst s) (opend s) (obatch s) (orelock s) (onum s) v (lbatch s) (fin s).
Definition set_lbatch v (s : state) : state := mkS (own s) (pl s) (lock s) (todo s) (wk s) (wids s) (th s) (tids s) (act s) (blocked s) (kdue s) (items s) (omain s) (ohst s) (opend s) (obatch s) (orelock s) (onum s) (lq s) v (fin s).
Definition set_fin v (s : state) : state := mkS (own s) (pl s) (lock s) (todo s) (wk s) (wids s) (th s) (tids s) (act s) (blocked s) (kdue s) (items s) (omain s) (ohst s) (opend s) (obatch s) (orelock s) (onum s) (lq s) (lbatch s) v.

(* ---------- small helpers ---------- *)
Definition M32 : Z := 4294967296.
(* (int32_t)x *)
Definition s32 (x : Z) : Z := let y := x mod M32 in if y <? 2147483648 then y else y - M32.
(* (int32_t)(last_seq - pool->seq_head) > 0 *)
Definition more_work (last head : Z) : bool := 0 <? s32 (last - head).

Definition memb (w : nat) (l : list nat) : bool := existsb (Nat.eqb w) l.
Definition rem (w : nat) (l : list nat) : list nat := filter (fun x => negb (Nat.eqb x w)) l.
Definition omemb (e : oev) (l : list oev) : bool := existsb (oev_eqb e) l.
Definition orem (e : oev) (l : list oev) : list oev := filter (fun x => negb (oev_eqb x e)) l.
Definition nilb {A} (l : list A) : bool := match l with [] => true | _ => false end.

Definition holds (s : state) (t : nat) : bool :=
  match lock s with Some x => Nat.eqb x t | None => false end.
Definition shutb (s : state) : bool := match pl s with PLive p => pshut p | _ => false end.
Definition wpc_of (s : state) (w : nat) : wpc := wpcf (wk s w).

(* the owner is at the top of its loop (a handler that has nothing left to do has returned) *)
Definition otopb (s : state) : bool :=
  match ohst s with
  | HTop => true
  | HCompl [] => negb (shutb s)
  | HFree [] => true
  | _ => false
  end.
(* the owner may run application code (set-up, callbacks, completions, local work) *)
Definition oact_ok (s : state) : bool :=
  match ohst s with
  | HPop _ => false
  | HFree (_ :: _) => false
  | _ => true
  end.

Definition set_pool (f : pool -> pool) (s : state) : state :=
  match pl s with PLive p => set_pl (PLive (f p)) s | _ => s end.

Definition p_set_shut v p := mkPool (pmax p) v (pstarted p) (pidle p) (phead p) (ptail p) (pitems p) (pdone p).
Definition p_set_started v p := mkPool (pmax p) (pshut p) v (pidle p) (phead p) (ptail p) (pitems p) (pdone p).
Definition p_set_idle v p := mkPool (pmax p) (pshut p) (pstarted p) v (phead p) (ptail p) (pitems p) (pdone p).
Definition p_set_head v p := mkPool (pmax p) (pshut p) (pstarted p) (pidle p) v (ptail p) (pitems p) (pdone p).
Definition p_set_tail v p := mkPool (pmax p) (pshut p) (pstarted p) (pidle p) (phead p) v (pitems p) (pdone p).
Definition p_set_items v p := mkPool (pmax p) (pshut p) (pstarted p) (pidle p) (phead p) (ptail p) v (pdone p).
Definition p_set_done v p := mkPool (pmax p) (pshut p) (pstarted p) (pidle p) (phead p) (ptail p) (pitems p) v.

(* ---------- the critical sections of iv_work.c ---------- *)

(* __iv_work_thread_die (thr already off the idle list).  None = iv_fatal. *)
Definition cs_die (p : pool) (w : nat) (wr : wrec) : option (pool * list eff) :=
  if wkicked wr then None
  else if memb w (pidle p) then None
  else
    let p' := p_set_started (pstarted p - 1) p in
    Some (p', [FUnreg w; FStop] ++
              (if pshut p && (pstarted p' =? 0) then [FPostO EvWork] else [])).

(* the while loop test of iv_work_thread_got_event and the code after the loop *)
Definition cs_loop (p : pool) (w : nat) (wr : wrec) (last : Z) : option (pool * wpc * list eff) :=
  if more_work last (phead p) then
    match pitems p with
    | [] => None   (* iv_container_of(pool->work_items.next) on an empty list *)
    | i :: r => Some (p_set_items r (p_set_head ((phead p + 1) mod M32) p), WTake i last, [])
    end
  else if phead p =? ptail p then
    if negb (pshut p) then Some (p_set_idle (w :: pidle p) p, WLoop, [])
    else match cs_die p w wr with
         | None => None
         | Some (p', e) => Some (p', WDead, e)
         end
  else Some (p, WLoop, [FPostW w]).

(* iv_work_thread_got_event up to the first unlock *)
Definition cs_got (p : pool) (w : nat) (wr : wrec) : option (pool * wpc * list eff) :=
  cs_loop (p_set_idle (rem w (pidle p)) p) w (mkW (wpcf wr) false (wkpend wr)) (ptail p).

(* ... from the re-lock after work->work() to the next unlock *)
Definition cs_after (p : pool) (w : nat) (wr : wrec) (i : nat) (last : Z) : option (pool * wpc * list eff) :=
  let e0 := if nilb (pdone p) then [FPostO EvWork] else [] in
  match cs_loop (p_set_done (pdone p ++ [i]) p) w wr last with
  | None => None
  | Some (p', pc, e) => Some (p', pc, e0 ++ e)
  end.

(* iv_work_thread_idle_timeout; the timer is armed iff the thread is on the idle list *)
Definition cs_idle (p : pool) (w : nat) (wr : wrec) : option (pool * wpc * list eff) :=
  if negb (memb w (pidle p)) then None
  else if wkicked wr then Some (p, WLoop, [])
  else match cs_die (p_set_idle (rem w (pidle p)) p) w wr with
       | None => None
       | Some (p', e) => Some (p', WDead, e)
       end.

(* iv_work_submit_pool: new pool, the worker that gets `kicked`, the effects.
   None = more than 2^31 - 1 items queued (outside the quantifier). *)
Definition cs_submit (p : pool) (isown : bool) (i : nat) : option (pool * option nat * list eff) :=
  if Z.of_nat (length (pitems p)) + 1 <? 2147483648 then
    let p1 := p_set_items (pitems p ++ [i]) (p_set_tail ((ptail p + 1) mod M32) p) in
    match pidle p with
    | w :: _ => Some (p1, Some w, [FPostW w])
    | [] => if pstarted p <? pmax p then
              if isown then Some (p_set_started (pstarted p + 1) p1, None, [FCreate])
              else Some (p1, None, [FPostO EvNeeded])
            else Some (p1, None, [])
    end
  else None.

(* iv_work_thread_needed *)
Definition cs_needed (p : pool) : pool * list eff :=
  if nilb (pidle p) && (pstarted p <? pmax p) then (p_set_started (pstarted p + 1) p, [FCreate])
  else (p, []).

(* the shutdown test at the end of iv_work_event *)
Definition cs_free_test (p : pool) : bool := (pstarted p =? 0) && nilb (pdone p).

(* ---------- iv_event at its interface ---------- *)
(* iv_event_post on an event of the owner's loop by thread t *)
Definition post_o (s : state) (t : nat) (e : oev) : state :=
  if omemb e (opend s ++ obatch s) then s
  else
    let s1 := set_opend (opend s ++ [e]) s in
    if nilb (opend s) && negb (Nat.eqb t (own s)) then set_kdue (upd (kdue s) t (Some KO)) s1 else s1.

(* iv_event_post(&thr->kick) of worker w by thread t *)
Definition post_w (s : state) (t w : nat) : state :=
  let wr := wk s w in
  if wkpend wr then s
  else
    let s1 := set_wk (upd (wk s) w (mkW (wpcf wr) (wkicked wr) true)) s in
    if Nat.eqb t w then s1 else set_kdue (upd (kdue s) t (Some (KW w))) s1.

(* __iv_event_run_pending_events of the owner: the (re)lock, the steal, the pop *)
Definition dispatch_o (s : state) : option state :=
  if orelock s then
    match obatch s with
    | [] => Some (set_orelock false (set_ohst HTop s))
    | e :: r => Some (set_obatch r (set_orelock (negb (nilb r)) (set_ohst (HPop e) s)))
    end
  else
    match obatch s with
    | _ :: _ => None
    | [] =>
      match opend s with
      | [] => Some (set_ohst HTop s)
      | e :: r => Some (set_opend [] (set_obatch r (set_orelock (negb (nilb r)) (set_ohst (HPop e) s))))
      end
    end.

Definition set_wpc (w : nat) (pc : wpc) (s : state) : state :=
  let wr := wk s w in set_wk (upd (wk s) w (mkW pc (wkicked wr) (wkpend wr))) s.
Definition set_kicked (w : nat) (v : bool) (s : state) : state :=
  let wr := wk s w in set_wk (upd (wk s) w (mkW (wpcf wr) v (wkpend wr))) s.
Definition set_kpend (w : nat) (v : bool) (s : state) : state :=
  let wr := wk s w in set_wk (upd (wk s) w (mkW (wpcf wr) (wkicked wr) v)) s.
Definition set_tp (n : nat) (v : tph) (s : state) : state :=
  set_th (upd (th s) n (mkT (tk (th s n)) v)) s.
Definition set_act1 (t : nat) (a : actx) (s : state) : state := set_act (upd (act s) t a) s.
Definition set_item (i : nat) (v : ist) (s : state) : state := set_items (upd (items s) i v) s.

Definition mph_eqb (a b : mph) : bool :=
  match a, b with MSetup, MSetup | MIn, MIn | MAfter, MAfter => true | _, _ => false end.

(* the action context after the unlock of its critical section *)
Definition unlock_act (a : actx) : actx :=
  match a with
  | ASubmit i SIn => ASubmit i SAfter
  | APut SIn => APut SAfter
  | _ => a
  end.

(* ---------- steps of a thread that holds the pool lock ---------- *)
Definition step_in (s : state) (t : nat) (l : label) : option state :=
  match l with
  | LUnlock _ =>
    let s1 := set_act1 t (unlock_act (act s t)) s in
    match todo s with
    | [] => Some (set_lock None s1)
    | [FFree] => Some (set_lock None (set_todo [] (set_pl PFreed (set_onum (onum s - 2) s1))))
    | _ => None
    end
  | LEvO _ =>
    match todo s with
    | FPostO e :: r => Some (post_o (set_todo r s) t e)
    | _ => None
    end
  | LEvW _ w =>
    match todo s with
    | FPostW w' :: r => if Nat.eqb w w' then Some (post_w (set_todo r s) t w) else None
    | FUnreg w' :: r => if Nat.eqb w w' && Nat.eqb t w then Some (set_kpend w false (set_todo r s)) else None
    | _ => None
    end
  | LHookStop _ =>
    match todo s with
    | FStop :: r => Some (set_todo r s)
    | _ => None
    end
  | LTCreate _ n =>
    match todo s with
    | FCreate :: r =>
      if Nat.eqb t (own s) && negb (Nat.eqb n (own s)) && negb (memb n (tids s)) then
        Some (set_todo r (set_wk (upd (wk s) n (mkW WStart0 false false)) (set_wids (n :: wids s)
             (set_th (upd (th s) n (mkT KWorker TRun)) (set_tids (n :: tids s) (set_onum (onum s + 1) s))))))
      else None
    | _ => None
    end
  | _ => None
  end.

(* ---------- foreign submitters ---------- *)
(* a thread made by iv_thread_create from application code of the owner that is still running its start routine *)
Definition helper_runs (s : state) (t : nat) : bool :=
  match tk (th s t), tp (th s t) with KHelper, TRun => true | _, _ => false end.
(* the thread is not inside a submit / put call *)
Definition act_free (s : state) (t : nat) : bool := match act s t with ANone => true | _ => false end.
Definition is_work (pc : wpc) : bool := match pc with WWork _ _ => true | _ => false end.
(* a submitter that is neither the owner nor a thread of this pool inside a work function: for this pool a
   FOREIGN submitter (iv_work_pool_submit_continuation from a worker of another pool, from any other thread) *)
Definition foreign (s : state) (t : nat) : bool := negb (Nat.eqb t (own s)) && negb (is_work (wpc_of s t)).
(* iv_work_submit_pool as called by thread t.  API contract of a foreign submitter: the pool has not been put
   (checked here, under the lock: no put before or concurrent with the submission -- a pool thread that submits
   a continuation keeps the pool alive itself, a foreign thread does not) *)
Definition cs_submit_g (s : state) (p : pool) (t i : nat) : option (pool * option nat * list eff) :=
  if foreign s t && pshut p then None else cs_submit p (Nat.eqb t (own s)) i.

(* ---------- taking the pool lock: the whole critical section ---------- *)
Definition enter (t : nat) (e : list eff) (p' : pool) (s : state) : state :=
  set_lock (Some t) (set_todo e (set_pl (PLive p') s)).

Definition st_lock (s : state) (t : nat) : option state :=
  match pl s, lock s with
  | PLive p, None =>
    match act s t with
    | ASubmit i SBefore =>
      match cs_submit_g s p t i with
      | None => None
      | Some (p', kw, e) =>
        let s1 := enter t e p' (set_act1 t (ASubmit i SIn) s) in
        Some (match kw with Some w => set_kicked w true s1 | None => s1 end)
      end
    | APut SBefore =>
      (* iv_work_pool_put (after fix D10, /repo commit eb5cf18): with no thread started and work queued (a foreign
         submitter found the pool without threads and only posted thread_needed) a thread is started under the lock,
         like in the owner's submit, and pool->ev is not posted; with nothing queued pool->ev is posted after the unlock *)
      if Nat.eqb t (own s) then
        if pstarted p =? 0 then
          if nilb (pitems p) then Some (enter t [] (p_set_shut true p) (set_act1 t (APut SPost) s))
          else Some (enter t [FCreate] (p_set_started (pstarted p + 1) (p_set_shut true p)) (set_act1 t (APut SIn) s))
        else Some (enter t (map FPostW (pidle p)) (p_set_shut true p) (set_act1 t (APut SIn) s))
      else None
    | ANone =>
      if Nat.eqb t (own s) then
        match ohst s with
        | HPop EvWork =>          (* iv_work_event: steal work_done *)
          Some (enter t [] (p_set_done [] p) (set_ohst (HCompl (pdone p)) s))
        | HPop EvNeeded =>        (* iv_work_thread_needed *)
          let '(p', e) := cs_needed p in Some (enter t e p' (set_ohst HTop s))
        | HCompl [] =>            (* iv_work_event: if (pool->shutting_down) *)
          if pshut p then
            if cs_free_test p then
              Some (enter t [FFree] p (set_ohst (HFree [EvWork; EvNeeded]) s))
            else Some (enter t [] p (set_ohst HTop s))
          else None
        | _ => None
        end
      else
        let wr := wk s t in
        let r := match wpcf wr with
                 | WGot => cs_got p t wr
                 | WRet i last => cs_after p t wr i last
                 | WLoop => cs_idle p t wr
                 | _ => None
                 end in
        match r with
        | None => None
        | Some (p', pc, e) =>
          let k := match wpcf wr with WGot => false | _ => wkicked wr end in
          Some (enter t e p' (set_wk (upd (wk s) t (mkW pc k (wkpend wr))) s))
        end
    | _ => None
    end
  | _, _ => None
  end.

(* ---------- steps of a thread that does not hold the pool lock ---------- *)
Definition own_may_act (s : state) (t : nat) : bool :=
  Nat.eqb t (own s) && oact_ok s && negb (mph_eqb (omain s) MAfter).

Definition st_submit (s : state) (t i : nat) : option state :=
  match pl s, items s i, act s t with
  | PLive p, IIdle, ANone =>
    if negb (pshut p) && (own_may_act s t || is_work (wpc_of s t) || helper_runs s t) then
      Some (set_item i IQ (set_act1 t (ASubmit i SBefore) s))
    else None
  | _, _, _ => None
  end.

Definition st_evo (s : state) (t : nat) : option state :=
  if Nat.eqb t (own s) then
    match act s t with
    | APut SPost => Some (post_o (set_act1 t (APut SAfter) s) t EvWork)
    | ANone =>
      match ohst s with
      | HFree (e :: l) =>   (* iv_event_unregister: lock, unlink if pending, unlock *)
        Some (set_opend (orem e (opend s)) (set_obatch (orem e (obatch s)) (set_ohst (HFree l) s)))
      | _ => if otopb s && mph_eqb (omain s) MIn then dispatch_o s else None
      end
    | _ => None
    end
  else
    (* iv_thread_destructor: the thread has left its start routine *)
    let r := th s t in
    let ok := match tk r, tp r with
              | KWorker, TRun => match wpc_of s t with WDead => true | _ => false end
              | KHelper, TRun | KHelper, TExiting => act_free s t    (* not from inside a submit call *)
              | _, _ => false
              end in
    if ok then Some (post_o (set_tp t TPosted s) t (EvDead t)) else None.

Definition st_evw (s : state) (t w : nat) : option state :=
  if Nat.eqb t w then
    match wpc_of s w with
    | WStart1 => if wkpend (wk s w) then None else Some (set_wk (upd (wk s) w (mkW WLoop (wkicked (wk s w)) true)) s)
    | WLoop => if wkpend (wk s w) then Some (set_wk (upd (wk s) w (mkW WGot (wkicked (wk s w)) false)) s) else None
    | _ => None
    end
  else None.

Definition own_idle_ctx (s : state) (t : nat) : bool :=
  Nat.eqb t (own s) && match act s t with ANone => true | _ => false end.

Definition st_work (s : state) (t i : nat) : option state :=
  match items s i with
  | IQ =>
    match wpc_of s t with
    | WTake i' last => if Nat.eqb i i' then Some (set_item i IW (set_wpc t (WWork i last) s)) else None
    | _ => None
    end
  | ILQ =>
    (* iv_work_handle_local, run from the thread's task *)
    if own_idle_ctx s t && mph_eqb (omain s) MIn then
      match ohst s, lbatch s with
      | HLocal, j :: _ => if Nat.eqb i j then Some (set_item i ILW s) else None
      | HLocal, [] => None
      | _, _ :: _ => None
      | _, [] =>
        if otopb s && negb (orelock s) then
          match lq s with
          | j :: _ => if Nat.eqb i j then Some (set_item i ILW (set_lbatch (lq s) (set_lq [] (set_ohst HLocal s)))) else None
          | [] => None
          end
        else None
      end
    else None
  | _ => None
  end.

Definition st_ret (s : state) (t i : nat) : option state :=
  match items s i, act s t with
  | IW, ANone =>
    match wpc_of s t with
    | WWork i' last => if Nat.eqb i i' then Some (set_item i IR (set_wpc t (WRet i last) s)) else None
    | _ => None
    end
  | ILW, ANone =>
    match ohst s, lbatch s with
    | HLocal, j :: _ => if Nat.eqb t (own s) && Nat.eqb i j then Some (set_item i ILR s) else None
    | _, _ => None
    end
  | _, _ => None
  end.

Definition st_compl (s : state) (t i : nat) : option state :=
  if own_idle_ctx s t then
    match items s i, ohst s with
    | IR, HCompl (j :: l) => if Nat.eqb i j then Some (set_item i IIdle (set_ohst (HCompl l) s)) else None
    | ILR, HLocal =>
      match lbatch s with
      | j :: r => if Nat.eqb i j then
                    Some (set_item i IIdle (set_lbatch r (set_ohst (if nilb r then HTop else HLocal) s)))
                  else None
      | [] => None
      end
    | _, _ => None
    end
  else None.

(* what QUIESCENT means: every thread is blocked in a wait without a deadline (no worker has its
   idle timer armed) or has finished, no event is posted and undelivered, no task is registered; the
   owner is blocked only with events registered on its loop (iv_main returns when numobjs = 0, and
   pending user timers would be a deadline) *)
Definition quiet_thread (s : state) (n : nat) : bool :=
  match tk (th s n) with
  | KWorker =>
    match wpc_of s n with
    | WLoop => blocked s n && negb (wkpend (wk s n)) &&
               match pl s with PLive p => negb (memb n (pidle p)) | _ => true end
    | WDead => match tp (th s n) with TFin | TJoined => true | _ => false end
    | _ => false
    end
  | KHelper => match tp (th s n) with TFin | TJoined => true | _ => false end
  | KNone => false
  end.

Definition quiescent (s : state) : bool :=
  match lock s with None => true | Some _ => false end &&
  blocked s (own s) && (0 <? onum s) && otopb s && negb (orelock s) &&
  match act s (own s) with ANone => true | _ => false end &&
  nilb (opend s) && nilb (obatch s) && nilb (lq s) && nilb (lbatch s) &&
  forallb (quiet_thread s) (tids s).

Definition step_out (s : state) (t : nat) (l : label) : option state :=
  match l with
  | LCreate _ mx =>
    match pl s, act s t with
    | PNone, ANone => if own_may_act s t && (1 <=? mx) then
                        Some (set_pl (PLive (mkPool mx false 0 [] 0 0 [] [])) (set_onum (onum s + 2) s))
                      else None
    | _, _ => None
    end
  | LSubmit _ i => st_submit s t i
  | LLocal _ i =>
    match items s i, act s t with
    | IIdle, ANone => if own_may_act s t then Some (set_item i ILQ (set_lq (lq s ++ [i]) s)) else None
    | _, _ => None
    end
  | LPut _ =>
    match pl s, act s t with
    | PLive p, ANone => if own_may_act s t && negb (pshut p) then Some (set_act1 t (APut SBefore) s) else None
    | _, _ => None
    end
  | LEnd _ =>
    match act s t with
    | ASubmit _ SAfter | APut SAfter => Some (set_act1 t ANone s)
    | _ => None
    end
  | LCallback _ =>
    if own_idle_ctx s t && mph_eqb (omain s) MIn && otopb s && negb (orelock s) then Some (set_ohst HTop s) else None
  | LLock _ => st_lock s t
  | LEvO _ => st_evo s t
  | LEvW _ w => st_evw s t w
  | LWork _ i => st_work s t i
  | LRet _ i => st_ret s t i
  | LCompl _ i => st_compl s t i
  | LHookStart _ => match wpc_of s t with WStart0 => Some (set_wpc t WStart1 s) | _ => None end
  | LTCreate _ n =>
    (* iv_thread_create from application code of the owner: a helper thread *)
    match act s t with
    | ANone => if own_may_act s t && negb (Nat.eqb n (own s)) && negb (memb n (tids s)) then
                 Some (set_th (upd (th s) n (mkT KHelper TRun)) (set_tids (n :: tids s) (set_onum (onum s + 1) s)))
               else None
    | _ => None
    end
  | LTExit _ => match tk (th s t), tp (th s t) with KHelper, TRun => Some (set_tp t TExiting s) | _, _ => None end
  | LTFin _ => match tp (th s t) with TPosted => Some (set_tp t TFin s) | _ => None end
  | LTJoin _ n =>
    (* iv_thread_died: pthr_join, iv_event_unregister(&thr->dead), free *)
    match ohst s with
    | HPop (EvDead m) =>
      if own_idle_ctx s t && Nat.eqb n m && match tp (th s n) with TFin => true | _ => false end then
        Some (set_tp n TJoined (set_onum (onum s - 1) (set_ohst (HFree [EvDead n]) s)))
      else None
    | _ => None
    end
  | LBlock _ =>
    if Nat.eqb t (own s) then
      if own_idle_ctx s t && mph_eqb (omain s) MIn && otopb s && negb (orelock s) then
        Some (set_blocked (upd (blocked s) t true) (set_ohst HTop s))
      else None
    else match wpc_of s t with
         | WLoop => Some (set_blocked (upd (blocked s) t true) s)
         | _ => None
         end
  | LMain _ => if own_idle_ctx s t && mph_eqb (omain s) MSetup then Some (set_omain MIn s) else None
  | LMainEnd _ =>
    (* iv_main returns only with numobjs = 0 *)
    if own_idle_ctx s t && mph_eqb (omain s) MIn && otopb s && negb (orelock s) && (onum s =? 0)
       && nilb (lq s) && nilb (lbatch s) then Some (set_omain MAfter (set_ohst HTop s))
    else None
  | _ => None
  end.

Definition step (s : state) (l : label) : option state :=
  if fin s || mph_eqb (omain s) MAfter then
    (* the run is over; after iv_main of the owner has returned only D follows *)
    match l with LDone => if negb (fin s) then Some (set_fin true s) else None | _ => None end
  else match lthr l with
  | None =>
    match l with
    | LQuiescent => if quiescent s then Some (set_fin true s) else None
    | LDone => if mph_eqb (omain s) MAfter then Some (set_fin true s) else None
    | _ => None
    end
  | Some t =>
    if blocked s t then
      match l with LWake _ => Some (set_blocked (upd (blocked s) t false) s) | _ => None end
    else match kdue s t with
    | Some tg =>
      match l, tg with
      | LKickO _, KO => Some (set_kdue (upd (kdue s) t None) s)
      | LKickW _ w, KW w' => if Nat.eqb w w' then Some (set_kdue (upd (kdue s) t None) s) else None
      | _, _ => None
      end
    | None => if holds s t then step_in s t l else step_out s t l
    end
  end.

Fixpoint run (s : state) (tr : list label) : option state :=
  match tr with
  | [] => Some s
  | l :: r => match step s l with Some s' => run s' r | None => None end
  end.

Definition accepts (o : nat) (tr : list label) : bool :=
  match run (init o) tr with Some _ => true | None => false end.
