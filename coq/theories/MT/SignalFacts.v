(* SignalFacts.v -- the C10 property lemmas over reachable states / accepted label sequences. *)
From Coq Require Import List ZArith Bool Lia.
From Ivv Require Import MT.SignalModel MT.SignalProofs.
Import ListNotations.
Local Open Scope Z_scope.

Lemma reachable_step : forall s l s', reachable s -> step s l = Some s' -> reachable s'.
Proof.
  intros s l s' [ls H] Hs. exists (ls ++ [l]).
  assert (G : forall xs a, run a xs = Some s -> run a (xs ++ [l]) = Some s').
  { induction xs as [|x r IH]; simpl; intros a Ha.
    - inversion Ha; subst. rewrite Hs. reflexivity.
    - destruct (step a x); [apply IH; exact Ha|discriminate]. }
  apply G. exact H.
Qed.

Lemma run_app : forall xs ys s, run s (xs ++ ys) = match run s xs with Some s1 => run s1 ys | None => None end.
Proof.
  induction xs as [|x r IH]; simpl; intros; [reflexivity|]. destruct (step s x); [apply IH|reflexivity].
Qed.

Lemma reachable_run : forall s ls s', reachable s -> run s ls = Some s' -> reachable s'.
Proof.
  intros s ls s' [l0 H0] H. exists (l0 ++ ls). rewrite run_app, H0. exact H.
Qed.

Theorem reachable_ind_inv : forall P : state -> Prop,
  P init -> (forall s l s', reachable s -> P s -> step s l = Some s' -> P s') -> forall s, reachable s -> P s.
Proof.
  intros P H0 HS s [ls H].
  assert (G : forall xs a, reachable a -> P a -> run a xs = Some s -> P s).
  { induction xs as [|x r IH]; simpl; intros a Ra Pa Ha.
    - inversion Ha; subst. exact Pa.
    - destruct (step a x) eqn:E; [|discriminate]. eapply IH; [eapply reachable_step; eauto|eapply HS; eauto|exact Ha]. }
  apply (G ls init); [exists []; reflexivity|exact H0|exact H].
Qed.

(* ---------- the selection ---------- *)
Lemma sel_in : forall cs id, In id (sel cs) -> exists r, In r cs /\ i_id r = id.
Proof.
  unfold sel. intros cs id H. destruct (filter i_excl cs) as [|e es] eqn:E.
  - apply in_map_iff in H. destruct H as [r [E1 Hr]]. exists r. split; assumption.
  - destruct H as [<-|[]]. exists e. split; [|reflexivity].
    assert (In e (filter i_excl cs)) by (rewrite E; left; reflexivity). apply filter_In in H. apply H.
Qed.

Lemma sel_nonempty : forall cs, cs <> [] -> sel cs <> [].
Proof.
  unfold sel. intros cs H. destruct (filter i_excl cs); [|discriminate]. destruct cs; [contradiction|simpl; discriminate].
Qed.

Lemma filter_head_split : forall (f : irec -> bool) l e es, filter f l = e :: es ->
  exists pre post, l = pre ++ e :: post /\ f e = true /\ (forall x, In x pre -> f x = false).
Proof.
  induction l as [|x t IH]; simpl; intros e es H; [discriminate|].
  destruct (f x) eqn:Ex.
  - inversion H; subst. exists [], t. repeat split; auto. intros y [].
  - destruct (IH e es H) as [pre [post [-> [He Hp]]]]. exists (x :: pre), post. repeat split; auto.
    intros y [<-|Hy]; [exact Ex|apply Hp; exact Hy].
Qed.

(* the documented selection, spelled out *)
Lemma sel_spec : forall cs,
  (forall e, In e cs -> i_excl e = false) /\ sel cs = map i_id cs \/
  (exists pre e post, cs = pre ++ e :: post /\ i_excl e = true /\ (forall x, In x pre -> i_excl x = false) /\ sel cs = [i_id e]).
Proof.
  intros cs. unfold sel. destruct (filter i_excl cs) as [|e es] eqn:E.
  - left. split; [|reflexivity]. intros x Hx. destruct (i_excl x) eqn:Ex; [|reflexivity].
    assert (In x (filter i_excl cs)) by (apply filter_In; split; assumption). rewrite E in H. contradiction.
  - right. destruct (filter_head_split _ _ _ _ E) as [pre [post [-> [He Hp]]]]. exists pre, e, post. repeat split; auto.
Qed.

Lemma sel_plan_scope : forall sc sig l id, In id (sel_plan sc sig l) ->
  exists r, In r l /\ i_id r = id /\ i_sig r = sig /\ in_scope sc r = true.
Proof.
  unfold sel_plan, cands. intros sc sig l id H. apply sel_in in H. destruct H as [r [Hr Hid]].
  apply filter_In in Hr. destruct Hr as [Hr Hc]. apply andb_true_iff in Hc. destruct Hc as [Hs Hg].
  exists r. repeat split; auto. apply Z.eqb_eq. exact Hg.
Qed.

(* ---------- owner pid ---------- *)
Lemma owner_when_registered : forall s, reachable s -> regs s <> [] -> owner s = true.
Proof.
  intros s R. pattern s. revert s R. apply reachable_ind_inv.
  - intros H. exfalso. apply H. reflexivity.
  - intros s l s' R IH H. destruct l; simpl in H; dmatch H; inversion H; subst; clear H; simpl; auto;
      try (intro Hne; apply IH; intro Hn; apply Hne; unfold upd_rec, remove; rewrite Hn; reflexivity).
Qed.

(* ---------- C10_fanout ---------- *)
Lemma fanout_enter : forall s t sig s', reachable s -> regs s <> [] ->
  step s (LSigEnter t sig false) = Some s' ->
  regs s' = regs s /\
  stg s' t = match sel_plan (Some t) sig (regs s) with [] => SNeedLock sig | p => SThr p end.
Proof.
  intros s t sig s' R Hne H. pose proof (owner_when_registered s R Hne) as Ho.
  destruct (reachable_inv s R) as [HR _]. cbn [step] in H. rewrite Ho in H.
  rewrite (wake_plan_sel _ _ _ (inv_sorted s HR)) in H.
  match type of H with (if ?c then _ else _) = _ => destruct c; [|discriminate] end.
  cbn [orb negb] in H.
  destruct (sel_plan (Some t) sig (regs s)); inversion H; subst; simpl; rewrite upd_same; split; reflexivity.
Qed.

Lemma fanout_lock : forall s t sig s', reachable s -> stg s t = SNeedLock sig ->
  step s (LLock t) = Some s' -> regs s' = regs s /\ stg s' t = SProc (sel_plan None sig (regs s)) /\ lock s' = Some t.
Proof.
  intros s t sig s' R Hst H. destruct (reachable_inv s R) as [HR _]. simpl in H. rewrite Hst in H.
  destruct (lock s); [discriminate|]. inversion H; subst. simpl. rewrite upd_same.
  rewrite (wake_plan_sel _ _ _ (inv_sorted s HR)). repeat split.
Qed.

(* a post is exactly the head of the selection still to be woken: marks it active and posts its raw event *)
Lemma fanout_post : forall s t id s', step s (LPost t id) = Some s' ->
  regs s' = upd_rec id set_post (regs s) /\
  exists p, (stg s t = SThr (id :: p) /\ stg s' t = SThr p) \/ (stg s t = SProc (id :: p) /\ stg s' t = SProc p) \/
            (stg s t = SUnreg (id :: p) /\ stg s' t = SUnreg p).
Proof.
  intros s t id s' H. simpl in H. dmatch H; inversion H; subst; clear H; zb; subst; simpl; rewrite upd_same;
    (split; [reflexivity|]); eexists; [left|right; left|right; right]; split; reflexivity.
Qed.

(* the handler cannot leave before the whole selection is posted, and cannot post anything else *)
Lemma fanout_exit : forall s t s', step s (LSigExit t) = Some s' -> stg s t = SThr [] \/ stg s t = SExit.
Proof. intros s t s' H. simpl in H. dmatch H; auto. Qed.

Lemma fanout_unlock : forall s t s', step s (LUnlock t) = Some s' ->
  stg s t = SIdle \/ stg s t = SProc [] \/ stg s t = SUnreg [].
Proof. intros s t s' H. simpl in H. dmatch H; auto. Qed.

(* ---------- C10_default_restored ---------- *)
Lemma default_restored : forall s sig, reachable s ->
  total s sig = count_sig sig (regs s) /\ (disp s sig = false <-> total s sig = 0).
Proof.
  intros s sig R. destruct (reachable_inv s R) as [HR _]. split; [apply (inv_total s HR)|].
  rewrite (inv_disp s HR), (inv_total s HR). rewrite negb_false_iff. apply Z.eqb_eq.
Qed.

(* ---------- C10_fork_isolated ---------- *)
Lemma fork_isolated : forall s t sig s', step s (LSigEnter t sig true) = Some s' ->
  regs s' = regs s /\ stg s' t = SExit /\ forall id, step s' (LPost t id) = None.
Proof.
  intros s t sig s' H. cbn [step] in H.
  match type of H with (if ?c then _ else _) = _ => destruct c; [|discriminate] end.
  cbn [orb] in H. inversion H; subst. simpl. rewrite upd_same. repeat split.
Qed.

Lemma child_reset_empty : forall s,
  regs (child_reset_postfork s) = [] /\ owner (child_reset_postfork s) = false /\
  (forall sg, total (child_reset_postfork s) sg = 0) /\
  (forall sg, 0 < total s sg -> disp (child_reset_postfork s) sg = false).
Proof.
  intro s. repeat split. intros sg H. simpl. apply Z.ltb_lt in H. rewrite H. reflexivity.
Qed.

(* ---------- C10_exclusive_handoff ---------- *)
Lemma handoff_wake_plan : forall b r rest, sorted rest -> handoff_wake b r rest = handoff_plan b r rest.
Proof.
  intros b r rest Hs. unfold handoff_wake, handoff_plan. rewrite !(wake_plan_sel _ _ _ Hs). reflexivity.
Qed.

Lemma sel_plan_nonempty : forall sc sig l r', In r' l -> i_sig r' = sig -> in_scope sc r' = true -> sel_plan sc sig l <> [].
Proof.
  intros sc sig l r' Hin Hsig Hsc. unfold sel_plan. apply sel_nonempty. intro He.
  assert (Hc : In r' (cands sc sig l)).
  { unfold cands. apply filter_In. split; [assumption|]. rewrite Hsc. simpl. apply Z.eqb_eq. assumption. }
  rewrite He in Hc. contradiction.
Qed.

(* what the unregistration of an active exclusive interest does when another interest for the signal remains *)
Lemma handoff_step : forall s t id sa s' r r', reachable s ->
  step s (LUnreg t id sa) = Some s' -> find id (regs s) = Some r ->
  i_excl r = true -> i_active r = true -> In r' (regs s) -> i_id r' <> id -> i_sig r' = i_sig r ->
  stg s' t = SUnreg (handoff_plan true r (remove id (regs s))) /\ regs s' = remove id (regs s) /\
  In r' (remove id (regs s)).
Proof.
  intros s t id sa s' r r' R H Hf Hx Ha Hin' Hid' Hsig'.
  destruct (reachable_inv s R) as [HR _]. simpl in H. rewrite Hf in H.
  destruct (holds s t && is_idle (stg s t)); [|discriminate]. destruct (i_thr r =? t); [|discriminate].
  assert (Hin2 : In r' (remove id (regs s))).
  { unfold remove. apply filter_In. split; [assumption|]. apply negb_true_iff. apply Z.eqb_neq. assumption. }
  assert (Hn : total s (i_sig r) - 1 =? 0 = false).
  { apply Z.eqb_neq. rewrite (inv_total s HR).
    pose proof (count_remove (i_sig r) id r (regs s) (inv_nodup s HR) Hf) as Hc. rewrite Z.eqb_refl in Hc.
    pose proof (count_pos_in (i_sig r) r' _ Hin2 Hsig'). lia. }
  rewrite Hn in H. destruct (osb_eqb sa None); [|discriminate]. rewrite Hx, Ha in H. simpl in H.
  inversion H; subst; clear H. simpl. rewrite upd_same.
  rewrite (handoff_wake_plan true r _ (sorted_remove _ _ (inv_sorted s HR))). auto.
Qed.

(* same tree: the selection among the remaining interests of that tree *)
Lemma handoff_same_scope : forall s t id sa s' r r', reachable s ->
  step s (LUnreg t id sa) = Some s' -> find id (regs s) = Some r ->
  i_excl r = true -> i_active r = true ->
  In r' (regs s) -> i_id r' <> id -> i_sig r' = i_sig r -> in_scope (scope_of r) r' = true ->
  exists p, stg s' t = SUnreg p /\ p = sel_plan (scope_of r) (i_sig r) (remove id (regs s)) /\ p <> [] /\
            regs s' = remove id (regs s).
Proof.
  intros s t id sa s' r r' R H Hf Hx Ha Hin' Hid' Hsig' Hsc'.
  destruct (handoff_step s t id sa s' r r' R H Hf Hx Ha Hin' Hid' Hsig') as [A [B C]].
  pose proof (sel_plan_nonempty (scope_of r) (i_sig r) _ r' C Hsig' Hsc') as Hne.
  exists (sel_plan (scope_of r) (i_sig r) (remove id (regs s))). repeat split; auto.
  rewrite A. unfold handoff_plan. destruct (sel_plan (scope_of r) (i_sig r) (remove id (regs s))); [contradiction|reflexivity].
Qed.

(* full strength: the delivery goes to the next interest in the order "this-thread first, then process-wide" --
   what iv_signal_handler itself would have chosen without the unregistered interest -- and is never dropped *)
Definition handoff_full_strength : Prop :=
  forall s t id sa s' r r', reachable s -> step s (LUnreg t id sa) = Some s' -> find id (regs s) = Some r ->
    i_excl r = true -> i_active r = true ->
    In r' (regs s) -> i_id r' <> id -> i_sig r' = i_sig r -> (in_scope (scope_of r) r' = true \/ i_tt r' = false) ->
    exists p, stg s' t = SUnreg p /\ p <> [] /\ regs s' = remove id (regs s) /\
      p = match sel_plan (scope_of r) (i_sig r) (remove id (regs s)) with
          | [] => sel_plan None (i_sig r) (remove id (regs s))
          | q => q
          end.

Theorem handoff_any_scope : handoff_full_strength.
Proof.
  intros s t id sa s' r r' R H Hf Hx Ha Hin' Hid' Hsig' Hsc'.
  destruct (handoff_step s t id sa s' r r' R H Hf Hx Ha Hin' Hid' Hsig') as [A [B C]].
  exists (handoff_plan true r (remove id (regs s))). split; [exact A|]. unfold handoff_plan.
  destruct (sel_plan (scope_of r) (i_sig r) (remove id (regs s))) as [|q qs] eqn:Es.
  - (* nobody in its own tree: then r' is process-wide; if r is process-wide too this contradicts Es *)
    assert (Hpw : i_tt r' = false).
    { destruct Hsc' as [Hsc'|Hsc']; [|exact Hsc']. exfalso.
      apply (sel_plan_nonempty (scope_of r) (i_sig r) _ r' C Hsig' Hsc'). exact Es. }
    assert (Hnone : in_scope None r' = true) by (simpl; rewrite Hpw; reflexivity).
    destruct (i_tt r) eqn:Et.
    + simpl. split; [apply (sel_plan_nonempty None (i_sig r) _ r' C Hsig' Hnone)|auto].
    + exfalso. unfold scope_of in Es. rewrite Et in Es. apply (sel_plan_nonempty None (i_sig r) _ r' C Hsig' Hnone). exact Es.
  - split; [discriminate|auto].
Qed.

(* ---------- C10_every_delivery_handled ---------- *)
(* G2: a marked interest has an unread post, or its event callback is between the read and the clearing *)
Lemma marked_is_owed : forall s r, reachable s -> In r (regs s) -> i_active r = true ->
  0 < i_cnt r \/ i_phase r = POwed.
Proof. intros s r R Hin Ha. destruct (reachable_inv s R) as [HR _]. apply (inv_g2 s HR r Hin). exact Ha. Qed.

Lemma quiet_thread_spec : forall t l r, quiet_thread t l = true -> In r l -> i_thr r = t ->
  i_cnt r = 0 /\ i_phase r = PIdle.
Proof.
  unfold quiet_thread. intros t l r H Hin Ht. rewrite forallb_forall in H. specialize (H r Hin).
  rewrite Ht, Z.eqb_refl in H. simpl in H. apply andb_true_iff in H. destruct H as [H1 H2]. split.
  - apply Z.eqb_eq. exact H1.
  - destruct (i_phase r); try discriminate. reflexivity.
Qed.

(* a thread that blocks has no marked interest *)
Lemma block_nothing_marked : forall s t s' r, reachable s -> step s (LBlock t) = Some s' ->
  In r (regs s) -> i_thr r = t -> i_active r = false.
Proof.
  intros s t s' r R H Hin Ht. simpl in H. destruct (is_idle (stg s t) && quiet_thread t (regs s)) eqn:E; [|discriminate].
  apply andb_true_iff in E. destruct E as [_ Hq]. destruct (quiet_thread_spec _ _ _ Hq Hin Ht) as [Hc Hp].
  destruct (i_active r) eqn:Ha; [|reflexivity]. destruct (marked_is_owed s r R Hin Ha) as [H1|H1]; [lia|].
  rewrite Hp in H1. discriminate.
Qed.

Definition pending (s : state) (t id : Z) : Prop :=
  exists r, find id (regs s) = Some r /\ i_thr r = t /\ (0 < i_cnt r \/ i_phase r <> PIdle).

Definition serves (id : Z) (l : label) : bool :=
  match l with
  | LHandler _ i => i =? id
  | LUnreg _ i _ => i =? id
  | _ => false
  end.

Lemma find_upd_keep : forall f id id' l r, keeps f -> find id l = Some r ->
  exists r', find id (upd_rec id' f l) = Some r' /\ (id <> id' -> r' = r) /\ (id = id' -> r' = f r).
Proof.
  intros f id id' l r Hk Hf. rewrite find_upd_rec by assumption. rewrite Hf. destruct (id =? id') eqn:E; zb.
  - exists (f r). split; [reflexivity|]. split; intro; [contradiction|reflexivity].
  - exists r. split; [reflexivity|]. split; intro; [reflexivity|contradiction].
Qed.

Lemma pending_step : forall s t id l s', Inv s -> pending s t id -> step s l = Some s' -> serves id l = false ->
  pending s' t id.
Proof.
  intros s t id l s' HI [r [Hf [Ht Hp]]] H Hs. unfold pending.
  destruct l; simpl in H, Hs.
  - dmatch H; inversion H; subst; exists r; auto.
  - dmatch H; inversion H; subst; exists r; auto.
  - dmatch H; inversion H; subst; clear H; simpl; exists r; (split; [|auto]);
      rewrite find_insert by (simpl; assumption); simpl;
      (destruct (id0 =? id) eqn:Ei; [|assumption]); zb; subst; rewrite Hf in E0; discriminate.
  - dmatch H; inversion H; subst; clear H; simpl; exists r; (split; [|auto]);
      rewrite find_remove; rewrite Z.eqb_sym, Hs; assumption.
  - dmatch H; inversion H; subst; exists r; auto.
  - dmatch H; inversion H; subst; exists r; auto.
  - assert (G : pending (do_post s id0) t id).
    { destruct (find_upd_keep set_post id id0 (regs s) r keeps_post Hf) as [r' [Hf' [Hne Heq]]].
      exists r'. split; [exact Hf'|]. destruct (Z.eq_dec id id0) as [E|E].
      - rewrite (Heq E). simpl. split; [assumption|]. left.
        destruct HI as [HR _]. destruct (find_in _ _ _ Hf) as [Hin _]. destruct (inv_g2 s HR r Hin). lia.
      - rewrite (Hne E). auto. }
    dmatch H; inversion H; subst; exact G.
  - dmatch H; inversion H; subst; exists r; auto.
  - dmatch H; inversion H; subst; clear H; [|exists r; auto]. simpl.
    destruct (find_upd_keep set_read id id0 (regs s) r keeps_read Hf) as [r' [Hf' [Hne Heq]]].
    exists r'. split; [exact Hf'|]. destruct (Z.eq_dec id id0) as [Ee|Ee].
    + rewrite (Heq Ee). simpl. split; [reflexivity|right; discriminate].
    + rewrite (Hne Ee). auto.
  - dmatch H; inversion H; subst; clear H. simpl.
    destruct (find_upd_keep set_clear id id0 (regs s) r keeps_clear Hf) as [r' [Hf' [Hne Heq]]].
    exists r'. split; [exact Hf'|]. destruct (Z.eq_dec id id0) as [Ee|Ee].
    + rewrite (Heq Ee). simpl. split; [reflexivity|right; discriminate].
    + rewrite (Hne Ee). auto.
  - dmatch H; inversion H; subst; clear H. simpl.
    destruct (find_upd_keep set_idle id id0 (regs s) r keeps_idle Hf) as [r' [Hf' [Hne Heq]]].
    exists r'. split; [exact Hf'|]. destruct (Z.eq_dec id id0) as [Ee|Ee].
    + subst. rewrite Z.eqb_refl in Hs. discriminate.
    + rewrite (Hne Ee). auto.
  - dmatch H; inversion H; subst; exists r; auto.
  - dmatch H; inversion H; subst; exists r; auto.
  - dmatch H; inversion H; subst; exists r; auto.
Qed.

Lemma pending_run : forall ls s t id s', Inv s -> pending s t id -> run s ls = Some s' ->
  forallb (fun l => negb (serves id l)) ls = true -> pending s' t id.
Proof.
  induction ls as [|l r IH]; simpl; intros s t id s' HI Hp H Hs.
  - inversion H; subst. exact Hp.
  - destruct (step s l) eqn:E; [|discriminate]. apply andb_true_iff in Hs. destruct Hs as [H1 H2].
    apply negb_true_iff in H1. eapply IH; [eapply step_inv; eauto|eapply pending_step; eauto|exact H|exact H2].
Qed.

(* every post to an interest of thread t -- from a delivery or a hand-off, also one that arrives while the
   handler runs -- is followed by a run of its handler, or by its unregistration, before t can block *)
Theorem every_delivery_handled : forall s u id s1 r ls s2 s3,
  reachable s -> step s (LPost u id) = Some s1 -> find id (regs s1) = Some r ->
  run s1 ls = Some s2 -> step s2 (LBlock (i_thr r)) = Some s3 ->
  existsb (serves id) ls = true.
Proof.
  intros s u id s1 r ls s2 s3 R HP Hf Hrun Hb.
  destruct (existsb (serves id) ls) eqn:Ex; [reflexivity|exfalso].
  assert (Hall : forallb (fun l => negb (serves id l)) ls = true).
  { clear -Ex. induction ls as [|l t IH]; simpl in *; [reflexivity|]. apply orb_false_iff in Ex. destruct Ex as [-> E2]. simpl. apply IH, E2. }
  pose proof (reachable_inv s R) as HI. pose proof (step_inv _ _ _ HI HP) as HI1.
  assert (Hp1 : pending s1 (i_thr r) id).
  { exists r. split; [exact Hf|]. split; [reflexivity|]. left.
    destruct (fanout_post _ _ _ _ HP) as [Hregs _]. rewrite Hregs in Hf.
    rewrite find_upd_rec in Hf by apply keeps_post. rewrite Z.eqb_refl in Hf.
    destruct (find id (regs s)) as [r0|] eqn:E0; [|discriminate]. simpl in Hf. inversion Hf; subst. simpl.
    destruct HI as [HR _]. destruct (find_in _ _ _ E0) as [Hin _]. destruct (inv_g2 s HR r0 Hin). lia. }
  destruct (pending_run ls s1 _ id s2 HI1 Hp1 Hrun Hall) as [r2 [Hf2 [Ht2 Hp2]]].
  simpl in Hb. destruct (is_idle (stg s2 (i_thr r)) && quiet_thread (i_thr r) (regs s2)) eqn:E; [|discriminate].
  apply andb_true_iff in E. destruct E as [_ Hq]. destruct (find_in _ _ _ Hf2) as [Hin2 _].
  destruct (quiet_thread_spec _ _ _ Hq Hin2 Ht2) as [Hc Hph]. destruct Hp2 as [Hp2|Hp2]; [lia|contradiction].
Qed.

(* ---------- D5 (fixed in /repo): regression knowledge ---------- *)
(* interest 1: exclusive, process-wide; interest 2: exclusive, this-thread; a delivery marks 2 (thread set first);
   2 is unregistered before its handler ran.  The code BEFORE the fix (step_gen false) posts nothing, unlocks and
   lets the thread block: it accepts this trace, which the full-strength monitor rejects.  The current code
   (step_gen true) does not accept it: it hands the delivery to interest 1 (d5_fixed_trace). *)
Definition d5_prefix : list label :=
  [LMask 0 true; LLock 0; LSaMask 0 10 true; LReg 0 1 10 true false 1000 (Some true); LUnlock 0; LMask 0 false;
   LMask 0 true; LLock 0; LReg 0 2 10 true true 2000 None; LUnlock 0; LMask 0 false;
   LSigEnter 0 10 false; LPost 0 2; LSigExit 0;
   LMask 0 true; LLock 0].
Definition d5_trace : list label := d5_prefix ++ [LUnreg 0 2 None; LUnlock 0; LMask 0 false; LBlock 0].
Definition d5_fixed_trace : list label :=
  d5_prefix ++ [LUnreg 0 2 None; LPost 0 1; LUnlock 0; LMask 0 false;
                LRead 0 1; LMask 0 true; LLock 0; LClear 0 1; LUnlock 0; LMask 0 false; LHandler 0 1; LBlock 0].

Lemma d5_regression :
  accepts_gen false d5_trace = true /\ monitor true d5_trace = false /\ monitor false d5_trace = true /\
  accepts d5_trace = false /\
  accepts d5_fixed_trace = true /\ monitor true d5_fixed_trace = true /\ accepts_gen false d5_fixed_trace = false /\
  existsb (fun l => match l with LHandler _ _ => true | _ => false end) d5_trace = false.
Proof. vm_compute. repeat split; reflexivity. Qed.

(* ---------- masks: sig_lock is held only with all signals blocked by the holder, or inside iv_signal_handler
   (which runs with every signal blocked: LSaMask) -- so no delivery can hit the holder and spin on the lock ---------- *)
Definition lock_masked (s : state) : Prop :=
  forall t, lock s = Some t ->
    match stg s t with
    | SIdle | SExit => masked s t = true     (* outside the handler / handler in a forked child: all signals blocked *)
    | SThr _ | SNeedLock _ => False          (* the handler does not hold the lock while it walks the thread's own set *)
    | SProc _ | SUnreg _ => True             (* in the handler (every signal blocked: LSaMask) / unregister (masked before) *)
    end.

Lemma lock_masked_inv : forall s, reachable s -> lock_masked s.
Proof.
  intros s R. pattern s. revert s R. apply reachable_ind_inv.
  - intros t H. discriminate.
  - intros s l s' R IH H. unfold lock_masked in *.
    assert (Gstg : forall t0 s0 x, lock s0 = lock s -> masked s0 = masked s -> stg s0 = stg s ->
               (lock s = Some t0 -> match x with SIdle | SExit => masked s t0 = true | SThr _ | SNeedLock _ => False | _ => True end) ->
               forall u, lock (with_stg s0 t0 x) = Some u ->
                 match stg (with_stg s0 t0 x) u with SIdle | SExit => masked (with_stg s0 t0 x) u = true | SThr _ | SNeedLock _ => False | _ => True end)
      by (intros t0 s0 x E1 E2 E3 Hx u Hu; simpl in *; rewrite E1 in Hu; rewrite E2, E3; unfold upd;
          destruct (u =? t0) eqn:Eu; [apply Z.eqb_eq in Eu; subst u; apply Hx; exact Hu|apply IH; exact Hu]).
    destruct l; simpl in H.
    + (* LLock *) destruct (lock s) eqn:El; [discriminate|]. destruct (stg s t) eqn:Es; try discriminate.
      * destruct (masked s t) eqn:Em; [|discriminate]. inversion H; subst. simpl. intros u Hu. inversion Hu; subst. rewrite Es. exact Em.
      * inversion H; subst. simpl. intros u Hu. inversion Hu; subst. rewrite upd_same. exact I.
    + (* LUnlock *) dmatch H; inversion H; subst; simpl; intros u Hu; discriminate.
    + (* LReg *) dmatch H; inversion H; subst; simpl; exact IH.
    + (* LUnreg *) destruct (holds s t && is_idle (stg s t)) eqn:E0; [|discriminate]. apply andb_true_iff in E0. destruct E0 as [Eh _].
      apply holds_lock in Eh. dmatch H; inversion H; subst; simpl; intros u Hu; try (apply IH; exact Hu);
        unfold upd; (destruct (u =? t) eqn:Eu; [exact I|apply IH; exact Hu]).
    + (* LSigEnter *) destruct (is_idle (stg s t)) eqn:Ei; [|discriminate]. destruct (disp s sig); [|discriminate].
      destruct (child || negb (holds s t)) eqn:Ec; [|discriminate]. simpl in H.
      assert (Hidle : stg s t = SIdle) by (destruct (stg s t); try discriminate; reflexivity).
      destruct (child || negb (owner s)) eqn:Eo.
      * inversion H; subst. apply (Gstg t s SExit); auto. intro Hu. specialize (IH t Hu). rewrite Hidle in IH. exact IH.
      * (* not in a child: the thread does not hold the lock *)
        assert (Hnl : lock s <> Some t).
        { intro Hl. destruct child; [discriminate|]. simpl in Ec. unfold holds in Ec. rewrite Hl, Z.eqb_refl in Ec. discriminate. }
        destruct (wake_plan (Some t) sig (regs s)); inversion H; subst; apply (Gstg t s); auto; intro Hu; exfalso; apply Hnl; exact Hu.
    + dmatch H. inversion H; subst. exact IH.
    + (* LPost *) dmatch H; inversion H; subst; apply (Gstg t (do_post s id)); auto; intro Hu; specialize (IH t Hu); rewrite E in IH; exact IH.
    + (* LSigExit *) dmatch H; inversion H; subst; apply (Gstg t s); auto; intro Hu; specialize (IH t Hu); rewrite E in IH; try contradiction; exact IH.
    + dmatch H; inversion H; subst; simpl; exact IH.
    + dmatch H; inversion H; subst; simpl; exact IH.
    + dmatch H; inversion H; subst; simpl; exact IH.
    + dmatch H; inversion H; subst; simpl; exact IH.
    + (* LMask *) destruct (all || negb (holds s t && needs_mask (stg s t))) eqn:E0; [|discriminate]. inversion H; subst. simpl.
      intros u Hu. specialize (IH u Hu). unfold upd. destruct (u =? t) eqn:Eu; [|exact IH]. apply Z.eqb_eq in Eu. subst u.
      destruct all; [destruct (stg s t); auto|]. simpl in E0. apply negb_true_iff in E0. unfold holds in E0. rewrite Hu, Z.eqb_refl in E0.
      simpl in E0. destruct (stg s t); simpl in E0; try discriminate; exact IH.
    + dmatch H. inversion H; subst. exact IH.
Qed.
