(* EventMTMon.v -- the log monitor of MT/EventMT.v accepts every label sequence that the
   transition system accepts (simulation between model state and monitor state), and what
   its verdict means on the trace. *)
From Coq Require Import List Bool Arith Lia.
From Ivv Require Import MT.EventMT MT.EventMTLemmas MT.EventMTProofs.
Import ListNotations.

Record Sim (s : state) (m : mon) : Prop := {
  S_posts : forall e, m_posts m e = posts_begun s e;
  S_starts : forall e, m_starts m e = handler_starts s e;
  (* a post that began after the last handler start is still on its way in the model *)
  S_owed : forall e, In e (m_owed m) ->
             owed s e = true \/ (exists t, get t (thr s) = PBegun e) \/ toh e (run s) = 1;
  S_unreg : forall e, unreg_of e (get (own s) (thr s)) = true -> ~ In e (m_owed m);
  S_exited : run s = RExited -> m_exited m = true
}.

Lemma sim_init : forall o r, Sim (init o r) mon_init.
Proof.
  intros. constructor; simpl; auto; try (intros; discriminate); try tauto.
Qed.

Lemma begun_other : forall th t p e, (exists u, get u th = PBegun e) -> is_begun e (get t th) = false ->
  exists u, get u (set t p th) = PBegun e.
Proof.
  intros th t p e [u Hu] Hf. exists u. rewrite get_set_other; [exact Hu|].
  intros ->. rewrite Hu in Hf. simpl in Hf. rewrite Nat.eqb_refl in Hf. discriminate.
Qed.
Definition silent (l : label) : bool :=
  match l with LPostBegin _ _ | LHandler _ _ | LUnregister _ | LExit | LEnd _ => false | _ => true end.

Section SimStep.
Variables (s : state) (l : label) (s' : state) (m : mon).
Hypothesis I : Inv s.
Hypothesis SM : Sim s m.
Hypothesis HS : step s l = Some s'.

Ltac start := revert HS; intros H0; destruct l; try discriminate; step_cases H0; expand; bools.

Lemma sim_silent : silent l = true -> Sim s' m.
Proof.
  intros Hsil. pose proof (S_owed _ _ SM) as Ho. pose proof (S_unreg _ _ SM) as Hu. pose proof (S_exited _ _ SM) as Hx.
  constructor.
  - intros e. rewrite (S_posts _ _ SM). start; reflexivity.
  - intros e. rewrite (S_starts _ _ SM). start; reflexivity.
  - start.
    all: intros ev Hin; specialize (Ho ev Hin); rewrite ?Heqr in *; simpl toh in *.
    all: unfold upd; cbv beta; destruct Ho as [Ho|[Ho|Ho]]; eqs; try tauto; try discriminate; try lia;
         try (right; left; apply begun_other; [exact Ho| rewrite ?Heqp, ?H1; simpl; try reflexivity]).
    1,2: apply Nat.eqb_neq; congruence.
    exfalso. eapply Hu; [|exact Hin]. rewrite Heqp. simpl. apply Nat.eqb_refl.
  - pose proof (I_ownidle _ I) as Hoi. start.
    all: intros ev; rewrite ?get_set; eqs; simpl; try (intros; discriminate); try congruence; auto.
    intros Hq. apply Nat.eqb_eq in Hq. subst. apply Hu. rewrite Heqp. simpl. apply Nat.eqb_refl.
  - start.
    all: rewrite ?Heqr in *; try (intros; discriminate); auto.
Qed.
End SimStep.

Lemma In_add : forall e x l, In x (if mem e l then l else e :: l) <-> x = e \/ In x l.
Proof.
  intros e x l. destruct (mem e l) eqn:E.
  - apply mem_In in E. split; [tauto|]. intros [->|H]; assumption.
  - simpl. split; intros [H|H]; auto.
Qed.

Lemma sim_post : forall s m t e s', Inv s -> Sim s m -> step s (LPostBegin t e) = Some s' ->
  Sim s' (mkmon (upd (m_posts m) e (S (m_posts m e))) (m_starts m)
                (if mem e (m_owed m) then m_owed m else e :: m_owed m) (m_exited m)).
Proof.
  intros s m t e s' I SM H0. pose proof (S_owed _ _ SM) as Ho. pose proof (S_unreg _ _ SM) as Hu.
  step_cases H0; sf; bools. constructor; sf; cbn [m_posts m_starts m_owed m_exited].
  - intros ev. unfold upd. rewrite !(S_posts _ _ SM). reflexivity.
  - apply (S_starts _ _ SM).
  - intros ev Hin. apply In_add in Hin. destruct Hin as [->|Hin].
    + right; left. exists t. apply get_set_same.
    + destruct (Ho _ Hin) as [Hq|[Hq|Hq]]; auto.
      right; left. apply begun_other; [exact Hq|rewrite H1; reflexivity].
  - intros ev. rewrite get_set. intros Hq Hin. apply In_add in Hin.
    destruct (Nat.eqb t (own s)) eqn:E; [simpl in Hq; discriminate|]. bools.
    destruct Hin as [->|Hin]; [congruence|]. exact (Hu _ Hq Hin).
  - apply (S_exited _ _ SM).
Qed.


Lemma sim_handler : forall s m t e s', Inv s -> Sim s m -> step s (LHandler t e) = Some s' ->
  t = own s /\ S (m_starts m e) <= m_posts m e /\
  Sim s' (mkmon (m_posts m) (upd (m_starts m) e (S (m_starts m e))) (rem e (m_owed m)) (m_exited m)).
Proof.
  intros s m t e s' I SM H0. pose proof (S_owed _ _ SM) as Ho. pose proof (S_unreg _ _ SM) as Hu.
  destruct (handler_step _ _ _ _ H0) as [Ht [[last Hr] [Hl Hi]]].
  split; [exact Ht|]. split.
  - rewrite (S_posts _ _ SM), (S_starts _ _ SM). pose proof (I_count _ I e) as Hc.
    rewrite Hr in Hc. simpl in Hc. rewrite Nat.eqb_refl in Hc. lia.
  - step_cases H0; sf; bools; (constructor; sf; cbn [m_posts m_starts m_owed m_exited];
      [ apply (S_posts _ _ SM)
      | intros ev; unfold upd; rewrite !(S_starts _ _ SM); subst; reflexivity
      | intros ev Hin; apply In_rem in Hin; destruct Hin as [Hin Hne];
        destruct (Ho _ Hin) as [Hq|[Hq|Hq]]; auto;
        exfalso; simpl in Hq; destruct (Nat.eqb e0 ev) eqn:E; bools; [congruence|discriminate]
      | intros ev Hq Hin; apply In_rem in Hin; destruct Hin as [Hin _]; exact (Hu _ Hq Hin)
      | intros; discriminate ]).
Qed.

Lemma sim_unregister : forall s m e s', Inv s -> Sim s m -> step s (LUnregister e) = Some s' ->
  Sim s' (mkmon (m_posts m) (m_starts m) (rem e (m_owed m)) (m_exited m)).
Proof.
  intros s m e s' I SM H0. pose proof (S_owed _ _ SM) as Ho.
  step_cases H0; sf; bools. constructor; sf; cbn [m_posts m_starts m_owed m_exited].
  - apply (S_posts _ _ SM).
  - apply (S_starts _ _ SM).
  - intros ev Hin. apply In_rem in Hin. destruct Hin as [Hin Hne].
    destruct (Ho _ Hin) as [Hq|[Hq|Hq]]; auto.
    right; left. apply begun_other; [exact Hq|rewrite H; reflexivity].
  - intros ev. rewrite get_set_same. simpl. intros Hq Hin. apply Nat.eqb_eq in Hq. subst.
    exact (nIn_rem_self _ _ Hin).
  - apply (S_exited _ _ SM).
Qed.

Lemma sim_exit : forall s m s', Inv s -> Sim s m -> step s LExit = Some s' ->
  Sim s' (mkmon (m_posts m) (m_starts m) (m_owed m) true).
Proof.
  intros s m s' I SM H0. pose proof (S_owed _ _ SM) as Ho.
  step_cases H0; sf; bools. constructor; sf; cbn [m_posts m_starts m_owed m_exited].
  - apply (S_posts _ _ SM).
  - apply (S_starts _ _ SM).
  - intros ev Hin. specialize (Ho _ Hin). exact Ho.
  - apply (S_unreg _ _ SM).
  - reflexivity.
Qed.

Lemma sim_end : forall s m q s', Inv s -> Sim s m -> step s (LEnd q) = Some s' ->
  s' = s /\ (m_exited m || is_nil (m_owed m) = true).
Proof.
  intros s m q s' I SM H0. pose proof (S_owed _ _ SM) as Ho.
  unfold step in H0. destruct (all_idle (thr s)) eqn:Ea; [|discriminate].
  destruct (run s) eqn:Er; try discriminate.
  - destruct (q && Nat.eqb (kick s) 0) eqn:C; [|discriminate]. injection H0 as <-. split; [reflexivity|].
    apply orb_true_iff. right. destruct (m_owed m) as [|x r] eqn:Em; [reflexivity|exfalso].
    assert (Hin : In x (x :: r)) by (left; reflexivity).
    destruct (Ho _ Hin) as [Hq|[[t Hq]|Hq]].
    + destruct (I_owed _ I _ Hq) as [Hp|Hb].
      * destruct (I_wake _ I) as [Hw|[Hw|[Hw|[[t Hw]|Hw]]]].
        -- rewrite Hw in Hp. exact Hp.
        -- bools. lia.
        -- rewrite (I_blocked _ I Er) in Hw. discriminate.
        -- rewrite (all_idle_get _ t Ea) in Hw. discriminate.
        -- congruence.
      * pose proof (I_batch _ I) as B. unfold batch_ok in B. rewrite Er in B. rewrite B in Hb. exact Hb.
    + rewrite (all_idle_get _ t Ea) in Hq. discriminate.
    + simpl in Hq. discriminate.
  - injection H0 as <-. split; [reflexivity|]. rewrite (S_exited _ _ SM Er). reflexivity.
Qed.

Theorem sim_step : forall s m l s', Inv s -> Sim s m -> step s l = Some s' ->
  exists m', mon_step (own s) m l = Some m' /\ Sim s' m'.
Proof.
  intros s m l s' I SM H.
  destruct l; try (exists m; split; [reflexivity | eapply sim_silent; eauto]; fail).
  - eexists. split; [reflexivity|]. eapply sim_post; eauto.
  - destruct (sim_handler _ _ _ _ _ I SM H) as [Ht [Hle HS]]. eexists. split; [|exact HS].
    simpl. subst. rewrite Nat.eqb_refl. simpl.
    destruct (m_posts m e) eqn:Ep; [lia|]. assert (Hx : Nat.leb (m_starts m e) n = true) by (apply Nat.leb_le; lia).
    rewrite Hx. reflexivity.
  - eexists. split; [reflexivity|]. eapply sim_unregister; eauto.
  - eexists. split; [reflexivity|]. eapply sim_exit; eauto.
  - destruct (sim_end _ _ _ _ I SM H) as [-> Hc]. exists m. split; [|exact SM]. simpl. rewrite Hc. reflexivity.
Qed.

Theorem monitor_accepts_from : forall ls s m s', Inv s -> Sim s m -> exec s ls = Some s' ->
  exists m', mon_exec (own s) m ls = Some m' /\ Sim s' m'.
Proof.
  induction ls as [|l r IH]; simpl; intros s m s' I SM H.
  - injection H as <-. exists m. auto.
  - destruct (step s l) as [s1|] eqn:E; [|discriminate].
    destruct (sim_step _ _ _ _ I SM E) as [m1 [Hm HS]]. rewrite Hm.
    destruct (step_own _ _ _ E) as [Ho _]. rewrite <- Ho. eapply IH; eauto. eapply step_inv; eauto.
Qed.

Theorem monitor_accepts : forall o r ls, accepts o r ls = true -> monitor o ls = true.
Proof.
  intros o r ls H. unfold accepts in H. destruct (exec (init o r) ls) as [s|] eqn:E; [|discriminate].
  destruct (monitor_accepts_from _ _ _ _ (init_inv o r) (sim_init o r) E) as [m [Hm _]].
  unfold monitor. simpl in Hm. rewrite Hm. reflexivity.
Qed.

(* ---- what the verdict means on the trace ---- *)
(* labels after which e is no longer owed: a handler start of e, or its unregistration *)
Definition clears (e : nat) (l : label) : bool :=
  match l with LHandler _ x | LUnregister x => Nat.eqb x e | _ => false end.

Lemma blocked_nothing_owed : forall s m, Inv s -> Sim s m -> owner_blocked s -> all_between s -> m_owed m = [].
Proof.
  intros s m I SM [Er Hk] Ha. pose proof (S_owed _ _ SM) as Ho.
  destruct (m_owed m) as [|x r] eqn:Em; [reflexivity|exfalso].
  assert (Hin : In x (x :: r)) by (left; reflexivity).
  destruct (Ho _ Hin) as [Hq|[[t Hq]|Hq]].
  - destruct (I_owed _ I _ Hq) as [Hp|Hb].
    + destruct (I_wake _ I) as [Hw|[Hw|[Hw|[[t Hw]|Hw]]]].
      * rewrite Hw in Hp. exact Hp.
      * lia.
      * rewrite (I_blocked _ I Er) in Hw. discriminate.
      * rewrite (Ha t) in Hw. discriminate.
      * congruence.
    + pose proof (I_batch _ I) as B. unfold batch_ok in B. rewrite Er in B. rewrite B in Hb. exact Hb.
  - rewrite (Ha t) in Hq. discriminate.
  - rewrite Er in Hq. discriminate.
Qed.

Lemma mon_exec_app : forall o l1 l2 m,
  mon_exec o m (l1 ++ l2) = match mon_exec o m l1 with Some m1 => mon_exec o m1 l2 | None => None end.
Proof.
  induction l1 as [|l r IH]; simpl; intros; [reflexivity|].
  destruct (mon_step o m l); [apply IH | reflexivity].
Qed.

Lemma owed_kept : forall o e post m m', mon_exec o m post = Some m' -> In e (m_owed m) ->
  existsb (clears e) post = false -> In e (m_owed m').
Proof.
  induction post as [|l r IH]; simpl; intros m m' H Hin Hc.
  - injection H as <-. exact Hin.
  - apply orb_false_iff in Hc. destruct Hc as [Hc1 Hc2].
    destruct (mon_step o m l) as [m1|] eqn:E; [|discriminate].
    apply (IH m1 m' H); [|exact Hc2].
    destruct l; unfold mon_step in E; try (injection E as <-; exact Hin).
    + injection E as <-. simpl. apply In_add. right. exact Hin.
    + destruct (Nat.eqb t o && Nat.leb (S (m_starts m e0)) (m_posts m e0)); [|discriminate].
      injection E as <-. simpl. apply In_rem. split; [exact Hin|].
      simpl in Hc1. apply Nat.eqb_neq in Hc1. congruence.
    + injection E as <-. simpl. apply In_rem. split; [exact Hin|].
      simpl in Hc1. apply Nat.eqb_neq in Hc1. congruence.
    + destruct (m_exited m || is_nil (m_owed m)); [|discriminate]. injection E as <-. exact Hin.
Qed.

Lemma unserved_post_owed : forall o pre t e post m m',
  mon_exec o m (pre ++ LPostBegin t e :: post) = Some m' ->
  existsb (clears e) post = false -> In e (m_owed m').
Proof.
  intros o pre t e post m m' H Hc. rewrite mon_exec_app in H.
  destruct (mon_exec o m pre) as [m1|]; [|discriminate]. simpl in H.
  eapply owed_kept; [exact H | | exact Hc]. simpl. apply In_add. left. reflexivity.
Qed.

(* every post is followed by a handler start (or the unregistration) of its event once the
   owner is blocked with all posters between operations *)
Theorem no_lost_post_trace : forall o r ls s, exec (init o r) ls = Some s ->
  owner_blocked s -> all_between s ->
  forall pre t e post, ls = pre ++ LPostBegin t e :: post -> existsb (clears e) post = true.
Proof.
  intros o r ls s H Hb Ha pre t e post ->.
  destruct (monitor_accepts_from _ _ _ _ (init_inv o r) (sim_init o r) H) as [m [Hm SM]].
  pose proof (blocked_nothing_owed _ _ (reachable_inv _ _ _ _ H) SM Hb Ha) as Hn.
  destruct (existsb (clears e) post) eqn:E; [reflexivity|exfalso].
  simpl in Hm. pose proof (unserved_post_owed _ _ _ _ _ _ _ Hm E) as Hin. rewrite Hn in Hin. exact Hin.
Qed.

(* the system of loops *)
Theorem gmonitor_accepts : forall r owners gl, gaccepts r owners gl = true -> gmonitor owners gl = true.
Proof.
  intros r owners gl H. unfold gaccepts, gmonitor in *. rewrite forallb_forall in *.
  intros k Hk. eapply monitor_accepts. apply H. exact Hk.
Qed.
