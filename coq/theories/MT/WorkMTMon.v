(* WorkMTMon.v -- boolean monitors of C12 / C13 on label sequences (logs of harness/ivmt.c).

   The monitors do not use the transition system: they decide the observable clauses of the properties on ANY
   label sequence, accepted by MT/WorkMT.v or not.  `mstep m l = None` = the clause checked at label l is
   violated; `mon_pos` gives the position of the first violation.

   C12 (mon12): every submission (pool: LSubmit, NULL pool: LLocal) of an item that is not in flight is followed by
     exactly one work-function run (LWork .. LRet) -- for a pool item in a thread other than the owner that has
     run the thread-start hook and not the stop hook, for a NULL-pool item in the submitting thread -- and then
     exactly one completion (LCompl) in the owner (pool) / the submitting thread (NULL pool), after the work
     function returned; never more than max_threads pool work functions between LWork and LRet at once; at
     QUIESCENT / D no item is in flight.
   C13 (mon13): per created thread: at most one start hook, the stop hook only after the start hook and only
     once, both by the thread itself, the thread finishes (LTFin) only with its hooks paired, is joined only
     after it finished and only once; the creator's iv_main returns (LMainEnd) only when every created thread
     has finished and been joined and no item is in flight; at QUIESCENT / D every created thread has been
     joined; a run in which the pool was put does not end in QUIESCENT (the pool's references on the owner's
     loop are dropped, iv_main returns) and D comes only after LMainEnd. *)
From Coq Require Import List ZArith Bool Arith.
From Ivv Require Import MT.WorkMT.
Import ListNotations.
Local Open Scope Z_scope.

(* ---------- C12 ---------- *)
Inductive mkind := MPool | MLocal (t : nat).
Inductive mist := MIdle | MQ (k : mkind) | MW (k : mkind) | MR (k : mkind).
Inductive mhook := HkNone | HkStarted | HkStopped.

Record m12 := mkM12 {
  m_own : nat;
  m_max : option Z;
  m_it : nat -> mist;
  m_inflight : list nat;      (* items submitted and not yet completed *)
  m_run : Z;                  (* pool work functions between LWork and LRet *)
  m_hook : nat -> mhook }.

Definition m12_init (o : nat) : m12 := mkM12 o None (fun _ => MIdle) [] 0 (fun _ => HkNone).

Definition set_it (m : m12) (i : nat) (v : mist) (fl : list nat) (r : Z) : m12 :=
  mkM12 (m_own m) (m_max m) (upd (m_it m) i v) fl r (m_hook m).

Definition kind_thread_ok (o : nat) (k : mkind) (t : nat) : bool :=
  match k with MPool => Nat.eqb t o | MLocal u => Nat.eqb t u end.

Definition mstep12 (m : m12) (l : label) : option m12 :=
  match l with
  | LCreate t mx =>
    match m_max m with
    | None => Some (mkM12 (m_own m) (Some mx) (m_it m) (m_inflight m) (m_run m) (m_hook m))
    | Some _ => None
    end
  | LSubmit _ i =>
    match m_it m i with MIdle => Some (set_it m i (MQ MPool) (i :: m_inflight m) (m_run m)) | _ => None end
  | LLocal t i =>
    match m_it m i with MIdle => Some (set_it m i (MQ (MLocal t)) (i :: m_inflight m) (m_run m)) | _ => None end
  | LWork t i =>
    match m_it m i with
    | MQ MPool =>
      (* in a pool thread: not the owner, start hook run, stop hook not yet; within max_threads *)
      if negb (Nat.eqb t (m_own m)) && match m_hook m t with HkStarted => true | _ => false end &&
         match m_max m with Some mx => m_run m + 1 <=? mx | None => false end
      then Some (set_it m i (MW MPool) (m_inflight m) (m_run m + 1)) else None
    | MQ (MLocal u) => if Nat.eqb t u then Some (set_it m i (MW (MLocal u)) (m_inflight m) (m_run m)) else None
    | _ => None
    end
  | LRet t i =>
    match m_it m i with
    | MW MPool => if negb (Nat.eqb t (m_own m)) then Some (set_it m i (MR MPool) (m_inflight m) (m_run m - 1)) else None
    | MW (MLocal u) => if Nat.eqb t u then Some (set_it m i (MR (MLocal u)) (m_inflight m) (m_run m)) else None
    | _ => None
    end
  | LCompl t i =>
    match m_it m i with
    | MR k => if kind_thread_ok (m_own m) k t
              then Some (set_it m i MIdle (filter (fun j => negb (Nat.eqb j i)) (m_inflight m)) (m_run m)) else None
    | _ => None
    end
  | LHookStart t =>
    match m_hook m t with
    | HkNone => Some (mkM12 (m_own m) (m_max m) (m_it m) (m_inflight m) (m_run m) (upd (m_hook m) t HkStarted))
    | _ => None
    end
  | LHookStop t =>
    match m_hook m t with
    | HkStarted => Some (mkM12 (m_own m) (m_max m) (m_it m) (m_inflight m) (m_run m) (upd (m_hook m) t HkStopped))
    | _ => None
    end
  | LQuiescent | LDone => match m_inflight m with [] => Some m | _ => None end
  | _ => Some m
  end.

(* ---------- C13 ---------- *)
Inductive mthr := ThNone | ThCreated | ThFinished | ThJoined.

Record m13 := mkM13 {
  n_own : nat;
  n_thr : nat -> mthr;
  n_created : list nat;
  n_hook : nat -> mhook;
  n_put : bool;
  n_inflight : list nat;
  n_mainend : bool }.

Definition m13_init (o : nat) : m13 := mkM13 o (fun _ => ThNone) [] (fun _ => HkNone) false [] false.

Definition all_joined (m : m13) : bool :=
  forallb (fun n => match n_thr m n with ThJoined => true | _ => false end) (n_created m).

Definition mstep13 (m : m13) (l : label) : option m13 :=
  match l with
  | LTCreate t n =>
    match n_thr m n with
    | ThNone => if Nat.eqb n (n_own m) then None
                else Some (mkM13 (n_own m) (upd (n_thr m) n ThCreated) (n :: n_created m) (n_hook m) (n_put m) (n_inflight m) (n_mainend m))
    | _ => None
    end
  | LHookStart t =>
    match n_thr m t, n_hook m t with
    | ThCreated, HkNone =>
      Some (mkM13 (n_own m) (n_thr m) (n_created m) (upd (n_hook m) t HkStarted) (n_put m) (n_inflight m) (n_mainend m))
    | _, _ => None
    end
  | LHookStop t =>
    match n_thr m t, n_hook m t with
    | ThCreated, HkStarted =>
      Some (mkM13 (n_own m) (n_thr m) (n_created m) (upd (n_hook m) t HkStopped) (n_put m) (n_inflight m) (n_mainend m))
    | _, _ => None
    end
  | LTFin t =>
    match n_thr m t, n_hook m t with
    | ThCreated, HkStarted => None                       (* a pool thread exits without its stop hook *)
    | ThCreated, _ =>
      Some (mkM13 (n_own m) (upd (n_thr m) t ThFinished) (n_created m) (n_hook m) (n_put m) (n_inflight m) (n_mainend m))
    | _, _ => Some m                                     (* not a thread made by iv_thread_create *)
    end
  | LTJoin t n =>
    match n_thr m n with
    | ThFinished =>
      if Nat.eqb t (n_own m) then
        Some (mkM13 (n_own m) (upd (n_thr m) n ThJoined) (n_created m) (n_hook m) (n_put m) (n_inflight m) (n_mainend m))
      else None
    | _ => None
    end
  | LPut _ => Some (mkM13 (n_own m) (n_thr m) (n_created m) (n_hook m) true (n_inflight m) (n_mainend m))
  | LSubmit _ i | LLocal _ i =>
    Some (mkM13 (n_own m) (n_thr m) (n_created m) (n_hook m) (n_put m) (i :: n_inflight m) (n_mainend m))
  | LCompl _ i =>
    Some (mkM13 (n_own m) (n_thr m) (n_created m) (n_hook m) (n_put m)
                (filter (fun j => negb (Nat.eqb j i)) (n_inflight m)) (n_mainend m))
  | LMainEnd t =>
    if Nat.eqb t (n_own m) then
      if all_joined m && match n_inflight m with [] => true | _ => false end then
        Some (mkM13 (n_own m) (n_thr m) (n_created m) (n_hook m) (n_put m) (n_inflight m) true)
      else None
    else Some m
  | LQuiescent =>
    (* drained: nothing in flight, every created thread joined; after a put iv_main must have returned *)
    if all_joined m && match n_inflight m with [] => true | _ => false end && negb (n_put m) then Some m else None
  | LDone =>
    if all_joined m && match n_inflight m with [] => true | _ => false end && n_mainend m then Some m else None
  | _ => Some m
  end.

(* ---------- running a monitor ---------- *)
Fixpoint mon_pos {M} (st : M -> label -> option M) (m : M) (ls : list label) (k : nat) : option nat :=
  match ls with
  | [] => None
  | l :: r => match st m l with Some m' => mon_pos st m' r (S k) | None => Some k end
  end.

Definition mon12 (o : nat) (ls : list label) : option nat := mon_pos mstep12 (m12_init o) ls O.
Definition mon13 (o : nat) (ls : list label) : option nat := mon_pos mstep13 (m13_init o) ls O.
Definition mon12_ok (o : nat) (ls : list label) : bool := match mon12 o ls with None => true | Some _ => false end.
Definition mon13_ok (o : nat) (ls : list label) : bool := match mon13 o ls with None => true | Some _ => false end.
