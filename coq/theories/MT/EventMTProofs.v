(* EventMTProofs.v -- invariants of the iv_event transition system (MT/EventMT.v), by induction
   over accepted label sequences from the initial state: any number of threads and events, any
   program, any schedule, both transports.  Names M1..M5 as in DESIGN.md Appendix A.6. *)
From Coq Require Import List Bool Arith Lia.
From Ivv Require Import MT.EventMT MT.EventMTLemmas.
Import ListNotations.

(* ---- the invariant ---- *)
Definition owes (p : ppc) : bool :=
  match p with PLocked _ true | PAtKick _ true => true | _ => false end.

Definition toh (e : nat) (r : rpc) : nat :=
  match r with
  | RLockedPop x _ | RToHandler x _ => if Nat.eqb x e then 1 else 0
  | _ => 0
  end.

Definition batch_ok (s : state) : Prop :=
  match run s with
  | RLoop | RBlocked | RWoken | RLockedEmpty | RExited => batch s = []
  | RLockedPop _ true | RToHandler _ true => batch s = []
  | _ => True
  end.

Definition run_idle (r : rpc) : bool :=
  match r with
  | RBlocked | RWoken | RLockedEmpty | RLockedPop _ _ | RToHandler _ _ => true
  | _ => false
  end.

Definition locked_ppc (p : ppc) : bool :=
  match p with PLocked _ _ | ULocked _ => true | _ => false end.

Definition run_locked (r : rpc) : bool :=
  match r with RLockedEmpty | RLockedPop _ _ => true | _ => false end.

(* M2: something will still wake the owner up while posts are pending *)
Definition wake_ok (s : state) : Prop :=
  pending s = [] \/ 0 < kick s \/ local s = true \/
  (exists t, owes (get t (thr s)) = true) \/ run s = RWoken.

Record Inv (s : state) : Prop := {
  I_wake : wake_ok s;
  (* M3 *)
  I_owed : forall e, owed s e = true -> In e (pending s) \/ In e (batch s);
  I_batch : batch_ok s;
  I_sub : forall e, In e (pending s) \/ In e (batch s) -> In e (reg s);
  I_begun : forall t e, get t (thr s) = PBegun e -> In e (reg s);
  I_unreg : forall e t, unreg_of e (get (own s) (thr s)) = true -> t <> own s -> on_ev e (get t (thr s)) = false;
  I_ulocked : forall e, get (own s) (thr s) = ULocked e -> ~ In e (pending s) /\ ~ In e (batch s);
  (* M5 *)
  I_count : forall e, handler_starts s e + occ e (pending s) + occ e (batch s) + toh e (run s) + cnt e (thr s)
                      <= posts_begun s e;
  (* M1 *)
  I_lock : forall t, lock s = Some t ->
             locked_ppc (get t (thr s)) = true \/
             (t = own s /\ get t (thr s) = PIdle /\ run_locked (run s) = true);
  I_lock_rev : forall t, locked_ppc (get t (thr s)) = true -> lock s = Some t;
  I_run_lock : run_locked (run s) = true -> lock s = Some (own s);
  I_ownidle : run_idle (run s) = true -> get (own s) (thr s) = PIdle;
  I_uown : forall t e, unreg_of e (get t (thr s)) = true -> t = own s;
  (* M4 *)
  I_blocked : run s = RBlocked -> local s = false
}.

(* ---- tactics ---- *)
Ltac sf := cbn [own raw pending batch lock kick local reg thr run posts_begun handler_starts owed
                set_pending set_batch set_lock set_kick set_local set_reg set_thr set_run set_posts
                set_starts set_owed] in *.

Ltac bm H :=
  match type of H with
  | context [match ?x with _ => _ end] => destruct x eqn:?
  end.

Ltac step_cases H :=
  unfold step in H; repeat bm H; try discriminate H;
  injection H as H; subst.

Ltac bools :=
  repeat match goal with
  | H : _ && _ = true |- _ => apply andb_true_iff in H; destruct H
  | H : _ || _ = false |- _ => apply orb_false_iff in H; destruct H
  | H : negb _ = true |- _ => apply negb_true_iff in H
  | H : negb _ = false |- _ => apply negb_false_iff in H
  | H : Nat.eqb _ _ = true |- _ => apply Nat.eqb_eq in H
  | H : Nat.eqb _ _ = false |- _ => apply Nat.eqb_neq in H
  | H : is_idle _ = true |- _ => apply is_idle_true in H
  end.

(* own / raw never change *)
Lemma step_own : forall s l s', step s l = Some s' -> own s' = own s /\ raw s' = raw s.
Proof.
  intros s l s' H. destruct l; step_cases H;
    unfold post_cs, start_run, relock_run, finish_unreg; sf;
    repeat match goal with |- context [match ?x with _ => _ end] => destruct x end; sf; auto.
Qed.

Ltac expand :=
  unfold post_cs, start_run, relock_run, finish_unreg in *; sf;
  repeat (match goal with
          | |- context [if ?x then _ else _] => destruct x eqn:?
          | |- context [match pending ?s with _ => _ end] => destruct (pending s) eqn:?
          | |- context [match batch ?s with _ => _ end] => destruct (batch s) eqn:?
          end; sf).

Ltac eqs :=
  repeat (match goal with
          | |- context [Nat.eqb ?a ?b] => destruct (Nat.eqb a b) eqn:?
          | H : context [Nat.eqb ?a ?b] |- _ => destruct (Nat.eqb a b) eqn:?
          end; bools); subst.

Section Preservation.
Variables (s : state) (l : label) (s' : state).
Hypothesis I : Inv s.
Hypothesis HS : step s l = Some s'.

Ltac start := revert HS; intros H0; destruct l; step_cases H0; expand; bools.
Ltac runc := try (destruct (run s); simpl in *; discriminate).

Lemma pres_ownidle : run_idle (run s') = true -> get (own s') (thr s') = PIdle.
Proof.
  pose proof (I_ownidle _ I) as Hoi. start.
  all: try (simpl; discriminate).
  all: try (intros; rewrite ?get_set; apply Hoi; rewrite ?Heqr; reflexivity).
  all: intros Hr; rewrite ?get_set; try rewrite Heqr in *; simpl in Hr; try discriminate;
       try (specialize (Hoi Hr)); eqs; try congruence; auto; runc.
Qed.

Lemma pres_uown : forall t e, unreg_of e (get t (thr s')) = true -> t = own s'.
Proof.
  pose proof (I_uown _ I) as Hu. start.
  all: intros tq eq; rewrite ?get_set; eqs; simpl; try discriminate; try congruence; eauto.
Qed.

Lemma pres_blocked : run s' = RBlocked -> local s' = false.
Proof.
  pose proof (I_blocked _ I) as Hb. pose proof (I_ownidle _ I) as Hoi. start.
  all: try (intros; discriminate). all: try (intros; congruence). all: auto.
  intros Hr. rewrite Hr in Hoi. specialize (Hoi eq_refl). subst. congruence.
Qed.

Lemma pres_run_lock : run_locked (run s') = true -> lock s' = Some (own s').
Proof.
  pose proof (I_run_lock _ I) as Hrl. pose proof (I_ownidle _ I) as Hoi. start.
  all: try (intros; discriminate). all: try (simpl; intros; reflexivity).
  all: try (rewrite ?Heqr in *; simpl in *; intros; congruence).
  all: try exact Hrl.
  all: intros Hr; specialize (Hrl Hr); try congruence.
  all: assert (Hri : run_idle (run s) = true) by (destruct (run s); simpl in *; congruence);
       specialize (Hoi Hri); eqs; congruence.
Qed.

Lemma pres_lock_rev : forall t, locked_ppc (get t (thr s')) = true -> lock s' = Some t.
Proof.
  pose proof (I_lock_rev _ I) as Hlr. pose proof (I_lock _ I) as Hl. start.
  all: intros tq; rewrite ?get_set; eqs; simpl; try discriminate; try reflexivity; auto.
  all: intros Hq; specialize (Hlr _ Hq); try congruence.
  all: injection Hlr as Hlr; subst; rewrite ?Heqp in Hq; simpl in Hq; discriminate.
Qed.

Lemma pres_lock : forall t, lock s' = Some t ->
  locked_ppc (get t (thr s')) = true \/ (t = own s' /\ get t (thr s') = PIdle /\ run_locked (run s') = true).
Proof.
  pose proof (I_lock _ I) as Hl. pose proof (I_ownidle _ I) as Hoi. start.
  all: intros tq; rewrite ?get_set; try (intros; discriminate).
  all: try (intros Hq; injection Hq as Hq; subst; rewrite ?Nat.eqb_refl; simpl; auto; fail).
  all: intros Hq; specialize (Hl _ Hq); try exact Hl; eqs; simpl; auto.
  all: destruct Hl as [Hl|[? [? Hl]]];
       [ rewrite ?H, ?H1, ?Heqp in Hl; simpl in Hl; try discriminate | subst; try congruence; runc ].
  all: try (left; exact Hl); try (simpl in Hl; discriminate).
Qed.

Lemma pres_batch : batch_ok s'.
Proof.
  pose proof (I_batch _ I) as Hb. unfold batch_ok in *. start.
  all: rewrite ?Heqr in *; simpl; auto.
  all: try (apply is_nil_true; assumption).
  destruct (run s) as [| | | | ? [|] | ? [|] | |]; auto; rewrite Hb; reflexivity.
Qed.

Lemma pres_ulocked : forall e, get (own s') (thr s') = ULocked e -> ~ In e (pending s') /\ ~ In e (batch s').
Proof.
  pose proof (I_ulocked _ I) as Hu. pose proof (I_lock_rev _ I) as Hlr. pose proof (I_ownidle _ I) as Hoi. start.
  all: intros eq; rewrite ?get_set; eqs; try (intros; discriminate); try congruence; auto.
  - intros Hq. specialize (Hlr (own s)). rewrite Hq in Hlr. specialize (Hlr eq_refl). discriminate.
  - intros Hq. injection Hq as Hq. subst. split; apply nIn_rem_self.
Qed.

Lemma pres_unreg : forall e t, unreg_of e (get (own s') (thr s')) = true -> t <> own s' -> on_ev e (get t (thr s')) = false.
Proof.
  pose proof (I_unreg _ I) as Hu. pose proof (I_uown _ I) as Huo. pose proof (I_ownidle _ I) as Hoi. start.
  all: intros eq tq; rewrite ?get_set; eqs; simpl; try (intros; discriminate); try congruence; auto.
  all: intros Hq Hn; specialize (Hu eq tq); rewrite ?Heqp, ?H1 in *; simpl in *; eqs; try congruence; auto.
  apply none_on_get. assumption.
Qed.

Lemma pres_begun : forall t e, get t (thr s') = PBegun e -> In e (reg s').
Proof.
  pose proof (I_begun _ I) as Hb. pose proof (I_unreg _ I) as Hu. start.
  all: intros tq eq; rewrite ?get_set; eqs; simpl; try (intros; discriminate); try congruence; eauto.
  1,2: intros Hq; injection Hq as Hq; subst; apply mem_In; assumption.
  intros Hq. apply In_rem. split; [eauto|].
  intros ->. specialize (Hu e tq). rewrite Heqp in Hu. simpl in Hu. rewrite Nat.eqb_refl in Hu.
  rewrite Hq in Hu. simpl in Hu. rewrite Nat.eqb_refl in Hu.
  assert (tq <> own s) by (intros ->; congruence). specialize (Hu eq_refl H). discriminate.
Qed.

Lemma pres_sub : forall e, In e (pending s') \/ In e (batch s') -> In e (reg s').
Proof.
  pose proof (I_sub _ I) as Hs. pose proof (I_begun _ I) as Hb. pose proof (I_ulocked _ I) as Hu. start.
  all: intros eq; auto.
  all: intros Hq; rewrite ?Heql0 in *; try (apply Hs; simpl in *; tauto).
  - destruct Hq as [Hq|Hq]; [|apply Hs; tauto]. apply in_app_or in Hq. destruct Hq as [Hq|[<-|[]]]; [apply Hs; tauto|eauto].
  - apply Hs. rewrite !In_rem in Hq. tauto.
  - subst. apply In_rem. split; [apply Hs; exact Hq|]. intros ->. specialize (Hu _ Heqp). tauto.
  - right. apply Hs. exact Hq.
Qed.

Lemma pres_owed : forall e, owed s' e = true -> In e (pending s') \/ In e (batch s').
Proof.
  pose proof (I_owed _ I) as Ho. pose proof (I_batch _ I) as Hb. unfold batch_ok in Hb. start.
  all: intros ev; auto.
  all: rewrite ?Heqr in Hb; rewrite ?Heql0, ?Hb in *.
  all: try (unfold upd; cbv beta; match goal with |- context [if Nat.eqb ?a ?x then _ else _] => destruct (Nat.eqb a x) eqn:Ee end; bools; subst);
       try (intros; discriminate); auto.
  all: intros Hq; try (specialize (Ho _ Hq)); simpl in *.
  1,2: destruct Ho as [[Hx|Hx]|[]]; [congruence|auto].
  - destruct Ho as [Hx|[Hx|Hx]]; [auto|congruence|auto].
  - apply orb_true_iff in Heqb. rewrite !mem_In in Heqb. exact Heqb.
  - left. apply in_or_app. right. left. reflexivity.
  - destruct Ho as [Hx|Hx]; [left; apply in_or_app; auto|auto].
  - rewrite !In_rem. tauto.
Qed.

Lemma pres_count : forall e, handler_starts s' e + occ e (pending s') + occ e (batch s') + toh e (run s') + cnt e (thr s')
                      <= posts_begun s' e.
Proof.
  pose proof (I_count _ I) as Hc. start.
  all: intros ev; specialize (Hc ev); rewrite ?Heqr, ?Heql0 in *.
  all: try match goal with |- context [cnt ?v (set ?t ?p ?l)] =>
         pose proof (cnt_set_le v t p l) as Hle; simpl in Hle end.
  all: unfold upd; cbv beta; simpl in *; rewrite ?occ_app; simpl.
  all: try lia.
  all: try (pose proof (cnt_filter_dec ev t (thr s)) as Hd; rewrite Heqp in Hd; simpl in Hd).
  all: try (pose proof (occ_rem_le ev e (pending s)); pose proof (occ_rem_le ev e (batch s))).
  all: eqs; try lia; try congruence.
Qed.

Lemma wake_thr_other : forall th t p, (exists t0, owes (get t0 th) = true) -> owes (get t th) = false ->
  exists t0, owes (get t0 (set t p th)) = true.
Proof.
  intros th t p [t0 Ht0] Hf. exists t0. rewrite get_set_other; [exact Ht0|]. intros ->. congruence.
Qed.

Lemma wake_thr_self : forall th t p, owes p = true -> exists t0, owes (get t0 (set t p th)) = true.
Proof. intros. exists t. rewrite get_set_same. assumption. Qed.

Lemma pres_wake : wake_ok s'.
Proof.
  pose proof (I_wake _ I) as Hw. unfold wake_ok in *. start.
  all: rewrite ?Heql0 in *; auto.
  all: try (right; left; lia).
  all: try (right; right; right; right; reflexivity).
  all: try (left; reflexivity).
  all: try (destruct Hw as [Hw|[Hw|[Hw|[Hw|Hw]]]]; try discriminate Hw; try tauto; try lia;
            try (right; right; right; left; apply wake_thr_other; [exact Hw | rewrite ?Heqp, ?H1, ?H; reflexivity]); fail).
  - destruct Hw as [Hw|[Hw|[Hw|[Hw|Hw]]]]; try tauto.
    + right; right; right; left. apply wake_thr_self. rewrite Hw. reflexivity.
    + right; right; right; left. apply wake_thr_other; [exact Hw | rewrite Heqp; reflexivity].
  - destruct Hw as [Hw|[Hw|[Hw|[Hw|Hw]]]]; try tauto.
    + left. rewrite Hw. reflexivity.
    + right; right; right; left. apply wake_thr_other; [exact Hw | rewrite Heqp; reflexivity].
  - destruct Hw as [Hw|[Hw|[Hw|[Hw|Hw]]]]; try tauto.
    right; right; right; left. destruct Hw as [t0 Ht0]. destruct (Nat.eq_dec t0 t) as [->|Hn].
    + rewrite Heqp in Ht0. apply wake_thr_self. exact Ht0.
    + exists t0. rewrite get_set_other; [exact Ht0|congruence].
  - left. subst. apply is_nil_true in Heqb1.
    destruct (pending s) as [|x r] eqn:Ep; [reflexivity|exfalso].
    assert (Hx : In x (reg s)) by (apply (I_sub _ I); left; rewrite Ep; left; reflexivity).
    assert (Hr : In x (rem e (reg s))).
    { apply In_rem. split; [exact Hx|]. intros ->. destruct (I_ulocked _ I _ Heqp) as [Hp _].
      apply Hp. rewrite Ep. left. reflexivity. }
    rewrite Heqb1 in Hr. exact Hr.
Qed.
End Preservation.

Lemma step_inv : forall s l s', Inv s -> step s l = Some s' -> Inv s'.
Proof.
  intros s l s' I H. constructor.
  - eapply pres_wake; eauto.
  - eapply pres_owed; eauto.
  - eapply pres_batch; eauto.
  - eapply pres_sub; eauto.
  - eapply pres_begun; eauto.
  - eapply pres_unreg; eauto.
  - eapply pres_ulocked; eauto.
  - eapply pres_count; eauto.
  - eapply pres_lock; eauto.
  - eapply pres_lock_rev; eauto.
  - eapply pres_run_lock; eauto.
  - eapply pres_ownidle; eauto.
  - eapply pres_uown; eauto.
  - eapply pres_blocked; eauto.
Qed.

Lemma init_inv : forall o r, Inv (init o r).
Proof.
  intros o r. constructor; unfold init, wake_ok, batch_ok; simpl; auto; try (intros; discriminate); try tauto.
Qed.

Lemma exec_inv : forall ls s s', Inv s -> exec s ls = Some s' -> Inv s'.
Proof.
  induction ls as [|l r IH]; simpl; intros s s' I H.
  - injection H as <-. exact I.
  - destruct (step s l) as [s1|] eqn:E; [|discriminate]. eapply IH; [eapply step_inv; eauto | exact H].
Qed.

Theorem reachable_inv : forall o r ls s, exec (init o r) ls = Some s -> Inv s.
Proof. intros. eapply exec_inv; [apply init_inv | eassumption]. Qed.

Lemma exec_app : forall l1 l2 s, exec s (l1 ++ l2) = match exec s l1 with Some s1 => exec s1 l2 | None => None end.
Proof.
  induction l1 as [|l r IH]; simpl; intros; [reflexivity|].
  destruct (step s l); [apply IH | reflexivity].
Qed.

Lemma exec_own : forall ls s s', exec s ls = Some s' -> own s' = own s /\ raw s' = raw s.
Proof.
  induction ls as [|l r IH]; simpl; intros s s' H.
  - injection H as <-. auto.
  - destruct (step s l) as [s1|] eqn:E; [|discriminate].
    destruct (step_own _ _ _ E) as [A B]. destruct (IH _ _ H) as [C D]. split; congruence.
Qed.

(* ---- the property lemmas ---- *)
Definition all_between (s : state) : Prop := forall t, get t (thr s) = PIdle.
Definition owner_blocked (s : state) : Prop := run s = RBlocked /\ kick s = 0.

Lemma wakeup_invariant : forall o r ls s, exec (init o r) ls = Some s ->
  (pending s <> [] ->
     0 < kick s \/ local s = true \/
     (exists t e, get t (thr s) = PLocked e true \/ get t (thr s) = PAtKick e true) \/
     run s = RWoken) /\
  (forall e, owed s e = true -> In e (pending s) \/ In e (batch s)).
Proof.
  intros o r ls s H. pose proof (reachable_inv _ _ _ _ H) as I. split.
  - intros Hp. destruct (I_wake _ I) as [Hw|[Hw|[Hw|[[t Hw]|Hw]]]]; [congruence|tauto|tauto| |tauto].
    right; right; left. exists t. destruct (get t (thr s)) as [| |e [|]|e [|]| | |]; simpl in Hw; try discriminate; eauto.
  - exact (I_owed _ I).
Qed.

Lemma no_lost_post : forall o r ls s, exec (init o r) ls = Some s ->
  owner_blocked s -> all_between s ->
  pending s = [] /\ batch s = [] /\ (forall e, owed s e = false) /\ local s = false.
Proof.
  intros o r ls s H [Hb Hk] Ha. pose proof (reachable_inv _ _ _ _ H) as I.
  assert (Hl : local s = false) by (apply (I_blocked _ I); exact Hb).
  assert (Hbt : batch s = []) by (pose proof (I_batch _ I) as B; unfold batch_ok in B; rewrite Hb in B; exact B).
  assert (Hp : pending s = []).
  { destruct (I_wake _ I) as [Hw|[Hw|[Hw|[[t Hw]|Hw]]]]; auto; try lia; try congruence.
    rewrite (Ha t) in Hw. discriminate. }
  repeat split; auto.
  intros e. destruct (owed s e) eqn:E; [|reflexivity].
  destruct (I_owed _ I _ E) as [X|X]; [rewrite Hp in X | rewrite Hbt in X]; destruct X.
Qed.

Lemma no_over_delivery : forall o r ls s e, exec (init o r) ls = Some s ->
  handler_starts s e <= posts_begun s e.
Proof.
  intros o r ls s e H. pose proof (I_count _ (reachable_inv _ _ _ _ H) e). lia.
Qed.

(* what a handler label needs *)
Lemma handler_step : forall s t e s', step s (LHandler t e) = Some s' ->
  t = own s /\ (exists last, run s = RToHandler e last) /\ lock s <> Some t /\ get t (thr s) = PIdle.
Proof.
  intros s t e s' H. unfold step in H. destruct (run s) eqn:Er; try discriminate.
  destruct (Nat.eqb t (own s) && Nat.eqb e e0 && is_idle (get (own s) (thr s)) &&
            negb match lock s with Some h => Nat.eqb h t | None => false end) eqn:C; [|discriminate].
  apply andb_true_iff in C. destruct C as [C C4]. apply andb_true_iff in C. destruct C as [C C3].
  apply andb_true_iff in C. destruct C as [C1 C2]. apply Nat.eqb_eq in C1, C2. apply is_idle_true in C3. subst.
  repeat split; eauto.
  intros Hl. rewrite Hl in C4. rewrite Nat.eqb_refl in C4. discriminate.
Qed.

Lemma handler_in_trace : forall pre t e post s0 s', exec s0 (pre ++ LHandler t e :: post) = Some s' ->
  exists s, exec s0 pre = Some s /\ t = own s /\ (exists last, run s = RToHandler e last) /\
            lock s <> Some t /\ get t (thr s) = PIdle.
Proof.
  intros pre t e post s0 s' H. rewrite exec_app in H. destruct (exec s0 pre) as [s|] eqn:E; [|discriminate].
  cbn [exec] in H. destruct (step s (LHandler t e)) as [s1|] eqn:E1; [|discriminate].
  exists s. split; [reflexivity|]. eapply handler_step; eauto.
Qed.

Lemma owner_only : forall ls s0 s', exec s0 ls = Some s' ->
  Forall (fun l => match l with LHandler t _ => t = own s0 | _ => True end) ls.
Proof.
  induction ls as [|l r IH]; simpl; intros s0 s' H; [constructor|].
  destruct (step s0 l) as [s1|] eqn:E; [|discriminate]. constructor.
  - destruct l; auto. apply handler_step in E. tauto.
  - destruct (step_own _ _ _ E) as [A _]. rewrite <- A. eapply IH; eauto.
Qed.

(* mutual exclusion on event_list_mutex (M1) *)
Lemma lock_exclusive : forall o r ls s t u, exec (init o r) ls = Some s ->
  locked_ppc (get t (thr s)) = true \/ (t = own s /\ get t (thr s) = PIdle /\ run_locked (run s) = true) ->
  locked_ppc (get u (thr s)) = true \/ (u = own s /\ get u (thr s) = PIdle /\ run_locked (run s) = true) ->
  t = u.
Proof.
  intros o r ls s t u H Ht Hu. pose proof (reachable_inv _ _ _ _ H) as I.
  assert (A : lock s = Some t).
  { destruct Ht as [Ht|[-> [_ Ht]]]; [apply (I_lock_rev _ I); exact Ht | apply (I_run_lock _ I); exact Ht]. }
  assert (B : lock s = Some u).
  { destruct Hu as [Hu|[-> [_ Hu]]]; [apply (I_lock_rev _ I); exact Hu | apply (I_run_lock _ I); exact Hu]. }
  congruence.
Qed.

(* the meaning of the ghost counters: numbers of labels *)
Fixpoint n_posts (e : nat) (ls : list label) : nat :=
  match ls with
  | [] => 0
  | LPostBegin _ x :: r => (if Nat.eqb x e then 1 else 0) + n_posts e r
  | _ :: r => n_posts e r
  end.

Fixpoint n_starts (e : nat) (ls : list label) : nat :=
  match ls with
  | [] => 0
  | LHandler _ x :: r => (if Nat.eqb x e then 1 else 0) + n_starts e r
  | _ :: r => n_starts e r
  end.

Lemma step_ghost : forall s l s' e, step s l = Some s' ->
  posts_begun s' e = n_posts e [l] + posts_begun s e /\
  handler_starts s' e = n_starts e [l] + handler_starts s e.
Proof.
  intros s l s' e H. destruct l; step_cases H; expand; unfold upd; cbv beta; simpl; auto.
  all: eqs; auto; congruence.
Qed.

Lemma n_posts_app : forall e l1 l2, n_posts e (l1 ++ l2) = n_posts e l1 + n_posts e l2.
Proof. induction l1 as [|l r IH]; simpl; intros; [reflexivity|]. destruct l; rewrite ?IH; lia. Qed.

Lemma n_starts_app : forall e l1 l2, n_starts e (l1 ++ l2) = n_starts e l1 + n_starts e l2.
Proof. induction l1 as [|l r IH]; simpl; intros; [reflexivity|]. destruct l; rewrite ?IH; lia. Qed.

Lemma exec_ghost : forall ls s s' e, exec s ls = Some s' ->
  posts_begun s' e = n_posts e ls + posts_begun s e /\
  handler_starts s' e = n_starts e ls + handler_starts s e.
Proof.
  induction ls as [|l r IH]; intros s s' e H.
  - simpl in H. injection H as <-. simpl. auto.
  - cbn [exec] in H. destruct (step s l) as [s1|] eqn:E; [|discriminate].
    destruct (step_ghost _ _ _ e E) as [A B]. destruct (IH _ _ e H) as [C D].
    change (l :: r) with ([l] ++ r). rewrite n_posts_app, n_starts_app. lia.
Qed.

Lemma ghost_counts : forall o r ls s e, exec (init o r) ls = Some s ->
  posts_begun s e = n_posts e ls /\ handler_starts s e = n_starts e ls.
Proof. intros o r ls s e H. destruct (exec_ghost _ _ _ e H) as [A B]. simpl in A, B. lia. Qed.

Lemma no_over_delivery_trace : forall o r ls s e, exec (init o r) ls = Some s -> n_starts e ls <= n_posts e ls.
Proof.
  intros o r ls s e H. destruct (ghost_counts _ _ _ _ e H) as [A B].
  pose proof (no_over_delivery _ _ _ _ e H). lia.
Qed.

(* the end-of-run label: QUIESCENT is possible only with the owner blocked (nothing to wake it) or
   returned from iv_main, and every thread outside iv_event_post / iv_event_unregister *)
Lemma end_step : forall s q s', step s (LEnd q) = Some s' ->
  s' = s /\ all_between s /\ ((q = true /\ owner_blocked s) \/ run s = RExited).
Proof.
  intros s q s' H. unfold step in H. destruct (all_idle (thr s)) eqn:Ea; [|discriminate].
  assert (Hab : all_between s) by (intros t; apply all_idle_get; exact Ea).
  destruct (run s) eqn:Er; try discriminate.
  - destruct (q && Nat.eqb (kick s) 0) eqn:C; [|discriminate]. injection H as <-.
    apply andb_true_iff in C. destruct C as [C1 C2]. apply Nat.eqb_eq in C2.
    repeat split; auto. left. unfold owner_blocked. auto.
  - injection H as <-. auto.
Qed.

Lemma quiescent_no_lost_post : forall o r ls q s, exec (init o r) (ls ++ [LEnd q]) = Some s ->
  run s <> RExited ->
  q = true /\ pending s = [] /\ batch s = [] /\ (forall e, owed s e = false).
Proof.
  intros o r ls q s H Hne. rewrite exec_app in H. destruct (exec (init o r) ls) as [s1|] eqn:E; [|discriminate].
  cbn [exec] in H. destruct (step s1 (LEnd q)) as [s2|] eqn:E2; [|discriminate]. injection H as <-.
  destruct (end_step _ _ _ E2) as [-> [Hab [[Hq Hb]|Hx]]]; [|congruence].
  destruct (no_lost_post _ _ _ _ E Hb Hab) as [A [B [C _]]]. auto.
Qed.
