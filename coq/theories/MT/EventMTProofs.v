(* EventMTProofs.v -- invariants of the iv_event transition system (MT/EventMT.v), by induction
   over accepted label sequences from the initial state: any number of threads and events, any
   program, any schedule, both transports.  Names M1..M5 as in DESIGN.md Appendix A.6. *)
From Coq Require Import List Bool Arith Lia.
From Ivv Require Import MT.EventMT MT.EventMTLemmas.
Import ListNotations.

(* ---- the invariant ---- *)
Definition owes (p : ppc) : bool :=
  match p with PLocked _ true | PAtKick _ true => true | _ => false end.

Definition toh (e : nat) (r : rpc) : nat :=
  match r with
  | RLockedPop x _ | RToHandler x _ => if Nat.eqb x e then 1 else 0
  | _ => 0
  end.

Definition batch_ok (s : state) : Prop :=
  match run s with
  | RLoop | RBlocked | RWoken | RLockedEmpty | RExited => batch s = []
  | RLockedPop _ true | RToHandler _ true => batch s = []
  | _ => True
  end.

Definition run_idle (r : rpc) : bool :=
  match r with
  | RBlocked | RWoken | RLockedEmpty | RLockedPop _ _ | RToHandler _ _ => true
  | _ => false
  end.

Definition locked_ppc (p : ppc) : bool :=
  match p with PLocked _ _ | ULocked _ => true | _ => false end.

Definition run_locked (r : rpc) : bool :=
  match r with RLockedEmpty | RLockedPop _ _ => true | _ => false end.

(* M2: something will still wake the owner up while posts are pending *)
Definition wake_ok (s : state) : Prop :=
  pending s = [] \/ 0 < kick s \/ local s = true \/
  (exists t, owes (get t (thr s)) = true) \/ run s = RWoken.

Record Inv (s : state) : Prop := {
  I_wake : wake_ok s;
  (* M3 *)
  I_owed : forall e, owed s e = true -> In e (pending s) \/ In e (batch s);
  I_batch : batch_ok s;
  I_sub : forall e, In e (pending s) \/ In e (batch s) -> In e (reg s);
  I_begun : forall t e, get t (thr s) = PBegun e -> In e (reg s);
  I_unreg : forall e t, unreg_of e (get (own s) (thr s)) = true -> t <> own s -> on_ev e (get t (thr s)) = false;
  I_ulocked : forall e, get (own s) (thr s) = ULocked e -> ~ In e (pending s) /\ ~ In e (batch s);
  (* M5 *)
  I_count : forall e, handler_starts s e + occ e (pending s) + occ e (batch s) + toh e (run s) + cnt e (thr s)
                      <= posts_begun s e;
  (* M1 *)
  I_lock : forall t, lock s = Some t ->
             locked_ppc (get t (thr s)) = true \/
             (t = own s /\ get t (thr s) = PIdle /\ run_locked (run s) = true);
  I_lock_rev : forall t, locked_ppc (get t (thr s)) = true -> lock s = Some t;
  I_run_lock : run_locked (run s) = true -> lock s = Some (own s);
  I_ownidle : run_idle (run s) = true -> get (own s) (thr s) = PIdle;
  I_uown : forall t e, unreg_of e (get t (thr s)) = true -> t = own s;
  (* M4 *)
  I_blocked : run s = RBlocked -> local s = false
}.

(* ---- tactics ---- *)
Ltac sf := cbn [own raw pending batch lock kick local reg thr run posts_begun handler_starts owed
                set_pending set_batch set_lock set_kick set_local set_reg set_thr set_run set_posts
                set_starts set_owed] in *.

Ltac bm H :=
  match type of H with
  | context [match ?x with _ => _ end] => destruct x eqn:?
  end.

Ltac step_cases H :=
  unfold step in H; repeat bm H; try discriminate H;
  injection H as H; subst.

Ltac bools :=
  repeat match goal with
  | H : _ && _ = true |- _ => apply andb_true_iff in H; destruct H
  | H : _ || _ = false |- _ => apply orb_false_iff in H; destruct H
  | H : negb _ = true |- _ => apply negb_true_iff in H
  | H : negb _ = false |- _ => apply negb_false_iff in H
  | H : Nat.eqb _ _ = true |- _ => apply Nat.eqb_eq in H
  | H : Nat.eqb _ _ = false |- _ => apply Nat.eqb_neq in H
  | H : is_idle _ = true |- _ => apply is_idle_true in H
  end.

(* own / raw never change *)
Lemma step_own : forall s l s', step s l = Some s' -> own s' = own s /\ raw s' = raw s.
Proof.
  intros s l s' H. destruct l; step_cases H;
    unfold post_cs, start_run, relock_run, finish_unreg; sf;
    repeat match goal with |- context [match ?x with _ => _ end] => destruct x end; sf; auto.
Qed.

Ltac expand :=
  unfold post_cs, start_run, relock_run, finish_unreg in *; sf;
  repeat (match goal with
          | |- context [if ?x then _ else _] => destruct x eqn:?
          | |- context [match pending ?s with _ => _ end] => destruct (pending s) eqn:?
          | |- context [match batch ?s with _ => _ end] => destruct (batch s) eqn:?
          end; sf).

Ltac eqs :=
  repeat (match goal with
          | |- context [Nat.eqb ?a ?b] => destruct (Nat.eqb a b) eqn:?
          | H : context [Nat.eqb ?a ?b] |- _ => destruct (Nat.eqb a b) eqn:?
          end; bools); subst.

