(* WorkMTInvA.v -- structural invariants of MT/WorkMT.v (InvA of WorkMTSpec.v) *)
From Coq Require Import List ZArith Bool Arith Lia.
From Ivv Require Import MT.WorkMT MT.WorkMTBase MT.WorkMTSpec MT.WorkMTCs.
Import ListNotations.
Local Open Scope Z_scope.

Ltac cs_facts :=
  repeat match goal with
  | H : cs_submit_g _ _ _ _ = Some _ |- _ => let FG := fresh "FG" in apply cs_submit_g_spec in H; destruct H as (FG & H)
  | H : cs_submit _ _ _ = Some _ |- _ => apply cs_submit_spec in H; destruct H
  | H : cs_got _ _ _ = Some _ |- _ => apply cs_got_spec in H
  | H : cs_after _ _ _ _ _ = Some _ |- _ => apply cs_after_spec in H; destruct H as (? & ? & ?)
  | H : cs_idle _ _ _ = Some _ |- _ => apply cs_idle_spec in H
  | H : cs_needed _ = _ |- _ => apply cs_needed_spec in H
  end.

Ltac upd_goal :=
  let x := fresh "x" in let E := fresh "E" in
  intro x; unfold upd; destruct (Nat.eqb x _) eqn:E; rewrite ?E; bools; subst; cbn [wpcf wkicked wkpend tk tp].

Ltac hold_facts :=
  repeat match goal with
  | H : holds _ _ = true |- _ => apply holds_true in H
  | H : holds _ _ = false |- _ => apply holds_false in H
  end.

Lemma a_todo_step : forall s l s', (lock s = None -> todo s = []) -> step s l = Some s' -> (lock s' = None -> todo s' = []).
Proof.
  intros s l s' I H.
  step_inv H; hold_facts; ssimp; ifs; ssimp; auto; try discriminate; try congruence.
Qed.

Definition TB (s : state) : Prop :=
  NoDup (tids s) /\ ~ In (own s) (tids s) /\
  (forall n, tk (th s n) <> KNone <-> In n (tids s)) /\
  (forall w, In w (wids s) <-> In w (tids s) /\ tk (th s w) = KWorker) /\
  (forall w, wpc_of s w <> WNone <-> In w (wids s)) /\
  NoDup (wids s).

Lemma own_step : forall s l s', step s l = Some s' -> own s' = own s.
Proof.
  intros s l s' H. step_inv H; ssimp; ifs; ssimp; auto.
Qed.

Lemma TB_step : forall s l s', TB s -> step s l = Some s' -> TB s'.
Proof.
  intros s l s' (I1 & I2 & I3 & I4 & I5 & I6) H.
  step_inv H; hold_facts; cs_facts; ssimp; ifs; ssimp; bools; unfold TB; ssimp.
  all: repeat match goal with |- _ /\ _ => split end; try assumption.
  all: try (upd_goal; solve [auto]).
  all: try (upd_goal; [ | solve [auto]];
            match goal with E : wpcf (wk ?s ?n) = _ |- _ <-> In ?n _ =>
              let h := fresh in pose proof (I5 n) as h; rewrite E in h; split; intros; [apply h | ]; try discriminate;
              eauto using loop_out_pc, idle_out_pc end).
  all: match goal with H : memb _ (tids _) = false |- _ => apply memb_false in H end.
  all: assert (NW : ~ In n0 (wids s)) by (intros X; apply I4 in X; tauto).
  all: try (constructor; assumption).
  all: try (simpl; intros [X | X]; [congruence | contradiction]).
  - upd_goal.
    + split; intros; [now left | discriminate].
    + rewrite I3. simpl. split; [intros Q; auto | intros [Q | Q]; auto; congruence].
  - upd_goal.
    + simpl. split; auto.
    + simpl. rewrite I4. split; [intros [X | X] | intros ([X | X] & Y)]; try congruence; auto. tauto.
  - upd_goal.
    + simpl. split; intros; auto. discriminate.
    + simpl. rewrite I5. split; [intros Q; auto | intros [Q | Q]; auto; congruence].
  - upd_goal.
    + split; intros; [now left | discriminate].
    + rewrite I3. simpl. split; [intros Q; auto | intros [Q | Q]; auto; congruence].
  - upd_goal.
    + simpl. split; [intros X; contradiction | intros (_ & X); discriminate].
    + simpl. rewrite I4. split; [intros (X & Y) | intros ([X | X] & Y)]; try congruence; auto.
Qed.

Definition AAct (s : state) : Prop :=
  forall t, act s t <> ANone -> t = own s \/ (exists i last, wpc_of s t = WWork i last) \/
    (tk (th s t) = KHelper /\ (tp (th s t) = TRun \/ tp (th s t) = TExiting)).

Lemma unlock_act_none : forall a, unlock_act a = ANone -> a = ANone.
Proof. destruct a; simpl; auto. - destruct g; discriminate. - destruct g; discriminate. Qed.

Lemma AAct_step : forall s l s', TB s -> AAct s -> step s l = Some s' -> AAct s'.
Proof.
  intros s l s' (_ & _ & T3 & T4 & T5 & _) I H.
  step_inv H; hold_facts; cs_facts; unfold AAct in *; ssimp; ifs; ssimp; bools; try assumption.
  all: intros tt Ht; pose proof (I tt) as IT; unfold upd in *.
  all: repeat match goal with
       | |- context [Nat.eqb ?a ?b] => destruct (Nat.eqb a b) eqn:?; bools; subst
       | H : context [Nat.eqb ?a ?b] |- _ => destruct (Nat.eqb a b) eqn:?; bools; subst
       end; cbn [wpcf wkicked wkpend tk tp] in *; auto.
  all: try (right; left; eauto; fail).
  all: try (apply IT; intros X; rewrite X in Ht; now apply Ht).
  all: try (destruct IT as [X | [(i1 & l1 & X) | (X & Y)]]; auto; congruence).
  all: try (unfold own_may_act in *; bools; subst; auto; fail).
  all: try (destruct (wpcf (wk s tt)) eqn:P; try discriminate; right; left; eauto; fail).
  all: try congruence.
  all: try (unfold act_free in *; apply IT; intros X; rewrite X in *; try discriminate; now apply Ht).
  all: try (destruct IT as [X | [(i1 & l1 & X) | (X & [Y | Y])]]; auto; try congruence; try (right; left; eauto; fail); fail).
  all: try (apply memb_false in H0; exfalso; destruct IT as [X | [(i1 & l1 & X) | (X & _)]]; auto; apply H0;
            [apply T4; apply T5; rewrite X; discriminate | apply T3; rewrite X; discriminate]).
  all: try (apply orb_true_iff in H0; destruct H0 as [H0 | X];
            [apply orb_true_iff in H0; destruct H0 as [X | X];
             [unfold own_may_act in X; bools; auto | destruct (wpcf (wk s n)) eqn:P; try discriminate; right; left; eauto]
            | unfold helper_runs in X; destruct (tk (th s n)); try discriminate; destruct (tp (th s n)); try discriminate;
              right; right; auto]).
  all: exfalso; unfold act_free in *; destruct (act s n); try discriminate; now apply Ht.
Qed.

Definition ALock (s : state) : Prop := forall t, lock s = Some t -> exists p, pl s = PLive p.

Lemma ALock_step : forall s l s', ALock s -> step s l = Some s' -> ALock s'.
Proof.
  intros s l s' I H.
  step_inv H; hold_facts; unfold ALock in *; ssimp; ifs; ssimp; try assumption.
  all: try (intros ? X; discriminate X).
  all: try (intros ? X; eauto; fail).
  all: try (intros tt X; destruct (I _ X) as (q & Q); congruence).
  all: show.
Qed.

(* before the pool exists there are no pool threads *)
Definition APN (s : state) : Prop := pl s = PNone -> wids s = [] /\ lock s = None.

Lemma APN_step : forall s l s', APN s -> step s l = Some s' -> APN s'.
Proof.
  intros s l s' I H.
  step_inv H; hold_facts; unfold APN in *; ssimp; ifs; ssimp; try assumption.
  all: try (intros X; discriminate X).
  all: try (intros X; destruct (I X) as (A & B); split; auto; congruence).
  all: try (intros X; destruct (I X) as (A & B); congruence).
Qed.

(* an unregister of a kick event is owed only by the dying worker itself *)
Definition WU (s : state) : Prop :=
  forall w, In (FUnreg w) (todo s) \/ In FStop (todo s) /\ lock s = Some w -> lock s = Some w /\ wpc_of s w = WDead.
