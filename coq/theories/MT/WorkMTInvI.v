(* WorkMTInvI.v -- work items: the status machine followed by every accepted label sequence, the trace counters,
   and where an item in flight is (invariant SI) *)
From Coq Require Import List ZArith Bool Arith Lia.
From Ivv Require Import MT.WorkMT MT.WorkMTBase MT.WorkMTSpec MT.WorkMTCs MT.WorkMTInvA MT.WorkMTInvW MT.WorkMTInvW4
  MT.WorkMTInvW5 MT.WorkMTProofs.
Import ListNotations.
Local Open Scope Z_scope.

Lemma items_step : forall s l s', step s l = Some s' -> istep (items s) l = Some (items s').
Proof.
  intros s l s' H.
  step_inv H; ssimp; ifs; ssimp; cbn [istep]; try reflexivity.
  all: repeat match goal with E : items _ _ = _ |- _ => rewrite E end; try reflexivity.
  all: bools; subst; try reflexivity.
Qed.

(* ---------- counters ---------- *)
Lemma count_snoc : forall f tr l, count f (tr ++ [l]) = (count f tr + (if f l then 1 else 0))%nat.
Proof. unfold count. intros. rewrite filter_app, app_length. simpl. destruct (f l); simpl; lia. Qed.

Definition CNT (tr : list label) (it : nat -> ist) : Prop := forall i,
  count (is_sub i) tr = (count (is_cp i) tr + st_sub (it i))%nat /\
  count (is_wk i) tr = (count (is_cp i) tr + st_wk (it i))%nat /\
  count (is_rt i) tr = (count (is_cp i) tr + st_rt (it i))%nat.

Lemma istep_cnt : forall tr it l it', CNT tr it -> istep it l = Some it' -> CNT (tr ++ [l]) it'.
Proof.
  unfold CNT. intros tr it l it' C H i. destruct (C i) as (C1 & C2 & C3). rewrite !count_snoc.
  destruct l; simpl in H; try (inversion H; subst; simpl; lia).
  all: destruct (it i0) eqn:E; try discriminate; inversion H; subst; clear H.
  all: cbn [is_sub is_wk is_rt is_cp]; unfold upd; destruct (Nat.eqb i i0) eqn:Q; [apply Nat.eqb_eq in Q; subst; rewrite E in *; cbn [st_sub st_wk st_rt] in *; lia | lia].
Qed.

Lemma cnt_run : forall o tr s, run (init o) tr = Some s -> CNT tr (items s).
Proof.
  intros o. apply (run_ind_tr (fun tr s => CNT tr (items s))).
  - intros i. cbn. auto.
  - intros tr s l s' R C H. eapply istep_cnt; eauto. now apply items_step.
Qed.

(* ---------- where the items are ---------- *)
Lemma free_empty : forall s p, Inv s -> In FFree (todo s) -> pl s = PLive p -> pitems p = [] /\ pdone p = [].
Proof.
  intros s p IV F P. destruct IV as [i_tb0 i_todo0 i_act0 i_lock0 i_pn0 i_wf0 i_wu0 i_w10 i_w1b0 i_idle0 i_w20 i_w40 i_hfx0 i_w50].
  destruct (i_wf0 F p P) as (S0 & D0 & _). split; auto.
  destruct (pitems p) eqn:IT; auto. exfalso.
  assert (NE : pitems p <> []) by (rewrite IT; discriminate).
  destruct i_w1b0 as (B & _). destruct (B p P) as (B1 & _).
  assert (NL : nlive s = 0%nat) by lia.
  assert (TD : exists t, lock s = Some t).
  { destruct (lock s) eqn:L; eauto. rewrite (i_todo0 eq_refl) in F. destruct F. }
  destruct (i_w40 p P NE) as [FC | (w & INW & W)].
  - assert (ncreate (todo s) = 0%nat) by lia. unfold ncreate in H.
    induction (todo s); simpl in *; [destruct FC |]. destruct FC as [-> | FC]; simpl in H; [discriminate |].
    destruct (is_create a); simpl in H; [discriminate | auto].
  - assert (LW : is_live (wpc_of s w) = true).
    { destruct W as [AC | (PL & _)]; [| rewrite PL; reflexivity]. destruct (wpc_of s w); try discriminate; reflexivity. }
    unfold nlive in NL. assert (X : In w (filter (fun w => is_live (wpc_of s w)) (wids s))) by (apply filter_In; auto).
    destruct (filter (fun w => is_live (wpc_of s w)) (wids s)); [destruct X | discriminate NL].
Qed.

Lemma SI_step : forall s l s', Inv s -> SI s -> step s l = Some s' -> SI s'.
Proof.
  intros s l s' IV I H.
  step_inv H.
  all: hold_facts; cs_facts.
  all: unfold SI, pitems_of, pdone_of, wpc_of in *.
  all: ssimp.
  all: ifs.
  all: ssimp.
  all: try assumption.
  all: intros j; specialize (I j).
  all: show.
Admitted.
