(* WorkMTInvI.v -- work items: the status machine followed by every accepted label sequence, the trace counters,
   and where an item in flight is (invariant SI) *)
From Coq Require Import List ZArith Bool Arith Lia.
From Ivv Require Import MT.WorkMT MT.WorkMTBase MT.WorkMTSpec MT.WorkMTCs MT.WorkMTInvA MT.WorkMTInvW MT.WorkMTInvW4
  MT.WorkMTInvW5 MT.WorkMTProofs.
Import ListNotations.
Local Open Scope Z_scope.

Lemma items_step : forall s l s', step s l = Some s' -> istep (items s) l = Some (items s').
Proof.
  intros s l s' H.
  step_inv H; ssimp; ifs; ssimp; cbn [istep]; try reflexivity.
  all: repeat match goal with E : items _ _ = _ |- _ => rewrite E end; try reflexivity.
  all: bools; subst; try reflexivity.
Qed.

(* ---------- counters ---------- *)
Lemma count_snoc : forall f tr l, count f (tr ++ [l]) = (count f tr + (if f l then 1 else 0))%nat.
Proof. unfold count. intros. rewrite filter_app, app_length. simpl. destruct (f l); simpl; lia. Qed.

Definition CNT (tr : list label) (it : nat -> ist) : Prop := forall i,
  count (is_sub i) tr = (count (is_cp i) tr + st_sub (it i))%nat /\
  count (is_wk i) tr = (count (is_cp i) tr + st_wk (it i))%nat /\
  count (is_rt i) tr = (count (is_cp i) tr + st_rt (it i))%nat.

Lemma istep_cnt : forall tr it l it', CNT tr it -> istep it l = Some it' -> CNT (tr ++ [l]) it'.
Proof.
  unfold CNT. intros tr it l it' C H i. destruct (C i) as (C1 & C2 & C3). rewrite !count_snoc.
  destruct l; simpl in H; try (inversion H; subst; simpl; lia).
  all: destruct (it i0) eqn:E; try discriminate; inversion H; subst; clear H.
  all: cbn [is_sub is_wk is_rt is_cp]; unfold upd; destruct (Nat.eqb i i0) eqn:Q; [apply Nat.eqb_eq in Q; subst; rewrite E in *; cbn [st_sub st_wk st_rt] in *; lia | lia].
Qed.

Lemma cnt_run : forall o tr s, run (init o) tr = Some s -> CNT tr (items s).
Proof.
  intros o. apply (run_ind_tr (fun tr s => CNT tr (items s))).
  - intros i. cbn. auto.
  - intros tr s l s' R C H. eapply istep_cnt; eauto. now apply items_step.
Qed.

(* ---------- where the items are ---------- *)
Lemma ncreate_zero : forall l, ncreate l = 0%nat -> ~ In FCreate l.
Proof.
  unfold ncreate. induction l; simpl; intros H X; auto. destruct X as [-> | X].
  - simpl in H. discriminate.
  - destruct (is_create a); simpl in H; [discriminate | now apply IHl].
Qed.

Lemma free_empty : forall s p, Inv s -> In FFree (todo s) -> pl s = PLive p -> pitems p = [] /\ pdone p = [].
Proof.
  intros s p IV F P. destruct IV as [i_tb0 i_todo0 i_act0 i_lock0 i_pn0 i_wf0 i_wu0 i_w10 i_w1b0 i_idle0 i_w20 i_w40 i_hfx0 i_w50].
  destruct (i_wf0 F p P) as (S0 & D0 & SH0). split; auto.
  destruct (pitems p) eqn:IT; auto. exfalso.
  assert (NE : pitems p <> []) by (rewrite IT; discriminate).
  destruct i_w1b0 as (B & _). destruct (B p P) as (B1 & _).
  assert (NL : nlive s = 0%nat) by lia.
  assert (TD : exists t, lock s = Some t).
  { destruct (lock s) eqn:L; eauto. rewrite (i_todo0 eq_refl) in F. destruct F. }
  destruct (i_w40 p P NE) as [FC | [(w & INW & W) | (_ & _ & _ & NS)]]; [| | congruence].
  - assert (ncreate (todo s) = 0%nat) by lia. now apply (ncreate_zero (todo s)).
  - assert (LW : is_live (wpc_of s w) = true).
    { destruct W as [AC | (PL & _)]; [| rewrite PL; reflexivity]. destruct (wpc_of s w); try discriminate; reflexivity. }
    unfold nlive in NL. assert (X : In w (filter (fun w => is_live (wpc_of s w)) (wids s))) by (apply filter_In; auto).
    destruct (filter (fun w => is_live (wpc_of s w)) (wids s)); [destruct X | discriminate NL].
Qed.

Ltac ex_wk :=
  match goal with
  | X : wpcf (wk ?s ?w1) = _ |- exists w last, wpcf (if Nat.eqb w ?n then _ else wk ?s w) = _ =>
    exists w1; eexists;
    let Q := fresh "Q" in destruct (Nat.eqb w1 n) eqn:Q;
    [apply Nat.eqb_eq in Q; subst; cbn [wpcf]; first [exact X | congruence | reflexivity] | exact X]
  | X : wpcf (wk ?s ?w1) = _ |- exists w last, wpcf (wk ?s w) = _ => exists w1; eexists; exact X
  | |- exists w last, wpcf (if Nat.eqb w ?n then _ else _) = _ =>
    exists n; eexists; rewrite Nat.eqb_refl; cbn [wpcf]; reflexivity
  end.

Ltac ex_act :=
  match goal with
  | X : act ?s ?t1 = ASubmit _ SBefore |- exists t, (if Nat.eqb t ?n then _ else act ?s t) = _ =>
    exists t1; let Q := fresh "Q" in destruct (Nat.eqb t1 n) eqn:Q;
    [apply Nat.eqb_eq in Q; subst; first [exact X | congruence | (rewrite X; reflexivity)] | exact X]
  | X : act ?s ?t1 = ASubmit _ SBefore |- exists t, act ?s t = _ => exists t1; exact X
  | |- exists t, (if Nat.eqb t ?n then _ else _) = _ => exists n; rewrite Nat.eqb_refl; reflexivity
  end.

Ltac si_try := first [ assumption | ex_wk | ex_act | (eexists; split; [reflexivity | assumption]) | (eexists; split; [eassumption | assumption]) ].

Lemma SI_step : forall s l s', Inv s -> SI s -> step s l = Some s' -> SI s'.
Proof.
  intros s l s' IV I H.
  step_inv H.
  all: hold_facts; cs_facts.
  all: unfold SI, pitems_of, pdone_of, wpc_of in *.
  all: ssimp.
  all: ifs.
  all: ssimp.
  all: try assumption.
  all: repeat match goal with E : pl _ = _ |- _ => rewrite E in * end.
  all: repeat match goal with E : ohst _ = _ |- _ => rewrite E in * end.
  all: outs; subst.
  all: cbn [pitems pdone p_set_items p_set_head p_set_tail p_set_idle p_set_done p_set_started p_set_shut] in *.
  all: intros j; specialize (I j).
  all: unfold upd in *.
  all: repeat match goal with
       | |- context [Nat.eqb ?a ?b] => destruct (Nat.eqb a b) eqn:?; bools; subst
       | H : context [Nat.eqb ?a ?b] |- _ => destruct (Nat.eqb a b) eqn:?; bools; subst
       end.
  all: cbn [wpcf wkicked wkpend] in *.
  all: repeat match goal with E : items _ _ = _ |- _ => rewrite E in * end.
  all: try exact Logic.I.
  all: try assumption.
  all: try (destruct (items s j) eqn:IT; try exact Logic.I; try assumption).
  all: repeat match goal with
       | H : _ \/ _ |- _ => destruct H
       | H : exists _, _ |- _ => destruct H
       | H : _ /\ _ |- _ => destruct H
       end.
  all: try congruence.
  all: try (left; assumption).
  all: try (right; left; eauto; fail).
  all: try (right; right; eauto; fail).
  all: try (eauto; fail).
  all: try match goal with H : memb ?n0 (tids _) = false |- _ =>
         assert (WN : wpcf (wk s n0) = WNone) by
           (destruct IV as [(_ & _ & _ & T4 & T5 & _) _ _ _ _ _ _ _ _ _ _ _ _ _]; destruct (wpcf (wk s n0)) eqn:Z; auto; exfalso;
            apply memb_false in H; apply H; apply T4; apply T5; unfold wpc_of; rewrite Z; discriminate) end.
  all: repeat match goal with E : pitems _ = _ :: _ |- _ => rewrite E in * end.
  all: rewrite ?in_app_iff in *; cbn [In] in *.
  all: repeat match goal with
       | H : _ \/ _ |- _ => destruct H; subst
       | H : False |- _ => destruct H
       end.
  all: repeat match goal with E : lq _ = _ |- _ => rewrite E in * | E : lbatch _ = _ |- _ => rewrite E in * end; cbn [In app] in *.
  all: repeat match goal with
       | H : _ \/ _ |- _ => destruct H; subst
       | H : False |- _ => destruct H
       end.
  all: try match goal with X : wpcf (wk _ ?x) = _, E : wpcf (wk _ ?n) = _ |- _ =>
         lazymatch x with n => fail | _ => idtac end;
         destruct (Nat.eq_dec x n) as [-> | NEx]; [rewrite E in X; inversion X; subst; clear X |] end.
  all: try match goal with X : act _ ?x = ASubmit _ SBefore, E : act _ ?n = _ |- _ =>
         lazymatch x with n => fail | _ => idtac end;
         destruct (Nat.eq_dec x n) as [-> | NEx]; [rewrite E in X; inversion X; subst; clear X |] end.
  all: try match goal with E : todo _ = [FFree], L : lock _ = Some _ |- _ =>
         destruct (i_lock _ IV _ L) as (pp & PP);
         destruct (free_empty _ pp IV ltac:(rewrite E; now left) PP) as (FE1 & FE2); rewrite PP, ?FE1, ?FE2 in * end.
  all: try match goal with T : otopb _ = true, X : ohst _ = HCompl ?x |- _ => unfold otopb in T; rewrite X in T; destruct x; try discriminate T end.
  all: bools.
  all: try match goal with T : otopb _ = true, X : ohst _ = HCompl ?x |- _ => unfold otopb in T; rewrite X in T; destruct x; try discriminate T end.
  all: cbn [In] in *.
  all: try tauto.
  all: try solve [si_try | left; si_try | right; left; si_try | right; right; si_try].
  all: repeat match goal with H : HCompl _ = HCompl _ |- _ => inversion H; subst; clear H end.
  all: cbn [In] in *.
  all: repeat match goal with
       | H : _ \/ _ |- _ => destruct H; subst
       | H : False |- _ => destruct H
       end.
  all: try congruence.
  all: right; right; eexists; split; [reflexivity | assumption].
Qed.

(* ---------- quiescence ---------- *)
Lemma quiescent_workers_dead : forall s, Inv s -> quiescent s = true ->
  forall w, wpc_of s w = WNone \/ wpc_of s w = WDead.
Proof.
  intros s IV Q w.
  destruct IV as [(TN & TO & T3 & T4 & T5 & ND) i_todo0 i_act0 i_lock0 i_pn0 i_wf0 i_wu0 i_w10 i_w1b0 i_idle0 i_w20 i_w40 i_hfx0 i_w50].
  unfold quiescent in Q. bools.
  destruct (wpc_of s w) eqn:PC; auto; exfalso.
  all: assert (INW : In w (wids s)) by (apply T5; rewrite PC; discriminate).
  all: assert (QT : quiet_thread s w = true) by
      (match goal with F : forallb _ _ = true |- _ => rewrite forallb_forall in F; apply F end; now apply T4).
  all: unfold quiet_thread in QT; destruct (T4 w) as (X & _); destruct (X INW) as (_ & KW); rewrite KW, PC in QT; try discriminate.
  (* a pool thread blocked in its loop with nothing pending and no timer: excluded by W2 *)
  assert (TD : todo s = []).
  { apply i_todo0. destruct (lock s); auto. discriminate. }
  destruct (pl s) as [|p|] eqn:P; bools.
  - destruct (i_pn0 P) as (X1 & _). rewrite X1 in INW. destruct INW.
  - assert (LV : is_live (wpc_of s w) = true) by (rewrite PC; reflexivity).
    destruct (i_w20 p P w INW LV) as [X1 | X1].
    + match goal with M : memb w (pidle p) = false |- _ => apply memb_false in M; contradiction end.
    + unfold wit, kick_due in X1. rewrite PC, TD in X1. cbn in X1.
      destruct X1 as [X1 | (_ & [X1 | X1])]; try discriminate; try congruence; try (destruct X1).
  - destruct i_w1b0 as (_ & B). assert (NL : nlive s = 0%nat) by (apply B; intros q XX; rewrite P in XX; discriminate XX).
    unfold nlive in NL. assert (X1 : In w (filter (fun w => is_live (wpc_of s w)) (wids s))).
    { apply filter_In. split; auto. rewrite PC. reflexivity. }
    destruct (filter (fun w => is_live (wpc_of s w)) (wids s)); [destruct X1 | discriminate NL].
Qed.
