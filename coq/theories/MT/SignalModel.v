(* SignalModel.v -- labelled transition system of iv_signal.c (property C10).
   Written after the C text: iv_signal_compare (signum, exclusive first, address), __iv_signal_do_wake
   (walk from the first interest of the signal, stop after the first exclusive one), iv_signal_handler
   (owner pid check, thread set first, process set under sig_lock if nothing was woken),
   iv_signal_event (clear `active` -- under sig_lock for process-wide interests -- then the user handler),
   iv_signal_register / iv_signal_unregister (under sig_lock with all signals blocked; sigaction on the
   0 <-> 1 transitions of total_num_interests; hand-off of an active exclusive interest to its own tree and,
   since the fix of D5, from a thread tree that has nobody left on to the process tree -- handoff_wake).
   The two AVL trees are one list sorted by iv_signal_compare, filtered by scope (C16 justifies the
   sorted-list view of the tree).  sig_lock is explicit, so atomicity is a consequence of the lock
   discipline and not an assumption.  No proofs in this file. *)
From Coq Require Import List ZArith Bool.
Import ListNotations.
Local Open Scope Z_scope.

Inductive phase := PIdle | POwed | PCleared.

Record irec := {
  i_id : Z;            (* interest (harness numbering: 100 * thread + j) *)
  i_thr : Z;           (* registering thread *)
  i_sig : Z;
  i_excl : bool;       (* IV_SIGNAL_FLAG_EXCLUSIVE *)
  i_tt : bool;         (* IV_SIGNAL_FLAG_THIS_THREAD *)
  i_addr : Z;          (* address of the struct (last key of the comparator) *)
  i_active : bool;     (* ->active *)
  i_cnt : Z;           (* counter of the raw event (posts not yet read) *)
  i_phase : phase      (* event callback: idle / between read and clearing of active / cleared, handler due *)
}.

(* iv_signal_compare < 0 *)
Definition lt_rec (a b : irec) : bool :=
  if i_sig a <? i_sig b then true
  else if i_sig b <? i_sig a then false
  else if i_excl a && negb (i_excl b) then true
  else if negb (i_excl a) && i_excl b then false
  else i_addr a <? i_addr b.

Fixpoint insert (r : irec) (l : list irec) : list irec :=
  match l with
  | [] => [r]
  | x :: t => if lt_rec r x then r :: l else x :: insert r t
  end.

(* scope = which tree: None = process_sigs, Some t = thr_sigs of thread t *)
Definition in_scope (sc : option Z) (r : irec) : bool :=
  match sc with
  | None => negb (i_tt r)
  | Some t => i_tt r && (i_thr r =? t)
  end.

Definition scope_of (r : irec) : option Z := if i_tt r then Some (i_thr r) else None.

Definition cands (sc : option Z) (sig : Z) (l : list irec) : list irec :=
  filter (fun r => in_scope sc r && (i_sig r =? sig)) l.

(* __iv_signal_do_wake: every interest of the signal in tree order up to and including the first exclusive one *)
Fixpoint walk (l : list irec) : list Z :=
  match l with
  | [] => []
  | r :: t => if i_excl r then [i_id r] else i_id r :: walk t
  end.

Definition wake_plan (sc : option Z) (sig : Z) (l : list irec) : list Z := walk (cands sc sig l).

Inductive stage :=
| SIdle
| SThr (plan : list Z)     (* in iv_signal_handler, posting the thread set's selection *)
| SNeedLock (sig : Z)      (* thread set woke nothing: spin_lock(&sig_lock) comes next *)
| SProc (plan : list Z)    (* holds sig_lock, posting the process set's selection *)
| SExit                    (* handler has nothing left to do *)
| SUnreg (plan : list Z).  (* iv_signal_unregister, holds sig_lock, posting the hand-off *)

Record state := {
  regs : list irec;        (* all registered interests, sorted by iv_signal_compare *)
  total : Z -> Z;          (* total_num_interests[] *)
  disp : Z -> bool;        (* sigaction: true = iv_signal_handler, false = SIG_DFL *)
  owner : bool;            (* sig_owner_pid == getpid() of the modelled (parent) process; false = 0 *)
  lock : option Z;         (* holder of sig_lock *)
  stg : Z -> stage;
  masked : Z -> bool       (* the thread has blocked all signals (pthread_sigmask) *)
}.

Definition init : state :=
  {| regs := []; total := fun _ => 0; disp := fun _ => false; owner := false; lock := None; stg := fun _ => SIdle; masked := fun _ => false |}.

Inductive label :=
| LLock (t : Z)
| LUnlock (t : Z)
| LReg (t id sig : Z) (excl thisthr : bool) (addr : Z) (sa : option bool)   (* sa: sigaction seen inside (Some true = handler) *)
| LUnreg (t id : Z) (sa : option bool)
| LSigEnter (t sig : Z) (child : bool)   (* iv_signal_handler entered in thread t (child: in a forked child) *)
| LSigDfl (t sig : Z)                    (* delivery with SIG_DFL installed *)
| LPost (t id : Z)                       (* ->active = 1; iv_event_raw_post *)
| LSigExit (t : Z)
| LRead (t id : Z)                       (* iv_event_raw_got_event reads the counter *)
| LClear (t id : Z)                      (* iv_signal_event: ->active = 0 *)
| LHandler (t id : Z)                    (* user handler called *)
| LBlock (t : Z)                         (* thread t blocks in its kernel wait: nothing readable *)
| LMask (t : Z) (all : bool)             (* pthread_sigmask left thread t with all signals blocked / not *)
| LSaMask (t sig : Z) (full : bool).     (* sigaction installed iv_signal_handler for sig; full: sa_mask blocks every signal *)

Definition upd {A} (f : Z -> A) (k : Z) (v : A) : Z -> A := fun x => if x =? k then v else f x.

Definition find (id : Z) (l : list irec) : option irec := List.find (fun r => i_id r =? id) l.

Definition remove (id : Z) (l : list irec) : list irec := filter (fun r => negb (i_id r =? id)) l.

Definition upd_rec (id : Z) (f : irec -> irec) (l : list irec) : list irec :=
  map (fun r => if i_id r =? id then f r else r) l.

Definition set_post (r : irec) : irec :=
  {| i_id := i_id r; i_thr := i_thr r; i_sig := i_sig r; i_excl := i_excl r; i_tt := i_tt r; i_addr := i_addr r;
     i_active := true; i_cnt := i_cnt r + 1; i_phase := i_phase r |}.
Definition set_read (r : irec) : irec :=
  {| i_id := i_id r; i_thr := i_thr r; i_sig := i_sig r; i_excl := i_excl r; i_tt := i_tt r; i_addr := i_addr r;
     i_active := i_active r; i_cnt := 0; i_phase := POwed |}.
Definition set_clear (r : irec) : irec :=
  {| i_id := i_id r; i_thr := i_thr r; i_sig := i_sig r; i_excl := i_excl r; i_tt := i_tt r; i_addr := i_addr r;
     i_active := false; i_cnt := i_cnt r; i_phase := PCleared |}.
Definition set_idle (r : irec) : irec :=
  {| i_id := i_id r; i_thr := i_thr r; i_sig := i_sig r; i_excl := i_excl r; i_tt := i_tt r; i_addr := i_addr r;
     i_active := i_active r; i_cnt := i_cnt r; i_phase := PIdle |}.

Definition with_regs (s : state) (l : list irec) : state :=
  {| regs := l; total := total s; disp := disp s; owner := owner s; lock := lock s; stg := stg s; masked := masked s |}.
Definition with_stg (s : state) (t : Z) (x : stage) : state :=
  {| regs := regs s; total := total s; disp := disp s; owner := owner s; lock := lock s; stg := upd (stg s) t x; masked := masked s |}.
Definition with_lock (s : state) (o : option Z) : state :=
  {| regs := regs s; total := total s; disp := disp s; owner := owner s; lock := o; stg := stg s; masked := masked s |}.

Definition holds (s : state) (t : Z) : bool := match lock s with Some u => u =? t | None => false end.
Definition is_idle (x : stage) : bool := match x with SIdle => true | _ => false end.
Definition needs_mask (x : stage) : bool := match x with SIdle | SExit => true | _ => false end.
Definition phase_eqb (a b : phase) : bool :=
  match a, b with PIdle, PIdle | POwed, POwed | PCleared, PCleared => true | _, _ => false end.
Definition osb_eqb (a b : option bool) : bool :=
  match a, b with None, None => true | Some x, Some y => Bool.eqb x y | _, _ => false end.

Definition quiet_thread (t : Z) (l : list irec) : bool :=
  forallb (fun r => negb (i_thr r =? t) || ((i_cnt r =? 0) && phase_eqb (i_phase r) PIdle)) l.

Definition do_post (s : state) (id : Z) : state := with_regs s (upd_rec id set_post (regs s)).

(* iv_signal_unregister, hand-off of an active exclusive interest: its own tree first; since the fix of D5
   (fixed = true) a this-thread interest falls back to the process-wide tree when its thread's tree has nobody
   for the signal, like iv_signal_handler does.  fixed = false is the code before that fix. *)
Definition handoff_wake (fixed : bool) (r : irec) (rest : list irec) : list Z :=
  match wake_plan (scope_of r) (i_sig r) rest with
  | [] => if fixed && i_tt r then wake_plan None (i_sig r) rest else []
  | p => p
  end.

Definition step_gen (fixed : bool) (s : state) (l : label) : option state :=
  match l with
  | LLock t =>
      match lock s with
      | Some _ => None
      | None =>
          match stg s t with
          | SIdle =>
              (* outside the handler sig_lock is only taken with all signals blocked by this thread (spin_lock_sigmask;
                 iv_signal_event blocks them itself): a delivery inside the critical section would spin on the lock *)
              if masked s t then Some (with_lock s (Some t)) else None
          | SNeedLock sig => Some (with_stg (with_lock s (Some t)) t (SProc (wake_plan None sig (regs s))))
          | _ => None
          end
      end
  | LUnlock t =>
      if holds s t then
        match stg s t with
        | SIdle => Some (with_lock s None)
        | SProc [] => Some (with_stg (with_lock s None) t SExit)
        | SUnreg [] => Some (with_stg (with_lock s None) t SIdle)
        | _ => None
        end
      else None
  | LReg t id sig excl thisthr addr sa =>
      if holds s t && is_idle (stg s t) && (0 <=? sig) && (sig <? 64) then
        match find id (regs s) with
        | Some _ => None
        | None =>
            let first := total s sig =? 0 in
            if osb_eqb sa (if first then Some true else None) then
              let r := {| i_id := id; i_thr := t; i_sig := sig; i_excl := excl; i_tt := thisthr; i_addr := addr;
                          i_active := false; i_cnt := 0; i_phase := PIdle |} in
              Some {| regs := insert r (regs s); total := upd (total s) sig (total s sig + 1);
                      disp := if first then upd (disp s) sig true else disp s;
                      owner := true; lock := lock s; stg := stg s; masked := masked s |}
            else None
        end
      else None
  | LUnreg t id sa =>
      if holds s t && is_idle (stg s t) then
        match find id (regs s) with
        | None => None
        | Some r =>
            if i_thr r =? t then
              let rest := remove id (regs s) in
              let n := total s (i_sig r) - 1 in
              let last := n =? 0 in
              if osb_eqb sa (if last then Some false else None) then
                Some {| regs := rest; total := upd (total s) (i_sig r) n;
                        disp := if last then upd (disp s) (i_sig r) false else disp s;
                        owner := owner s; lock := lock s;
                        stg := if negb last && i_excl r && i_active r
                               then upd (stg s) t (SUnreg (handoff_wake fixed r rest))
                               else stg s;
                        masked := masked s |}
              else None
            else None
        end
      else None
  | LSigEnter t sig child =>
      if is_idle (stg s t) && disp s sig && (child || negb (holds s t)) then
        if child || negb (owner s) then Some (with_stg s t SExit)
        else
          match wake_plan (Some t) sig (regs s) with
          | [] => Some (with_stg s t (SNeedLock sig))
          | p => Some (with_stg s t (SThr p))
          end
      else None
  | LSigDfl t sig => if negb (disp s sig) then Some s else None
  | LPost t id =>
      match stg s t with
      | SThr (i :: p) => if i =? id then Some (with_stg (do_post s id) t (SThr p)) else None
      | SProc (i :: p) => if i =? id then Some (with_stg (do_post s id) t (SProc p)) else None
      | SUnreg (i :: p) => if i =? id then Some (with_stg (do_post s id) t (SUnreg p)) else None
      | _ => None
      end
  | LSigExit t =>
      match stg s t with
      | SThr [] => Some (with_stg s t SIdle)
      | SExit => Some (with_stg s t SIdle)
      | _ => None
      end
  | LRead t id =>
      match find id (regs s) with
      | Some r =>
          if (i_thr r =? t) && is_idle (stg s t) && phase_eqb (i_phase r) PIdle then
            if 0 <? i_cnt r then Some (with_regs s (upd_rec id set_read (regs s))) else Some s
          else None
      | None => None
      end
  | LClear t id =>
      match find id (regs s) with
      | Some r =>
          if (i_thr r =? t) && phase_eqb (i_phase r) POwed && (i_tt r || holds s t)
          then Some (with_regs s (upd_rec id set_clear (regs s))) else None
      | None => None
      end
  | LHandler t id =>
      match find id (regs s) with
      | Some r =>
          if (i_thr r =? t) && phase_eqb (i_phase r) PCleared
          then Some (with_regs s (upd_rec id set_idle (regs s))) else None
      | None => None
      end
  | LBlock t => if is_idle (stg s t) && quiet_thread t (regs s) then Some s else None
  | LMask t b =>
      (* the mask is not opened while the thread holds sig_lock outside the handler (spin_unlock_sigmask unlocks first) *)
      if b || negb (holds s t && needs_mask (stg s t))
      then Some {| regs := regs s; total := total s; disp := disp s; owner := owner s; lock := lock s; stg := stg s;
                   masked := upd (masked s) t b |}
      else None
  | LSaMask t sig full =>
      (* iv_signal_handler runs with every signal blocked (sigfillset(&sa.sa_mask)): it takes sig_lock *)
      if full then Some s else None
  end.

(* the current code *)
Notation step := (step_gen true).

Fixpoint run_gen (fixed : bool) (s : state) (ls : list label) : option state :=
  match ls with
  | [] => Some s
  | l :: r => match step_gen fixed s l with Some s' => run_gen fixed s' r | None => None end
  end.

Notation run := (run_gen true).

Definition accepts_gen (fixed : bool) (ls : list label) : bool :=
  match run_gen fixed init ls with Some _ => true | None => false end.

Definition accepts (ls : list label) : bool := accepts_gen true ls.

(* position of the first rejected label (for the driver) *)
Fixpoint reject_pos (s : state) (ls : list label) (k : nat) : option nat :=
  match ls with
  | [] => None
  | l :: r => match step s l with Some s' => reject_pos s' r (S k) | None => Some k end
  end.

(* iv_signal_child_reset_postfork: what a forked child that wants its own interests ends up with *)
Definition child_reset_postfork (s : state) : state :=
  {| regs := []; total := fun _ => 0;
     disp := fun sg => if 0 <? total s sg then false else disp s sg;
     owner := false; lock := lock s; stg := stg s; masked := masked s |}.

(* ------------------------------------------------------------------------------------------------
   Monitor: decides the property on a label sequence with its own bookkeeping (no lock, no stages of
   the code): the selection is the *documented* one -- the first exclusive interest if there is one,
   else all -- over the this-thread interests of the receiving thread if it has any for the signal,
   else over the process-wide ones.  full = true states the hand-off at full strength (an exclusive
   this-thread interest hands over to the process-wide ones when no this-thread interest is left). *)
Definition sel (cs : list irec) : list Z :=
  match filter i_excl cs with
  | e :: _ => [i_id e]
  | [] => map i_id cs
  end.

Definition sel_plan (sc : option Z) (sig : Z) (l : list irec) : list Z := sel (cands sc sig l).

Definition mem (x : Z) (l : list Z) : bool := existsb (Z.eqb x) l.
Definition del (x : Z) (l : list Z) : list Z := filter (fun y => negb (y =? x)) l.
Definition count_sig (sig : Z) (l : list irec) : Z := Z.of_nat (length (filter (fun r => i_sig r =? sig) l)).

Inductive mexp :=
| MNone                      (* not in a delivery / hand-off *)
| MPosts (inlock : bool) (p : list Z)   (* these posts must follow, in this order *)
| MNeed (sig : Z).           (* thread set empty: process set selection is fixed when sig_lock is taken *)

Record mstate := {
  m_regs : list irec;        (* registered interests (static fields; kept in comparator order) *)
  m_act : list Z;            (* marked (->active) *)
  m_owed : list Z;           (* posted, not yet read *)
  m_run : list Z;            (* read, handler not yet called *)
  m_exp : Z -> mexp;
  m_masked : Z -> bool       (* the thread has all signals blocked *)
}.

Definition minit : mstate := {| m_regs := []; m_act := []; m_owed := []; m_run := []; m_exp := fun _ => MNone; m_masked := fun _ => false |}.

Definition m_with_exp (m : mstate) (t : Z) (e : mexp) : mstate :=
  {| m_regs := m_regs m; m_act := m_act m; m_owed := m_owed m; m_run := m_run m; m_exp := upd (m_exp m) t e; m_masked := m_masked m |}.

Definition m_post (m : mstate) (id : Z) : mstate :=
  {| m_regs := m_regs m; m_act := id :: del id (m_act m); m_owed := id :: del id (m_owed m); m_run := m_run m;
     m_exp := m_exp m; m_masked := m_masked m |}.

Definition m_quiet (t : Z) (m : mstate) : bool :=
  forallb (fun r => negb (i_thr r =? t) || (negb (mem (i_id r) (m_owed m)) && negb (mem (i_id r) (m_run m)))) (m_regs m).

Definition handoff_plan (full : bool) (r : irec) (rest : list irec) : list Z :=
  match sel_plan (scope_of r) (i_sig r) rest with
  | [] => if full && i_tt r then sel_plan None (i_sig r) rest else []
  | p => p
  end.

Definition mstep (full : bool) (m : mstate) (l : label) : option mstate :=
  match l with
  | LLock t =>
      match m_exp m t with
      | MNeed sig => Some (m_with_exp m t (MPosts true (sel_plan None sig (m_regs m))))
      | MNone => if m_masked m t then Some m else None      (* sig_lock only with all signals blocked by this thread *)
      | _ => None
      end
  | LUnlock t =>
      match m_exp m t with
      | MPosts true [] => Some (m_with_exp m t MNone)
      | MNone => Some m
      | _ => None
      end
  | LReg t id sig excl thisthr addr sa =>
      if osb_eqb sa (if count_sig sig (m_regs m) =? 0 then Some true else None) && negb (mem id (map i_id (m_regs m))) then
        let r := {| i_id := id; i_thr := t; i_sig := sig; i_excl := excl; i_tt := thisthr; i_addr := addr;
                    i_active := false; i_cnt := 0; i_phase := PIdle |} in
        Some {| m_regs := insert r (m_regs m); m_act := m_act m; m_owed := m_owed m; m_run := m_run m; m_exp := m_exp m; m_masked := m_masked m |}
      else None
  | LUnreg t id sa =>
      match find id (m_regs m) with
      | None => None
      | Some r =>
          let rest := remove id (m_regs m) in
          let last := count_sig (i_sig r) rest =? 0 in
          if osb_eqb sa (if last then Some false else None) then
            Some {| m_regs := rest; m_act := del id (m_act m); m_owed := del id (m_owed m); m_run := del id (m_run m);
                    m_exp := if negb last && i_excl r && mem id (m_act m)
                             then upd (m_exp m) t (MPosts true (handoff_plan full r rest)) else m_exp m;
                    m_masked := m_masked m |}
          else None
      end
  | LSigEnter t sig child =>
      match m_exp m t with
      | MNone =>
          if negb (count_sig sig (m_regs m) =? 0) then
            if child then Some (m_with_exp m t (MPosts false []))
            else match sel_plan (Some t) sig (m_regs m) with
                 | [] => Some (m_with_exp m t (MNeed sig))
                 | p => Some (m_with_exp m t (MPosts false p))
                 end
          else None
      | _ => None
      end
  | LSigDfl t sig => if count_sig sig (m_regs m) =? 0 then Some m else None
  | LPost t id =>
      match m_exp m t with
      | MPosts b (i :: p) => if i =? id then Some (m_with_exp (m_post m id) t (MPosts b p)) else None
      | _ => None
      end
  | LSigExit t =>
      match m_exp m t with
      | MPosts false [] => Some (m_with_exp m t MNone)
      | MNone => Some m          (* after the unlock of a process-set walk *)
      | _ => None
      end
  | LRead t id =>
      if mem id (m_owed m) then
        Some {| m_regs := m_regs m; m_act := m_act m; m_owed := del id (m_owed m); m_run := id :: m_run m; m_exp := m_exp m; m_masked := m_masked m |}
      else Some m
  | LClear t id =>
      Some {| m_regs := m_regs m; m_act := del id (m_act m); m_owed := m_owed m; m_run := m_run m; m_exp := m_exp m; m_masked := m_masked m |}
  | LHandler t id =>
      if mem id (m_run m) then
        Some {| m_regs := m_regs m; m_act := m_act m; m_owed := m_owed m; m_run := del id (m_run m); m_exp := m_exp m; m_masked := m_masked m |}
      else None
  | LBlock t => if m_quiet t m then Some m else None
  | LMask t b =>
      Some {| m_regs := m_regs m; m_act := m_act m; m_owed := m_owed m; m_run := m_run m; m_exp := m_exp m;
              m_masked := upd (m_masked m) t b |}
  | LSaMask t sig full => if full then Some m else None     (* the handler runs with all signals blocked *)
  end.

Fixpoint mrun (full : bool) (m : mstate) (ls : list label) : option mstate :=
  match ls with
  | [] => Some m
  | l :: r => match mstep full m l with Some m' => mrun full m' r | None => None end
  end.

Definition monitor (full : bool) (ls : list label) : bool :=
  match mrun full minit ls with Some _ => true | None => false end.

Fixpoint mon_pos (full : bool) (m : mstate) (ls : list label) (k : nat) : option nat :=
  match ls with
  | [] => None
  | l :: r => match mstep full m l with Some m' => mon_pos full m' r (S k) | None => Some k end
  end.
