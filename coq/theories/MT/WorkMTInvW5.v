(* WorkMTInvW5.v -- invariant W5 of Appendix A.7: finished work is going to be completed; a shut-down pool
   without threads is going to be freed *)
From Coq Require Import List ZArith Bool Arith Lia.
From Ivv Require Import MT.WorkMT MT.WorkMTBase MT.WorkMTSpec MT.WorkMTCs MT.WorkMTInvA MT.WorkMTInvW MT.WorkMTInvW4.
Import ListNotations.
Local Open Scope Z_scope.

Lemma nilb_false : forall A (l : list A), nilb l = false -> l <> [].
Proof. destruct l; simpl; intros; try discriminate. Qed.

Lemma otopb_facts : forall s p, otopb s = true -> pl s = PLive p ->
  ohst s <> HPop EvWork /\ ((exists l, ohst s = HCompl l) -> pshut p = false).
Proof.
  unfold otopb. intros s p T P. destruct (ohst s) as [|e|l|l|] eqn:HS; try discriminate; split; try discriminate.
  - intros (l & X). discriminate.
  - intros _. destruct l; try discriminate. rewrite (shutb_live s p P) in T. now apply negb_true_iff in T.
  - intros (l0 & X). discriminate.
Qed.

Lemma W5_dispatch : forall s s', otopb s = true -> W5 s -> dispatch_o s = Some s' -> W5 s'.
Proof.
  intros s s' T I H.
  assert (PL : pl s' = pl s /\ todo s' = todo s /\ act s' = act s /\ own s' = own s).
  { unfold dispatch_o in H. destruct (orelock s), (obatch s), (opend s); inversion H; subst; cbn; auto. }
  destruct PL as (P1 & P2 & P3 & P4).
  assert (DUE : evwork_due s -> ohst s <> HPop EvWork -> evwork_due s').
  { unfold evwork_due. rewrite P2. intros [X | [X | X]] NP; auto; try contradiction.
    unfold dispatch_o in H. destruct (orelock s).
    - destruct (obatch s) as [|e r] eqn:OB; inversion H; subst; cbn.
      + left. now rewrite OB.
      + apply in_app_iff in X. destruct X as [X | [X | X]].
        * left. apply in_app_iff. now left.
        * subst. right. now left.
        * left. apply in_app_iff. now right.
    - destruct (obatch s) as [|e0 r0] eqn:OB; try discriminate.
      destruct (opend s) as [|e r] eqn:OP; inversion H; subst; cbn.
      + left. now rewrite OP, OB.
      + rewrite app_nil_r in X. destruct X as [X | X].
        * subst. right. now left.
        * now left. }
  unfold W5. intros p P. rewrite P1 in P. destruct (I p P) as (I1 & I2). destruct (otopb_facts s p T P) as (F1 & F2).
  split.
  - intros D. apply DUE; auto.
  - intros D1 D2. rewrite P2, P3, P4. destruct (I2 D1 D2) as [X | [X | [X | X]]]; auto.
    rewrite (F2 X) in D1. discriminate.
Qed.

Lemma W5_inlock : forall s l s', (lock s = None -> todo s = []) -> W1b s -> HFX s -> W5 s ->
  (match l with LUnlock _ | LEvW _ _ | LHookStop _ | LTCreate _ _ | LKickO _ | LKickW _ _ | LWake _ => True | _ => False end) ->
  step s l = Some s' -> W5 s'.
Proof.
  intros s l s' AT A1b HF I LL H.
  assert (O : own s' = own s) by (eapply own_step; eauto).
  destruct l; try contradiction; clear LL.
  all: step_inv H.
  all: try (bools; eapply W5_dispatch; eauto; fail).
  all: hold_facts; cs_facts.
  all: unfold W5, evwork_due in *.
  all: rewrite ?O.
  all: ssimp.
  all: ifs.
  all: ssimp.
  all: try assumption.
  all: try pool_inv; try use_pool I.
  all: outs.
  all: subst.
  all: cbn [pdone pshut pstarted p_set_items p_set_head p_set_tail p_set_idle p_set_done p_set_started p_set_shut] in *.
  all: try assumption.
  all: try (intros q Q; destruct (I q Q) as (I1 & I2)).
  all: try match goal with E : lock _ = None |- _ => first [pose proof (AT E) as TD | pose proof (AT eq_refl) as TD] end.
  all: try match goal with E : todo _ = _ |- _ => rewrite E in * end.
  all: repeat match goal with
       | H : omemb _ _ = true |- _ => apply omemb_In in H
       | H : omemb _ _ = false |- _ => apply not_true_iff_false in H; rewrite omemb_In in H
       end.
  all: split; [intros D1; try specialize (I1 D1) | intros D1 D2; try specialize (I2 D1 D2)].
  all: unfold upd, die_effs in *.
  all: cbn [In app] in *.
  all: repeat match goal with
       | H : context [Nat.eqb ?a ?b] |- _ => destruct (Nat.eqb a b) eqn:?; bools
       | |- context [Nat.eqb ?a ?b] => destruct (Nat.eqb a b) eqn:?; bools
       | |- context [if ?b then _ else _] => destruct b eqn:?
       end; cbn [In app] in *.
  all: rewrite ?in_app_iff in *; cbn [In] in *.
  all: cbn [pdone pshut pstarted p_set_items p_set_head p_set_tail p_set_idle p_set_done p_set_started p_set_shut] in *.
  all: repeat match goal with
       | H : nilb _ = false |- _ => apply nilb_false in H
       | H : _ && _ = false |- _ => apply andb_false_iff in H
       | H : (_ =? _) = false |- _ => apply Z.eqb_neq in H
       | H : (_ =? _) = true |- _ => apply Z.eqb_eq in H
       | H : pshut ?p = true -> pstarted ?p = 0 -> _, A : pshut ?p = true, B : pstarted ?p = 0 |- _ => specialize (H A B)
       | H : pdone ?p <> [] -> _, A : pdone ?p <> [] |- _ => specialize (H A)
       end.
  all: try (timeout 2 tauto).
  all: try match goal with E : pl _ = PLive ?p |- _ => assert (SP : 0 <= pstarted p) by (destruct A1b as (B1 & _); destruct (B1 p E) as (B2 & _); lia) end.
  all: repeat match goal with
       | H : _ \/ _ |- _ => destruct H
       | H : _ /\ _ |- _ => destruct H
       | H : exists _, _ |- _ => destruct H
       | H : False |- _ => destruct H
       | H : FPostO _ = FPostO _ |- _ => inversion H; subst; clear H
       end.
  all: try discriminate.
  all: try congruence.
  all: try lia.
  all: try (timeout 5 tauto).
  all: try solve [timeout 10 intuition (try discriminate; try congruence; try lia; eauto)].
  all: subst; rewrite H; cbn; auto 10.
Qed.

Lemma W5_evo : forall s l s', (lock s = None -> todo s = []) -> W1b s -> HFX s -> W5 s ->
  (match l with LEvO _ => True | _ => False end) ->
  step s l = Some s' -> W5 s'.
Proof.
  intros s l s' AT A1b HF I LL H.
  assert (O : own s' = own s) by (eapply own_step; eauto).
  destruct l; try contradiction; clear LL.
  all: step_inv0 H.
  all: try (bools; eapply W5_dispatch; eauto; fail).
  all: hold_facts; cs_facts.
  all: unfold W5, evwork_due in *.
  all: rewrite ?O.
  all: ssimp.
  all: ifs.
  all: ssimp.
  all: try assumption.
  all: try pool_inv; try use_pool I.
  all: outs.
  all: subst.
  all: cbn [pdone pshut pstarted p_set_items p_set_head p_set_tail p_set_idle p_set_done p_set_started p_set_shut] in *.
  all: try assumption.
  all: try (intros q Q; destruct (I q Q) as (I1 & I2)).
  all: try match goal with E : lock _ = None |- _ => first [pose proof (AT E) as TD | pose proof (AT eq_refl) as TD] end.
  all: try match goal with E : todo _ = _ |- _ => rewrite E in * end.
  all: repeat match goal with
       | H : omemb _ _ = true |- _ => apply omemb_In in H
       | H : omemb _ _ = false |- _ => apply not_true_iff_false in H; rewrite omemb_In in H
       end.
  all: split; [intros D1; try specialize (I1 D1) | intros D1 D2; try specialize (I2 D1 D2)].
  all: unfold upd, die_effs in *.
  all: cbn [In app] in *.
  all: repeat match goal with
       | H : context [Nat.eqb ?a ?b] |- _ => destruct (Nat.eqb a b) eqn:?; bools
       | |- context [Nat.eqb ?a ?b] => destruct (Nat.eqb a b) eqn:?; bools
       | |- context [if ?b then _ else _] => destruct b eqn:?
       end; cbn [In app] in *.
  all: rewrite ?in_app_iff in *; cbn [In] in *.
  all: cbn [pdone pshut pstarted p_set_items p_set_head p_set_tail p_set_idle p_set_done p_set_started p_set_shut] in *.
  all: repeat match goal with
       | H : nilb _ = false |- _ => apply nilb_false in H
       | H : _ && _ = false |- _ => apply andb_false_iff in H
       | H : (_ =? _) = false |- _ => apply Z.eqb_neq in H
       | H : (_ =? _) = true |- _ => apply Z.eqb_eq in H
       | H : pshut ?p = true -> pstarted ?p = 0 -> _, A : pshut ?p = true, B : pstarted ?p = 0 |- _ => specialize (H A B)
       | H : pdone ?p <> [] -> _, A : pdone ?p <> [] |- _ => specialize (H A)
       end.
  all: try (timeout 2 tauto).
  all: try match goal with E : pl _ = PLive ?p |- _ => assert (SP : 0 <= pstarted p) by (destruct A1b as (B1 & _); destruct (B1 p E) as (B2 & _); lia) end.
  all: repeat match goal with
       | H : _ \/ _ |- _ => destruct H
       | H : _ /\ _ |- _ => destruct H
       | H : exists _, _ |- _ => destruct H
       | H : False |- _ => destruct H
       | H : FPostO _ = FPostO _ |- _ => inversion H; subst; clear H
       end.
  all: try discriminate.
  all: try congruence.
  all: try lia.
  all: try (timeout 5 tauto).
  all: try solve [timeout 10 intuition (try discriminate; try congruence; try lia; eauto)].
  all: match goal with E : ohst _ = HFree _ |- _ => destruct (HF _ E) as [F | [(F1 & F2) | F]]; try congruence end.
  all: destruct (F o (or_introl eq_refl)) as (m & ->).
  all: rewrite !orem_In.
  all: first [ left; left; split; [assumption | discriminate] | left; right; split; [assumption | discriminate]
             | left; left; left; split; [assumption | discriminate] | left; left; right; split; [assumption | discriminate] ].
Qed.

Lemma W5_lock : forall s l s', (lock s = None -> todo s = []) -> W1b s -> HFX s -> W5 s ->
  (match l with LLock _ => True | _ => False end) ->
  step s l = Some s' -> W5 s'.
Proof.
  intros s l s' AT A1b HF I LL H.
  assert (O : own s' = own s) by (eapply own_step; eauto).
  destruct l; try contradiction; clear LL.
  all: step_inv H.
  all: try (bools; eapply W5_dispatch; eauto; fail).
  all: hold_facts; cs_facts.
  all: unfold W5, evwork_due in *.
  all: rewrite ?O.
  all: ssimp.
  all: ifs.
  all: ssimp.
  all: try assumption.
  all: try pool_inv; try use_pool I.
  all: outs.
  all: subst.
  all: cbn [pdone pshut pstarted p_set_items p_set_head p_set_tail p_set_idle p_set_done p_set_started p_set_shut] in *.
  all: try assumption.
  all: try (intros q Q; destruct (I q Q) as (I1 & I2)).
  all: try match goal with E : lock _ = None |- _ => first [pose proof (AT E) as TD | pose proof (AT eq_refl) as TD] end.
  all: try match goal with E : todo _ = _ |- _ => rewrite E in * end.
  all: repeat match goal with
       | H : omemb _ _ = true |- _ => apply omemb_In in H
       | H : omemb _ _ = false |- _ => apply not_true_iff_false in H; rewrite omemb_In in H
       end.
  all: split; [intros D1; try specialize (I1 D1) | intros D1 D2; try specialize (I2 D1 D2)].
  all: unfold upd, die_effs in *.
  all: cbn [In app] in *.
  all: repeat match goal with
       | H : context [Nat.eqb ?a ?b] |- _ => destruct (Nat.eqb a b) eqn:?; bools
       | |- context [Nat.eqb ?a ?b] => destruct (Nat.eqb a b) eqn:?; bools
       | |- context [if ?b then _ else _] => destruct b eqn:?
       end; cbn [In app] in *.
  all: rewrite ?in_app_iff in *; cbn [In] in *.
  all: cbn [pdone pshut pstarted p_set_items p_set_head p_set_tail p_set_idle p_set_done p_set_started p_set_shut] in *.
  all: repeat match goal with
       | H : nilb _ = false |- _ => apply nilb_false in H
       | H : _ && _ = false |- _ => apply andb_false_iff in H
       | H : (_ =? _) = false |- _ => apply Z.eqb_neq in H
       | H : (_ =? _) = true |- _ => apply Z.eqb_eq in H
       | H : pshut ?p = true -> pstarted ?p = 0 -> _, A : pshut ?p = true, B : pstarted ?p = 0 |- _ => specialize (H A B)
       | H : pdone ?p <> [] -> _, A : pdone ?p <> [] |- _ => specialize (H A)
       end.
  all: try (timeout 2 tauto).
  all: try match goal with E : pl _ = PLive ?p |- _ => assert (SP : 0 <= pstarted p) by (destruct A1b as (B1 & _); destruct (B1 p E) as (B2 & _); lia) end.
  all: repeat match goal with
       | H : _ \/ _ |- _ => destruct H
       | H : _ /\ _ |- _ => destruct H
       | H : exists _, _ |- _ => destruct H
       | H : False |- _ => destruct H
       | H : FPostO _ = FPostO _ |- _ => inversion H; subst; clear H
       end.
  all: try discriminate.
  all: try congruence.
  all: try lia.
  all: try (timeout 5 tauto).
  all: try solve [timeout 10 intuition (try discriminate; try congruence; try lia; eauto)].
  all: match goal with E : cs_free_test _ = false |- _ => unfold cs_free_test in E; rewrite D2 in E; simpl in E; apply nilb_false in E;
         destruct (H E) as [[X | X] | [X | []]]; auto 6; congruence end.
Qed.

Lemma W5_rest : forall s l s', (lock s = None -> todo s = []) -> W1b s -> HFX s -> W5 s ->
  (match l with LCreate _ _ | LSubmit _ _ | LLocal _ _ | LPut _ | LEnd _ | LCallback _ | LWork _ _ | LRet _ _ | LCompl _ _ | LHookStart _ | LTExit _ | LTFin _ | LTJoin _ _ | LBlock _ | LMain _ | LMainEnd _ | LQuiescent | LDone => True | _ => False end) ->
  step s l = Some s' -> W5 s'.
Proof.
  intros s l s' AT A1b HF I LL H.
  assert (O : own s' = own s) by (eapply own_step; eauto).
  destruct l; try contradiction; clear LL.
  all: step_inv H.
  all: try (bools; eapply W5_dispatch; eauto; fail).
  all: hold_facts; cs_facts.
  all: unfold W5, evwork_due in *.
  all: rewrite ?O.
  all: ssimp.
  all: ifs.
  all: ssimp.
  all: try assumption.
  all: try pool_inv; try use_pool I.
  all: outs.
  all: subst.
  all: cbn [pdone pshut pstarted p_set_items p_set_head p_set_tail p_set_idle p_set_done p_set_started p_set_shut] in *.
  all: try assumption.
  all: try (intros q Q; destruct (I q Q) as (I1 & I2)).
  all: try match goal with E : lock _ = None |- _ => first [pose proof (AT E) as TD | pose proof (AT eq_refl) as TD] end.
  all: try match goal with E : todo _ = _ |- _ => rewrite E in * end.
  all: repeat match goal with
       | H : omemb _ _ = true |- _ => apply omemb_In in H
       | H : omemb _ _ = false |- _ => apply not_true_iff_false in H; rewrite omemb_In in H
       end.
  all: split; [intros D1; try specialize (I1 D1) | intros D1 D2; try specialize (I2 D1 D2)].
  all: unfold upd, die_effs in *.
  all: cbn [In app] in *.
  all: repeat match goal with
       | H : context [Nat.eqb ?a ?b] |- _ => destruct (Nat.eqb a b) eqn:?; bools
       | |- context [Nat.eqb ?a ?b] => destruct (Nat.eqb a b) eqn:?; bools
       | |- context [if ?b then _ else _] => destruct b eqn:?
       end; cbn [In app] in *.
  all: rewrite ?in_app_iff in *; cbn [In] in *.
  all: cbn [pdone pshut pstarted p_set_items p_set_head p_set_tail p_set_idle p_set_done p_set_started p_set_shut] in *.
  all: repeat match goal with
       | H : nilb _ = false |- _ => apply nilb_false in H
       | H : _ && _ = false |- _ => apply andb_false_iff in H
       | H : (_ =? _) = false |- _ => apply Z.eqb_neq in H
       | H : (_ =? _) = true |- _ => apply Z.eqb_eq in H
       | H : pshut ?p = true -> pstarted ?p = 0 -> _, A : pshut ?p = true, B : pstarted ?p = 0 |- _ => specialize (H A B)
       | H : pdone ?p <> [] -> _, A : pdone ?p <> [] |- _ => specialize (H A)
       end.
  all: try (timeout 2 tauto).
  all: try match goal with E : pl _ = PLive ?p |- _ => assert (SP : 0 <= pstarted p) by (destruct A1b as (B1 & _); destruct (B1 p E) as (B2 & _); lia) end.
  all: repeat match goal with
       | H : _ \/ _ |- _ => destruct H
       | H : _ /\ _ |- _ => destruct H
       | H : exists _, _ |- _ => destruct H
       | H : False |- _ => destruct H
       | H : FPostO _ = FPostO _ |- _ => inversion H; subst; clear H
       end.
  all: try discriminate.
  all: try congruence.
  all: try lia.
  all: try (timeout 5 tauto).
  all: try solve [timeout 10 intuition (try discriminate; try congruence; try lia; eauto)].
  all: bools; match goal with T : otopb _ = true |- _ => destruct (otopb_facts _ _ T Q) as (F1 & F2) end; try congruence.
  all: rewrite F2 in D1 by eauto; discriminate.
Qed.

Lemma W5_step : forall s l s', (lock s = None -> todo s = []) -> W1b s -> HFX s -> W5 s -> step s l = Some s' -> W5 s'.
Proof.
  intros s l s' AT A1b HF I H.
  destruct l; first [ eapply W5_inlock; eauto; exact Logic.I | eapply W5_evo; eauto; exact Logic.I
                    | eapply W5_lock; eauto; exact Logic.I | eapply W5_rest; eauto; exact Logic.I ].
Qed.
