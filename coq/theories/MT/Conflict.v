(* Conflict.v -- footprints, conflicts and lock discipline of a labelled transition system (C14).

   A data race is a statement about the C memory model; what is provable on the MT models is the
   discipline that excludes it.  Every label of a model (= the code executed between two log points
   of the baton-scheduler log, docs/MT_GUIDE.md) is given a FOOTPRINT: the shared C variables it
   reads / writes.  Every variable belongs to a CLASS that says what keeps conflicting accesses
   apart:

     ByLock k    accessed only inside critical sections of lock k
     ByThread t  accessed only by thread t (thread-private data, or data handed to t under a lock)
     OwnerLock k t  written only by thread t and only inside critical sections of k; read by t
                 anywhere and by other threads only inside critical sections of k
     Extern      not plain memory of this component: a kernel object driven by system calls, or a
                 variable synchronised by another component whose own model proves its discipline
     OneWay      idempotent one-way flag (written with one value only; the listed exception of C14)

   With respect to a lock a label is an acquisition (Acq: the lock call and the code of the critical
   section up to the next log point), a release (Rel: the code before the unlock call and the unlock),
   or Plain (code executed with the lock state unchanged).  `disciplined` is the per-step statement;
   the section proves from it, for ANY transition system: the trace form (trace_discipline), that
   two conflicting steps of distinct threads are never both enabled unless both are acquisitions of
   the same free lock which then exclude each other (no_concurrent_conflict / arbitrated), and that
   inside a critical section nobody else changes a protected variable (cs_stable, which needs the
   footprints to list every variable a step changes: writes_sound).  The per-model files
   instantiate the section.  *)
From Coq Require Import List Bool.
Import ListNotations.

Set Implicit Arguments.

Inductive lmode := Acq | Rel | Plain.

Inductive class (thread lockid : Type) :=
| ByLock (k : lockid)
| ByThread (t : thread)
| OwnerLock (k : lockid) (t : thread)
| Extern
| OneWay.
Arguments ByLock {thread lockid} k.
Arguments ByThread {thread lockid} t.
Arguments OwnerLock {thread lockid} k t.
Arguments Extern {thread lockid}.
Arguments OneWay {thread lockid}.

Section Footprint.
  Variable var : Type.
  Variable var_eqb : var -> var -> bool.
  Hypothesis var_eqb_spec : forall a b, var_eqb a b = true <-> a = b.

  (* (v, true) = write of v, (v, false) = read of v *)
  Definition access := (var * bool)%type.
  Definition footprint := list access.

  Definition conflict_acc (a b : access) : bool := var_eqb (fst a) (fst b) && (snd a || snd b).
  Definition conflict (f g : footprint) : bool := existsb (fun a => existsb (conflict_acc a) g) f.

  Lemma conflict_spec : forall f g,
    conflict f g = true <->
    exists v w1 w2, In (v, w1) f /\ In (v, w2) g /\ (w1 = true \/ w2 = true).
  Proof.
    intros f g. unfold conflict. rewrite existsb_exists. split.
    - intros [[v w1] [H1 H2]]. apply existsb_exists in H2. destruct H2 as [[v2 w2] [H2 H3]].
      unfold conflict_acc in H3. simpl in H3. apply andb_true_iff in H3. destruct H3 as [H3 H4].
      apply var_eqb_spec in H3. subst v2. exists v, w1, w2. repeat split; try assumption.
      apply orb_true_iff in H4. exact H4.
    - intros [v [w1 [w2 [H1 [H2 H3]]]]]. exists (v, w1). split; [assumption|].
      apply existsb_exists. exists (v, w2). split; [assumption|]. unfold conflict_acc. simpl.
      apply andb_true_iff. split; [apply var_eqb_spec; reflexivity|apply orb_true_iff; exact H3].
  Qed.

  Lemma conflict_sym : forall f g, conflict f g = true -> conflict g f = true.
  Proof.
    intros f g H. apply conflict_spec in H. apply conflict_spec.
    destruct H as [v [w1 [w2 [H1 [H2 H3]]]]]. exists v, w2, w1. repeat split; try assumption.
    destruct H3; [right|left]; assumption.
  Qed.

  Definition writes (f : footprint) (v : var) : Prop := In (v, true) f.
  Definition touches (f : footprint) (v : var) : Prop := exists w, In (v, w) f.
End Footprint.

Section Discipline.
  Variables state label thread lockid var : Type.
  Variable step : state -> label -> option state.
  Variable init : state.
  (* the thread that performs the label (None: an end-of-run marker, performed by no thread) *)
  Variable actor : state -> label -> option thread.
  Variable holder : state -> lockid -> option thread.
  Variable mode : label -> lockid -> lmode.
  Variable cls : state -> var -> class thread lockid.
  (* may depend on static components of the state (who the owner is, which tree an object is in) *)
  Variable fp : state -> label -> footprint var.
  (* "the model value of v is the same in both states" *)
  Variable unchanged : var -> state -> state -> Prop.

  Fixpoint lrun (s : state) (ls : list label) : option state :=
    match ls with
    | [] => Some s
    | l :: r => match step s l with Some s' => lrun s' r | None => None end
    end.

  Definition lreachable (s : state) : Prop := exists ls, lrun init ls = Some s.

  Lemma lrun_app : forall l1 l2 s,
    lrun s (l1 ++ l2) = match lrun s l1 with Some s1 => lrun s1 l2 | None => None end.
  Proof.
    induction l1 as [|x t IH]; intros l2 s; simpl; [reflexivity|].
    destruct (step s x); [apply IH|reflexivity].
  Qed.

  Lemma lreachable_step : forall s l s', lreachable s -> step s l = Some s' -> lreachable s'.
  Proof.
    intros s l s' [ls H] Hs. exists (ls ++ [l]). rewrite lrun_app, H. simpl. rewrite Hs. reflexivity.
  Qed.

  (* t holds lock k while it performs the accesses of label l in the step s -l-> s' *)
  Definition held (k : lockid) (t : thread) (s : state) (l : label) (s' : state) : Prop :=
    match mode l k with
    | Acq => holder s k = None /\ holder s' k = Some t
    | Rel => holder s k = Some t
    | Plain => holder s k = Some t /\ holder s' k = Some t
    end.

  Definition disciplined (s : state) (l : label) (s' : state) : Prop :=
    forall v w, In (v, w) (fp s l) ->
      match cls s v with
      | ByLock k => exists t, actor s l = Some t /\ held k t s l s'
      | ByThread t => actor s l = Some t
      | OwnerLock k o =>
          (exists t, actor s l = Some t /\ held k t s l s' /\ (w = true -> t = o)) \/
          (w = false /\ actor s l = Some o)
      | Extern | OneWay => True
      end.

  (* the footprint lists every variable the step changes *)
  Definition writes_sound : Prop :=
    forall s l s' v, lreachable s -> step s l = Some s' -> ~ writes (fp s l) v -> unchanged v s s'.

  Hypothesis disc : forall s l s', lreachable s -> step s l = Some s' -> disciplined s l s'.
  (* an acquisition is enabled only when the lock is free *)
  Hypothesis acq_free : forall s l s' k, lreachable s -> step s l = Some s' -> mode l k = Acq -> holder s k = None.

  (* trace form: every label of an accepted sequence is performed under the discipline *)
  Theorem trace_discipline : forall pre l post send,
    lrun init (pre ++ l :: post) = Some send ->
    exists s s', lrun init pre = Some s /\ step s l = Some s' /\ disciplined s l s'.
  Proof.
    intros pre l post send H. rewrite lrun_app in H. destruct (lrun init pre) as [s|] eqn:E; [|discriminate].
    simpl in H. destruct (step s l) as [s'|] eqn:E2; [|discriminate].
    exists s, s'. repeat split; try assumption. apply disc; [exists pre; exact E|exact E2].
  Qed.

  (* two threads that both hold k "during" their steps from the same state: only possible for two
     acquisitions of the free lock, which exclude each other *)
  Definition arbitrated (k : lockid) (s : state) (l1 l2 : label) (t1 t2 : thread) (s1 s2 : state) : Prop :=
    mode l1 k = Acq /\ mode l2 k = Acq /\ holder s k = None /\
    holder s1 k = Some t1 /\ holder s2 k = Some t2 /\ step s1 l2 = None /\ step s2 l1 = None.

  Lemma held_both : forall k s l1 l2 t1 t2 s1 s2, lreachable s -> t1 <> t2 ->
    step s l1 = Some s1 -> step s l2 = Some s2 ->
    held k t1 s l1 s1 -> held k t2 s l2 s2 -> arbitrated k s l1 l2 t1 t2 s1 s2.
  Proof.
    intros k s l1 l2 t1 t2 s1 s2 Hr Hne S1 S2 D1 D2. unfold held in D1, D2. unfold arbitrated.
    destruct (mode l1 k) eqn:M1; destruct (mode l2 k) eqn:M2;
      try (exfalso; apply Hne;
           repeat match goal with H : _ /\ _ |- _ => destruct H end; congruence).
    destruct D1 as [F1 G1]. destruct D2 as [F2 G2]. repeat split; try assumption.
    - destruct (step s1 l2) as [x|] eqn:E; [|reflexivity].
      pose proof (acq_free (lreachable_step Hr S1) E M2). congruence.
    - destruct (step s2 l1) as [x|] eqn:E; [|reflexivity].
      pose proof (acq_free (lreachable_step Hr S2) E M1). congruence.
  Qed.

  (* state form: two steps of distinct threads that touch the same variable -- for ByLock / ByThread
     we do not even ask for one of them to be a write -- are never both enabled, except two
     acquisitions of the same free lock, and then whichever is performed first disables the other *)
  Theorem no_concurrent_conflict : forall s l1 l2 t1 t2 s1 s2 v w1 w2,
    lreachable s -> actor s l1 = Some t1 -> actor s l2 = Some t2 -> t1 <> t2 ->
    step s l1 = Some s1 -> step s l2 = Some s2 ->
    In (v, w1) (fp s l1) -> In (v, w2) (fp s l2) ->
    match cls s v with
    | ByLock k => arbitrated k s l1 l2 t1 t2 s1 s2
    | ByThread _ => False
    | OwnerLock k _ => w1 = true \/ w2 = true -> arbitrated k s l1 l2 t1 t2 s1 s2
    | Extern | OneWay => True
    end.
  Proof.
    intros s l1 l2 t1 t2 s1 s2 v w1 w2 Hr A1 A2 Hne S1 S2 I1 I2.
    pose proof (disc Hr S1 _ _ I1) as D1. pose proof (disc Hr S2 _ _ I2) as D2.
    destruct (cls s v) as [k|t|k o| |]; try exact I.
    - destruct D1 as [u1 [B1 D1]]. destruct D2 as [u2 [B2 D2]].
      rewrite A1 in B1. rewrite A2 in B2. inversion B1; inversion B2; subst u1 u2.
      eapply held_both; eauto.
    - apply Hne. congruence.
    - intros W.
      destruct D1 as [[u1 [B1 [D1 O1]]]|[R1 B1]]; destruct D2 as [[u2 [B2 [D2 O2]]]|[R2 B2]].
      + rewrite A1 in B1. rewrite A2 in B2. inversion B1; inversion B2; subst u1 u2. eapply held_both; eauto.
      + exfalso. apply Hne. destruct W as [W|W]; [|congruence]. rewrite A1 in B1. inversion B1; subst u1.
        rewrite (O1 W). congruence.
      + exfalso. apply Hne. destruct W as [W|W]; [congruence|]. rewrite A2 in B2. inversion B2; subst u2.
        rewrite (O2 W). congruence.
      + exfalso. apply Hne. congruence.
  Qed.

  (* inside a critical section of k nobody but the holder changes a variable protected by k;
     a thread-private variable is changed by its thread only *)
  Theorem cs_stable : writes_sound ->
    forall s l s' v, lreachable s -> step s l = Some s' ->
    match cls s v with
    | ByLock k => forall t, holder s k = Some t -> actor s l <> Some t -> unchanged v s s'
    | ByThread t => actor s l <> Some t -> unchanged v s s'
    | OwnerLock k o => (forall t, holder s k = Some t -> actor s l <> Some t -> unchanged v s s') /\
                       (actor s l <> Some o -> unchanged v s s')
    | Extern | OneWay => True
    end.
  Proof.
    intros WS s l s' v Hr S. pose proof (disc Hr S) as D. unfold disciplined in D. specialize (D v true).
    destruct (cls s v) as [k|t|k o| |] eqn:C; try exact I.
    - intros t Hh Ha. apply (WS s l s' v Hr S). intro W. specialize (D W).
      destruct D as [u [B D]]. unfold held in D.
      destruct (mode l k); repeat match goal with H : _ /\ _ |- _ => destruct H end; congruence.
    - intros Ha. apply (WS s l s' v Hr S). intro W. specialize (D W). congruence.
    - split.
      + intros t Hh Ha. apply (WS s l s' v Hr S). intro W. specialize (D W).
        destruct D as [[u [B [D _]]]|[D _]]; [|discriminate]. unfold held in D.
        destruct (mode l k); repeat match goal with H : _ /\ _ |- _ => destruct H end; congruence.
      + intros Ha. apply (WS s l s' v Hr S). intro W. specialize (D W).
        destruct D as [[u [B [_ D]]]|[D _]]; [|discriminate]. rewrite (D eq_refl) in B. congruence.
  Qed.
End Discipline.
