(* WorkMTFinal.v -- the statements of Props/Properties_C12.v and Properties_C13.v, proved from the invariants *)
From Coq Require Import List ZArith Bool Arith Lia.
From Ivv Require Import MT.WorkMT MT.WorkMTBase MT.WorkMTSpec MT.WorkMTCs MT.WorkMTInvA MT.WorkMTInvW MT.WorkMTInvW4
  MT.WorkMTInvW5 MT.WorkMTProofs MT.WorkMTInvI MT.WorkMTInvT MT.WorkMTMon MT.WorkMTSim.
Import ListNotations.
Local Open Scope Z_scope.

Lemma own_run : forall o tr s, run (init o) tr = Some s -> own s = o.
Proof.
  intros o. apply (run_ind_inv (fun s => own s = o)); auto.
  intros s l s' E H. rewrite (own_step _ _ _ H). auto.
Qed.

Lemma done_after : forall s s', step s LDone = Some s' -> omain s = MAfter.
Proof.
  unfold step. intros s s' H. simpl in H. destruct (fin s) eqn:F; simpl in H.
  - discriminate.
  - destruct (mph_eqb (omain s) MAfter) eqn:M; [now apply mph_eqb_eq in M | discriminate].
Qed.

Lemma quiescent_guard : forall s s', step s LQuiescent = Some s' -> quiescent s = true.
Proof.
  unfold step. intros s s' H. simpl in H. destruct (fin s || mph_eqb (omain s) MAfter); try discriminate.
  destruct (quiescent s); auto. discriminate.
Qed.

(* ---------- C12 ---------- *)
Lemma exactly_once : forall o tr s i, run (init o) tr = Some s ->
  (count (is_cp i) tr <= count (is_rt i) tr)%nat /\ (count (is_rt i) tr <= count (is_wk i) tr)%nat /\
  (count (is_wk i) tr <= count (is_sub i) tr)%nat /\ (count (is_sub i) tr <= count (is_cp i) tr + 1)%nat.
Proof.
  intros o tr s i R. destruct (cnt_run o tr s R i) as (C1 & C2 & C3).
  destruct (items s i); cbn [st_sub st_wk st_rt] in *; lia.
Qed.

Lemma thread_clauses : forall o tr s l s', run (init o) tr = Some s -> step s l = Some s' ->
  match l with
  | LWork t i => (items s i = IQ -> t <> o /\ abs_hook s t = HkStarted) /\ (items s i = ILQ -> t = o)
  | LRet t i => (items s i = IW -> t <> o) /\ (items s i = ILW -> t = o)
  | LCompl t _ | LLocal t _ => t = o
  | _ => True
  end.
Proof.
  intros o tr s l s' R H. pose proof (step_facts _ _ _ H) as FA. pose proof (own_run _ _ _ R) as OW.
  destruct (Inv2_run _ _ _ R) as [IV _ _ _ _ _ _ _ _]. destruct IV.
  destruct l; cbn [facts] in FA; auto; try congruence.
  - destruct FA as (F1 & F2). split; intros X; [| rewrite <- OW; auto].
    destruct (F1 X) as (last & W). split.
    + rewrite <- OW. apply worker_not_owner; auto. rewrite W. discriminate.
    + unfold abs_hook. rewrite W. reflexivity.
  - destruct FA as (F1 & F2). split; intros X; [| rewrite <- OW; auto].
    destruct (F1 X) as (last & W). rewrite <- OW. apply worker_not_owner; auto. rewrite W. discriminate.
Qed.

Fixpoint running (o : nat) (tr : list label) : Z :=
  match tr with [] => 0 | l :: r => dwork o l + running o r end.

Lemma running_app : forall o a b, running o (a ++ b) = running o a + running o b.
Proof. induction a; simpl; intros; auto. rewrite IHa. lia. Qed.

Lemma bounded_parallelism : forall o tr s, run (init o) tr = Some s ->
  running o tr = Z.of_nat (nwork s) /\
  match pl s with PLive p => running o tr <= pstarted p /\ pstarted p <= pmax p | _ => running o tr = 0 end.
Proof.
  intros o tr s R.
  assert (E : running o tr = Z.of_nat (nwork s)).
  { revert tr s R. apply (run_ind_tr (fun tr s => running o tr = Z.of_nat (nwork s))).
    - reflexivity.
    - intros tr s l s' R I H. rewrite running_app. simpl.
      destruct (Inv_run _ _ _ R). rewrite (nwork_step _ _ _ i_tb H), (own_run _ _ _ R). lia. }
  split; auto. rewrite E. pose proof (nwork_le_nlive s) as LE. destruct (Inv_run _ _ _ R). destruct i_w1b as (B1 & B2).
  destruct (pl s) as [|p|] eqn:P.
  - assert (nlive s = 0%nat) by (apply B2; intros q; discriminate). lia.
  - destruct (B1 p eq_refl) as (C1 & C2 & C3). lia.
  - assert (nlive s = 0%nat) by (apply B2; intros q; discriminate). lia.
Qed.

Lemma wakeup_invariant : forall o tr s, run (init o) tr = Some s -> W4 s /\ W5 s.
Proof. intros o tr s R. destruct (Inv_run _ _ _ R). auto. Qed.

Lemma ended_complete : forall o tr l s', run (init o) (tr ++ [l]) = Some s' -> l = LQuiescent \/ l = LDone ->
  forall i, count (is_sub i) tr = count (is_cp i) tr /\ count (is_wk i) tr = count (is_sub i) tr /\
            count (is_rt i) tr = count (is_sub i) tr.
Proof.
  intros o tr l s' R L i. apply run_snoc in R. destruct R as (s & R & H).
  destruct (cnt_run o tr s R i) as (C1 & C2 & C3). destruct (Inv2_run _ _ _ R) as [IV SI0 _ _ _ _ _ _ MA0].
  assert (ID : items s i = IIdle).
  { destruct L as [-> | ->].
    - assert (Q : quiescent s = true) by (eapply quiescent_guard; eauto). destruct (quiescent_idle s IV SI0 Q) as (X & _). auto.
    - assert (MAF : omain s = MAfter) by (eapply done_after; eauto).
      destruct (MA0 MAF) as (X & _). auto. }
  rewrite ID in *. cbn [st_sub st_wk st_rt] in *. lia.
Qed.

Lemma quiescent_drained : forall o tr s', run (init o) (tr ++ [LQuiescent]) = Some s' ->
  exists s, run (init o) tr = Some s /\ pitems_of s = [] /\ pdone_of s = [] /\ (forall i, items s i = IIdle) /\
            (forall w, wpc_of s w = WNone \/ wpc_of s w = WDead) /\ (forall n, In n (tids s) -> tp (th s n) = TJoined) /\
            ~ put_state s.
Proof.
  intros o tr s' R. apply run_snoc in R. destruct R as (s & R & H). exists s. split; auto.
  pose proof (Inv2_run _ _ _ R) as J. pose proof J as J0. destruct J0 as [IV SI0 _ _ JJ0 _ _ _ _].
  assert (Q : quiescent s = true) by (eapply quiescent_guard; eauto).
  destruct (quiescent_idle s IV SI0 Q) as (X1 & X2 & X3). repeat split; auto.
  - now apply quiescent_workers_dead.
  - now apply quiescent_joined.
  - intros P. exact (quiescent_noput s J P Q).
Qed.

(* ---------- C13 ---------- *)
Lemma mainend_released : forall o tr t s', run (init o) (tr ++ [LMainEnd t]) = Some s' ->
  exists s, run (init o) tr = Some s /\ t = o /\ onum s = 0 /\ (forall p, pl s <> PLive p) /\
            (forall n, In n (tids s) -> tp (th s n) = TJoined) /\ (forall i, items s i = IIdle).
Proof.
  intros o tr t s' R. apply run_snoc in R. destruct R as (s & R & H). exists s. split; auto.
  destruct (Inv2_run _ _ _ R) as [IV SI0 _ _ _ ON0 _ _ _].
  destruct (mainend_state _ _ _ IV SI0 ON0 H) as (A & B & C).
  pose proof (step_facts _ _ _ H) as FA. cbn in FA. rewrite (own_run _ _ _ R) in FA.
  repeat split; auto.
  - unfold ON in ON0. rewrite B in ON0. destruct (pl s) eqn:P; try lia. elim (C p); auto.
  - intros n IN. now apply cntU_zero.
Qed.

Lemma unjoined_holds_creator : forall o tr s n, run (init o) tr = Some s -> In n (tids s) ->
  tp (th s n) <> TJoined -> 0 < onum s.
Proof.
  intros o tr s n R IN NJ. destruct (Inv2_run _ _ _ R) as [_ _ _ _ _ ON0 _ _ _]. unfold ON in ON0.
  assert (0 < cntU s)%nat.
  { unfold cntU. assert (X : In n (filter (fun n => unjoined (th s n)) (tids s))).
    { apply filter_In. split; auto. unfold unjoined. destruct (tp (th s n)); auto. }
    destruct (filter (fun n => unjoined (th s n)) (tids s)); [destruct X | simpl; lia]. }
  destruct (pl s); lia.
Qed.

Lemma dead_event_pending : forall o tr s, run (init o) tr = Some s -> JJ s /\ WP s.
Proof. intros o tr s R. destruct (Inv2_run _ _ _ R). auto. Qed.

Lemma put_then_freed_or_shut : forall o tr s, run (init o) tr = Some s -> In (LPut o) tr -> put_state s.
Proof.
  intros o tr s R. revert tr s R. apply (run_ind_tr (fun tr s => In (LPut o) tr -> put_state s)).
  - intros [].
  - intros tr s l s' R I H IN. apply in_app_iff in IN. destruct (Inv_run _ _ _ R).
    destruct IN as [IN | [EQ | []]]; [| subst l].
    + eapply put_keep; eauto.
    + pose proof (own_run _ _ _ R) as OW. step_inv H. unfold put_state. ssimp. right. eexists. split; [eassumption |].
      right. unfold own_may_act in *. bools. subst. try rewrite OW. apply upd_same.
Qed.

Lemma freed_when_drained : forall o tr s, run (init o) tr = Some s ->
  (In FFree (todo s) -> forall p, pl s = PLive p -> pstarted p = 0 /\ pdone p = [] /\ pshut p = true) /\
  ((forall p, pl s <> PLive p) -> nlive s = 0%nat).
Proof.
  intros o tr s H. destruct (Inv_run o tr s H). split.
  - exact i_wf.
  - exact (proj2 i_w1b).
Qed.

Lemma no_touch_after_free : forall o tr s, run (init o) tr = Some s -> pl s = PFreed ->
  (forall l, pool_label l = true -> step s l = None) /\
  (forall l s', step s l = Some s' -> pl s' = PFreed).
Proof.
  intros o tr s H P. split.
  - intros l L. exact (freed_no_pool_label s l (i_lock s (Inv_run o tr s H)) P L).
  - intros l s' X. exact (freed_stays s l s' P X).
Qed.
