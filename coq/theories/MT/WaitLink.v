(* WaitLink.v -- the key of the interest set of MT/WaitModel.v (the pid: find_pid looks an interest up by w_pid, X1 = one
   live interest per pid) IS the order of the tree iv_wait_interests of src/iv_wait.c.  gen/c2gallina.py (TYPED, class
   CTr) re-translates on every run from the clang AST of the current source into Gen/LeafWait.v:
     wait_interest_compare a_pid b_pid : option Z      iv_wait_interest_compare (whole function; -1 / 1 / 0)
     wait_find_hit pid p_pid, wait_find_left pid p_pid  `if (pid == p->pid)`, `if (pid < p->pid)` of __iv_wait_interest_find
   Proved: the comparator is the three-way comparison of the pids (0 exactly for equal pids), and the two tests of the
   tree search are the model's `w_pid w =? pid` and the descent direction that agrees with the comparator. *)
From Coq Require Import List ZArith Bool Lia.
From Ivv Require Import Base.CSem Gen.LeafWait MT.WaitModel.
Local Open Scope Z_scope.

Lemma leaf_wait_compare : forall a b : wrec,
  wait_interest_compare (w_pid a) (w_pid b) =
  Some (if w_pid a <? w_pid b then -1 else if w_pid b <? w_pid a then 1 else 0).
Proof. intros. unfold wait_interest_compare. rewrite Z.gtb_ltb. destruct (w_pid a <? w_pid b), (w_pid b <? w_pid a); reflexivity. Qed.

Lemma leaf_wait_compare_eq : forall a b : wrec,
  wait_interest_compare (w_pid a) (w_pid b) = Some 0 <-> w_pid a = w_pid b.
Proof.
  intros. rewrite leaf_wait_compare.
  destruct (Z.ltb_spec (w_pid a) (w_pid b)); [split; [discriminate|lia]|].
  destruct (Z.ltb_spec (w_pid b) (w_pid a)); [split; [discriminate|lia]|]. split; [lia|reflexivity].
Qed.

(* the test of find_pid (MT/WaitModel.v) on one record *)
Lemma leaf_wait_find_hit : forall pid (w : wrec), wait_find_hit pid (w_pid w) = Some (w_pid w =? pid).
Proof. intros. unfold wait_find_hit. rewrite Z.eqb_sym. reflexivity. Qed.

(* the search descends to the side the comparator assigns to a record with that pid *)
Lemma leaf_wait_find_left : forall pid (w x : wrec), w_pid x = pid ->
  wait_find_left pid (w_pid w) = Some true <-> wait_interest_compare (w_pid x) (w_pid w) = Some (-1).
Proof.
  intros pid w x E. rewrite leaf_wait_compare, E. unfold wait_find_left.
  destruct (pid <? w_pid w); [split; reflexivity|]. destruct (w_pid w <? pid); split; discriminate.
Qed.

Lemma wait_link_all :
  (forall a b : wrec, wait_interest_compare (w_pid a) (w_pid b) =
     Some (if w_pid a <? w_pid b then -1 else if w_pid b <? w_pid a then 1 else 0)) /\
  (forall a b : wrec, wait_interest_compare (w_pid a) (w_pid b) = Some 0 <-> w_pid a = w_pid b) /\
  (forall pid (w : wrec), wait_find_hit pid (w_pid w) = Some (w_pid w =? pid)) /\
  (forall pid (w x : wrec), w_pid x = pid ->
     wait_find_left pid (w_pid w) = Some true <-> wait_interest_compare (w_pid x) (w_pid w) = Some (-1)).
Proof. exact (conj leaf_wait_compare (conj leaf_wait_compare_eq (conj leaf_wait_find_hit leaf_wait_find_left))). Qed.

(* ---- round 9 ----
   is_dead of the model IS iv_wait_status_dead of the source (WIFEXITED || WIFSIGNALED: every status except the stopped
   ones 0x..7f and the continued one 0xffff), Gen/Leaf.v re-translated on every run; the reaper asks wait4 for ANY child
   (-1) without blocking and including stopped and continued children (WNOHANG | WUNTRACED | WCONTINUED = 1 | 2 | 8), leaves
   its loop when nothing is left (pid <= 0), routes a status iff an interest was found, and the kill helper / unregister
   look at the DEAD flag exactly as the model's WKill guard / tree membership do. *)
From Ivv Require Gen.Leaf.
Import ListNotations.

Fixpoint upto (n : nat) : list Z := match n with O => [] | S m => upto m ++ [Z.of_nat m] end.
Lemma upto_in n x : 0 <= x < Z.of_nat n -> In x (upto n).
Proof.
  induction n as [|m IH]; intros H; [lia|].
  cbn [upto]. apply in_or_app.
  destruct (Z.eq_dec x (Z.of_nat m)) as [->|Hne]; [right; left; reflexivity | left; apply IH; lia].
Qed.

(* the translated function, as a function of the low seven bits when the status is not 0xffff *)
Definition dead_low (m : Z) : Z :=
  if (((Z.shiftr (Leaf.wrap_s8 (m + 1)) 1) >? 0) && true) then 1 else if (m =? 0) then 1 else 0.

Definition dead_low_ok (m : Z) : bool := dead_low m =? (if m =? 127 then 0 else 1).

Lemma dead_low_spec : forall m, 0 <= m < 128 -> dead_low m = (if m =? 127 then 0 else 1).
Proof.
  intros m H. assert (E : forallb dead_low_ok (upto 128) = true) by (vm_compute; reflexivity).
  rewrite forallb_forall in E. specialize (E m (upto_in 128 m H)). unfold dead_low_ok in E.
  apply Z.eqb_eq in E. exact E.
Qed.

Theorem status_dead_is_the_code : forall st, 0 <= st ->
  Leaf.iv_wait_status_dead st = (if is_dead st then 1 else 0).
Proof.
  intros st H. unfold Leaf.iv_wait_status_dead, is_dead.
  assert (L : Z.land st 127 = st mod 128) by (change 127 with (Z.ones 7); rewrite Z.land_ones by lia; reflexivity).
  rewrite L. pose proof (Z.mod_pos_bound st 128 ltac:(lia)) as B.
  destruct (Z.eqb_spec st 65535) as [->|Hne].
  - vm_compute. reflexivity.
  - cbn [negb]. pose proof (dead_low_spec (st mod 128) B) as D. unfold dead_low in D. rewrite D.
    destruct (st mod 128 =? 127); reflexivity.
Qed.

Lemma leaf_reap_call : wait_reap_which tt = Some (-1) /\ wait_reap_opts tt = Some 11.
Proof. split; reflexivity. Qed.

Lemma leaf_reap_tests : forall pid (p : option wrec),
  wait_reap_none pid = Some (pid <=? 0) /\
  wait_reap_known (match p with Some _ => 1 | None => 0 end) = Some (match p with Some _ => true | None => false end).
Proof. intros pid [w|]; split; reflexivity. Qed.

(* reap_one of the model routes the status iff the translated `p != NULL` test holds for the interest found by pid *)
Theorem reap_routes_is_the_code : forall s pid st,
  match wait_reap_known (match find_pid pid (ints s) with Some _ => 1 | None => 0 end) with
  | Some true => exists p, find_pid pid (ints s) = Some p /\
                           reap_one true s pid st =
                           Ok {| ints := upd_rec (w_id p) (set_reap st) (ints s); wlock := wlock s;
                                 reaped := (if is_dead st then pid :: reaped s else reaped s);
                                 spawning := spawning s; kpend := kpend s; draining := draining s |}
  | Some false => ints (match reap_one true s pid st with Ok s' => s' | Crash => s end) = ints s
  | None => False
  end.
Proof.
  intros s pid st. unfold reap_one. destruct (find_pid pid (ints s)) as [p|]; cbn.
  - exists p. split; reflexivity.
  - destruct (is_dead st); reflexivity.
Qed.

(* the DEAD flag (bit 0 of ->flags) guards the kill helper and the tree removal *)
Lemma leaf_dead_guards : forall dead : bool,
  wait_kill_alive (if dead then 1 else 0) = Some (negb dead) /\
  wait_unreg_in_tree (if dead then 1 else 0) = Some (negb dead).
Proof. intros []; split; reflexivity. Qed.

(* the model accepts a WKill label exactly when `performed` is what the translated guard computes *)
Theorem kill_guard_is_the_code : forall s t id sig performed w,
  find id (ints s) = Some w ->
  (step s (WKill t id sig performed) <> None ->
   wait_kill_alive (if w_dead w then 1 else 0) = Some performed).
Proof.
  intros s t id sig performed w F H. destruct (leaf_dead_guards (w_dead w)) as [-> _].
  cbn [step step_gen] in H. unfold step, step_gen in H. rewrite F in H.
  destruct (Bool.eqb performed (negb (w_dead w))) eqn:E.
  - apply Bool.eqb_prop in E. rewrite E. reflexivity.
  - repeat match type of H with context [if ?c then _ else _] => destruct c end; try congruence; contradiction H; reflexivity.
Qed.
