(* WaitLink.v -- the key of the interest set of MT/WaitModel.v (the pid: find_pid looks an interest up by w_pid, X1 = one
   live interest per pid) IS the order of the tree iv_wait_interests of src/iv_wait.c.  gen/c2gallina.py (TYPED, class
   CTr) re-translates on every run from the clang AST of the current source into Gen/LeafWait.v:
     wait_interest_compare a_pid b_pid : option Z      iv_wait_interest_compare (whole function; -1 / 1 / 0)
     wait_find_hit pid p_pid, wait_find_left pid p_pid  `if (pid == p->pid)`, `if (pid < p->pid)` of __iv_wait_interest_find
   Proved: the comparator is the three-way comparison of the pids (0 exactly for equal pids), and the two tests of the
   tree search are the model's `w_pid w =? pid` and the descent direction that agrees with the comparator. *)
From Coq Require Import List ZArith Bool Lia.
From Ivv Require Import Base.CSem Gen.LeafWait MT.WaitModel.
Local Open Scope Z_scope.

Lemma leaf_wait_compare : forall a b : wrec,
  wait_interest_compare (w_pid a) (w_pid b) =
  Some (if w_pid a <? w_pid b then -1 else if w_pid b <? w_pid a then 1 else 0).
Proof. intros. unfold wait_interest_compare. rewrite Z.gtb_ltb. destruct (w_pid a <? w_pid b), (w_pid b <? w_pid a); reflexivity. Qed.

Lemma leaf_wait_compare_eq : forall a b : wrec,
  wait_interest_compare (w_pid a) (w_pid b) = Some 0 <-> w_pid a = w_pid b.
Proof.
  intros. rewrite leaf_wait_compare.
  destruct (Z.ltb_spec (w_pid a) (w_pid b)); [split; [discriminate|lia]|].
  destruct (Z.ltb_spec (w_pid b) (w_pid a)); [split; [discriminate|lia]|]. split; [lia|reflexivity].
Qed.

(* the test of find_pid (MT/WaitModel.v) on one record *)
Lemma leaf_wait_find_hit : forall pid (w : wrec), wait_find_hit pid (w_pid w) = Some (w_pid w =? pid).
Proof. intros. unfold wait_find_hit. rewrite Z.eqb_sym. reflexivity. Qed.

(* the search descends to the side the comparator assigns to a record with that pid *)
Lemma leaf_wait_find_left : forall pid (w x : wrec), w_pid x = pid ->
  wait_find_left pid (w_pid w) = Some true <-> wait_interest_compare (w_pid x) (w_pid w) = Some (-1).
Proof.
  intros pid w x E. rewrite leaf_wait_compare, E. unfold wait_find_left.
  destruct (pid <? w_pid w); [split; reflexivity|]. destruct (w_pid w <? pid); split; discriminate.
Qed.

Lemma wait_link_all :
  (forall a b : wrec, wait_interest_compare (w_pid a) (w_pid b) =
     Some (if w_pid a <? w_pid b then -1 else if w_pid b <? w_pid a then 1 else 0)) /\
  (forall a b : wrec, wait_interest_compare (w_pid a) (w_pid b) = Some 0 <-> w_pid a = w_pid b) /\
  (forall pid (w : wrec), wait_find_hit pid (w_pid w) = Some (w_pid w =? pid)) /\
  (forall pid (w x : wrec), w_pid x = pid ->
     wait_find_left pid (w_pid w) = Some true <-> wait_interest_compare (w_pid x) (w_pid w) = Some (-1)).
Proof. exact (conj leaf_wait_compare (conj leaf_wait_compare_eq (conj leaf_wait_find_hit leaf_wait_find_left))). Qed.
