(* EventLink.v -- the poster side of MT/EventMT.v IS the code of iv_event_post() of src/iv_event.c.

   gen/c2gallina.py re-translates on every run, from the clang AST of the current source, the tests and stores of
   iv_event_post into Gen/LeafCoreEvent.v:
     core_evp_unqueued     `if (iv_list_empty(&this->list))`
     core_evp_first        `if (iv_list_empty(&dst->events_pending))`
     core_evp_post_init    `post = 0;`          core_evp_post_set `post = 1;`
     core_evp_post_test    `if (post)`
     core_evp_same_thread  `if (dst == me)`
     core_evp_need_task    `if (!iv_task_registered(&me->events_local))`
     core_evp_use_raw      `else if (iv_event_use_event_raw)`
   (a call of iv_list_empty / iv_task_registered inside a test is a parameter of the translated test; here it is
   instantiated with what the model's lists say).  Proved below:
     * the critical section post_cs of the model appends the event exactly when the translated "not queued" test says so
       and records exactly the translated post flag;
     * the wake-up transport the model accepts after the critical section (task of the owner / raw-event write / epoll
       kick / nothing) is the one the translated if-chain selects.
   A change of the C text (queue test dropped, `post` decided on another list, transports swapped, the owner kicking
   itself) changes the regenerated definitions and these proofs fail. *)
From Coq Require Import List ZArith Bool Arith Lia.
From Ivv Require Import Base.CSem Gen.LeafCoreEvent MT.EventMT MT.EventMTLemmas.
Import ListNotations.

Definition zb (b : bool) : Z := if b then 1%Z else 0%Z.

Lemma zb_nz b : negb (zb b =? 0)%Z = b.
Proof. destruct b; reflexivity. Qed.

(* the value of `post` when the critical section is left *)
Definition post_flag_code (queued pending_empty : bool) : option bool :=
  ub_bind (core_evp_post_init tt) (fun p0 =>
  ub_bind (core_evp_post_set tt) (fun p1 =>
  ub_bind (core_evp_unqueued (zb (negb queued))) (fun unqueued =>
  ub_bind (core_evp_first (zb pending_empty)) (fun first =>
  core_evp_post_test (if unqueued then (if first then p1 else p0) else p0))))).

Lemma post_flag_is_the_code : forall queued pe, post_flag_code queued pe = Some (negb queued && pe).
Proof. intros [] []; reflexivity. Qed.

(* does the critical section append the event? *)
Definition post_appends_code (queued : bool) : option bool := core_evp_unqueued (zb (negb queued)).

Lemma post_appends_is_the_code : forall queued, post_appends_code queued = Some (negb queued).
Proof. intros []; reflexivity. Qed.

(* post_cs of the model: pending list and recorded post flag are what the translated code computes *)
Theorem post_cs_is_the_code : forall s t e,
  let queued := mem e (pending s) || mem e (batch s) in
  post_appends_code queued = Some (negb queued) /\
  pending (post_cs s t e) = (if negb queued then pending s ++ [e] else pending s) /\
  (exists p, post_flag_code queued (is_nil (pending s)) = Some p /\
             get t (thr (post_cs s t e)) = PLocked e p) /\
  lock (post_cs s t e) = Some t.
Proof.
  intros s t e queued. split; [apply post_appends_is_the_code|].
  unfold post_cs. fold queued. rewrite post_flag_is_the_code.
  destruct queued; cbn [negb andb].
  - split; [reflexivity|]. split; [|reflexivity].
    exists false. split; [reflexivity|]. cbn. rewrite Nat.eqb_refl. reflexivity.
  - split; [reflexivity|]. split; [|reflexivity].
    exists (is_nil (pending s)). split; [reflexivity|]. cbn. rewrite Nat.eqb_refl. reflexivity.
Qed.

(* the wake-up chosen after the critical section *)
Inductive wake := WNone | WTask | WRaw | WKick.

Definition wake_code (post same_thread use_raw : bool) : option wake :=
  ub_bind (core_evp_post_test (zb post)) (fun do_post =>
  if do_post then
    ub_bind (core_evp_same_thread (if same_thread then 7%Z else 8%Z) 7%Z) (fun same =>
    if same then Some WTask else
    ub_bind (core_evp_use_raw (zb use_raw)) (fun raw => Some (if raw then WRaw else WKick)))
  else Some WNone).

Lemma wake_is_the_code : forall post same raw,
  wake_code post same raw = Some (if post then if same then WTask else if raw then WRaw else WKick else WNone).
Proof. intros [] [] []; reflexivity. Qed.

(* the labels the model accepts from the state "critical section left, post flag p" are exactly those of the wake-up the
   translated if-chain selects: the owner's task, the raw-event write, the epoll kick, or none *)
Theorem accepted_wake_is_the_code : forall s t e p,
  get t (thr s) = PAtKick e p ->
  match wake_code p (Nat.eqb t (own s)) (raw s) with
  | Some WNone => step s (LPostEnd t) <> None /\ step s (LKick t) = None /\ step s (LRawW t) = None
  | Some WTask => (exists s', step s (LPostEnd t) = Some s' /\ local s' = true) /\
                  step s (LKick t) = None /\ step s (LRawW t) = None
  | Some WRaw => step s (LRawW t) <> None /\ step s (LKick t) = None /\ step s (LPostEnd t) = None
  | Some WKick => step s (LKick t) <> None /\ step s (LRawW t) = None /\ step s (LPostEnd t) = None
  | None => False
  end.
Proof.
  intros s t e p H. rewrite wake_is_the_code. cbn [step]. rewrite H.
  destruct p.
  - destruct (Nat.eqb t (own s)) eqn:Eo.
    + split; [eexists; split; [reflexivity|reflexivity]|]. rewrite !orb_true_r. split; reflexivity.
    + destruct (raw s) eqn:Er; cbn [negb orb]; repeat split; try discriminate; reflexivity.
  - destruct (raw s), (Nat.eqb t (own s)); cbn [negb orb]; repeat split; try discriminate; reflexivity.
Qed.

(* non-vacuity *)
Example event_link_samples :
  post_flag_code false true = Some true /\ post_flag_code true true = Some false /\ post_flag_code false false = Some false /\
  wake_code true true false = Some WTask /\ wake_code true false true = Some WRaw /\ wake_code true false false = Some WKick /\
  wake_code false false false = Some WNone.
Proof. repeat split; reflexivity. Qed.
