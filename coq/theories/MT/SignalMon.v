(* SignalMon.v -- the monitor of MT/SignalModel.v (full-strength hand-off, full = true) accepts every
   label sequence the transition system accepts: simulation between model states and monitor states. *)
From Coq Require Import List ZArith Bool Lia.
From Ivv Require Import MT.SignalModel MT.SignalProofs MT.SignalFacts.
Import ListNotations.
Local Open Scope Z_scope.

#[local] Hint Resolve keeps_post keeps_read keeps_clear keeps_idle : core.

Definition strip (r : irec) : irec :=
  {| i_id := i_id r; i_thr := i_thr r; i_sig := i_sig r; i_excl := i_excl r; i_tt := i_tt r; i_addr := i_addr r;
     i_active := false; i_cnt := 0; i_phase := PIdle |}.

Lemma strip_static : forall r, static_eq (strip r) r.
Proof. intro r. repeat split. Qed.

Lemma strip_insert : forall r l, map strip (insert r l) = insert (strip r) (map strip l).
Proof.
  induction l as [|x t IH]; simpl; [reflexivity|].
  rewrite (static_lt r (strip r) x (strip x)) by apply strip_static.
  destruct (lt_rec r x); simpl; [reflexivity|]. rewrite IH. reflexivity.
Qed.

Lemma strip_filter : forall (f : irec -> bool) l, (forall r, f (strip r) = f r) ->
  filter f (map strip l) = map strip (filter f l).
Proof.
  intros f l Hf. induction l as [|x t IH]; simpl; [reflexivity|]. rewrite Hf. destruct (f x); simpl; rewrite IH; reflexivity.
Qed.

Lemma strip_remove : forall id l, remove id (map strip l) = map strip (remove id l).
Proof. intros. unfold remove. apply strip_filter. reflexivity. Qed.

Lemma strip_find : forall id l, find id (map strip l) = option_map strip (find id l).
Proof.
  unfold find. induction l as [|x t IH]; simpl; [reflexivity|]. destruct (i_id x =? id); [reflexivity|exact IH].
Qed.

Lemma strip_ids : forall l, map i_id (map strip l) = map i_id l.
Proof. intro l. rewrite map_map. reflexivity. Qed.

Lemma strip_count : forall sg l, count_sig sg (map strip l) = count_sig sg l.
Proof.
  intros. unfold count_sig. rewrite strip_filter by reflexivity. rewrite map_length. reflexivity.
Qed.

Lemma strip_sel_plan : forall sc sg l, sel_plan sc sg (map strip l) = sel_plan sc sg l.
Proof.
  intros. unfold sel_plan, cands. rewrite strip_filter.
  - unfold sel. rewrite strip_filter by reflexivity. destruct (filter i_excl _) as [|e es]; simpl.
    + apply strip_ids.
    + reflexivity.
  - intro r. destruct sc; reflexivity.
Qed.

Lemma strip_upd_rec : forall f id l, keeps f -> map strip (upd_rec id f l) = map strip l.
Proof.
  intros f id l Hk. unfold upd_rec. rewrite map_map. apply map_ext. intro r.
  destruct (i_id r =? id); [|reflexivity].
  destruct (Hk r) as (E1 & E2 & E3 & E4 & E5 & E6). unfold strip. rewrite E1, E2, E3, E4, E5, E6. reflexivity.
Qed.

(* ---------- membership ---------- *)
Lemma mem_cons : forall x y l, mem x (y :: l) = (x =? y) || mem x l.
Proof. reflexivity. Qed.

Lemma mem_del : forall x y l, mem x (del y l) = mem x l && negb (x =? y).
Proof.
  unfold mem, del. induction l as [|z t IH]; simpl; [reflexivity|].
  destruct (z =? y) eqn:E1; simpl.
  - rewrite IH. destruct (x =? z) eqn:E2; simpl; [|reflexivity].
    zb. subst. rewrite Z.eqb_refl. simpl. rewrite andb_false_r. reflexivity.
  - rewrite IH. destruct (x =? z) eqn:E2; simpl; [|reflexivity].
    zb. subst. destruct (z =? y) eqn:E3; [zb; contradiction|reflexivity].
Qed.

Lemma mem_ids_find : forall id l, mem id (map i_id l) = match find id l with Some _ => true | None => false end.
Proof.
  unfold mem, find. induction l as [|x t IH]; simpl; [reflexivity|].
  rewrite (Z.eqb_sym id). destruct (i_id x =? id); simpl; [reflexivity|exact IH].
Qed.

(* ---------- the simulation relation ---------- *)
Definition bact (s : state) (id : Z) : bool := match find id (regs s) with Some r => i_active r | None => false end.
Definition bowed (s : state) (id : Z) : bool := match find id (regs s) with Some r => 0 <? i_cnt r | None => false end.
Definition brun (s : state) (id : Z) : bool :=
  match find id (regs s) with Some r => negb (phase_eqb (i_phase r) PIdle) | None => false end.

Definition rel_stage (x : stage) (e : mexp) : Prop :=
  match x with
  | SIdle => e = MNone
  | SThr p => e = MPosts false p
  | SNeedLock sig => e = MNeed sig
  | SProc p => e = MPosts true p
  | SExit => e = MPosts false [] \/ e = MNone
  | SUnreg p => e = MPosts true p
  end.

Record Sim (s : state) (m : mstate) : Prop := {
  sim_regs : m_regs m = map strip (regs s);
  sim_act : forall id, mem id (m_act m) = bact s id;
  sim_owed : forall id, mem id (m_owed m) = bowed s id;
  sim_run : forall id, mem id (m_run m) = brun s id;
  sim_exp : forall t, rel_stage (stg s t) (m_exp m t);
  sim_mask : forall t, m_masked m t = masked s t
}.

(* ---------- plans only name registered interests ---------- *)
Definition plan_of (x : stage) : list Z :=
  match x with SThr p | SProc p | SUnreg p => p | _ => [] end.

Definition InvP (s : state) : Prop :=
  forall t id, In id (plan_of (stg s t)) ->
    exists r, find id (regs s) = Some r /\ (match stg s t with SThr _ => i_thr r = t | _ => True end).

Definition thr_stage (x : stage) : Prop := match x with SThr _ => True | _ => False end.

Lemma invP_mono : forall s s', InvP s ->
  (forall id r, find id (regs s) = Some r -> exists r', find id (regs s') = Some r' /\ i_thr r' = i_thr r) ->
  (forall t id, In id (plan_of (stg s' t)) ->
     In id (plan_of (stg s t)) /\ (thr_stage (stg s' t) -> thr_stage (stg s t))) ->
  InvP s'.
Proof.
  intros s s' HP Hf Hs t id Hin. destruct (Hs t id Hin) as [Hin0 Hk].
  destruct (HP t id Hin0) as [r [Hr Ht]]. destruct (Hf id r Hr) as [r' [Hr' Ht']]. exists r'. split; [exact Hr'|].
  destruct (stg s' t) eqn:E'; try exact I. specialize (Hk I). destruct (stg s t); try contradiction. lia.
Qed.

Lemma find_upd_some : forall f id id' l r, keeps f -> find id l = Some r ->
  exists r', find id (upd_rec id' f l) = Some r' /\ i_thr r' = i_thr r.
Proof.
  intros f id id' l r Hk Hf. rewrite find_upd_rec by assumption. rewrite Hf. destruct (id =? id').
  - exists (f r). split; [reflexivity|]. apply Hk.
  - exists r. split; reflexivity.
Qed.

Lemma find_same : forall l id (r : irec), find id l = Some r -> exists r', find id l = Some r' /\ i_thr r' = i_thr r.
Proof. intros. exists r. split; [assumption|reflexivity]. Qed.

Lemma upd_stage_cases : forall (g : Z -> stage) t x u, upd g t x u = x /\ u = t \/ upd g t x u = g u /\ u <> t.
Proof. intros. unfold upd. destruct (u =? t) eqn:E; zb; [left|right]; split; auto. Qed.

Lemma sel_plan_find : forall sc sg l id, NoDup (map i_id l) -> In id (sel_plan sc sg l) ->
  exists r, find id l = Some r /\ in_scope sc r = true.
Proof.
  intros sc sg l id Hnd Hin. destruct (sel_plan_scope _ _ _ _ Hin) as [r [Hr [Hid [_ Hsc]]]].
  exists r. split; [apply find_unique; assumption|exact Hsc].
Qed.

Lemma scope_thr : forall t r, in_scope (Some t) r = true -> i_thr r = t.
Proof. simpl. intros t r H. apply andb_true_iff in H. destruct H as [_ H]. zb. exact H. Qed.

Lemma upd_plan_mono : forall (g : Z -> stage) t x u id,
  (forall i, In i (plan_of x) -> In i (plan_of (g t))) -> (thr_stage x -> thr_stage (g t)) ->
  In id (plan_of (upd g t x u)) -> In id (plan_of (g u)) /\ (thr_stage (upd g t x u) -> thr_stage (g u)).
Proof.
  intros g t x u id H1 H2 Hin. destruct (upd_stage_cases g t x u) as [[E Eu]|[E Eu]]; rewrite E in *.
  - subst u. split; [apply H1; exact Hin|exact H2].
  - split; [exact Hin|auto].
Qed.

Lemma invP_step : forall s l s', Inv s -> InvP s -> step s l = Some s' -> InvP s'.
Proof.
  intros s l s' [HR HL] HP H. destruct l.
  - (* LLock *)
    simpl in H. destruct (lock s) eqn:Elk; [discriminate|]. destruct (stg s t) eqn:Est; try discriminate;
      try (destruct (masked s t); [|discriminate]); inversion H; subst; clear H.
    + apply (invP_mono s); [exact HP|intros; apply find_same; assumption|]. intros u id Hin. simpl in Hin. split; [exact Hin|auto].
    + intros u id Hin. simpl in *. destruct (upd_stage_cases (stg s) t (SProc (wake_plan None sig (regs s))) u) as [[E Eu]|[E Eu]];
        rewrite E in *.
      * simpl in Hin. rewrite (wake_plan_sel _ _ _ (inv_sorted s HR)) in Hin.
        destruct (sel_plan_find _ _ _ _ (inv_nodup s HR) Hin) as [r [Hr _]]. exists r. split; [exact Hr|exact I].
      * apply HP. exact Hin.
  - (* LUnlock *)
    simpl in H. destruct (holds s t); [|discriminate].
    apply (invP_mono s); [exact HP|dmatch H; inversion H; subst; intros; apply find_same; assumption|].
    intros u id Hin. dmatch H; inversion H; subst; clear H; simpl in Hin;
      try (destruct (upd_stage_cases (stg s) t SExit u) as [[E' Eu]|[E' Eu]]; rewrite E' in Hin);
      try (destruct (upd_stage_cases (stg s) t SIdle u) as [[E' Eu]|[E' Eu]]; rewrite E' in Hin);
      try contradiction; try (split; [exact Hin|]); simpl; try rewrite E'; auto.
  - (* LReg *)
    simpl in H. destruct (holds s t && is_idle (stg s t) && (0 <=? sig) && (sig <? 64)); [|discriminate].
    destruct (find id (regs s)) eqn:Ef; [discriminate|].
    destruct (osb_eqb sa (if total s sig =? 0 then Some true else None)); [|discriminate]. inversion H; subst; clear H.
    apply (invP_mono s); [exact HP| |simpl; auto].
    intros id' r Hr. simpl. exists r. split; [|reflexivity]. rewrite find_insert by (simpl; exact Ef). simpl.
    destruct (id =? id') eqn:E; [|exact Hr]. zb. subst. rewrite Hr in Ef. discriminate.
  - (* LUnreg *)
    simpl in H. destruct (holds s t && is_idle (stg s t)) eqn:E0; [|discriminate]. apply andb_true_iff in E0. destruct E0 as [Eh Ei].
    destruct (find id (regs s)) as [r0|] eqn:Ef; [|discriminate]. destruct (i_thr r0 =? t) eqn:Et; [|discriminate]. zb.
    destruct (osb_eqb sa (if total s (i_sig r0) - 1 =? 0 then Some false else None)); [|discriminate]. inversion H; subst; clear H.
    apply holds_lock in Eh.
    assert (Hoth : forall u id', u <> i_thr r0 -> In id' (plan_of (stg s u)) ->
              exists r, find id' (remove id (regs s)) = Some r /\ match stg s u with SThr _ => i_thr r = u | _ => True end).
    { intros u id' Hu Hin. destruct (HP u id' Hin) as [r [Hr Hk]]. exists r. split; [|exact Hk].
      rewrite find_remove. destruct (id' =? id) eqn:E; [|exact Hr]. zb. subst. rewrite Hr in Ef. inversion Ef; subst.
      specialize (HL u). destruct (stg s u); simpl in Hin; try contradiction.
      - exfalso. apply Hu. symmetry. exact Hk.
      - exfalso. rewrite HL in Eh. inversion Eh. apply Hu. assumption.
      - exfalso. rewrite HL in Eh. inversion Eh. apply Hu. assumption. }
    intros u id' Hin. simpl in *.
    destruct (negb (total s (i_sig r0) - 1 =? 0) && i_excl r0 && i_active r0).
    + destruct (upd_stage_cases (stg s) (i_thr r0) (SUnreg (handoff_wake true r0 (remove id (regs s)))) u) as [[E Eu]|[E Eu]];
        rewrite E in *.
      * simpl in Hin. rewrite (handoff_wake_plan true r0 _ (sorted_remove _ _ (inv_sorted s HR))) in Hin.
        unfold handoff_plan in Hin.
        assert (Hreg : forall sc, In id' (sel_plan sc (i_sig r0) (remove id (regs s))) -> exists r, find id' (remove id (regs s)) = Some r).
        { intros sc Hs. destruct (sel_plan_find _ _ _ _ (nodup_remove _ _ (inv_nodup s HR)) Hs) as [r [Hr _]]. exists r. exact Hr. }
        destruct (sel_plan (scope_of r0) (i_sig r0) (remove id (regs s))) as [|q qs] eqn:Es.
        { destruct (true && i_tt r0); [|contradiction]. destruct (Hreg None Hin) as [r Hr]. exists r. split; [exact Hr|exact I]. }
        { rewrite <- Es in Hin. destruct (Hreg _ Hin) as [r Hr]. exists r. split; [exact Hr|exact I]. }
      * apply Hoth; assumption.
    + destruct (Z.eq_dec u (i_thr r0)) as [->|Hu]; [|apply Hoth; assumption].
      destruct (stg s (i_thr r0)); simpl in Ei; try discriminate. simpl in Hin. contradiction.
  - (* LSigEnter *)
    cbn [step] in H. match type of H with (if ?c then _ else _) = _ => destruct c; [|discriminate] end.
    destruct (child || negb (owner s)).
    + inversion H; subst; clear H. apply (invP_mono s); [exact HP|intros; apply find_same; assumption|].
      intros u id Hin. simpl in Hin. destruct (upd_stage_cases (stg s) t SExit u) as [[E Eu]|[E Eu]]; rewrite E in *;
        [contradiction|split; [exact Hin|simpl; rewrite E; auto]].
    + intros u id Hin.
      destruct (wake_plan (Some t) sig (regs s)) as [|i p] eqn:Ew; inversion H; subst; clear H; simpl in *.
      * destruct (upd_stage_cases (stg s) t (SNeedLock sig) u) as [[E Eu]|[E Eu]]; rewrite E in *; [contradiction|apply HP; exact Hin].
      * destruct (upd_stage_cases (stg s) t (SThr (i :: p)) u) as [[E Eu]|[E Eu]]; rewrite E in *; [|apply HP; exact Hin].
        subst u. rewrite <- Ew in Hin. simpl in Hin. rewrite (wake_plan_sel _ _ _ (inv_sorted s HR)) in Hin.
        destruct (sel_plan_find _ _ _ _ (inv_nodup s HR) Hin) as [r [Hr Hsc]]. exists r. split; [exact Hr|apply scope_thr; exact Hsc].
  - (* LSigDfl *) simpl in H. dmatch H. inversion H; subst. exact HP.
  - (* LPost *)
    simpl in H. apply (invP_mono s); [exact HP| |].
    + intros id' r Hr. dmatch H; inversion H; subst; simpl; apply find_upd_some; auto.
    + intros u id' Hin. dmatch H; inversion H; subst; clear H; simpl in Hin |- *;
        (apply upd_plan_mono; [| |exact Hin]); rewrite E; simpl; auto.
  - (* LSigExit *)
    simpl in H. apply (invP_mono s); [exact HP|dmatch H; inversion H; subst; intros; apply find_same; assumption|].
    intros u id Hin. dmatch H; inversion H; subst; clear H; simpl in Hin |- *;
      (apply upd_plan_mono; [| |exact Hin]); simpl; intros; contradiction.
  - (* LRead *)
    simpl in H. apply (invP_mono s); [exact HP| |dmatch H; inversion H; subst; simpl; auto].
    intros id' r Hr. dmatch H; inversion H; subst; simpl; [apply find_upd_some; auto|apply find_same; assumption].
  - (* LClear *)
    simpl in H. apply (invP_mono s); [exact HP| |dmatch H; inversion H; subst; simpl; auto].
    intros id' r Hr. dmatch H; inversion H; subst; simpl; apply find_upd_some; auto.
  - (* LHandler *)
    simpl in H. apply (invP_mono s); [exact HP| |dmatch H; inversion H; subst; simpl; auto].
    intros id' r Hr. dmatch H; inversion H; subst; simpl; apply find_upd_some; auto.
  - (* LBlock *) simpl in H. dmatch H. inversion H; subst. exact HP.
  - (* LMask *) simpl in H. dmatch H; inversion H; subst; exact HP.
  - (* LSaMask *) simpl in H. dmatch H. inversion H; subst. exact HP.
Qed.

(* ---------- reading a boolean attribute of an interest ---------- *)
Definition bget (g : irec -> bool) (l : list irec) (id : Z) : bool :=
  match find id l with Some r => g r | None => false end.

Lemma bget_upd : forall g f id l id', keeps f ->
  bget g (upd_rec id f l) id' = if id' =? id then bget (fun r => g (f r)) l id' else bget g l id'.
Proof.
  intros. unfold bget. rewrite find_upd_rec by assumption. destruct (id' =? id); [|reflexivity].
  destruct (find id' l); reflexivity.
Qed.

Lemma bget_insert : forall g r l id', find (i_id r) l = None ->
  bget g (insert r l) id' = if i_id r =? id' then g r else bget g l id'.
Proof. intros. unfold bget. rewrite find_insert by assumption. destruct (i_id r =? id'); reflexivity. Qed.

Lemma bget_remove : forall g id l id', bget g (remove id l) id' = if id' =? id then false else bget g l id'.
Proof. intros. unfold bget. rewrite find_remove. destruct (id' =? id); reflexivity. Qed.

Lemma rel_upd : forall (g : Z -> stage) (h : Z -> mexp) t x e,
  rel_stage x e -> (forall u, rel_stage (g u) (h u)) -> forall u, rel_stage (upd g t x u) (upd h t e u).
Proof. intros g h t x e H1 H2 u. unfold upd. destruct (u =? t); [exact H1|apply H2]. Qed.

Lemma sim_stage_only : forall s m t x e, Sim s m -> rel_stage x e -> Sim (with_stg s t x) (m_with_exp m t e).
Proof.
  intros s m t x e [S1 S2 S3 S4 S5 S6] Hr. constructor; simpl; auto. apply rel_upd; assumption.
Qed.

Lemma sim_lock_only : forall s m o, Sim s m -> Sim (with_lock s o) m.
Proof. intros s m o [S1 S2 S3 S4 S5 S6]. constructor; simpl; auto. Qed.

Lemma sim_step_lock : forall s m t s', Inv s -> Sim s m -> step s (LLock t) = Some s' ->
  exists m', mstep true m (LLock t) = Some m' /\ Sim s' m'.
Proof.
  intros s m t s' [HR _] HS H. pose proof (sim_exp s m HS t) as He. simpl in H |- *.
  destruct (lock s); [discriminate|]. destruct (stg s t) eqn:Est; try discriminate; simpl in He; rewrite He.
  - rewrite (sim_mask s m HS t). destruct (masked s t); [|discriminate]. inversion H; subst; clear H.
    eexists. split; [reflexivity|]. apply sim_lock_only. exact HS.
  - inversion H; subst; clear H. eexists. split; [reflexivity|]. apply sim_stage_only; [apply sim_lock_only; exact HS|].
    simpl. rewrite (sim_regs s m HS), strip_sel_plan, (wake_plan_sel _ _ _ (inv_sorted s HR)). reflexivity.
Qed.

Lemma sim_step_unlock : forall s m t s', Sim s m -> step s (LUnlock t) = Some s' ->
  exists m', mstep true m (LUnlock t) = Some m' /\ Sim s' m'.
Proof.
  intros s m t s' HS H. pose proof (sim_exp s m HS t) as He. simpl in H |- *.
  destruct (holds s t); [|discriminate].
  destruct (stg s t) as [| | |[|]| |[|]] eqn:Est; try discriminate; inversion H; subst; clear H; simpl in He; rewrite He.
  - eexists. split; [reflexivity|]. apply sim_lock_only. exact HS.
  - eexists. split; [reflexivity|]. apply sim_stage_only; [apply sim_lock_only; exact HS|]. simpl. right. reflexivity.
  - eexists. split; [reflexivity|]. apply sim_stage_only; [apply sim_lock_only; exact HS|]. reflexivity.
Qed.

Lemma bact_eq : forall s, bact s = bget i_active (regs s). Proof. reflexivity. Qed.
Lemma bowed_eq : forall s, bowed s = bget (fun r => 0 <? i_cnt r) (regs s). Proof. reflexivity. Qed.
Lemma brun_eq : forall s, brun s = bget (fun r => negb (phase_eqb (i_phase r) PIdle)) (regs s). Proof. reflexivity. Qed.

Lemma sim_step_reg : forall s m t id sig x tt a sa s', Inv s -> Sim s m ->
  step s (LReg t id sig x tt a sa) = Some s' ->
  exists m', mstep true m (LReg t id sig x tt a sa) = Some m' /\ Sim s' m'.
Proof.
  intros s m t id sig x tt a sa s' [HR _] HS H. destruct HS as [S1 S2 S3 S4 S5 S6]. simpl in H |- *.
  destruct (holds s t && is_idle (stg s t) && (0 <=? sig) && (sig <? 64)); [|discriminate].
  destruct (find id (regs s)) eqn:Ef; [discriminate|].
  destruct (osb_eqb sa (if total s sig =? 0 then Some true else None)) eqn:Eo; [|discriminate].
  inversion H; subst; clear H.
  rewrite S1, strip_count, <- (inv_total s HR), Eo, strip_ids, mem_ids_find, Ef. simpl.
  eexists. split; [reflexivity|].
  set (r := {| i_id := id; i_thr := t; i_sig := sig; i_excl := x; i_tt := tt; i_addr := a;
               i_active := false; i_cnt := 0; i_phase := PIdle |}).
  assert (Hfr : find (i_id r) (regs s) = None) by exact Ef.
  constructor; simpl.
  - rewrite strip_insert. reflexivity.
  - intro id'. rewrite S2, !bact_eq. simpl. rewrite (bget_insert _ r) by exact Hfr. simpl.
    destruct (id =? id') eqn:E; [|reflexivity]. zb. subst. unfold bget. rewrite Ef. reflexivity.
  - intro id'. rewrite S3, !bowed_eq. simpl. rewrite (bget_insert _ r) by exact Hfr. simpl.
    destruct (id =? id') eqn:E; [|reflexivity]. zb. subst. unfold bget. rewrite Ef. reflexivity.
  - intro id'. rewrite S4, !brun_eq. simpl. rewrite (bget_insert _ r) by exact Hfr. simpl.
    destruct (id =? id') eqn:E; [|reflexivity]. zb. subst. unfold bget. rewrite Ef. reflexivity.
  - exact S5.
  - exact S6.
Qed.

Lemma strip_handoff_plan : forall b r l, handoff_plan b (strip r) (map strip l) = handoff_plan b r l.
Proof.
  intros. unfold handoff_plan. change (scope_of (strip r)) with (scope_of r). change (i_sig (strip r)) with (i_sig r).
  change (i_tt (strip r)) with (i_tt r). rewrite !strip_sel_plan. reflexivity.
Qed.

Lemma sim_step_unreg : forall s m t id sa s', Inv s -> Sim s m ->
  step s (LUnreg t id sa) = Some s' ->
  exists m', mstep true m (LUnreg t id sa) = Some m' /\ Sim s' m'.
Proof.
  intros s m t id sa s' [HR _] HS H. destruct HS as [S1 S2 S3 S4 S5 S6]. simpl in H |- *.
  destruct (holds s t && is_idle (stg s t)) eqn:E0; [|discriminate]. apply andb_true_iff in E0. destruct E0 as [_ Ei].
  destruct (find id (regs s)) as [r|] eqn:Ef; [|discriminate]. destruct (i_thr r =? t); [|discriminate].
  destruct (osb_eqb sa (if total s (i_sig r) - 1 =? 0 then Some false else None)) eqn:Eo; [|discriminate].
  inversion H; subst; clear H.
  rewrite S1, strip_find, Ef. simpl. rewrite strip_remove, strip_count.
  rewrite (count_remove (i_sig r) id r (regs s) (inv_nodup s HR) Ef), Z.eqb_refl, <- (inv_total s HR), Eo.
  eexists. split; [reflexivity|].
  assert (Hact : mem id (m_act m) = i_active r) by (rewrite S2; unfold bact; rewrite Ef; reflexivity).
  constructor; simpl.
  - reflexivity.
  - intro id'. rewrite mem_del, S2, !bact_eq. simpl. rewrite bget_remove. destruct (id' =? id); simpl; [apply andb_false_r|apply andb_true_r].
  - intro id'. rewrite mem_del, S3, !bowed_eq. simpl. rewrite bget_remove. destruct (id' =? id); simpl; [apply andb_false_r|apply andb_true_r].
  - intro id'. rewrite mem_del, S4, !brun_eq. simpl. rewrite bget_remove. destruct (id' =? id); simpl; [apply andb_false_r|apply andb_true_r].
  - rewrite Hact. change (i_excl (strip r)) with (i_excl r).
    destruct (negb (total s (i_sig r) - 1 =? 0) && i_excl r && i_active r); [|exact S5].
    apply rel_upd; [|exact S5]. simpl. rewrite strip_handoff_plan.
    rewrite (handoff_wake_plan true r _ (sorted_remove _ _ (inv_sorted s HR))). reflexivity.
  - exact S6.
Qed.

Lemma disp_count : forall s sig, InvR s -> disp s sig = negb (count_sig sig (map strip (regs s)) =? 0).
Proof. intros s sig HR. rewrite strip_count. apply (inv_disp s HR). Qed.

Lemma sim_step_sigenter : forall s m t sig c s', reachable s -> Sim s m ->
  step s (LSigEnter t sig c) = Some s' ->
  exists m', mstep true m (LSigEnter t sig c) = Some m' /\ Sim s' m'.
Proof.
  intros s m t sig c s' R HS H. destruct (reachable_inv s R) as [HR _].
  pose proof (sim_exp s m HS t) as He. pose proof (sim_regs s m HS) as S1.
  cbn [step] in H. cbn [mstep].
  destruct (is_idle (stg s t)) eqn:Ei; [|discriminate]. destruct (disp s sig) eqn:Ed; [|discriminate].
  cbn [andb] in H. match type of H with (if ?c then _ else _) = _ => destruct c; [|discriminate] end.
  destruct (stg s t) eqn:Est; try discriminate. simpl in He. rewrite He.
  rewrite S1, <- (disp_count s sig HR), Ed.
  assert (Ho : owner s = true).
  { apply owner_when_registered; [exact R|]. intro Hn. rewrite (inv_disp s HR), Hn in Ed. discriminate. }
  rewrite Ho in H. cbn [negb] in H. rewrite orb_false_r in H. destruct c.
  - inversion H; subst; clear H. eexists. split; [reflexivity|]. apply sim_stage_only; [exact HS|]. simpl. left. reflexivity.
  - rewrite strip_sel_plan. rewrite (wake_plan_sel _ _ _ (inv_sorted s HR)) in H.
    destruct (sel_plan (Some t) sig (regs s)); inversion H; subst; clear H;
      (eexists; split; [reflexivity|]); apply sim_stage_only; try exact HS; reflexivity.
Qed.

Lemma sim_step_sigdfl : forall s m t sig s', Inv s -> Sim s m -> step s (LSigDfl t sig) = Some s' ->
  exists m', mstep true m (LSigDfl t sig) = Some m' /\ Sim s' m'.
Proof.
  intros s m t sig s' [HR _] HS H. simpl in H |- *. destruct (disp s sig) eqn:Ed; [discriminate|].
  injection H as <-. rewrite (sim_regs s m HS). rewrite (disp_count s sig HR) in Ed.
  apply negb_false_iff in Ed. rewrite Ed. eexists. split; [reflexivity|exact HS].
Qed.

Lemma sim_post : forall s m id t x e, Sim s m -> rel_stage x e -> G2 (regs s) ->
  (exists r, find id (regs s) = Some r) ->
  Sim (with_stg (do_post s id) t x) (m_with_exp (m_post m id) t e).
Proof.
  intros s m id t x e [S1 S2 S3 S4 S5 S6] Hr HG [r Hf].
  constructor; cbn [m_regs m_act m_owed m_run m_exp m_masked m_with_exp m_post regs stg masked with_stg do_post with_regs].
  - rewrite strip_upd_rec by auto. exact S1.
  - intro id'. rewrite mem_cons, mem_del, S2, !bact_eq. simpl. rewrite bget_upd by auto.
    destruct (id' =? id) eqn:E; simpl; [|apply andb_true_r]. zb. subst. unfold bget. rewrite Hf. reflexivity.
  - intro id'. rewrite mem_cons, mem_del, S3, !bowed_eq. simpl. rewrite bget_upd by auto.
    destruct (id' =? id) eqn:E; simpl; [|apply andb_true_r]. zb. subst. unfold bget. rewrite Hf. simpl.
    symmetry. apply Z.ltb_lt. destruct (find_in _ _ _ Hf) as [Hin _]. destruct (HG r Hin). lia.
  - intro id'. rewrite S4, !brun_eq. simpl. rewrite bget_upd by auto.
    destruct (id' =? id); [|reflexivity]. unfold bget. destruct (find id' (regs s)); reflexivity.
  - apply rel_upd; assumption.
  - exact S6.
Qed.

Lemma sim_step_post : forall s m t id s', Inv s -> InvP s -> Sim s m -> step s (LPost t id) = Some s' ->
  exists m', mstep true m (LPost t id) = Some m' /\ Sim s' m'.
Proof.
  intros s m t id s' [HR _] HP HS H. pose proof (sim_exp s m HS t) as He. pose proof (HP t id) as Hp.
  simpl in H |- *.
  destruct (stg s t) as [|[|i p]| |[|i p]| |[|i p]] eqn:Est; try discriminate;
    (destruct (i =? id) eqn:Ei; [|discriminate]); inversion H; subst; clear H; simpl in He; rewrite He, Ei;
    (eexists; split; [reflexivity|]); zb; subst i;
    (apply sim_post; [exact HS|reflexivity|apply (inv_g2 s HR)|]);
    (destruct Hp as [r [Hr _]]; [simpl; left; reflexivity|exists r; exact Hr]).
Qed.

Lemma sim_step_sigexit : forall s m t s', Sim s m -> step s (LSigExit t) = Some s' ->
  exists m', mstep true m (LSigExit t) = Some m' /\ Sim s' m'.
Proof.
  intros s m t s' HS H. pose proof (sim_exp s m HS t) as He. simpl in H |- *.
  destruct (stg s t) as [|[|]| | | |] eqn:Est; try discriminate; inversion H; subst; clear H; simpl in He.
  - rewrite He. eexists. split; [reflexivity|]. apply sim_stage_only; [exact HS|reflexivity].
  - destruct He as [He|He]; rewrite He.
    + eexists. split; [reflexivity|]. apply sim_stage_only; [exact HS|reflexivity].
    + eexists. split; [reflexivity|].
      destruct HS as [S1 S2 S3 S4 S5 S6]. constructor; simpl; auto.
      intro u. unfold upd. destruct (u =? t) eqn:E; [|apply S5]. zb. subst. simpl. exact He.
Qed.

Ltac sim_fields := cbn [m_regs m_act m_owed m_run m_exp m_masked regs stg masked with_regs].

Lemma sim_step_read : forall s m t id s', Sim s m -> step s (LRead t id) = Some s' ->
  exists m', mstep true m (LRead t id) = Some m' /\ Sim s' m'.
Proof.
  intros s m t id s' HS H. destruct HS as [S1 S2 S3 S4 S5 S6]. simpl in H |- *.
  destruct (find id (regs s)) as [r|] eqn:Ef; [|discriminate].
  destruct ((i_thr r =? t) && is_idle (stg s t) && phase_eqb (i_phase r) PIdle); [|discriminate].
  assert (Ho : mem id (m_owed m) = (0 <? i_cnt r)) by (rewrite S3; unfold bowed; rewrite Ef; reflexivity).
  rewrite Ho. destruct (0 <? i_cnt r); inversion H; subst; clear H.
  - eexists. split; [reflexivity|]. constructor; sim_fields.
    + rewrite strip_upd_rec by auto. exact S1.
    + intro id'. rewrite S2, !bact_eq. sim_fields. rewrite bget_upd by auto.
      destruct (id' =? id); [|reflexivity]. unfold bget. destruct (find id' (regs s)); reflexivity.
    + intro id'. rewrite mem_del, S3, !bowed_eq. sim_fields. rewrite bget_upd by auto.
      destruct (id' =? id); simpl; [|apply andb_true_r]. rewrite andb_false_r. unfold bget. destruct (find id' (regs s)); reflexivity.
    + intro id'. rewrite mem_cons, S4, !brun_eq. sim_fields. rewrite bget_upd by auto.
      destruct (id' =? id) eqn:E; simpl; [|reflexivity]. zb. subst. unfold bget. rewrite Ef. reflexivity.
    + exact S5.
    + exact S6.
  - eexists. split; [reflexivity|]. constructor; assumption.
Qed.

Lemma sim_step_clear : forall s m t id s', Sim s m -> step s (LClear t id) = Some s' ->
  exists m', mstep true m (LClear t id) = Some m' /\ Sim s' m'.
Proof.
  intros s m t id s' HS H. destruct HS as [S1 S2 S3 S4 S5 S6]. simpl in H |- *.
  destruct (find id (regs s)) as [r|] eqn:Ef; [|discriminate].
  destruct ((i_thr r =? t) && phase_eqb (i_phase r) POwed && (i_tt r || holds s t)) eqn:Ec; [|discriminate].
  apply andb_true_iff in Ec. destruct Ec as [Ec _]. apply andb_true_iff in Ec. destruct Ec as [_ Ep].
  inversion H; subst; clear H. eexists. split; [reflexivity|]. constructor; sim_fields.
  - rewrite strip_upd_rec by auto. exact S1.
  - intro id'. rewrite mem_del, S2, !bact_eq. sim_fields. rewrite bget_upd by auto.
    destruct (id' =? id); simpl; [|apply andb_true_r]. rewrite andb_false_r. unfold bget. destruct (find id' (regs s)); reflexivity.
  - intro id'. rewrite S3, !bowed_eq. sim_fields. rewrite bget_upd by auto.
    destruct (id' =? id); [|reflexivity]. unfold bget. destruct (find id' (regs s)); reflexivity.
  - intro id'. rewrite S4, !brun_eq. sim_fields. rewrite bget_upd by auto.
    destruct (id' =? id) eqn:E; [|reflexivity]. zb. subst. unfold bget. rewrite Ef. simpl.
    destruct (i_phase r); try discriminate. reflexivity.
  - exact S5.
  - exact S6.
Qed.

Lemma sim_step_handler : forall s m t id s', Sim s m -> step s (LHandler t id) = Some s' ->
  exists m', mstep true m (LHandler t id) = Some m' /\ Sim s' m'.
Proof.
  intros s m t id s' HS H. destruct HS as [S1 S2 S3 S4 S5 S6]. simpl in H |- *.
  destruct (find id (regs s)) as [r|] eqn:Ef; [|discriminate].
  destruct ((i_thr r =? t) && phase_eqb (i_phase r) PCleared) eqn:Ec; [|discriminate].
  apply andb_true_iff in Ec. destruct Ec as [_ Ep].
  assert (Hr : mem id (m_run m) = true).
  { rewrite S4. unfold brun. rewrite Ef. destruct (i_phase r); try discriminate. reflexivity. }
  rewrite Hr. inversion H; subst; clear H. eexists. split; [reflexivity|]. constructor; sim_fields.
  - rewrite strip_upd_rec by auto. exact S1.
  - intro id'. rewrite S2, !bact_eq. sim_fields. rewrite bget_upd by auto.
    destruct (id' =? id); [|reflexivity]. unfold bget. destruct (find id' (regs s)); reflexivity.
  - intro id'. rewrite S3, !bowed_eq. sim_fields. rewrite bget_upd by auto.
    destruct (id' =? id); [|reflexivity]. unfold bget. destruct (find id' (regs s)); reflexivity.
  - intro id'. rewrite mem_del, S4, !brun_eq. sim_fields. rewrite bget_upd by auto.
    destruct (id' =? id); simpl; [|apply andb_true_r]. rewrite andb_false_r. unfold bget. destruct (find id' (regs s)); reflexivity.
  - exact S5.
  - exact S6.
Qed.

Lemma sim_step_block : forall s m t s', Inv s -> Sim s m -> step s (LBlock t) = Some s' ->
  exists m', mstep true m (LBlock t) = Some m' /\ Sim s' m'.
Proof.
  intros s m t s' [HR _] HS H. simpl in H |- *.
  destruct (is_idle (stg s t) && quiet_thread t (regs s)) eqn:E; [|discriminate]. injection H as <-.
  apply andb_true_iff in E. destruct E as [_ Hq].
  assert (Hm : m_quiet t m = true).
  { unfold m_quiet. rewrite (sim_regs s m HS). apply forallb_forall. intros x Hx.
    apply in_map_iff in Hx. destruct Hx as [r [<- Hr]]. change (i_thr (strip r)) with (i_thr r). change (i_id (strip r)) with (i_id r).
    destruct (i_thr r =? t) eqn:Et; [|reflexivity]. simpl. zb.
    destruct (quiet_thread_spec _ _ _ Hq Hr Et) as [Hc Hp].
    pose proof (find_unique (i_id r) (regs s) r (inv_nodup s HR) Hr eq_refl) as Hf.
    rewrite (sim_owed s m HS), (sim_run s m HS). unfold bowed, brun. rewrite Hf, Hc, Hp. reflexivity. }
  rewrite Hm. eexists. split; [reflexivity|exact HS].
Qed.

Theorem sim_step : forall s m l s', reachable s -> InvP s -> Sim s m -> step s l = Some s' ->
  exists m', mstep true m l = Some m' /\ Sim s' m'.
Proof.
  intros s m l s' R HP HS H. pose proof (reachable_inv s R) as HI. destruct l.
  - eapply sim_step_lock; eauto.
  - eapply sim_step_unlock; eauto.
  - eapply sim_step_reg; eauto.
  - eapply sim_step_unreg; eauto.
  - eapply sim_step_sigenter; eauto.
  - eapply sim_step_sigdfl; eauto.
  - eapply sim_step_post; eauto.
  - eapply sim_step_sigexit; eauto.
  - eapply sim_step_read; eauto.
  - eapply sim_step_clear; eauto.
  - eapply sim_step_handler; eauto.
  - eapply sim_step_block; eauto.
  - (* LMask *) simpl in H |- *. destruct (all || negb (holds s t && needs_mask (stg s t))); [|discriminate].
    inversion H; subst; clear H. eexists. split; [reflexivity|]. destruct HS as [S1 S2 S3 S4 S5 S6]. constructor; simpl; auto.
    intro u. unfold upd. destruct (u =? t); [reflexivity|apply S6].
  - (* LSaMask *) simpl in H |- *. destruct full; [|discriminate]. inversion H; subst. eexists. split; [reflexivity|exact HS].
Qed.

Lemma sim_init : Sim init minit.
Proof. constructor; simpl; auto. Qed.

Lemma invP_init : InvP init.
Proof. intros t id H. simpl in H. contradiction. Qed.

Lemma sim_run_all : forall ls s m s', reachable s -> InvP s -> Sim s m -> run s ls = Some s' ->
  exists m', mrun true m ls = Some m' /\ Sim s' m'.
Proof.
  induction ls as [|l r IH]; simpl; intros s m s' R HP HS H.
  - injection H as <-. exists m. split; [reflexivity|exact HS].
  - destruct (step s l) as [s1|] eqn:E; [|discriminate].
    destruct (sim_step s m l s1 R HP HS E) as [m1 [Hm1 HS1]]. rewrite Hm1.
    apply (IH s1 m1 s'); [eapply reachable_step; eauto|apply (invP_step s l s1); [apply reachable_inv; exact R|exact HP|exact E]|exact HS1|exact H].
Qed.

(* every label sequence accepted by the transition system satisfies the full-strength monitor *)
Theorem monitor_accepts : forall ls, accepts ls = true -> monitor true ls = true.
Proof.
  intros ls H. unfold accepts, accepts_gen in H. destruct (run init ls) as [s|] eqn:E; [|discriminate].
  destruct (sim_run_all ls init minit s) as [m [Hm _]]; [exists []; reflexivity|apply invP_init|apply sim_init|exact E|].
  unfold monitor. rewrite Hm. reflexivity.
Qed.
