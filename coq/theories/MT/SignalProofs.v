(* SignalProofs.v -- invariants of the iv_signal transition system over all accepted label sequences,
   fan-out, hand-off, default disposition, fork isolation, "every delivery is handled", and the
   monitor-accepts theorem (property C10). *)
From Coq Require Import List ZArith Bool Lia.
From Ivv Require Import MT.SignalModel.
Import ListNotations.
Local Open Scope Z_scope.

(* ---------- the comparator is a total preorder on the key (signum, exclusive first, address) ---------- *)
Definition le_rec (a b : irec) : bool := negb (lt_rec b a).

Ltac zb :=
  repeat match goal with
  | H : (_ <? _) = true |- _ => apply Z.ltb_lt in H
  | H : (_ <? _) = false |- _ => apply Z.ltb_ge in H
  | H : (_ =? _) = true |- _ => apply Z.eqb_eq in H
  | H : (_ =? _) = false |- _ => apply Z.eqb_neq in H
  | H : (_ <=? _) = true |- _ => apply Z.leb_le in H
  | H : (_ <=? _) = false |- _ => apply Z.leb_gt in H
  end.

Lemma lt_le : forall a b, lt_rec a b = true -> le_rec a b = true.
Proof.
  unfold le_rec, lt_rec. intros a b.
  destruct (i_sig a <? i_sig b) eqn:E1, (i_sig b <? i_sig a) eqn:E2, (i_excl a), (i_excl b),
    (i_addr a <? i_addr b) eqn:E3, (i_addr b <? i_addr a) eqn:E4; simpl; intros; try reflexivity; try discriminate; zb; lia.
Qed.

Lemma le_trans : forall a b c, le_rec a b = true -> le_rec b c = true -> le_rec a c = true.
Proof.
  unfold le_rec, lt_rec. intros a b c.
  destruct (i_sig b <? i_sig a) eqn:E1, (i_sig a <? i_sig b) eqn:E2, (i_sig c <? i_sig b) eqn:E3,
    (i_sig b <? i_sig c) eqn:E4, (i_sig c <? i_sig a) eqn:E5, (i_sig a <? i_sig c) eqn:E6,
    (i_excl a), (i_excl b), (i_excl c); simpl; intros; try reflexivity; try discriminate; zb; try lia;
  destruct (i_addr b <? i_addr a) eqn:A1, (i_addr c <? i_addr b) eqn:A2, (i_addr c <? i_addr a) eqn:A3;
    simpl in *; try reflexivity; try discriminate; zb; lia.
Qed.

Lemma nlt_le : forall a b, lt_rec a b = false -> le_rec b a = true.
Proof. unfold le_rec. intros a b H. rewrite H. reflexivity. Qed.

Fixpoint sorted (l : list irec) : Prop :=
  match l with
  | [] => True
  | x :: t => Forall (fun y => le_rec x y = true) t /\ sorted t
  end.

Lemma insert_in : forall r l x, In x (insert r l) <-> x = r \/ In x l.
Proof.
  induction l as [|y t IH]; simpl; intros.
  - intuition.
  - destruct (lt_rec r y); simpl; [intuition|]. rewrite IH. intuition.
Qed.

Lemma insert_sorted : forall r l, sorted l -> sorted (insert r l).
Proof.
  induction l as [|y t IH]; simpl; intros H.
  - split; [constructor|exact I].
  - destruct H as [Hy Ht]. destruct (lt_rec r y) eqn:E; simpl.
    + split; [|split; assumption]. constructor; [apply lt_le; exact E|].
      rewrite Forall_forall in *. intros z Hz. eapply le_trans; [apply lt_le; exact E|]. apply Hy; exact Hz.
    + split; [|apply IH; exact Ht].
      rewrite Forall_forall in *. intros z Hz. apply insert_in in Hz. destruct Hz as [->|Hz].
      * apply nlt_le; exact E.
      * apply Hy; exact Hz.
Qed.

Lemma filter_sorted : forall f l, sorted l -> sorted (filter f l).
Proof.
  induction l as [|y t IH]; simpl; intros H; [exact I|]. destruct H as [Hy Ht].
  destruct (f y); simpl; [|apply IH; exact Ht]. split; [|apply IH; exact Ht].
  rewrite Forall_forall in *. intros z Hz. apply filter_In in Hz. apply Hy, Hz.
Qed.

Lemma map_sorted : forall f l, (forall a b, le_rec (f a) (f b) = le_rec a b) -> sorted l -> sorted (map f l).
Proof.
  induction l as [|y t IH]; simpl; intros Hf H; [exact I|]. destruct H as [Hy Ht]. split; [|apply IH; assumption].
  rewrite Forall_forall in *. intros z Hz. apply in_map_iff in Hz. destruct Hz as [w [<- Hw]]. rewrite Hf. apply Hy, Hw.
Qed.

(* ---------- fan-out: the walk of the code is the documented selection ---------- *)
Lemma walk_nonexcl : forall l, Forall (fun r => i_excl r = false) l -> walk l = map i_id l /\ filter i_excl l = [].
Proof.
  induction l as [|r t IH]; simpl; intros H; [split; reflexivity|].
  inversion H; subst. rewrite H2. destruct (IH H3) as [-> ->]. split; reflexivity.
Qed.

Lemma walk_sel : forall sig l, sorted l -> Forall (fun r => i_sig r = sig) l -> walk l = sel l.
Proof.
  intros sig l Hs Hg. destruct l as [|r t]; [reflexivity|]. unfold sel. simpl.
  destruct (i_excl r) eqn:E; [reflexivity|].
  assert (Ht : Forall (fun x => i_excl x = false) t).
  { destruct Hs as [Hr _]. inversion Hg; subst. rewrite Forall_forall in *. intros x Hx.
    specialize (Hr x Hx). specialize (H2 x Hx). unfold le_rec, lt_rec in Hr. rewrite H2, Z.ltb_irrefl, E in Hr.
    destruct (i_excl x); [discriminate|reflexivity]. }
  destruct (walk_nonexcl t Ht) as [-> ->]. reflexivity.
Qed.

Lemma cands_sig : forall sc sig l, Forall (fun r => i_sig r = sig) (cands sc sig l).
Proof.
  intros. apply Forall_forall. intros x Hx. apply filter_In in Hx. destruct Hx as [_ H].
  apply andb_true_iff in H. destruct H as [_ H]. apply Z.eqb_eq in H. exact H.
Qed.

Lemma wake_plan_sel : forall sc sig l, sorted l -> wake_plan sc sig l = sel_plan sc sig l.
Proof.
  intros. unfold wake_plan, sel_plan. apply walk_sel with (sig := sig).
  - apply filter_sorted; assumption.
  - apply cands_sig.
Qed.

(* ---------- association-list facts ---------- *)
Definition static_eq (a b : irec) : Prop :=
  i_id a = i_id b /\ i_thr a = i_thr b /\ i_sig a = i_sig b /\ i_excl a = i_excl b /\ i_tt a = i_tt b /\ i_addr a = i_addr b.

Definition keeps (f : irec -> irec) : Prop := forall r, static_eq (f r) r.

Lemma keeps_post : keeps set_post. Proof. intro r; repeat split. Qed.
Lemma keeps_read : keeps set_read. Proof. intro r; repeat split. Qed.
Lemma keeps_clear : keeps set_clear. Proof. intro r; repeat split. Qed.
Lemma keeps_idle : keeps set_idle. Proof. intro r; repeat split. Qed.
#[local] Hint Resolve keeps_post keeps_read keeps_clear keeps_idle : core.

Lemma static_lt : forall a a' b b', static_eq a' a -> static_eq b' b -> lt_rec a' b' = lt_rec a b.
Proof.
  unfold static_eq, lt_rec. intros a a' b b' (_ & _ & -> & -> & _ & ->) (_ & _ & -> & -> & _ & ->). reflexivity.
Qed.

Lemma find_in : forall id l r, find id l = Some r -> In r l /\ i_id r = id.
Proof.
  unfold find. intros id l r H. apply find_some in H. destruct H as [H1 H2]. apply Z.eqb_eq in H2. split; assumption.
Qed.

Lemma find_none : forall id l, find id l = None -> ~ In id (map i_id l).
Proof.
  unfold find. intros id l H Hin. apply in_map_iff in Hin. destruct Hin as [r [E Hr]].
  apply (find_none _ _ H) in Hr. rewrite E, Z.eqb_refl in Hr. discriminate.
Qed.

Lemma find_unique : forall id l r, NoDup (map i_id l) -> In r l -> i_id r = id -> find id l = Some r.
Proof.
  unfold find. induction l as [|x t IH]; simpl; intros r Hnd Hin E; [contradiction|].
  inversion Hnd; subst. destruct Hin as [->|Hin].
  - rewrite Z.eqb_refl. reflexivity.
  - destruct (i_id x =? i_id r) eqn:E2.
    + apply Z.eqb_eq in E2. exfalso. apply H1. rewrite E2. apply in_map. exact Hin.
    + apply IH; auto.
Qed.

Lemma find_upd_rec : forall f id id' l, keeps f ->
  find id (upd_rec id' f l) = if id =? id' then option_map f (find id l) else find id l.
Proof.
  unfold find, upd_rec. intros f id id' l Hk. induction l as [|x t IH]; simpl.
  - destruct (id =? id'); reflexivity.
  - destruct (i_id x =? id') eqn:E1.
    + destruct (Hk x) as [Hid _]. rewrite Hid. destruct (i_id x =? id) eqn:E2.
      * zb. subst. rewrite Z.eqb_refl. reflexivity.
      * rewrite IH. reflexivity.
    + destruct (i_id x =? id) eqn:E2.
      * zb. subst. destruct (i_id x =? id') eqn:E3; [zb; contradiction|reflexivity].
      * rewrite IH. reflexivity.
Qed.

Lemma find_insert : forall id r l, find (i_id r) l = None ->
  find id (insert r l) = if i_id r =? id then Some r else find id l.
Proof.
  unfold find. intros id r l. induction l as [|x t IH]; simpl; intros Hn.
  - reflexivity.
  - destruct (i_id x =? i_id r) eqn:E0; [discriminate|].
    destruct (lt_rec r x); simpl.
    + reflexivity.
    + destruct (i_id x =? id) eqn:E1.
      * destruct (i_id r =? id) eqn:E2; [zb; lia|reflexivity].
      * apply IH. exact Hn.
Qed.

Lemma find_remove : forall id id' l, find id (remove id' l) = if id =? id' then None else find id l.
Proof.
  unfold find, remove. intros id id' l. induction l as [|x t IH]; simpl.
  - destruct (id =? id'); reflexivity.
  - destruct (i_id x =? id') eqn:E1; simpl.
    + rewrite IH. destruct (id =? id') eqn:E2; [reflexivity|]. destruct (i_id x =? id) eqn:E3; [zb; lia|reflexivity].
    + destruct (i_id x =? id) eqn:E3.
      * destruct (id =? id') eqn:E2; [zb; lia|reflexivity].
      * exact IH.
Qed.

Lemma map_id_upd_rec : forall f id l, keeps f -> map i_id (upd_rec id f l) = map i_id l.
Proof.
  unfold upd_rec. intros f id l Hk. rewrite map_map. apply map_ext. intro r.
  destruct (i_id r =? id); [apply Hk|reflexivity].
Qed.

Lemma nodup_insert : forall r l, NoDup (map i_id l) -> ~ In (i_id r) (map i_id l) -> NoDup (map i_id (insert r l)).
Proof.
  induction l as [|x t IH]; simpl; intros Hnd Hn.
  - constructor; [intros []|constructor].
  - destruct (lt_rec r x); simpl.
    + constructor; assumption.
    + inversion Hnd; subst. constructor.
      * intro Hin. apply in_map_iff in Hin. destruct Hin as [y [E Hy]]. apply insert_in in Hy. destruct Hy as [->|Hy].
        { apply Hn. left. symmetry. exact E. }
        { apply H1. rewrite <- E. apply in_map. exact Hy. }
      * apply IH; [assumption|]. intro. apply Hn. right. assumption.
Qed.

Lemma nodup_remove : forall id l, NoDup (map i_id l) -> NoDup (map i_id (remove id l)).
Proof.
  unfold remove. induction l as [|x t IH]; simpl; intros Hnd; [constructor|]. inversion Hnd; subst.
  destruct (negb (i_id x =? id)); simpl; [|apply IH; assumption]. constructor; [|apply IH; assumption].
  intro Hin. apply H1. apply in_map_iff in Hin. destruct Hin as [y [E Hy]]. apply filter_In in Hy.
  rewrite <- E. apply in_map. apply Hy.
Qed.

Lemma sorted_upd_rec : forall f id l, keeps f -> sorted l -> sorted (upd_rec id f l).
Proof.
  intros f id l Hk. unfold upd_rec. apply map_sorted. intros a b. unfold le_rec. f_equal.
  apply static_lt; (destruct (i_id _ =? id); [apply Hk|repeat split]).
Qed.

Lemma sorted_remove : forall id l, sorted l -> sorted (remove id l).
Proof. intros. apply filter_sorted. assumption. Qed.

(* ---------- counting ---------- *)
Lemma count_cons : forall sg x t, count_sig sg (x :: t) = (if i_sig x =? sg then 1 else 0) + count_sig sg t.
Proof.
  intros. unfold count_sig. cbn [filter]. destruct (i_sig x =? sg); [|lia].
  cbn [length]. rewrite Nat2Z.inj_succ. lia.
Qed.

Lemma count_insert : forall sg r l, count_sig sg (insert r l) = count_sig sg l + (if i_sig r =? sg then 1 else 0).
Proof.
  induction l as [|x t IH]; cbn [insert].
  - rewrite count_cons. lia.
  - destruct (lt_rec r x).
    + rewrite count_cons. lia.
    + rewrite !count_cons, IH. lia.
Qed.

Lemma remove_fresh : forall id l, ~ In id (map i_id l) -> remove id l = l.
Proof.
  unfold remove. induction l as [|y u IH]; simpl; intros H; [reflexivity|].
  destruct (i_id y =? id) eqn:E.
  - exfalso. apply H. left. zb. exact E.
  - simpl. f_equal. apply IH. intro. apply H. right. assumption.
Qed.

Lemma remove_cons : forall id x t, remove id (x :: t) = if i_id x =? id then remove id t else x :: remove id t.
Proof. intros. unfold remove. cbn [filter]. destruct (i_id x =? id); reflexivity. Qed.

Lemma count_remove : forall sg id r l, NoDup (map i_id l) -> find id l = Some r ->
  count_sig sg (remove id l) = count_sig sg l - (if i_sig r =? sg then 1 else 0).
Proof.
  induction l as [|x t IH]; intros Hnd Hf; [discriminate|].
  inversion Hnd; subst. rewrite remove_cons. unfold find in Hf. cbn [List.find] in Hf.
  destruct (i_id x =? id) eqn:E.
  - inversion Hf; subst. zb. subst id. rewrite remove_fresh by assumption. rewrite count_cons. lia.
  - rewrite !count_cons. rewrite (IH H2 Hf). lia.
Qed.

Lemma count_upd_rec : forall sg f id l, keeps f -> count_sig sg (upd_rec id f l) = count_sig sg l.
Proof.
  intros sg f id l Hk. induction l as [|x t IH]; [reflexivity|].
  unfold upd_rec in *. cbn [map]. rewrite !count_cons, IH.
  assert (E : i_sig (if i_id x =? id then f x else x) = i_sig x).
  { destruct (i_id x =? id); [apply Hk|reflexivity]. }
  rewrite E. reflexivity.
Qed.

Lemma count_nonneg : forall sg l, 0 <= count_sig sg l.
Proof. intros. unfold count_sig. lia. Qed.

Lemma count_pos_in : forall sg r l, In r l -> i_sig r = sg -> 0 < count_sig sg l.
Proof.
  unfold count_sig. intros sg r l Hin E.
  assert (In r (filter (fun r0 => i_sig r0 =? sg) l)) by (apply filter_In; split; [assumption|apply Z.eqb_eq; assumption]).
  destruct (filter _ l); [contradiction|]. simpl length. lia.
Qed.

(* ---------- the invariant ---------- *)
Definition G2rec (r : irec) : Prop :=
  0 <= i_cnt r /\ (i_active r = true -> 0 < i_cnt r \/ i_phase r = POwed).
Definition G2 (l : list irec) : Prop := forall r, In r l -> G2rec r.

Record InvR (s : state) : Prop := {
  inv_sorted : sorted (regs s);
  inv_nodup : NoDup (map i_id (regs s));
  inv_total : forall sg, total s sg = count_sig sg (regs s);
  inv_disp : forall sg, disp s sg = negb (count_sig sg (regs s) =? 0);
  inv_g2 : G2 (regs s)
}.

Definition InvL (s : state) : Prop :=
  forall u, match stg s u with SProc _ | SUnreg _ => lock s = Some u | _ => True end.

Definition Inv (s : state) : Prop := InvR s /\ InvL s.

Lemma g2_upd_rec : forall f id l, G2 l -> (forall r, In r l -> i_id r = id -> G2rec (f r)) -> G2 (upd_rec id f l).
Proof.
  unfold G2, upd_rec. intros f id l H Hf x Hx. apply in_map_iff in Hx. destruct Hx as [r [<- Hr]].
  destruct (i_id r =? id) eqn:E; [apply Hf; [assumption|zb; assumption]|apply H; assumption].
Qed.

Lemma invR_upd_rec : forall s f id, keeps f -> InvR s ->
  (forall r, In r (regs s) -> i_id r = id -> G2rec (f r)) -> InvR (with_regs s (upd_rec id f (regs s))).
Proof.
  intros s f id Hk [H1 H2 H3 H4 H5] Hf. constructor; simpl.
  - apply sorted_upd_rec; assumption.
  - rewrite map_id_upd_rec; assumption.
  - intro. rewrite count_upd_rec; auto.
  - intro. rewrite count_upd_rec; auto.
  - apply g2_upd_rec; assumption.
Qed.

Lemma invR_same : forall s s', regs s' = regs s -> total s' = total s -> disp s' = disp s -> InvR s -> InvR s'.
Proof. intros s s' E1 E2 E3 [H1 H2 H3 H4 H5]. constructor; rewrite ?E1, ?E2, ?E3; assumption. Qed.

Lemma holds_lock : forall s t, holds s t = true -> lock s = Some t.
Proof. unfold holds. intros s t. destruct (lock s); [|discriminate]. intro H. zb. subst. reflexivity. Qed.

Lemma upd_same : forall A (f : Z -> A) k v, upd f k v k = v.
Proof. intros. unfold upd. rewrite Z.eqb_refl. reflexivity. Qed.
Lemma upd_other : forall A (f : Z -> A) k v x, x <> k -> upd f k v x = f x.
Proof. intros. unfold upd. destruct (x =? k) eqn:E; [zb; contradiction|reflexivity]. Qed.

Lemma invL_stg : forall s t x, InvL s ->
  match x with SProc _ | SUnreg _ => lock s = Some t | _ => True end -> InvL (with_stg s t x).
Proof.
  unfold InvL. intros s t x H Hx u. simpl. unfold upd. destruct (u =? t) eqn:E.
  - zb. subst. exact Hx.
  - apply H.
Qed.

Lemma init_inv : Inv init.
Proof.
  split.
  - constructor; simpl; [exact I|constructor|reflexivity|reflexivity|intros x []].
  - intro u. simpl. exact I.
Qed.

Ltac dmatch H :=
  repeat match type of H with
  | context [match ?x with _ => _ end] => let E := fresh "E" in destruct x eqn:E; try discriminate H
  | context [if ?x then _ else _] => let E := fresh "E" in destruct x eqn:E; try discriminate H
  end.

Ltac bsplit :=
  repeat match goal with
  | H : _ && _ = true |- _ => apply andb_true_iff in H; destruct H
  end.

(* ---------- preservation, label by label ---------- *)
Lemma step_inv_lock : forall s t s', Inv s -> step s (LLock t) = Some s' -> Inv s'.
Proof.
  intros s t s' [HR HL] H. simpl in H. dmatch H; inversion H; subst; clear H; split.
  - apply (invR_same s); auto.
  - intro u. specialize (HL u). simpl. destruct (stg s u) eqn:Eu; try exact I; rewrite HL in E; discriminate.
  - apply (invR_same s); auto.
  - intro u. simpl. unfold upd. destruct (u =? t) eqn:Eu; [zb; subst; reflexivity|].
    specialize (HL u). destruct (stg s u); try exact I; rewrite HL in E; discriminate.
Qed.

Definition nolock_stage (x : stage) : Prop := match x with SProc _ | SUnreg _ => False | _ => True end.

Lemma invL_nolock : forall s', (forall u, nolock_stage (stg s' u)) -> InvL s'.
Proof. intros s' H u. specialize (H u). destruct (stg s' u); try exact I; contradiction. Qed.

Lemma step_inv_unlock : forall s t s', Inv s -> step s (LUnlock t) = Some s' -> Inv s'.
Proof.
  intros s t s' [HR HL] H. simpl in H. destruct (holds s t) eqn:Eh; [|discriminate]. apply holds_lock in Eh.
  assert (Hoth : forall u, u <> t -> nolock_stage (stg s u)).
  { intros u Hu. specialize (HL u). destruct (stg s u); try exact I; rewrite HL in Eh; inversion Eh; contradiction. }
  dmatch H; inversion H; subst; clear H; (split; [apply (invR_same s); auto|]); apply invL_nolock; intro u; simpl;
    unfold upd; destruct (Z.eq_dec u t) as [->|Hne];
    rewrite ?Z.eqb_refl, ?E; try exact I;
    try (destruct (u =? t) eqn:Eu; [exact I|]); apply Hoth; assumption.
Qed.

Lemma step_inv_reg : forall s t id sig x tt a sa s', Inv s -> step s (LReg t id sig x tt a sa) = Some s' -> Inv s'.
Proof.
  intros s t id sig x tt a sa s' [[H1 H2 H3 H4 H5] HL] H. simpl in H.
  destruct (holds s t && is_idle (stg s t) && (0 <=? sig) && (sig <? 64)); [|discriminate].
  destruct (find id (regs s)) eqn:Ef; [discriminate|].
  destruct (osb_eqb sa (if total s sig =? 0 then Some true else None)); [|discriminate].
  inversion H; subst; clear H.
  pose proof (count_nonneg sig (regs s)) as Hc.
  split.
  - constructor; simpl.
    + apply insert_sorted; assumption.
    + apply nodup_insert; [assumption|]. simpl. apply find_none. assumption.
    + intro sg. rewrite count_insert. simpl. unfold upd. destruct (sg =? sig) eqn:Es.
      * zb. subst. rewrite Z.eqb_refl, H3. reflexivity.
      * rewrite H3. destruct (sig =? sg) eqn:Es2; [zb; lia|lia].
    + intro sg. rewrite count_insert. simpl. rewrite H3.
      destruct (count_sig sig (regs s) =? 0) eqn:Ec0; unfold upd.
      * destruct (sg =? sig) eqn:Es.
        { zb. subst. rewrite Z.eqb_refl. symmetry. apply negb_true_iff. apply Z.eqb_neq. lia. }
        { rewrite H4. destruct (sig =? sg) eqn:Es2; [zb; lia|]. rewrite Z.add_0_r. reflexivity. }
      * rewrite H4. destruct (sig =? sg) eqn:Es2; [|rewrite Z.add_0_r; reflexivity].
        zb. subst. pose proof (count_nonneg sg (regs s)).
        destruct (count_sig sg (regs s) =? 0) eqn:E1; [zb; contradiction|].
        destruct (count_sig sg (regs s) + 1 =? 0) eqn:E2; [zb; lia|reflexivity].
    + intros r Hr. apply insert_in in Hr. destruct Hr as [->|Hr]; [|apply H5; assumption].
      split; simpl; [lia|discriminate].
  - exact HL.
Qed.

Lemma step_inv_unreg : forall s t id sa s', Inv s -> step s (LUnreg t id sa) = Some s' -> Inv s'.
Proof.
  intros s t id sa s' [[H1 H2 H3 H4 H5] HL] H. simpl in H.
  destruct (holds s t && is_idle (stg s t)) eqn:E0; [|discriminate]. bsplit.
  destruct (find id (regs s)) as [r|] eqn:Ef; [|discriminate].
  destruct (i_thr r =? t); [|discriminate].
  destruct (osb_eqb sa (if total s (i_sig r) - 1 =? 0 then Some false else None)); [|discriminate].
  inversion H; subst; clear H.
  destruct (find_in _ _ _ Ef) as [Hin Hid].
  pose proof (count_pos_in (i_sig r) r (regs s) Hin eq_refl) as Hpos.
  split.
  - constructor; simpl.
    + apply sorted_remove; assumption.
    + apply nodup_remove; assumption.
    + intro sg. rewrite (count_remove sg id r) by assumption. unfold upd. destruct (sg =? i_sig r) eqn:Es.
      * zb. subst. rewrite Z.eqb_refl, H3. reflexivity.
      * rewrite H3. destruct (i_sig r =? sg) eqn:Es2; [zb; lia|lia].
    + intro sg. rewrite (count_remove sg id r) by assumption. rewrite H3.
      destruct (count_sig (i_sig r) (regs s) - 1 =? 0) eqn:El; unfold upd.
      * destruct (sg =? i_sig r) eqn:Es.
        { zb. subst. rewrite Z.eqb_refl. symmetry. apply negb_false_iff. apply Z.eqb_eq. lia. }
        { rewrite H4. destruct (i_sig r =? sg) eqn:Es2; [zb; lia|]. rewrite Z.sub_0_r. reflexivity. }
      * rewrite H4. destruct (i_sig r =? sg) eqn:Es2; [|rewrite Z.sub_0_r; reflexivity].
        zb. subst.
        destruct (count_sig (i_sig r) (regs s) =? 0) eqn:E1; [zb; lia|].
        destruct (count_sig (i_sig r) (regs s) - 1 =? 0) eqn:E2; [zb; lia|reflexivity].
    + intros x Hx. apply H5. unfold remove in Hx. apply filter_In in Hx. apply Hx.
  - intro u. simpl.
    destruct (negb (total s (i_sig r) - 1 =? 0) && i_excl r && i_active r); [|apply HL].
    unfold upd. destruct (u =? t) eqn:Eu; [|apply HL]. zb. subst. apply holds_lock. assumption.
Qed.

Lemma invR_with_stg : forall s t x, InvR s -> InvR (with_stg s t x).
Proof. intros. apply (invR_same s); auto. Qed.

Lemma step_inv_sigenter : forall s t sig c s', Inv s -> step s (LSigEnter t sig c) = Some s' -> Inv s'.
Proof.
  intros s t sig c s' [HR HL] H. simpl in H. dmatch H; inversion H; subst; clear H;
    (split; [apply invR_with_stg; assumption|apply invL_stg; [assumption|exact I]]).
Qed.

Lemma step_inv_sigexit : forall s t s', Inv s -> step s (LSigExit t) = Some s' -> Inv s'.
Proof.
  intros s t s' [HR HL] H. simpl in H. dmatch H; inversion H; subst; clear H;
    (split; [apply invR_with_stg; assumption|apply invL_stg; [assumption|exact I]]).
Qed.

Lemma g2_post : forall r, G2rec r -> G2rec (set_post r).
Proof. intros r [H1 H2]. split; simpl; [lia|intro; left; lia]. Qed.

Lemma invR_post : forall s id, InvR s -> InvR (do_post s id).
Proof.
  intros s id HR. unfold do_post. apply invR_upd_rec; auto.
  intros r Hr _. apply g2_post. apply (inv_g2 s HR). assumption.
Qed.

Lemma step_inv_post : forall s t id s', Inv s -> step s (LPost t id) = Some s' -> Inv s'.
Proof.
  intros s t id s' [HR HL] H. simpl in H. dmatch H; inversion H; subst; clear H;
    (split; [apply invR_with_stg; apply invR_post; assumption|]);
    (apply invL_stg; [exact HL|]); try exact I; specialize (HL t); rewrite E in HL; exact HL.
Qed.

Lemma step_inv_read : forall s t id s', Inv s -> step s (LRead t id) = Some s' -> Inv s'.
Proof.
  intros s t id s' [HR HL] H. simpl in H. dmatch H; inversion H; subst; clear H; [|split; assumption].
  split; [|exact HL]. apply invR_upd_rec; auto. intros r _ _. split; simpl; [lia|intro; right; reflexivity].
Qed.

Lemma step_inv_clear : forall s t id s', Inv s -> step s (LClear t id) = Some s' -> Inv s'.
Proof.
  intros s t id s' [HR HL] H. simpl in H. dmatch H; inversion H; subst; clear H.
  split; [|exact HL]. apply invR_upd_rec; auto. intros r Hr _. split; simpl; [|discriminate].
  apply (inv_g2 s HR). assumption.
Qed.

Lemma step_inv_handler : forall s t id s', Inv s -> step s (LHandler t id) = Some s' -> Inv s'.
Proof.
  intros s t id s' [HR HL] H. simpl in H. destruct (find id (regs s)) as [r0|] eqn:Ef; [|discriminate].
  destruct ((i_thr r0 =? t) && phase_eqb (i_phase r0) PCleared) eqn:E; [|discriminate].
  apply andb_true_iff in E. destruct E as [_ Ep].
  inversion H; subst; clear H.
  split; [|exact HL]. apply invR_upd_rec; auto. intros r Hr Hid.
  assert (r = r0).
  { pose proof (find_unique id (regs s) r (inv_nodup s HR) Hr Hid) as Hu. rewrite Ef in Hu. inversion Hu. reflexivity. }
  subst r0. destruct (inv_g2 s HR r Hr) as [Hc Ha]. split; simpl; [exact Hc|].
  intro Hact. destruct (Ha Hact) as [Hp|Hp]; [left; exact Hp|]. rewrite Hp in Ep. discriminate.
Qed.

Theorem step_inv : forall s l s', Inv s -> step s l = Some s' -> Inv s'.
Proof.
  intros s l s' HI H. destruct l.
  - eapply step_inv_lock; eauto.
  - eapply step_inv_unlock; eauto.
  - eapply step_inv_reg; eauto.
  - eapply step_inv_unreg; eauto.
  - eapply step_inv_sigenter; eauto.
  - simpl in H. dmatch H. inversion H; subst. exact HI.
  - eapply step_inv_post; eauto.
  - eapply step_inv_sigexit; eauto.
  - eapply step_inv_read; eauto.
  - eapply step_inv_clear; eauto.
  - eapply step_inv_handler; eauto.
  - simpl in H. dmatch H. inversion H; subst. exact HI.
  - simpl in H. destruct HI as [HR HL]. dmatch H; inversion H; subst; (split; [apply (invR_same s); auto|exact HL]).
  - simpl in H. dmatch H. inversion H; subst. exact HI.
Qed.

Theorem run_inv : forall ls s s', Inv s -> run s ls = Some s' -> Inv s'.
Proof.
  induction ls as [|l r IH]; simpl; intros s s' HI H.
  - inversion H; subst. exact HI.
  - destruct (step s l) eqn:E; [|discriminate]. eapply IH; [eapply step_inv; eauto|exact H].
Qed.

Definition reachable (s : state) : Prop := exists ls, run init ls = Some s.

Theorem reachable_inv : forall s, reachable s -> Inv s.
Proof. intros s [ls H]. eapply run_inv; [apply init_inv|exact H]. Qed.
