(* WorkMTProofs.v -- the invariants of MT/WorkMT.v hold in every state reachable by an accepted label
   sequence; consequences used by Props/Properties_C12.v and Properties_C13.v *)
From Coq Require Import List ZArith Bool Arith Lia.
From Ivv Require Import MT.WorkMT MT.WorkMTBase MT.WorkMTSpec MT.WorkMTCs MT.WorkMTInvA MT.WorkMTInvW MT.WorkMTInvW4
  MT.WorkMTInvW5.
Import ListNotations.
Local Open Scope Z_scope.

Record Inv (s : state) : Prop := mkInv {
  i_tb : TB s;
  i_todo : lock s = None -> todo s = [];
  i_act : AAct s;
  i_lock : ALock s;
  i_pn : APN s;
  i_wf : WF s;
  i_wu : WU s;
  i_w1 : W1 s;
  i_w1b : W1b s;
  i_idle : Widle s;
  i_w2 : W2 s;
  i_w4 : W4 s;
  i_hfx : HFX s;
  i_w5 : W5 s
}.

Lemma Inv_init : forall o, Inv (init o).
Proof.
  intros o. constructor; unfold TB, AAct, ALock, APN, WF, WU, W1, W1b, Widle, W2, W4, W5, HFX, nlive, wpc_of; cbn; auto.
  all: try (intros; discriminate).
  all: try (intros; congruence).
  all: try (split; intros; auto; discriminate).
  all: try (intros ? [[] | ([] & _)]).
  repeat split; auto; try constructor; intros; try tauto; try (intros X; discriminate X); try congruence.
Qed.

Lemma Inv_step : forall s l s', Inv s -> step s l = Some s' -> Inv s'.
Proof.
  intros s l s' I H. destruct I. constructor.
  - eapply TB_step; eauto.
  - eapply a_todo_step; eauto.
  - eapply AAct_step; eauto.
  - eapply ALock_step; eauto.
  - eapply APN_step; eauto.
  - eapply WF_step; eauto.
  - eapply WU_step; eauto.
  - eapply W1_step; eauto.
  - eapply W1b_step; eauto.
  - eapply Widle_step; eauto.
  - eapply W2_step; eauto.
  - eapply W4_step; eauto.
  - eapply HFX_step; eauto.
  - eapply W5_step; eauto.
Qed.

Lemma Inv_run : forall o tr s, run (init o) tr = Some s -> Inv s.
Proof. intros o. apply run_ind_inv. - apply Inv_init. - apply Inv_step. Qed.

(* ---------- bounded parallelism (state form) ---------- *)
Lemma filter_le : forall (f g : nat -> bool) l, (forall x, f x = true -> g x = true) ->
  (length (filter f l) <= length (filter g l))%nat.
Proof.
  induction l; simpl; intros; auto. specialize (IHl H). destruct (f a) eqn:F.
  - rewrite (H a F). simpl. lia.
  - destruct (g a); simpl; lia.
Qed.

Lemma nwork_le_nlive : forall s, (nwork s <= nlive s)%nat.
Proof.
  intros. unfold nwork, nlive. apply filter_le. intros x. destruct (wpc_of s x); simpl; auto; discriminate.
Qed.

Lemma running_bounded : forall o tr s p, run (init o) tr = Some s -> pl s = PLive p ->
  Z.of_nat (nwork s) <= pstarted p /\ pstarted p <= pmax p.
Proof.
  intros o tr s p R P. destruct (Inv_run _ _ _ R). destruct i_w1b0 as (B & _). destruct (B p P) as (B1 & B2 & B3).
  pose proof (nwork_le_nlive s). split; auto. lia.
Qed.

(* ---------- nothing touches the pool after it was freed ---------- *)
Definition pool_label (l : label) : bool :=
  match l with
  | LLock _ | LUnlock _ | LSubmit _ _ | LPut _ | LHookStop _ | LCreate _ _ => true
  | _ => false
  end.

Lemma freed_stays : forall s l s', pl s = PFreed -> step s l = Some s' -> pl s' = PFreed.
Proof.
  intros s l s' P H. step_inv H; ssimp; ifs; ssimp; auto; try congruence.
Qed.

Lemma freed_no_pool_label : forall s l, ALock s -> pl s = PFreed -> pool_label l = true -> step s l = None.
Proof.
  intros s l AL P PL. destruct (step s l) eqn:H; auto. exfalso.
  assert (NL : forall t, lock s <> Some t). { intros t X. destruct (AL t X). congruence. }
  destruct l; try discriminate PL; step_inv H; hold_facts; try congruence; try (eapply NL; eauto).
Qed.
