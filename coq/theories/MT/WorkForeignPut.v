(* WorkForeignPut.v -- why the put critical section of MT/WorkMT.v carries an API-contract guard once FOREIGN submitters
   exist: the counterexample to "all complete" (C12_all_complete / C13_drain) that the guard excludes.

   iv_work.c, max_threads = 1.  Pool thread 1 runs item 0, posts pool->ev and goes idle; the owner pops pool->ev and is
   inside iv_work_event (work_done stolen, completions still to run) for longer than the 10 s idle timeout: thread 1
   dies (started_threads = 0).  Helper thread 2 (a foreign submitter: neither the owner nor a pool thread) submits item 1
   by iv_work_pool_submit_continuation: no idle thread, started_threads < max_threads, not the owner => only
   iv_event_post(&pool->thread_needed); the call returns and the helper exits.  The owner runs the completion of item 0,
   which calls iv_work_pool_put: started_threads == 0 => shutting_down = 1, iv_event_post(&pool->ev), return.  Back in
   iv_work_event: `if (pool->shutting_down)`, `!pool->started_threads && iv_list_empty(&pool->work_done)` => the pool is
   freed, pool->ev and pool->thread_needed are unregistered -- with item 1 still on pool->work_items.  Both threads are
   joined, iv_main returns, the run ends with D: item 1 was submitted, its work function never ran, it never completed.
   The put is neither before nor concurrent with the submission call.

   In the model the put critical section (st_lock, branch APut SBefore) refuses this put: API contract "no
   iv_work_pool_put while work is queued and the pool has no thread".  Below: the guard is the only thing that refuses
   it -- with the critical section as the C code executes it (put_cs_c: the same branch without the guard) every other
   label of the run is accepted by `step` and the run ends (LDone accepted) with item 1 queued for ever. *)
From Coq Require Import List ZArith Bool Arith.
From Ivv Require Import MT.WorkMT MT.WorkMTSpec.
Import ListNotations.
Local Open Scope Z_scope.

(* iv_work_pool_put's critical section as in iv_work.c: the APut SBefore branch of st_lock without the contract guard *)
Definition put_cs_c (s : state) (t : nat) : option state :=
  match pl s, lock s, act s t with
  | PLive p, None, APut SBefore =>
    if Nat.eqb t (own s) then
      if pstarted p =? 0 then Some (enter t [] (p_set_shut true p) (set_act1 t (APut SPost) s))
      else Some (enter t (map FPostW (pidle p)) (p_set_shut true p) (set_act1 t (APut SIn) s))
    else None
  | _, _, _ => None
  end.

Definition fp_pre : list label :=
  [LCreate 0 1; LSubmit 0 0; LLock 0; LTCreate 0 1; LUnlock 0; LEnd 0; LTCreate 0 2; LMain 0;
   (* pool thread 1 runs item 0 and goes idle *)
   LHookStart 1; LEvW 1 1; LEvW 1 1; LLock 1; LUnlock 1; LWork 1 0; LRet 1 0; LLock 1; LEvO 1; LKickO 1; LUnlock 1;
   (* the owner pops pool->ev: iv_work_event steals work_done *)
   LEvO 0; LLock 0; LUnlock 0;
   (* the idle timer of thread 1 fires: __iv_work_thread_die, thread exit *)
   LLock 1; LEvW 1 1; LHookStop 1; LUnlock 1; LEvO 1; LKickO 1; LTFin 1;
   (* the foreign submitter: thread_needed posted, call returns, helper exits *)
   LSubmit 2 1; LLock 2; LEvO 2; LUnlock 2; LEnd 2; LEvO 2; LTFin 2;
   (* completion of item 0 calls iv_work_pool_put *)
   LCompl 0 0; LPut 0].

Definition fp_post : list label :=
  [LUnlock 0; LEvO 0; LEnd 0;
   (* iv_work_event: if (pool->shutting_down) ... free *)
   LLock 0; LUnlock 0; LEvO 0; LEvO 0;
   (* the two threads are joined, iv_main returns *)
   LEvO 0; LTJoin 0 1; LEvO 0; LEvO 0; LTJoin 0 2; LEvO 0; LMainEnd 0; LDone].

Definition st_of (tr : list label) : state := match run (init 0) tr with Some s => s | None => init 0 end.
Definition st_from (s : state) (tr : list label) : state := match run s tr with Some s' => s' | None => s end.
Definition st_put (s : state) : state := match put_cs_c s 0 with Some s' => s' | None => s end.

Lemma foreign_put_refuted :
  exists s0 s1 s2,
    run (init 0) fp_pre = Some s0 /\                       (* accepted up to the put call *)
    pitems_of s0 = [1%nat] /\ match pl s0 with PLive p => pstarted p = 0 /\ pshut p = false | _ => False end /\
    In EvNeeded (opend s0) /\                              (* thread_needed posted, not yet served *)
    step s0 (LLock 0) = None /\                            (* the contract guard refuses this put *)
    put_cs_c s0 0 = Some s1 /\                             (* ... the C code does not *)
    run s1 fp_post = Some s2 /\                            (* everything after it is accepted, LDone included *)
    fin s2 = true /\ pl s2 = PFreed /\ items s2 1%nat = IQ /\
    count (is_sub 1%nat) (fp_pre ++ LLock 0 :: fp_post) = 1%nat /\
    count (is_wk 1%nat) (fp_pre ++ LLock 0 :: fp_post) = 0%nat /\
    count (is_cp 1%nat) (fp_pre ++ LLock 0 :: fp_post) = 0%nat.
Proof.
  exists (st_of fp_pre), (st_put (st_of fp_pre)), (st_from (st_put (st_of fp_pre)) fp_post).
  repeat match goal with |- _ /\ _ => split end; vm_compute; try reflexivity; auto.
Qed.
Print Assumptions foreign_put_refuted.
