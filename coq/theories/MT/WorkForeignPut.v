(* WorkForeignPut.v -- the record of defect D10 (iv_work_pool_put lost work queued by a FOREIGN submitter) and of its repair.

   THE DEFECT (iv_work.c before /repo commit eb5cf18 "fix: iv_work_pool_put starts a thread for work queued while the pool
   had none"; reproduced on the real library by docs/D10_demo.c).  max_threads = 1.  Pool thread 1 runs item 0, posts
   pool->ev and goes idle; the owner pops pool->ev and is inside iv_work_event (work_done stolen, completions still to
   run) for longer than the 10 s idle timeout: thread 1 dies (started_threads = 0).  Helper thread 2 (a foreign
   submitter: neither the owner nor a pool thread) submits item 1 by iv_work_pool_submit_continuation: no idle thread,
   started_threads < max_threads, not the owner => only iv_event_post(&pool->thread_needed); the call returns and the
   helper exits.  The owner runs the completion of item 0, which calls iv_work_pool_put: started_threads == 0 =>
   shutting_down = 1, iv_event_post(&pool->ev), return.  Back in iv_work_event: `if (pool->shutting_down)`,
   `!pool->started_threads && iv_list_empty(&pool->work_done)` => the pool is freed, pool->ev and pool->thread_needed
   are unregistered -- with item 1 still on pool->work_items.  Both threads are joined, iv_main returns, the run ends
   with D: item 1 was submitted, its work function never ran, it never completed.  The put is neither before nor
   concurrent with the submission call.

   `put_cs_c` below is the put critical section AS THE C CODE EXECUTED IT BEFORE FIX D10 (started_threads = 0 => no
   effects, pool->ev posted after the unlock, whatever is queued).  foreign_put_refuted: with that critical section
   every other label of the run is accepted by `step` and the run ends (LDone accepted) with item 1 queued for ever --
   the counterexample to "all complete" (C12_all_complete / C13_drain) for the old code.

   THE REPAIR.  iv_work_pool_put now starts a thread under the lock when started_threads = 0 and work is queued (and
   does not post pool->ev); the model follows it (st_lock, branch APut SBefore of MT/WorkMT.v; no contract guard on the
   put any more).  foreign_put_fixed: the same prefix continued through the real `step`: the put starts thread 3, which
   runs item 1; completion in the owner; the pool is freed only then; all three threads joined; LDone -- every item
   completed. *)
From Coq Require Import List ZArith Bool Arith.
From Ivv Require Import MT.WorkMT MT.WorkMTSpec.
Import ListNotations.
Local Open Scope Z_scope.

(* iv_work_pool_put's critical section as in iv_work.c BEFORE fix D10 (eb5cf18) *)
Definition put_cs_c (s : state) (t : nat) : option state :=
  match pl s, lock s, act s t with
  | PLive p, None, APut SBefore =>
    if Nat.eqb t (own s) then
      if pstarted p =? 0 then Some (enter t [] (p_set_shut true p) (set_act1 t (APut SPost) s))
      else Some (enter t (map FPostW (pidle p)) (p_set_shut true p) (set_act1 t (APut SIn) s))
    else None
  | _, _, _ => None
  end.

Definition fp_pre : list label :=
  [LCreate 0 1; LSubmit 0 0; LLock 0; LTCreate 0 1; LUnlock 0; LEnd 0; LTCreate 0 2; LMain 0;
   (* pool thread 1 runs item 0 and goes idle *)
   LHookStart 1; LEvW 1 1; LEvW 1 1; LLock 1; LUnlock 1; LWork 1 0; LRet 1 0; LLock 1; LEvO 1; LKickO 1; LUnlock 1;
   (* the owner pops pool->ev: iv_work_event steals work_done *)
   LEvO 0; LLock 0; LUnlock 0;
   (* the idle timer of thread 1 fires: __iv_work_thread_die, thread exit *)
   LLock 1; LEvW 1 1; LHookStop 1; LUnlock 1; LEvO 1; LKickO 1; LTFin 1;
   (* the foreign submitter: thread_needed posted, call returns, helper exits *)
   LSubmit 2 1; LLock 2; LEvO 2; LUnlock 2; LEnd 2; LEvO 2; LTFin 2;
   (* completion of item 0 calls iv_work_pool_put *)
   LCompl 0 0; LPut 0].

Definition fp_post : list label :=
  [LUnlock 0; LEvO 0; LEnd 0;
   (* iv_work_event: if (pool->shutting_down) ... free *)
   LLock 0; LUnlock 0; LEvO 0; LEvO 0;
   (* the two threads are joined, iv_main returns *)
   LEvO 0; LTJoin 0 1; LEvO 0; LEvO 0; LTJoin 0 2; LEvO 0; LMainEnd 0; LDone].

Definition st_of (tr : list label) : state := match run (init 0) tr with Some s => s | None => init 0 end.
Definition st_from (s : state) (tr : list label) : state := match run s tr with Some s' => s' | None => s end.
Definition st_put (s : state) : state := match put_cs_c s 0 with Some s' => s' | None => s end.

Lemma foreign_put_refuted :
  exists s0 s1 s2,
    run (init 0) fp_pre = Some s0 /\                       (* accepted up to the put call *)
    pitems_of s0 = [1%nat] /\ match pl s0 with PLive p => pstarted p = 0 /\ pshut p = false | _ => False end /\
    In EvNeeded (opend s0) /\                              (* thread_needed posted, not yet served *)
    put_cs_c s0 0 = Some s1 /\                             (* the put critical section of the old code *)
    run s1 fp_post = Some s2 /\                            (* everything after it is accepted, LDone included *)
    fin s2 = true /\ pl s2 = PFreed /\ items s2 1%nat = IQ /\
    count (is_sub 1%nat) (fp_pre ++ LLock 0 :: fp_post) = 1%nat /\
    count (is_wk 1%nat) (fp_pre ++ LLock 0 :: fp_post) = 0%nat /\
    count (is_cp 1%nat) (fp_pre ++ LLock 0 :: fp_post) = 0%nat.
Proof.
  exists (st_of fp_pre), (st_put (st_of fp_pre)), (st_from (st_put (st_of fp_pre)) fp_post).
  repeat match goal with |- _ /\ _ => split end; vm_compute; try reflexivity; auto.
Qed.
Print Assumptions foreign_put_refuted.

(* after the fix: the put (LLock 0) starts thread 3 under the lock *)
Definition fp_fix : list label :=
  [LLock 0; LTCreate 0 3; LUnlock 0; LEnd 0;
   (* iv_work_event: if (pool->shutting_down): started_threads = 1, not freed *)
   LLock 0; LUnlock 0;
   (* the dead thread 1 is joined; thread_needed: max_threads reached, nothing to do; the helper is joined *)
   LEvO 0; LTJoin 0 1; LEvO 0; LEvO 0; LLock 0; LUnlock 0; LEvO 0; LTJoin 0 2; LEvO 0; LBlock 0;
   (* thread 3 runs item 1, finds the queue empty and the pool shut down: it dies and posts pool->ev *)
   LHookStart 3; LEvW 3 3; LEvW 3 3; LLock 3; LUnlock 3; LWork 3 1; LRet 3 1;
   LLock 3; LEvO 3; LKickO 3; LEvW 3 3; LHookStop 3; LEvO 3; LUnlock 3; LEvO 3; LTFin 3;
   (* completion of item 1, the pool is freed, thread 3 joined, iv_main returns *)
   LWake 0; LEvO 0; LLock 0; LUnlock 0; LCompl 0 1; LLock 0; LUnlock 0; LEvO 0; LEvO 0;
   LEvO 0; LTJoin 0 3; LEvO 0; LMainEnd 0; LDone].

Lemma foreign_put_fixed :
  exists s0 s3,
    run (init 0) fp_pre = Some s0 /\
    pitems_of s0 = [1%nat] /\ match pl s0 with PLive p => pstarted p = 0 /\ pshut p = false | _ => False end /\
    run (init 0) (fp_pre ++ fp_fix) = Some s3 /\           (* accepted by the real step, put and LDone included *)
    accepts 0 (fp_pre ++ fp_fix) = true /\
    In (LTCreate 0 3) fp_fix /\
    fin s3 = true /\ pl s3 = PFreed /\ items s3 0%nat = IIdle /\ items s3 1%nat = IIdle /\
    count (is_sub 1%nat) (fp_pre ++ fp_fix) = 1%nat /\
    count (is_wk 1%nat) (fp_pre ++ fp_fix) = 1%nat /\
    count (is_cp 1%nat) (fp_pre ++ fp_fix) = 1%nat /\
    count (is_cp 0%nat) (fp_pre ++ fp_fix) = 1%nat.
Proof.
  exists (st_of fp_pre), (st_of (fp_pre ++ fp_fix)).
  repeat match goal with |- _ /\ _ => split end; vm_compute; try reflexivity; auto 10.
Qed.
Print Assumptions foreign_put_fixed.
