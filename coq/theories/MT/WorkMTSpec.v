(* WorkMTSpec.v -- invariants of the iv_work transition system (DESIGN.md Appendix A.7) and the trace
   functions used by the property statements.  Definitions only. *)
From Coq Require Import List ZArith Bool Arith.
From Ivv Require Import MT.WorkMT.
Import ListNotations.
Local Open Scope Z_scope.

Definition is_live (pc : wpc) : bool := match pc with WNone | WDead => false | _ => true end.
Definition active_pc (pc : wpc) : bool :=
  match pc with WStart0 | WStart1 | WGot | WTake _ _ | WWork _ _ | WRet _ _ => true | _ => false end.
Definition is_create (e : eff) : bool := match e with FCreate => true | _ => false end.

Definition nlive (s : state) : nat := length (filter (fun w => is_live (wpc_of s w)) (wids s)).
Definition nwork (s : state) : nat := length (filter (fun w => is_work (wpc_of s w)) (wids s)).
Definition ncreate (l : list eff) : nat := length (filter is_create l).

(* ---------- structure ---------- *)
Record InvA (s : state) : Prop := mkInvA {
  a_todo : lock s = None -> todo s = [];
  a_nodup : NoDup (tids s);
  a_own : ~ In (own s) (tids s);
  a_tk : forall n, tk (th s n) <> KNone <-> In n (tids s);
  a_wids : forall w, In w (wids s) <-> In w (tids s) /\ tk (th s w) = KWorker;
  a_wpc : forall w, wpc_of s w <> WNone <-> In w (wids s);
  a_nodupw : NoDup (wids s);
  a_act : forall t, act s t <> ANone -> t = own s \/ exists i last, wpc_of s t = WWork i last;
  a_lock : forall t, lock s = Some t -> exists p, pl s = PLive p
}.

(* ---------- W1 .. W5 of Appendix A.7 ---------- *)
Definition W1 (s : state) : Prop := forall p, pl s = PLive p ->
  0 <= phead p < M32 /\ 0 <= ptail p < M32 /\
  Z.of_nat (length (pitems p)) = (ptail p - phead p) mod M32 /\ Z.of_nat (length (pitems p)) < 2147483648.

Definition W1b (s : state) : Prop :=
  (forall p, pl s = PLive p ->
     pstarted p = Z.of_nat (nlive s) + Z.of_nat (ncreate (todo s)) /\ pstarted p <= pmax p /\ 1 <= pmax p) /\
  ((forall p, pl s <> PLive p) -> nlive s = 0%nat).

Definition Widle (s : state) : Prop := forall p, pl s = PLive p ->
  forall w, In w (pidle p) -> In w (wids s) /\ (wpc_of s w = WLoop \/ wpc_of s w = WGot).

Definition kick_due (s : state) (w : nat) : Prop := wkpend (wk s w) = true \/ In (FPostW w) (todo s).

Definition wit (s : state) (w : nat) : Prop :=
  active_pc (wpc_of s w) = true \/ (wpc_of s w = WLoop /\ kick_due s w).

Definition W2 (s : state) : Prop := forall p, pl s = PLive p ->
  forall w, In w (wids s) -> is_live (wpc_of s w) = true -> In w (pidle p) \/ wit s w.

Definition wit4 (s : state) (p : pool) (w : nat) : Prop :=
  active_pc (wpc_of s w) = true \/
  (wpc_of s w = WLoop /\ kick_due s w /\ (~ In w (pidle p) \/ wkicked (wk s w) = true)).

(* W4: work queued => somebody is going to look at the queue *)
Definition W4 (s : state) : Prop := forall p, pl s = PLive p -> pitems p <> [] ->
  In FCreate (todo s) \/ exists w, In w (wids s) /\ wit4 s p w.

Definition evwork_due (s : state) : Prop :=
  In EvWork (opend s ++ obatch s) \/ ohst s = HPop EvWork \/ In (FPostO EvWork) (todo s).

(* W5: finished work => the owner is going to look at work_done; a shut-down pool without threads => it is
   going to be freed *)
Definition W5 (s : state) : Prop := forall p, pl s = PLive p ->
  (pdone p <> [] -> evwork_due s) /\
  (pshut p = true -> pstarted p = 0 ->
     evwork_due s \/ (exists l, ohst s = HCompl l) \/ In FFree (todo s) \/ act s (own s) = APut SPost).
