(* WorkMTSpec.v -- invariants of the iv_work transition system (DESIGN.md Appendix A.7) and the trace
   functions used by the property statements.  Definitions only. *)
From Coq Require Import List ZArith Bool Arith.
From Ivv Require Import MT.WorkMT.
Import ListNotations.
Local Open Scope Z_scope.

Definition is_live (pc : wpc) : bool := match pc with WNone | WDead => false | _ => true end.
Definition active_pc (pc : wpc) : bool :=
  match pc with WStart0 | WStart1 | WGot | WTake _ _ | WWork _ _ | WRet _ _ => true | _ => false end.
Definition is_create (e : eff) : bool := match e with FCreate => true | _ => false end.

Definition nlive (s : state) : nat := length (filter (fun w => is_live (wpc_of s w)) (wids s)).
Definition nwork (s : state) : nat := length (filter (fun w => is_work (wpc_of s w)) (wids s)).
Definition ncreate (l : list eff) : nat := length (filter is_create l).

(* ---------- structure ---------- *)
Record InvA (s : state) : Prop := mkInvA {
  a_todo : lock s = None -> todo s = [];
  a_nodup : NoDup (tids s);
  a_own : ~ In (own s) (tids s);
  a_tk : forall n, tk (th s n) <> KNone <-> In n (tids s);
  a_wids : forall w, In w (wids s) <-> In w (tids s) /\ tk (th s w) = KWorker;
  a_wpc : forall w, wpc_of s w <> WNone <-> In w (wids s);
  a_nodupw : NoDup (wids s);
  a_act : forall t, act s t <> ANone -> t = own s \/ (exists i last, wpc_of s t = WWork i last) \/
            (tk (th s t) = KHelper /\ (tp (th s t) = TRun \/ tp (th s t) = TExiting));
  a_lock : forall t, lock s = Some t -> exists p, pl s = PLive p
}.

(* ---------- W1 .. W5 of Appendix A.7 ---------- *)
Definition W1 (s : state) : Prop := forall p, pl s = PLive p ->
  0 <= phead p < M32 /\ 0 <= ptail p < M32 /\
  Z.of_nat (length (pitems p)) = (ptail p - phead p) mod M32 /\ Z.of_nat (length (pitems p)) < 2147483648.

Definition W1b (s : state) : Prop :=
  (forall p, pl s = PLive p ->
     pstarted p = Z.of_nat (nlive s) + Z.of_nat (ncreate (todo s)) /\ pstarted p <= pmax p /\ 1 <= pmax p) /\
  ((forall p, pl s <> PLive p) -> nlive s = 0%nat).

Definition Widle (s : state) : Prop := forall p, pl s = PLive p ->
  forall w, In w (pidle p) -> In w (wids s) /\ (wpc_of s w = WLoop \/ wpc_of s w = WGot).

Definition kick_due (s : state) (w : nat) : Prop := wkpend (wk s w) = true \/ In (FPostW w) (todo s).

Definition wit (s : state) (w : nat) : Prop :=
  active_pc (wpc_of s w) = true \/ (wpc_of s w = WLoop /\ kick_due s w).

Definition W2 (s : state) : Prop := forall p, pl s = PLive p ->
  forall w, In w (wids s) -> is_live (wpc_of s w) = true -> In w (pidle p) \/ wit s w.

Definition wit4 (s : state) (p : pool) (w : nat) : Prop :=
  active_pc (wpc_of s w) = true \/
  (wpc_of s w = WLoop /\ kick_due s w /\ (~ In w (pidle p) \/ wkicked (wk s w) = true)).

(* the owner's thread_needed event is posted, popped (handler not yet in its critical section) or owed *)
Definition evneeded_due (s : state) : Prop :=
  In EvNeeded (opend s ++ obatch s) \/ ohst s = HPop EvNeeded \/ In (FPostO EvNeeded) (todo s).

(* ... and its handler is going to start a thread: nobody is idle, started_threads < max_threads, the pool has not
   been put (a foreign submitter found the pool without a thread to kick) *)
Definition needed_wit (s : state) (p : pool) : Prop :=
  evneeded_due s /\ pidle p = [] /\ pstarted p < pmax p /\ pshut p = false.

(* W4: work queued => somebody is going to look at the queue *)
Definition W4 (s : state) : Prop := forall p, pl s = PLive p -> pitems p <> [] ->
  In FCreate (todo s) \/ (exists w, In w (wids s) /\ wit4 s p w) \/ needed_wit s p.

Definition evwork_due (s : state) : Prop :=
  In EvWork (opend s ++ obatch s) \/ ohst s = HPop EvWork \/ In (FPostO EvWork) (todo s).

(* W5: finished work => the owner is going to look at work_done; a shut-down pool without threads => it is
   going to be freed *)
Definition W5 (s : state) : Prop := forall p, pl s = PLive p ->
  (pdone p <> [] -> evwork_due s) /\
  (pshut p = true -> pstarted p = 0 ->
     evwork_due s \/ (exists l, ohst s = HCompl l) \/ In FFree (todo s) \/ act s (own s) = APut SPost).

(* ---------- per-item status machine and trace counters ---------- *)
Definition istep (it : nat -> ist) (l : label) : option (nat -> ist) :=
  match l with
  | LSubmit _ i => match it i with IIdle => Some (upd it i IQ) | _ => None end
  | LLocal _ i => match it i with IIdle => Some (upd it i ILQ) | _ => None end
  | LWork _ i => match it i with IQ => Some (upd it i IW) | ILQ => Some (upd it i ILW) | _ => None end
  | LRet _ i => match it i with IW => Some (upd it i IR) | ILW => Some (upd it i ILR) | _ => None end
  | LCompl _ i => match it i with IR | ILR => Some (upd it i IIdle) | _ => None end
  | _ => Some it
  end.

Definition is_sub (i : nat) (l : label) : bool :=
  match l with LSubmit _ j | LLocal _ j => Nat.eqb i j | _ => false end.
Definition is_wk (i : nat) (l : label) : bool := match l with LWork _ j => Nat.eqb i j | _ => false end.
Definition is_rt (i : nat) (l : label) : bool := match l with LRet _ j => Nat.eqb i j | _ => false end.
Definition is_cp (i : nat) (l : label) : bool := match l with LCompl _ j => Nat.eqb i j | _ => false end.
Definition count (f : label -> bool) (tr : list label) : nat := length (filter f tr).

(* 1 if the item is past the given stage of its current flight *)
Definition st_sub (x : ist) : nat := match x with IIdle => 0 | _ => 1 end.
Definition st_wk (x : ist) : nat := match x with IW | IR | ILW | ILR => 1 | _ => 0 end.
Definition st_rt (x : ist) : nat := match x with IR | ILR => 1 | _ => 0 end.
Definition is_pooled (x : ist) : bool := match x with IQ | IW | IR => true | _ => false end.
Definition is_localst (x : ist) : bool := match x with ILQ | ILW | ILR => true | _ => false end.

(* was the current flight of item i started by a pool submission (Some true), a NULL-pool submission
   (Some false), or is the item not in flight (None) *)
Fixpoint flight (i : nat) (tr : list label) (acc : option bool) : option bool :=
  match tr with
  | [] => acc
  | l :: r =>
    flight i r (match l with
                | LSubmit _ j => if Nat.eqb i j then Some true else acc
                | LLocal _ j => if Nat.eqb i j then Some false else acc
                | LCompl _ j => if Nat.eqb i j then None else acc
                | _ => acc
                end)
  end.

Definition pitems_of (s : state) : list nat := match pl s with PLive p => pitems p | _ => [] end.
Definition pdone_of (s : state) : list nat := match pl s with PLive p => pdone p | _ => [] end.

(* where an item in flight is *)
Definition SI (s : state) : Prop := forall i,
  match items s i with
  | IIdle => True
  | IQ => In i (pitems_of s) \/ (exists t, act s t = ASubmit i SBefore) \/ (exists w last, wpc_of s w = WTake i last)
  | IW => exists w last, wpc_of s w = WWork i last
  | IR => (exists w last, wpc_of s w = WRet i last) \/ In i (pdone_of s) \/ (exists l, ohst s = HCompl l /\ In i l)
  | ILQ => In i (lq s ++ lbatch s)
  | ILW | ILR => In i (lbatch s)
  end.
