(* EventMT.v -- labelled transition system of the cross-thread iv_event protocol
   (iv_event.c: iv_event_post / __iv_event_run_pending_events / iv_event_unregister,
   wake-up transports of iv_fd_epoll.c (one-shot kick) and iv_event_raw (counter)).

   One `state` describes ONE owner loop (thread `own`): its pending list, the
   batch stolen by __iv_event_run_pending_events, the holder of
   event_list_mutex, the wake-up transport, the events_local task flag, the
   registered events, and for every thread where it is inside iv_event_post /
   iv_event_unregister of an event of this loop.  A system of several loops is the
   product of such states (section System at the end): a post concerns exactly
   one loop.

   Labels are abstractions of the segments of the baton-scheduler log
   (harness/ivmt.c, docs/MT_GUIDE.md); `step` is executable and rejects every
   order of operations the C code cannot produce.  Definitions only. *)
From Coq Require Import List Bool Arith.
Import ListNotations.

(* ---- program counters ---- *)
(* where a thread is inside iv_event_post(e) (P..) or, for the owner, inside
   iv_event_unregister(e) (U..) *)
Inductive ppc :=
| PIdle
| PBegun (e : nat)                  (* `a ep<k>.<e>`: in the call, before ___mutex_lock *)
| PLocked (e : nat) (post : bool)   (* holds the mutex; list updated; `post` decided *)
| PAtKick (e : nat) (post : bool)   (* unlocked; owes the wake-up iff post *)
| PKicked (e : nat)                 (* wake-up sent; call not yet returned *)
| UWant (e : nat)                   (* `a eu<e>`: in iv_event_unregister(e), before ___mutex_lock *)
| ULocked (e : nat).                (* ... holds the mutex, e unlinked if it was on a list *)

(* where the owner is with respect to __iv_event_run_pending_events *)
Inductive rpc :=
| RLoop                              (* in iv_main outside the event code (also before iv_main) *)
| RBlocked                           (* the kernel wait found nothing ready (`Wb`) *)
| RWoken                             (* the wake-up was consumed; before ___mutex_lock *)
| RLockedEmpty                       (* holds the mutex, nothing (left) to run: will unlock and return *)
| RLockedPop (e : nat) (last : bool) (* holds the mutex, e unlinked for its handler; last = empty_now *)
| RToHandler (e : nat) (last : bool) (* unlocked, about to call e's handler *)
| RAfter                             (* in / after a handler with !empty_now: will relock *)
| RExited.                           (* iv_main returned *)

Record state := mk {
  own : nat;                  (* the owner thread *)
  raw : bool;                 (* transport: false = epoll one-shot kick, true = raw event descriptor *)
  pending : list nat;         (* st->events_pending *)
  batch : list nat;           (* the local list `events` of __iv_event_run_pending_events *)
  lock : option nat;          (* holder of st->event_list_mutex *)
  kick : nat;                 (* epoll: 1 = armed; raw: counter of the descriptor *)
  local : bool;               (* iv_task_registered(&st->events_local) *)
  reg : list nat;             (* registered events *)
  thr : list (nat * ppc);     (* thread -> ppc (absent = PIdle) *)
  run : rpc;
  (* ghost *)
  posts_begun : nat -> nat;
  handler_starts : nat -> nat;
  owed : nat -> bool
}.

Definition set_pending s v := mk (own s) (raw s) v (batch s) (lock s) (kick s) (local s) (reg s) (thr s) (run s) (posts_begun s) (handler_starts s) (owed s).
Definition set_batch s v := mk (own s) (raw s) (pending s) v (lock s) (kick s) (local s) (reg s) (thr s) (run s) (posts_begun s) (handler_starts s) (owed s).
Definition set_lock s v := mk (own s) (raw s) (pending s) (batch s) v (kick s) (local s) (reg s) (thr s) (run s) (posts_begun s) (handler_starts s) (owed s).
Definition set_kick s v := mk (own s) (raw s) (pending s) (batch s) (lock s) v (local s) (reg s) (thr s) (run s) (posts_begun s) (handler_starts s) (owed s).
Definition set_local s v := mk (own s) (raw s) (pending s) (batch s) (lock s) (kick s) v (reg s) (thr s) (run s) (posts_begun s) (handler_starts s) (owed s).
Definition set_reg s v := mk (own s) (raw s) (pending s) (batch s) (lock s) (kick s) (local s) v (thr s) (run s) (posts_begun s) (handler_starts s) (owed s).
Definition set_thr s v := mk (own s) (raw s) (pending s) (batch s) (lock s) (kick s) (local s) (reg s) v (run s) (posts_begun s) (handler_starts s) (owed s).
Definition set_run s v := mk (own s) (raw s) (pending s) (batch s) (lock s) (kick s) (local s) (reg s) (thr s) v (posts_begun s) (handler_starts s) (owed s).
Definition set_posts s v := mk (own s) (raw s) (pending s) (batch s) (lock s) (kick s) (local s) (reg s) (thr s) (run s) v (handler_starts s) (owed s).
Definition set_starts s v := mk (own s) (raw s) (pending s) (batch s) (lock s) (kick s) (local s) (reg s) (thr s) (run s) (posts_begun s) v (owed s).
Definition set_owed s v := mk (own s) (raw s) (pending s) (batch s) (lock s) (kick s) (local s) (reg s) (thr s) (run s) (posts_begun s) (handler_starts s) v.

(* ---- small helpers ---- *)
Definition upd {A : Type} (f : nat -> A) (e : nat) (v : A) : nat -> A :=
  fun x => if Nat.eqb x e then v else f x.

Definition mem (e : nat) (l : list nat) : bool := existsb (Nat.eqb e) l.
Definition rem (e : nat) (l : list nat) : list nat := filter (fun x => negb (Nat.eqb x e)) l.
Definition is_nil {A : Type} (l : list A) : bool := match l with [] => true | _ => false end.

Fixpoint get (t : nat) (l : list (nat * ppc)) : ppc :=
  match l with
  | [] => PIdle
  | (u, p) :: r => if Nat.eqb u t then p else get t r
  end.

Definition set (t : nat) (p : ppc) (l : list (nat * ppc)) : list (nat * ppc) :=
  (t, p) :: filter (fun x => negb (Nat.eqb (fst x) t)) l.

Definition is_idle (p : ppc) : bool := match p with PIdle => true | _ => false end.

(* the event a thread is busy with *)
Definition on_ev (e : nat) (p : ppc) : bool :=
  match p with
  | PIdle => false
  | PBegun x | PLocked x _ | PAtKick x _ | PKicked x | UWant x | ULocked x => Nat.eqb x e
  end.

Definition unreg_of (e : nat) (p : ppc) : bool :=
  match p with UWant x | ULocked x => Nat.eqb x e | _ => false end.

Definition none_on (e : nat) (l : list (nat * ppc)) : bool :=
  forallb (fun x => negb (on_ev e (snd x))) l.

Definition all_idle (l : list (nat * ppc)) : bool := forallb (fun x => is_idle (snd x)) l.

(* the owner may call the API (post / register / unregister) only outside the
   locked / woken phases of the event code *)
Definition run_can_act (r : rpc) : bool :=
  match r with RLoop | RAfter | RExited => true | _ => false end.

(* ---- labels ---- *)
Inductive label :=
| LPostBegin (t e : nat)     (* `t:a ep<own>.<e>` -- iv_event_post(e) called by thread t *)
| LLock (t : nat)            (* `t:L e<own>` *)
| LUnlock (t : nat)          (* `t:U e<own>` *)
| LKick (t : nat)            (* `t:Kk <epfd of own>` -- epoll_ctl MOD EPOLLIN|EPOLLONESHOT *)
| LRawW (t : nat)            (* `t:Fw <kick descriptor>` inside a post -- iv_event_raw_post *)
| LPostEnd (t : nat)         (* `t:pe` -- the post returned *)
| LWaitBlock                 (* `own:Wb` *)
| LWaitRet (kicked : bool)   (* `own:R ...`; kicked = the epoll kick descriptor is among the reported ones *)
| LRawR                      (* `own:Fr <kick descriptor>` -- iv_event_raw_got_event read the counter *)
| LHandler (t e : nat)       (* `t:Ce<e>` -- handler of e entered in thread t *)
| LRegister (e : nat)        (* `own:A er<e>=0` *)
| LUnregister (e : nat)      (* `own:a eu<e>` *)
| LExit                      (* `own:E ...` -- iv_main returned *)
| LEnd (quiescent : bool).   (* `QUIESCENT` (every thread blocked, no deadline) / `D` *)

(* ---- the critical sections ---- *)
(* iv_event_post between lock and unlock *)
Definition post_cs (s : state) (t e : nat) : state :=
  let s1 := set_owed (set_lock s (Some t)) (upd (owed s) e true) in
  if mem e (pending s) || mem e (batch s)
  then set_thr s1 (set t (PLocked e false) (thr s))
  else set_thr (set_pending s1 (pending s ++ [e])) (set t (PLocked e (is_nil (pending s))) (thr s)).

(* __iv_event_run_pending_events from the first lock to the first unlock *)
Definition start_run (s : state) : state :=
  match pending s with
  | [] => set_run (set_lock s (Some (own s))) RLockedEmpty
  | e :: r =>
      set_run (set_owed (set_batch (set_pending (set_lock s (Some (own s))) []) r) (upd (owed s) e false))
              (RLockedPop e (is_nil r))
  end.

(* the relock after a handler that ran with !empty_now *)
Definition relock_run (s : state) : state :=
  match batch s with
  | [] => set_run (set_lock s (Some (own s))) RLockedEmpty
  | e :: r =>
      set_run (set_owed (set_batch (set_lock s (Some (own s))) r) (upd (owed s) e false))
              (RLockedPop e (is_nil r))
  end.

(* the end of iv_event_unregister: --event_count, transport off with the last event *)
Definition finish_unreg (s : state) (e : nat) : state :=
  let r := rem e (reg s) in
  set_kick (set_reg s r) (if is_nil r then 0 else kick s).

Definition step (s : state) (l : label) : option state :=
  match l with
  | LPostBegin t e =>
      if mem e (reg s) && is_idle (get t (thr s)) &&
         (if Nat.eqb t (own s) then run_can_act (run s) else negb (unreg_of e (get (own s) (thr s))))
      then Some (set_posts (set_thr s (set t (PBegun e) (thr s))) (upd (posts_begun s) e (S (posts_begun s e))))
      else None
  | LLock t =>
      match lock s with
      | Some _ => None
      | None =>
          match get t (thr s) with
          | PBegun e => Some (post_cs s t e)
          | UWant e =>
              if Nat.eqb t (own s)
              then Some (set_thr (set_owed (set_batch (set_pending (set_lock s (Some t)) (rem e (pending s)))
                                                      (rem e (batch s))) (upd (owed s) e false))
                                 (set t (ULocked e) (thr s)))
              else None
          | PIdle =>
              if Nat.eqb t (own s) then
                match run s with
                | RWoken => Some (start_run s)
                | RLoop => if local s then Some (start_run (set_local s false)) else None
                | RAfter => Some (relock_run s)
                | _ => None
                end
              else None
          | _ => None
          end
      end
  | LUnlock t =>
      match lock s with
      | None => None
      | Some h =>
          if negb (Nat.eqb h t) then None else
          match get t (thr s) with
          | PLocked e p => Some (set_thr (set_lock s None) (set t (PAtKick e p) (thr s)))
          | ULocked e =>
              if Nat.eqb t (own s)
              then Some (finish_unreg (set_thr (set_lock s None) (set t PIdle (thr s))) e)
              else None
          | PIdle =>
              if Nat.eqb t (own s) then
                match run s with
                | RLockedEmpty => Some (set_run (set_lock s None) RLoop)
                | RLockedPop e last => Some (set_run (set_lock s None) (RToHandler e last))
                | _ => None
                end
              else None
          | _ => None
          end
      end
  | LKick t =>
      if raw s || Nat.eqb t (own s) then None else
      match get t (thr s) with
      | PAtKick e true => Some (set_kick (set_thr s (set t (PKicked e) (thr s))) 1)
      | _ => None
      end
  | LRawW t =>
      if negb (raw s) || Nat.eqb t (own s) then None else
      match get t (thr s) with
      | PAtKick e true => Some (set_kick (set_thr s (set t (PKicked e) (thr s))) (S (kick s)))
      | _ => None
      end
  | LPostEnd t =>
      match get t (thr s) with
      | PAtKick e false => Some (set_thr s (set t PIdle (thr s)))
      | PAtKick e true =>
          (* the owner itself: iv_task_register(&me->events_local); anybody else must have kicked *)
          if Nat.eqb t (own s) then Some (set_local (set_thr s (set t PIdle (thr s))) true) else None
      | PKicked e => Some (set_thr s (set t PIdle (thr s)))
      | _ => None
      end
  | LWaitBlock =>
      match run s with
      | RLoop =>
          if is_idle (get (own s) (thr s)) && Nat.eqb (kick s) 0 && negb (local s)
          then Some (set_run s RBlocked) else None
      | _ => None
      end
  | LWaitRet k =>
      if negb (is_idle (get (own s) (thr s))) then None else
      match run s with
      | RLoop | RBlocked =>
          if k then
            if negb (raw s) && negb (Nat.eqb (kick s) 0) then Some (set_run (set_kick s 0) RWoken) else None
          else Some (set_run s RLoop)
      | _ => None
      end
  | LRawR =>
      match run s with
      | RLoop =>
          if raw s && is_idle (get (own s) (thr s)) && negb (Nat.eqb (kick s) 0)
          then Some (set_run (set_kick s 0) RWoken) else None
      | _ => None
      end
  | LHandler t e =>
      match run s with
      | RToHandler e' last =>
          if Nat.eqb t (own s) && Nat.eqb e e' && is_idle (get (own s) (thr s)) &&
             negb (match lock s with Some h => Nat.eqb h t | None => false end)
          then Some (set_run (set_starts s (upd (handler_starts s) e (S (handler_starts s e))))
                             (if last then RLoop else RAfter))
          else None
      | _ => None
      end
  | LRegister e =>
      if is_idle (get (own s) (thr s)) && run_can_act (run s) && negb (mem e (reg s))
      then Some (set_reg s (e :: reg s)) else None
  | LUnregister e =>
      if is_idle (get (own s) (thr s)) && run_can_act (run s) && mem e (reg s) && none_on e (thr s)
      then Some (set_thr s (set (own s) (UWant e) (thr s)))
      else None
  | LExit =>
      match run s with
      | RLoop => if is_idle (get (own s) (thr s)) then Some (set_run s RExited) else None
      | _ => None
      end
  | LEnd q =>
      if all_idle (thr s) then
        match run s with
        | RBlocked => if q && Nat.eqb (kick s) 0 then Some s else None
        | RExited => Some s
        | _ => None
        end
      else None
  end.

Definition init (o : nat) (r : bool) : state :=
  mk o r [] [] None 0 false [] [] RLoop (fun _ => 0) (fun _ => 0) (fun _ => false).

Fixpoint exec (s : state) (ls : list label) : option state :=
  match ls with
  | [] => Some s
  | l :: r => match step s l with Some s' => exec s' r | None => None end
  end.

Definition accepts (o : nat) (r : bool) (ls : list label) : bool :=
  match exec (init o r) ls with Some _ => true | None => false end.

(* ---- boolean monitor on the label sequence (uses only what the log shows) ----
   per event: number of posts begun, number of handler starts, and whether a
   post began after the last handler start (`m_owed`, a set); a handler start
   must be in the owner thread and must not exceed the posts; at the end of the
   run nothing may be owed unless iv_main of the owner had returned. *)
Record mon := mkmon {
  m_posts : nat -> nat;
  m_starts : nat -> nat;
  m_owed : list nat;
  m_exited : bool
}.

Definition mon_init : mon := mkmon (fun _ => 0) (fun _ => 0) [] false.

Definition mon_step (o : nat) (m : mon) (l : label) : option mon :=
  match l with
  | LPostBegin _ e =>
      Some (mkmon (upd (m_posts m) e (S (m_posts m e))) (m_starts m)
                  (if mem e (m_owed m) then m_owed m else e :: m_owed m) (m_exited m))
  | LHandler t e =>
      if Nat.eqb t o && Nat.leb (S (m_starts m e)) (m_posts m e)
      then Some (mkmon (m_posts m) (upd (m_starts m) e (S (m_starts m e))) (rem e (m_owed m)) (m_exited m))
      else None
  | LUnregister e => Some (mkmon (m_posts m) (m_starts m) (rem e (m_owed m)) (m_exited m))
  | LExit => Some (mkmon (m_posts m) (m_starts m) (m_owed m) true)
  | LEnd _ => if m_exited m || is_nil (m_owed m) then Some m else None
  | _ => Some m
  end.

Fixpoint mon_exec (o : nat) (m : mon) (ls : list label) : option mon :=
  match ls with
  | [] => Some m
  | l :: r => match mon_step o m l with Some m' => mon_exec o m' r | None => None end
  end.

Definition monitor (o : nat) (ls : list label) : bool :=
  match mon_exec o mon_init ls with Some _ => true | None => false end.

(* ---- a system of loops: the product, labels tagged with the loop they concern ---- *)
Definition glabel := (nat * label)%type.

Definition proj (k : nat) (gl : list glabel) : list label :=
  map snd (filter (fun x => Nat.eqb (fst x) k) gl).

Definition gaccepts (r : bool) (owners : list nat) (gl : list glabel) : bool :=
  forallb (fun k => accepts k r (proj k gl)) owners.

Definition gmonitor (owners : list nat) (gl : list glabel) : bool :=
  forallb (fun k => monitor k (proj k gl)) owners.
