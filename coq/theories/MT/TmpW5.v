From Coq Require Import List ZArith Bool Arith Lia.
From Ivv Require Import MT.WorkMT MT.WorkMTBase MT.WorkMTSpec MT.WorkMTCs MT.WorkMTInvA MT.WorkMTInvW MT.WorkMTInvW4 MT.WorkMTInvW5.
Import ListNotations.
Local Open Scope Z_scope.

Lemma W5_rest : forall s l s', (lock s = None -> todo s = []) -> W1b s -> HFX s -> W5 s ->
  (match l with LCreate _ _ | LSubmit _ _ | LLocal _ _ | LPut _ | LEnd _ | LCallback _ | LWork _ _ | LRet _ _ | LCompl _ _ | LHookStart _ | LTExit _ | LTFin _ | LTJoin _ _ | LBlock _ | LMain _ | LMainEnd _ | LQuiescent | LDone => True | _ => False end) ->
  step s l = Some s' -> W5 s'.
Proof.
  intros s l s' AT A1b HF I LL H.
  assert (O : own s' = own s) by (eapply own_step; eauto).
  destruct l; try contradiction; clear LL.
  all: step_inv H.
  all: try (bools; eapply W5_dispatch; eauto; fail).
  all: hold_facts; cs_facts.
  all: unfold W5, evwork_due in *.
  all: rewrite ?O.
  all: ssimp.
  all: ifs.
  all: ssimp.
  all: try assumption.
  all: try pool_inv; try use_pool I.
  all: outs.
  all: subst.
  all: cbn [pdone pshut pstarted p_set_items p_set_head p_set_tail p_set_idle p_set_done p_set_started p_set_shut] in *.
  all: try assumption.
  all: try (intros q Q; destruct (I q Q) as (I1 & I2)).
  all: try match goal with E : lock _ = None |- _ => first [pose proof (AT E) as TD | pose proof (AT eq_refl) as TD] end.
  all: try match goal with E : todo _ = _ |- _ => rewrite E in * end.
  all: repeat match goal with
       | H : omemb _ _ = true |- _ => apply omemb_In in H
       | H : omemb _ _ = false |- _ => apply not_true_iff_false in H; rewrite omemb_In in H
       end.
  all: split; [intros D1; try specialize (I1 D1) | intros D1 D2; try specialize (I2 D1 D2)].
  all: unfold upd, die_effs in *.
  all: cbn [In app] in *.
  all: repeat match goal with
       | H : context [Nat.eqb ?a ?b] |- _ => destruct (Nat.eqb a b) eqn:?; bools
       | |- context [Nat.eqb ?a ?b] => destruct (Nat.eqb a b) eqn:?; bools
       | |- context [if ?b then _ else _] => destruct b eqn:?
       end; cbn [In app] in *.
  all: rewrite ?in_app_iff in *; cbn [In] in *.
  all: cbn [pdone pshut pstarted p_set_items p_set_head p_set_tail p_set_idle p_set_done p_set_started p_set_shut] in *.
  all: repeat match goal with
       | H : nilb _ = false |- _ => apply nilb_false in H
       | H : _ && _ = false |- _ => apply andb_false_iff in H
       | H : (_ =? _) = false |- _ => apply Z.eqb_neq in H
       | H : (_ =? _) = true |- _ => apply Z.eqb_eq in H
       | H : pshut ?p = true -> pstarted ?p = 0 -> _, A : pshut ?p = true, B : pstarted ?p = 0 |- _ => specialize (H A B)
       | H : pdone ?p <> [] -> _, A : pdone ?p <> [] |- _ => specialize (H A)
       end.
  all: try (timeout 2 tauto).
  all: try match goal with E : pl _ = PLive ?p |- _ => assert (SP : 0 <= pstarted p) by (destruct A1b as (B1 & _); destruct (B1 p E) as (B2 & _); lia) end.
  all: repeat match goal with
       | H : _ \/ _ |- _ => destruct H
       | H : _ /\ _ |- _ => destruct H
       | H : exists _, _ |- _ => destruct H
       | H : False |- _ => destruct H
       | H : FPostO _ = FPostO _ |- _ => inversion H; subst; clear H
       end.
  all: try discriminate.
  all: try congruence.
  all: try lia.
  all: try (timeout 5 tauto).
  all: try solve [timeout 10 intuition (try discriminate; try congruence; try lia; eauto)].
  all: show.
Admitted.
