(* ConflictEvent.v -- C14 for the iv_event model MT/EventMT.v (one owner loop `o`).

   Shared variables and their classes (iv_event.c, iv_fd_epoll.c, iv_event_raw_posix.c):

     VPending  st->events_pending: the list head and the `list` linkage of every event on it.
               ByLock (event_list_mutex).
     VBatch    the local list `events` of __iv_event_run_pending_events and the linkage of the
               events on it.  It is a stack variable of the owner but its ELEMENTS are shared: a
               poster tests iv_list_empty(&this->list) of an event that may sit in the batch, and
               iv_event_unregister unlinks from it.  ByLock (event_list_mutex).
     VKick     the wake-up transport: the one-shot arming of the epoll kick descriptor
               (epoll_ctl MOD / the kernel's disarming when it reports it) or the counter of the raw
               event descriptor (write / read).  A kernel object operated by system calls: Extern.
     VLocal    iv_task_registered(&st->events_local) -- the owner's task list.  ByThread owner.
     VReg      st->event_count / st->numobjs and the set of registered events.  ByThread owner.
     VRaw      iv_event_use_event_raw: static int, set 0 -> 1 in iv_event_register when the poll
               method has no event_rx, never cleared; read by every poster.  OneWay (a constant
               of the model).

   Footprint of a label = accesses of the code between its log point and the next one of the thread:

     LPostBegin t e  reads this->owner only (immutable after iv_event_register)          -> none
     LLock t         the critical section that follows the lock call, up to the unlock call:
                       poster: iv_list_empty(&this->list) [reads the linkage: pending or batch],
                               iv_list_empty(&dst->events_pending), iv_list_add_tail  [writes pending]
                       owner (run_pending): empty test, __iv_list_steal_elements [writes pending
                               and batch], iv_list_del_init of the first [writes batch]; relock
                               after a handler: empty test and next pop [batch]
                       owner (unregister): list_empty + iv_list_del [pending or batch]
                     -> write VPending, write VBatch; the owner's entry from the events_local task
                        also consumed that task (iv_run_tasks unlinks it)                -> VLocal
     LUnlock t       nothing before the unlock call; after it iv_event_unregister does
                     --st->event_count, st->numobjs-- and with the last event switches the
                     transport off (event_rx_off / iv_event_raw_unregister)    -> owner: VReg, VKick
     LKick / LRawW   event_send = epoll_ctl MOD EPOLLIN|EPOLLONESHOT, resp. write(2) on the
                     descriptor; the choice reads iv_event_use_event_raw      -> write VKick, read VRaw
     LPostEnd t      dst == me: iv_task_registered / iv_task_register(&me->events_local)
                                                                          -> owner: write VLocal
     LWaitBlock      the owner's kernel wait: reads the transport (and had found no task)
     LWaitRet / LRawR  the kernel disarmed the one-shot kick / read(2) reset the counter -> write VKick
     LHandler t e    ie->handler(ie->cookie) with the mutex released: no list state      -> none
     LRegister e     st->numobjs++, st->event_count++, INIT_IV_LIST_HEAD of the not yet shared
                     event; may set iv_event_use_event_raw (one-way)            -> write VReg
     LUnregister e   log point `a eu`, before the lock call                              -> read VReg
     LExit, LEnd     none

   With respect to event_list_mutex LLock is the acquisition, LUnlock the release, the rest Plain. *)
From Coq Require Import List Bool Arith.
From Ivv Require Import MT.Conflict MT.EventMT MT.EventMTLemmas MT.EventMTProofs.
Import ListNotations.

Inductive var := VPending | VBatch | VKick | VLocal | VReg | VRaw.

Definition var_eqb (a b : var) : bool :=
  match a, b with
  | VPending, VPending | VBatch, VBatch | VKick, VKick | VLocal, VLocal | VReg, VReg | VRaw, VRaw => true
  | _, _ => false
  end.

Lemma var_eqb_spec : forall a b, var_eqb a b = true <-> a = b.
Proof. intros a b. destruct a, b; simpl; split; intro H; try reflexivity; discriminate. Qed.

(* one lock *)
Definition cls (s : state) (v : var) : class nat unit :=
  match v with
  | VPending | VBatch => ByLock tt
  | VKick => Extern
  | VLocal | VReg => ByThread (own s)
  | VRaw => OneWay
  end.

Definition holder (s : state) (_ : unit) : option nat := lock s.

Definition mode (l : label) (_ : unit) : lmode :=
  match l with LLock _ => Acq | LUnlock _ => Rel | _ => Plain end.

Definition actor (s : state) (l : label) : option nat :=
  match l with
  | LPostBegin t _ | LLock t | LUnlock t | LKick t | LRawW t | LPostEnd t | LHandler t _ => Some t
  | LWaitBlock | LWaitRet _ | LRawR | LRegister _ | LUnregister _ | LExit => Some (own s)
  | LEnd _ => None
  end.

Definition fp (s : state) (l : label) : footprint var :=
  let o := own s in
  match l with
  | LPostBegin _ _ => []
  | LLock t => [(VPending, true); (VBatch, true)] ++ (if Nat.eqb t o then [(VLocal, true)] else [])
  | LUnlock t => if Nat.eqb t o then [(VReg, true); (VKick, true)] else []
  | LKick _ | LRawW _ => [(VKick, true); (VRaw, false)]
  | LPostEnd t => if Nat.eqb t o then [(VLocal, true)] else []
  | LWaitBlock => [(VKick, false); (VLocal, false)]
  | LWaitRet _ | LRawR => [(VKick, true)]
  | LHandler _ _ => []
  | LRegister _ => [(VReg, true); (VRaw, true)]
  | LUnregister _ => [(VReg, false)]
  | LExit | LEnd _ => []
  end.

Definition unchanged (v : var) (s s' : state) : Prop :=
  match v with
  | VPending => pending s' = pending s
  | VBatch => batch s' = batch s
  | VKick => kick s' = kick s
  | VLocal => local s' = local s
  | VReg => reg s' = reg s
  | VRaw => raw s' = raw s
  end.

(* ---- proofs ---- *)
Lemma lrun_exec : forall ls s, lrun step s ls = exec s ls.
Proof. induction ls as [|l r IH]; intro s; simpl; [reflexivity|]. destruct (step s l); [apply IH|reflexivity]. Qed.

Lemma lreachable_exec : forall o r s, lreachable step (init o r) s <-> exists ls, exec (init o r) ls = Some s.
Proof. intros; unfold lreachable; split; intros [ls H]; exists ls; [rewrite <- lrun_exec|rewrite lrun_exec]; exact H. Qed.

(* the lock call: enabled only on a free mutex, the caller holds it afterwards *)
Lemma lock_acquires : forall s t s', step s (LLock t) = Some s' -> lock s = None /\ lock s' = Some t.
Proof.
  intros s t s' H. step_cases H; expand; bools; subst; auto.
Qed.

Lemma step_disciplined : forall s l s', step s l = Some s' -> disciplined actor holder mode cls fp s l s'.
Proof.
  intros s l s' H v w Hin. destruct l; cbn [fp] in Hin;
    repeat match type of Hin with context [Nat.eqb ?a ?b] => destruct (Nat.eqb a b) eqn:? end;
    simpl in Hin;
    repeat match goal with H : _ \/ _ |- _ => destruct H | H : False |- _ => destruct H
                      | H : (_, _) = (_, _) |- _ => inversion H; clear H; subst end;
    cbn [cls actor]; bools; subst; try exact I; try reflexivity;
    try (eexists; split; [reflexivity|]; unfold held, holder; cbn [mode]; apply lock_acquires; exact H).
Qed.

Lemma acq_free : forall s l s' k, step s l = Some s' -> mode l k = Acq -> holder s k = None.
Proof.
  intros s l s' k H M. destruct l; try discriminate M. unfold holder. apply (lock_acquires _ _ _ H).
Qed.

Lemma step_writes_sound : forall s l s' v, step s l = Some s' -> ~ writes (fp s l) v -> unchanged v s s'.
Proof.
  intros s l s' v H Hn. unfold writes in Hn.
  destruct l; step_cases H; expand; bools; subst;
    destruct v; cbn [unchanged]; sf; try reflexivity;
    exfalso; apply Hn; cbn [fp];
    repeat match goal with
           | |- context [Nat.eqb ?a ?a] => rewrite Nat.eqb_refl
           | H : ?a = ?b |- context [Nat.eqb ?a ?b] => rewrite H, Nat.eqb_refl
           end; simpl; auto 6.
Qed.

(* ---- the C14 statements for iv_event ---- *)
Section Reach.
Variables (o : nat) (r : bool).

Let disc : forall s l s', lreachable step (init o r) s -> step s l = Some s' ->
  disciplined actor holder mode cls fp s l s' := fun s l s' _ H => step_disciplined s l s' H.
Let acqf : forall s l s' k, lreachable step (init o r) s -> step s l = Some s' -> mode l k = Acq -> holder s k = None :=
  fun s l s' k _ H M => acq_free s l s' k H M.

(* every label of an accepted sequence is performed under the discipline: a label whose footprint
   has a mutex-protected variable is performed by a thread that takes the free mutex in that step
   (the critical section is part of the LLock step), owner-private variables by the owner only *)
Lemma event_lock_discipline : forall pre l post send,
  exec (init o r) (pre ++ l :: post) = Some send ->
  exists s s', exec (init o r) pre = Some s /\ step s l = Some s' /\ disciplined actor holder mode cls fp s l s'.
Proof.
  intros pre l post send H. rewrite <- lrun_exec in H.
  destruct (trace_discipline disc _ _ _ H) as [s [s' [A [B C]]]].
  exists s, s'. rewrite <- lrun_exec. auto.
Qed.

Lemma event_no_concurrent_conflict : forall ls s l1 l2 t1 t2 s1 s2 v w1 w2,
  exec (init o r) ls = Some s ->
  actor s l1 = Some t1 -> actor s l2 = Some t2 -> t1 <> t2 ->
  step s l1 = Some s1 -> step s l2 = Some s2 ->
  In (v, w1) (fp s l1) -> In (v, w2) (fp s l2) ->
  match cls s v with
  | ByLock _ => (exists u1 u2, l1 = LLock u1 /\ l2 = LLock u2) /\ lock s = None /\
                lock s1 = Some t1 /\ lock s2 = Some t2 /\ step s1 l2 = None /\ step s2 l1 = None
  | ByThread _ => False
  | _ => True
  end.
Proof.
  intros ls s l1 l2 t1 t2 s1 s2 v w1 w2 H A1 A2 Hne S1 S2 I1 I2.
  assert (Hr : lreachable step (init o r) s) by (apply lreachable_exec; exists ls; exact H).
  pose proof (no_concurrent_conflict disc acqf l1 l2 v w1 w2 Hr A1 A2 Hne S1 S2 I1 I2) as N.
  destruct (cls s v) as [k|t|k t| |]; try exact I; try exact N.
  destruct N as (M1 & M2 & N). split; [|exact N].
  destruct l1; try discriminate M1. destruct l2; try discriminate M2. eauto.
Qed.

(* while a thread is inside a critical section nobody else changes the lists; the owner's private
   variables are changed by the owner only *)
Lemma event_cs_stable : forall ls s l s' v, exec (init o r) ls = Some s -> step s l = Some s' ->
  match cls s v with
  | ByLock _ => forall t, lock s = Some t -> actor s l <> Some t -> unchanged v s s'
  | ByThread t => actor s l <> Some t -> unchanged v s s'
  | _ => True
  end.
Proof.
  intros ls s l s' v H S.
  assert (Hr : lreachable step (init o r) s) by (apply lreachable_exec; exists ls; exact H).
  assert (WS : writes_sound step (init o r) fp unchanged).
  { intros s0 l0 s0' v0 _ S0. apply step_writes_sound. exact S0. }
  pose proof (cs_stable disc WS l v Hr S) as N. destruct (cls s v); try exact I; exact N.
Qed.
End Reach.

(* non-vacuity: owner 0 and poster 1 are both inside iv_event_post(5); both lock calls are enabled
   on the free mutex, their critical sections conflict on the pending list, and after either of
   them the other is refused until the unlock *)
Definition ex_prefix : list label := [LRegister 5; LPostBegin 1 5; LPostBegin 0 5].
Definition ex_trace : list label :=
  ex_prefix ++ [LLock 1; LUnlock 1; LLock 0; LKick 1; LUnlock 0; LPostEnd 1; LPostEnd 0; LWaitRet true;
                LLock 0; LUnlock 0; LHandler 0 5; LWaitBlock; LEnd true].

Lemma event_nonvacuous :
  accepts 0 false ex_trace = true /\
  (exists s s1 s0, exec (init 0 false) ex_prefix = Some s /\
     step s (LLock 1) = Some s1 /\ step s (LLock 0) = Some s0 /\
     conflict var_eqb (fp s (LLock 1)) (fp s (LLock 0)) = true /\
     step s1 (LLock 0) = None /\ step s0 (LLock 1) = None /\
     pending s1 = [5] /\ lock s1 = Some 1).
Proof.
  split; [vm_compute; reflexivity|].
  eexists; eexists; eexists. repeat split; vm_compute; reflexivity.
Qed.
