(* WorkLink2.v -- the GUARDS of the critical sections of MT/WorkMT.v ARE the code of src/iv_work.c (round 9; the
   sequence-number tests are in MT/WorkLink.v).

   gen/c2gallina.py re-translates on every run into Gen/LeafWork.v:
     work_die_kicked / work_die_on_list   the two iv_fatal guards of __iv_work_thread_die
     work_die_started                     `pool->started_threads--`
     work_die_post                        `if (pool->shutting_down && !pool->started_threads)`  (post pool->ev)
     work_done_was_empty                  `if (iv_list_empty(&pool->work_done))` before the done-list insertion (post pool->ev)
     work_not_shut                        `if (!pool->shutting_down)` (go idle, or die)
     work_event_shut / work_event_free    the shutdown test and the release test of iv_work_event
     work_needed_test                     `iv_list_empty(&pool->idle_threads) && started_threads < pool->max_threads`
     work_submit_idle / _room / _owner    the if-chain of iv_work_submit_pool (kick an idle thread / start one / ask the owner)
   A call of iv_list_empty inside a test is a parameter of the translated test; the lemmas instantiate it with the
   model's lists.  If the C text changes (`<=` for `<`, the done-list test dropped from the release condition, the
   thread-needed request sent although a thread is idle ...) the regenerated definitions differ and these proofs fail. *)
From Coq Require Import List ZArith Bool Lia.
From Ivv Require Import Base.CSem Gen.LeafWork MT.WorkMT.
Import ListNotations.
Local Open Scope Z_scope.

Definition zb (b : bool) : Z := if b then 1 else 0.
Lemma zb_z b : (zb b =? 0) = negb b.
Proof. destruct b; reflexivity. Qed.

Definition int_ok (x : Z) : Prop := - 2147483648 <= x < 2147483648.
Lemma chk_s32 x : int_ok x -> c_chk_s 32 x = Some x.
Proof.
  unfold int_ok, c_chk_s, c_in_s. intros H.
  assert (H1 : (- 2 ^ (32 - 1) <=? x) = true) by (apply Z.leb_le; change (2 ^ (32 - 1)) with 2147483648; lia).
  assert (H2 : (x <? 2 ^ (32 - 1)) = true) by (apply Z.ltb_lt; change (2 ^ (32 - 1)) with 2147483648; lia).
  rewrite H1, H2. reflexivity.
Qed.

(* iv_work_thread_needed *)
Theorem cs_needed_is_the_code : forall p,
  match work_needed_test (zb (nilb (pidle p))) (pstarted p) (pmax p) with
  | Some start => Some (if start then (p_set_started (pstarted p + 1) p, [FCreate]) else (p, []))
  | None => None
  end = Some (cs_needed p).
Proof.
  intros p. unfold work_needed_test, cs_needed. rewrite zb_z, negb_involutive. reflexivity.
Qed.

(* the release test of iv_work_event *)
Theorem cs_free_test_is_the_code : forall p,
  work_event_free (pstarted p) (zb (nilb (pdone p))) = Some (cs_free_test p).
Proof.
  intros p. unfold work_event_free, cs_free_test. rewrite zb_z, !negb_involutive. reflexivity.
Qed.

Lemma leaf_event_shut : forall b : bool, work_event_shut (zb b) = Some b.
Proof. intros b. unfold work_event_shut. rewrite zb_z, negb_involutive. reflexivity. Qed.

(* __iv_work_thread_die written with the translated guards and stores; inner None = iv_fatal *)
Definition cs_die_code (p : pool) (w : nat) (wr : wrec) : option (option (pool * list eff)) :=
  ub_bind (work_die_kicked (zb (wkicked wr))) (fun kicked =>
  if kicked then Some None else
  ub_bind (work_die_on_list (zb (negb (memb w (pidle p))))) (fun on_list =>
  if on_list then Some None else
  ub_bind (work_die_started (pstarted p)) (fun st' =>
  let p' := p_set_started st' p in
  ub_bind (work_die_post (zb (pshut p)) st') (fun post =>
  Some (Some (p', [FUnreg w; FStop] ++ (if post then [FPostO EvWork] else []))))))).

Theorem cs_die_is_the_code : forall p w wr,
  int_ok (pstarted p - 1) -> cs_die_code p w wr = Some (cs_die p w wr).
Proof.
  intros p w wr H. unfold cs_die_code, cs_die, work_die_kicked, work_die_on_list, work_die_started, work_die_post.
  rewrite !zb_z, !negb_involutive. cbn [ub_bind].
  destruct (wkicked wr); [reflexivity|].
  destruct (memb w (pidle p)); [reflexivity|]. cbn [negb].
  rewrite chk_s32 by assumption. cbn [ub_bind]. rewrite negb_involutive. reflexivity.
Qed.

(* the owner is told about the first finished item of a batch: `if (iv_list_empty(&pool->work_done)) iv_event_post(&pool->ev)` *)
Theorem cs_after_post_is_the_code : forall p w wr i last,
  cs_after p w wr i last =
  match work_done_was_empty (zb (nilb (pdone p))) with
  | Some was_empty =>
      match cs_loop (p_set_done (pdone p ++ [i]) p) w wr last with
      | None => None
      | Some (p', pc, e) => Some (p', pc, (if was_empty then [FPostO EvWork] else []) ++ e)
      end
  | None => None
  end.
Proof.
  intros. unfold cs_after, work_done_was_empty. rewrite zb_z, negb_involutive. reflexivity.
Qed.

Lemma leaf_not_shut : forall b : bool, work_not_shut (zb b) = Some (negb b).
Proof. intros b. unfold work_not_shut. rewrite zb_z, negb_involutive. reflexivity. Qed.

(* the if-chain of iv_work_submit_pool after the item has been queued *)
Theorem cs_submit_is_the_code2 : forall p isown i,
  cs_submit p isown i =
  if Z.of_nat (length (pitems p)) + 1 <? 2147483648 then
    let p1 := p_set_items (pitems p ++ [i]) (p_set_tail ((ptail p + 1) mod M32) p) in
    match work_submit_idle (zb (nilb (pidle p))), work_submit_room (pstarted p) (pmax p), work_submit_owner (zb isown) with
    | Some idle, Some room, Some owner =>
        if idle then match pidle p with w :: _ => Some (p1, Some w, [FPostW w]) | [] => None end
        else if room then
          if owner then Some (p_set_started (pstarted p + 1) p1, None, [FCreate])
          else Some (p1, None, [FPostO EvNeeded])
        else Some (p1, None, [])
    | _, _, _ => None
    end
  else None.
Proof.
  intros p isown i. unfold cs_submit, work_submit_idle, work_submit_room, work_submit_owner.
  rewrite !zb_z, !negb_involutive.
  destruct (Z.of_nat (length (pitems p)) + 1 <? 2147483648); [|reflexivity].
  destruct (pidle p); cbn [nilb negb]; [|reflexivity].
  destruct (pstarted p <? pmax p); [destruct isown|]; reflexivity.
Qed.

Lemma leaf_submit_misuse : forall cont own : bool, work_submit_misuse (zb cont) (zb own) = Some (negb cont && negb own).
Proof. intros [] []; reflexivity. Qed.

Example work_link2_samples :
  work_needed_test 1 1 2 = Some true /\ work_needed_test 1 2 2 = Some false /\ work_needed_test 0 0 2 = Some false /\
  work_event_free 0 1 = Some true /\ work_event_free 0 0 = Some false /\ work_event_free 1 1 = Some false /\
  work_die_post 1 0 = Some true /\ work_die_post 1 1 = Some false /\ work_die_post 0 0 = Some false.
Proof. repeat split; reflexivity. Qed.
