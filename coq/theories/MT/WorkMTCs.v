(* WorkMTCs.v -- case analysis of the critical-section functions of MT/WorkMT.v *)
From Coq Require Import List ZArith Bool Arith Lia.
From Ivv Require Import MT.WorkMT MT.WorkMTBase.
Import ListNotations.
Local Open Scope Z_scope.

Definition die_effs (p : pool) (w : nat) (wr : wrec) : list eff :=
  [FUnreg w; FStop] ++
  (if pshut p && (pstarted p - 1 =? 0) then [FPostO EvWork] else []).

Lemma cs_die_spec : forall p w wr p' e, cs_die p w wr = Some (p', e) ->
  wkicked wr = false /\ ~ In w (pidle p) /\ p' = p_set_started (pstarted p - 1) p /\ e = die_effs p w wr.
Proof.
  unfold cs_die. intros. destruct (wkicked wr); try discriminate.
  destruct (memb w (pidle p)) eqn:M; try discriminate. inversion H; subst. apply memb_false in M.
  repeat split; auto.
Qed.

Inductive loop_out (p : pool) (w : nat) (wr : wrec) (last : Z) : pool -> wpc -> list eff -> Prop :=
| LoTake : forall i r, more_work last (phead p) = true -> pitems p = i :: r ->
    loop_out p w wr last (p_set_items r (p_set_head ((phead p + 1) mod M32) p)) (WTake i last) []
| LoIdle : more_work last (phead p) = false -> phead p = ptail p -> pshut p = false ->
    loop_out p w wr last (p_set_idle (w :: pidle p) p) WLoop []
| LoDie : more_work last (phead p) = false -> phead p = ptail p -> pshut p = true ->
    wkicked wr = false -> ~ In w (pidle p) ->
    loop_out p w wr last (p_set_started (pstarted p - 1) p) WDead (die_effs p w wr)
| LoSelf : more_work last (phead p) = false -> phead p <> ptail p ->
    loop_out p w wr last p WLoop [FPostW w].

Lemma cs_loop_spec : forall p w wr last p' pc e, cs_loop p w wr last = Some (p', pc, e) -> loop_out p w wr last p' pc e.
Proof.
  unfold cs_loop. intros. destruct (more_work last (phead p)) eqn:MW.
  - destruct (pitems p) eqn:I; try discriminate. inversion H; subst. econstructor; eauto.
  - destruct (phead p =? ptail p) eqn:HT.
    + apply Z.eqb_eq in HT. destruct (pshut p) eqn:SH; simpl in H.
      * destruct (cs_die p w wr) as [[p1 e1]|] eqn:D; try discriminate. inversion H; subst.
        apply cs_die_spec in D. destruct D as (A & B & C & D). subst. now constructor.
      * inversion H; subst. now constructor.
    + apply Z.eqb_neq in HT. inversion H; subst. now constructor.
Qed.

Lemma loop_out_pc : forall p w wr last p' pc e, loop_out p w wr last p' pc e -> pc <> WNone.
Proof. intros. destruct H; discriminate. Qed.

Lemma cs_got_spec : forall p w wr p' pc e, cs_got p w wr = Some (p', pc, e) ->
  loop_out (p_set_idle (rem w (pidle p)) p) w (mkW (wpcf wr) false (wkpend wr)) (ptail p) p' pc e.
Proof. unfold cs_got. intros. now apply cs_loop_spec. Qed.

Lemma cs_after_spec : forall p w wr i last p' pc e, cs_after p w wr i last = Some (p', pc, e) ->
  exists e1, loop_out (p_set_done (pdone p ++ [i]) p) w wr last p' pc e1 /\
             e = (if nilb (pdone p) then [FPostO EvWork] else []) ++ e1.
Proof.
  unfold cs_after. intros. destruct (cs_loop (p_set_done (pdone p ++ [i]) p) w wr last) as [[[p1 pc1] e1]|] eqn:L; try discriminate.
  inversion H; subst. apply cs_loop_spec in L. eauto.
Qed.

Inductive idle_out (p : pool) (w : nat) (wr : wrec) : pool -> wpc -> list eff -> Prop :=
| IoRearm : In w (pidle p) -> wkicked wr = true -> idle_out p w wr p WLoop []
| IoDie : In w (pidle p) -> wkicked wr = false ->
    idle_out p w wr (p_set_started (pstarted p - 1) (p_set_idle (rem w (pidle p)) p)) WDead
             (die_effs (p_set_idle (rem w (pidle p)) p) w wr).

Lemma cs_idle_spec : forall p w wr p' pc e, cs_idle p w wr = Some (p', pc, e) -> idle_out p w wr p' pc e.
Proof.
  unfold cs_idle. intros. destruct (memb w (pidle p)) eqn:M; simpl in H; try discriminate.
  apply memb_In in M. destruct (wkicked wr) eqn:K.
  - inversion H; subst. now constructor.
  - destruct (cs_die _ w wr) as [[p1 e1]|] eqn:D; try discriminate. inversion H; subst.
    apply cs_die_spec in D. destruct D as (A & B & C & D). subst. cbn [pstarted p_set_idle]. now constructor.
Qed.

Lemma idle_out_pc : forall p w wr p' pc e, idle_out p w wr p' pc e -> pc <> WNone.
Proof. intros. destruct H; discriminate. Qed.

Inductive submit_out (p : pool) (isown : bool) (i : nat) : pool -> option nat -> list eff -> Prop :=
| SoKick : forall w r, pidle p = w :: r ->
    submit_out p isown i (p_set_items (pitems p ++ [i]) (p_set_tail ((ptail p + 1) mod M32) p)) (Some w) [FPostW w]
| SoCreate : pidle p = [] -> pstarted p < pmax p -> isown = true ->
    submit_out p isown i (p_set_started (pstarted p + 1) (p_set_items (pitems p ++ [i]) (p_set_tail ((ptail p + 1) mod M32) p))) None [FCreate]
| SoNeeded : pidle p = [] -> pstarted p < pmax p -> isown = false ->
    submit_out p isown i (p_set_items (pitems p ++ [i]) (p_set_tail ((ptail p + 1) mod M32) p)) None [FPostO EvNeeded]
| SoFull : pidle p = [] -> pmax p <= pstarted p ->
    submit_out p isown i (p_set_items (pitems p ++ [i]) (p_set_tail ((ptail p + 1) mod M32) p)) None [].

Lemma cs_submit_spec : forall p isown i p' kw e, cs_submit p isown i = Some (p', kw, e) ->
  Z.of_nat (length (pitems p)) + 1 < 2147483648 /\ submit_out p isown i p' kw e.
Proof.
  unfold cs_submit. intros. destruct (Z.of_nat (length (pitems p)) + 1 <? 2147483648) eqn:B; try discriminate.
  apply Z.ltb_lt in B. split; auto.
  destruct (pidle p) eqn:I.
  - destruct (pstarted p <? pmax p) eqn:C.
    + apply Z.ltb_lt in C. destruct isown; inversion H; subst; now constructor.
    + apply Z.ltb_ge in C. inversion H; subst. now constructor.
  - inversion H; subst. econstructor; eauto.
Qed.

Lemma cs_submit_g_spec : forall s p t i r, cs_submit_g s p t i = Some r ->
  (foreign s t = true -> pshut p = false) /\ cs_submit p (Nat.eqb t (own s)) i = Some r.
Proof.
  unfold cs_submit_g. intros s p t i r H. destruct (foreign s t); simpl in H.
  - destruct (pshut p); try discriminate. auto.
  - split; auto. intros X; discriminate X.
Qed.

Lemma cs_needed_spec : forall p p' e, cs_needed p = (p', e) ->
  (pidle p = [] /\ pstarted p < pmax p /\ p' = p_set_started (pstarted p + 1) p /\ e = [FCreate]) \/
  ((pidle p <> [] \/ pmax p <= pstarted p) /\ p' = p /\ e = []).
Proof.
  unfold cs_needed. intros. destruct (nilb (pidle p)) eqn:N; simpl in H.
  - apply nilb_true in N. destruct (pstarted p <? pmax p) eqn:C; inversion H; subst.
    + apply Z.ltb_lt in C. left; auto.
    + apply Z.ltb_ge in C. right; auto.
  - inversion H; subst. right. repeat split; auto. left. intros E. rewrite E in N. discriminate.
Qed.
