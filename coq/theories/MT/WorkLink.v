(* WorkLink.v -- the sequence-number tests and updates of MT/WorkMT.v ARE the code of src/iv_work.c.
   gen/c2gallina.py (TYPED, class CTr) re-translates on every run, from the clang AST of the current source, with the
   C integer semantics explicit (Base/CSem.v: uint32_t arithmetic wraps modulo 2^32, the conversion to int32_t reduces
   to [-2^31, 2^31)):
     work_last_seq      `last_seq = pool->seq_tail;`                          of iv_work_thread_got_event
     work_more_test     `while ((int32_t)(last_seq - pool->seq_head) > 0)`    of iv_work_thread_got_event
     work_take_seq      `pool->seq_head++;`                                   of iv_work_thread_got_event
     work_drained_test  `if (pool->seq_head == pool->seq_tail)`               of iv_work_thread_got_event
     work_submit_seq    `pool->seq_tail++;`                                   of iv_work_submit_pool
   into Gen/LeafWork.v.  Here they are proved equal to what the model uses (more_work / s32, =?, (_ + 1) mod M32), for
   ALL integers, and the critical sections cs_loop / cs_got / cs_submit are shown to be built from exactly these.
   If the C text changes (a plain `last_seq > pool->seq_head`, a 64-bit cast, `!=` instead of `==`, `+= 2` ...)
   the regenerated definitions differ and these proofs fail. *)
From Coq Require Import List ZArith Bool Lia.
From Ivv Require Import Base.CSem Gen.LeafWork MT.WorkMT MT.WorkMTSpec MT.WorkMTInvW MT.WorkMTProofs.
Import ListNotations.
Local Open Scope Z_scope.

Ltac Zify.zify_post_hook ::= Z.div_mod_to_equations.

(* (int32_t)(uint32_t)x of Base/CSem.v is the model's s32 *)
Lemma wrap_s32_u32 : forall x, c_wrap_s 32 (c_wrap_u 32 x) = s32 x.
Proof.
  intros x. unfold c_wrap_s, c_wrap_u, s32, M32.
  change (2 ^ (32 - 1)) with 2147483648. change (2 ^ 32) with 4294967296.
  destruct (Z.ltb_spec (x mod 4294967296) 2147483648); lia.
Qed.

Lemma leaf_last_seq : forall t, work_last_seq t = Some t.
Proof. reflexivity. Qed.

Lemma leaf_more_work : forall last head, work_more_test last head = Some (more_work last head).
Proof.
  intros. unfold work_more_test, more_work. rewrite wrap_s32_u32, Z.gtb_ltb. reflexivity.
Qed.

Lemma leaf_drained : forall head tail, work_drained_test head tail = Some (head =? tail).
Proof. reflexivity. Qed.

Lemma leaf_take_seq : forall head, work_take_seq head = Some ((head + 1) mod M32).
Proof. reflexivity. Qed.

Lemma leaf_submit_seq : forall tail, work_submit_seq tail = Some ((tail + 1) mod M32).
Proof. reflexivity. Qed.

(* the loop of iv_work_thread_got_event, written with the translated tests; None of a translated piece = undefined behaviour *)
Definition cs_loop_code (p : pool) (w : nat) (wr : wrec) (last : Z) : option (pool * wpc * list eff) :=
  match work_more_test last (phead p), work_drained_test (phead p) (ptail p), work_take_seq (phead p) with
  | Some more, Some drained, Some head' =>
      if more then
        match pitems p with
        | [] => None
        | i :: r => Some (p_set_items r (p_set_head head' p), WTake i last, [])
        end
      else if drained then
        if negb (pshut p) then Some (p_set_idle (w :: pidle p) p, WLoop, [])
        else match cs_die p w wr with
             | None => None
             | Some (p', e) => Some (p', WDead, e)
             end
      else Some (p, WLoop, [FPostW w])
  | _, _, _ => None
  end.

Lemma cs_loop_is_the_code : forall p w wr last, cs_loop p w wr last = cs_loop_code p w wr last.
Proof.
  intros. unfold cs_loop_code. rewrite leaf_more_work, leaf_drained, leaf_take_seq. reflexivity.
Qed.

(* got_event enters the loop with last_seq = the translated initialiser *)
Lemma cs_got_is_the_code : forall p w wr,
  cs_got p w wr =
  match work_last_seq (ptail p) with
  | Some last => cs_loop_code (p_set_idle (rem w (pidle p)) p) w (mkW (wpcf wr) false (wkpend wr)) last
  | None => None
  end.
Proof. intros. rewrite leaf_last_seq. unfold cs_got. apply cs_loop_is_the_code. Qed.

(* iv_work_submit_pool advances seq_tail by the translated increment *)
Lemma cs_submit_is_the_code : forall p isown i p' k e,
  cs_submit p isown i = Some (p', k, e) -> Some (ptail p') = work_submit_seq (ptail p).
Proof.
  intros p isown i p' k e. unfold cs_submit. rewrite leaf_submit_seq.
  destruct (Z.of_nat (length (pitems p)) + 1 <? 2147483648); [|discriminate].
  destruct (pidle p); [destruct (pstarted p <? pmax p); [destruct isown|]|];
    intros H; inversion H; subst; reflexivity.
Qed.

(* With invariant W1 (|items| = seq_tail - seq_head mod 2^32 < 2^31, proved for every reachable state), the translated
   tests applied to the current fields see exactly whether work is queued. *)
Lemma leaf_tests_see_queue : forall o tr s p, run (init o) tr = Some s -> pl s = PLive p ->
  work_more_test (ptail p) (phead p) = Some (negb (nilb (pitems p))) /\
  work_drained_test (phead p) (ptail p) = Some (nilb (pitems p)).
Proof.
  intros o tr s p R P.
  destruct (WorkMTProofs.i_w1 _ (WorkMTProofs.Inv_run _ _ _ R) p P) as (Hh & Ht & Hn & Hb).
  rewrite leaf_more_work, leaf_drained.
  rewrite (WorkMTInvW.more_work_tail (phead p) (ptail p) _ Hh Ht Hn Hb).
  pose proof (WorkMTInvW.head_tail_items (phead p) (ptail p) _ Hh Ht Hn) as E.
  destruct (pitems p) as [|i r]; cbn [length nilb negb] in *.
  - split; [reflexivity|]. f_equal. apply Z.eqb_eq. apply E. reflexivity.
  - split.
    + f_equal; try (apply Z.ltb_lt; lia).
    + f_equal. apply Z.eqb_neq. intros X. apply E in X. lia.
Qed.
