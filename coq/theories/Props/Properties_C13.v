(* Properties_C13.v -- property C13: pool shutdown and iv_thread lifetime (drain, paired hooks, join, release).
   Statements only; every proof is `exact <lemma of MT/WorkMT*.v>`.  Same reading guide as Properties_C12.v. *)
From Coq Require Import List ZArith Bool.
From Ivv Require Import MT.WorkMT MT.WorkMTSpec MT.WorkMTInvA MT.WorkMTInvW MT.WorkMTProofs MT.WorkMTMon MT.WorkMTInvI
  MT.WorkMTInvT MT.WorkMTSim MT.WorkMTFinal.
Import ListNotations.
Local Open Scope Z_scope.

(* Drain: whatever was submitted before (or after) the put, when the run ends every submission has been worked on
   and completed exactly once (with C12_exactly_once); a run in which the pool was put cannot end in QUIESCENT
   (see C13_refs_dropped), so it ends with the owner's iv_main returning. *)
Theorem C13_drain :
  forall o tr l s', run (init o) (tr ++ [l]) = Some s' -> l = LQuiescent \/ l = LDone ->
    forall i, count (is_sub i) tr = count (is_cp i) tr /\ count (is_wk i) tr = count (is_sub i) tr /\
              count (is_rt i) tr = count (is_sub i) tr.
Proof. exact ended_complete. Qed.
Print Assumptions C13_drain.

(* Hooks paired, exit, join -- and everything else the C13 monitor of MT/WorkMTMon.v checks -- hold on every accepted
   sequence: per created thread at most one start hook, the stop hook only after it, once, by the same thread; a
   thread finishes only with its hooks paired; it is joined only after it finished, once, by its creator; the
   creator's iv_main returns only when every created thread has finished and been joined and nothing is in flight;
   at QUIESCENT / D every created thread has been joined; no QUIESCENT after a put; D only after MainEnd. *)
Theorem C13_hooks_paired :
  forall o tr, accepts o tr = true -> mon13_ok o tr = true.
Proof. exact accepts_mon13. Qed.
Print Assumptions C13_hooks_paired.

(* Joined: the `dead` event of a thread that has left its start routine (posted from the TLS destructor, whichever
   way the thread ended) stays pending or being handled until the creator has joined the thread; a pool thread
   whose iv_thread record has left the running state has run __iv_work_thread_die and is outside the pool lock. *)
Theorem C13_joined :
  forall o tr s, run (init o) tr = Some s -> JJ s /\ WP s.
Proof. exact dead_event_pending. Qed.
Print Assumptions C13_joined.

(* References dropped: once the pool has been put it is shut down or freed for ever after; in that state a run cannot
   be quiescent (C12_quiescent_drained: ~ put_state), i.e. with all threads blocked the pool has been freed, its two
   events unregistered and every thread joined, so that the owner's event count is 0 and iv_main returns; when
   iv_main returns the owner has no registered event, the pool is gone and every created thread is joined. *)
Theorem C13_refs_dropped :
  forall o tr s, run (init o) tr = Some s -> In (LPut o) tr -> put_state s.
Proof. exact put_then_freed_or_shut. Qed.
Print Assumptions C13_refs_dropped.

Theorem C13_main_returns_released :
  forall o tr t s', run (init o) (tr ++ [LMainEnd t]) = Some s' ->
    exists s, run (init o) tr = Some s /\ t = o /\ onum s = 0 /\ (forall p, pl s <> PLive p) /\
              (forall n, In n (tids s) -> tp (th s n) = TJoined) /\ (forall i, items s i = IIdle).
Proof. exact mainend_released. Qed.
Print Assumptions C13_main_returns_released.

(* The pool is freed only without threads and without uncompleted work (while the free is owed: started_threads = 0,
   work_done = [], shutting_down), and once it is gone no pool thread is alive. *)
Theorem C13_freed_when_drained :
  forall o tr s, run (init o) tr = Some s ->
    (In FFree (todo s) -> forall p, pl s = PLive p -> pstarted p = 0 /\ pdone p = [] /\ pshut p = true) /\
    ((forall p, pl s <> PLive p) -> nlive s = 0%nat).
Proof. exact freed_when_drained. Qed.
Print Assumptions C13_freed_when_drained.

(* No step touches the pool after it was freed: once the model state is PFreed it stays so, and no pool-lock,
   submit, put, stop-hook or create label is accepted any more. *)
Theorem C13_no_touch_after_free :
  forall o tr s, run (init o) tr = Some s -> pl s = PFreed ->
    (forall l, pool_label l = true -> step s l = None) /\
    (forall l s', step s l = Some s' -> pl s' = PFreed).
Proof. exact no_touch_after_free. Qed.
Print Assumptions C13_no_touch_after_free.

(* A created thread holds its creator: while a thread made by iv_thread_create has not been joined the creator's
   registered-event count is positive, so its iv_main cannot return (C13_main_returns_released: it returns only
   with count 0 and everything joined). *)
Theorem C13_thread_holds_creator :
  forall o tr s n, run (init o) tr = Some s -> In n (tids s) -> tp (th s n) <> TJoined -> 0 < onum s.
Proof. exact unjoined_holds_creator. Qed.
Print Assumptions C13_thread_holds_creator.

(* Non-vacuity: a real log with a helper thread that calls iv_init and ends by pthread_exit without iv_deinit, a
   pool thread idle across the put from an owner timer, stop hook, both threads joined, pool freed. *)
Example C13_nonvacuous :
  accepts 0 [LCreate 0 1; LSubmit 0 0; LLock 0; LTCreate 0 1; LUnlock 0; LEnd 0; LTCreate 0 2; LMain 0; LBlock 0;
    LHookStart 1; LEvW 1 1; LTExit 2; LEvO 2; LKickO 2; LTFin 2; LWake 0; LEvO 0; LEvW 1 1; LLock 1; LUnlock 1;
    LWork 1 0; LRet 1 0; LLock 1; LEvO 1; LKickO 1; LUnlock 1; LBlock 1; LTJoin 0 2; LEvO 0; LEvO 0; LLock 0;
    LUnlock 0; LCompl 0 0; LBlock 0; LWake 0; LCallback 0; LPut 0; LLock 0; LEvW 0 1; LKickW 0 1; LUnlock 0; LEnd 0;
    LBlock 0; LWake 1; LEvW 1 1; LLock 1; LEvW 1 1; LHookStop 1; LEvO 1; LKickO 1; LUnlock 1; LEvO 1; LTFin 1;
    LWake 0; LEvO 0; LLock 0; LUnlock 0; LLock 0; LUnlock 0; LEvO 0; LEvO 0; LEvO 0; LTJoin 0 1; LEvO 0; LMainEnd 0;
    LDone] = true.
Proof. vm_compute. reflexivity. Qed.

(* ---- tie (a), round 9: the guards of the critical sections ARE the current C text of src/iv_work.c (MT/WorkLink2.v;
   Gen/LeafWork.v is re-translated by gen/c2gallina.py on every run of this check) ---- *)
From Ivv Require Import Base.CSem Gen.LeafWork MT.WorkLink2.
Import ListNotations.
Local Open Scope Z_scope.

Theorem C13_release_test_is_the_code :
  forall p, work_event_free (pstarted p) (zb (nilb (pdone p))) = Some (cs_free_test p).
Proof. exact cs_free_test_is_the_code. Qed.
Print Assumptions C13_release_test_is_the_code.

Theorem C13_worker_death_is_the_code :
  forall p w wr, int_ok (pstarted p - 1) -> cs_die_code p w wr = Some (cs_die p w wr).
Proof. exact cs_die_is_the_code. Qed.
Print Assumptions C13_worker_death_is_the_code.
