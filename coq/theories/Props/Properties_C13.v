(* Properties_C13.v -- property C13: pool shutdown and iv_thread lifetime (drain, paired hooks, join, release).
   Statements only; every proof is `exact <lemma of MT/WorkMT*.v>`.  Same reading guide as Properties_C12.v.

   CHECKPOINT STATE: `_partial` = weaker than the property clause; drain / hooks paired / joined / thread holds
   creator are so far only enforced by `step` on every implementation log, not yet stated as theorems. *)
From Coq Require Import List ZArith Bool.
From Ivv Require Import MT.WorkMT MT.WorkMTSpec MT.WorkMTInvA MT.WorkMTInvW MT.WorkMTProofs.
Import ListNotations.
Local Open Scope Z_scope.

(* No step touches the pool after it was freed: once the model state is PFreed it stays so, and no pool-lock,
   submit, put, stop-hook or create label is accepted any more (a log of the implementation with such a segment
   after the free is rejected by the acceptor). *)
Theorem C13_no_touch_after_free :
  forall o tr s, run (init o) tr = Some s -> pl s = PFreed ->
    (forall l, pool_label l = true -> step s l = None) /\
    (forall l s', step s l = Some s' -> pl s' = PFreed).
Proof.
  intros o tr s H P. split.
  - intros l L. exact (freed_no_pool_label s l (i_lock s (Inv_run o tr s H)) P L).
  - intros l s' X. exact (freed_stays s l s' P X).
Qed.
Print Assumptions C13_no_touch_after_free.

(* The pool is freed only without threads and without uncompleted work: while the free is owed (the owner holds
   the lock in the shutdown test that succeeded) started_threads = 0, work_done = [] and shutting_down is set;
   and once the pool is gone no pool thread is alive.
   partial: "events unregistered, freed exactly once at quiescence after put" needs W5 and is not yet stated. *)
Theorem C13_refs_dropped_partial :
  forall o tr s, run (init o) tr = Some s ->
    (In FFree (todo s) -> forall p, pl s = PLive p -> pstarted p = 0 /\ pdone p = [] /\ pshut p = true) /\
    ((forall p, pl s <> PLive p) -> nlive s = 0%nat).
Proof.
  intros o tr s H. destruct (Inv_run o tr s H). split.
  - exact i_wf.
  - exact (proj2 i_w1b).
Qed.
Print Assumptions C13_refs_dropped_partial.

(* The stop hook and the unregistration of a pool thread's kick event are owed only by that thread itself, holding
   the pool lock, after it has left the pool (struct work_pool_thread freed, started_threads decremented). *)
Theorem C13_stop_by_dying_thread :
  forall o tr s, run (init o) tr = Some s -> WU s.
Proof. intros o tr s H. exact (i_wu s (Inv_run o tr s H)). Qed.
Print Assumptions C13_stop_by_dying_thread.

(* Non-vacuity: a real log with a helper thread that calls iv_init and ends by pthread_exit without iv_deinit, a
   pool thread idle across the put from an owner timer, stop hook, both threads joined, pool freed. *)
Example C13_nonvacuous :
  accepts 0 [LCreate 0 1; LSubmit 0 0; LLock 0; LTCreate 0 1; LUnlock 0; LEnd 0; LTCreate 0 2; LMain 0; LBlock 0;
    LHookStart 1; LEvW 1 1; LTExit 2; LEvO 2; LKickO 2; LTFin 2; LWake 0; LEvO 0; LEvW 1 1; LLock 1; LUnlock 1;
    LWork 1 0; LRet 1 0; LLock 1; LEvO 1; LKickO 1; LUnlock 1; LBlock 1; LTJoin 0 2; LEvO 0; LEvO 0; LLock 0;
    LUnlock 0; LCompl 0 0; LBlock 0; LWake 0; LCallback 0; LPut 0; LLock 0; LEvW 0 1; LKickW 0 1; LUnlock 0; LEnd 0;
    LBlock 0; LWake 1; LEvW 1 1; LLock 1; LEvW 1 1; LHookStop 1; LEvO 1; LKickO 1; LUnlock 1; LEvO 1; LTFin 1;
    LWake 0; LEvO 0; LLock 0; LUnlock 0; LLock 0; LUnlock 0; LEvO 0; LEvO 0; LEvO 0; LTJoin 0 1; LEvO 0; LMainEnd 0;
    LDone] = true.
Proof. vm_compute. reflexivity. Qed.
