(* Properties_C12.v -- property C12: iv_work items run once in a worker, complete once in the owner, all finish.
   Statements only; every proof is `exact <lemma of MT/WorkMT*.v>`.

   Reading guide.  `tr` ranges over ALL label sequences accepted by the transition system MT/WorkMT.v from its
   initial state with owner thread `o` (`run (init o) tr = Some s`): any submission program (bursts, submissions
   from completions and timers, continuations from work functions, NULL-pool items, put), any schedule of the
   owner, the pool threads and helper threads at every lock / post / kick / wait, any max_threads >= 1, the idle
   timer firing at any moment.  The implementation side (acceptance of the logs of the real iv_work.c) is the
   correspondence check lib/c12.py.

   CHECKPOINT STATE: theorems whose name ends in `_partial` are weaker than the property clause they belong to
   (see the comment at each); the remaining clauses (exactly-once on traces, all-complete at QUIESCENT, NULL
   pool) are so far only enforced by `step` on every implementation log, not yet stated as theorems. *)
From Coq Require Import List ZArith Bool.
From Ivv Require Import MT.WorkMT MT.WorkMTSpec MT.WorkMTProofs.
Import ListNotations.
Local Open Scope Z_scope.

(* Bounded parallelism, state form: in every reachable state the number of pool threads that are inside a work
   function (between Cw and Xw) is at most started_threads, which is at most max_threads.
   partial: the count is taken in the model state, not yet on the trace (LWork / LRet labels). *)
Theorem C12_bounded_parallelism_partial :
  forall o tr s p, run (init o) tr = Some s -> pl s = PLive p ->
    Z.of_nat (nwork s) <= pstarted p /\ pstarted p <= pmax p.
Proof. exact running_bounded. Qed.
Print Assumptions C12_bounded_parallelism_partial.

(* W4 of Appendix A.7 (no lost work wake-up): whenever work is queued, a thread is being created for it, or some
   pool thread is starting / inside got_event / running work, or is in its loop with its kick event posted (or the
   post owed by the holder of the pool lock) and either off the idle list or marked `kicked`.
   partial: the W5 half (finished work => the owner's event is posted or being handled) is not yet included. *)
Theorem C12_work_wakeup_invariant_partial :
  forall o tr s, run (init o) tr = Some s -> W4 s.
Proof. intros o tr s H. exact (i_w4 s (Inv_run o tr s H)). Qed.
Print Assumptions C12_work_wakeup_invariant_partial.

(* W1: the sequence counters always describe the queue: |work_items| = seq_tail - seq_head (mod 2^32) < 2^31,
   so the signed 32-bit loop test of got_event sees exactly whether work is queued. *)
Theorem C12_queue_counters :
  forall o tr s, run (init o) tr = Some s -> W1 s.
Proof. intros o tr s H. exact (i_w1 s (Inv_run o tr s H)). Qed.
Print Assumptions C12_queue_counters.

(* W2: every live pool thread is on the idle list (timer armed), or is starting / active, or has its kick posted. *)
Theorem C12_worker_accounted :
  forall o tr s, run (init o) tr = Some s -> W2 s /\ Widle s /\ W1b s.
Proof. intros o tr s H. destruct (Inv_run o tr s H). auto. Qed.
Print Assumptions C12_worker_accounted.

(* Non-vacuity: the label sequence of a real log (max_threads = 2, three submissions, a continuation from a work
   function, two pool threads, self-kick with work pending, put from a completion, both threads stopped and
   joined, pool freed, iv_main returns) is accepted. *)
Example C12_nonvacuous :
  accepts 0 [LCreate 0 2; LSubmit 0 0; LLock 0; LTCreate 0 1; LUnlock 0; LEnd 0; LSubmit 0 1; LHookStart 1; LLock 0;
    LTCreate 0 2; LEvW 1 1; LUnlock 0; LEnd 0; LSubmit 0 2; LHookStart 2; LEvW 2 2; LEvW 2 2; LLock 2; LUnlock 2;
    LWork 2 0; LSubmit 2 3; LLock 2; LUnlock 2; LEnd 2; LRet 2 0; LLock 2; LEvO 2; LKickO 2; LUnlock 2; LWork 2 1;
    LRet 2 1; LLock 2; LEvW 2 2; LUnlock 2; LEvW 2 2; LLock 2; LUnlock 2; LWork 2 3; LRet 2 3; LLock 2; LUnlock 2;
    LBlock 2; LLock 0; LEvW 0 2; LKickW 0 2; LUnlock 0; LEnd 0; LMain 0; LEvO 0; LLock 0; LUnlock 0; LCompl 0 0;
    LCompl 0 1; LCompl 0 3; LPut 0; LLock 0; LEvW 0 2; LUnlock 0; LEnd 0; LLock 0; LUnlock 0; LBlock 0; LEvW 1 1;
    LLock 1; LUnlock 1; LWork 1 2; LRet 1 2; LLock 1; LEvO 1; LKickO 1; LEvW 1 1; LHookStop 1; LUnlock 1; LEvO 1;
    LTFin 1; LWake 0; LEvO 0; LLock 0; LUnlock 0; LCompl 0 2; LLock 0; LUnlock 0; LEvO 0; LTJoin 0 1; LEvO 0;
    LBlock 0; LWake 2; LEvW 2 2; LLock 2; LEvW 2 2; LHookStop 2; LEvO 2; LKickO 2; LUnlock 2; LEvO 2; LTFin 2;
    LWake 0; LEvO 0; LLock 0; LUnlock 0; LLock 0; LUnlock 0; LEvO 0; LEvO 0; LEvO 0; LTJoin 0 2; LEvO 0; LMainEnd 0;
    LDone] = true.
Proof. vm_compute. reflexivity. Qed.
