(* Properties_C12.v -- property C12: iv_work items run once in a worker, complete once in the owner, all finish.
   Statements only; every proof is `exact <lemma of MT/WorkMT*.v>`.

   Reading guide.  `tr` ranges over ALL label sequences accepted by the transition system MT/WorkMT.v from its
   initial state with owner thread `o` (`run (init o) tr = Some s`, `accepts o tr = true`): any submission program
   (bursts, submissions from completions and timers, continuations from work functions, continuations from FOREIGN
   submitters = running helper threads, neither the owner nor threads of the pool: what a worker of another pool of the
   same owner is for this pool, NULL-pool items, put),
   any schedule of the owner, the pool threads and helper threads at every lock / post / kick / wait, any
   max_threads >= 1, the idle timer firing at any moment.  Accepted sequences are prefix-closed, so a statement
   about counts in `tr` holds at every moment of a run.  The implementation side (the logs of the real iv_work.c
   are accepted, and pass the same monitors) is the correspondence check lib/c12.py.
   `count (is_sub i)`, `is_wk`, `is_rt`, `is_cp` count the submissions (pool or NULL pool), work-function
   starts, work-function returns and completions of item i in a sequence. *)
From Coq Require Import List ZArith Bool.
From Ivv Require Import MT.WorkMT MT.WorkMTSpec MT.WorkMTMon MT.WorkMTInvI MT.WorkMTSim MT.WorkMTFinal.
From Ivv Require Gen.LeafWork MT.WorkLink.
Import ListNotations.
Local Open Scope Z_scope.

(* Exactly once, in order: at every moment and for every item, completions <= work returns <= work starts <=
   submissions <= completions + 1: a submitted item is worked on at most once, completed at most once, and
   only after its work function returned; it is not submitted again before its completion. *)
Theorem C12_exactly_once :
  forall o tr s i, run (init o) tr = Some s ->
    (count (is_cp i) tr <= count (is_rt i) tr)%nat /\ (count (is_rt i) tr <= count (is_wk i) tr)%nat /\
    (count (is_wk i) tr <= count (is_sub i) tr)%nat /\ (count (is_sub i) tr <= count (is_cp i) tr + 1)%nat.
Proof. exact exactly_once. Qed.
Print Assumptions C12_exactly_once.

(* ... in the right threads: the work function of a pool item runs in a thread other than the owner that has run the
   thread-start hook and not the stop hook; work function and completion of a NULL-pool item run in the submitting
   thread (only the owner submits); every completion runs in the owner. *)
Theorem C12_right_threads :
  forall o tr s l s', run (init o) tr = Some s -> step s l = Some s' ->
    match l with
    | LWork t i => (items s i = IQ -> t <> o /\ abs_hook s t = HkStarted) /\ (items s i = ILQ -> t = o)
    | LRet t i => (items s i = IW -> t <> o) /\ (items s i = ILW -> t = o)
    | LCompl t _ | LLocal t _ => t = o
    | _ => True
    end.
Proof. exact thread_clauses. Qed.
Print Assumptions C12_right_threads.

(* Bounded parallelism on the trace: the number of pool work functions that have started and not returned
   (Cw of a non-owner thread minus Xw) equals the number of pool threads inside a work function, and is at most
   started_threads <= max_threads; it is 0 when there is no pool. *)
Theorem C12_bounded_parallelism :
  forall o tr s, run (init o) tr = Some s ->
    running o tr = Z.of_nat (nwork s) /\
    match pl s with PLive p => running o tr <= pstarted p /\ pstarted p <= pmax p | _ => running o tr = 0 end.
Proof. exact bounded_parallelism. Qed.
Print Assumptions C12_bounded_parallelism.

(* W4 / W5 of Appendix A.7 hold in every reachable state: queued work always has a thread being created for it, or
   a pool thread that is starting / in got_event / running work, or one in its loop whose kick event is posted (or
   owed by the holder of the pool lock) and that is off the idle list or marked `kicked`, or (after a submission by a
   foreign thread that found no thread to kick) the owner's thread_needed event posted / popped / owed while nobody is
   idle, started_threads < max_threads and the pool has not been put, so that its handler starts a thread (needed_wit of
   MT/WorkMTSpec.v; an iv_work_pool_put in that state with started_threads = 0 starts the thread itself, under the lock:
   fix D10, /repo commit eb5cf18 -- before it the pool was freed with the item queued, see MT/WorkForeignPut.v);
   finished work always
   has the owner's event posted, popped, or owed; a shut-down pool without threads is about to be freed. *)
Theorem C12_work_wakeup_invariant :
  forall o tr s, run (init o) tr = Some s -> W4 s /\ W5 s.
Proof. exact wakeup_invariant. Qed.
Print Assumptions C12_work_wakeup_invariant.

(* All complete: when a run ends (QUIESCENT: every thread blocked for ever, nothing pending; or D) every submission
   has had its work function run and returned and its completion run: the counts are equal for every item. *)
Theorem C12_all_complete :
  forall o tr l s', run (init o) (tr ++ [l]) = Some s' -> l = LQuiescent \/ l = LDone ->
    forall i, count (is_sub i) tr = count (is_cp i) tr /\ count (is_wk i) tr = count (is_sub i) tr /\
              count (is_rt i) tr = count (is_sub i) tr.
Proof. exact ended_complete. Qed.
Print Assumptions C12_all_complete.

(* ... and at QUIESCENT the queues are empty, no item is in flight, every pool thread has died (idle timeout or
   shutdown) and every created thread has been joined. *)
Theorem C12_quiescent_drained :
  forall o tr s', run (init o) (tr ++ [LQuiescent]) = Some s' ->
    exists s, run (init o) tr = Some s /\ pitems_of s = [] /\ pdone_of s = [] /\ (forall i, items s i = IIdle) /\
              (forall w, wpc_of s w = WNone \/ wpc_of s w = WDead) /\ (forall n, In n (tids s) -> tp (th s n) = TJoined) /\
              ~ put_state s.
Proof. exact quiescent_drained. Qed.
Print Assumptions C12_quiescent_drained.

(* NULL pool: submission, work function and completion of a local item all happen in the owner (= submitting) thread;
   the work function is started from the loop (HLocal batch), never inside the submit call -- see C12_right_threads
   and the LLocal / ILQ cases of `step`. *)
Theorem C12_local_pool :
  forall o tr s l s', run (init o) tr = Some s -> step s l = Some s' ->
    match l with
    | LWork t i => (items s i = IQ -> t <> o /\ abs_hook s t = HkStarted) /\ (items s i = ILQ -> t = o)
    | LRet t i => (items s i = IW -> t <> o) /\ (items s i = ILW -> t = o)
    | LCompl t _ | LLocal t _ => t = o
    | _ => True
    end.
Proof. exact thread_clauses. Qed.
Print Assumptions C12_local_pool.

(* Every accepted sequence passes the C12 monitor of MT/WorkMTMon.v (the monitor that lib/c12.py runs on the logs
   of the implementation): per item Idle -> submitted -> running -> returned -> Idle with the thread clauses, at most
   max_threads pool work functions at once, nothing in flight at QUIESCENT / D. *)
Theorem C12_monitor_accepts :
  forall o tr, accepts o tr = true -> mon12_ok o tr = true.
Proof. exact accepts_mon12. Qed.
Print Assumptions C12_monitor_accepts.

(* THE SEQUENCE-NUMBER TESTS OF THE MODEL ARE THE CODE.  Gen/LeafWork.v is regenerated on every run by gen/c2gallina.py
   from the clang AST of the current src/iv_work.c, with the C integer semantics explicit (Base/CSem.v: uint32_t
   arithmetic wraps modulo 2^32, (int32_t) reduces into [-2^31, 2^31), None = undefined behaviour):
   `while ((int32_t)(last_seq - pool->seq_head) > 0)`, `if (pool->seq_head == pool->seq_tail)`, `pool->seq_head++`,
   `last_seq = pool->seq_tail` of iv_work_thread_got_event and `pool->seq_tail++` of iv_work_submit_pool.  For ALL integers
   they are defined and equal to the model's more_work (signed test modulo 2^32), =?, (_ + 1) mod M32; the model's critical
   section cs_loop is literally the loop written with the translated pieces (MT/WorkLink.v cs_loop_code); and in every
   reachable state (invariant W1: |items| = seq_tail - seq_head mod 2^32 < 2^31) the translated tests, applied to the
   current fields, see exactly whether work is queued. *)
Theorem C12_seq_tests_are_the_code :
  (forall last head, Ivv.Gen.LeafWork.work_more_test last head = Some (more_work last head)) /\
  (forall head tail, Ivv.Gen.LeafWork.work_drained_test head tail = Some (head =? tail)) /\
  (forall head, Ivv.Gen.LeafWork.work_take_seq head = Some ((head + 1) mod M32)) /\
  (forall tail, Ivv.Gen.LeafWork.work_submit_seq tail = Some ((tail + 1) mod M32)) /\
  (forall tail, Ivv.Gen.LeafWork.work_last_seq tail = Some tail) /\
  (forall p w wr last, cs_loop p w wr last = Ivv.MT.WorkLink.cs_loop_code p w wr last) /\
  (forall p isown i p' k e, cs_submit p isown i = Some (p', k, e) ->
     Some (ptail p') = Ivv.Gen.LeafWork.work_submit_seq (ptail p)) /\
  (forall o tr s p, run (init o) tr = Some s -> pl s = PLive p ->
     Ivv.Gen.LeafWork.work_more_test (ptail p) (phead p) = Some (negb (nilb (pitems p))) /\
     Ivv.Gen.LeafWork.work_drained_test (phead p) (ptail p) = Some (nilb (pitems p))).
Proof.
  exact (conj Ivv.MT.WorkLink.leaf_more_work (conj Ivv.MT.WorkLink.leaf_drained (conj Ivv.MT.WorkLink.leaf_take_seq
        (conj Ivv.MT.WorkLink.leaf_submit_seq (conj Ivv.MT.WorkLink.leaf_last_seq (conj Ivv.MT.WorkLink.cs_loop_is_the_code
        (conj Ivv.MT.WorkLink.cs_submit_is_the_code Ivv.MT.WorkLink.leaf_tests_see_queue))))))).
Qed.
Print Assumptions C12_seq_tests_are_the_code.

(* Non-vacuity: the label sequence of a real log (max_threads = 2, three submissions, a continuation from a work
   function, two pool threads, self-kick with work pending, put from a completion, both threads stopped and
   joined, pool freed, iv_main returns) is accepted. *)
Example C12_nonvacuous :
  accepts 0 [LCreate 0 2; LSubmit 0 0; LLock 0; LTCreate 0 1; LUnlock 0; LEnd 0; LSubmit 0 1; LHookStart 1; LLock 0;
    LTCreate 0 2; LEvW 1 1; LUnlock 0; LEnd 0; LSubmit 0 2; LHookStart 2; LEvW 2 2; LEvW 2 2; LLock 2; LUnlock 2;
    LWork 2 0; LSubmit 2 3; LLock 2; LUnlock 2; LEnd 2; LRet 2 0; LLock 2; LEvO 2; LKickO 2; LUnlock 2; LWork 2 1;
    LRet 2 1; LLock 2; LEvW 2 2; LUnlock 2; LEvW 2 2; LLock 2; LUnlock 2; LWork 2 3; LRet 2 3; LLock 2; LUnlock 2;
    LBlock 2; LLock 0; LEvW 0 2; LKickW 0 2; LUnlock 0; LEnd 0; LMain 0; LEvO 0; LLock 0; LUnlock 0; LCompl 0 0;
    LCompl 0 1; LCompl 0 3; LPut 0; LLock 0; LEvW 0 2; LUnlock 0; LEnd 0; LLock 0; LUnlock 0; LBlock 0; LEvW 1 1;
    LLock 1; LUnlock 1; LWork 1 2; LRet 1 2; LLock 1; LEvO 1; LKickO 1; LEvW 1 1; LHookStop 1; LUnlock 1; LEvO 1;
    LTFin 1; LWake 0; LEvO 0; LLock 0; LUnlock 0; LCompl 0 2; LLock 0; LUnlock 0; LEvO 0; LTJoin 0 1; LEvO 0;
    LBlock 0; LWake 2; LEvW 2 2; LLock 2; LEvW 2 2; LHookStop 2; LEvO 2; LKickO 2; LUnlock 2; LEvO 2; LTFin 2;
    LWake 0; LEvO 0; LLock 0; LUnlock 0; LLock 0; LUnlock 0; LEvO 0; LEvO 0; LEvO 0; LTJoin 0 2; LEvO 0; LMainEnd 0;
    LDone] = true.
Proof. vm_compute. reflexivity. Qed.

(* Non-vacuity, foreign submitter: the label sequence of a real log (max_threads = 1; helper thread 1, made by the owner,
   submits item 3 by iv_work_pool_submit_continuation while the pool has no thread: the thread_needed event is posted to
   the owner from inside the pool lock and the owner is kicked; the helper exits; the owner's thread_needed handler starts
   pool thread 2, which runs the item; completion in the owner; the thread exits on its idle timeout; QUIESCENT). *)
Example C12_nonvacuous_foreign :
  accepts 0 [LCreate 0 1; LTCreate 0 1; LSubmit 1 3; LMain 0; LBlock 0; LLock 1; LEvO 1; LKickO 1; LUnlock 1; LEnd 1; LEvO 1;
    LTFin 1; LWake 0; LEvO 0; LLock 0; LTCreate 0 2; LUnlock 0; LEvO 0; LTJoin 0 1; LEvO 0; LBlock 0; LHookStart 2; LEvW 2 2;
    LEvW 2 2; LLock 2; LUnlock 2; LWork 2 3; LRet 2 3; LLock 2; LEvO 2; LKickO 2; LUnlock 2; LBlock 2; LWake 0; LEvO 0; LLock 0;
    LUnlock 0; LCompl 0 3; LBlock 0; LWake 2; LLock 2; LEvW 2 2; LHookStop 2; LUnlock 2; LEvO 2; LKickO 2; LTFin 2; LWake 0;
    LEvO 0; LTJoin 0 2; LEvO 0; LBlock 0; LQuiescent] = true.
Proof. vm_compute. reflexivity. Qed.

(* ---- tie (a), round 9: the guards of the critical sections ARE the current C text of src/iv_work.c (MT/WorkLink2.v;
   Gen/LeafWork.v is re-translated by gen/c2gallina.py on every run of this check) ---- *)
From Ivv Require Import Base.CSem Gen.LeafWork MT.WorkLink2.
Import ListNotations.
Local Open Scope Z_scope.

Theorem C12_thread_needed_is_the_code :
  forall p,
  match work_needed_test (zb (nilb (pidle p))) (pstarted p) (pmax p) with
  | Some start => Some (if start then (p_set_started (pstarted p + 1) p, [FCreate]) else (p, []))
  | None => None
  end = Some (cs_needed p).
Proof. exact cs_needed_is_the_code. Qed.
Print Assumptions C12_thread_needed_is_the_code.

Theorem C12_submit_chain_is_the_code :
  forall p isown i,
  cs_submit p isown i =
  if Z.of_nat (length (pitems p)) + 1 <? 2147483648 then
    let p1 := p_set_items (pitems p ++ [i]) (p_set_tail ((ptail p + 1) mod M32) p) in
    match work_submit_idle (zb (nilb (pidle p))), work_submit_room (pstarted p) (pmax p), work_submit_owner (zb isown) with
    | Some idle, Some room, Some owner =>
        if idle then match pidle p with w :: _ => Some (p1, Some w, [FPostW w]) | [] => None end
        else if room then
          if owner then Some (p_set_started (pstarted p + 1) p1, None, [FCreate])
          else Some (p1, None, [FPostO EvNeeded])
        else Some (p1, None, [])
    | _, _, _ => None
    end
  else None.
Proof. exact cs_submit_is_the_code2. Qed.
Print Assumptions C12_submit_chain_is_the_code.

Theorem C12_completion_post_is_the_code :
  forall p w wr i last,
  cs_after p w wr i last =
  match work_done_was_empty (zb (nilb (pdone p))) with
  | Some was_empty =>
      match cs_loop (p_set_done (pdone p ++ [i]) p) w wr last with
      | None => None
      | Some (p', pc, e) => Some (p', pc, (if was_empty then [FPostO EvWork] else []) ++ e)
      end
  | None => None
  end.
Proof. exact cs_after_post_is_the_code. Qed.
Print Assumptions C12_completion_post_is_the_code.
