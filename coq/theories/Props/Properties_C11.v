(* Properties_C11.v -- property C11: iv_wait delivers every reaped status of a child to the interest
   registered for it, in order, the terminating status once; strangers are harmless; the kill helper never
   signals a reaped pid.  Statements only; proofs are `exact <lemma of MT/WaitProofs.v>`.

   Reading guide.  MT/WaitModel.v is a labelled transition system written after iv_wait.c; `reachable s` = s is
   the state after some label sequence accepted from `init`: any number of threads, interests and children,
   any order of status changes (the order wait4 reports them is whatever the WReap labels say), any
   interleaving admitted by iv_wait_lock.  w_hist / w_deliv are the ghost histories "reaped while the
   interest was in the tree" / "handed to the handler".  The implementation's logs are checked for
   acceptance by the extracted `step`, then by `monitor`. *)
From Coq Require Import List ZArith Bool.
From Ivv Require Import MT.WaitModel MT.WaitProofs.
From Ivv Require Gen.LeafWait MT.WaitLink.
Import ListNotations.
Local Open Scope Z_scope.

(* Routing.  (1) For every registered interest the statuses reaped for it are exactly: those delivered, then
   those stolen by the running completion, then those still queued -- same order.  (2) A reaped status is
   appended to the live interest registered for that pid and to no other; without one nothing changes.
   (3) The handler is called in the registering thread with the oldest undelivered status.  (4) When the
   registering thread has come to rest, delivered = reaped. *)
Theorem C11_routing :
  (forall s w, reachable s -> In w (ints s) -> w_hist w = w_deliv w ++ frame_list w ++ w_queue w) /\
  (forall s t pid st s', reachable s -> step s (WReap t pid st) = Some s' ->
     match find_pid pid (ints s) with
     | Some p => ints s' = upd_rec (w_id p) (set_reap st) (ints s) /\ w_pid p = pid /\ w_dead p = false
     | None => ints s' = ints s
     end) /\
  (forall s t id st s', step s (WDeliver t id st) = Some s' ->
     exists w rest, find id (ints s) = Some w /\ w_thr w = t /\ w_frame w = Some (st :: rest) /\
                    ints s' = upd_rec id (set_deliver st rest) (ints s)) /\
  (forall s t s' w, reachable s -> step s (WBlock t) = Some s' -> In w (ints s) -> w_thr w = t -> w_deliv w = w_hist w).
Proof. exact (conj routing_hist (conj routing_reap (conj routing_deliver routing_complete))). Qed.
Print Assumptions C11_routing.

(* The terminating status is the last one an interest ever gets: its history has at most one terminating
   status, in last position; a DEAD interest is not found in the tree any more (a recycled pid cannot reach
   it), and the kernel reports nothing further for the pid. *)
Theorem C11_terminal_once : forall s w, reachable s -> In w (ints s) ->
  ok_hist (w_dead w) (w_hist w) /\ (w_dead w = true -> find_pid (w_pid w) (ints s) <> Some w) /\
  (w_dead w = true -> forall t st, step s (WReap t (w_pid w) st) = None).
Proof. exact terminal_once. Qed.
Print Assumptions C11_terminal_once.

(* register_spawn: between the fork and the insertion the spawning thread holds iv_wait_lock, no reap step is
   possible in any thread, and the only step that ends the window is the insertion, after which the pid is
   found in the tree -- so no status change of a spawned child can be reaped without its interest. *)
Theorem C11_spawn_never_missed : forall s t id pid, reachable s -> spawning s = Some (t, id, pid) ->
  wlock s = Some t /\
  (forall u p st, step s (WReap u p st) = None) /\
  (forall l s', step s l = Some s' ->
     spawning s' = Some (t, id, pid) \/ (l = WInsert t id /\ find_pid pid (ints s') = Some (new_rec t id pid))).
Proof. exact spawn_window. Qed.
Print Assumptions C11_spawn_never_missed.

(* Children without interest: reaping them changes no interest, not the lock, and (on the fixed code) never
   faults, whatever the status. *)
Theorem C11_strangers_harmless :
  (forall s pid st, find_pid pid (ints s) = None ->
     exists s', reap_one true s pid st = Ok s' /\ ints s' = ints s /\ wlock s' = wlock s /\ spawning s' = spawning s) /\
  (forall s pid st, reap_one true s pid st <> Crash).
Proof. exact (conj strangers_harmless fixed_never_crashes). Qed.
Print Assumptions C11_strangers_harmless.

(* D1 as a modelled outcome: without the `p != NULL &&` guard a terminating stranger is a NULL dereference. *)
Example C11_strangers_regression :
  reap_one false {| ints := [new_rec 0 1 5001]; wlock := Some 0; reaped := []; spawning := None; kpend := []; draining := false |} 5002 9 = Crash /\
  reap_one false {| ints := [new_rec 0 1 5001]; wlock := Some 0; reaped := []; spawning := None; kpend := []; draining := false |} 5002 4991 <> Crash.
Proof. split; [reflexivity|discriminate]. Qed.

(* iv_wait_interest_kill calls kill() only while the termination of the pid has not been reaped (under the lock
   that the reaper holds while it reaps); otherwise it refuses (-ESRCH) -- and it refuses only then. *)
Theorem C11_kill_safe : forall s t id sig performed s', reachable s -> step s (WKill t id sig performed) = Some s' ->
  exists w, find id (ints s) = Some w /\ wlock s = Some t /\
    (performed = true -> w_dead w = false /\ mem (w_pid w) (reaped s) = false) /\
    (performed = false -> w_dead w = true /\ mem (w_pid w) (reaped s) = true).
Proof. exact kill_safe. Qed.
Print Assumptions C11_kill_safe.

(* Draining.  Ground truth enters through WChange (a child changed state; SIGCHLD was raised): wait4 reports only
   such changes, each once.  A reaper that has reaped something stays in its critical section (no step but a
   further reap or the end-of-drain WNone -- wait4 returned 0 / ECHILD -- clears `draining`, and the unlock needs
   it cleared), so one SIGCHLD drains everything; and when the whole process is at rest (WIdle) no live interest's
   child has an unreported change -- with C11_routing(4): every change of such a child has been delivered, and no
   such child is left a zombie.  (That the SIGCHLD reaches a reaper and the process does not rest before is
   C10 / C08: label WIdle, like WBlock.) *)
Theorem C11_drained :
  (forall s t pid st s', step s (WReap t pid st) = Some s' ->
     draining s' = true /\ mem_pair pid st (kpend s) = true /\ kpend s' = remove_first pid st (kpend s) /\ wlock s' = Some t) /\
  (forall s l s', draining s = true -> step s l = Some s' -> draining s' = true \/ exists t, l = WNone t) /\
  (forall s t s', step s (WNone t) = Some s' -> wlock s = Some t /\ draining s' = false /\ ints s' = ints s) /\
  (forall s t s', step s (WUnlock t) = Some s' -> draining s = false) /\
  (forall s t s' w, step s (WIdle t) = Some s' -> In w (ints s) -> w_dead w = false -> owes (w_pid w) (kpend s) = false).
Proof. exact (conj drain_reap (conj drain_persists (conj drain_none (conj drain_unlock idle_nothing_owed)))). Qed.
Print Assumptions C11_drained.

Theorem C11_invariant : forall s, reachable s -> Inv s.
Proof. exact reachable_inv. Qed.
Print Assumptions C11_invariant.

(* THE KEY OF THE INTEREST SET OF THE MODEL IS THE CODE.  Gen/LeafWait.v is regenerated on every run by gen/c2gallina.py from
   the clang AST of the current src/iv_wait.c: the whole comparator iv_wait_interest_compare of the tree iv_wait_interests and
   the two tests `pid == p->pid`, `pid < p->pid` of __iv_wait_interest_find.  The comparator is the three-way comparison of
   the pids, 0 exactly for equal pids (the tree holds at most one interest per pid: the model's find_pid looks up by
   w_pid); the hit test of the search is the model's `w_pid w =? pid`, and the search descends left exactly when the
   comparator puts a record with the searched pid before the node. *)
Theorem C11_compare_is_the_code :
  (forall a b : wrec, Ivv.Gen.LeafWait.wait_interest_compare (w_pid a) (w_pid b) =
     Some (if w_pid a <? w_pid b then -1 else if w_pid b <? w_pid a then 1 else 0)) /\
  (forall a b : wrec, Ivv.Gen.LeafWait.wait_interest_compare (w_pid a) (w_pid b) = Some 0 <-> w_pid a = w_pid b) /\
  (forall pid (w : wrec), Ivv.Gen.LeafWait.wait_find_hit pid (w_pid w) = Some (w_pid w =? pid)) /\
  (forall pid (w x : wrec), w_pid x = pid ->
     Ivv.Gen.LeafWait.wait_find_left pid (w_pid w) = Some true <->
     Ivv.Gen.LeafWait.wait_interest_compare (w_pid x) (w_pid w) = Some (-1)).
Proof. exact Ivv.MT.WaitLink.wait_link_all. Qed.
Print Assumptions C11_compare_is_the_code.

Theorem C11_monitor_accepts : forall ls, accepts ls = true -> monitor ls = true.
Proof. exact monitor_accepts. Qed.
Print Assumptions C11_monitor_accepts.

(* Non-vacuity: two threads, three children.  Thread 0 spawns child 5001 (interest 1); thread 1 registers
   interest 101 for stranger 5002; stranger 5003 has no interest.  Thread 1 reaps: 5002 stopped, 5003 exited
   (stranger), 5001 exited; thread 0's completion delivers the exit of 5001 while thread 1 is still inside
   its critical section reaping; the kill helper is refused for 1 and performed for 101; 5002 continues and
   is killed; thread 1 delivers stop, continue, kill in order and unregisters from the handler. *)
Definition ex_trace : list label :=
  [WLock 0; WFork 0 1 5001; WInsert 0 1; WUnlock 0;
   WLock 1; WReg 1 101 5002; WUnlock 1;
   WChange 9 5002 4991; WChange 9 5003 768; WChange 9 5001 0;
   WLock 1; WReap 1 5002 4991; WReap 1 5003 768; WReap 1 5001 0; WNone 1; WUnlock 1;
   WLock 0; WSteal 0 1; WUnlock 0;
   WChange 9 5002 65535;
   WLock 1; WReap 1 5002 65535;
   WDeliver 0 1 0;
   WChange 9 5002 9;
   WReap 1 5002 9; WNone 1; WUnlock 1;
   WLock 0; WKill 0 1 15 false; WUnlock 0;
   WLock 1; WSteal 1 101; WUnlock 1;
   WDeliver 1 101 4991; WDeliver 1 101 65535; WDeliver 1 101 9;
   WLock 1; WKill 1 101 15 false; WUnlock 1;
   WLock 1; WUnreg 1 101; WUnlock 1;
   WBlock 0; WBlock 1; WIdle 0].

Example C11_nonvacuous :
  accepts ex_trace = true /\ monitor ex_trace = true /\
  match run init ex_trace with
  | Some s => map (fun w => (w_id w, w_dead w, w_hist w, w_deliv w)) (ints s) = [(1, true, [0], [0])] /\
              reaped s = [5002; 5001; 5003]
  | None => False
  end.
Proof. vm_compute. repeat split; reflexivity. Qed.

(* ---- tie (a), round 9 (MT/WaitLink.v; Gen/Leaf.v and Gen/LeafWait.v are re-translated from src/iv_wait.c on every run):
   the model's notion of a terminal status IS iv_wait_status_dead of the source; the reaper asks wait4 for any child,
   non-blocking, including stopped and continued ones; a status is routed iff the interest was found; the kill helper is
   guarded by the DEAD flag as the model's WKill label demands ---- *)
From Ivv Require Import MT.WaitLink.
From Ivv Require Gen.Leaf Gen.LeafWait.

Theorem C11_status_dead_is_the_code :
  forall st, 0 <= st -> Leaf.iv_wait_status_dead st = (if is_dead st then 1 else 0).
Proof. exact status_dead_is_the_code. Qed.
Print Assumptions C11_status_dead_is_the_code.

Theorem C11_reaper_call_is_the_code :
  LeafWait.wait_reap_which tt = Some (-1) /\ LeafWait.wait_reap_opts tt = Some 11.
Proof. exact leaf_reap_call. Qed.
Print Assumptions C11_reaper_call_is_the_code.

Theorem C11_kill_guard_is_the_code :
  forall s t id sig performed w,
  find id (ints s) = Some w ->
  (step s (WKill t id sig performed) <> None ->
   LeafWait.wait_kill_alive (if w_dead w then 1 else 0) = Some performed).
Proof. exact kill_guard_is_the_code. Qed.
Print Assumptions C11_kill_guard_is_the_code.
