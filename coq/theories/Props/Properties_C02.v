(* Properties_C02.v -- property C02: Descriptor readiness is never lost: no sleeping on a wanted, ready fd.  Statements only.
   Every theorem quantifies over ALL well-formed scenarios: all handler scripts, all kernel behaviours the scenario
   language can express, all four poll methods, all fault sets, any wait limit.
   STATUS: the full statement of this property on the core model is `mon_C02 (run_scenario sc) = true`
   (see Properties_C02.v.draft); the theorems below are the monitor clauses already proved (named _partial);
   the remaining clauses (201 202 203 204, 1104) are checked on every implementation AND model trace by the extracted monitor
   while their proofs are being completed. *)
From Coq Require Import List ZArith Bool.
From Ivv Require Import Core.Kernel Core.CoreTypes Core.CoreFd Core.CoreModel Core.Monitors Core.CoreSpec
  Core.CoreRel Core.CoreCodes Base.LeafLink.
Import ListNotations.
Local Open Scope Z_scope.

(* the event masks and the wanted-band computation used by the model are those of the C functions, which are
   re-translated from the current source by gen/c2gallina.py on every run *)
Theorem C02_epoll_mask_is_the_code :
  forall bits, Ivv.Gen.Leaf.epoll_bits_to_poll_mask bits = recode_epoll (epoll_mask bits).
Proof. exact leaf_epoll_mask. Qed.
Print Assumptions C02_epoll_mask_is_the_code.

Theorem C02_poll_mask_is_the_code :
  forall bits, Ivv.Gen.Leaf.poll_bits_to_poll_mask bits = recode_poll (poll_mask bits).
Proof. exact leaf_poll_mask. Qed.
Print Assumptions C02_poll_mask_is_the_code.

Theorem C02_wanted_is_the_code :
  forall f : fdo, snd (Ivv.Gen.Leaf.recompute_wanted_flags (if registered f then 1 else 0) (hflag (h_in f)) (hflag (h_out f)) (hflag (h_err f))) = wanted (recompute_wanted f).
Proof. exact leaf_recompute_wanted. Qed.
Print Assumptions C02_wanted_is_the_code.

(* handlers are called through the pointer currently set (so a handler installed, removed and re-installed is the one called) *)
Theorem C02_current_handler_partial :
  forall sc, wf_scenario sc -> no_code [301] (mon_fails (run_scenario sc)).
Proof. intros sc Hwf. eapply no_code_sub; [|exact (codes_handlers sc Hwf)]. simpl; intros c Hc; intuition. Qed.
Print Assumptions C02_current_handler_partial.

