(* Properties_C02.v -- property C02: Descriptor readiness is never lost: no sleeping on a wanted, ready fd.  Statements only.
   Every theorem quantifies over ALL well-formed scenarios: all handler scripts, all kernel behaviours the scenario
   language can express (conditions changed at any point, ready order rotations, external posts), all four poll
   methods, all fault sets (EINTR at any wait / epoll_ctl, missing system calls), any wait limit. *)
From Coq Require Import List ZArith Bool Lia.
From Ivv Require Import Core.Kernel Core.CoreTypes Core.CoreFd Core.CoreModel Core.Monitors Core.GuardMon Core.CoreSpec
  Core.CoreInv Core.CoreRel Core.CorePhase2Fd Core.CoreExamples Base.LeafLink.
Import ListNotations.
Local Open Scope Z_scope.

Definition no_code (codes : list Z) (tr : list Z) : Prop := forall c, In c tr -> ~ In c codes.

(* the trace monitor of C02: at every kernel wait the kernel-side interest of the user descriptors equals the bands
   with handlers (201); a wanted ready descriptor never lets the loop sleep (202); it is unreported only when the
   batch is full (203); everything reported is dispatched unless cleared/unregistered earlier in the iteration (204) *)
Theorem C02_readiness_never_lost :
  forall sc, wf_scenario sc -> mon_C02 (run_scenario sc) = true.
Proof. exact core_mon_C02. Qed.
Print Assumptions C02_readiness_never_lost.

(* no kernel interest entry survives the unregistration of its descriptor object (guard monitor clause 1104) *)
Theorem C02_no_stale_kernel_interest :
  forall sc, wf_scenario sc -> no_code [1104] (gmon_fails sc (run_scenario sc)).
Proof. exact core_gmon_1104. Qed.
Print Assumptions C02_no_stale_kernel_interest.

(* the event masks handed to the kernel are those of the translated C functions (regenerated from the source) *)
Theorem C02_epoll_mask_is_the_code :
  forall bits, Ivv.Gen.Leaf.epoll_bits_to_poll_mask bits = recode_epoll (epoll_mask bits).
Proof. exact leaf_epoll_mask. Qed.
Print Assumptions C02_epoll_mask_is_the_code.

Theorem C02_poll_mask_is_the_code :
  forall bits, Ivv.Gen.Leaf.poll_bits_to_poll_mask bits = recode_poll (poll_mask bits).
Proof. exact leaf_poll_mask. Qed.
Print Assumptions C02_poll_mask_is_the_code.

Theorem C02_wanted_is_the_code :
  forall f : fdo, snd (Ivv.Gen.Leaf.recompute_wanted_flags (if registered f then 1 else 0) (hflag (h_in f)) (hflag (h_out f)) (hflag (h_err f))) = wanted (recompute_wanted f).
Proof. exact leaf_recompute_wanted. Qed.
Print Assumptions C02_wanted_is_the_code.

(* non-vacuity: a well-formed run on every poll method in which a descriptor becomes readable during a wait, is
   reported and dispatched, and all monitors (incl. 201-204, 1104) are silent *)
Example C02_nonvacuous :
  forall be, In be [0; 1; 2; 3] ->
    wf_scenario (ex_all be) /\ In (TCallFd 0 0 1 7) (run_scenario (ex_all be)) /\
    mon_fails (run_scenario (ex_all be)) = [] /\ gmon_fails (ex_all be) (run_scenario (ex_all be)) = [].
Proof.
  intros be H. split; [apply ex_all_wf; cbn [In] in H; intuition lia|].
  pose proof (ex_all_runs be H) as R. cbv zeta in R. tauto.
Qed.

(* ---- tie (a): the decision points the model uses at this place ARE the current C text (Core/CoreLeafLink.v;
   Gen/LeafCore*.v is re-translated from /repo/src by gen/c2gallina.py on every run of this check) ---- *)
From Ivv Require Import Base.CSem Gen.LeafCoreFd Gen.LeafCoreTask Gen.LeafCoreMain Gen.LeafCoreEpoll Gen.LeafCorePoll Core.CoreLeafLink.

(* which bands a reported event mask makes ready (epoll and poll back ends), the kernel-interest update of the epoll
   back end and the slot bookkeeping of the poll back end are built from the translated tests of the C functions *)
Theorem C02_activate_is_the_code_epoll :
  forall s k bits, 0 <= bits < 16 -> activate_with core_ep_in core_ep_out core_ep_err s k bits = Some (activate s k bits).
Proof. exact activate_is_the_code_epoll. Qed.
Print Assumptions C02_activate_is_the_code_epoll.

Theorem C02_activate_is_the_code_poll :
  forall s k bits, 0 <= bits < 16 -> activate_with core_po_in core_po_out core_po_err s k bits = Some (activate s k bits).
Proof. exact activate_is_the_code_poll. Qed.
Print Assumptions C02_activate_is_the_code_poll.

Theorem C02_flush_op_is_the_code :
  forall r w, flush_op_code r w = Some (flush_op_model r w).
Proof. exact flush_op_is_the_code. Qed.
Print Assumptions C02_flush_op_is_the_code.

Theorem C02_poll_branch_is_the_code :
  forall idx w, pn_branch_code idx w = Some (pn_branch_model idx w).
Proof. exact pn_branch_is_the_code. Qed.
Print Assumptions C02_poll_branch_is_the_code.

(* iv_fd_epoll_unregister_fd flushes the pending kernel-interest change iff the descriptor is on the notify list *)
From Ivv Require Import Gen.LeafCoreEvent Gen.LeafCoreLists.
Theorem C02_epoll_unregister_fd_is_the_code :
  forall s k,
  match core_unreg_flush (b2z (negb (mem_z k (notify s)))) with
  | Some flush => Some (if flush then epoll_flush_one s k else R s)
  | None => None
  end = Some (epoll_unregister_fd s k).
Proof. exact epoll_unregister_fd_is_the_code. Qed.
Print Assumptions C02_epoll_unregister_fd_is_the_code.
