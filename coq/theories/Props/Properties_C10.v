(* Properties_C10.v -- property C10: iv_signal delivers every signal to the registered interests with the
   documented fan-out.  Statements only; proofs are `exact <lemma of MT/Signal{Proofs,Facts,Mon}.v>`.

   Reading guide.  MT/SignalModel.v is a labelled transition system written after iv_signal.c; `reachable s`
   = s is the state after some label sequence accepted from `init` -- ANY number of threads and interests,
   any flags, any interleaving of register / unregister / deliveries / event callbacks that the explicit
   sig_lock and the per-thread handler stages admit.  The implementation's logs (real library, real
   threads under the baton scheduler) are checked for acceptance by the extracted `step`.
   `sel cs` is the documented selection: the first exclusive interest of cs if there is one, else all. *)
From Coq Require Import List ZArith Bool.
From Ivv Require Import MT.SignalModel MT.SignalProofs MT.SignalFacts MT.SignalMon.
From Ivv Require Gen.LeafSignal MT.SignalLink.
Import ListNotations.
Local Open Scope Z_scope.

(* The selection spelled out: either no candidate is exclusive and all are selected, or exactly the first
   exclusive one (in comparator order: signum, exclusive first, address) is. *)
Theorem C10_selection_spec : forall cs,
  (forall e, In e cs -> i_excl e = false) /\ sel cs = map i_id cs \/
  (exists pre e post, cs = pre ++ e :: post /\ i_excl e = true /\ (forall x, In x pre -> i_excl x = false) /\ sel cs = [i_id e]).
Proof. exact sel_spec. Qed.
Print Assumptions C10_selection_spec.

(* Fan-out.  A delivery of sig to thread t (in the process that owns the interests) selects among the
   this-thread interests of t for sig if there are any -- the handler then posts exactly that list -- and
   otherwise must take sig_lock and then posts exactly the selection among the process-wide interests;
   every post marks the interest active and posts its raw event, in list order; the handler can return
   only when the list is exhausted.  Members of a selection belong to the right scope (never another
   thread's this-thread set). *)
Theorem C10_fanout :
  (forall s t sig s', reachable s -> regs s <> [] -> step s (LSigEnter t sig false) = Some s' ->
     regs s' = regs s /\
     stg s' t = match sel_plan (Some t) sig (regs s) with [] => SNeedLock sig | p => SThr p end) /\
  (forall s t sig s', reachable s -> stg s t = SNeedLock sig -> step s (LLock t) = Some s' ->
     regs s' = regs s /\ stg s' t = SProc (sel_plan None sig (regs s)) /\ lock s' = Some t) /\
  (forall s t id s', step s (LPost t id) = Some s' ->
     regs s' = upd_rec id set_post (regs s) /\
     exists p, (stg s t = SThr (id :: p) /\ stg s' t = SThr p) \/ (stg s t = SProc (id :: p) /\ stg s' t = SProc p) \/
               (stg s t = SUnreg (id :: p) /\ stg s' t = SUnreg p)) /\
  (forall s t s', step s (LSigExit t) = Some s' -> stg s t = SThr [] \/ stg s t = SExit) /\
  (forall s t s', step s (LUnlock t) = Some s' -> stg s t = SIdle \/ stg s t = SProc [] \/ stg s t = SUnreg []) /\
  (forall sc sig l id, In id (sel_plan sc sig l) ->
     exists r, In r l /\ i_id r = id /\ i_sig r = sig /\ in_scope sc r = true).
Proof.
  exact (conj fanout_enter (conj fanout_lock (conj fanout_post (conj fanout_exit (conj fanout_unlock sel_plan_scope))))).
Qed.
Print Assumptions C10_fanout.

(* Every delivery is handled.  (1) a marked interest always has an unread post or its event callback is
   between the read and the clearing of `active`; (2) a thread that blocks in its kernel wait has no marked
   interest; (3) every post to an interest -- from a delivery or a hand-off, also one arriving while its
   handler runs -- is followed by a run of its handler, or by its unregistration, before the registering
   thread can block.  (That a thread with a readable raw event does not block is C02/C09: label LBlock.) *)
Theorem C10_every_delivery_handled :
  (forall s r, reachable s -> In r (regs s) -> i_active r = true -> 0 < i_cnt r \/ i_phase r = POwed) /\
  (forall s t s' r, reachable s -> step s (LBlock t) = Some s' -> In r (regs s) -> i_thr r = t -> i_active r = false) /\
  (forall s u id s1 r ls s2 s3, reachable s -> step s (LPost u id) = Some s1 -> find id (regs s1) = Some r ->
     run s1 ls = Some s2 -> step s2 (LBlock (i_thr r)) = Some s3 -> existsb (serves id) ls = true).
Proof. exact (conj marked_is_owed (conj block_nothing_marked every_delivery_handled)). Qed.
Print Assumptions C10_every_delivery_handled.

(* Hand-off.  Unregistering an exclusive interest whose delivery is still noted (`active`) while another interest
   for the signal is registered -- in its own tree or, for a this-thread interest, among the process-wide ones --
   hands the delivery over: the posts that follow are the selection among the remaining interests of its own
   tree if that is not empty, otherwise (this-thread interest) the selection among the process-wide interests;
   never the empty list.  This is what iv_signal_handler would have chosen without the unregistered interest.
   (True since the fix of D5, commit "fix: hand a pending exclusive this-thread signal delivery over to
   process-wide interests".) *)
Theorem C10_exclusive_handoff :
  forall s t id sa s' r r', reachable s -> step s (LUnreg t id sa) = Some s' -> find id (regs s) = Some r ->
    i_excl r = true -> i_active r = true ->
    In r' (regs s) -> i_id r' <> id -> i_sig r' = i_sig r -> (in_scope (scope_of r) r' = true \/ i_tt r' = false) ->
    exists p, stg s' t = SUnreg p /\ p <> [] /\ regs s' = remove id (regs s) /\
      p = match sel_plan (scope_of r) (i_sig r) (remove id (regs s)) with
          | [] => sel_plan None (i_sig r) (remove id (regs s))
          | q => q
          end.
Proof. exact handoff_any_scope. Qed.
Print Assumptions C10_exclusive_handoff.

(* ... in particular inside one tree: *)
Theorem C10_exclusive_handoff_same_scope : forall s t id sa s' r r', reachable s ->
  step s (LUnreg t id sa) = Some s' -> find id (regs s) = Some r ->
  i_excl r = true -> i_active r = true ->
  In r' (regs s) -> i_id r' <> id -> i_sig r' = i_sig r -> in_scope (scope_of r) r' = true ->
  exists p, stg s' t = SUnreg p /\ p = sel_plan (scope_of r) (i_sig r) (remove id (regs s)) /\ p <> [] /\
            regs s' = remove id (regs s).
Proof. exact handoff_same_scope. Qed.
Print Assumptions C10_exclusive_handoff_same_scope.

(* D5 as a regression: the step function of the code BEFORE the fix (step_gen false) accepts d5_trace -- interest 1
   exclusive process-wide, interest 2 exclusive this-thread, a delivery marks 2, 2 is unregistered before its
   handler ran, nothing is posted, the thread blocks, no handler ever runs -- which the full-strength monitor
   rejects (the weaker same-scope reading, monitor false, lets it pass).  The current code does not produce that
   trace; it produces d5_fixed_trace (the delivery reaches interest 1), accepted by model and monitor. *)
Example C10_handoff_cross_scope_regression :
  accepts_gen false d5_trace = true /\ monitor true d5_trace = false /\ monitor false d5_trace = true /\
  accepts d5_trace = false /\
  accepts d5_fixed_trace = true /\ monitor true d5_fixed_trace = true /\ accepts_gen false d5_fixed_trace = false /\
  existsb (fun l => match l with LHandler _ _ => true | _ => false end) d5_trace = false.
Proof. exact d5_regression. Qed.

(* The disposition of a signal is SIG_DFL iff no interest is registered for it (in any scope). *)
Theorem C10_default_restored : forall s sig, reachable s ->
  total s sig = count_sig sig (regs s) /\ (disp s sig = false <-> total s sig = 0).
Proof. exact default_restored. Qed.
Print Assumptions C10_default_restored.

(* A delivery in a forked child (pid <> sig_owner_pid) marks and posts nothing; a child that resets
   (iv_signal_child_reset_postfork) has empty sets, zero counts and default dispositions. *)
Theorem C10_fork_isolated :
  (forall s t sig s', step s (LSigEnter t sig true) = Some s' ->
     regs s' = regs s /\ stg s' t = SExit /\ forall id, step s' (LPost t id) = None) /\
  (forall s, regs (child_reset_postfork s) = [] /\ owner (child_reset_postfork s) = false /\
     (forall sg, total (child_reset_postfork s) sg = 0) /\
     (forall sg, 0 < total s sg -> disp (child_reset_postfork s) sg = false)).
Proof. exact (conj fork_isolated child_reset_empty). Qed.
Print Assumptions C10_fork_isolated.

(* Signals are blocked where they must be.  sig_lock is held by a thread only (a) outside iv_signal_handler with all
   signals blocked by that thread (spin_lock_sigmask; iv_signal_event blocks them around the clearing of `active`),
   or (b) inside iv_signal_handler / the hand-off of iv_signal_unregister; and iv_signal_handler is installed with a
   full sa_mask (label LSaMask is accepted only with full = true), so it runs with every signal blocked.  Hence no
   delivery can interrupt the holder of sig_lock and spin on it.  (The acceptor enforces both on the logs: a lock
   taken with an open mask, or a handler installed with a partial sa_mask, is rejected -- and the monitor fails.) *)
Theorem C10_signals_blocked :
  (forall s, reachable s -> forall t, lock s = Some t ->
     match stg s t with
     | SIdle | SExit => masked s t = true
     | SThr _ | SNeedLock _ => False
     | SProc _ | SUnreg _ => True
     end) /\
  (forall s t sig s', step s (LSaMask t sig false) = Some s' -> False) /\
  (forall s t s', step s (LLock t) = Some s' -> stg s t = SIdle -> masked s t = true).
Proof.
  split; [exact lock_masked_inv|]. split.
  - intros s t sig s' H. discriminate H.
  - intros s t s' H Hs. simpl in H. rewrite Hs in H. destruct (lock s); [discriminate|]. destruct (masked s t); [reflexivity|discriminate].
Qed.
Print Assumptions C10_signals_blocked.

(* Structural invariant of every reachable state (G1 of DESIGN A.8, lock discipline). *)
Theorem C10_invariant : forall s, reachable s -> Inv s.
Proof. exact reachable_inv. Qed.
Print Assumptions C10_invariant.

(* THE ORDER OF THE INTEREST SETS OF THE MODEL IS THE CODE.  Gen/LeafSignal.v is regenerated on every run by gen/c2gallina.py
   from the clang AST of the current src/iv_signal.c: the whole function iv_signal_compare (signum, then the
   IV_SIGNAL_FLAG_EXCLUSIVE bit of ->flags -- exclusive first --, then the address of the struct; pointer comparison =
   comparison of addresses; None = null dereference).  For all records with non-null addresses and all flag words whose bit 0
   is i_excl it returns -1 exactly when lt_rec a b (the order `insert` of MT/SignalModel.v keeps the interest list in), 1
   exactly when lt_rec b a, and 0 only for equal (signum, exclusive, address). *)
Theorem C10_compare_is_the_code :
  (forall a b fa fb, i_addr a <> 0 -> i_addr b <> 0 -> Z.odd fa = i_excl a -> Z.odd fb = i_excl b ->
     Ivv.Gen.LeafSignal.signal_compare (i_addr a) (i_sig a) (i_addr b) (i_sig b) fa fb =
     Some (if lt_rec a b then -1 else if lt_rec b a then 1 else 0)) /\
  (forall a b fa fb, i_addr a <> 0 -> i_addr b <> 0 -> Z.odd fa = i_excl a -> Z.odd fb = i_excl b ->
     (Ivv.Gen.LeafSignal.signal_compare (i_addr a) (i_sig a) (i_addr b) (i_sig b) fa fb = Some (-1) <-> lt_rec a b = true)) /\
  (forall a b fa fb, i_addr a <> 0 -> i_addr b <> 0 -> Z.odd fa = i_excl a -> Z.odd fb = i_excl b ->
     Ivv.Gen.LeafSignal.signal_compare (i_addr a) (i_sig a) (i_addr b) (i_sig b) fa fb = Some 0 ->
     i_sig a = i_sig b /\ i_excl a = i_excl b /\ i_addr a = i_addr b).
Proof. exact Ivv.MT.SignalLink.signal_link_all. Qed.
Print Assumptions C10_compare_is_the_code.

(* The full-strength monitor run on implementation logs accepts every label sequence of the model. *)
Theorem C10_monitor_accepts : forall ls, accepts ls = true -> monitor true ls = true.
Proof. exact monitor_accepts. Qed.
Print Assumptions C10_monitor_accepts.

(* Non-vacuity: two threads.  Thread 0: process-wide shared interest 1 and exclusive this-thread interest 2
   for signal 10; thread 1: process-wide shared interest 101 and exclusive this-thread interests 102, 103.
   Deliveries to both threads overlap (each reaches only its own first exclusive this-thread interest);
   102's handler runs; a delivery DURING that handler re-marks 102, which is then unregistered while active:
   the delivery is handed to 103 (same tree); 103 handles it and is unregistered; the next delivery to
   thread 1 finds its thread set empty and falls back to the process set (1 and 101, under sig_lock). *)
Definition ex_trace : list label :=
  [LMask 0 true; LLock 0; LSaMask 0 10 true; LReg 0 1 10 false false 1000 (Some true); LUnlock 0;
   LMask 0 false; LMask 1 true; LLock 1; LReg 1 101 10 false false 3000 None; LUnlock 1; LMask 1 false;
   LMask 0 true; LLock 0; LReg 0 2 10 true true 2000 None; LUnlock 0; LMask 0 false; LMask 1 true; LLock 1;
   LReg 1 102 10 true true 4000 None; LUnlock 1; LMask 1 false; LMask 1 true; LLock 1;
   LReg 1 103 10 true true 5000 None; LUnlock 1; LMask 1 false; LSigEnter 1 10 false; LSigEnter 0 10 false;
   LPost 1 102; LPost 0 2; LSigExit 0; LSigExit 1; LRead 1 102; LClear 1 102; LHandler 1 102;
   LSigEnter 1 10 false; LPost 1 102; LSigExit 1; LRead 0 2; LClear 0 2; LHandler 0 2; LMask 1 true; LLock 1;
   LUnreg 1 102 None; LPost 1 103; LUnlock 1; LMask 1 false; LRead 1 103; LClear 1 103; LHandler 1 103;
   LMask 1 true; LLock 1; LUnreg 1 103 None; LUnlock 1; LMask 1 false; LSigEnter 1 10 false; LLock 1;
   LPost 1 1; LPost 1 101; LUnlock 1; LSigExit 1; LRead 0 1; LMask 0 true; LLock 0; LClear 0 1; LUnlock 0;
   LMask 0 false; LHandler 0 1; LRead 1 101; LMask 1 true; LLock 1; LClear 1 101; LUnlock 1; LMask 1 false;
   LHandler 1 101; LBlock 0; LBlock 1].

Example C10_nonvacuous :
  accepts ex_trace = true /\ monitor true ex_trace = true /\
  match run init ex_trace with
  | Some s => map i_id (regs s) = [2; 1; 101] /\ total s 10 = 3 /\ disp s 10 = true
  | None => False
  end.
Proof. vm_compute. repeat split; reflexivity. Qed.

(* ---- tie (a), round 9: the fan-out walk of __iv_signal_do_wake, written with the tests and stores translated from the
   current src/iv_signal.c (Gen/LeafSignal.v), selects exactly `walk` of the model: every interest of the signal in tree
   order up to and including the first exclusive one, and counts them (MT/SignalLink.v) ---- *)
Theorem C10_fan_out_walk_is_the_code :
  forall sig same rest woken,
  (forall r, In r same -> i_sig r = sig /\ i_addr r <> 0) ->
  (match rest with [] => True | r :: _ => i_sig r <> sig /\ i_addr r <> 0 end) ->
  0 <= woken -> woken + Z.of_nat (length same) < 2147483648 ->
  SignalLink.do_wake_code sig (same ++ rest) woken = Some (walk same, woken + Z.of_nat (length (walk same))).
Proof. exact SignalLink.do_wake_is_the_code. Qed.
Print Assumptions C10_fan_out_walk_is_the_code.
