(* Properties_C14.v -- property C14: cross-thread entry points have no unsynchronised conflicting
   accesses (other than idempotent one-way feature-detection flags).  Statements only; every proof
   is `exact <lemma of MT/Conflict*.v or Core/OneWayFlags.v>`.

   A data race is a statement about the C memory model, which no Gallina model executes; the
   implementation-side observation is ThreadSanitizer (lib/c14.py).  What is proved here is the
   DISCIPLINE that excludes races, on the multi-threaded transition systems of C08 (iv_event),
   C10 (iv_signal), C11 (iv_wait) and C12/C13 (iv_work), whose labels are the steps between two log
   points of the baton-scheduler log, and the one-way property of the feature-detection flags on the
   sequential core model.

   Reading guide (MT/Conflict.v).  Every label has a footprint `fp s l : list (var * bool)` -- the
   shared C variables the code between the two log points reads (false) / writes (true); the tables
   and their justification against the C text are the header comments of MT/Conflict<Model>.v.
   Every variable has a class `cls s v`:
     ByLock k       accessed only inside critical sections of lock k
     ByThread t     accessed only by thread t
     OwnerLock k t  written only by t inside critical sections of k; read by t anywhere, by others
                    only inside critical sections of k
     Extern         a kernel object, or a variable synchronised by another component (its own model)
     OneWay         idempotent one-way flag
   `disciplined actor holder mode cls fp s l s'` says that the step s -l-> s' respects the classes of
   everything in its footprint: for ByLock k the acting thread holds k while it performs the accesses
   (`held`: a lock-call label takes the FREE lock and the accesses are those of the critical section
   that follows; an unlock label holds it before; any other label holds it before and after).
   Consequences proved once for every transition system (MT/Conflict.v) and instantiated below:
   lock discipline along every accepted sequence; two steps of distinct threads that touch the same
   variable are never both enabled -- except two lock calls on the same free lock, and then
   performing either one disables the other (the models compute a critical section in its lock-call
   step, so this is the only form in which "both want to enter" shows up); inside a critical section
   no other thread changes a protected variable; the footprints list every variable a step changes
   (`unchanged v s s'` for every v not written by fp s l), so they cannot be chosen too small. *)
From Coq Require Import List ZArith Bool Arith.
From Ivv Require Import MT.Conflict.
From Ivv Require MT.EventMT MT.ConflictEvent MT.SignalModel MT.SignalProofs MT.ConflictSignal
                 MT.WaitModel MT.WaitProofs MT.ConflictWait MT.WorkMT MT.ConflictWork.
From Ivv Require Import Core.Kernel Core.CoreTypes Core.CoreFd Core.CoreModel Core.OneWayFlags.
Import ListNotations.

(* ================================ iv_event (C08 model) ================================ *)
Module Ev.
Import MT.EventMT MT.ConflictEvent.

Theorem C14_event_lock_discipline :
  forall o r pre l post send, exec (init o r) (pre ++ l :: post) = Some send ->
    exists s s', exec (init o r) pre = Some s /\ step s l = Some s' /\
                 disciplined actor holder mode cls fp s l s'.
Proof. exact event_lock_discipline. Qed.
Print Assumptions C14_event_lock_discipline.

Theorem C14_event_no_concurrent_conflict :
  forall o r ls s l1 l2 t1 t2 s1 s2 v w1 w2,
    exec (init o r) ls = Some s ->
    actor s l1 = Some t1 -> actor s l2 = Some t2 -> t1 <> t2 ->
    step s l1 = Some s1 -> step s l2 = Some s2 ->
    In (v, w1) (fp s l1) -> In (v, w2) (fp s l2) ->
    match cls s v with
    | ByLock _ => (exists u1 u2, l1 = LLock u1 /\ l2 = LLock u2) /\ lock s = None /\
                  lock s1 = Some t1 /\ lock s2 = Some t2 /\ step s1 l2 = None /\ step s2 l1 = None
    | ByThread _ => False
    | _ => True
    end.
Proof. exact event_no_concurrent_conflict. Qed.
Print Assumptions C14_event_no_concurrent_conflict.

Theorem C14_event_cs_stable :
  forall o r ls s l s' v, exec (init o r) ls = Some s -> step s l = Some s' ->
    match cls s v with
    | ByLock _ => forall t, lock s = Some t -> actor s l <> Some t -> unchanged v s s'
    | ByThread t => actor s l <> Some t -> unchanged v s s'
    | _ => True
    end.
Proof. exact event_cs_stable. Qed.
Print Assumptions C14_event_cs_stable.

Theorem C14_event_footprints_sound :
  forall s l s' v, step s l = Some s' -> ~ writes (fp s l) v -> unchanged v s s'.
Proof. exact step_writes_sound. Qed.
Print Assumptions C14_event_footprints_sound.

Example C14_event_nonvacuous :
  accepts 0 false ex_trace = true /\
  (exists s s1 s0, exec (init 0 false) ex_prefix = Some s /\
     step s (LLock 1) = Some s1 /\ step s (LLock 0) = Some s0 /\
     conflict var_eqb (fp s (LLock 1)) (fp s (LLock 0)) = true /\
     step s1 (LLock 0) = None /\ step s0 (LLock 1) = None /\
     pending s1 = [5] /\ lock s1 = Some 1).
Proof. exact event_nonvacuous. Qed.
End Ev.

(* ================================ iv_signal (C10 model) ================================ *)
Module Sg.
Import MT.SignalModel MT.SignalProofs MT.ConflictSignal.
Local Open Scope Z_scope.

Theorem C14_signal_lock_discipline :
  forall pre l post send, run init (pre ++ l :: post) = Some send ->
    exists s s', run init pre = Some s /\ step s l = Some s' /\
                 disciplined actor holder mode cls fp s l s'.
Proof. exact signal_lock_discipline. Qed.
Print Assumptions C14_signal_lock_discipline.

Theorem C14_signal_no_concurrent_conflict :
  forall s l1 l2 s1 s2 v w1 w2,
    reachable s -> lthr l1 <> lthr l2 ->
    step s l1 = Some s1 -> step s l2 = Some s2 ->
    In (v, w1) (fp s l1) -> In (v, w2) (fp s l2) ->
    match cls s v with
    | ByLock _ => l1 = LLock (lthr l1) /\ l2 = LLock (lthr l2) /\ lock s = None /\
                  lock s1 = Some (lthr l1) /\ lock s2 = Some (lthr l2) /\ step s1 l2 = None /\ step s2 l1 = None
    | ByThread _ => False
    | _ => True
    end.
Proof. exact signal_no_concurrent_conflict. Qed.
Print Assumptions C14_signal_no_concurrent_conflict.

Theorem C14_signal_cs_stable :
  forall s l s' v, reachable s -> step s l = Some s' ->
    match cls s v with
    | ByLock _ => forall t, lock s = Some t -> lthr l <> t -> unchanged v s s'
    | ByThread t => lthr l <> t -> unchanged v s s'
    | _ => True
    end.
Proof. exact signal_cs_stable. Qed.
Print Assumptions C14_signal_cs_stable.

Theorem C14_signal_footprints_sound :
  forall s l s' v, reachable s -> step s l = Some s' -> ~ writes (fp s l) v -> unchanged v s s'.
Proof. exact step_writes_sound. Qed.
Print Assumptions C14_signal_footprints_sound.

(* sig_owner_pid (the one variable of this model in class OneWay): never goes back, and in every
   state in which iv_signal_handler can be entered -- and read it without the lock -- it is already
   set and no step of any thread changes it *)
Theorem C14_signal_owner_pid_one_way :
  (forall s l s', step s l = Some s' -> owner s = true -> owner s' = true) /\
  (forall s t sig child s1 l s2, reachable s ->
     step s (LSigEnter t sig child) = Some s1 -> step s l = Some s2 -> owner s = true /\ owner s2 = owner s).
Proof. exact (conj owner_monotone owner_one_way). Qed.
Print Assumptions C14_signal_owner_pid_one_way.

Example C14_signal_nonvacuous :
  accepts ex_trace = true /\
  (exists s s1, run init ex_prefix = Some s /\
     step s (LLock 0) <> None /\ step s (LLock 1) = Some s1 /\
     conflict var_eqb (fp s1 (LPost 1 1)) (fp s1 (LClear 0 1)) = true /\
     cls s1 (VActive 1) = ByLock tt /\
     step s1 (LPost 1 1) <> None /\ step s1 (LClear 0 1) = None /\ step s1 (LLock 0) = None).
Proof. exact signal_nonvacuous. Qed.
End Sg.

(* ================================ iv_wait (C11 model) ================================ *)
Module Wt.
Import MT.WaitModel MT.WaitProofs MT.ConflictWait.
Local Open Scope Z_scope.

Theorem C14_wait_lock_discipline :
  forall pre l post send, run init (pre ++ l :: post) = Some send ->
    exists s s', run init pre = Some s /\ step s l = Some s' /\
                 disciplined actor holder mode cls fp s l s'.
Proof. exact wait_lock_discipline. Qed.
Print Assumptions C14_wait_lock_discipline.

(* in this model the lock calls are labels of their own (footprint empty), so the statement is
   literal: two simultaneously enabled steps of distinct threads share no variable but the kernel's
   process table *)
Theorem C14_wait_no_concurrent_conflict :
  forall s l1 l2 s1 s2 v w1 w2,
    reachable s -> lthr l1 <> lthr l2 ->
    step s l1 = Some s1 -> step s l2 = Some s2 ->
    In (v, w1) (fp s l1) -> In (v, w2) (fp s l2) ->
    cls s v = Extern.
Proof. exact wait_no_concurrent_conflict. Qed.
Print Assumptions C14_wait_no_concurrent_conflict.

Theorem C14_wait_cs_stable :
  forall s l s' v, reachable s -> step s l = Some s' ->
    match cls s v with
    | ByLock _ => forall t, wlock s = Some t -> lthr l <> t -> unchanged v s s'
    | ByThread t => lthr l <> t -> unchanged v s s'
    | _ => True
    end.
Proof. exact wait_cs_stable. Qed.
Print Assumptions C14_wait_cs_stable.

Theorem C14_wait_footprints_sound :
  forall s l s' v, step s l = Some s' -> ~ writes (fp s l) v -> unchanged v s s'.
Proof. exact step_writes_sound. Qed.
Print Assumptions C14_wait_footprints_sound.

Example C14_wait_nonvacuous :
  accepts ex_trace = true /\
  (exists s s1, run init ex_prefix = Some s /\
     step s (WLock 0) <> None /\ step s (WLock 1) = Some s1 /\
     conflict var_eqb (fp s1 (WReap 1 100 0)) (fp s1 (WUnreg 0 1)) = true /\
     step s1 (WReap 1 100 0) <> None /\ step s1 (WUnreg 0 1) = None /\ step s1 (WLock 0) = None).
Proof. exact wait_nonvacuous. Qed.
End Wt.

(* ================================ iv_work (C12/C13 model) ================================ *)
Module Wk.
Import MT.WorkMT MT.ConflictWork.

Theorem C14_work_lock_discipline :
  forall o pre l post send, run (init o) (pre ++ l :: post) = Some send ->
    exists s s', run (init o) pre = Some s /\ step s l = Some s' /\
                 disciplined actor holder mode cls fp s l s'.
Proof. exact work_lock_discipline. Qed.
Print Assumptions C14_work_lock_discipline.

(* lock_race s l1 l2 t1 t2 s1 s2: both are lock calls on the free pool lock and whichever is
   performed first disables the other.  For pool->shutting_down (OwnerLock: the owner also reads it
   without the lock) the statement is about a write and any other access *)
Theorem C14_work_no_concurrent_conflict :
  forall o tr s l1 l2 t1 t2 s1 s2 v w1 w2,
    run (init o) tr = Some s ->
    lthr l1 = Some t1 -> lthr l2 = Some t2 -> t1 <> t2 ->
    step s l1 = Some s1 -> step s l2 = Some s2 ->
    In (v, w1) (fp s l1) -> In (v, w2) (fp s l2) ->
    match cls s v with
    | ByLock _ => lock_race s l1 l2 t1 t2 s1 s2
    | ByThread _ => False
    | OwnerLock _ _ => w1 = true \/ w2 = true -> lock_race s l1 l2 t1 t2 s1 s2
    | _ => True
    end.
Proof. exact work_no_concurrent_conflict. Qed.
Print Assumptions C14_work_no_concurrent_conflict.

Theorem C14_work_cs_stable :
  forall o tr s l s' v, run (init o) tr = Some s -> step s l = Some s' ->
    match cls s v with
    | ByLock _ => forall t, lock s = Some t -> lthr l <> Some t -> unchanged v s s'
    | ByThread t => lthr l <> Some t -> unchanged v s s'
    | OwnerLock _ ow => (forall t, lock s = Some t -> lthr l <> Some t -> unchanged v s s') /\
                        (lthr l <> Some ow -> unchanged v s s')
    | _ => True
    end.
Proof. exact work_cs_stable. Qed.
Print Assumptions C14_work_cs_stable.

(* FF s (only the owner frees the pool) holds in every reachable state: reach_inv *)
Theorem C14_work_footprints_sound :
  (forall o tr s, run (init o) tr = Some s -> FF s) /\
  (forall s l s' v, FF s -> step s l = Some s' -> ~ writes (fp s l) v -> unchanged v s s').
Proof. exact (conj (fun o tr s H => proj1 (proj2 (reach_inv o tr s H))) step_writes_sound). Qed.
Print Assumptions C14_work_footprints_sound.

Example C14_work_nonvacuous :
  accepts 0 ex_trace = true /\
  (exists s s1 s0, run (init 0) ex_prefix = Some s /\
     step s (LLock 1) = Some s1 /\ step s (LLock 0) = Some s0 /\
     conflict var_eqb (fp s (LLock 1)) (fp s (LLock 0)) = true /\
     step s1 (LLock 0) = None /\ step s0 (LLock 1) = None /\ lock s1 = Some 1 /\ wpc_of s1 1 = WTake 5 1%Z).
Proof. exact work_nonvacuous. Qed.
End Wk.

(* ================================ the one-way flags (core model) ================================
   flags_le s s' (= Core/OneWayFlags.FL): from s to s'
     pwait2     is unchanged, or went true -> false and the kernel answers ENOSYS/EPERM to epoll_pwait2;
     efd_epoll, efd_raw  are unchanged, or went to 0, or 2 -> 1, and eventfd / eventfd2 is missing
                (from the first call or from the efd_ok-th creation on);
     method     is unchanged, or epoll-timerfd -> epoll and timerfd_create is missing,
                or ppoll -> poll and ppoll is missing;
     use_raw    if set stays set;
   and the kernel's oracle `flt (kern s)` is the same.  flags_le is a preorder.  flags_le_res s r
   states it for both outcomes (R s' / Halt s') of an operation, flags_le_wait for the three outcomes
   of a kernel wait.  All statements hold for EVERY state s (no invariant), scenario and oracle. *)
Local Open Scope Z_scope.

Theorem C14_flags_le_preorder :
  (forall s, flags_le s s) /\ (forall a b c, flags_le a b -> flags_le b c -> flags_le a c).
Proof. exact (conj FL_refl FL_trans). Qed.
Print Assumptions C14_flags_le_preorder.

(* every action of a handler script, and sequences of them *)
Theorem C14_one_way_flags_actions :
  (forall s a, flags_le_res s (do_action s a)) /\ (forall l s, flags_le_res s (run_acts s l)).
Proof. exact (conj FLr_do_action FLr_run_acts). Qed.
Print Assumptions C14_one_way_flags_actions.

(* the functions in which the flags are written *)
Theorem C14_one_way_flags_writers :
  forall sc,
    (forall s abs maxev, flags_le_wait s (epoll_wait_m sc s abs maxev)) /\
    (forall s abs, flags_le_res s (fst (poll_poll sc s abs))) /\
    (forall s a, method s = M_ET -> flags_le_res s (fst (set_poll_timeout s a))) /\
    (forall s j, flags_le_res s (fst (event_register s j))) /\
    (forall s j, flags_le_res s (fst (raw_register s j))) /\
    (forall s, flags_le_res s (fst (event_rx_on s))).
Proof.
  exact (fun sc => conj (FLw_epoll_wait_m sc) (conj (FLr_poll_poll sc) (conj FLr_set_poll_timeout
          (conj FLr_event_register (conj FLr_raw_register FLr_rx_on))))).
Qed.
Print Assumptions C14_one_way_flags_writers.

(* every phase of the loop, the loop with any fuel, and the whole run of run_scenario from the
   initial state (all flags at their optimistic initial values) *)
Theorem C14_one_way_flags :
  forall sc,
    (forall s, flags_le_res s (run_timers sc s)) /\
    (forall s, flags_le_res s (run_tasks sc s)) /\
    (forall s abs, flags_le_res s (fst (poll_and_run sc s abs))) /\
    (forall fuel s rt, flags_le_res s (main_loop sc fuel s rt)) /\
    (run_scenario sc = rev (trace (res_state (run_result sc))) /\ flags_le_res (core0 sc) (run_result sc)).
Proof.
  exact (fun sc => conj (FLr_run_timers sc) (conj (FLr_run_tasks sc) (conj (FLr_poll_and_run sc)
          (conj (FLr_main_loop sc) (conj (run_result_trace sc) (FLr_run sc)))))).
Qed.
Print Assumptions C14_one_way_flags.

(* idempotence.  For eventfd2 / eventfd the kernel's answer is NOT constant: the scenario's fault oracle lets
   them fail from the first call or from the k-th creation on (faults.efd_ok), so "every write stores the
   kernel's constant answer" would be false.  What is true, for every state, scenario and oracle:
     - both writers of eventfd_in_use store grab_flag (oracle) (efd_cut kernel) (old value): a function of the
       oracle, of the old value and of ONE time-varying bit, efd_cut (are the eventfd faults in effect yet);
       nothing else moves in those functions;
     - grab_flag moves the flag down only (efd_le), whatever the bit;
     - the bit is itself one-way (false -> true only: the kernel's creation counter never decreases, and
       eventfd_grab only increases it);
     - before the cut a grab leaves the flag alone; at a given value of the bit the write is idempotent;
       writes made at different values of the bit compose -- in either order -- to the write at the later value.
   So two unsynchronised writers can store different values only if the cut fell between their system calls;
   both values are legal positions of the one-way flag and the next grab brings it to the same final value. *)
Theorem C14_flag_writes_idempotent_eventfd :
  (forall s j, fv (res_state (fst (raw_register s j))) =
     (pwait2 s, efd_epoll s, grab_flag (flt (kern s)) (efd_cut (kern s)) (efd_raw s), method s, use_raw s, flt (kern s))) /\
  (forall s, fv (res_state (fst (event_rx_on s))) =
     (pwait2 s, (if active_ref s =? 0 then grab_flag (flt (kern s)) (efd_cut (kern s)) (efd_epoll s) else efd_epoll s),
      efd_raw s, method s, use_raw s, flt (kern s))) /\
  (forall f c u, efd_le f (grab_flag f c u) u) /\
  (forall k k', nefd_le k k' -> efd_cut k = true -> efd_cut k' = true) /\
  (forall k u, nefd_le k (fst (fst (eventfd_grab k u)))) /\
  (forall f u, u = 0 \/ u = 1 \/ u = 2 -> grab_flag f false u = u) /\
  (forall f c u, grab_flag f c (grab_flag f c u) = grab_flag f c u) /\
  (forall f c1 c2 u, u = 0 \/ u = 1 \/ u = 2 -> grab_flag f c2 (grab_flag f c1 u) = grab_flag f (c1 || c2) u).
Proof.
  exact (conj raw_register_fv (conj rx_on_fv (conj grab_flag_le (conj efd_cut_mono (conj nefd_grab
          (conj grab_flag_nocut (conj grab_flag_idem grab_flag_compose))))))).
Qed.
Print Assumptions C14_flag_writes_idempotent_eventfd.

(* epoll_pwait2_support, the ppoll -> poll switch and the timerfd -> plain epoll switch: after the
   function that writes the flag its value is the one dictated by the oracle *)
Theorem C14_flag_writes_idempotent_method :
  forall sc,
    (forall s abs maxev, pwait2 s = true ->
       pwait2 (wres_state (epoll_wait_m sc s abs maxev)) =
       negb (no_pwait2 (flt (kern s)) || perm_pwait2 (flt (kern s)))) /\
    (forall s abs, method s = M_PP ->
       method (res_state (fst (poll_poll sc s abs))) = if no_ppoll (flt (kern s)) then M_PO else M_PP) /\
    (forall s a, method s = M_ET ->
       method (res_state (fst (set_poll_timeout s a))) =
       if (tfd s =? -1) && no_timerfd (flt (kern s)) then M_EP else M_ET).
Proof. exact (fun sc => conj (pwait2_cleared_iff sc) (conj (ppoll_switched_iff sc) timerfd_switched_iff)). Qed.
Print Assumptions C14_flag_writes_idempotent_method.

Example C14_flags_nonvacuous :
  fv (core0 (ex_scenario 0)) = (true, 2, 2, 0, false, ex_faults) /\
  fv (res_state (run_result (ex_scenario 0))) = (false, 1, 1, 0, false, ex_faults) /\
  fv (core0 (ex_scenario 2)) = (true, 2, 2, 2, false, ex_faults) /\
  fv (res_state (run_result (ex_scenario 2))) = (true, 2, 1, 3, true, ex_faults).
Proof. exact flags_nonvacuous. Qed.

(* the time-varying eventfd answer is really exercised: eventfd2 / eventfd work for one creation, then ENOSYS
   (efd_ok := 1); eventfd_in_use of the raw events stays 2 after the first registration and drops to 0 at the second *)
Example C14_flags_cut_nonvacuous :
  fv (core0 (ex_cut_scenario 4)) = (true, 2, 2, 3, false, ex_cut_faults) /\
  fv (res_state (run_acts (core0 (ex_cut_scenario 1)) (sc_setup (ex_cut_scenario 1)))) = (true, 2, 2, 3, false, ex_cut_faults) /\
  fv (res_state (run_acts (core0 (ex_cut_scenario 2)) (sc_setup (ex_cut_scenario 2)))) = (true, 2, 0, 3, false, ex_cut_faults) /\
  fv (res_state (run_result (ex_cut_scenario 4))) = (true, 2, 0, 3, false, ex_cut_faults) /\
  grab_flag ex_cut_faults false 2 = 2 /\ grab_flag ex_cut_faults true 2 = 0.
Proof. exact flags_cut_nonvacuous. Qed.
