(* Properties_C05.v -- property C05: timers run in expiry order and are
   independent at any population size.  Statements only. *)
From Coq Require Import List ZArith Bool Sorted.
From Ivv Require Import Timer.HeapModel Timer.HeapSpec Timer.HeapProofs.
Import ListNotations.
Local Open Scope Z_scope.

(* Registration: succeeds, keeps the invariant (including the radix-tree
   growth across 128, 16384, ... -- there is no bound on num), adds exactly
   this timer and changes no other timer's membership or expiry. *)
(* The hypothesis `tget s t <> None` says that the timer object exists (it has
   been through IV_TIMER_INIT / had its expiry set, as do_act's set_exp does
   before every register).  Without it the statement is false: a timer unknown
   to `tm` reads tidx = -1, set_idx on it is a no-op, and e.g.
   register init 1 = Ok s' with sget s' 1 = Some 1 but tidx s' 1 = -1. *)
Theorem C05_register :
  forall s t, HeapInv s -> tget s t <> None -> tidx s t = -1 ->
    exists s', register s t = Ok s' /\ HeapInv s' /\
      abs s' t = Some (texp s t) /\
      (forall t', t' <> t -> abs s' t' = abs s t') /\
      batch s' = batch s /\ num s' = num s + 1.
Proof. exact heap_register_ok. Qed.
Print Assumptions C05_register.

(* Unregistration of any registered victim (root, last, interior, equal keys):
   removes exactly this timer, loses nothing across a radix-tree shrink. *)
Theorem C05_unregister :
  forall s t, HeapInv s -> 1 <= tidx s t ->
    exists s', unregister s t = Ok s' /\ HeapInv s' /\
      abs s' t = None /\ tidx s' t = -1 /\
      (forall t', t' <> t -> abs s' t' = abs s t') /\
      batch s' = batch s /\ num s' = num s - 1.
Proof. exact heap_unregister_ok. Qed.
Print Assumptions C05_unregister.

(* Unregistration of a timer that is on the expired batch of a running round *)
Theorem C05_unregister_expired :
  forall s t, HeapInv s -> tidx s t = 0 ->
    exists s', unregister s t = Ok s' /\ HeapInv s' /\ tidx s' t = -1 /\
      (forall t', abs s' t' = abs s t') /\ ~ In t (batch s') /\
      (forall t', t' <> t -> (In t' (batch s') <-> In t' (batch s))).
Proof. exact heap_unregister_expired_ok. Qed.
Print Assumptions C05_unregister_expired.

(* The collection loop of iv_run_timers: the batch is every timer not after
   the clock, in non-decreasing expiry order; what stays is strictly later. *)
Theorem C05_batch_sorted :
  forall s clock, HeapInv s -> batch s = [] ->
    exists s', collect (S (Z.to_nat (num s))) (set_now s clock) = Ok s' /\ HeapInv s' /\
      StronglySorted (le_exp s) (batch s') /\
      (forall t, In t (batch s') <-> exists e, abs s t = Some e /\ e <= clock) /\
      (forall t e, abs s' t = Some e -> clock < e /\ abs s t = Some e) /\
      (forall t e, abs s t = Some e -> clock < e -> abs s' t = Some e).
Proof. exact heap_collect_ok. Qed.
Print Assumptions C05_batch_sorted.

(* A whole round with arbitrary handler scripts (handlers may register and
   unregister any timers, batch members included): never a crash or a fatal
   error, the invariant is restored, and the handlers that ran did so in
   non-decreasing order of expiry; every timer that was due and is not
   fired was unregistered by a handler of this round. *)
Theorem C05_order :
  forall sc s clock, HeapInv s -> batch s = [] ->
    exists s' fired, run_timers sc s clock = (Ok s', fired) /\ HeapInv s' /\ batch s' = [] /\
      StronglySorted (le_exp s) fired /\ NoDup fired /\
      (forall t, In t fired -> exists e, abs s t = Some e /\ e <= clock) /\
      (forall t e, abs s t = Some e -> e <= clock ->
         In t fired \/ exists t0, In t0 fired /\ In (AUnreg t) (sc t0)).
Proof. exact heap_run_timers_ok. Qed.
Print Assumptions C05_order.

(* Without handler side effects, what fires is a function of each timer's own
   registration and the clock only. *)
Theorem C05_independence :
  forall s clock, HeapInv s -> batch s = [] ->
    exists s' fired, run_timers no_scripts s clock = (Ok s', fired) /\ HeapInv s' /\
      (forall t, In t fired <-> exists e, abs s t = Some e /\ e <= clock) /\
      (forall t, abs s' t = match abs s t with
                            | Some e => if e <=? clock then None else Some e
                            | None => None end).
Proof. exact heap_run_timers_pure. Qed.
Print Assumptions C05_independence.

(* Every history of top-level operations (guarded register / unregister with
   arbitrary expiries and victims, rounds with arbitrary handler scripts)
   from the initial state: no crash, no fatal, invariant. *)
Theorem C05_history :
  forall sc ops, exists s, run_ops sc ops init = Ok s /\ HeapInv s /\ batch s = [].
Proof. exact heap_history_ok. Qed.
Print Assumptions C05_history.

(* The monitor applied to implementation dumps accepts every state satisfying the invariant. *)
Theorem C05_monitor_accepts :
  forall s, HeapInv s -> heap_ok (slot_array s) = true.
Proof. exact heap_ok_of_inv. Qed.
Print Assumptions C05_monitor_accepts.

Example C05_nonvacuous :
  let sc := fun t => if Pos.eqb t 3 then [AUnreg 4%positive; AReg 9%positive 1] else [] in
  let ops := [OAct (AReg 1%positive 50); OAct (AReg 2%positive 30); OAct (AReg 3%positive 40); OAct (AReg 4%positive 40);
              OAct (AReg 5%positive 10); OAct (AUnreg 2%positive); ORun 45] in
  match run_ops sc ops init with
  | Ok s => (num s =? 2) && heap_ok (slot_array s) = true
  | _ => False
  end.
Proof. vm_compute. reflexivity. Qed.
