(* Properties_C05.v -- property C05: timers run in expiry order and are
   independent at any population size.  Statements only. *)
From Coq Require Import List ZArith Bool Sorted.
From Ivv Require Import Timer.HeapModel Timer.HeapSpec Timer.HeapProofs.
From Ivv Require Import Timer.RadixModel Timer.RadixSpec Timer.RadixArith Timer.RadixMem Timer.RadixProofs.
From Ivv Require Import Gen.LeafTimer Timer.RadixLink Timer.RadixHazard.
Import ListNotations.
Local Open Scope Z_scope.

(* Registration: succeeds, keeps the invariant (including the radix-tree
   growth across 128, 16384, ... -- there is no bound on num), adds exactly
   this timer and changes no other timer's membership or expiry. *)
(* The hypothesis `tget s t <> None` says that the timer object exists (it has
   been through IV_TIMER_INIT / had its expiry set, as do_act's set_exp does
   before every register).  Without it the statement is false: a timer unknown
   to `tm` reads tidx = -1, set_idx on it is a no-op, and e.g.
   register init 1 = Ok s' with sget s' 1 = Some 1 but tidx s' 1 = -1. *)
Theorem C05_register :
  forall s t, HeapInv s -> tget s t <> None -> tidx s t = -1 ->
    exists s', register s t = Ok s' /\ HeapInv s' /\
      abs s' t = Some (texp s t) /\
      (forall t', t' <> t -> abs s' t' = abs s t') /\
      batch s' = batch s /\ num s' = num s + 1.
Proof. exact heap_register_ok. Qed.
Print Assumptions C05_register.

(* Unregistration of any registered victim (root, last, interior, equal keys):
   removes exactly this timer, loses nothing across a radix-tree shrink. *)
Theorem C05_unregister :
  forall s t, HeapInv s -> 1 <= tidx s t ->
    exists s', unregister s t = Ok s' /\ HeapInv s' /\
      abs s' t = None /\ tidx s' t = -1 /\
      (forall t', t' <> t -> abs s' t' = abs s t') /\
      batch s' = batch s /\ num s' = num s - 1.
Proof. exact heap_unregister_ok. Qed.
Print Assumptions C05_unregister.

(* Unregistration of a timer that is on the expired batch of a running round *)
Theorem C05_unregister_expired :
  forall s t, HeapInv s -> tidx s t = 0 ->
    exists s', unregister s t = Ok s' /\ HeapInv s' /\ tidx s' t = -1 /\
      (forall t', abs s' t' = abs s t') /\ ~ In t (batch s') /\
      (forall t', t' <> t -> (In t' (batch s') <-> In t' (batch s))).
Proof. exact heap_unregister_expired_ok. Qed.
Print Assumptions C05_unregister_expired.

(* The collection loop of iv_run_timers: the batch is every timer not after
   the clock, in non-decreasing expiry order; what stays is strictly later. *)
Theorem C05_batch_sorted :
  forall s clock, HeapInv s -> batch s = [] ->
    exists s', collect (S (Z.to_nat (num s))) (set_now s clock) = Ok s' /\ HeapInv s' /\
      StronglySorted (le_exp s) (batch s') /\
      (forall t, In t (batch s') <-> exists e, abs s t = Some e /\ e <= clock) /\
      (forall t e, abs s' t = Some e -> clock < e /\ abs s t = Some e) /\
      (forall t e, abs s t = Some e -> clock < e -> abs s' t = Some e).
Proof. exact heap_collect_ok. Qed.
Print Assumptions C05_batch_sorted.

(* A whole round with arbitrary handler scripts (handlers may register and
   unregister any timers, batch members included): never a crash or a fatal
   error, the invariant is restored, and the handlers that ran did so in
   non-decreasing order of expiry; every timer that was due and is not
   fired was unregistered by a handler of this round. *)
Theorem C05_order :
  forall sc s clock, HeapInv s -> batch s = [] ->
    exists s' fired, run_timers sc s clock = (Ok s', fired) /\ HeapInv s' /\ batch s' = [] /\
      StronglySorted (le_exp s) fired /\ NoDup fired /\
      (forall t, In t fired -> exists e, abs s t = Some e /\ e <= clock) /\
      (forall t e, abs s t = Some e -> e <= clock ->
         In t fired \/ exists t0, In t0 fired /\ In (AUnreg t) (sc t0)).
Proof. exact heap_run_timers_ok. Qed.
Print Assumptions C05_order.

(* Without handler side effects, what fires is a function of each timer's own
   registration and the clock only. *)
Theorem C05_independence :
  forall s clock, HeapInv s -> batch s = [] ->
    exists s' fired, run_timers no_scripts s clock = (Ok s', fired) /\ HeapInv s' /\
      (forall t, In t fired <-> exists e, abs s t = Some e /\ e <= clock) /\
      (forall t, abs s' t = match abs s t with
                            | Some e => if e <=? clock then None else Some e
                            | None => None end).
Proof. exact heap_run_timers_pure. Qed.
Print Assumptions C05_independence.

(* Every history of top-level operations (guarded register / unregister with
   arbitrary expiries and victims, rounds with arbitrary handler scripts)
   from the initial state: no crash, no fatal, invariant. *)
Theorem C05_history :
  forall sc ops, exists s, run_ops sc ops init = Ok s /\ HeapInv s /\ batch s = [].
Proof. exact heap_history_ok. Qed.
Print Assumptions C05_history.

(* The monitor applied to implementation dumps accepts every state satisfying the invariant. *)
Theorem C05_monitor_accepts :
  forall s, HeapInv s -> heap_ok (slot_array s) = true.
Proof. exact heap_ok_of_inv. Qed.
Print Assumptions C05_monitor_accepts.

Example C05_nonvacuous :
  let sc := fun t => if Pos.eqb t 3 then [AUnreg 4%positive; AReg 9%positive 1] else [] in
  let ops := [OAct (AReg 1%positive 50); OAct (AReg 2%positive 30); OAct (AReg 3%positive 40); OAct (AReg 4%positive 40);
              OAct (AReg 5%positive 10); OAct (AUnreg 2%positive); ORun 45] in
  match run_ops sc ops init with
  | Ok s => (num s =? 2) && heap_ok (slot_array s) = true
  | _ => False
  end.
Proof. vm_compute. reflexivity. Qed.

(* ================= the radix tree that stores the heap slots =================
   Timer/RadixModel.v models iv_timer_get_node (growth by one level, lazy allocation of
   interior nodes and leaves), iv_timer_free_ratnode, iv_timer_radix_tree_remove_level,
   iv_timer_deinit and the first_leaf/timer_root union over an explicit memory of 128-cell
   nodes with calloc/free; slot pointers are addresses, and an access through an address in
   a freed node is the error value RCrash EUseAfterFree.  HeapModel abstracts all this to a
   finite map index -> timer. *)

(* (a) path arithmetic: an index below 128^(depth+1) is determined by its digits (the child
   numbers iv_timer_get_node follows), so distinct indices take distinct paths, and they end in
   distinct slot addresses of the tree *)
Theorem C05_radix_slots_distinct :
  (forall d i j, 0 <= i < P (Z.of_nat d + 1) -> 0 <= j < P (Z.of_nat d + 1) ->
     path d i = path d j -> i = j) /\
  (forall rs na H, ShapeH rs na H ->
     forall i i', 0 <= i -> i / NODES * NODES <= H -> 0 <= i' -> i' / NODES * NODES <= H ->
       p_of na i = p_of na i' -> i = i').
Proof. exact (conj path_inj slot_inj). Qed.
Print Assumptions C05_radix_slots_distinct.

(* The verified range.  C int arithmetic is part of the model: a shift of an int by >= 32 (or `1 << c`
   not representable) is the error value EShift, a signed overflow (++num_timers, 2 * index in
   push_down) is EOverflow.  POP_BOUND = 2^30 is the largest population bound for which no int
   computation of iv_timer.c can leave the range (C05_radix_int_range_refuted shows why 2^31 - 1 is
   not provable).  The hypotheses `scripts_below POP_BOUND sc` / `ops_below POP_BOUND ops` say that
   every timer id the history uses -- in top-level operations and in every handler script -- is
   below 2^30; hence every population is (pigeonhole: RadixSim.num_below). *)

(* (c) REFINEMENT, for every such history of guarded register / unregister / run-timers with arbitrary
   handler scripts: the radix-tree store never yields an error value, produces the same trace
   (return code, fired timers, num_timers, rat_depth, numobjs and the slot array read through the
   tree, after every operation) as the flat-map store, and ends in a state whose tree implements
   exactly the flat map (flat_of = slots, same timer objects) -- so C05_register .. C05_history
   transfer to the store with the real tree.  (One operation at a time from any related pair of
   states: RadixProofs.radix_step_refines.) *)
Theorem C05_radix_refines_heap :
  forall sc ops, scripts_below POP_BOUND sc -> ops_below POP_BOUND ops ->
    rtrace sc ops rinit = htrace sc ops init /\ length (htrace sc ops init) = length ops /\
    exists rs s, rrun_ops sc ops rinit = ROk rs /\ run_ops sc ops init = Ok s /\
                 Refines rs s /\ HeapInv s /\ batch s = [] /\
                 (forall p, PM.find p (flat_of rs) = PM.find p (slots s)) /\ tm (hs rs) = tm s.
Proof. exact radix_refines_heap. Qed.
Print Assumptions C05_radix_refines_heap.

(* (d) iv_timer_unregister of any registered victim: although iv_timer_radix_tree_remove_level may
   free nodes between the computation of the slot pointer p and its uses in pull_up / push_down,
   no access goes through a freed node (nor NULL, nor a wild address): the outcome is ROk.  And no
   error value at all (use-after-free, wild or NULL access, bad or double free, type confusion,
   undefined shift, signed overflow, fuel) is reachable by any history in the verified range. *)
Theorem C05_radix_no_dangling_slot :
  (forall rs s t, Refines rs s -> HeapInv s -> 1 <= tidx s t ->
     exists rs' s', runregister rs t = ROk rs' /\ unregister s t = Ok s' /\ Refines rs' s' /\ HeapInv s') /\
  (forall sc ops e, scripts_below POP_BOUND sc -> ops_below POP_BOUND ops -> rrun_ops sc ops rinit <> RCrash e).
Proof. exact (conj radix_unregister_no_dangling radix_no_error). Qed.
Print Assumptions C05_radix_no_dangling_slot.

(* (b), (e) after every such history: the invariant (every live index addressable, depth minimal:
   rat_depth = 0 or 128^rat_depth <= num_timers < 128^(rat_depth+1), at most five levels); the
   calloc'ed nodes that are live are exactly the nodes reachable from timer_root (no leak, no dangling
   child pointer); an empty store has depth 0 and nothing allocated; iv_timer_deinit on the tree as
   it is (populated or not) ends with depth 0, every calloc'ed node freed -- exactly once, a second
   free being the error value EDoubleFree -- and timer_root = NULL. *)
Theorem C05_radix_no_leak :
  forall sc ops, scripts_below POP_BOUND sc -> ops_below POP_BOUND ops -> exists rs,
    rrun_ops sc ops rinit = ROk rs /\ RInv rs /\
    (forall n, live_true rs n <-> n <> FIRST_LEAF /\ exists l, reach rs l n) /\
    (rnum rs = 0 -> rdepth rs = 0 /\ all_freed rs) /\
    exists rs', rdeinit rs = Good rs' /\ rdepth rs' = 0 /\ all_freed rs' /\ mget (mem rs') ROOT_CELL = CNull.
Proof. exact radix_no_leak. Qed.
Print Assumptions C05_radix_no_leak.

(* in every state satisfying the invariant: the depth part of the monitor run on implementation
   traces holds, and the tree has at most five levels (rat_depth <= 4: every shift count
   rat_depth * 7 and -- under the guard -- (rat_depth + 1) * 7 that is executed is <= 28) *)
Theorem C05_radix_depth_bounds :
  forall rs, RInv rs -> depth_mon (rnum rs) (rdepth rs) = true /\ 0 <= rdepth rs <= 4.
Proof. exact (fun rs I => conj (radix_depth_mon_ok rs I) (radix_depth_le_4 rs I)). Qed.
Print Assumptions C05_radix_depth_bounds.

(* THE GROWTH TEST OF THE MODEL IS THE CODE.  LeafTimer.timer_growth_test is regenerated on every run by
   gen/c2gallina.py from the condition of the first `if` of iv_timer_get_node in the current source
   (None = a shift by a negative count or by >= 32 was executed).  For every depth and every int
   index it is defined and equal to the model's test; RadixLink.growth_test_is_grow_test shows the two
   functions equal everywhere.  Without the guard of commit 3da677a this fails at depth 4. *)
Theorem C05_radix_growth_test_is_the_code :
  forall d index, 0 <= d -> 0 <= index < 2 ^ 31 ->
    LeafTimer.timer_growth_test d index = Some (growth_test_bool d index) /\
    grow_test d index = Good (growth_test_bool d index).
Proof. exact growth_test_is_the_code. Qed.
Print Assumptions C05_radix_growth_test_is_the_code.

(* what is NOT true.  (1) The guard is necessary: iv_timer_get_node with the unguarded test (the code
   before 3da677a) executes an undefined shift for every index in every tree of depth 4 -- the depth
   the invariant prescribes for num_timers = 2^28 < INT_MAX (C-level input: 2^28 + 1 registrations;
   reproduced on the real library by the coordinator).  (2) The verified range cannot be extended to
   INT_MAX: push_down evaluates 2 * index, which overflows an int for every index >= 2^30, i.e. when
   a timer at a heap index >= 2^30 other than the last one is unregistered. *)
Theorem C05_radix_int_range_refuted :
  (forall rs index, rdepth rs = 4 -> rget_node_var false rs index = Bad EShift) /\
  (P 4 <= 2 ^ 28 < P 5 /\ 2 ^ 28 < 2 ^ 31) /\
  (forall f rs index i, POP_BOUND <= index -> rpush_down (S f) rs index i = Bad EOverflow).
Proof. exact (conj unguarded_shift_refuted (conj depth4_population push_down_overflow_refuted)). Qed.
Print Assumptions C05_radix_int_range_refuted.

(* non-vacuity: 130 registrations (the tree grows to depth 1 at index 128 and allocates a second
   leaf), then 4 unregistrations (first, interior, last, root) -- the third takes num_timers from 128
   to 127: remove_level frees the root and the second leaf, and slot 1's pointer is used afterwards.
   The two models agree on the whole trace; every node allocated was freed. *)
Example C05_radix_nonvacuous :
  let regs := map (fun i => OAct (AReg (Pos.of_nat i) (Z.of_nat ((7 * i) mod 50)))) (seq 1 130) in
  let unregs := map (fun i => OAct (AUnreg (Pos.of_nat i))) [1; 64; 130; 2]%nat in
  (match rrun_ops no_scripts regs rinit with
   | ROk rs => (rdepth rs =? 1) && (rnum rs =? 130) && (count_nodes rs =? 3) && (nalloc rs =? 2) && (nfree rs =? 0)
   | _ => false
   end) &&
  (match rrun_ops no_scripts (regs ++ unregs) rinit with
   | ROk rs => (rdepth rs =? 0) && (rnum rs =? 126) && (count_nodes rs =? 1) && (nalloc rs =? 2) && (nfree rs =? 2)
               && heap_ok (slot_array (rabs rs))
   | _ => false
   end) &&
  (length (rtrace no_scripts (regs ++ unregs) rinit) =? 134)%nat = true.
Proof. vm_compute. reflexivity. Qed.

(* ---- tie (a), round 9: the index arithmetic and the guards of the heap ARE the current C text of src/iv_timer.c
   (Timer/HeapLink.v; Gen/LeafHeap.v is re-translated by gen/c2gallina.py on every run of this check) ---- *)
From Ivv Require Import Base.CSem Gen.LeafHeap Timer.HeapLink.

Theorem C05_pull_up_step_is_the_code :
  forall f s i, 0 <= i < 2147483648 ->
  HeapModel.pull_up (S f) s i =
  match heap_pull_more i, heap_pull_parent i with
  | Some more, Some parent =>
      if more then
        match HeapModel.get_node s parent with
        | None => None
        | Some s1 =>
            match HeapModel.sget s1 parent, HeapModel.sget s1 i with
            | Some tp, Some ti =>
                if HeapModel.ptr_gt s1 tp ti then
                  match heap_pull_next parent with Some nx => HeapModel.pull_up f (HeapModel.swap_slots s1 i parent ti tp) nx | None => None end
                else Some s1
            | _, _ => None
            end
        end
      else Some s
  | _, _ => None
  end.
Proof. exact pull_up_step_is_the_code. Qed.
Print Assumptions C05_pull_up_step_is_the_code.

Theorem C05_push_down_indices_are_the_code :
  forall i n, 0 <= i < 1073741824 ->
  heap_push_has_child i n = Some (2 * i <=? n) /\ heap_push_self i = Some i /\
  heap_push_left i = Some (2 * i) /\ heap_push_right i = Some (2 * i + 1) /\ heap_push_node i = Some (2 * i).
Proof. exact leaf_push_indices. Qed.
Print Assumptions C05_push_down_indices_are_the_code.

Theorem C05_push_down_overflow_is_in_the_code :
  forall i n, 1073741824 <= i -> heap_push_has_child i n = None.
Proof. exact heap_push_overflows. Qed.
Print Assumptions C05_push_down_overflow_is_in_the_code.

Theorem C05_collect_step_is_the_code :
  forall f s,
  HeapModel.collect (S f) s =
  match heap_run_more (HeapModel.num s) with
  | Some true =>
      match HeapModel.sget s 1 with
      | None => HeapModel.Crash
      | Some t =>
          match heap_run_root_index (HeapModel.tidx s t) with
          | Some true => HeapModel.Fatal s
          | Some false =>
              if HeapModel.now s <? HeapModel.texp s t then HeapModel.Ok s else
              match HeapModel.unregister s t with
              | HeapModel.Ok s1 => HeapModel.collect f (HeapModel.set_idx (HeapModel.set_batch s1 (HeapModel.batch s1 ++ [t])) t 0)
              | o => o
              end
          | None => HeapModel.Crash
          end
      end
  | Some false => HeapModel.Ok s
  | None => HeapModel.Crash
  end.
Proof. exact collect_step_is_the_code. Qed.
Print Assumptions C05_collect_step_is_the_code.

Theorem C05_soonest_is_the_code :
  forall s,
  HeapModel.soonest s =
  match heap_soonest_any (HeapModel.num s) with
  | Some true => match HeapModel.sget s 1 with Some t => Some (HeapModel.texp s t) | None => None end
  | _ => None
  end.
Proof. exact soonest_is_the_code. Qed.
Print Assumptions C05_soonest_is_the_code.
