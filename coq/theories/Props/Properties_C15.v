(* Properties_C15.v -- property C15: Poll method, interrupted waits, missing syscalls do not change behaviour.  Statements only.
   Every theorem quantifies over ALL well-formed scenarios: all handler scripts, all kernel behaviours the scenario
   language can express, all four poll methods, all fault sets, any wait limit.
   STATUS: the full statement of this property on the core model is `mon_all (run_scenario sc) = true /\ mon_guard sc (run_scenario sc) = true`
   (see Properties_C15.v.draft); the theorems below are the monitor clauses already proved (named _partial);
   the remaining clauses (all clauses of the other core properties that are still open, 1501) are checked on every implementation AND model trace by the extracted monitor
   while their proofs are being completed. *)
From Coq Require Import List ZArith Bool.
From Ivv Require Import Core.Kernel Core.CoreTypes Core.CoreFd Core.CoreModel Core.Monitors Core.CoreSpec
  Core.CoreRel Core.CoreCodes.
Import ListNotations.
Local Open Scope Z_scope.

(* wf_scenario quantifies over the poll method (0..3) and the fault set, so every theorem of C01-C09/C18 is a statement
   about every method and every fault sequence; across an interrupted wait time does not run backwards (1502) *)
Theorem C15_eintr_clock_partial :
  forall sc, wf_scenario sc -> no_code [1502] (mon_fails (run_scenario sc)).
Proof. intros sc Hwf. eapply no_code_sub; [|exact (codes_handlers sc Hwf)]. simpl; intros c Hc; intuition. Qed.
Print Assumptions C15_eintr_clock_partial.

Theorem C15_all_methods_C01 :
  forall sc, wf_scenario sc -> mon_C01 (run_scenario sc) = true.
Proof. exact core_mon_C01. Qed.
Print Assumptions C15_all_methods_C01.

Theorem C15_all_methods_handlers_partial :
  forall sc, wf_scenario sc -> no_code [301; 302; 709; 703; 704; 801; 406; 407; 1502] (mon_fails (run_scenario sc)).
Proof. exact codes_handlers. Qed.
Print Assumptions C15_all_methods_handlers_partial.

