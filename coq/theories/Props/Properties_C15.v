(* Properties_C15.v -- property C15: Poll method, interrupted waits, missing syscalls do not change behaviour.  Statements only.
   Every theorem quantifies over ALL well-formed scenarios: all handler scripts, all kernel behaviours the scenario
   language can express, all four poll methods (sc_backend 0..3), all fault sets (EINTR at the k-th wait / k-th
   epoll_ctl for any k, epoll_pwait2 / timerfd / ppoll / eventfd2 / eventfd missing from their first call, eventfd2 /
   eventfd also failing from the k-th creation on for any k (faults.efd_ok: eventfd- and pipe-backed raw events and
   kick descriptors side by side), EMFILE under the poll methods), any wait limit.  Because `wf_scenario` quantifies over the method and the fault set, every
   clause below is a statement about every method and every fault sequence.
   The full statement on the core model: `mon_all (run_scenario sc) = true /\ mon_guard sc (run_scenario sc) = true`. *)
From Coq Require Import List ZArith Bool Lia.
From Ivv Require Import Core.Kernel Core.CoreTypes Core.CoreFd Core.CoreModel Core.Monitors Core.GuardMon Core.CoreSpec
  Core.CoreRel Core.CoreCodes Core.CorePhase2Fd Core.CorePhase2Ei Core.CorePhase2GuardAll Core.CoreAll Core.CoreExamples.
From Ivv Require Core.CoreInv Core.CorePhase2TimeC09.
Import ListNotations.
Local Open Scope Z_scope.

(* the clauses specific to interrupted waits: no descriptor callback in an iteration whose wait returned EINTR (1501),
   across an interrupted wait time does not run backwards (1502) *)
Theorem C15_interrupted_waits :
  forall sc, wf_scenario sc -> mon_C15 (run_scenario sc) = true.
Proof. exact core_mon_C15. Qed.
Print Assumptions C15_interrupted_waits.

(* on every poll method and under every fault set the behavioural monitor is silent: every clause of C01-C04, C06,
   C07, C09, C18, the event clause 801 and the interrupted-wait clauses *)
Theorem C15_all_methods_all_faults :
  forall sc, wf_scenario sc -> mon_all (run_scenario sc) = true.
Proof. exact core_mon_all. Qed.
Print Assumptions C15_all_methods_all_faults.

(* the guard monitor is silent on every method under every fault set: exactly the scripted API calls that the
   documented state allows are executed (1101/1102), the loop never polls twice in a row without sleeping, reporting
   or calling anything (1103), no kernel interest entry survives an unregistration, on either epoll method and with
   EINTR on epoll_ctl (1104) *)
Theorem C15_guard_monitor :
  forall sc, wf_scenario sc -> mon_guard sc (run_scenario sc) = true.
Proof. exact core_gmon_all. Qed.
Print Assumptions C15_guard_monitor.

(* non-vacuity: the same program is well-formed on all four methods, without faults and with faults (epoll_pwait2,
   timerfd, ppoll, eventfd2 and eventfd missing; the second wait interrupted), runs every kind of callback in both
   cases, sees an EINTR return in the faulty runs, and all monitors are silent *)
Example C15_nonvacuous :
  forall be, In be [0; 1; 2; 3] ->
    wf_scenario (ex_all be) /\ In (TCallFd 0 0 1 7) (run_scenario (ex_all be)) /\ In (TCallRaw 0) (run_scenario (ex_all be)) /\
    mon_fails (run_scenario (ex_all be)) = [] /\
    wf_scenario (ex_all_f be) /\ has_eintr (run_scenario (ex_all_f be)) = true /\ calls_fd (run_scenario (ex_all_f be)) = true /\
    calls_raw (run_scenario (ex_all_f be)) = true /\ calls_timer (run_scenario (ex_all_f be)) = true /\
    mon_fails (run_scenario (ex_all_f be)) = [] /\ gmon_fails (ex_all_f be) (run_scenario (ex_all_f be)) = [].
Proof.
  intros be H.
  assert (Hb : 0 <= be <= 3) by (cbn [In] in H; intuition lia).
  pose proof (ex_all_runs be H) as R. cbv zeta in R.
  pose proof (ex_all_f_runs be H) as F. cbv zeta in F.
  destruct R as (R1 & _ & _ & _ & R5 & _ & _ & _ & _ & R10 & _).
  destruct F as (F1 & F2 & F3 & F4 & F5 & F6).
  exact (conj (ex_all_wf be Hb) (conj R1 (conj R5 (conj R10 (conj (ex_all_f_wf be Hb)
          (conj F1 (conj F2 (conj F3 (conj F4 (conj F5 F6)))))))))).
Qed.


(* "for each optional system call, failure with ENOSYS from the first OR FROM THE k-TH CALL": the fault space of
   wf_scenario contains, for eventfd2 / eventfd, failure from the k-th creation on for every k >= 0 (k = 0: from the
   first call).  Made explicit: whatever the rest of a well-formed scenario, its fault record may be replaced by one in
   which eventfd2 and/or eventfd are missing and take effect after any number k of successful creations, the result
   is again well-formed, and therefore all core theorems (here: the whole behavioural monitor, the raw-event
   clauses of C09, the guard monitor, no crash) hold for it.  The kernel really behaves that way: the first k
   creations succeed, every later one fails with ENOSYS. *)
Definition with_efd_cut (sc : scenario) (no2 no1 : bool) (k : Z) : scenario :=
  {| sc_backend := sc_backend sc;
     sc_faults := {| no_pwait2 := no_pwait2 (sc_faults sc); perm_pwait2 := perm_pwait2 (sc_faults sc);
                     no_timerfd := no_timerfd (sc_faults sc); no_ppoll := no_ppoll (sc_faults sc);
                     no_eventfd2 := no2; no_eventfd := no1; no_create1 := no_create1 (sc_faults sc);
                     emfile := emfile (sc_faults sc); eintr_waits := eintr_waits (sc_faults sc);
                     eintr_ctl := eintr_ctl (sc_faults sc); efd_ok := k |};
     sc_limit := sc_limit sc; sc_setup := sc_setup sc; sc_handlers := sc_handlers sc; sc_wait := sc_wait sc;
     sc_rot := sc_rot sc |}.

Theorem C15_faults_from_kth_call :
  (forall sc no2 no1 k, wf_scenario sc -> 0 <= k -> wf_scenario (with_efd_cut sc no2 no1 k)) /\
  (forall sc no2 no1 k, wf_scenario sc -> 0 <= k ->
     let sc' := with_efd_cut sc no2 no1 k in
     mon_all (run_scenario sc') = true /\
     mon_C09 (run_scenario sc') = true /\ mon_guard sc' (run_scenario sc') = true /\
     ~ In TCrash (run_scenario sc') /\ ~ In TFatal (run_scenario sc')) /\
  (* the virtual kernel: with eventfd missing after k creations, creation number n succeeds iff n < k
     (descriptor exhaustion aside) *)
  (forall kn flags2, emfile (flt kn) = false -> no_eventfd (flt kn) = true ->
     (nefd kn < efd_ok (flt kn) -> exists fd, snd (k_eventfd kn flags2) = inl fd /\ nefd (fst (k_eventfd kn flags2)) = nefd kn + 1) /\
     (efd_ok (flt kn) <= nefd kn -> k_eventfd kn flags2 = (kn, inr ENOSYS))).
Proof.
  assert (WF : forall sc no2 no1 k, wf_scenario sc -> 0 <= k -> wf_scenario (with_efd_cut sc no2 no1 k)).
  { intros sc no2 no1 k [W1 W2 W3 W4 W5 W6 W7 W8] K. constructor; cbn; assumption. }
  split; [exact WF|]. split.
  - intros sc no2 no1 k W K sc'. pose proof (WF sc no2 no1 k W K) as W'. fold sc' in W'.
    split; [apply core_mon_all; exact W'|]. split; [apply CorePhase2TimeC09.core_mon_C09; exact W'|].
    split; [apply core_gmon_all; exact W'|]. apply CoreInv.core_no_crash. exact W'.
  - intros kn flags2 EM NE. unfold k_eventfd, efd_cut. rewrite EM, NE. cbn [orb]. split.
    + intros L. replace (efd_ok (flt kn) <=? nefd kn) with false by (symmetry; apply Z.leb_gt; exact L). cbn [andb].
      unfold k_alloc. cbn. eexists. split; reflexivity.
    + intros L. replace (efd_ok (flt kn) <=? nefd kn) with true by (symmetry; apply Z.leb_le; exact L). reflexivity.
Qed.
Print Assumptions C15_faults_from_kth_call.

(* non-vacuity of the k-th-call fault: eventfd2 / eventfd fail after ONE creation (efd_ok := 1).  Raw event 0 is
   registered before the cut (eventfd-backed: one descriptor), raw event 1 after it (pipe-backed: two descriptors);
   both are posted before iv_main and again from outside during the second wait; every post is delivered (each
   handler runs twice), each object is unregistered from its handler (1 + 2 closes, plus the epoll descriptor under
   the epoll methods), the run ends normally and the tracker and the guard monitor are silent -- on all four
   methods (vm_compute in Core/CoreExamples.v). *)
Example C15_kth_call_nonvacuous :
  forall be, In be [0; 1; 2; 3] ->
    let tr := run_scenario (ex_cut be) in
    wf_scenario (ex_cut be) /\ efd_ok (sc_faults (ex_cut be)) = 1 /\ no_eventfd (sc_faults (ex_cut be)) = true /\
    count_ev (is_raw_call 0) tr = 2%nat /\ count_ev (is_raw_call 1) tr = 2%nat /\
    In (TKClose (ex_cut_base be)) tr /\ In (TKClose (ex_cut_base be + 1)) tr /\ In (TKClose (ex_cut_base be + 2)) tr /\
    count_ev is_close tr = (if be <? 2 then 4%nat else 3%nat) /\
    In (TEnd 0 0) tr /\ In (TDone 0) tr /\ ~ In THang tr /\
    mon_fails tr = [] /\ gmon_fails (ex_cut be) tr = [].
Proof.
  intros be H tr.
  assert (Hb : 0 <= be <= 3) by (cbn [In] in H; intuition lia).
  pose proof (ex_cut_runs be H) as R. cbv zeta in R. fold tr in R.
  destruct R as (R1 & R2 & R3 & R4 & R5 & R6 & R7 & R8 & R9 & _ & R11 & R12 & R13).
  exact (conj (ex_cut_wf be Hb) (conj R1 (conj eq_refl (conj R2 (conj R3 (conj R4 (conj R5 (conj R6 (conj R7
          (conj R8 (conj R9 (conj R11 (conj R12 R13))))))))))))).
Qed.

(* ---- tie (a): the decision points the model uses at this place ARE the current C text (Core/CoreLeafLink.v;
   Gen/LeafCore*.v is re-translated from /repo/src by gen/c2gallina.py on every run of this check) ---- *)
From Ivv Require Import Base.CSem Gen.LeafCoreFd Gen.LeafCoreTask Gen.LeafCoreMain Gen.LeafCoreEpoll Gen.LeafCorePoll Core.CoreLeafLink.

(* the translation of reported conditions into bands is THE SAME in the epoll and the poll back ends: both C loops,
   as translated from the current source, compute the model's `activate` *)
Theorem C15_band_translation_method_independent :
  forall s k bits, 0 <= bits < 16 ->
    activate_with core_ep_in core_ep_out core_ep_err s k bits = activate_with core_po_in core_po_out core_po_err s k bits.
Proof. intros s k bits H. rewrite activate_is_the_code_epoll, activate_is_the_code_poll by exact H. reflexivity. Qed.
Print Assumptions C15_band_translation_method_independent.
