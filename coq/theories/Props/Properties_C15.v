(* Properties_C15.v -- property C15: Poll method, interrupted waits, missing syscalls do not change behaviour.  Statements only.
   Every theorem quantifies over ALL well-formed scenarios: all handler scripts, all kernel behaviours the scenario
   language can express, all four poll methods (sc_backend 0..3), all fault sets (EINTR at the k-th wait / k-th
   epoll_ctl for any k, epoll_pwait2 / timerfd / ppoll / eventfd2 / eventfd missing from their first call, EMFILE under
   the poll methods), any wait limit.  Because `wf_scenario` quantifies over the method and the fault set, every
   clause below is a statement about every method and every fault sequence.
   The full statement on the core model: `mon_all (run_scenario sc) = true /\ mon_guard sc (run_scenario sc) = true`. *)
From Coq Require Import List ZArith Bool Lia.
From Ivv Require Import Core.Kernel Core.CoreTypes Core.CoreFd Core.CoreModel Core.Monitors Core.GuardMon Core.CoreSpec
  Core.CoreRel Core.CoreCodes Core.CorePhase2Fd Core.CorePhase2Ei Core.CorePhase2GuardAll Core.CoreAll Core.CoreExamples.
Import ListNotations.
Local Open Scope Z_scope.

(* the clauses specific to interrupted waits: no descriptor callback in an iteration whose wait returned EINTR (1501),
   across an interrupted wait time does not run backwards (1502) *)
Theorem C15_interrupted_waits :
  forall sc, wf_scenario sc -> mon_C15 (run_scenario sc) = true.
Proof. exact core_mon_C15. Qed.
Print Assumptions C15_interrupted_waits.

(* on every poll method and under every fault set the behavioural monitor is silent: every clause of C01-C04, C06,
   C07, C09, C18, the event clause 801 and the interrupted-wait clauses *)
Theorem C15_all_methods_all_faults :
  forall sc, wf_scenario sc -> mon_all (run_scenario sc) = true.
Proof. exact core_mon_all. Qed.
Print Assumptions C15_all_methods_all_faults.

(* the guard monitor is silent on every method under every fault set: exactly the scripted API calls that the
   documented state allows are executed (1101/1102), the loop never polls twice in a row without sleeping, reporting
   or calling anything (1103), no kernel interest entry survives an unregistration, on either epoll method and with
   EINTR on epoll_ctl (1104) *)
Theorem C15_guard_monitor :
  forall sc, wf_scenario sc -> mon_guard sc (run_scenario sc) = true.
Proof. exact core_gmon_all. Qed.
Print Assumptions C15_guard_monitor.

(* non-vacuity: the same program is well-formed on all four methods, without faults and with faults (epoll_pwait2,
   timerfd, ppoll, eventfd2 and eventfd missing; the second wait interrupted), runs every kind of callback in both
   cases, sees an EINTR return in the faulty runs, and all monitors are silent *)
Example C15_nonvacuous :
  forall be, In be [0; 1; 2; 3] ->
    wf_scenario (ex_all be) /\ In (TCallFd 0 0 1 7) (run_scenario (ex_all be)) /\ In (TCallRaw 0) (run_scenario (ex_all be)) /\
    mon_fails (run_scenario (ex_all be)) = [] /\
    wf_scenario (ex_all_f be) /\ has_eintr (run_scenario (ex_all_f be)) = true /\ calls_fd (run_scenario (ex_all_f be)) = true /\
    calls_raw (run_scenario (ex_all_f be)) = true /\ calls_timer (run_scenario (ex_all_f be)) = true /\
    mon_fails (run_scenario (ex_all_f be)) = [] /\ gmon_fails (ex_all_f be) (run_scenario (ex_all_f be)) = [].
Proof.
  intros be H.
  assert (Hb : 0 <= be <= 3) by (cbn [In] in H; intuition lia).
  pose proof (ex_all_runs be H) as R. cbv zeta in R.
  pose proof (ex_all_f_runs be H) as F. cbv zeta in F.
  destruct R as (R1 & _ & _ & _ & R5 & _ & _ & _ & _ & R10 & _).
  destruct F as (F1 & F2 & F3 & F4 & F5 & F6).
  exact (conj (ex_all_wf be Hb) (conj R1 (conj R5 (conj R10 (conj (ex_all_f_wf be Hb)
          (conj F1 (conj F2 (conj F3 (conj F4 (conj F5 F6)))))))))).
Qed.
