(* Properties_C08.v -- property C08: iv_event posts from any thread are never lost,
   over-delivered or misrouted.  Statements only; every proof is `exact <lemma of
   MT/EventMTProofs.v or MT/EventMTMon.v>`.

   Reading guide.  `exec (init o r) ls = Some s` says: the label sequence ls (the
   abstraction of a baton-scheduler log, docs/MT_GUIDE.md) is ACCEPTED by the
   transition system MT/EventMT.v of the owner loop o with transport r (false =
   epoll one-shot kick, true = raw event descriptor), ending in state s.  ls ranges
   over ALL sequences: any number of threads and events, any post / handler /
   register / unregister program, any interleaving at the yield points.  What is
   excluded is excluded by `step` itself (API misuse): a post to an unregistered
   event, unregistering an event while another thread is inside iv_event_post of
   it, API calls by the owner from inside the locked phases.
   Ghost state: posts_begun / handler_starts (= numbers of PostBegin / Handler
   labels, C08_ghost_counts) and owed (set in the poster's critical section,
   cleared when the event is unlinked for its handler). *)
From Coq Require Import List Bool Arith.
From Ivv Require Import MT.EventMT MT.EventMTLemmas MT.EventMTProofs MT.EventMTMon.
Import ListNotations.

(* M2 + M3: while posts are pending something will still wake the owner up -- an armed kick /
   non-zero raw counter, the registered events_local task, a poster that decided post = 1 and has
   not yet kicked (it holds the mutex or sits between its unlock and its kick), or the owner has
   consumed the wake-up and not yet taken the list; every owed event is on the pending list or in
   the stolen batch. *)
Theorem C08_wakeup_invariant :
  forall o r ls s, exec (init o r) ls = Some s ->
    (pending s <> [] ->
       0 < kick s \/ local s = true \/
       (exists t e, get t (thr s) = PLocked e true \/ get t (thr s) = PAtKick e true) \/
       run s = RWoken) /\
    (forall e, owed s e = true -> In e (pending s) \/ In e (batch s)).
Proof. exact wakeup_invariant. Qed.
Print Assumptions C08_wakeup_invariant.

(* No lost post, state form: whenever the owner is blocked in the kernel with nothing that could
   wake it (run = RBlocked, kick = 0) and every thread is between operations, nothing is pending,
   nothing is left of a stolen batch, no event (registered or not) is owed, no local task is
   registered. *)
Theorem C08_no_lost_post :
  forall o r ls s, exec (init o r) ls = Some s ->
    owner_blocked s -> all_between s ->
    pending s = [] /\ batch s = [] /\ (forall e, owed s e = false) /\ local s = false.
Proof. exact no_lost_post. Qed.
Print Assumptions C08_no_lost_post.

(* ... trace form: in such a sequence every PostBegin of e is followed, later in the sequence, by
   a handler start of e (or by e's unregistration): the handler invocation began after the post
   began. *)
Theorem C08_no_lost_post_trace :
  forall o r ls s, exec (init o r) ls = Some s ->
    owner_blocked s -> all_between s ->
    forall pre t e post, ls = pre ++ LPostBegin t e :: post -> existsb (clears e) post = true.
Proof. exact no_lost_post_trace. Qed.
Print Assumptions C08_no_lost_post_trace.

(* ... in particular at the end of a run: an accepted sequence that ends with the end-of-run
   label while iv_main of the owner has not returned ended QUIESCENT, with the owner blocked, and
   nothing is pending or owed. *)
Theorem C08_no_lost_post_quiescent :
  forall o r ls q s, exec (init o r) (ls ++ [LEnd q]) = Some s ->
    run s <> RExited ->
    q = true /\ pending s = [] /\ batch s = [] /\ (forall e, owed s e = false).
Proof. exact quiescent_no_lost_post. Qed.
Print Assumptions C08_no_lost_post_quiescent.

(* M5: never more handler starts than posts, per event, in every reachable state ... *)
Theorem C08_no_over_delivery :
  forall o r ls s e, exec (init o r) ls = Some s -> handler_starts s e <= posts_begun s e.
Proof. exact no_over_delivery. Qed.
Print Assumptions C08_no_over_delivery.

(* ... where the ghost counters are the numbers of labels in the sequence, so on the trace: *)
Theorem C08_ghost_counts :
  forall o r ls s e, exec (init o r) ls = Some s ->
    posts_begun s e = n_posts e ls /\ handler_starts s e = n_starts e ls.
Proof. exact ghost_counts. Qed.
Print Assumptions C08_ghost_counts.

Theorem C08_no_over_delivery_trace :
  forall o r ls s e, exec (init o r) ls = Some s -> n_starts e ls <= n_posts e ls.
Proof. exact no_over_delivery_trace. Qed.
Print Assumptions C08_no_over_delivery_trace.

(* Handlers run in the owner thread only. *)
Theorem C08_owner_only :
  forall ls s0 s', exec s0 ls = Some s' ->
    Forall (fun l => match l with LHandler t _ => t = own s0 | _ => True end) ls.
Proof. exact owner_only. Qed.
Print Assumptions C08_owner_only.

(* Handlers run unlocked, and only for an event that was unlinked from the stolen batch under the
   mutex just before: at every Handler label of an accepted sequence the thread is the owner, the
   owner does not hold event_list_mutex, is outside iv_event_post / iv_event_unregister, and is at
   the "unlocked, about to call e's handler" point. *)
Theorem C08_handler_unlocked :
  forall pre t e post s0 s', exec s0 (pre ++ LHandler t e :: post) = Some s' ->
    exists s, exec s0 pre = Some s /\ t = own s /\ (exists last, run s = RToHandler e last) /\
              lock s <> Some t /\ get t (thr s) = PIdle.
Proof. exact handler_in_trace. Qed.
Print Assumptions C08_handler_unlocked.

(* M1: at most one thread is inside a critical section of event_list_mutex. *)
Theorem C08_lock_exclusive :
  forall o r ls s t u, exec (init o r) ls = Some s ->
    locked_ppc (get t (thr s)) = true \/ (t = own s /\ get t (thr s) = PIdle /\ run_locked (run s) = true) ->
    locked_ppc (get u (thr s)) = true \/ (u = own s /\ get u (thr s) = PIdle /\ run_locked (run s) = true) ->
    t = u.
Proof. exact lock_exclusive. Qed.
Print Assumptions C08_lock_exclusive.

(* The log monitor (posts vs handler starts per event, handler thread = owner, nothing owed at
   the end of the run unless iv_main had returned) accepts every sequence the model accepts; also
   for a system of loops (product of per-loop acceptors on the projected labels). *)
Theorem C08_monitor_accepts :
  forall o r ls, accepts o r ls = true -> monitor o ls = true.
Proof. exact monitor_accepts. Qed.
Print Assumptions C08_monitor_accepts.

Theorem C08_system_monitor_accepts :
  forall r owners gl, gaccepts r owners gl = true -> gmonitor owners gl = true.
Proof. exact gmonitor_accepts. Qed.
Print Assumptions C08_system_monitor_accepts.

(* Non-vacuity: two real logs of harness/ivmt on /repo (abstracted by ocaml/eventmt_drv.ml.in).
   (1) backend et, scenario "Bet;M20;Z012012;L0:er0 er1;P1:ep0.0 ep0.1 ep0.0;P2:ep0.1 y ep0.0;H0e0:-/-/eu0;H0e1:-/eu1":
   the owner blocks; poster 1 makes the list non-empty and is switched out between its unlock and
   its kick; poster 2 completes two (coalesced, kick-less) posts in between; then 1 kicks; the owner
   wakes, steals [0;1], runs both handlers and blocks again: QUIESCENT with nothing owed. *)
Definition c08_log_epoll : list label :=
  [LRegister 0; LRegister 1; LWaitBlock;
   LPostBegin 1 0; LLock 1; LUnlock 1;
   LPostBegin 2 1; LLock 2; LUnlock 2; LPostEnd 2; LPostBegin 2 0; LLock 2; LUnlock 2; LPostEnd 2;
   LKick 1; LPostEnd 1;
   LPostBegin 1 1; LLock 1; LUnlock 1; LPostEnd 1; LPostBegin 1 0; LLock 1; LUnlock 1; LPostEnd 1;
   LWaitRet true; LLock 0; LUnlock 0; LHandler 0 0; LLock 0; LUnlock 0; LHandler 0 1;
   LWaitBlock; LEnd true].

(* (2) backend pp (raw descriptor), scenario
   "Bpp;M20;Z012012;L0:er0 er1 ep0.1;P1:ep0.0 ep0.1 ep0.0;P2:ep0.1 y ep0.0;H0e0:-/ep0.1/eu0;H0e1:-/eu1": the owner posts
   to itself before iv_main (events_local task), posters interleave with the task's run, a handler
   unregisters its own event, a post begun before a handler start is served by the next one. *)
Definition c08_log_raw : list label :=
  [LRegister 0; LRegister 1; LPostBegin 0 1; LLock 0; LUnlock 0; LPostEnd 0; LPostBegin 2 1; LLock 0; LUnlock 0;
   LPostBegin 1 0; LLock 2; LUnlock 2; LRawW 2; LPostEnd 2; LPostBegin 2 0; LLock 2; LUnlock 2; LPostEnd 2;
   LHandler 0 1; LWaitRet false; LRawR; LLock 0; LUnlock 0; LHandler 0 1; LUnregister 1; LLock 0; LUnlock 0;
   LLock 0; LUnlock 0; LHandler 0 0; LWaitBlock; LLock 1; LUnlock 1; LRawW 1; LPostEnd 1; LPostBegin 1 0; LLock 1;
   LUnlock 1; LPostEnd 1; LWaitRet false; LRawR; LLock 0; LUnlock 0; LHandler 0 0; LWaitBlock; LEnd true].

Definition quiescent_ok (o : nat) (r : bool) (ls : list label) : bool :=
  match exec (init o r) ls with
  | Some s => is_nil (pending s) && is_nil (batch s) && all_idle (thr s) && Nat.eqb (kick s) 0 &&
              match run s with RBlocked => true | _ => false end
  | None => false
  end.

Example C08_nonvacuous :
  accepts 0 false c08_log_epoll = true /\ monitor 0 c08_log_epoll = true /\ quiescent_ok 0 false c08_log_epoll = true /\
  n_posts 0 c08_log_epoll = 3 /\ n_starts 0 c08_log_epoll = 1 /\
  accepts 0 true c08_log_raw = true /\ monitor 0 c08_log_raw = true /\ quiescent_ok 0 true c08_log_raw = true /\
  (* the model is not the trivial acceptor: the same logs with the kick removed, with the handler in
     another thread, with a handler start too many, or with the wrong transport are rejected *)
  accepts 0 false (filter (fun l => match l with LKick _ => false | _ => true end) c08_log_epoll) = false /\
  accepts 0 false (map (fun l => match l with LHandler _ e => LHandler 1 e | _ => l end) c08_log_epoll) = false /\
  accepts 0 false (c08_log_epoll ++ [LHandler 0 0]) = false /\
  accepts 0 true c08_log_epoll = false /\
  (* and the monitor alone rejects a lost post and an over-delivery *)
  monitor 0 [LRegister 0; LWaitBlock; LPostBegin 1 0; LLock 1; LUnlock 1; LPostEnd 1; LEnd true] = false /\
  monitor 0 [LRegister 0; LPostBegin 1 0; LHandler 0 0; LHandler 0 0] = false.
Proof. vm_compute. repeat split; reflexivity. Qed.

(* ---- tie (a): the poster side of the model IS the current C text of iv_event_post (MT/EventLink.v; Gen/LeafCoreEvent.v is
   re-translated from /repo/src/iv_event.c by gen/c2gallina.py on every run of this check) ---- *)
From Coq Require Import ZArith.
From Ivv Require Import Base.CSem Gen.LeafCoreEvent MT.EventLink.

Theorem C08_post_cs_is_the_code :
  forall s t e,
  let queued := mem e (pending s) || mem e (batch s) in
  post_appends_code queued = Some (negb queued) /\
  pending (post_cs s t e) = (if negb queued then pending s ++ [e] else pending s) /\
  (exists p, post_flag_code queued (is_nil (pending s)) = Some p /\
             get t (thr (post_cs s t e)) = PLocked e p) /\
  lock (post_cs s t e) = Some t.
Proof. exact post_cs_is_the_code. Qed.
Print Assumptions C08_post_cs_is_the_code.

Theorem C08_accepted_wake_is_the_code :
  forall s t e p,
  get t (thr s) = PAtKick e p ->
  match wake_code p (Nat.eqb t (own s)) (raw s) with
  | Some WNone => step s (LPostEnd t) <> None /\ step s (LKick t) = None /\ step s (LRawW t) = None
  | Some WTask => (exists s', step s (LPostEnd t) = Some s' /\ local s' = true) /\
                  step s (LKick t) = None /\ step s (LRawW t) = None
  | Some WRaw => step s (LRawW t) <> None /\ step s (LKick t) = None /\ step s (LPostEnd t) = None
  | Some WKick => step s (LKick t) <> None /\ step s (LRawW t) = None /\ step s (LPostEnd t) = None
  | None => False
  end.
Proof. exact accepted_wake_is_the_code. Qed.
Print Assumptions C08_accepted_wake_is_the_code.
