(* Properties_C20.v -- property C20: iv_inotify routes events to their watch;
   unregistering in handlers is safe.  Statements only; every proof is
   `exact <lemma of Misc/Inotify{Codec,Proofs}.v>`.

   Reading guide.  `s` ranges over all states satisfying the invariant Inv
   (Misc/InotifySpec.v) with no read in progress (frame s = None): these are
   exactly what any history of guarded API calls and reads reaches
   (C20_unregister_in_handler_safe, first theorem).  `sc` ranges over ALL handler
   scripts (watch id -> event cookie -> list of register / unregister calls on any
   watch or instance), `evs` over all lists of well-formed events (any number,
   with and without names), `pre` over any number of interrupted reads. *)
From Coq Require Import List ZArith Bool.
From Ivv Require Import Misc.InotifyModel Misc.InotifyMonitor Misc.InotifySpec Misc.InotifyCodec Misc.InotifyProofs.
From Ivv Require Gen.LeafInotify Misc.InotifyLink.
Import ListNotations.
Local Open Scope Z_scope.

(* The record codec: parsing the bytes of any list of events gives the events
   back (wd sign, all 32 mask and cookie bits, names of any length including
   none), for every fuel that is at least the buffer length.  Assumption on
   len (wf_event): it is the number of name bytes that follow, fits 32 bits and
   is a multiple of 4 -- the kernel pads to a multiple of 16. *)
Theorem C20_parse_roundtrip :
  forall evs fuel, Forall wf_event evs -> (length (encode evs) <= fuel)%nat ->
    decode fuel (encode evs) = Some evs.
Proof. exact decode_encode. Qed.
Print Assumptions C20_parse_roundtrip.

(* ... and the parse loop of iv_inotify_got_event on those bytes (header at
   curr, advance by len + 16, alignment, truncation checks) is the dispatch of
   the events one by one: no Truncated / Misaligned / fuel outcome. *)
Theorem C20_parse_loop :
  forall sc evs fuel s, Forall wf_event evs -> (length (encode evs) <= fuel)%nat ->
    loop fuel sc s true (encode evs) = loop_ev sc s evs.
Proof. exact loop_encode. Qed.
Print Assumptions C20_parse_loop.

(* THE RECORD WALK OF THE MODEL IS THE CODE.  Gen/LeafInotify.v is regenerated on every run by gen/c2gallina.py from the
   clang AST of the current src/iv_inotify.c, C semantics explicit (Base/CSem.v: pointer arithmetic = address arithmetic
   inside [0, 2^64), uint32_t -> size_t sum modulo 2^64, sizeof evaluated by clang; None = undefined): the size handed to
   read(), `if (ret <= 0)`, `if (ret == 0)`, `curr = event_queue`, `end = event_queue + ret`, `while (curr < end)`,
   `event = curr`, `if (event->mask & IN_IGNORED || w->mask & IN_ONESHOT)`, `curr += event->len + sizeof(struct
   inotify_event)`, `if (this == NULL)`.  With `view curr end rest` = "the pointers delimit exactly the model's byte list
   rest": read size = QUEUE_SIZE; the ret tests distinguish empty / non-empty / -1 as the model does; the two
   initialisations establish the view of the bytes read; the loop test sees exactly whether rest is empty; for every
   record the model accepts (parse_header, has_bytes) the advance is defined, adds len + 16 and re-establishes the view of
   the model's zskip (len + 16) rest; the deletion test is the model's two testbits; `this == NULL` is address 0. *)
Theorem C20_record_walk_is_the_code :
  Ivv.Gen.LeafInotify.inotify_read_size tt = Some QUEUE_SIZE /\
  (forall q : list Z,
     Ivv.Gen.LeafInotify.inotify_nothing_read (zlength q) = Some (match q with [] => true | _ :: _ => false end) /\
     Ivv.Gen.LeafInotify.inotify_read_zero (zlength q) = Some (match q with [] => true | _ :: _ => false end)) /\
  (Ivv.Gen.LeafInotify.inotify_nothing_read (-1) = Some true /\ Ivv.Gen.LeafInotify.inotify_read_zero (-1) = Some false) /\
  (forall base q, 0 <= base -> base + zlength q < 2 ^ 64 ->
     exists curr end_, Ivv.Gen.LeafInotify.inotify_curr_init base = Some curr /\
                       Ivv.Gen.LeafInotify.inotify_end_init base (zlength q) = Some end_ /\
                       Ivv.Misc.InotifyLink.view curr end_ q) /\
  (forall curr end_ rest, Ivv.Misc.InotifyLink.view curr end_ rest ->
     Ivv.Gen.LeafInotify.inotify_loop_test curr end_ = Some (match rest with [] => false | _ :: _ => true end)) /\
  (forall curr, Ivv.Gen.LeafInotify.inotify_event_at curr = Some curr) /\
  (forall curr end_ rest wd mask cookie len after,
     Ivv.Misc.InotifyLink.view curr end_ rest -> 0 <= curr -> end_ < 2 ^ 64 -> 0 <= len < 2 ^ 32 ->
     parse_header rest = Some (wd, mask, cookie, len, after) -> has_bytes len after = true ->
     Ivv.Gen.LeafInotify.inotify_advance curr len = Some (curr + (len + 16)) /\
     Ivv.Misc.InotifyLink.view (curr + (len + 16)) end_ (zskip (len + 16) rest)) /\
  (forall mask wmask,
     Ivv.Gen.LeafInotify.inotify_dropped_test mask wmask =
     Some (Z.testbit mask IN_IGNORED_BIT || Z.testbit wmask IN_ONESHOT_BIT)) /\
  (forall a, Ivv.Gen.LeafInotify.inotify_gone_test a = Some (a =? 0)).
Proof. exact Ivv.Misc.InotifyLink.inotify_link_all. Qed.
Print Assumptions C20_record_walk_is_the_code.

(* Routing: one call of the fd handler whose read (after any number of EINTRs)
   returns the events evs succeeds, and its handler calls are exactly those of
   `routed`: in buffer order, each event to the watch registered under its wd
   on this instance at that moment, to nobody when there is none, nothing after
   the instance was unregistered; the delivered events are a subsequence of evs
   with their own fields.  The state afterwards satisfies the invariant. *)
Theorem C20_routing :
  forall sc s i ir evs pre,
    Inv s -> frame s = None -> itab s i = Some ir ->
    Forall wf_event evs -> evs <> [] -> enc_len evs <= 65536 -> eintrs pre ->
    exists s2 tr,
      got_event sc s i (pre ++ [RData (encode evs)]) = (Ok (leave s2), tr) /\
      routed sc i (enter s i ir) evs tr s2 /\
      sublist (map ev_of tr) evs /\
      Inv (leave s2) /\ frame (leave s2) = None.
Proof. exact c20_routing. Qed.
Print Assumptions C20_routing.

(* A read that returns EAGAIN (after any number of EINTRs) delivers nothing and changes nothing. *)
Theorem C20_routing_eagain :
  forall sc s i ir pre, itab s i = Some ir -> eintrs pre ->
    got_event sc s i (pre ++ [RAgain]) = (Ok s, []).
Proof. exact c20_eagain. Qed.
Print Assumptions C20_routing_eagain.

(* Kernel-removed (IN_IGNORED) and one-shot watches are out of the instance's
   set when their handler runs; every other watch is still in it under the wd
   of the event. *)
Theorem C20_dropped_before_handler :
  forall sc s i ir evs pre,
    Inv s -> frame s = None -> itab s i = Some ir ->
    Forall wf_event evs -> evs <> [] -> enc_len evs <= 65536 -> eintrs pre ->
    exists s' tr, got_event sc s i (pre ++ [RData (encode evs)]) = (Ok s', tr) /\ Forall drop_ok tr.
Proof. exact c20_dropped. Qed.
Print Assumptions C20_dropped_before_handler.

(* Unregistering in handlers is safe.
   (1) Every history of guarded operations from the initial state -- top-level
   register / unregister of instances and watches, reads with arbitrary handler
   scripts that unregister themselves, other watches, the instance, or register
   new ones -- ends Ok or in iv_fatal (empty / failed read): never
   UseAfterFree, WildWrite, BadDelete, Truncated, Misaligned; the invariant holds. *)
Theorem C20_unregister_in_handler_safe :
  forall sc ops, Forall wf_op ops ->
    memory_safe (fst (run_ops sc init ops)) /\
    forall s, fst (run_ops sc init ops) = Ok s -> Inv s /\ frame s = None.
Proof. exact c20_history_safe. Qed.
Print Assumptions C20_unregister_in_handler_safe.

(* (2) Within one read: once a handler unregistered the instance nothing more is
   delivered; a watch that a handler unregistered (rc 0), or that was dropped
   before its handler, gets no delivery for the rest of the read unless a
   handler registered it again in between. *)
Theorem C20_unregister_in_handler_suppresses :
  forall sc s i ir evs pre,
    Inv s -> frame s = None -> itab s i = Some ir ->
    Forall wf_event evs -> evs <> [] -> enc_len evs <= 65536 -> eintrs pre ->
    exists s' tr, got_event sc s i (pre ++ [RData (encode evs)]) = (Ok s', tr) /\ Inv s' /\ frame s' = None /\
      forall tr1 d tr2, tr = tr1 ++ d :: tr2 ->
        (unreg_inst i (d_acts d) = true -> tr2 = []) /\
        (forall w, kills d w -> forall t1 d' t2, tr2 = t1 ++ d' :: t2 -> no_reg w t1 -> d_w d' <> w).
Proof. exact c20_unregister_safe. Qed.
Print Assumptions C20_unregister_in_handler_suppresses.

(* Unregistering an instance right after registering it (no event handled):
   iv_inotify_unregister returns without the wild write, and after the free the
   state is the one before the registration. *)
Theorem C20_unregister_fresh_instance :
  forall s i, Inv s -> itab s i = None ->
    exists s1 s2,
      do_act s (ARegI i true) = (Ok s1, 0) /\
      instance_unregister s1 i = Ok s1 /\
      do_act s1 (AUnregI i) = (Ok s2, 0) /\
      (forall j, itab s2 j = itab s j) /\ (forall w, wtab s2 w = wtab s w) /\ frame s2 = frame s.
Proof. exact c20_fresh. Qed.
Print Assumptions C20_unregister_fresh_instance.

(* More generally, outside a read ->term is NULL in every live instance, so
   unregistering any of them writes nowhere. *)
Theorem C20_unregister_quiescent_instance :
  forall s i ir, Inv s -> frame s = None -> itab s i = Some ir -> instance_unregister s i = Ok s.
Proof. exact c20_unregister_quiescent. Qed.
Print Assumptions C20_unregister_quiescent_instance.

(* The monitor run on implementation traces accepts every read of the model ... *)
Theorem C20_monitor_accepts :
  forall sc s i ir evs pre,
    Inv s -> frame s = None -> itab s i = Some ir ->
    Forall wf_event evs -> evs <> [] -> enc_len evs <= 65536 -> eintrs pre ->
    exists s' tr, got_event sc s i (pre ++ [RData (encode evs)]) = (Ok s', tr) /\
                  mon_feed sc i (i_watches ir) evs tr = true.
Proof. exact c20_monitor_accepts. Qed.
Print Assumptions C20_monitor_accepts.

(* ... and whatever trace it accepts (model or implementation) has the order and
   suppression clauses of the property. *)
Theorem C20_monitor_sound :
  forall sc i c0 evs tr, mon_feed sc i c0 evs tr = true ->
    sublist (map ev_of tr) evs /\
    forall tr1 d tr2, tr = tr1 ++ d :: tr2 ->
      (unreg_inst i (d_acts d) = true -> tr2 = []) /\
      (forall w, kills d w -> forall t1 d' t2, tr2 = t1 ++ d' :: t2 -> no_reg w t1 -> d_w d' <> w).
Proof. exact c20_monitor_sound. Qed.
Print Assumptions C20_monitor_sound.

(* wd -1 is the descriptor of no watch.  It is what inotify_add_watch answers when it fails and the wd
   of the kernel's queue-overflow events.
   (1) In the model: a registration for which inotify_add_watch answers -1 returns -1 (rc 1: the harness
   guard skipped the call) and changes no watch set, no watch table entry, nothing; in every reachable
   state (Inv, first theorem of C20_unregister_in_handler_safe) an event with wd -1 is for no watch. *)
Theorem C20_failed_registration :
  forall s w i m, Inv s ->
    exists s' rc, do_act s (ARegW w i (-1) m) = (Ok s', rc) /\ (rc = -1 \/ rc = 1) /\ Inv s' /\
      (forall j, watches_of s' j = watches_of s j) /\ (forall x, wtab s' x = wtab s x) /\ frame s' = frame s.
Proof. exact c20_failed_registration. Qed.
Print Assumptions C20_failed_registration.

Theorem C20_overflow_event_unrouted :
  forall s i, Inv s -> reg_of s i (-1) = None.
Proof. exact c20_overflow_unrouted. Qed.
Print Assumptions C20_overflow_event_unrouted.

(* (2) The monitor decides this on implementation traces against the scenario's oracle (the wd that the
   interposed inotify_add_watch returns), not against the implementation's own return code and tree: a
   read it accepts started from a watch set without an entry under -1, delivered no event with wd -1,
   contains no successful registration answered -1, and leaves no entry under -1 at any handler exit. *)
Theorem C20_monitor_sound_no_watch :
  forall sc i c0 evs tr, mon_feed sc i c0 evs tr = true ->
    (forall w, ~ In (-1, w) c0) /\ Forall nowd_ok tr.
Proof. exact c20_monitor_sound_nowd. Qed.
Print Assumptions C20_monitor_sound_no_watch.

(* (3) Top-level action records (dumps of the instances `ids` before and after, the action, its rc): the
   monitor accepts every action of the model from every reachable state ... *)
Theorem C20_monitor_act_accepts :
  forall s a ids, Inv s ->
    exists s' rc, do_act s a = (Ok s', rc) /\ Inv s' /\
                  mon_act (dumps_of s ids) (dumps_of s' ids) a rc = true.
Proof. exact c20_monitor_act_accepts. Qed.
Print Assumptions C20_monitor_act_accepts.

(* ... and a record it accepts has no entry under -1 in any dump and, when the oracle answered -1,
   rc -1 (or 1) and unchanged dumps. *)
Theorem C20_monitor_act_sound :
  forall before after a rc, mon_act before after a rc = true ->
    (forall i l w, In (i, l) after -> ~ In (-1, w) l) /\
    (forall w i m, a = ARegW w i (-1) m -> (rc = -1 \/ rc = 1) /\ after = before).
Proof. exact c20_monitor_act_sound. Qed.
Print Assumptions C20_monitor_act_sound.

(* The behaviour of iv_inotify_watch_register without `if (w->wd == -1) return -1;`, as observed on
   `I1 W1@1:-1:100 F1=/-1:4000:0: J1`: the registration returns 0 with the watch in the tree under -1,
   and the queue-overflow event of the next read reaches its handler.  The model does neither, and the
   monitor rejects both records although they are consistent with the implementation's own rc and tree. *)
Example C20_failed_registration_regression :
  let ovf := {| e_wd := -1; e_mask := 16384; e_cookie := 0; e_name := [] |} in
  let d := {| d_w := 1%positive; d_wd := -1; d_mask := 16384; d_cookie := 0; d_name := []; d_wmask := 256;
              d_entry := [(-1, 1%positive)]; d_acts := []; d_exit := Some [(-1, 1%positive)] |} in
  match run_ops (fun _ _ => []) init
          [OAct (ARegI 1%positive true); OAct (ARegW 1%positive 1%positive (-1) 256);
           OFeed 1%positive [RData (encode [ovf])]] with
  | (Ok s, [(0, []); (-1, []); (0, [])]) =>
      match dump s 1%positive with Some [] => true | _ => false end
  | _ => false
  end = true /\
  mon_act [(1%positive, [])] [(1%positive, [])] (ARegW 1%positive 1%positive (-1) 256) (-1) = true /\
  mon_act [(1%positive, [])] [(1%positive, [(-1, 1%positive)])] (ARegW 1%positive 1%positive (-1) 256) 0 = false /\
  mon_feed (fun _ _ => []) 1%positive [] [ovf] [] = true /\
  mon_feed (fun _ _ => []) 1%positive [(-1, 1%positive)] [ovf] [d] = false /\
  mon_feed (fun _ _ => []) 1%positive [] [ovf] [d] = false.
Proof. vm_compute. repeat split; reflexivity. Qed.

(* The defect fixed by 93a6820, as a modelled outcome: iv_inotify_register
   without `this->term = NULL` leaves ->term as malloc left it, and the first
   unregister writes through it. *)
Definition instance_register_unfixed (s : state) (i : id) : state :=
  set_inst s i {| i_watches := []; i_term := i_term fresh_inst |}.

Example C20_term_uninit_regression :
  instance_unregister (instance_register_unfixed init 1%positive) 1%positive = WildWrite.
Proof. reflexivity. Qed.

(* Non-vacuity: one instance, three watches (watch 2 one-shot), ONE read of six
   events after an EINTR, two of them named.  The handler of watch 1 unregisters
   watch 3 (whose event comes later in the buffer) and registers watch 2 again
   under wd 9; the handler of the new watch 2 unregisters the instance.
   Delivered: watch 2 (wd 3, dropped first), watch 1, watch 2 (wd 9); the events
   for wd 8, the second one for wd 3 and the last one for wd 5 reach nobody. *)
Definition ex_sc : scripts := fun w ck =>
  if Pos.eqb w 1 && (ck =? 2) then [AUnregW 3%positive; ARegW 2%positive 1%positive 9 256]
  else if Pos.eqb w 2 && (ck =? 7) then [AUnregI 1%positive]
  else [].
Definition ex_ev (wd ck : Z) (name : list Z) : event :=
  {| e_wd := wd; e_mask := 2; e_cookie := ck; e_name := name |}.
Definition ex_evs : list event :=
  [ex_ev 3 0 []; ex_ev 5 2 ([102; 111; 111] ++ repeat 0 13); ex_ev 8 0 []; ex_ev 3 0 (repeat 0 16);
   ex_ev 9 7 []; ex_ev 5 0 []].
Definition ex_ops : list op :=
  [OAct (ARegI 1%positive true); OAct (ARegW 1%positive 1%positive 5 256);
   OAct (ARegW 2%positive 1%positive 3 2147483904); OAct (ARegW 3%positive 1%positive 8 2);
   OFeed 1%positive [REintr; RData (encode ex_evs)]].

Example C20_nonvacuous :
  Forall wf_event ex_evs /\ Forall wf_op ex_ops /\
  match run_ops ex_sc init ex_ops with
  | (Ok s, lg) =>
      negb (live s 1%positive) &&
      match last lg (0, []) with
      | (rc, tr) =>
          (rc =? 0) &&
          match map d_w tr with
          | [2%positive; 1%positive; 2%positive] => true
          | _ => false
          end &&
          mon_feed ex_sc 1%positive [(3, 2%positive); (5, 1%positive); (8, 3%positive)] ex_evs tr
      end
  | _ => false
  end = true.
Proof.
  split; [|split].
  - repeat constructor; vm_compute; try reflexivity; intros; discriminate.
  - repeat constructor. exists ex_evs. split; [reflexivity|]. split; [|vm_compute; intros; discriminate].
    repeat constructor; vm_compute; try reflexivity; intros; discriminate.
  - vm_compute. reflexivity.
Qed.
