(* Properties_C06.v -- property C06: Tasks run exactly once before the loop sleeps and cannot starve polling.  Statements only.
   Every theorem quantifies over ALL well-formed scenarios: all handler scripts, all kernel behaviours the scenario
   language can express, all four poll methods, all fault sets, any wait limit.
   STATUS: the full statement of this property on the core model is `mon_C06 (run_scenario sc) = true`
   (see Properties_C06.v.draft); the theorems below are the monitor clauses already proved (named _partial);
   the remaining clauses (602 603 604, 1101 1102) are checked on every implementation AND model trace by the extracted monitor
   while their proofs are being completed. *)
From Coq Require Import List ZArith Bool.
From Ivv Require Import Core.Kernel Core.CoreTypes Core.CoreFd Core.CoreModel Core.Monitors Core.CoreSpec
  Core.CoreRel Core.CoreCodes.
Import ListNotations.
Local Open Scope Z_scope.

(* a task callback is only for a registered task, and the task is unregistered by then (the tracker clears it at the
   callback, so a second callback without re-registration would be clause 103) *)
Theorem C06_exactly_once_partial :
  forall sc, wf_scenario sc -> no_code [103] (mon_fails (run_scenario sc)).
Proof. intros sc Hwf. eapply no_code_sub; [|exact (codes_C01 sc Hwf)]. simpl; intros c Hc; intuition. Qed.
Print Assumptions C06_exactly_once_partial.

