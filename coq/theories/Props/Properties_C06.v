(* Properties_C06.v -- property C06: Tasks run exactly once before the loop sleeps and cannot starve polling.  Statements only.
   Every theorem quantifies over ALL well-formed scenarios: all handler scripts, all kernel behaviours the scenario
   language can express (conditions changed at any point, ready order rotations, external posts), all four poll
   methods, all fault sets (EINTR at any wait / epoll_ctl, missing system calls), any wait limit. *)
From Coq Require Import List ZArith Bool Lia.
From Ivv Require Import Core.Kernel Core.CoreTypes Core.CoreFd Core.CoreModel Core.Monitors Core.GuardMon Core.CoreSpec
  Core.CoreInv Core.CoreRel Core.CorePhase2Time Core.CorePhase2Guard Core.FairMon Core.FairMonProof Core.CoreExamples.
Import ListNotations.
Local Open Scope Z_scope.

Definition no_code (codes : list Z) (tr : list Z) : Prop := forall c, In c tr -> ~ In c codes.

(* a task callback only for a registered task (103), never twice without a kernel poll in between (603), the loop
   never sleeps (602) nor blocks for ever (604) with a task registered; re-registration from its own handler is
   executed, i.e. the task is unregistered on entry (guard monitor 1101/1102) *)
Theorem C06_tasks :
  forall sc, wf_scenario sc -> mon_C06 (run_scenario sc) = true.
Proof. exact core_mon_C06. Qed.
Print Assumptions C06_tasks.

(* the scripted API calls that the documented state allows are all executed and no other: in particular a task
   re-registered from its own handler IS registered again (it was unregistered on entry), a task registered by another
   task's handler is registered for the next iteration (guard monitor clauses 1101/1102) *)
Theorem C06_calls_allowed_are_made :
  forall sc, wf_scenario sc -> no_code [1101; 1102] (gmon_fails sc (run_scenario sc)).
Proof. exact core_gmon_guards. Qed.
Print Assumptions C06_calls_allowed_are_made.

(* "tasks that keep re-registering themselves or each other do not prevent ... timers ... from being serviced": every
   timer that is registered and due when a kernel wait returns (normally) is run or unregistered before the next
   kernel wait is entered -- also when that next wait is the zero-timeout poll made because tasks are pending
   (monitor Core/FairMon.v, clause 605; descriptors and events are covered by 603/707/708) *)
Theorem C06_timers_serviced :
  forall sc, wf_scenario sc -> fair_fails (run_scenario sc) = [].
Proof. exact core_fair. Qed.
Print Assumptions C06_timers_serviced.

(* non-vacuity of 605: a concrete trace on which the monitor fires (a timer due at the return of wait 1 is still
   registered when wait 2 is entered), so the clause is not trivially true *)
Example C06_fairmon_can_fail :
  fair_fails [TAct (ATmRegAbs 0 5); TWait 1 1 1 0 [] []; TRet (Some 0) [] 7; TWait 2 1 1 0 [] []] = [605].
Proof. reflexivity. Qed.

(* non-vacuity: a well-formed run on every poll method in which a task registered before iv_main runs once *)
Example C06_nonvacuous :
  forall be, In be [0; 1; 2; 3] ->
    wf_scenario (ex_all be) /\ In (TCallTask 0) (run_scenario (ex_all be)) /\ mon_fails (run_scenario (ex_all be)) = [].
Proof.
  intros be H. split; [apply ex_all_wf; cbn [In] in H; intuition lia|].
  pose proof (ex_all_runs be H) as R. cbv zeta in R. tauto.
Qed.

(* ---- tie (a): the decision points the model uses at this place ARE the current C text (Core/CoreLeafLink.v;
   Gen/LeafCore*.v is re-translated from /repo/src by gen/c2gallina.py on every run of this check) ---- *)
From Ivv Require Import Base.CSem Gen.LeafCoreFd Gen.LeafCoreTask Gen.LeafCoreMain Gen.LeafCoreEpoll Gen.LeafCorePoll Core.CoreLeafLink.

(* iv_task_register: `st->numobjs++` and the choice of the list (`tasks_current == NULL || t->epoch == st->task_epoch`)
   are the translated C; the round stamp of iv_run_tasks is the translated `epoch = ++st->task_epoch` (uint32_t) *)
Theorem C06_task_register_is_the_code :
  forall s k, int_ok (numobjs s + 1) -> task_register_code s k = Some (task_register s k).
Proof. exact task_register_is_the_code. Qed.
Print Assumptions C06_task_register_is_the_code.

Theorem C06_round_stamp_is_the_code :
  forall e, core_run_tasks_epoch e = Some ((e + 1) mod 4294967296, (e + 1) mod 4294967296).
Proof. exact run_tasks_epoch_is_the_code. Qed.
Print Assumptions C06_round_stamp_is_the_code.

Theorem C06_task_init_stamp_is_the_code :
  forall st e, st <> 0 -> core_task_init_epoch st e = Some e.
Proof. exact leaf_task_init_epoch. Qed.
Print Assumptions C06_task_init_stamp_is_the_code.

(* iv_main: tasks pending => the zero timeout {0, 0}, otherwise the soonest timer *)
From Ivv Require Import Gen.LeafCoreEvent Gen.LeafCoreLists.
Theorem C06_main_timeout_choice_is_the_code :
  forall (s : core) (soonest : option Z),
  match core_main_tasks_pending (b2z (negb (list_is_empty (tasks s)))), core_main_zero_sec tt, core_main_zero_nsec tt with
  | Some pending, Some sec, Some nsec => Some (if pending then Some (sec * 1000000000 + nsec) else soonest)
  | _, _, _ => None
  end = Some (match tasks s with _ :: _ => Some 0 | [] => soonest end).
Proof. exact main_timeout_choice_is_the_code. Qed.
Print Assumptions C06_main_timeout_choice_is_the_code.

(* non-vacuity of the hypotheses of the *_is_the_code theorems above: the initial loop state of a well-formed scenario, on
   every poll method, has its int-typed counters in int range *)
Example C06_link_hypotheses_hold :
  forall be, In be [0; 1; 2; 3] ->
    int_ok (last_abs_count (core0 (ex_all be)) + 1) /\ int_ok (numobjs (core0 (ex_all be)) + 1).
Proof.
  intros be H. cbn [In] in H. unfold int_ok.
  destruct H as [<-|[<-|[<-|[<-|[]]]]]; vm_compute; repeat split; discriminate.
Qed.
