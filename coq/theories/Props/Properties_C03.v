(* Properties_C03.v -- property C03: Descriptor handlers run only for kernel-reported conditions, right cookie.  Statements only.
   Every theorem quantifies over ALL well-formed scenarios: all handler scripts, all kernel behaviours the scenario
   language can express, all four poll methods, all fault sets, any wait limit.
   STATUS: the full statement of this property on the core model is `mon_C03 (run_scenario sc) = true /\ no_code [101] ...`
   (see Properties_C03.v.draft); the theorems below are the monitor clauses already proved (named _partial);
   the remaining clauses (303 304) are checked on every implementation AND model trace by the extracted monitor
   while their proofs are being completed. *)
From Coq Require Import List ZArith Bool.
From Ivv Require Import Core.Kernel Core.CoreTypes Core.CoreFd Core.CoreModel Core.Monitors Core.CoreSpec
  Core.CoreRel Core.CoreCodes.
Import ListNotations.
Local Open Scope Z_scope.

(* a descriptor callback is for a registered descriptor (101), through the handler currently set for that band (301),
   with that descriptor's current cookie (302) *)
Theorem C03_registered_partial :
  forall sc, wf_scenario sc -> no_code [101] (mon_fails (run_scenario sc)).
Proof. intros sc Hwf. eapply no_code_sub; [|exact (codes_C01 sc Hwf)]. simpl; intros c Hc; intuition. Qed.
Print Assumptions C03_registered_partial.

Theorem C03_handler_and_cookie_partial :
  forall sc, wf_scenario sc -> no_code [301; 302] (mon_fails (run_scenario sc)).
Proof. intros sc Hwf. eapply no_code_sub; [|exact (codes_handlers sc Hwf)]. simpl; intros c Hc; intuition. Qed.
Print Assumptions C03_handler_and_cookie_partial.

