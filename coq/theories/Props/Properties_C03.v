(* Properties_C03.v -- property C03: Descriptor handlers run only for kernel-reported conditions, right cookie.  Statements only.
   Every theorem quantifies over ALL well-formed scenarios: all handler scripts, all kernel behaviours the scenario
   language can express (conditions changed at any point, ready order rotations, external posts), all four poll
   methods, all fault sets (EINTR at any wait / epoll_ctl, missing system calls), any wait limit. *)
From Coq Require Import List ZArith Bool Lia.
From Ivv Require Import Core.Kernel Core.CoreTypes Core.CoreFd Core.CoreModel Core.Monitors Core.GuardMon Core.CoreSpec
  Core.CoreInv Core.CoreRel Core.CorePhase2Fd Core.CoreExamples.
Import ListNotations.
Local Open Scope Z_scope.

Definition no_code (codes : list Z) (tr : list Z) : Prop := forall c, In c tr -> ~ In c codes.

(* every descriptor callback: registered (101), through the handler currently set (301), with the current cookie
   (302), for a band whose condition held at the preceding kernel poll (303), at most once per iteration (304) *)
Theorem C03_calls_justified :
  forall sc, wf_scenario sc -> mon_C03 (run_scenario sc) = true /\ no_code [101] (mon_fails (run_scenario sc)).
Proof. exact core_mon_C03. Qed.
Print Assumptions C03_calls_justified.

(* non-vacuity: a well-formed run on every poll method in which the descriptor handler is called exactly for the
   reported band with the cookie set before registration *)
Example C03_nonvacuous :
  forall be, In be [0; 1; 2; 3] ->
    wf_scenario (ex_all be) /\ In (TCallFd 0 0 1 7) (run_scenario (ex_all be)) /\ mon_fails (run_scenario (ex_all be)) = [].
Proof.
  intros be H. split; [apply ex_all_wf; cbn [In] in H; intuition lia|].
  pose proof (ex_all_runs be H) as R. cbv zeta in R. tauto.
Qed.

(* ---- tie (a): the decision points the model uses at this place ARE the current C text (Core/CoreLeafLink.v;
   Gen/LeafCore*.v is re-translated from /repo/src by gen/c2gallina.py on every run of this check) ---- *)
From Ivv Require Import Base.CSem Gen.LeafCoreFd Gen.LeafCoreTask Gen.LeafCoreMain Gen.LeafCoreEpoll Gen.LeafCorePoll Core.CoreLeafLink.

(* the guards of the three handler calls of a dispatch step (`ready_bands & MASKERR`, `handled_fd != NULL &&
   ready_bands & MASKIN`, ...) and the accumulation of ready bands in iv_fd_make_ready are the translated C *)
Theorem C03_dispatch_guards_are_the_code :
  forall (handled : option Z) rb,
  core_disp_err rb = Some (has rb M_ERR) /\
  core_disp_in (ptr_of handled) rb = Some (match handled with Some _ => has rb M_IN | None => false end) /\
  core_disp_out (ptr_of handled) rb = Some (match handled with Some _ => has rb M_OUT | None => false end).
Proof. exact dispatch_guards_are_the_code. Qed.
Print Assumptions C03_dispatch_guards_are_the_code.

Theorem C03_make_ready_is_the_code :
  forall s k bands, 0 <= bands < 8 ->
  (mem_z k (active s) = true -> 0 <= ready (getfd s k) < 8) ->
  make_ready_code s k bands = Some (make_ready s k bands).
Proof. exact make_ready_is_the_code. Qed.
Print Assumptions C03_make_ready_is_the_code.
